(* SlidingTilePuzzle, part 1: the board.  Grid access lemmas (JAX gather/scatter on well-formed boards), every move is the
   transposition blank <-> neighbour or the identity at the border, tiles conserved, opposite moves cancel, the goal,
   reachability from / solvability back to the goal, the random-walk generator, the mask (C17, C04, C10).             *)
Require Import JV.Base.Prelude JV.Base.JaxIndex JV.Base.Codec JV.Base.TimeStep JV.Model.SlidingTile.
From Coq Require Import Permutation.

(* ---------- list facts ---------- *)
Lemma znth_nth {A} (d : A) l i : 0 <= i -> znth d l i = nth (Z.to_nat i) l d.
Proof. intro H. unfold znth. destruct (i <? 0) eqn:E; [lia|reflexivity]. Qed.

Lemma nth_upd {A} k m (v d : A) l :
  nth m (upd k v l) d = if (Nat.eqb k m && Nat.ltb m (length l))%bool then v else nth m l d.
Proof.
  destruct (Nat.eqb k m) eqn:E; cbn [andb].
  - apply Nat.eqb_eq in E. subst m. destruct (Nat.ltb k (length l)) eqn:L.
    + apply Nat.ltb_lt in L. apply nth_upd_same; exact L.
    + apply Nat.ltb_ge in L. rewrite !nth_overflow; auto. rewrite upd_length. exact L.
  - apply Nat.eqb_neq in E. apply nth_upd_other; exact E.
Qed.

Lemma Forall_upd {A} (P : A -> Prop) k v l : Forall P l -> P v -> Forall P (upd k v l).
Proof.
  intros H Hv. revert k; induction H as [|x l Hx Hl IH]; intros [|k]; cbn [upd]; constructor; auto.
Qed.

Lemma upd_app_l {A} k (v : A) a b : (k < length a)%nat -> upd k v (a ++ b) = upd k v a ++ b.
Proof.
  revert k; induction a as [|x a IH]; intros [|k] H; cbn [length] in H; try lia; cbn [upd Datatypes.app]; auto.
  rewrite IH by lia. reflexivity.
Qed.

Lemma upd_app_r {A} k (v : A) a b : upd (length a + k) v (a ++ b) = a ++ upd k v b.
Proof.
  induction a as [|x a IH]; cbn [length Datatypes.app Nat.add]; auto.
  destruct (x :: a ++ b) eqn:E; [discriminate|]. inversion E; subst. cbn [upd]. rewrite IH. reflexivity.
Qed.

Lemma upd_upd_same {A} k (v w : A) l : upd k v (upd k w l) = upd k v l.
Proof. revert k; induction l as [|x l IH]; intros [|k]; cbn [upd]; auto. rewrite IH. reflexivity. Qed.

(* pulling the element at position i out of x :: l *)
Lemma perm_pull {A} (d x : A) l i : (i < length l)%nat -> Permutation (x :: l) (nth i l d :: upd i x l).
Proof.
  revert i; induction l as [|h t IH]; intros [|i] H; cbn [length] in H; try lia; cbn [nth upd].
  - apply perm_swap.
  - eapply perm_trans; [apply perm_swap|]. eapply perm_trans; [apply perm_skip, (IH i); lia|]. apply perm_swap.
Qed.

(* exchanging the contents of two positions is a permutation *)
Lemma perm_exchange {A} (d : A) l i j :
  (i < length l)%nat -> (j < length l)%nat -> i <> j ->
  Permutation (upd j (nth i l d) (upd i (nth j l d) l)) l.
Proof.
  revert i j; induction l as [|h t IH]; intros [|i] [|j] Hi Hj Hne; cbn [length] in *; try lia; cbn [nth upd].
  - symmetry. apply perm_pull. lia.
  - symmetry. apply perm_pull. lia.
  - apply perm_skip. apply IH; lia.
Qed.

(* ---------- concat of equal-length rows ---------- *)
Definition rows_len {A} (n : nat) (g : list (list A)) : Prop := Forall (fun row => length row = n) g.

Lemma concat_length_rows {A} n (g : list (list A)) : rows_len n g -> length (concat g) = (length g * n)%nat.
Proof. induction 1 as [|x l Hx Hl IH]; cbn [concat length]; auto. rewrite app_length, IH, Hx. lia. Qed.

Lemma nth_concat {A} n (g : list (list A)) r c d :
  rows_len n g -> (r < length g)%nat -> (c < n)%nat -> nth (r * n + c) (concat g) d = nth c (nth r g []) d.
Proof.
  intro H; revert r; induction H as [|x l Hx Hl IH]; intros [|r] Hr Hc; cbn [length] in Hr; try lia; cbn [concat nth].
  - cbn [Nat.mul Nat.add]. rewrite app_nth1 by lia. reflexivity.
  - replace (S r * n + c)%nat with (length x + (r * n + c))%nat by (cbn [Nat.mul]; lia).
    rewrite app_nth2_plus. apply IH; lia.
Qed.

Lemma concat_upd {A} n (g : list (list A)) r c v :
  rows_len n g -> (r < length g)%nat -> (c < n)%nat ->
  concat (upd r (upd c v (nth r g [])) g) = upd (r * n + c) v (concat g).
Proof.
  intro H; revert r; induction H as [|x l Hx Hl IH]; intros [|r] Hr Hc; cbn [length] in Hr; try lia; cbn [concat nth upd].
  - cbn [Nat.mul Nat.add]. rewrite upd_app_l by lia. reflexivity.
  - replace (S r * n + c)%nat with (length x + (r * n + c))%nat by (cbn [Nat.mul]; lia).
    rewrite upd_app_r. rewrite IH by lia. reflexivity.
Qed.

(* ---------- well-formed boards; gather / scatter on them ---------- *)
Definition wf (n : Z) (g : board) : Prop := zlen g = n /\ Forall (fun row => zlen row = n) g.

Lemma wf_b_spec n g : wf_b n g = true <-> wf n g.
Proof.
  unfold wf_b, wf. rewrite andb_true_iff, forallb_forall, Forall_forall, Z.eqb_eq.
  split; intros [A B]; split; auto; intros x Hx; specialize (B x Hx); lia.
Qed.

Lemma wf_rows n g : wf n g -> rows_len (Z.to_nat n) g.
Proof. intros [_ H]. unfold rows_len. eapply Forall_impl; [|exact H]. intros row Hr. cbv beta in Hr. unfold zlen in Hr. lia. Qed.

Lemma wf_len n g : wf n g -> length g = Z.to_nat n.
Proof. intros [H _]. unfold zlen in H. lia. Qed.

Lemma wf_row n g r : wf n g -> 0 <= r < n -> zlen (nth (Z.to_nat r) g []) = n.
Proof.
  intros [L H] Hr. rewrite Forall_forall in H. apply H. apply nth_In. unfold zlen in L. lia.
Qed.

Lemma in_grid_spec n p : in_grid n p = true <-> 0 <= fst p < n /\ 0 <= snd p < n.
Proof. unfold in_grid, inb. lia. Qed.

Definition ncell (g : board) (p : cellp) : Z := nth (Z.to_nat (snd p)) (nth (Z.to_nat (fst p)) g []) 0.

Lemma cell_ncell g p : 0 <= fst p -> 0 <= snd p -> cell g p = ncell g p.
Proof. intros A B. unfold cell, ncell, gat. rewrite !znth_nth by lia. reflexivity. Qed.

Lemma pget_cell n g p : wf n g -> in_grid n p = true -> pget g p = cell g p.
Proof.
  intros W H. apply in_grid_spec in H. destruct H as [Hr Hc]. destruct W as [L R].
  unfold pget, gget. rewrite (jget_in_range [] g (fst p)) by lia.
  rewrite jget_in_range by (rewrite (wf_row n g (fst p) (conj L R)); lia).
  rewrite cell_ncell by lia. reflexivity.
Qed.

Lemma pset_spec n g p v : wf n g -> in_grid n p = true ->
  pset g p v = upd (Z.to_nat (fst p)) (upd (Z.to_nat (snd p)) v (nth (Z.to_nat (fst p)) g [])) g.
Proof.
  intros W H. apply in_grid_spec in H. destruct H as [Hr Hc]. pose proof (wf_row n g (fst p) W Hr) as RL. destruct W as [L R].
  unfold pset, gset. rewrite L.
  assert (J : jnorm n (fst p) = fst p) by (unfold jnorm; destruct (fst p <? 0) eqn:E; lia). rewrite J.
  replace ((0 <=? fst p) && (fst p <? n)) with true by lia.
  rewrite znth_nth by lia. rewrite RL.
  assert (J2 : jnorm n (snd p) = snd p) by (unfold jnorm; destruct (snd p <? 0) eqn:E; lia). rewrite J2.
  replace ((0 <=? snd p) && (snd p <? n)) with true by lia.
  unfold zupd. destruct (fst p <? 0) eqn:E1; [lia|]. destruct (snd p <? 0) eqn:E2; [lia|]. reflexivity.
Qed.

Lemma wf_pset n g p v : wf n g -> in_grid n p = true -> wf n (pset g p v).
Proof.
  intros W H. rewrite (pset_spec n g p v W H). apply in_grid_spec in H. destruct H as [Hr Hc].
  pose proof (wf_row n g (fst p) W Hr) as RL. destruct W as [L R]. split.
  - unfold zlen in *. rewrite upd_length. exact L.
  - apply Forall_upd; auto. unfold zlen in *. rewrite upd_length. exact RL.
Qed.

Lemma peqb_spec p q : peqb p q = true <-> p = q.
Proof. unfold peqb. destruct p, q; cbn [fst snd]. rewrite andb_true_iff, !Z.eqb_eq. split; [intros [A B]; congruence|intro E; inversion E; auto]. Qed.

Lemma cell_pset n g p q v : wf n g -> in_grid n p = true -> in_grid n q = true ->
  cell (pset g p v) q = if peqb q p then v else cell g q.
Proof.
  intros W Hp Hq. rewrite (pset_spec n g p v W Hp).
  apply in_grid_spec in Hp. apply in_grid_spec in Hq. destruct Hp as [Hpr Hpc]. destruct Hq as [Hqr Hqc].
  pose proof (wf_row n g (fst p) W Hpr) as RL. pose proof (wf_len n g W) as GL.
  rewrite !cell_ncell by lia. unfold ncell. rewrite nth_upd.
  destruct (Nat.eqb (Z.to_nat (fst p)) (Z.to_nat (fst q))) eqn:E1; cbn [andb].
  - apply Nat.eqb_eq in E1. replace (Nat.ltb (Z.to_nat (fst q)) (length g)) with true by (symmetry; apply Nat.ltb_lt; lia).
    rewrite nth_upd. destruct (Nat.eqb (Z.to_nat (snd p)) (Z.to_nat (snd q))) eqn:E2; cbn [andb].
    + apply Nat.eqb_eq in E2. unfold zlen in RL.
      replace (Nat.ltb (Z.to_nat (snd q)) (length (nth (Z.to_nat (fst p)) g []))) with true by (symmetry; apply Nat.ltb_lt; lia).
      replace (peqb q p) with true; [reflexivity|]. symmetry. unfold peqb. lia.
    + apply Nat.eqb_neq in E2. replace (peqb q p) with false by (unfold peqb; lia). rewrite E1. reflexivity.
  - apply Nat.eqb_neq in E1. replace (peqb q p) with false by (unfold peqb; lia). reflexivity.
Qed.

Lemma grid_ext n g g' : wf n g -> wf n g' ->
  (forall q, in_grid n q = true -> cell g q = cell g' q) -> g = g'.
Proof.
  intros W W' H. pose proof (wf_len n g W) as L. pose proof (wf_len n g' W') as L'.
  apply (nth_ext g g' [] []); [lia|]. intros r Hr.
  pose proof (wf_row n g (Z.of_nat r) W ltac:(lia)) as R. pose proof (wf_row n g' (Z.of_nat r) W' ltac:(lia)) as R'.
  rewrite Nat2Z.id in R, R'. unfold zlen in R, R'.
  apply (nth_ext _ _ 0 0); [lia|]. intros c Hc.
  specialize (H (Z.of_nat r, Z.of_nat c)). rewrite !cell_ncell in H by (cbn [fst snd]; lia).
  unfold ncell in H. cbn [fst snd] in H. rewrite !Nat2Z.id in H. apply H. apply in_grid_spec. cbn [fst snd]. lia.
Qed.

(* flat (row-major) view *)
Definition idx (n : Z) (p : cellp) : nat := (Z.to_nat (fst p) * Z.to_nat n + Z.to_nat (snd p))%nat.

Lemma cell_flat n g p : wf n g -> in_grid n p = true -> cell g p = nth (idx n p) (concat g) 0.
Proof.
  intros W H. apply in_grid_spec in H. destruct H as [Hr Hc]. rewrite cell_ncell by lia. unfold ncell, idx.
  rewrite (nth_concat (Z.to_nat n)); auto using wf_rows. rewrite (wf_len n g W). lia. lia.
Qed.

Lemma concat_pset n g p v : wf n g -> in_grid n p = true -> concat (pset g p v) = upd (idx n p) v (concat g).
Proof.
  intros W H. rewrite (pset_spec n g p v W H). apply in_grid_spec in H. destruct H as [Hr Hc]. unfold idx.
  apply concat_upd; auto using wf_rows. rewrite (wf_len n g W). lia. lia.
Qed.

Lemma idx_lt n g p : wf n g -> in_grid n p = true -> (idx n p < length (concat g))%nat.
Proof.
  intros W H. rewrite (concat_length_rows (Z.to_nat n)) by auto using wf_rows. rewrite (wf_len n g W).
  apply in_grid_spec in H. unfold idx. nia.
Qed.

Lemma idx_inj n p q : in_grid n p = true -> in_grid n q = true -> idx n p = idx n q -> p = q.
Proof.
  intros Hp Hq E. apply in_grid_spec in Hp. apply in_grid_spec in Hq. unfold idx in E.
  destruct p as [a b], q as [c d]; cbn [fst snd] in *.
  assert (Z.to_nat a = Z.to_nat c) by nia. assert (Z.to_nat b = Z.to_nat d) by nia. f_equal; lia.
Qed.

(* ---------- the mask and the rules (C04) ---------- *)
Lemma legal_b_spec n e a : legal_b n e a = true <-> legal n e a.
Proof. unfold legal_b, legal. lia. Qed.

Lemma move_vec a : 0 <= a < 4 -> forall e, padd e (jget (0, 0) MOVES a) = neighbour e a.
Proof.
  intros H e. assert (C : a = 0 \/ a = 1 \/ a = 2 \/ a = 3) by lia.
  destruct C as [-> | [-> | [-> | ->]]]; unfold padd, neighbour;
    match goal with |- context [jget ?d MOVES ?k] => let v := eval vm_compute in (jget d MOVES k) in change (jget d MOVES k) with v end;
    cbn [fst snd Z.eqb Pos.eqb]; f_equal; lia.
Qed.

Lemma neighbour_in_grid n e a : in_grid n e = true -> 0 <= a < 4 -> in_grid n (neighbour e a) = legal_b n e a.
Proof.
  intros He H. apply in_grid_spec in He. assert (C : a = 0 \/ a = 1 \/ a = 2 \/ a = 3) by lia.
  unfold in_grid, inb, legal_b.
  destruct C as [-> | [-> | [-> | ->]]]; unfold neighbour; cbn [fst snd Z.eqb Pos.eqb]; lia.
Qed.

Lemma valid_actions_legal n e : in_grid n e = true -> valid_actions n e = map (legal_b n e) (zrange 4).
Proof.
  intro He. unfold valid_actions, MOVES. change (zrange 4) with [0; 1; 2; 3]. cbn [map].
  rewrite <- (neighbour_in_grid n e 0), <- (neighbour_in_grid n e 1), <- (neighbour_in_grid n e 2), <- (neighbour_in_grid n e 3) by (auto; lia).
  repeat f_equal; unfold padd, neighbour; cbn; f_equal; lia.
Qed.

Lemma mask_legal_b n e a : in_grid n e = true -> 0 <= a < 4 -> jget false (valid_actions n e) a = legal_b n e a.
Proof.
  intros He H. rewrite (valid_actions_legal n e He). assert (C : a = 0 \/ a = 1 \/ a = 2 \/ a = 3) by lia.
  destruct C as [-> | [-> | [-> | ->]]]; reflexivity.
Qed.

Theorem mask_iff_legal n e a : in_grid n e = true -> 0 <= a < 4 ->
  (jget false (valid_actions n e) a = true <-> legal n e a).
Proof. intros He H. rewrite (mask_legal_b n e a He H). apply legal_b_spec. Qed.

(* ---------- one move ---------- *)
Definition Inv (n : Z) (b : board * cellp) : Prop := wf n (fst b) /\ in_grid n (snd b) = true /\ cell (fst b) (snd b) = 0.

Lemma inv_b_Inv n g e : inv_b n g e = true -> Inv n (g, e).
Proof.
  unfold inv_b, blank_ok_b. rewrite !andb_true_iff. intros [[W _] [G C]]. apply wf_b_spec in W.
  repeat split; cbn [fst snd]; auto; try apply W. lia.
Qed.

Definition moved (g : board) (e ne : cellp) : board := pset (pset g e (cell g ne)) ne 0.

Lemma move_legal n g e a : Inv n (g, e) -> 0 <= a < 4 -> legal_b n e a = true ->
  move_empty n g e a = (moved g e (neighbour e a), neighbour e a).
Proof.
  intros (W & He & C) H L. cbn [fst snd] in *. unfold move_empty. rewrite (move_vec a H).
  pose proof (neighbour_in_grid n e a He H) as G. rewrite L in G. rewrite G.
  unfold moved. rewrite (pget_cell n g _ W G). reflexivity.
Qed.

Lemma move_illegal n g e a : in_grid n e = true -> 0 <= a < 4 -> legal_b n e a = false -> move_empty n g e a = (g, e).
Proof.
  intros He H L. unfold move_empty. rewrite (move_vec a H). rewrite (neighbour_in_grid n e a He H), L. reflexivity.
Qed.

Lemma neighbour_neq e a : 0 <= a < 4 -> neighbour e a <> e.
Proof.
  intros H E. assert (C : a = 0 \/ a = 1 \/ a = 2 \/ a = 3) by lia.
  destruct e as [r c]. destruct C as [-> | [-> | [-> | ->]]]; unfold neighbour in E; cbn [fst snd Z.eqb Pos.eqb] in E; inversion E; lia.
Qed.

Lemma peqb_false p q : p <> q -> peqb p q = false.
Proof. intro H. destruct (peqb p q) eqn:E; auto. apply peqb_spec in E. contradiction. Qed.

Lemma peqb_refl p : peqb p p = true.
Proof. apply peqb_spec. reflexivity. Qed.

Lemma moved_wf n g e ne : wf n g -> in_grid n e = true -> in_grid n ne = true -> wf n (moved g e ne).
Proof. intros. unfold moved. auto using wf_pset. Qed.

Lemma moved_cell n g e ne q : wf n g -> in_grid n e = true -> in_grid n ne = true -> in_grid n q = true ->
  cell (moved g e ne) q = if peqb q ne then 0 else if peqb q e then cell g ne else cell g q.
Proof.
  intros W He Hne Hq. unfold moved.
  rewrite (cell_pset n) by auto using wf_pset. destruct (peqb q ne); auto. apply (cell_pset n); auto.
Qed.

(* C17: a legal move is the transposition (blank, neighbour) of the cells *)
Theorem move_transposes n g e a q : Inv n (g, e) -> 0 <= a < 4 -> legal_b n e a = true -> in_grid n q = true ->
  cell (fst (move_empty n g e a)) q = cell g (transp e (neighbour e a) q) /\ snd (move_empty n g e a) = neighbour e a.
Proof.
  intros I H L Hq. rewrite (move_legal n g e a I H L). cbn [fst snd]. split; auto.
  destruct I as (W & He & C). cbn [fst snd] in *.
  pose proof (neighbour_in_grid n e a He H) as G. rewrite L in G.
  rewrite (moved_cell n) by auto. unfold transp.
  destruct (peqb q e) eqn:E1.
  - apply peqb_spec in E1. subst q. rewrite (peqb_false e (neighbour e a)); auto.
    intro E. symmetry in E. revert E. apply neighbour_neq; auto.
  - destruct (peqb q (neighbour e a)) eqn:E2; auto.
Qed.

Theorem move_Inv n b a : Inv n b -> 0 <= a < 4 -> Inv n (move_empty n (fst b) (snd b) a).
Proof.
  destruct b as [g e]. intros I H. cbn [fst snd]. destruct (legal_b n e a) eqn:L.
  - rewrite (move_legal n g e a I H L). destruct I as (W & He & C). cbn [fst snd] in *.
    pose proof (neighbour_in_grid n e a He H) as G. rewrite L in G.
    repeat split; cbn [fst snd]; auto; try apply (moved_wf n); auto.
    rewrite (moved_cell n) by auto. rewrite peqb_refl. reflexivity.
  - destruct I as (W & He & C). cbn [fst snd] in *. rewrite (move_illegal n g e a He H L). repeat split; auto; apply W.
Qed.

(* C17: the multiset of tiles is conserved by every action *)
Theorem move_perm n b a : Inv n b -> 0 <= a < 4 -> Permutation (concat (fst (move_empty n (fst b) (snd b) a))) (concat (fst b)).
Proof.
  destruct b as [g e]. intros I H. cbn [fst snd]. destruct (legal_b n e a) eqn:L.
  - rewrite (move_legal n g e a I H L). destruct I as (W & He & C). cbn [fst snd] in *.
    pose proof (neighbour_in_grid n e a He H) as G. rewrite L in G. set (ne := neighbour e a) in *.
    unfold moved. rewrite (concat_pset n) by auto using wf_pset. rewrite (concat_pset n) by auto.
    rewrite (cell_flat n g ne W G). rewrite (cell_flat n g e W He) in C.
    match goal with |- Permutation (upd ?j 0 ?x) _ =>
      replace (upd j 0 x) with (upd j (nth (idx n e) (concat g) 0) x) by (rewrite C; reflexivity) end.
    apply perm_exchange; eauto using idx_lt.
    intro E. apply (idx_inj n) in E; auto. symmetry in E. revert E. apply neighbour_neq; auto.
  - destruct I as (W & He & C). cbn [fst snd] in *. rewrite (move_illegal n g e a He H L). reflexivity.
Qed.

(* C17: opposite moves cancel when the first was legal *)
Lemma neighbour_opp e a : 0 <= a < 4 -> neighbour (neighbour e a) (opp a) = e.
Proof.
  intro H. assert (C : a = 0 \/ a = 1 \/ a = 2 \/ a = 3) by lia. destruct e as [r c].
  destruct C as [-> | [-> | [-> | ->]]]; unfold neighbour, opp; cbn [Z.eqb Z.add Z.modulo fst snd]; cbn; f_equal; lia.
Qed.

Lemma opp_range a : 0 <= a < 4 -> 0 <= opp a < 4.
Proof. unfold opp. lia. Qed.

Lemma opp_opp a : 0 <= a < 4 -> opp (opp a) = a.
Proof. unfold opp. lia. Qed.

Lemma legal_opp n e a : in_grid n e = true -> 0 <= a < 4 -> legal_b n e a = true -> legal_b n (neighbour e a) (opp a) = true.
Proof.
  intros He H L. pose proof (neighbour_in_grid n e a He H) as G. rewrite L in G.
  rewrite <- (neighbour_in_grid n _ (opp a) G (opp_range a H)). rewrite neighbour_opp; auto.
Qed.

Theorem move_opp n g e a : Inv n (g, e) -> 0 <= a < 4 -> legal_b n e a = true ->
  let m := move_empty n g e a in move_empty n (fst m) (snd m) (opp a) = (g, e).
Proof.
  intros I H L m. pose proof (move_Inv n (g, e) a I H) as I'. cbn [fst snd] in I'. fold m in I'.
  assert (Em : m = (moved g e (neighbour e a), neighbour e a)) by (apply move_legal; auto).
  destruct I as (W & He & C). cbn [fst snd] in *.
  pose proof (neighbour_in_grid n e a He H) as G. rewrite L in G. set (ne := neighbour e a) in *.
  rewrite Em in *. cbn [fst snd] in *.
  rewrite (move_legal n _ ne (opp a) I' (opp_range a H)) by (apply legal_opp; auto).
  unfold ne at 3 4. rewrite neighbour_opp by auto. f_equal.
  assert (W' : wf n (moved g e ne)) by (apply (moved_wf n); auto).
  apply (grid_ext n); auto. { apply (moved_wf n); auto. }
  intros q Hq. rewrite (moved_cell n) by auto. rewrite !(moved_cell n) by auto.
  assert (NE : peqb e ne = false). { apply peqb_false. intro E. symmetry in E. revert E. apply neighbour_neq; auto. }
  rewrite NE, peqb_refl.
  destruct (peqb q e) eqn:E1.
  - apply peqb_spec in E1. subst q. auto.
  - destruct (peqb q ne) eqn:E2; auto. apply peqb_spec in E2. subst q. reflexivity.
Qed.

(* the env's own reaction: a move is executed exactly when it is legal *)
Theorem move_changes_iff_legal n g e a : Inv n (g, e) -> 0 <= a < 4 ->
  (move_empty n g e a <> (g, e) <-> legal n e a).
Proof.
  intros I H. rewrite <- legal_b_spec. destruct (legal_b n e a) eqn:L.
  - split; auto. intros _ E. rewrite (move_legal n g e a I H L) in E. inversion E as [[E1 E2]].
    revert E2. apply neighbour_neq; auto.
  - destruct I as (W & He & C). cbn [fst snd] in *. rewrite (move_illegal n g e a He H L). split; [congruence|discriminate].
Qed.

(* ---------- the goal ---------- *)
Lemma chunk_concat rows cols l : length l = (rows * cols)%nat -> concat (chunk rows cols l) = l.
Proof.
  revert l; induction rows as [|r IH]; intros l H; cbn [chunk concat].
  - destruct l; auto; discriminate.
  - rewrite IH. apply firstn_skipn. rewrite skipn_length. lia.
Qed.

Lemma chunk_length rows cols l : length (chunk rows cols l) = rows.
Proof. revert l; induction rows as [|r IH]; intro l; cbn [chunk length]; auto. Qed.

Lemma chunk_rows rows cols l : length l = (rows * cols)%nat -> rows_len cols (chunk rows cols l).
Proof.
  revert l; induction rows as [|r IH]; intros l H; cbn [chunk]; constructor.
  - rewrite firstn_length. lia.
  - apply IH. rewrite skipn_length. lia.
Qed.

Lemma zrange_from_snoc s k : zrange_from s (S k) = zrange_from s k ++ [s + Z.of_nat k].
Proof.
  revert s; induction k as [|k IH]; intro s.
  - cbn. f_equal. lia.
  - change (zrange_from s (S (S k))) with (s :: zrange_from (s + 1) (S k)). rewrite IH.
    replace (s + Z.of_nat (S k)) with (s + 1 + Z.of_nat k) by lia. reflexivity.
Qed.

Lemma zrange_from_shift s k : map (fun i => i + 1) (zrange_from s k) = zrange_from (s + 1) k.
Proof. revert s; induction k as [|k IH]; intro s; cbn [zrange_from map]; auto. rewrite IH. reflexivity. Qed.

Lemma upd_last {A} (a : list A) x v : upd (length a) v (a ++ [x]) = a ++ [v].
Proof. rewrite <- (Nat.add_0_r (length a)). rewrite upd_app_r. reflexivity. Qed.

Lemma goal_flat_eq n : 0 < n -> goal_flat n = map (fun i => i + 1) (zrange (n * n - 1)) ++ [0].
Proof.
  intro H. unfold goal_flat. set (N := n * n). assert (HN : 0 < N) by (unfold N; nia).
  unfold zrange. replace (Z.to_nat N) with (S (Z.to_nat (N - 1))) by lia.
  rewrite zrange_from_snoc, map_app. cbn [map].
  set (a := map (fun i => i + 1) (zrange_from 0 (Z.to_nat (N - 1)))).
  assert (La : length a = Z.to_nat (N - 1)) by (unfold a; rewrite map_length, zrange_from_length; reflexivity).
  unfold jset. unfold zlen. rewrite app_length, La. cbn [length].
  unfold jnorm. cbn [Z.ltb Z.compare].
  replace (-1 + Z.of_nat (Z.to_nat (N - 1) + 1)) with (N - 1) by lia.
  replace ((0 <=? N - 1) && (N - 1 <? Z.of_nat (Z.to_nat (N - 1) + 1))) with true by lia.
  unfold zupd. destruct (N - 1 <? 0) eqn:E; [lia|]. rewrite <- La. apply upd_last.
Qed.

Lemma goal_flat_length n : 0 < n -> length (goal_flat n) = (Z.to_nat n * Z.to_nat n)%nat.
Proof.
  intro H. rewrite goal_flat_eq by auto. rewrite app_length, map_length. unfold zrange. rewrite zrange_from_length. cbn [length]. nia.
Qed.

Lemma goal_concat n : 0 < n -> concat (goal n) = goal_flat n.
Proof. intro H. unfold goal. apply chunk_concat. apply goal_flat_length; auto. Qed.

Lemma goal_wf n : 0 < n -> wf n (goal n).
Proof.
  intro H. unfold goal. split.
  - unfold zlen. rewrite chunk_length. lia.
  - pose proof (chunk_rows (Z.to_nat n) (Z.to_nat n) (goal_flat n) (goal_flat_length n H)) as R.
    unfold rows_len in R. eapply Forall_impl; [|exact R]. intros row Hr. cbv beta in Hr. unfold zlen. lia.
Qed.

Theorem goal_perm n : 0 < n -> Permutation (concat (goal n)) (zrange (n * n)).
Proof.
  intro H. rewrite goal_concat, goal_flat_eq by auto. unfold zrange.
  replace (Z.to_nat (n * n)) with (S (Z.to_nat (n * n - 1))) by nia.
  cbn [zrange_from]. rewrite zrange_from_shift. symmetry. apply Permutation_cons_append.
Qed.

Lemma goal_Inv n : 0 < n -> Inv n (gen_start n).
Proof.
  intro H. unfold gen_start, goal_blank. pose proof (goal_wf n H) as W.
  assert (G : in_grid n (n - 1, n - 1) = true) by (apply in_grid_spec; cbn [fst snd]; lia).
  repeat split; cbn [fst snd]; auto; try apply W.
  rewrite (cell_flat n _ _ W G). rewrite goal_concat, goal_flat_eq by auto.
  set (a := map (fun i => i + 1) (zrange (n * n - 1))).
  assert (La : length a = Z.to_nat (n * n - 1)) by (unfold a, zrange; rewrite map_length, zrange_from_length; reflexivity).
  replace (idx n (n - 1, n - 1)) with (length a + 0)%nat by (unfold idx; cbn [fst snd]; nia).
  rewrite app_nth2_plus. reflexivity.
Qed.

(* C17: the solved test accepts exactly the goal board *)
Lemma grid_eqb_spec g g' : grid_eqb g g' = true <-> g = g'.
Proof. unfold grid_eqb. apply list_eqb_eq. intros x y. apply list_eqb_eq. intros a b. apply Z.eqb_eq. Qed.

(* ---------- runs of moves: reachability from the goal, solvability back to it ---------- *)
Definition inspec (acts : list Z) : Prop := Forall (fun a => 0 <= a < 4) acts.

Lemma run_moves_cons n b a r : run_moves n b (a :: r) = run_moves n (move_empty n (fst b) (snd b) a) r.
Proof. reflexivity. Qed.

Lemma run_moves_app n b x y : run_moves n b (x ++ y) = run_moves n (run_moves n b x) y.
Proof. unfold run_moves. apply fold_left_app. Qed.

Lemma run_moves_Inv n acts : inspec acts -> forall b, Inv n b -> Inv n (run_moves n b acts).
Proof.
  induction 1 as [|a r Ha Hr IH]; intros b I; auto. rewrite run_moves_cons. apply IH. apply move_Inv; auto.
Qed.

Lemma run_moves_perm n acts : inspec acts -> forall b, Inv n b -> Permutation (concat (fst (run_moves n b acts))) (concat (fst b)).
Proof.
  induction 1 as [|a r Ha Hr IH]; intros b I; auto. rewrite run_moves_cons.
  eapply perm_trans; [apply IH; apply move_Inv; auto|]. apply move_perm; auto.
Qed.

(* states reachable from the goal by in-spec actions (legal or not) *)
Definition reach (n : Z) (b : board * cellp) : Prop := exists acts, inspec acts /\ run_moves n (gen_start n) acts = b.

Lemma reach_goal n : reach n (gen_start n).
Proof. exists []. split; [constructor|reflexivity]. Qed.

Lemma reach_move n b a : reach n b -> 0 <= a < 4 -> reach n (move_empty n (fst b) (snd b) a).
Proof.
  intros (acts & Ha & E) H. exists (acts ++ [a]). split.
  - apply Forall_app; split; auto.
  - rewrite run_moves_app, E. reflexivity.
Qed.

Lemma reach_Inv n b : 0 < n -> reach n b -> Inv n b.
Proof. intros H (acts & Ha & E). subst b. apply run_moves_Inv; auto using goal_Inv. Qed.

Theorem reach_perm n b : 0 < n -> reach n b -> Permutation (concat (fst b)) (zrange (n * n)).
Proof.
  intros H (acts & Ha & E). subst b. eapply perm_trans; [apply run_moves_perm; auto using goal_Inv|].
  apply goal_perm; auto.
Qed.

(* every run can be undone: moves are invertible *)
Theorem run_undo n acts : inspec acts -> forall b, Inv n b ->
  exists back, inspec back /\ run_moves n (run_moves n b acts) back = b.
Proof.
  induction 1 as [|a r Ha Hr IH]; intros b I.
  - exists []. split; [constructor|reflexivity].
  - rewrite run_moves_cons. destruct (IH _ (move_Inv n b a I Ha)) as (back & Hb & E).
    destruct b as [g e]. cbn [fst snd] in *. destruct (legal_b n e a) eqn:L.
    + exists (back ++ [opp a]). split.
      * apply Forall_app; split; auto. constructor; auto using opp_range.
      * rewrite run_moves_app, E. cbn [run_moves fold_left]. apply move_opp; auto.
    + destruct I as (W & He & C). cbn [fst snd] in *. rewrite (move_illegal n g e a He Ha L) in *. exists back. auto.
Qed.

Theorem reach_solvable n b : 0 < n -> reach n b -> exists back, inspec back /\ run_moves n b back = gen_start n.
Proof.
  intros H (acts & Ha & E). subst b. apply run_undo; auto using goal_Inv.
Qed.

(* explicit solution of a legal walk: the reversed walk of opposite moves, every one of them legal *)
Lemma legal_run_b_app n x y b : legal_run_b n b (x ++ y) = legal_run_b n b x && legal_run_b n (run_moves n b x) y.
Proof.
  revert b; induction x as [|a r IH]; intro b; cbn [legal_run_b Datatypes.app]; auto.
  rewrite IH, run_moves_cons. rewrite andb_assoc. reflexivity.
Qed.

Theorem legal_walk_undo n acts : inspec acts -> forall b, Inv n b -> legal_run_b n b acts = true ->
  run_moves n (run_moves n b acts) (rev (map opp acts)) = b /\ legal_run_b n (run_moves n b acts) (rev (map opp acts)) = true.
Proof.
  induction 1 as [|a r Ha Hr IH]; intros b I L; [split; reflexivity|].
  cbn [legal_run_b] in L. apply andb_true_iff in L. destruct L as [La Lr].
  rewrite run_moves_cons. cbn [map rev]. destruct (IH _ (move_Inv n b a I Ha) Lr) as [E1 E2].
  rewrite run_moves_app, legal_run_b_app, E1, E2. destruct b as [g e]. cbn [fst snd] in *. split.
  - cbn [run_moves fold_left]. apply move_opp; auto.
  - cbn [legal_run_b andb]. rewrite andb_true_r. rewrite (move_legal n g e a I Ha La). cbn [snd].
    apply legal_opp; auto. apply I.
Qed.

(* ---------- the random-walk generator over explicit draws (C10) ---------- *)
Lemma valid_draw_legal n e d : in_grid n e = true -> valid_draw n e d = true -> 0 <= d < 4 /\ legal_b n e d = true.
Proof.
  intros He V. unfold valid_draw in V. apply andb_true_iff in V. destruct V as [R M].
  assert (H : 0 <= d < 4) by (unfold inb in R; lia). split; auto. rewrite <- (mask_legal_b n e d He H). exact M.
Qed.

Lemma random_move_is_move n b d : Inv n b -> valid_draw n (snd b) d = true ->
  random_move b d = move_empty n (fst b) (snd b) d.
Proof.
  destruct b as [g e]. intros I V. pose proof I as (W & He & C). cbn [fst snd] in *.
  destruct (valid_draw_legal n e d He V) as [H L].
  rewrite (move_legal n g e d I H L). unfold random_move. cbn [fst snd]. rewrite (move_vec d H).
  pose proof (neighbour_in_grid n e d He H) as G. rewrite L in G.
  unfold swap_tiles, moved. rewrite (pget_cell n g e W He), C, (pget_cell n g _ W G). reflexivity.
Qed.

Lemma generate_from n draws : forall b, Inv n b -> valid_draws n b draws = true ->
  fold_left random_move draws b = run_moves n b draws /\ legal_run_b n b draws = true /\ inspec draws.
Proof.
  induction draws as [|d r IH]; intros b I V; [repeat split; constructor|].
  cbn [valid_draws] in V. apply andb_true_iff in V. destruct V as [Vd Vr].
  pose proof (random_move_is_move n b d I Vd) as E. rewrite E in Vr.
  destruct (valid_draw_legal n (snd b) d (proj1 (proj2 I)) Vd) as [H L].
  destruct (IH _ (move_Inv n b d I H) Vr) as (E1 & E2 & E3).
  cbn [fold_left]. rewrite E, run_moves_cons. cbn [legal_run_b]. rewrite L, E2. repeat split; auto. constructor; auto.
Qed.

Theorem generate_reach n draws : 0 < n -> valid_draws n (gen_start n) draws = true -> reach n (generate n draws).
Proof.
  intros H V. destruct (generate_from n draws _ (goal_Inv n H) V) as (E & _ & S). exists draws. split; auto.
Qed.

(* the generated board is solved by the reversed walk of opposite moves, all of them legal *)
Theorem generate_solution n draws : 0 < n -> valid_draws n (gen_start n) draws = true ->
  run_moves n (generate n draws) (rev (map opp draws)) = gen_start n
  /\ legal_run_b n (generate n draws) (rev (map opp draws)) = true.
Proof.
  intros H V. destruct (generate_from n draws _ (goal_Inv n H) V) as (E & L & S). unfold generate. rewrite E.
  apply legal_walk_undo; auto using goal_Inv.
Qed.

(* the oracle contract is satisfiable exactly on boards with at least two rows *)
Lemma valid_draw_exists n e : 2 <= n -> in_grid n e = true -> exists d, valid_draw n e d = true.
Proof.
  intros H He. pose proof He as He'. apply in_grid_spec in He'.
  exists (if 0 <? fst e then 0 else 2). unfold valid_draw.
  destruct (0 <? fst e) eqn:E; rewrite mask_legal_b by (auto; lia); unfold inb, legal_b; cbn [Z.eqb]; lia.
Qed.

Lemma valid_draw_none_1x1 d : valid_draw 1 (0, 0) d = false.
Proof.
  unfold valid_draw. destruct (inb 4 d) eqn:R; auto. cbn [andb].
  rewrite mask_legal_b by (auto; unfold inb in R; lia). unfold legal_b. cbn [fst snd]. lia.
Qed.

(* ---------- the checker perm_b ---------- *)
Lemma zrange_NoDup n : NoDup (zrange n).
Proof.
  unfold zrange. generalize 0. induction (Z.to_nat n) as [|k IH]; intro s; cbn [zrange_from]; constructor; auto.
  rewrite in_zrange_from. lia.
Qed.

Theorem perm_b_spec n g : perm_b n g = true -> Permutation (concat g) (zrange (n * n)).
Proof.
  unfold perm_b. rewrite andb_true_iff, forallb_forall. intros [L H]. symmetry.
  apply NoDup_Permutation_bis; auto using zrange_NoDup.
  - unfold zrange. rewrite zrange_from_length. unfold zlen in L. lia.
  - intros v Hv. apply H in Hv. apply existsb_exists in Hv. destruct Hv as (x & Hx & E). apply Z.eqb_eq in E. subst. auto.
Qed.
