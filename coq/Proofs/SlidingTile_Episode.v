(* SlidingTilePuzzle, part 2: env.step / env.reset and whole episodes.
   C03 protocol, C05 illegal move ignored, C09 step = the rules, C08 returns (dense telescopes, sparse = solved flag),
   C11 time limit exact, C12 observation = faithful view, C01 observation within the declared bounds.              *)
Require Import JV.Base.Prelude JV.Base.JaxIndex JV.Base.Codec JV.Base.TimeStep JV.Model.SlidingTile JV.Proofs.SlidingTile.
From Coq Require Import Permutation.

Definition bd (s : state) : board * cellp := (puz s, blank s).
Definition nxt (n T rw : Z) (s : state) (a : Z) : state := fst (fst (step n T rw s a)).
Definition ts_of (n T rw : Z) (s : state) (a : Z) : tstep := snd (fst (step n T rw s a)).
Definition ob_of (n T rw : Z) (s : state) (a : Z) : obs := snd (step n T rw s a).
Definition solved (n : Z) (s : state) : bool := grid_eqb (puz s) (goal n).

Lemma nxt_eq n T rw s a :
  nxt n T rw s a = mkS (fst (move_empty n (puz s) (blank s) a)) (snd (move_empty n (puz s) (blank s) a)) (steps s + 1) (skey s).
Proof. reflexivity. Qed.

Lemma nxt_bd n T rw s a : bd (nxt n T rw s a) = move_empty n (puz s) (blank s) a.
Proof. rewrite nxt_eq. unfold bd. cbn [puz blank]. symmetry. apply surjective_pairing. Qed.

Lemma nxt_rw n T T' rw rw' s a : bd (nxt n T rw s a) = bd (nxt n T' rw' s a) /\ steps (nxt n T rw s a) = steps (nxt n T' rw' s a).
Proof. split; reflexivity. Qed.

Lemma ts_eq n T rw s a :
  ts_of n T rw s a = cond_done 1 (solved n (nxt n T rw s a) || (T <=? steps s + 1)) [reward_of rw (puz s) (puz (nxt n T rw s a)) (goal n)].
Proof. reflexivity. Qed.

Lemma st_eq n T rw s a : st (ts_of n T rw s a) = if solved n (nxt n T rw s a) || (T <=? steps s + 1) then LAST else MID.
Proof. rewrite ts_eq. unfold cond_done. destruct (_ || _); reflexivity. Qed.

Lemma reward_eq n T rw s a : reward (ts_of n T rw s a) = [reward_of rw (puz s) (puz (nxt n T rw s a)) (goal n)].
Proof. rewrite ts_eq. unfold cond_done. destruct (_ || _); reflexivity. Qed.

Lemma discount_eq n T rw s a : discount (ts_of n T rw s a) = if solved n (nxt n T rw s a) || (T <=? steps s + 1) then [0] else [1].
Proof. rewrite ts_eq. unfold cond_done. destruct (_ || _); reflexivity. Qed.

Lemma solved_spec n s : solved n s = true <-> puz s = goal n.
Proof. unfold solved. apply grid_eqb_spec. Qed.

(* ---------- C03 ---------- *)
Theorem reset_first n s0 : first_ok 1 (snd (fst (reset n s0))) = true /\ fst (fst (reset n s0)) = s0.
Proof. split; reflexivity. Qed.

Theorem step_protocol n T rw s a :
  step_ok 1 false (ts_of n T rw s a) = true
  /\ (st (ts_of n T rw s a) = MID /\ discount (ts_of n T rw s a) = [1] \/ st (ts_of n T rw s a) = LAST /\ discount (ts_of n T rw s a) = [0]).
Proof.
  rewrite ts_eq. unfold cond_done. destruct (_ || _); split; try reflexivity; [right|left]; split; reflexivity.
Qed.

(* ---------- C12 ---------- *)
Theorem step_obs_faithful n T rw s a : ob_of n T rw s a = observe n (nxt n T rw s a).
Proof. reflexivity. Qed.

Theorem reset_obs_faithful n s0 : snd (reset n s0) = observe n s0.
Proof. reflexivity. Qed.

Theorem observe_view n s : in_grid n (blank s) = true ->
  o_puz (observe n s) = puz s /\ o_blank (observe n s) = blank s /\ o_steps (observe n s) = steps s
  /\ o_mask (observe n s) = map (legal_b n (blank s)) (zrange 4)
  /\ forall a, 0 <= a < 4 -> (jget false (o_mask (observe n s)) a = true <-> legal n (blank s) a).
Proof.
  intro He. unfold observe. cbn [o_puz o_blank o_steps o_mask]. repeat split; auto using valid_actions_legal.
  - apply mask_iff_legal; auto.
  - apply mask_iff_legal; auto.
Qed.

(* ---------- rewards ---------- *)
Lemma count3_same f a c : (forall x z, f x x z = false) -> count3 f a a c = 0.
Proof.
  intro H. revert c; induction a as [|x a IH]; intros [|z c]; cbn [count3]; auto. rewrite H, IH. reflexivity.
Qed.

Lemma dense_same g gl : dense_reward g g gl = 0.
Proof.
  unfold dense_reward. rewrite !count3_same; auto; intros x z; destruct (x =? z); reflexivity.
Qed.

Lemma count3_agree a : forall b c, length a = length b ->
  count3 (fun c x g => (x =? g) && negb (c =? g)) a b c - count3 (fun c x g => negb (x =? g) && (c =? g)) a b c
  = agree b c - agree a c.
Proof.
  induction a as [|x a IH]; intros [|y b] [|z c] L; cbn [length] in L; try lia; cbn [count3 agree]; try reflexivity.
  specialize (IH b c ltac:(lia)). destruct (x =? z), (y =? z); cbn [negb andb b2z]; lia.
Qed.

Lemma dense_is_difference n cur nx : length (concat cur) = length (concat nx) ->
  dense_reward cur nx (goal n) = correct n nx - correct n cur.
Proof. intro L. unfold dense_reward, correct. apply count3_agree; auto. Qed.

Lemma agree_refl l : agree l l = zlen l.
Proof. induction l as [|x l IH]; cbn [agree]; auto. rewrite zlen_cons, IH, Z.eqb_refl. reflexivity. Qed.

Lemma agree_le a : forall b, agree a b <= zlen a.
Proof.
  induction a as [|x a IH]; intros b.
  - destruct b; cbn [agree]; unfold zlen; cbn [length]; lia.
  - destruct b as [|y b]; cbn [agree]; rewrite zlen_cons; [pose proof (zlen_nonneg a); lia|].
    specialize (IH b). destruct (x =? y); cbn [b2z]; lia.
Qed.

Lemma agree_full a : forall b, length a = length b -> agree a b = zlen a -> a = b.
Proof.
  induction a as [|x a IH]; intros [|y b] L E; cbn [length] in L; try lia; auto.
  cbn [agree] in E. rewrite zlen_cons in E. pose proof (agree_le a b).
  destruct (x =? y) eqn:Q; cbn [b2z] in E; [|lia]. f_equal; [lia|]. apply IH; lia.
Qed.

Lemma correct_goal n : 0 < n -> correct n (goal n) = n * n.
Proof.
  intro H. unfold correct. rewrite agree_refl. unfold zlen. rewrite goal_concat, goal_flat_length by auto. nia.
Qed.

Lemma concat_wf_inj n g g' : wf n g -> wf n g' -> concat g = concat g' -> g = g'.
Proof.
  intros W W' E. apply (grid_ext n); auto. intros q Hq. rewrite !(cell_flat n) by auto. rewrite E. reflexivity.
Qed.

(* all n*n cells agree with the goal exactly on the goal board *)
Theorem correct_max_iff n g : 0 < n -> wf n g -> (correct n g = n * n <-> g = goal n).
Proof.
  intros H W. split; [|intros ->; apply correct_goal; auto].
  intro E. apply (concat_wf_inj n); auto using goal_wf. unfold correct in E.
  assert (L : length (concat g) = length (concat (goal n))).
  { rewrite !(concat_length_rows (Z.to_nat n)) by auto using wf_rows, goal_wf.
    rewrite (wf_len n g W), (wf_len n _ (goal_wf n H)). reflexivity. }
  apply agree_full; auto. rewrite E. unfold zlen.
  rewrite (concat_length_rows (Z.to_nat n)) by auto using wf_rows. rewrite (wf_len n g W). nia.
Qed.

Lemma step_len n T rw s a : Inv n (bd s) -> 0 <= a < 4 -> length (concat (puz s)) = length (concat (puz (nxt n T rw s a))).
Proof.
  intros I H. symmetry. apply Permutation_length. rewrite nxt_eq. cbn [puz]. apply (move_perm n (bd s) a I H).
Qed.

Lemma step_Inv n T rw s a : Inv n (bd s) -> 0 <= a < 4 -> Inv n (bd (nxt n T rw s a)).
Proof. intros I H. rewrite nxt_bd. apply (move_Inv n (bd s) a I H). Qed.

(* ---------- C05: an illegal move is ignored and the episode continues ---------- *)
Theorem step_illegal n T rw s a : in_grid n (blank s) = true -> 0 <= a < 4 -> legal_b n (blank s) a = false ->
  nxt n T rw s a = mkS (puz s) (blank s) (steps s + 1) (skey s)
  /\ reward (ts_of n T rw s a) = [if rw =? 0 then 0 else b2z (solved n s)]
  /\ (solved n s = false -> steps s + 1 < T ->
      st (ts_of n T rw s a) = MID /\ discount (ts_of n T rw s a) = [1] /\ reward (ts_of n T rw s a) = [0]).
Proof.
  intros He H L.
  assert (E : nxt n T rw s a = mkS (puz s) (blank s) (steps s + 1) (skey s)).
  { rewrite nxt_eq, (move_illegal n _ _ a He H L). reflexivity. }
  assert (R : reward (ts_of n T rw s a) = [if rw =? 0 then 0 else b2z (solved n s)]).
  { rewrite reward_eq, E. cbn [puz]. unfold reward_of, sparse_reward, solved. rewrite dense_same. reflexivity. }
  repeat split; auto.
  - rewrite st_eq, E. unfold solved in *. cbn [puz]. rewrite H0. replace (T <=? steps s + 1) with false by lia. reflexivity.
  - rewrite discount_eq, E. unfold solved in *. cbn [puz]. rewrite H0. replace (T <=? steps s + 1) with false by lia. reflexivity.
  - rewrite R, H0. destruct (rw =? 0); reflexivity.
Qed.

(* ---------- C09: env.step is the published rule ---------- *)
Definition rule_move (n : Z) (b b' : board * cellp) (a : Z) : Prop :=
  (legal n (snd b) a /\ snd b' = neighbour (snd b) a /\ wf n (fst b')
   /\ forall q, in_grid n q = true -> cell (fst b') q = cell (fst b) (transp (snd b) (neighbour (snd b) a) q))
  \/ (~ legal n (snd b) a /\ b' = b).

Lemma move_rule n b a : Inv n b -> 0 <= a < 4 -> rule_move n b (move_empty n (fst b) (snd b) a) a.
Proof.
  destruct b as [g e]. intros I H. cbn [fst snd]. destruct (legal_b n e a) eqn:L.
  - left. cbn [fst snd]. split; [apply legal_b_spec; auto|].
    pose proof (move_Inv n (g, e) a I H) as I'. cbn [fst snd] in I'.
    split; [apply (move_transposes n g e a e I H L); apply I|]. split; [apply I'|].
    intros q Hq. apply (move_transposes n g e a q I H L Hq).
  - right. cbn [fst snd]. split; [rewrite <- legal_b_spec; congruence|]. apply move_illegal; auto. apply I.
Qed.

Theorem rule_move_deterministic n b b1 b2 a : rule_move n b b1 a -> rule_move n b b2 a -> b1 = b2.
Proof.
  intros [(L1 & E1 & W1 & C1)|(L1 & E1)] [(L2 & E2 & W2 & C2)|(L2 & E2)]; try contradiction; try congruence.
  destruct b1 as [g1 e1], b2 as [g2 e2]. cbn [fst snd] in *. f_equal; [|congruence].
  apply (grid_ext n); auto. intros q Hq. rewrite C1, C2; auto.
Qed.

Theorem step_follows_rules n T rw s a : Inv n (bd s) -> 0 <= a < 4 ->
  let s' := nxt n T rw s a in let t := ts_of n T rw s a in
  rule_move n (bd s) (bd s') a /\ steps s' = steps s + 1 /\ skey s' = skey s
  /\ (st t = LAST <-> puz s' = goal n \/ T <= steps s') /\ (st t = LAST \/ st t = MID)
  /\ reward t = [if rw =? 0 then correct n (puz s') - correct n (puz s) else b2z (solved n s')]
  /\ ob_of n T rw s a = observe n s'.
Proof.
  intros I H s' t. unfold s', t. repeat split.
  - rewrite nxt_bd. apply (move_rule n (bd s) a I H).
  - rewrite st_eq. rewrite <- solved_spec. change (steps (nxt n T rw s a)) with (steps s + 1).
    destruct (solved n (nxt n T rw s a)); cbn [orb]; auto. destruct (T <=? steps s + 1) eqn:E; [right; lia|discriminate].
  - rewrite st_eq. rewrite <- solved_spec. change (steps (nxt n T rw s a)) with (steps s + 1). intros [E|E]; [rewrite E; reflexivity|].
    replace (T <=? steps s + 1) with true by lia. rewrite orb_true_r. reflexivity.
  - rewrite st_eq. destruct (_ || _); auto.
  - rewrite reward_eq. unfold reward_of, sparse_reward, solved. destruct (rw =? 0); auto.
    rewrite (dense_is_difference n); auto. apply step_len; auto.
Qed.

(* ---------- runs and episodes ---------- *)
Definition item := (state * tstep * obs)%type.
Fixpoint run (n T rw : Z) (s : state) (acts : list Z) : list item :=
  match acts with
  | [] => []
  | a :: r => let x := step n T rw s a in x :: run n T rw (fst (fst x)) r
  end.
(* an episode stops after its first LAST *)
Fixpoint ep (n T rw : Z) (s : state) (acts : list Z) : list item :=
  match acts with
  | [] => []
  | a :: r => let x := step n T rw s a in
              x :: (if st (snd (fst x)) =? LAST then [] else ep n T rw (fst (fst x)) r)
  end.
Definition rew (x : item) : Z := hd 0 (reward (snd (fst x))).
Definition ret (l : list item) : Z := zsum (map rew l).
Definition final (s : state) (l : list item) : state := last (map (fun x => fst (fst x)) l) s.

Lemma last_cons_default {A} l : forall (a d : A), last (a :: l) d = last l a.
Proof.
  induction l as [|b l IH]; intros a d; [reflexivity|].
  change (last (a :: b :: l) d) with (last (b :: l) d). rewrite (IH b d), (IH b a). reflexivity.
Qed.

Lemma final_cons s x l : final s (x :: l) = final (fst (fst x)) l.
Proof. unfold final. cbn [map]. apply last_cons_default. Qed.

Lemma ret_cons x l : ret (x :: l) = rew x + ret l.
Proof. reflexivity. Qed.

Lemma rew_step n T rw s a : rew (step n T rw s a) = reward_of rw (puz s) (puz (nxt n T rw s a)) (goal n).
Proof. unfold rew. change (snd (fst (step n T rw s a))) with (ts_of n T rw s a). rewrite reward_eq. reflexivity. Qed.

(* C08 dense: the return telescopes to the change in correctly placed tiles -- for EVERY in-spec action sequence *)
Theorem dense_telescopes_run n T acts : inspec acts -> forall s, Inv n (bd s) ->
  ret (run n T 0 s acts) = correct n (puz (final s (run n T 0 s acts))) - correct n (puz s).
Proof.
  induction 1 as [|a r Ha Hr IH]; intros s I; cbn [run]; [unfold ret, final; cbn; lia|].
  rewrite ret_cons, final_cons. change (fst (fst (step n T 0 s a))) with (nxt n T 0 s a).
  rewrite IH by (apply step_Inv; auto). rewrite rew_step. unfold reward_of. cbn [Z.eqb].
  rewrite (dense_is_difference n) by (apply step_len; auto). lia.
Qed.

Theorem dense_telescopes_ep n T acts : inspec acts -> forall s, Inv n (bd s) ->
  ret (ep n T 0 s acts) = correct n (puz (final s (ep n T 0 s acts))) - correct n (puz s).
Proof.
  induction 1 as [|a r Ha Hr IH]; intros s I; cbn [ep]; [unfold ret, final; cbn; lia|].
  rewrite ret_cons, final_cons. change (fst (fst (step n T 0 s a))) with (nxt n T 0 s a).
  rewrite rew_step. unfold reward_of. cbn [Z.eqb]. rewrite (dense_is_difference n) by (apply step_len; auto).
  destruct (st (snd (fst (step n T 0 s a))) =? LAST).
  - unfold ret, final. cbn [map zsum last]. lia.
  - rewrite IH by (apply step_Inv; auto). lia.
Qed.

(* C08 sparse: the return of an episode is 1 exactly when its final board is the goal *)
Theorem sparse_return_ep n T acts : acts <> [] -> forall s,
  ret (ep n T 1 s acts) = b2z (solved n (final s (ep n T 1 s acts))).
Proof.
  induction acts as [|a r IH]; intros NE s; [contradiction|]. cbn [ep].
  rewrite ret_cons, final_cons. change (fst (fst (step n T 1 s a))) with (nxt n T 1 s a).
  change (snd (fst (step n T 1 s a))) with (ts_of n T 1 s a).
  rewrite rew_step. unfold reward_of, sparse_reward. cbn [Z.eqb]. fold (solved n (nxt n T 1 s a)).
  rewrite st_eq. destruct (solved n (nxt n T 1 s a)) eqn:S; cbn [orb].
  - change (LAST =? LAST) with true. cbv iota. unfold ret, final. cbn [map zsum last]. rewrite S. reflexivity.
  - destruct (T <=? steps s + 1).
    + change (LAST =? LAST) with true. cbv iota. unfold ret, final. cbn [map zsum last]. rewrite S. reflexivity.
    + change (MID =? LAST) with false. cbv iota.
      destruct r as [|a' r']; [unfold ret, final; cbn [ep map zsum last]; rewrite S; reflexivity|].
      rewrite IH by discriminate. cbn [b2z]. lia.
Qed.

(* both reward functions follow the same trajectory of states and step types *)
Definition trace (l : list item) : list (board * cellp * Z * Z) := map (fun x => (bd (fst (fst x)), steps (fst (fst x)), st (snd (fst x)))) l.

Lemma state_eta s s' : bd s = bd s' -> steps s = steps s' -> skey s = skey s' -> s = s'.
Proof. destruct s, s'. unfold bd. cbn. intros E -> ->. inversion E. reflexivity. Qed.

Lemma nxt_rw_eq n T rw rw' s a : nxt n T rw s a = nxt n T rw' s a.
Proof. reflexivity. Qed.

Lemma st_rw_eq n T rw rw' s a : st (ts_of n T rw s a) = st (ts_of n T rw' s a).
Proof. rewrite !st_eq. reflexivity. Qed.

Theorem ep_same_trace n T rw rw' acts : forall s, trace (ep n T rw s acts) = trace (ep n T rw' s acts).
Proof.
  induction acts as [|a r IH]; intro s; [reflexivity|]. cbn [ep]. unfold trace in *. cbn [map].
  change (snd (fst (step n T rw s a))) with (ts_of n T rw s a). change (snd (fst (step n T rw' s a))) with (ts_of n T rw' s a).
  change (fst (fst (step n T rw s a))) with (nxt n T rw s a). change (fst (fst (step n T rw' s a))) with (nxt n T rw' s a).
  rewrite (st_rw_eq n T rw rw'), (nxt_rw_eq n T rw rw'). f_equal.
  destruct (st (ts_of n T rw' s a) =? LAST); [reflexivity|]. apply IH.
Qed.

Lemma final_same n T rw rw' acts : forall s, final s (ep n T rw s acts) = final s (ep n T rw' s acts).
Proof.
  induction acts as [|a r IH]; intro s; [reflexivity|]. cbn [ep]. rewrite !final_cons.
  change (snd (fst (step n T rw s a))) with (ts_of n T rw s a). change (snd (fst (step n T rw' s a))) with (ts_of n T rw' s a).
  change (fst (fst (step n T rw s a))) with (nxt n T rw s a). change (fst (fst (step n T rw' s a))) with (nxt n T rw' s a).
  rewrite (st_rw_eq n T rw rw'), (nxt_rw_eq n T rw rw').
  destruct (st (ts_of n T rw' s a) =? LAST); [reflexivity|]. apply IH.
Qed.

(* C08: the two documented objectives, evaluated on the SAME final state of the same action sequence *)
Theorem dense_sparse_agree n T acts s : 0 < n -> inspec acts -> acts <> [] -> Inv n (bd s) ->
  let sf := final s (ep n T 0 s acts) in
  final s (ep n T 1 s acts) = sf
  /\ ret (ep n T 0 s acts) = correct n (puz sf) - correct n (puz s)
  /\ ret (ep n T 1 s acts) = b2z (solved n sf)
  /\ (ret (ep n T 1 s acts) = 1 <-> ret (ep n T 0 s acts) = n * n - correct n (puz s)).
Proof.
  intros Hn Ha NE I sf. assert (F : final s (ep n T 1 s acts) = sf) by apply final_same.
  assert (D := dense_telescopes_ep n T acts Ha s I). fold sf in D.
  assert (S := sparse_return_ep n T acts NE s). rewrite F in S.
  repeat split; auto.
  - intro E. rewrite S in E. rewrite D. destruct (solved n sf) eqn:Q; [|discriminate].
    apply solved_spec in Q. rewrite Q, correct_goal; auto.
  - intro E. rewrite S. rewrite D in E.
    assert (W : wf n (puz sf)).
    { assert (X : forall acts s, inspec acts -> Inv n (bd s) -> Inv n (bd (final s (ep n T 0 s acts)))).
      { clear. intros acts s H; revert s. induction H as [|a r Ha Hr IH]; intros s I; [exact I|].
        cbn [ep]. rewrite final_cons. change (fst (fst (step n T 0 s a))) with (nxt n T 0 s a).
        destruct (_ =? LAST); [unfold final; cbn [map last]|apply IH]; apply step_Inv; auto. }
      apply (X acts s Ha I). }
    assert (G : puz sf = goal n) by (apply (correct_max_iff n); auto; lia).
    apply solved_spec in G. rewrite G. reflexivity.
Qed.

(* ---------- C11: the time limit is exact ---------- *)
Lemma ep_length n T rw acts : forall s, steps s < T -> Z.of_nat (length (ep n T rw s acts)) <= T - steps s.
Proof.
  induction acts as [|a r IH]; intros s H; cbn [ep length]; [lia|].
  change (snd (fst (step n T rw s a))) with (ts_of n T rw s a). rewrite st_eq.
  destruct (solved n (nxt n T rw s a)); cbn [orb]; [cbn; lia|].
  destruct (T <=? steps s + 1) eqn:E; [cbn; lia|]. cbn [Z.eqb MID LAST Pos.eqb].
  change (fst (fst (step n T rw s a))) with (nxt n T rw s a).
  specialize (IH (nxt n T rw s a)). change (steps (nxt n T rw s a)) with (steps s + 1) in IH. lia.
Qed.

(* never earlier without another cause: a LAST inside an episode is the goal board or step number T *)
Lemma ep_last_cause n T rw acts : forall s, steps s < T ->
  Forall (fun x : item => (st (snd (fst x)) = LAST -> solved n (fst (fst x)) = true \/ steps (fst (fst x)) = T)
                          /\ (st (snd (fst x)) = MID -> solved n (fst (fst x)) = false /\ steps (fst (fst x)) < T)
                          /\ (st (snd (fst x)) = LAST \/ st (snd (fst x)) = MID))
         (ep n T rw s acts).
Proof.
  induction acts as [|a r IH]; intros s H; cbn [ep]; constructor.
  - change (snd (fst (step n T rw s a))) with (ts_of n T rw s a). change (fst (fst (step n T rw s a))) with (nxt n T rw s a).
    rewrite st_eq. change (steps (nxt n T rw s a)) with (steps s + 1).
    destruct (solved n (nxt n T rw s a)); cbn [orb]; [repeat split; auto; discriminate|].
    destruct (T <=? steps s + 1) eqn:E; repeat split; auto; try discriminate; try lia.
  - change (snd (fst (step n T rw s a))) with (ts_of n T rw s a). rewrite st_eq.
    destruct (solved n (nxt n T rw s a)); cbn [orb]; [constructor|].
    destruct (T <=? steps s + 1) eqn:E; [constructor|]. cbn [Z.eqb MID LAST Pos.eqb].
    change (fst (fst (step n T rw s a))) with (nxt n T rw s a). apply IH. rewrite nxt_eq. cbn [steps]. lia.
Qed.

(* never later: with enough actions the episode's last timestep is LAST *)
Lemma ep_ends n T rw acts : forall s d, steps s < T -> T - steps s <= Z.of_nat (length acts) ->
  st (snd (fst (last (ep n T rw s acts) d))) = LAST.
Proof.
  induction acts as [|a r IH]; intros s d H L; cbn [length] in L; [lia|]. cbn [ep]. rewrite last_cons_default.
  change (snd (fst (step n T rw s a))) with (ts_of n T rw s a).
  destruct (st (ts_of n T rw s a) =? LAST) eqn:E; [cbn [last]; change (snd (fst (step n T rw s a))) with (ts_of n T rw s a); lia|].
  change (fst (fst (step n T rw s a))) with (nxt n T rw s a).
  rewrite st_eq in E. destruct (solved n (nxt n T rw s a)); cbn [orb] in E; [discriminate|].
  destruct (T <=? steps s + 1) eqn:E2; [discriminate|].
  apply IH; rewrite nxt_eq; cbn [steps]; lia.
Qed.

(* everything before the last timestep of an episode is MID *)
Lemma ep_prefix_mid n T rw acts : forall s, Forall (fun x : item => st (snd (fst x)) = MID) (removelast (ep n T rw s acts)).
Proof.
  induction acts as [|a r IH]; intro s; cbn [ep]; [constructor|].
  change (snd (fst (step n T rw s a))) with (ts_of n T rw s a).
  destruct (st (ts_of n T rw s a) =? LAST) eqn:E; [constructor|].
  change (fst (fst (step n T rw s a))) with (nxt n T rw s a).
  destruct (ep n T rw (nxt n T rw s a) r) eqn:Q; [constructor|]. rewrite <- Q.
  change (removelast (step n T rw s a :: ep n T rw (nxt n T rw s a) r))
    with (match ep n T rw (nxt n T rw s a) r with [] => [] | _ :: _ => step n T rw s a :: removelast (ep n T rw (nxt n T rw s a) r) end).
  rewrite Q. rewrite <- Q. constructor; [|apply IH].
  change (snd (fst (step n T rw s a))) with (ts_of n T rw s a).
  destruct (step_protocol n T rw s a) as [_ [[M _]|[M _]]]; auto. rewrite M in E. discriminate.
Qed.

Theorem time_limit_exact n T rw s acts d : steps s = 0 -> 0 < T -> T <= Z.of_nat (length acts) ->
  let e := ep n T rw s acts in
  Z.of_nat (length e) <= T
  /\ st (snd (fst (last e d))) = LAST
  /\ Forall (fun x : item => st (snd (fst x)) = MID) (removelast e)
  /\ Forall (fun x : item => st (snd (fst x)) = LAST -> solved n (fst (fst x)) = true \/ steps (fst (fst x)) = T) e.
Proof.
  intros S0 HT L e. unfold e. repeat split.
  - pose proof (ep_length n T rw acts s). lia.
  - apply ep_ends; lia.
  - apply ep_prefix_mid.
  - eapply Forall_impl; [|apply (ep_last_cause n T rw acts s); lia]. intros x (A & _). exact A.
Qed.

(* step counter of the i-th timestep *)
Lemma run_steps n T rw acts : forall s i x, nth_error (run n T rw s acts) i = Some x -> steps (fst (fst x)) = steps s + Z.of_nat i + 1.
Proof.
  induction acts as [|a r IH]; intros s i x E; cbn [run] in E; [destruct i; discriminate|].
  destruct i as [|i]; cbn [nth_error] in E.
  - inversion E; subst. change (fst (fst (step n T rw s a))) with (nxt n T rw s a). rewrite nxt_eq. cbn [steps]. lia.
  - apply IH in E. rewrite E. change (fst (fst (step n T rw s a))) with (nxt n T rw s a). rewrite nxt_eq. cbn [steps]. lia.
Qed.

(* ---------- C01: observations stay inside the declared bounds ---------- *)
Definition obs_ok (n T : Z) (o : obs) : Prop :=
  wf n (o_puz o) /\ Forall (fun v => 0 <= v <= n * n - 1) (concat (o_puz o)) /\ in_grid n (o_blank o) = true
  /\ length (o_mask o) = 4%nat /\ 0 <= o_steps o <= T.
Definition Good (n : Z) (s : state) : Prop := Inv n (bd s) /\ Permutation (concat (puz s)) (zrange (n * n)).

Lemma perm_range n l : Permutation l (zrange (n * n)) -> Forall (fun v => 0 <= v <= n * n - 1) l.
Proof.
  intro P. apply Permutation_sym in P. eapply Permutation_Forall; [exact P|].
  apply Forall_forall. intros v Hv. apply in_zrange in Hv. lia.
Qed.

Lemma step_Good n T rw s a : Good n s -> 0 <= a < 4 -> Good n (nxt n T rw s a).
Proof.
  intros [I P] H. split; [apply step_Inv; auto|].
  eapply perm_trans; [|exact P]. rewrite nxt_eq. cbn [puz]. apply (move_perm n (bd s) a I H).
Qed.

Lemma observe_ok n T s : Good n s -> 0 <= steps s <= T -> obs_ok n T (observe n s).
Proof.
  intros [(W & He & C) P] H. unfold bd in *. cbn [fst snd] in *. unfold obs_ok, observe. cbn [o_puz o_blank o_mask o_steps].
  repeat split; auto; try apply W; try lia. apply perm_range; auto.
Qed.

Theorem step_obs_ok n T rw s a : Good n s -> 0 <= a < 4 -> 0 <= steps s < T -> obs_ok n T (ob_of n T rw s a).
Proof.
  intros G H Hs. rewrite step_obs_faithful. apply observe_ok; [apply step_Good; auto|]. rewrite nxt_eq. cbn [steps]. lia.
Qed.

Lemma gen_state_Good n draws key : 0 < n -> valid_draws n (gen_start n) draws = true -> Good n (gen_state n draws key).
Proof.
  intros H V. pose proof (generate_reach n draws H V) as R. unfold Good, gen_state, bd. cbn [puz blank].
  rewrite <- surjective_pairing. split; [apply reach_Inv; auto|apply reach_perm; auto].
Qed.

Theorem reset_obs_ok n T draws key : 0 < n -> 0 <= T -> valid_draws n (gen_start n) draws = true ->
  obs_ok n T (snd (reset n (gen_state n draws key))).
Proof.
  intros H HT V. rewrite reset_obs_faithful. apply observe_ok; [apply gen_state_Good; auto|]. cbn [gen_state steps]. lia.
Qed.

(* Good is what reset produces and what every in-spec step preserves *)
Lemma run_Good n T rw acts : inspec acts -> forall s, Good n s -> Forall (fun x : item => Good n (fst (fst x))) (run n T rw s acts).
Proof.
  induction 1 as [|a r Ha Hr IH]; intros s G; cbn [run]; constructor.
  - apply (step_Good n T rw s a G Ha).
  - apply IH. apply (step_Good n T rw s a G Ha).
Qed.

(* every state of a run that starts in a reachable board is reachable from the goal, hence solvable *)
Lemma run_reach n T rw acts : inspec acts -> forall s, reach n (bd s) -> Forall (fun x : item => reach n (bd (fst (fst x)))) (run n T rw s acts).
Proof.
  induction 1 as [|a r Ha Hr IH]; intros s G; cbn [run]; constructor.
  - change (fst (fst (step n T rw s a))) with (nxt n T rw s a). rewrite nxt_bd. apply (reach_move n (bd s) a G Ha).
  - apply IH. change (fst (fst (step n T rw s a))) with (nxt n T rw s a). rewrite nxt_bd. apply (reach_move n (bd s) a G Ha).
Qed.

Theorem play_solvable n T rw draws key acts : 0 < n -> valid_draws n (gen_start n) draws = true -> inspec acts ->
  Forall (fun x : item => reach n (bd (fst (fst x))) /\ exists back, inspec back /\ run_moves n (bd (fst (fst x))) back = gen_start n)
         (run n T rw (gen_state n draws key) acts).
Proof.
  intros H V Ha. eapply Forall_impl; [|apply (run_reach n T rw acts Ha)].
  - intros x R. split; auto. apply reach_solvable; auto.
  - unfold gen_state, bd. cbn [puz blank]. rewrite <- surjective_pairing. apply generate_reach; auto.
Qed.
