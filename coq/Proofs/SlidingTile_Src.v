(* SlidingTilePuzzle AS TRANSLATED FROM THE SOURCE (Gen/SlidingTileSrc.v: step, _move_empty_tile, _get_valid_actions, both reward
   functions, reset, MOVES) equals the hand model Model/SlidingTile.v: on every board, blank position and action for the moves and the
   mask; for the whole step on n x n boards (the dense reward's element-wise array operations need equally shaped arrays). *)
Require Import JV.Base.Prelude JV.Base.JaxIndex JV.Base.Codec JV.Base.TimeStep JV.Gen.TimeStepSrc JV.Gen.SlidingTileSrc.
Require JV.Model.SlidingTile.
Require Import JV.Proofs.SlidingTile.
Module M := JV.Model.SlidingTile.

Definition conv (key : list Z) (s : State) : M.state := M.mkS (s_puzzle s) (s_empty_tile_position s) (s_step_count s) key.
Definition conv_obs (o : Observation) : M.obs := M.mkO (o_puzzle o) (o_empty_tile_position o) (o_action_mask o) (o_step_count o).
(* reward_fn of the environment: rw = 0 the default DenseRewardFn, otherwise SparseRewardFn *)
Definition reward_src (rw : Z) : State -> Z -> State -> list (list Z) -> Z := if rw =? 0 then DenseRewardFn else SparseRewardFn.

Lemma moves_src : MOVES = M.MOVES.  Proof. reflexivity. Qed.

Lemma in_grid_src n p : pb_all (pb_and (pos_cmp Z.geb p 0) (pos_cmp Z.ltb p n)) = M.in_grid n p.
Proof. unfold pb_all, pb_and, pos_cmp, M.in_grid, inb. cbn [fst snd]. rewrite !Z.geb_leb. reflexivity. Qed.

Lemma move_src n g e a : move_empty_tile n g e a = M.move_empty n g e a.
Proof.
  unfold move_empty_tile, M.move_empty, M.pset, M.pget, M.padd. rewrite moves_src, in_grid_src. cbn [fst snd]. reflexivity.
Qed.

Lemma valid_src n e : get_valid_actions n e = M.valid_actions n e.
Proof.
  unfold get_valid_actions, M.valid_actions. rewrite moves_src. unfold M.MOVES. cbn [map zip_with].
  rewrite <- !in_grid_src. reflexivity.
Qed.

(* ---- dense reward: element-wise array operations vs the model's count over the flattened boards ---- *)
Lemma row_count (f g : Z -> Z -> bool) (ra rb rc : list Z) :
  length ra = length rc -> length rb = length rc ->
  zsum (map b2z (zip_with andb (zip_with f rb rc) (zip_with g ra rc)))
  = M.count3 (fun c x gl => f x gl && g c gl) ra rb rc.
Proof.
  revert ra rb. induction rc as [|z rc IH]; intros [|x ra] [|y rb] Ha Hb; cbn [length] in *; try discriminate; try reflexivity.
  cbn [zip_with map zsum M.count3]. rewrite IH by lia. reflexivity.
Qed.
Lemma count3_app h a1 b1 c1 a2 b2 c2 : length a1 = length c1 -> length b1 = length c1 ->
  M.count3 h (a1 ++ a2) (b1 ++ b2) (c1 ++ c2) = M.count3 h a1 b1 c1 + M.count3 h a2 b2 c2.
Proof.
  revert a1 b1. induction c1 as [|z c1 IH]; intros [|x a1] [|y b1] Ha Hb; cbn [length] in *; try discriminate.
  - reflexivity.
  - cbn [app M.count3]. rewrite IH by lia. lia.
Qed.
Lemma zsum_app a b : zsum (a ++ b) = zsum a + zsum b.
Proof. induction a as [|x a IH]; cbn [app zsum]; lia. Qed.
Lemma board_count (f g : Z -> Z -> bool) (cur nxt gl : list (list Z)) :
  map (@length Z) cur = map (@length Z) gl -> map (@length Z) nxt = map (@length Z) gl ->
  m_sum (m_and (m_cmp f nxt gl) (m_cmp g cur gl))
  = M.count3 (fun c x t => f x t && g c t) (concat cur) (concat nxt) (concat gl).
Proof.
  unfold m_sum, m_and, m_cmp. revert cur nxt.
  induction gl as [|rc gl IH]; intros [|ra cur] [|rb nxt] Ha Hb; cbn [map] in *; try discriminate; try reflexivity.
  injection Ha as Ha1 Ha2. injection Hb as Hb1 Hb2.
  cbn [zip_with concat map]. rewrite map_app, zsum_app, count3_app by assumption.
  rewrite (IH cur nxt Ha2 Hb2), row_count by assumption. reflexivity.
Qed.

Lemma rows_shape n (g : list (list Z)) : Forall (fun row => zlen row = n) g -> map (@length Z) g = repeat (Z.to_nat n) (length g).
Proof.
  induction 1 as [|row g Hr Hg IH]; cbn [map length repeat]; [reflexivity|].
  rewrite IH. f_equal. unfold zlen in Hr. lia.
Qed.
Lemma wf_shape n g : wf n g -> map (@length Z) g = repeat (Z.to_nat n) (Z.to_nat n).
Proof. intros [L R]. rewrite (rows_shape n g R). f_equal. unfold zlen in L. lia. Qed.

Lemma dense_src n gl s s' a : wf n (s_puzzle s) -> wf n (s_puzzle s') -> wf n gl ->
  DenseRewardFn s a s' gl = M.dense_reward (s_puzzle s) (s_puzzle s') gl.
Proof.
  intros Wc Wn Wg. unfold DenseRewardFn, M.dense_reward.
  pose proof (wf_shape n _ Wc) as Sc. pose proof (wf_shape n _ Wn) as Sn. pose proof (wf_shape n _ Wg) as Sg.
  rewrite !board_count by congruence. reflexivity.
Qed.
Lemma sparse_src s a s' gl : SparseRewardFn s a s' gl = M.sparse_reward (s_puzzle s') gl.
Proof. reflexivity. Qed.

Lemma wf_move n g e a : wf n g -> M.in_grid n e = true -> wf n (fst (M.move_empty n g e a)).
Proof.
  intros W He. unfold M.move_empty. destruct (M.in_grid n (M.padd e (jget (0, 0) M.MOVES a))) eqn:V; cbn [fst]; [|exact W].
  apply wf_pset; [apply wf_pset; assumption | assumption].
Qed.

(* ---- the whole step ---- *)
Theorem step_src n T rw key s a :
  wf n (s_puzzle s) -> M.in_grid n (s_empty_tile_position s) = true -> wf n (M.goal n) ->
  let r := step n T (M.goal n) (reward_src rw) s a in
  (conv key (fst r), snd r, conv_obs (step_obs n (M.goal n) s a)) = M.step n T rw (conv key s) a.
Proof.
  intros W He Wg. cbv zeta. unfold step, step_obs, M.step. cbn [conv M.puz M.blank M.steps M.skey].
  rewrite move_src. pose proof (wf_move n (s_puzzle s) (s_empty_tile_position s) a W He) as Wm.
  destruct (M.move_empty n (s_puzzle s) (s_empty_tile_position s) a) as [g' e'] eqn:Em. cbn [fst snd] in *.
  cbn [s_puzzle s_empty_tile_position s_step_count conv conv_obs o_puzzle o_empty_tile_position o_action_mask o_step_count].
  rewrite valid_src, Z.geb_leb.
  assert (R : reward_src rw s a (mkState g' e' (s_step_count s + 1)) (M.goal n) = M.reward_of rw (s_puzzle s) g' (M.goal n)).
  { unfold reward_src, M.reward_of. destruct (rw =? 0).
    - apply (dense_src n); assumption.
    - apply sparse_src. }
  rewrite R. unfold m_eqb, M.grid_eqb, cond_done, termination_src, transition_src, termination, transition, StepType_LAST, StepType_MID, LAST, MID.
  destruct (list_eqb (list_eqb Z.eqb) g' (M.goal n) || (T <=? s_step_count s + 1)); reflexivity.
Qed.

Theorem reset_src n key s :
  (conv key (fst (reset_from n s)), snd (reset_from n s), conv_obs (reset_obs n s)) = M.reset n (conv key s).
Proof. unfold reset_from, reset_obs, M.reset, M.observe. rewrite valid_src. reflexivity. Qed.

(* C03 on the translated step: never FIRST, MID with discount 1 or LAST with discount 0 (no truncation) *)
Require JV.Proofs.SlidingTile_Episode.
Lemma src_step_protocol n T rw (key : list Z) s a :
  wf n (s_puzzle s) -> M.in_grid n (s_empty_tile_position s) = true -> wf n (M.goal n) ->
  step_ok 1 false (snd (step n T (M.goal n) (reward_src rw) s a)) = true.
Proof.
  intros W I G. pose proof (step_src n T rw key s a W I G) as E. cbv zeta in E.
  assert (E2 : snd (step n T (M.goal n) (reward_src rw) s a) = snd (fst (M.step n T rw (conv key s) a))) by (rewrite <- E; reflexivity).
  rewrite E2. exact (proj1 (JV.Proofs.SlidingTile_Episode.step_protocol n T rw (conv key s) a)).
Qed.

(* projections of the tie: the translated step's state / timestep are the model's nxt / ts_of *)
Lemma src_nxt_ts n T rw (key : list Z) s a :
  wf n (s_puzzle s) -> M.in_grid n (s_empty_tile_position s) = true -> wf n (M.goal n) ->
  conv key (fst (step n T (M.goal n) (reward_src rw) s a)) = JV.Proofs.SlidingTile_Episode.nxt n T rw (conv key s) a
  /\ snd (step n T (M.goal n) (reward_src rw) s a) = JV.Proofs.SlidingTile_Episode.ts_of n T rw (conv key s) a.
Proof.
  intros W I G. pose proof (step_src n T rw key s a W I G) as E. cbv zeta in E.
  unfold JV.Proofs.SlidingTile_Episode.nxt, JV.Proofs.SlidingTile_Episode.ts_of. rewrite <- E. split; reflexivity.
Qed.
(* C05: an in-spec move whose mask entry is False leaves the board and the blank untouched; only the step counter advances *)
Lemma src_illegal_ignored n T rw (key : list Z) s a :
  wf n (s_puzzle s) -> M.in_grid n (s_empty_tile_position s) = true -> wf n (M.goal n) ->
  0 <= a < 4 -> M.legal_b n (s_empty_tile_position s) a = false ->
  conv key (fst (step n T (M.goal n) (reward_src rw) s a)) = M.mkS (s_puzzle s) (s_empty_tile_position s) (s_step_count s + 1) key
  /\ reward (snd (step n T (M.goal n) (reward_src rw) s a)) = [if rw =? 0 then 0 else b2z (JV.Proofs.SlidingTile_Episode.solved n (conv key s))].
Proof.
  intros W I G Ha Hl. destruct (src_nxt_ts n T rw key s a W I G) as [E1 E2]. rewrite E1, E2.
  destruct (JV.Proofs.SlidingTile_Episode.step_illegal n T rw (conv key s) a I Ha Hl) as (A & B & _). split; [exact A | exact B].
Qed.
