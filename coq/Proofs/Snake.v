(* Snake: grid lemmas, the pointwise description of a step, the mask is exactly the legal moves (C04),
   illegal moves terminate with reward 0 (C05), the chain invariant (C07), return = length - 1 (C08),
   reset states (C10), the time limit (C11, C01), protocol (C03).
   The growth rule on chains (C09), the observation (C12) and the checkers are in Proofs/Snake_rules.v. *)
Require Import JV.Base.Prelude JV.Base.JaxIndex JV.Base.Codec JV.Base.TimeStep JV.Model.Snake.

(* ---------- lists ---------- *)
Lemma znth_nth {A} (d : A) l i : 0 <= i -> znth d l i = nth (Z.to_nat i) l d.
Proof. intro H. unfold znth. destruct (i <? 0) eqn:E; [lia|reflexivity]. Qed.

Lemma zlen_zupd {A} i (v : A) l : zlen (zupd i v l) = zlen l.
Proof. unfold zlen. rewrite zupd_length. reflexivity. Qed.

Lemma zlen_map {A B} (f : A -> B) l : zlen (map f l) = zlen l.
Proof. unfold zlen. rewrite map_length. reflexivity. Qed.

Lemma znth_zupd {A} (d : A) l i j v : 0 <= i < zlen l -> 0 <= j < zlen l ->
  znth d (zupd i v l) j = if i =? j then v else znth d l j.
Proof.
  intros Hi Hj. unfold zupd. destruct (i <? 0) eqn:E; [lia|]. rewrite !znth_nth by lia.
  destruct (i =? j) eqn:E2.
  - assert (i = j) by lia; subst. apply nth_upd_same. unfold zlen in *; lia.
  - apply nth_upd_other. lia.
Qed.

Lemma znth_map {A B} (f : A -> B) (d : A) (d' : B) l i : 0 <= i < zlen l -> znth d' (map f l) i = f (znth d l i).
Proof.
  intro H. rewrite !znth_nth by lia. rewrite nth_indep with (d' := f d) by (rewrite map_length; unfold zlen in *; lia).
  apply map_nth.
Qed.

Lemma Forall_upd {A} (P : A -> Prop) n v l : Forall P l -> P v -> Forall P (upd n v l).
Proof.
  revert n; induction l as [|x l IH]; intros [|n] H Hv; cbn [upd]; auto; inversion H; subst; constructor; auto.
Qed.

Lemma Forall_zupd {A} (P : A -> Prop) i v l : Forall P l -> P v -> Forall P (zupd i v l).
Proof. intros. unfold zupd. destruct (i <? 0); auto using Forall_upd. Qed.

Lemma Forall_map' {A B} (f : A -> B) (P : B -> Prop) l : Forall (fun x => P (f x)) l -> Forall P (map f l).
Proof. induction 1; cbn; constructor; auto. Qed.

Lemma Forall_znth {A} (P : A -> Prop) d l i : Forall P l -> 0 <= i < zlen l -> P (znth d l i).
Proof.
  intros H Hi. rewrite znth_nth by lia. rewrite Forall_forall in H. apply H. apply nth_In. unfold zlen in *; lia.
Qed.

(* ---------- grids ---------- *)
Lemma shape_row {A} R C (g : grid A) r : shape R C g -> 0 <= r < R -> zlen (znth [] g r) = C.
Proof. intros [L F] Hr. apply (Forall_znth (fun row => zlen row = C)); auto. lia. Qed.

Lemma shape_gmap {A B} (f : A -> B) R C g : shape R C g -> shape R C (gmap f g).
Proof.
  intros [L F]. split; [unfold gmap; rewrite zlen_map; auto|]. unfold gmap. apply Forall_map'.
  eapply Forall_impl; [|exact F]. cbn. intros row H. rewrite zlen_map. auto.
Qed.

Lemma shape_gset {A} R C (g : grid A) r c v : shape R C g -> shape R C (gset g r c v).
Proof.
  intros [L F]. unfold gset. cbv zeta.
  destruct ((0 <=? jnorm (zlen g) r) && (jnorm (zlen g) r <? zlen g)) eqn:E1; [|split; auto].
  destruct ((0 <=? jnorm (zlen (znth [] g (jnorm (zlen g) r))) c)
            && (jnorm (zlen (znth [] g (jnorm (zlen g) r))) c <? zlen (znth [] g (jnorm (zlen g) r)))) eqn:E2; [|split; auto].
  split; [rewrite zlen_zupd; auto|]. apply Forall_zupd; auto. rewrite zlen_zupd.
  apply (shape_row R C g); [split; auto|lia].
Qed.

Lemma zlen_repeat {A} (v : A) n : zlen (repeat v n) = Z.of_nat n.
Proof. unfold zlen. rewrite repeat_length. reflexivity. Qed.

Lemma shape_gconst {A} R C (v : A) : 0 <= R -> 0 <= C -> shape R C (gconst R C v).
Proof.
  intros HR HC. unfold gconst. split; [rewrite zlen_repeat; lia|].
  apply Forall_forall. intros row Hin. apply repeat_spec in Hin. subst. rewrite zlen_repeat. lia.
Qed.

Lemma gat_gmap {A B} (f : A -> B) d d' R C g r c :
  shape R C g -> 0 <= r < R -> 0 <= c < C -> gat d' (gmap f g) r c = f (gat d g r c).
Proof.
  intros Sh Hr Hc. unfold gat, gmap. rewrite (znth_map (map f) [] []) by (destruct Sh; lia).
  apply znth_map. rewrite (shape_row R C) by auto. lia.
Qed.

Lemma gat_gset {A} (d : A) R C g r c v r' c' :
  shape R C g -> 0 <= r < R -> 0 <= c < C -> 0 <= r' < R -> 0 <= c' < C ->
  gat d (gset g r c v) r' c' = if (r =? r') && (c =? c') then v else gat d g r' c'.
Proof.
  intros Sh Hr Hc Hr' Hc'. pose proof Sh as [L F]. unfold gset. cbv zeta.
  assert (J1 : jnorm (zlen g) r = r) by (unfold jnorm; destruct (r <? 0) eqn:E; lia). rewrite J1.
  replace ((0 <=? r) && (r <? zlen g)) with true by lia.
  rewrite (shape_row R C g r) by auto.
  assert (J2 : jnorm C c = c) by (unfold jnorm; destruct (c <? 0) eqn:E; lia). rewrite J2.
  replace ((0 <=? c) && (c <? C)) with true by lia.
  unfold gat. rewrite znth_zupd by lia.
  destruct (r =? r') eqn:E1; cbn [andb]; [|reflexivity].
  assert (r = r') by lia. subst r'.
  rewrite znth_zupd by (rewrite (shape_row R C g r) by auto; lia). reflexivity.
Qed.

Lemma gget_gat {A} (d : A) R C g r c : shape R C g -> 0 <= r < R -> 0 <= c < C -> gget d g r c = gat d g r c.
Proof.
  intros Sh Hr Hc. pose proof Sh as [L F]. unfold gget, gat.
  rewrite (jget_in_range [] g r) by lia. rewrite <- (znth_nth [] g r) by lia.
  rewrite jget_in_range by (rewrite (shape_row R C g r) by auto; lia).
  rewrite <- znth_nth by lia. reflexivity.
Qed.

Lemma gat_gconst {A} (d v : A) R C r c : 0 <= r < R -> 0 <= c < C -> gat d (gconst R C v) r c = v.
Proof.
  intros Hr Hc. unfold gat, gconst. rewrite !znth_nth by lia.
  rewrite nth_indep with (d' := repeat v (Z.to_nat C)) by (rewrite repeat_length; lia).
  rewrite nth_repeat. rewrite nth_indep with (d' := v) by (rewrite repeat_length; lia). apply nth_repeat.
Qed.

(* ---------- cells ---------- *)
Lemma cell_eqb_eq p q : cell_eqb p q = true <-> p = q.
Proof.
  destruct p as [a b], q as [c d]. unfold cell_eqb. cbn [fst snd]. split.
  - intro H. f_equal; lia.
  - intro H. inversion H; subst. lia.
Qed.

Lemma cell_eqb_neq p q : cell_eqb p q = false <-> p <> q.
Proof.
  split.
  - intros H E. apply cell_eqb_eq in E. congruence.
  - intro H. destruct (cell_eqb p q) eqn:E; auto. apply cell_eqb_eq in E. contradiction.
Qed.

Lemma cell_eq_dec_aux (p q : cell) : p = q \/ p <> q.
Proof. destruct (cell_eqb p q) eqn:E; [left; apply cell_eqb_eq; auto|right; apply cell_eqb_neq; auto]. Qed.

Lemma move_unit a : Z.abs (fst (move_of a)) + Z.abs (snd (move_of a)) = 1.
Proof.
  unfold move_of, jget. change (zlen moves) with 4.
  pose proof (jclamp_range 4 a ltac:(lia)) as H. set (i := jclamp 4 a) in *.
  assert (Hc : i = 0 \/ i = 1 \/ i = 2 \/ i = 3) by lia.
  destruct Hc as [-> | [-> | [-> | ->]]]; reflexivity.
Qed.

Lemma target_adjacent s a : adjacent (head s) (target s a).
Proof.
  unfold adjacent, target, padd. cbn [fst snd]. pose proof (move_unit a). lia.
Qed.

Lemma in_grid_b_spec R C p : in_grid_b R C p = true <-> in_grid R C p.
Proof. unfold in_grid_b, in_grid, inb. lia. Qed.

(* ---------- the successor grid of a step, cell by cell ---------- *)
Definition eaten (s : state) (a : Z) : bool := cell_eqb (target s a) (fruit s).
Definition next_cell (s : state) (a : Z) (p : cell) : Z :=
  if cell_eqb (target s a) p then len s + b2z (eaten s a)
  else if eaten s a then bs_at s p else dec1 (bs_at s p).

Lemma step_fields R C T s a d :
  let s' := fst (step R C T s a d) in
  head s' = target s a /\ len s' = len s + b2z (eaten s a) /\ steps s' = steps s + 1 /\
  fruit s' = (if eaten s a then d else fruit s) /\
  body s' = gmap pos (bstate s') /\ tail s' = gmap is1 (bstate s') /\
  amask s' = action_mask R C (head s') (bstate s').
Proof. cbv zeta. unfold step, target, eaten. cbn [fst head len steps fruit body tail amask bstate]. repeat split. Qed.

Lemma step_shape R C T s a d : shape R C (bstate s) -> shape R C (bstate (fst (step R C T s a d))).
Proof.
  intro Sh. unfold step. cbn [fst bstate]. apply shape_gset. destruct (cell_eqb _ _); auto using shape_gmap.
Qed.

Lemma step_cell R C T s a d p :
  shape R C (bstate s) -> in_grid R C (target s a) -> in_grid R C p ->
  bs_at (fst (step R C T s a d)) p = next_cell s a p.
Proof.
  intros Sh [Hr Hc] [Pr Pc]. unfold bs_at, step, next_cell, eaten, target in *. cbn [fst bstate].
  set (hd := padd (head s) (move_of a)) in *.
  rewrite (gat_gset 0 R C) by (auto; destruct (cell_eqb hd (fruit s)); auto using shape_gmap).
  destruct (cell_eqb hd p) eqn:E; unfold cell_eqb in E; rewrite E; [reflexivity|].
  destruct (cell_eqb hd (fruit s)); [reflexivity|].
  apply (gat_gmap dec1 0 0 R C); auto.
Qed.

(* ---------- C04: the mask is exactly the set of legal moves ---------- *)
Definition MaskOk (R C : Z) (s : state) : Prop := amask s = action_mask R C (head s) (bstate s).

Lemma jget_map_in {A B} (f : A -> B) d d' l i : 0 <= i < zlen l -> jget d' (map f l) i = f (jget d l i).
Proof.
  intro H. rewrite !jget_in_range by (rewrite ?zlen_map; lia).
  rewrite nth_indep with (d' := f d) by (rewrite map_length; unfold zlen in *; lia). apply map_nth.
Qed.

Lemma is_valid_move_spec R C s m :
  shape R C (bstate s) -> (forall p, in_grid R C p -> 0 <= bs_at s p) ->
  (is_valid_move R C (head s) (bstate s) m = true <->
   in_grid R C (padd (head s) m) /\ (bs_at s (padd (head s) m) = 0 \/ bs_at s (padd (head s) m) = 1)).
Proof.
  intros Sh Rg. unfold is_valid_move. cbv zeta. set (p := padd (head s) m).
  destruct ((fst p <? 0) || (fst p >=? R) || (snd p <? 0) || (snd p >=? C)) eqn:Out; cbn [negb andb].
  - split; [discriminate|]. intros [[H1 H2] _]. lia.
  - assert (G : in_grid R C p) by (unfold in_grid; lia).
    destruct G as [G1 G2].
    rewrite (gget_gat 0 R C) by auto using shape_gmap.
    rewrite (gat_gmap dec1 0 0 R C) by auto.
    specialize (Rg p (conj G1 G2)). unfold bs_at in *. unfold dec1. split.
    + intro H. split; [split; auto|]. lia.
    + intros [_ H]. lia.
Qed.

Theorem C04_mask_iff_legal R C s a :
  shape R C (bstate s) -> (forall p, in_grid R C p -> 0 <= bs_at s p) -> MaskOk R C s -> 0 <= a < 4 ->
  (jget false (amask s) a = true <-> legal R C s a).
Proof.
  intros Sh Rg M Ha. rewrite M. unfold action_mask.
  rewrite (jget_map_in _ (0, 0)) by (change (zlen moves) with 4; lia).
  fold (move_of a). rewrite is_valid_move_spec by auto. unfold legal, target. tauto.
Qed.

Lemma legal_b_spec R C s a : legal_b R C s a = true <-> legal R C s a.
Proof.
  unfold legal_b, legal. rewrite andb_true_iff, in_grid_b_spec. split; intros [H1 H2]; split; auto; lia.
Qed.

(* ---------- C07: the chain invariant ---------- *)
Lemma pos_false x : pos x = false <-> x <= 0.
Proof. unfold pos. lia. Qed.

Definition draw_ok (R C T : Z) (s : state) (a : Z) (d : cell) : Prop :=
  eaten s a = true -> valid_draw R C (body (fst (step R C T s a d))) d = true.

Theorem step_preserves_Phys R C T s a d :
  Phys R C s -> legal R C s a -> draw_ok R C T s a d -> Phys R C (fst (step R C T s a d)).
Proof.
  intros P [Hin Hval] Hd. unfold draw_ok in Hd.
  destruct P as [Sh Hlen Rg Ex Un Adj [Hh1 Hh2] [Hf1 Hf2] Hb Ht].
  pose proof (step_fields R C T s a d) as F. cbv zeta in F.
  destruct F as (Fh & Fl & Fs & Ff & Fb & Ft & Fm).
  pose proof (step_shape R C T s a d Sh) as Sh'.
  assert (Cell : forall p, in_grid R C p -> bs_at (fst (step R C T s a d)) p = next_cell s a p)
    by (intros; apply (step_cell R C T); auto).
  set (s' := fst (step R C T s a d)) in *.
  set (hd := target s a) in *.
  assert (Hea : eaten s a = true -> bs_at s hd = 0).
  { intro E. unfold eaten in E. apply cell_eqb_eq in E. fold hd in E. rewrite E. exact Hf2. }
  assert (NC_hd : next_cell s a hd = len s + b2z (eaten s a)).
  { unfold next_cell. fold hd. replace (cell_eqb hd hd) with true by (symmetry; apply cell_eqb_eq; reflexivity). reflexivity. }
  assert (NC_other : forall p, p <> hd -> next_cell s a p = if eaten s a then bs_at s p else dec1 (bs_at s p)).
  { intros p Hp. unfold next_cell. fold hd. replace (cell_eqb hd p) with false; [reflexivity|].
    symmetry. apply cell_eqb_neq. congruence. }
  assert (Rg' : forall p, in_grid R C p -> 0 <= bs_at s' p <= len s').
  { intros p Hp. rewrite Cell by auto. rewrite Fl. specialize (Rg p Hp).
    destruct (cell_eq_dec_aux p hd) as [->|Hne].
    - rewrite NC_hd. destruct (eaten s a); cbn [b2z]; lia.
    - rewrite NC_other by auto. destruct (eaten s a); cbn [b2z]; unfold dec1; lia. }
  constructor; auto.
  - rewrite Fl. destruct (eaten s a); cbn [b2z]; lia.
  - (* every value 1..len' occurs *)
    intros k Hk. rewrite Fl in Hk.
    destruct (Z.eq_dec k (len s + b2z (eaten s a))) as [->|Hne].
    + exists hd. split; auto. rewrite Cell by auto. exact NC_hd.
    + destruct (eaten s a) eqn:E; cbn [b2z] in *.
      * destruct (Ex k ltac:(lia)) as (p & Hp & Hv). exists p. split; auto.
        rewrite Cell by auto. rewrite NC_other; auto. intros ->. specialize (Hea eq_refl). lia.
      * destruct (Ex (k + 1) ltac:(lia)) as (p & Hp & Hv). exists p. split; auto.
        rewrite Cell by auto. rewrite NC_other; [unfold dec1; lia|]. intros ->. lia.
  - (* positive values occur once *)
    intros p q Hp Hq Hpos Heq. rewrite !Cell in * by auto.
    destruct (cell_eq_dec_aux p hd) as [->|Hnp]; destruct (cell_eq_dec_aux q hd) as [->|Hnq]; auto.
    + rewrite NC_hd, NC_other in Heq by auto. specialize (Rg q Hq).
      destruct (eaten s a); cbn [b2z] in *; unfold dec1 in *; lia.
    + rewrite NC_hd, NC_other in Heq by auto. specialize (Rg p Hp).
      destruct (eaten s a); cbn [b2z] in *; unfold dec1 in *; lia.
    + rewrite !NC_other in * by auto.
      destruct (eaten s a); [apply Un; auto|]. apply Un; auto; unfold dec1 in *; lia.
  - (* consecutive values are adjacent *)
    intros p q Hp Hq H1 Hsucc. rewrite !Cell in * by auto.
    destruct (cell_eq_dec_aux q hd) as [->|Hnq].
    + assert (Hnp : p <> hd) by (intros ->; lia).
      rewrite NC_hd in Hsucc. rewrite NC_other in * by auto.
      assert (p = head s).
      { apply Un; auto. - destruct (eaten s a); unfold dec1 in *; lia.
        - rewrite Hh2. specialize (Rg p Hp). destruct (eaten s a); cbn [b2z] in *; unfold dec1 in *; lia. }
      subst p. apply target_adjacent.
    + rewrite (NC_other q) in Hsucc by auto. specialize (Rg q Hq).
      destruct (cell_eq_dec_aux p hd) as [->|Hnp].
      * rewrite NC_hd in Hsucc. destruct (eaten s a); cbn [b2z] in *; unfold dec1 in *; lia.
      * rewrite NC_other in * by auto.
        destruct (eaten s a); [apply Adj; auto|]. apply Adj; auto; unfold dec1 in *; lia.
  - rewrite Fh. split; auto. rewrite Cell by auto. rewrite Fl. exact NC_hd.
  - rewrite Ff. destruct (eaten s a) eqn:E.
    + specialize (Hd eq_refl). unfold valid_draw in Hd. apply andb_true_iff in Hd as [D1 D2].
      apply in_grid_b_spec in D1. split; auto.
      apply negb_true_iff in D2. fold s' in D2. rewrite Fb in D2.
      destruct D1 as [D1r D1c]. rewrite (gat_gmap pos 0 true R C) in D2 by auto.
      apply pos_false in D2. specialize (Rg' d (conj D1r D1c)). unfold bs_at in *. lia.
    + split; auto. rewrite Cell by auto. rewrite NC_other.
      * rewrite Hf2. reflexivity.
      * intros Hc. unfold eaten in E. apply cell_eqb_neq in E. fold hd in E. congruence.
Qed.

(* ---------- invariants bundled ---------- *)
Definition Timed (T : Z) (s : state) : Prop := 0 <= steps s < T.
Record Inv (R C T : Z) (s : state) : Prop := {
  inv_phys : Phys R C s; inv_mask : MaskOk R C s; inv_time : Timed T s }.

Lemma Phys_nonneg R C s : Phys R C s -> forall p, in_grid R C p -> 0 <= bs_at s p.
Proof. intros P p Hp. apply (ph_range R C s P p Hp). Qed.

Theorem mask_iff_legal R C T s a : Inv R C T s -> 0 <= a < 4 -> (jget false (amask s) a = true <-> legal R C s a).
Proof.
  intros [P M _] Ha. apply C04_mask_iff_legal; auto. - apply (ph_shape R C s P). - apply (Phys_nonneg R C s P).
Qed.

(* ---------- step type ---------- *)
Lemma step_type_spec R C T s a d :
  st (snd (step R C T s a d)) = LAST <->
  (jget false (amask s) a = false \/ all_true (body (fst (step R C T s a d))) = true \/ T <= steps s + 1).
Proof.
  unfold step. cbn [fst snd body]. unfold cond_done.
  destruct (jget false (amask s) a); cbn [negb orb];
  destruct (all_true _); cbn [orb]; destruct (steps s + 1 >=? T) eqn:E; cbn [st termination transition];
  unfold LAST, MID; split; intro H; try lia; try tauto; try (destruct H as [H|[H|H]]; try discriminate; lia).
Qed.

Lemma step_type_cases R C T s a d : st (snd (step R C T s a d)) = MID \/ st (snd (step R C T s a d)) = LAST.
Proof. unfold step. cbn [snd]. unfold cond_done. destruct (_ || _); cbn; auto. Qed.

Lemma step_mid R C T s a d :
  st (snd (step R C T s a d)) = MID ->
  jget false (amask s) a = true /\ all_true (body (fst (step R C T s a d))) = false /\ steps s + 1 < T.
Proof.
  intro H. pose proof (step_type_spec R C T s a d) as S. rewrite H in S.
  assert (N : ~ (jget false (amask s) a = false \/ all_true (body (fst (step R C T s a d))) = true \/ T <= steps s + 1)).
  { intro X. apply S in X. discriminate X. }
  destruct (jget false (amask s) a); destruct (all_true _); try tauto. repeat split; try reflexivity. lia.
Qed.

(* every non-terminal successor of a consistent state is consistent (ANY in-spec action) *)
Theorem step_preserves_Inv R C T s a d :
  Inv R C T s -> 0 <= a < 4 -> draw_ok R C T s a d ->
  st (snd (step R C T s a d)) = MID -> Inv R C T (fst (step R C T s a d)).
Proof.
  intros I Ha Hd Hmid. destruct (step_mid R C T s a d Hmid) as (Hm & _ & Ht).
  pose proof (proj1 (mask_iff_legal R C T s a I Ha) Hm) as Hl.
  destruct I as [P M Tm]. constructor.
  - apply step_preserves_Phys; auto.
  - unfold MaskOk. apply (step_fields R C T s a d).
  - unfold Timed in *. pose proof (step_fields R C T s a d) as F. cbv zeta in F.
    destruct F as (_ & _ & Fs & _). rewrite Fs. lia.
Qed.

(* ---------- C10: reset over the two draws ---------- *)
Lemma init_cell R C hd fr p : in_grid R C hd -> in_grid R C p ->
  bs_at (fst (init R C hd fr)) p = if cell_eqb hd p then 1 else 0.
Proof.
  intros [Hr Hc] [Pr Pc]. unfold bs_at, init. cbn [fst bstate].
  assert (Sh : shape R C (gconst R C false)) by (apply shape_gconst; lia).
  rewrite (gat_gmap b2z false 0 R C) by auto using shape_gset.
  rewrite (gat_gset false R C) by auto.
  unfold cell_eqb. destruct (_ && _); [reflexivity|]. rewrite gat_gconst by auto. reflexivity.
Qed.

Lemma gmap_b2z_id (f : Z -> bool) (g : grid bool) : (forall b, f (b2z b) = b) -> gmap f (gmap b2z g) = g.
Proof.
  intro H. unfold gmap. rewrite map_map. rewrite <- (map_id g) at 2. apply map_ext. intro row.
  rewrite map_map. rewrite <- (map_id row) at 2. apply map_ext. auto.
Qed.

Theorem init_Phys R C hd fr :
  in_grid R C hd -> valid_draw R C (body (fst (init R C hd fr))) fr = true -> Phys R C (fst (init R C hd fr)).
Proof.
  intros Hh Hv.
  assert (Cell : forall p, in_grid R C p -> bs_at (fst (init R C hd fr)) p = if cell_eqb hd p then 1 else 0)
    by (intros; apply init_cell; auto).
  assert (Sh : shape R C (gconst R C false)) by (destruct Hh; apply shape_gconst; lia).
  assert (Hself : cell_eqb hd hd = true) by (apply cell_eqb_eq; reflexivity).
  unfold valid_draw in Hv. apply andb_true_iff in Hv as [V1 V2]. apply in_grid_b_spec in V1.
  apply negb_true_iff in V2.
  assert (Hne : cell_eqb hd fr = false).
  { unfold init in V2. cbn [fst body] in V2. destruct Hh as [Hr Hc]. destruct V1 as [Vr Vc].
    rewrite (gat_gset true R C) in V2 by auto. unfold cell_eqb. destruct (_ && _); [discriminate V2|reflexivity]. }
  constructor.
  - unfold init. cbn [fst bstate]. auto using shape_gmap, shape_gset.
  - cbn. lia.
  - intros p Hp. rewrite Cell by auto. cbn [init fst len]. destruct (cell_eqb hd p); lia.
  - intros k Hk. cbn [init fst len] in Hk. exists hd. split; auto. rewrite Cell by auto. rewrite Hself. lia.
  - intros p q Hp Hq Hpos Heq. rewrite !Cell in * by auto.
    destruct (cell_eqb hd p) eqn:E1; [|lia]. destruct (cell_eqb hd q) eqn:E2; [|lia].
    apply cell_eqb_eq in E1, E2. congruence.
  - intros p q Hp Hq H1 Hs. rewrite !Cell in * by auto.
    destruct (cell_eqb hd p); destruct (cell_eqb hd q); lia.
  - cbn [init fst head len]. split; auto. rewrite Cell by auto. rewrite Hself. reflexivity.
  - cbn [init fst fruit]. split; auto. rewrite Cell by auto. rewrite Hne. reflexivity.
  - unfold init. cbn [fst body bstate]. symmetry. apply gmap_b2z_id. intros []; reflexivity.
  - unfold init. cbn [fst tail bstate]. symmetry. apply gmap_b2z_id. intros []; reflexivity.
Qed.

Theorem init_Inv R C T hd fr :
  0 < T -> in_grid R C hd -> valid_draw R C (body (fst (init R C hd fr))) fr = true -> Inv R C T (fst (init R C hd fr)).
Proof.
  intros HT Hh Hv. constructor; [apply init_Phys; auto|reflexivity|unfold Timed; cbn; lia].
Qed.

(* head and fruit start on distinct in-grid cells; the snake has length 1 *)
Theorem init_wellformed R C hd fr :
  in_grid R C hd -> valid_draw R C (body (fst (init R C hd fr))) fr = true ->
  let s := fst (init R C hd fr) in
  in_grid R C (head s) /\ in_grid R C (fruit s) /\ head s <> fruit s /\ len s = 1 /\ steps s = 0
  /\ bs_at s (head s) = 1 /\ bs_at s (fruit s) = 0 /\ snd (init R C hd fr) = restart 1.
Proof.
  intros Hh Hv. cbv zeta. pose proof (init_Phys R C hd fr Hh Hv) as P.
  destruct (ph_head R C _ P) as [H1 H2]. destruct (ph_fruit R C _ P) as [F1 F2].
  split; [exact H1|]. split; [exact F1|]. split.
  { intro E. rewrite E in H2. rewrite H2 in F2. cbn in F2. discriminate F2. }
  split; [reflexivity|]. split; [reflexivity|]. split; [exact H2|]. split; [exact F2|reflexivity].
Qed.

(* ---------- C05: an illegal move ends the episode with reward 0 ---------- *)
Theorem illegal_terminates R C T s a d :
  Inv R C T s -> 0 <= a < 4 -> jget false (amask s) a = false ->
  snd (step R C T s a d) = termination 1 [0] /\ ~ legal R C s a.
Proof.
  intros I Ha Hm.
  assert (Hnl : ~ legal R C s a).
  { intro L. apply (mask_iff_legal R C T s a I Ha) in L. congruence. }
  split; auto.
  assert (He : eaten s a = false).
  { destruct (eaten s a) eqn:E; auto. exfalso. apply Hnl. unfold eaten in E. apply cell_eqb_eq in E.
    destruct (ph_fruit R C s (inv_phys R C T s I)) as [F1 F2]. unfold legal. rewrite E. auto. }
  unfold eaten, target in He. unfold step. cbn [snd]. rewrite Hm, He. reflexivity.
Qed.

(* a legal move is never treated as invalid: it ends the episode only by completion or the time limit *)
Theorem legal_continues R C T s a d :
  Inv R C T s -> 0 <= a < 4 -> legal R C s a ->
  all_true (body (fst (step R C T s a d))) = false -> steps s + 1 < T -> st (snd (step R C T s a d)) = MID.
Proof.
  intros I Ha L Hc Ht. apply (mask_iff_legal R C T s a I Ha) in L.
  destruct (step_type_cases R C T s a d) as [H|H]; auto.
  apply step_type_spec in H. destruct H as [H|[H|H]]; try congruence; lia.
Qed.

(* ---------- C08 / C11: episodes ---------- *)
Lemma step_reward R C T s a d : reward (snd (step R C T s a d)) = [len (fst (step R C T s a d)) - len s].
Proof.
  unfold step. cbn [fst snd len]. unfold cond_done. destruct (_ || _); cbn [reward termination transition]; f_equal; lia.
Qed.

(* an episode: actions paired with the fruit draws; it stops at the first LAST *)
Fixpoint final (R C T : Z) (s : state) (acts : list (Z * cell)) : state :=
  match acts with
  | [] => s
  | (a, d) :: r => let p := step R C T s a d in if st (snd p) =? LAST then fst p else final R C T (fst p) r
  end.
Fixpoint ret (R C T : Z) (s : state) (acts : list (Z * cell)) : Z :=
  match acts with
  | [] => 0
  | (a, d) :: r => let p := step R C T s a d in
                   zsum (reward (snd p)) + (if st (snd p) =? LAST then 0 else ret R C T (fst p) r)
  end.
Fixpoint nsteps (R C T : Z) (s : state) (acts : list (Z * cell)) : Z :=
  match acts with
  | [] => 0
  | (a, d) :: r => let p := step R C T s a d in 1 + (if st (snd p) =? LAST then 0 else nsteps R C T (fst p) r)
  end.
Fixpoint ended (R C T : Z) (s : state) (acts : list (Z * cell)) : bool :=
  match acts with
  | [] => false
  | (a, d) :: r => let p := step R C T s a d in if st (snd p) =? LAST then true else ended R C T (fst p) r
  end.

(* the return telescopes to the growth of the snake: for ANY actions and draws *)
Theorem return_is_growth R C T acts : forall s, ret R C T s acts = len (final R C T s acts) - len s.
Proof.
  induction acts as [|[a d] r IH]; intro s; cbn [ret final]; [lia|].
  cbv zeta. rewrite step_reward. cbn [zsum]. destruct (st (snd (step R C T s a d)) =? LAST); [lia|].
  rewrite IH. lia.
Qed.

Theorem return_from_reset R C T hd fr acts :
  ret R C T (fst (init R C hd fr)) acts = len (final R C T (fst (init R C hd fr)) acts) - 1.
Proof. rewrite return_is_growth. reflexivity. Qed.

Theorem steps_counted R C T acts : forall s, steps (final R C T s acts) = steps s + nsteps R C T s acts.
Proof.
  induction acts as [|[a d] r IH]; intro s; cbn [nsteps final]; [lia|].
  cbv zeta. pose proof (step_fields R C T s a d) as F. cbv zeta in F. destruct F as (_ & _ & Fs & _).
  destruct (st (snd (step R C T s a d)) =? LAST); [lia|]. rewrite IH. lia.
Qed.

(* never later: the step that reaches the limit is LAST *)
Theorem limit_is_last R C T s a d : T <= steps s + 1 -> st (snd (step R C T s a d)) = LAST.
Proof. intro H. apply step_type_spec. auto. Qed.

(* never earlier without another cause *)
Theorem last_has_cause R C T s a d :
  st (snd (step R C T s a d)) = LAST -> steps s + 1 < T ->
  jget false (amask s) a = false \/ all_true (body (fst (step R C T s a d))) = true.
Proof. intros H Ht. apply step_type_spec in H. destruct H as [H|[H|H]]; auto. lia. Qed.

Lemma Timed_step R C T s a d : Timed T s -> st (snd (step R C T s a d)) = MID -> Timed T (fst (step R C T s a d)).
Proof.
  intros Tm Hmid. destruct (step_mid R C T s a d Hmid) as (_ & _ & Ht).
  pose proof (step_fields R C T s a d) as F. cbv zeta in F. destruct F as (_ & _ & Fs & _).
  unfold Timed in *. rewrite Fs. lia.
Qed.

(* an episode never has more than T steps, and the step count shown never exceeds T (terminal state included) *)
Theorem episode_within_limit R C T acts : forall s,
  Timed T s -> steps s + nsteps R C T s acts <= T /\ 0 <= steps (final R C T s acts) <= T.
Proof.
  induction acts as [|[a d] r IH]; intros s Tm; cbn [nsteps final]; [unfold Timed in Tm; lia|].
  cbv zeta. pose proof (step_fields R C T s a d) as F. cbv zeta in F. destruct F as (_ & _ & Fs & _).
  destruct (step_type_cases R C T s a d) as [H|H]; rewrite H.
  - change (MID =? LAST) with false. cbv iota.
    destruct (IH _ (Timed_step R C T s a d Tm H)) as [I1 I2]. rewrite Fs in I1. lia.
  - change (LAST =? LAST) with true. cbv iota. unfold Timed in Tm. lia.
Qed.

(* exactly at the limit: an episode that ended at step number n < T ended for another cause; one that is still
   running has had fewer than T steps *)
Theorem running_below_limit R C T acts : forall s,
  Timed T s -> ended R C T s acts = false -> steps s + nsteps R C T s acts < T.
Proof.
  induction acts as [|[a d] r IH]; intros s Tm; cbn [nsteps ended]; [unfold Timed in Tm; lia|].
  cbv zeta. pose proof (step_fields R C T s a d) as F. cbv zeta in F. destruct F as (_ & _ & Fs & _).
  destruct (step_type_cases R C T s a d) as [H|H]; rewrite H.
  - change (MID =? LAST) with false. cbv iota. intro E.
    pose proof (IH _ (Timed_step R C T s a d Tm H) E) as I1. rewrite Fs in I1. lia.
  - change (LAST =? LAST) with true. cbv iota. discriminate.
Qed.

(* ---------- C01 (step_count part) / C03 ---------- *)
Theorem obs_step_count_bounded R C T s a d :
  Timed T s -> 0 <= o_steps (observe (fst (step R C T s a d))) <= T.
Proof.
  intro Tm. unfold observe. cbn [o_steps]. pose proof (step_fields R C T s a d) as F. cbv zeta in F.
  destruct F as (_ & _ & Fs & _). rewrite Fs. unfold Timed in Tm. lia.
Qed.

Theorem protocol_step R C T s a d : step_ok 1 false (snd (step R C T s a d)) = true.
Proof.
  unfold step. cbn [snd]. unfold cond_done. destruct (_ || _); destruct (cell_eqb _ _); reflexivity.
Qed.

Theorem protocol_reset R C hd fr : first_ok 1 (snd (init R C hd fr)) = true.
Proof. reflexivity. Qed.

Theorem reward_01 R C T s a d : reward (snd (step R C T s a d)) = [0] \/ reward (snd (step R C T s a d)) = [1].
Proof.
  unfold step. cbn [snd]. unfold cond_done. destruct (_ || _); destruct (cell_eqb _ _); cbn; auto.
Qed.
