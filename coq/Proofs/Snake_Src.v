(* Snake AS TRANSLATED FROM THE SOURCE (Gen/SnakeSrc.v: step, _get_action_mask, _update_head_position, Position.__eq__/__add__, MOVES)
   equals the hand model Model/Snake.v on every board, state, action and re-drawn fruit cell. *)
Require Import JV.Base.Prelude JV.Base.JaxIndex JV.Base.Codec JV.Base.TimeStep JV.Gen.TimeStepSrc JV.Gen.SnakeSrc.
Require JV.Model.Snake.
Require Import Btauto.
Module M := JV.Model.Snake.

Definition conv (s : State) : M.state :=
  M.mkS (s_body s) (s_body_state s) (s_head_position s) (s_tail s) (s_fruit_position s) (s_length s) (s_step_count s) (s_action_mask s).

Lemma m_map_map {A B C} (f : B -> C) (g : A -> B) (x : list (list A)) : m_map f (m_map g x) = m_map (fun a => f (g a)) x.
Proof. unfold m_map. rewrite map_map. apply map_ext. intro r. apply map_map. Qed.

Lemma dec_src bs : m_map (Z.max 0) (m_map (fun x_ : Z => x_ - 1) bs) = M.gmap M.dec1 bs.
Proof. rewrite m_map_map. reflexivity. Qed.

Lemma mask_src R C hd bs : get_action_mask R C hd bs = M.action_mask R C hd bs.
Proof.
  unfold get_action_mask, M.action_mask. cbv zeta. apply map_ext. intros m.
  unfold M.is_valid_move, Position_add, M.padd. rewrite ?dec_src.
  (* the boolean skeleton is decided as a tautology over the atomic comparisons, so that equivalent ways of writing it
     (~a & ~b, ~(a | b), a reordered disjunction) do not break the tie *)
  first [reflexivity | btauto].
Qed.

Lemma head_src hd a : update_head_position hd a = M.padd hd (M.move_of a).
Proof.
  unfold update_head_position, M.move_of, Position_add, M.padd. change MOVES with M.moves.
  destruct (jget (0, 0) M.moves a) as [r c]. reflexivity.
Qed.

(* the body plane AFTER the move (it does not depend on the draw): the sampler must be given THIS plane *)
Definition new_body R C T s a : list (list bool) := M.body (fst (M.step R C T (conv s) a (0, 0))).

Theorem step_src R C T (draw : list (list bool) -> Z * Z) s a :
  let d := draw (new_body R C T s a) in
  let r := step R C T draw s a in
  conv (fst r) = fst (M.step R C T (conv s) a d) /\ snd r = snd (M.step R C T (conv s) a d).
Proof.
  cbv zeta. unfold new_body, step, M.step. cbn [conv M.amask M.head M.fruit M.len M.bstate M.steps].
  rewrite head_src. set (hd := M.padd (s_head_position s) (M.move_of a)).
  change (Position_eq hd (s_fruit_position s)) with (M.cell_eqb hd (s_fruit_position s)).
  set (eaten := M.cell_eqb hd (s_fruit_position s)).
  rewrite dec_src.
  set (bs0 := if eaten then s_body_state s else M.gmap M.dec1 (s_body_state s)).
  set (bs' := gset bs0 (fst hd) (snd hd) (s_length s + b2z eaten)).
  rewrite mask_src.
  change (m_map (fun x_ : Z => x_ >? 0) bs') with (M.gmap M.pos bs').
  change (m_map (fun x_ : Z => x_ =? 1) bs') with (M.gmap M.is1 bs').
  change (m_all (M.gmap M.pos bs')) with (M.all_true (M.gmap M.pos bs')).
  cbn [fst snd conv s_body s_body_state s_head_position s_tail s_fruit_position s_length s_step_count s_action_mask].
  split.
  - destruct eaten; reflexivity.
  - unfold cond_done, termination_src, transition_src, termination, transition, StepType_LAST, StepType_MID, LAST, MID.
    destruct (negb (jget false (s_action_mask s) a) || _ || _); reflexivity.
Qed.

(* ---- the Snake theorems, transferred to the translated source ---- *)
Require Import JV.Proofs.Snake.
Lemma src_inv_step R C T s a (draw : list (list bool) -> Z * Z) :
  Inv R C T (conv s) -> 0 <= a < 4 -> draw_ok R C T (conv s) a (draw (new_body R C T s a)) ->
  st (snd (step R C T draw s a)) = MID -> Inv R C T (conv (fst (step R C T draw s a))).
Proof.
  intros I Ha D Hm. destruct (step_src R C T draw s a) as [E1 E2]. rewrite E1. rewrite E2 in Hm.
  exact (step_preserves_Inv R C T (conv s) a _ I Ha D Hm).
Qed.
Lemma src_mask_iff_legal R C T s a (draw : list (list bool) -> Z * Z) b :
  Inv R C T (conv s) -> 0 <= a < 4 -> draw_ok R C T (conv s) a (draw (new_body R C T s a)) ->
  st (snd (step R C T draw s a)) = MID -> 0 <= b < 4 ->
  let s' := fst (step R C T draw s a) in
  (jget false (s_action_mask s') b = true <-> M.legal R C (conv s') b).
Proof.
  intros I Ha D Hm Hb. cbv zeta. pose proof (src_inv_step R C T s a draw I Ha D Hm) as I'.
  exact (mask_iff_legal R C T (conv (fst (step R C T draw s a))) b I' Hb).
Qed.
Lemma src_mask_fn_legal R C T s b :
  Inv R C T (conv s) -> 0 <= b < 4 ->
  (jget false (get_action_mask R C (s_head_position s) (s_body_state s)) b = true <-> M.legal R C (conv s) b).
Proof.
  intros I Hb. rewrite mask_src.
  assert (E : M.action_mask R C (s_head_position s) (s_body_state s) = M.amask (conv s)).
  { pose proof (inv_mask R C T (conv s) I) as Mk. unfold MaskOk in Mk. cbn [conv M.amask M.head M.bstate] in Mk. symmetry. exact Mk. }
  rewrite E. exact (mask_iff_legal R C T (conv s) b I Hb).
Qed.

(* ---- the observation: five planes, the fifth a float quotient kept as numerators over a common denominator ---- *)
Definition conv_obs (o : Observation) : M.obs :=
  let '(b, h, t, f, (num, den)) := o_grid o in M.mkO b h t f num den (o_step_count o) (o_action_mask o).
Lemma m_max_src g : m_max g = M.gmax g.
Proof. reflexivity. Qed.
Theorem observe_src s : conv_obs (state_to_observation s) = M.observe (conv s).
Proof. reflexivity. Qed.

(* C03 on the translated step: never FIRST, MID with discount 1 or LAST with discount 0 (no truncation) -- any state, any action *)
Lemma src_step_protocol R C T (draw : list (list bool) -> Z * Z) s a : step_ok 1 false (snd (step R C T draw s a)) = true.
Proof. destruct (step_src R C T draw s a) as [_ E]. rewrite E. apply protocol_step. Qed.

(* C11 on the translated step: LAST from the limit on; an earlier LAST has a cause (masked-out move, or the board is full) *)
Lemma src_never_later R C T (draw : list (list bool) -> Z * Z) s a : T <= s_step_count s + 1 -> st (snd (step R C T draw s a)) = LAST.
Proof. intros H. destruct (step_src R C T draw s a) as [_ E]. rewrite E. apply limit_is_last. exact H. Qed.
Lemma src_not_earlier_without_cause R C T (draw : list (list bool) -> Z * Z) s a :
  st (snd (step R C T draw s a)) = LAST -> s_step_count s + 1 < T ->
  jget false (s_action_mask s) a = false \/ M.all_true (s_body (fst (step R C T draw s a))) = true.
Proof.
  intros HL Hlt. destruct (step_src R C T draw s a) as [E1 E2]. rewrite E2 in HL.
  destruct (last_has_cause R C T (conv s) a _ HL Hlt) as [H|H]; [left; exact H | right].
  rewrite <- E1 in H. exact H.
Qed.
(* C05: a masked-out move ends the episode with zero reward *)
Lemma src_illegal_terminates R C T (draw : list (list bool) -> Z * Z) s a :
  Inv R C T (conv s) -> 0 <= a < 4 -> jget false (s_action_mask s) a = false ->
  snd (step R C T draw s a) = termination 1 [0] /\ ~ M.legal R C (conv s) a.
Proof. intros I Ha Hm. destruct (step_src R C T draw s a) as [_ E]. rewrite E. exact (illegal_terminates R C T (conv s) a _ I Ha Hm). Qed.
