(* Snake: in a consistent state the number of body cells counted on the raw grid equals the length (C08:
   "fruits eaten" recomputed from the final state = body cells - 1). *)
Require Import JV.Base.Prelude JV.Base.JaxIndex JV.Base.Codec JV.Base.TimeStep JV.Model.Snake JV.Proofs.Snake JV.Proofs.Snake_rules.

Lemma nth_map_zrange {A} (f : Z -> A) n i d : 0 <= i < n -> nth (Z.to_nat i) (map f (zrange n)) d = f i.
Proof.
  intro H. unfold zrange. rewrite nth_indep with (d' := f 0) by (rewrite map_length, zrange_from_length; lia).
  rewrite map_nth. rewrite zrange_from_nth by lia. f_equal. lia.
Qed.

Lemma zrange_length n : length (zrange n) = Z.to_nat n.
Proof. unfold zrange. apply zrange_from_length. Qed.

Lemma list_as_map {A} (d : A) (l : list A) n : zlen l = n -> l = map (fun i => znth d l i) (zrange n).
Proof.
  intro L. apply (nth_ext _ _ d d); [rewrite map_length, zrange_length; unfold zlen in L; lia|].
  intros k Hk. replace k with (Z.to_nat (Z.of_nat k)) at 2 by lia.
  rewrite nth_map_zrange by (unfold zlen in L; lia). rewrite znth_nth by lia. rewrite Nat2Z.id. reflexivity.
Qed.

Lemma grid_as_map R C (g : grid Z) : shape R C g ->
  g = map (fun r => map (fun c => gat 0 g r c) (zrange C)) (zrange R).
Proof.
  intros Sh. pose proof Sh as [L F]. rewrite (list_as_map [] g R L) at 1. apply map_ext_in. intros r Hr.
  apply in_zrange in Hr. apply (list_as_map 0). apply (shape_row R C); auto.
Qed.

Lemma concat_map_flat {A B C'} (F : A -> list B) (K : A -> list C') (h : C' -> B) l :
  (forall a, F a = map h (K a)) -> concat (map F l) = map h (flat_map K l).
Proof.
  intro H. induction l as [|a l IH]; cbn [map concat flat_map]; [reflexivity|].
  rewrite map_app, IH, H. reflexivity.
Qed.

Lemma concat_cells R C (g : grid Z) : shape R C g ->
  concat g = map (fun p => gat 0 g (fst p) (snd p)) (cells R C).
Proof.
  intro Sh. rewrite (grid_as_map R C g Sh) at 1. unfold cells. apply concat_map_flat.
  intro r. rewrite map_map. reflexivity.
Qed.

Lemma count_pos_filter g : count_pos g = zlen (filter pos (concat g)).
Proof.
  unfold count_pos. induction g as [|row g IH]; cbn [map zsum concat]; [reflexivity|].
  rewrite filter_app, zlen_app, IH. reflexivity.
Qed.

Lemma filter_map_len {A} (f : A -> Z) l : zlen (filter pos (map f l)) = zlen (filter (fun p => pos (f p)) l).
Proof.
  induction l as [|x l IH]; cbn [map filter]; [reflexivity|]. destruct (pos (f x)); rewrite ?zlen_cons, IH; reflexivity.
Qed.

Lemma NoDup_app' {A} (a b : list A) : NoDup a -> NoDup b -> (forall x, In x a -> ~ In x b) -> NoDup (a ++ b).
Proof.
  intros Ha Hb H. induction Ha as [|x a Hx Ha IH]; cbn [app]; auto. constructor.
  - rewrite in_app_iff. intros [I|I]; [auto|]. apply (H x); [left; reflexivity|auto].
  - apply IH. intros y Hy. apply H. right; auto.
Qed.

Lemma NoDup_zrange_from s n : NoDup (zrange_from s n).
Proof.
  revert s; induction n as [|n IH]; intro s; cbn [zrange_from]; constructor; auto.
  rewrite in_zrange_from. lia.
Qed.

Lemma NoDup_map_inj {A B} (f : A -> B) l :
  NoDup l -> (forall x y, In x l -> In y l -> f x = f y -> x = y) -> NoDup (map f l).
Proof.
  intros Hl H. induction Hl as [|x l Hx Hl IH]; cbn [map]; constructor.
  - rewrite in_map_iff. intros (y & E & Hy). assert (y = x) by (apply H; [right; auto|left; auto|auto]). subst. auto.
  - apply IH. intros a b Ha Hb. apply H; right; auto.
Qed.

Lemma NoDup_cells R C : NoDup (cells R C).
Proof.
  unfold cells. unfold zrange at 2. generalize (NoDup_zrange_from 0 (Z.to_nat R)). generalize (zrange_from 0 (Z.to_nat R)).
  intros l Hl. induction Hl as [|r l Hr Hl IH]; cbn [flat_map]; [constructor|].
  apply NoDup_app'; auto.
  - apply NoDup_map_inj; [apply NoDup_zrange_from|]. intros x y _ _ E. inversion E; auto.
  - intros p Hp Hq. apply in_map_iff in Hp as (c & <- & _). apply in_flat_map in Hq as (r' & Hr' & Hq).
    apply in_map_iff in Hq as (c' & E & _). inversion E; subst. auto.
Qed.

Lemma NoDup_filter' {A} (f : A -> bool) l : NoDup l -> NoDup (filter f l).
Proof.
  induction 1 as [|x l Hx Hl IH]; cbn [filter]; [constructor|]. destruct (f x); auto. constructor; auto.
  rewrite filter_In. tauto.
Qed.

Theorem count_pos_is_len R C s : Phys R C s -> count_pos (bstate s) = len s.
Proof.
  intro P. pose proof (ph_shape R C s P) as Sh. pose proof (ph_len R C s P) as Hl.
  rewrite count_pos_filter, (concat_cells R C) by auto. rewrite filter_map_len.
  change (fun p : cell => pos (gat 0 (bstate s) (fst p) (snd p))) with (fun p => pos (bs_at s p)).
  set (B := filter (fun p => pos (bs_at s p)) (cells R C)).
  assert (HB : forall p, In p B <-> in_grid R C p /\ 0 < bs_at s p).
  { intro p. unfold B. rewrite filter_In, in_cells. unfold pos. split; intros [H1 H2]; split; auto; lia. }
  assert (NB : NoDup B) by (apply NoDup_filter', NoDup_cells).
  assert (NV : NoDup (map (bs_at s) B)).
  { apply NoDup_map_inj; auto. intros x y Hx Hy E. apply HB in Hx as [Gx Px], Hy as [Gy Py].
    apply (ph_unique R C s P); auto. }
  set (Rg := zrange_from 1 (Z.to_nat (len s))).
  assert (I1 : incl (map (bs_at s) B) Rg).
  { intros v Hv. apply in_map_iff in Hv as (p & <- & Hp). apply HB in Hp as [Gp Pp].
    unfold Rg. apply in_zrange_from. pose proof (ph_range R C s P p Gp). lia. }
  assert (I2 : incl Rg (map (bs_at s) B)).
  { intros v Hv. unfold Rg in Hv. apply in_zrange_from in Hv.
    destruct (ph_exists R C s P v ltac:(lia)) as (p & Gp & Ev). apply in_map_iff. exists p. split; auto.
    apply HB. split; auto. lia. }
  pose proof (NoDup_incl_length NV I1) as L1.
  pose proof (NoDup_incl_length (NoDup_zrange_from 1 (Z.to_nat (len s))) I2) as L2.
  fold Rg in L2. unfold Rg in *. rewrite zrange_from_length in *. rewrite map_length in *.
  change (zlen B = len s). unfold zlen. lia.
Qed.

(* so, for an episode from reset whose final state is consistent, return = body cells - 1 *)
Theorem return_is_body_cells R C T hd fr acts :
  Phys R C (final R C T (fst (init R C hd fr)) acts) ->
  ret R C T (fst (init R C hd fr)) acts = count_pos (bstate (final R C T (fst (init R C hd fr)) acts)) - 1.
Proof. intro P. rewrite (count_pos_is_len R C _ P). apply return_from_reset. Qed.
