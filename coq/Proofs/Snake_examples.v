(* Snake: concrete non-trivial states meeting the hypotheses of the theorems (non-vacuity), by computation. *)
Require Import JV.Base.Prelude JV.Base.JaxIndex JV.Base.Codec JV.Base.TimeStep JV.Model.Snake JV.Proofs.Snake JV.Proofs.Snake_rules.

Lemma Inv_by_check R C T s :
  Phys_b R C s = true -> list_eqb Bool.eqb (amask s) (action_mask R C (head s) (bstate s)) = true ->
  (0 <=? steps s) && (steps s <? T) = true -> Inv R C T s.
Proof.
  intros H1 H2 H3. constructor.
  - apply Phys_b_sound; auto.
  - unfold MaskOk. apply (list_eqb_eq Bool.eqb); auto. intros x y. apply Bool.eqb_true_iff.
  - unfold Timed. lia.
Qed.

(* 3x3 board: start at (1,0), fruit at (1,1); eat it (new fruit (1,2)), eat again (new fruit (0,0)):
   the snake is (1,0),(1,1),(1,2) with its head against the right wall and its neck on the left. *)
Definition e0 : state := fst (init 3 3 (1, 0) (1, 1)).
Definition e1 : state := fst (step 3 3 9 e0 1 (1, 2)).
Definition e2 : state := fst (step 3 3 9 e1 1 (0, 0)).
Definition e3 : state := fst (step 3 3 9 e2 0 (2, 2)).   (* Up, no fruit: the tail (1,0) is vacated *)

Example ex_reset : in_grid 3 3 (1, 0) /\ valid_draw 3 3 (body (fst (init 3 3 (1, 0) (1, 1)))) (1, 1) = true
                   /\ valid_draw 3 3 (body e0) (1, 0) = false /\ valid_draw 3 3 (body e0) (3, 0) = false.
Proof. split; [unfold in_grid; cbn; lia|]. split; [reflexivity|]. split; reflexivity. Qed.

Example ex_inv : Inv 3 3 9 e0 /\ Inv 3 3 9 e1 /\ Inv 3 3 9 e2 /\ Inv 3 3 9 e3 /\ Inv 3 3 3 e2.
Proof. split; [|split; [|split; [|split]]]; apply Inv_by_check; vm_compute; reflexivity. Qed.

Example ex_states :
  bstate e2 = [[0; 0; 0]; [1; 2; 3]; [0; 0; 0]] /\ head e2 = (1, 2) /\ fruit e2 = (0, 0) /\ len e2 = 3 /\ steps e2 = 2
  /\ bstate e3 = [[0; 0; 3]; [0; 1; 2]; [0; 0; 0]] /\ len e3 = 3 /\ fruit e3 = (0, 0).
Proof. repeat split; reflexivity. Qed.

(* mask of e2: Up legal, Right = wall, Down legal, Left = the neck *)
Example ex_mask :
  amask e2 = [true; false; true; false] /\ legal 3 3 e2 0 /\ ~ legal 3 3 e2 1 /\ legal 3 3 e2 2 /\ ~ legal 3 3 e2 3
  /\ target e2 1 = (1, 3) /\ target e2 3 = (1, 1) /\ bs_at e2 (1, 1) = 2
  (* the tail cell is a legal target: length-2 snake e1 = (1,0),(1,1) may step back onto (1,0) *)
  /\ legal 3 3 e1 3 /\ bs_at e1 (target e1 3) = 1.
Proof.
  split; [reflexivity|]. split; [apply legal_b_spec; reflexivity|].
  split; [intro L; apply legal_b_spec in L; vm_compute in L; discriminate L|].
  split; [apply legal_b_spec; reflexivity|].
  split; [intro L; apply legal_b_spec in L; vm_compute in L; discriminate L|].
  split; [reflexivity|]. split; [reflexivity|]. split; [reflexivity|].
  split; [apply legal_b_spec; reflexivity|reflexivity].
Qed.

Example ex_illegal :
  jget false (amask e2) 1 = false /\ snd (step 3 3 9 e2 1 (0, 0)) = termination 1 [0]
  /\ jget false (amask e2) 3 = false /\ snd (step 3 3 9 e2 3 (0, 0)) = termination 1 [0].
Proof. repeat split; reflexivity. Qed.

Example ex_steps :
  eaten e0 1 = true /\ draw_ok 3 3 9 e0 1 (1, 2) /\ snd (step 3 3 9 e0 1 (1, 2)) = transition 1 [1]
  /\ eaten e2 0 = false /\ draw_ok 3 3 9 e2 0 (2, 2) /\ snd (step 3 3 9 e2 0 (2, 2)) = transition 1 [0]
  /\ st (snd (step 3 3 3 e2 0 (2, 2))) = LAST.
Proof.
  split; [reflexivity|]. split; [intros _; reflexivity|]. split; [reflexivity|]. split; [reflexivity|].
  split; [intro H; vm_compute in H; discriminate H|]. split; reflexivity.
Qed.

Definition ex_acts : list (Z * cell) := [(1, (1, 2)); (1, (0, 0)); (0, (2, 2)); (1, (2, 2)); (2, (2, 2))].
Example ex_episode :
  ret 3 3 9 e0 ex_acts = 2 /\ len (final 3 3 9 e0 ex_acts) = 3 /\ nsteps 3 3 9 e0 ex_acts = 4
  /\ ended 3 3 9 e0 ex_acts = true
  /\ nsteps 3 3 3 e0 ex_acts = 3 /\ ended 3 3 3 e0 ex_acts = true /\ steps (final 3 3 3 e0 ex_acts) = 3
  /\ ended 3 3 9 e0 [(1, (1, 2)); (1, (0, 0))] = false.
Proof. repeat split; reflexivity. Qed.

Example ex_chain :
  IsChain 3 3 e1 [(1, 0); (1, 1)] /\ IsChain 3 3 e2 [(1, 0); (1, 1); (1, 2)] /\ IsChain 3 3 e3 [(1, 1); (1, 2); (0, 2)].
Proof.
  assert (G : forall r c, 0 <= r < 3 -> 0 <= c < 3 -> in_grid 3 3 (r, c)) by (intros; unfold in_grid; cbn [fst snd]; lia).
  split; [|split]; (split; [reflexivity|]); intros i Hi; cbn [length] in Hi;
    destruct i as [|[|[|i]]]; try lia; (split; [apply G; lia|reflexivity]).
Qed.

Example ex_obs :
  o_body (observe e3) = [[false; false; true]; [false; true; true]; [false; false; false]]
  /\ o_head (observe e3) = [[false; false; true]; [false; false; false]; [false; false; false]]
  /\ o_tail (observe e3) = [[false; false; false]; [false; true; false]; [false; false; false]]
  /\ o_fruit (observe e3) = [[true; false; false]; [false; false; false]; [false; false; false]]
  /\ o_num (observe e3) = [[0; 0; 3]; [0; 1; 2]; [0; 0; 0]] /\ o_den (observe e3) = 3 /\ o_steps (observe e3) = 3
  /\ o_steps (observe (fst (step 3 3 3 e2 0 (2, 2)))) = 3.
Proof. repeat split; reflexivity. Qed.
