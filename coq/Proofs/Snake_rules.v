(* Snake, part 2: the growth rule stated on chains (C09), the observation planes (C12, C01),
   soundness and completeness of the boolean checkers run by the harness. *)
Require Import JV.Base.Prelude JV.Base.JaxIndex JV.Base.Codec JV.Base.TimeStep JV.Model.Snake JV.Proofs.Snake.

(* ---------- C09: the body as a list of cells, tail first ---------- *)
Definition IsChain (R C : Z) (s : state) (ch : list cell) : Prop :=
  Z.of_nat (length ch) = len s /\
  forall i, (i < length ch)%nat -> in_grid R C (nth i ch (0, 0)) /\ bs_at s (nth i ch (0, 0)) = Z.of_nat i + 1.

Lemma chain_prefix R C s : Phys R C s -> forall n : nat, Z.of_nat n <= len s ->
  exists ch : list cell, length ch = n /\
             forall i, (i < n)%nat -> in_grid R C (nth i ch (0, 0)) /\ bs_at s (nth i ch (0, 0)) = Z.of_nat i + 1.
Proof.
  intros P n. induction n as [|n IH]; intro Hn.
  - exists []. split; auto. intros; lia.
  - destruct (IH ltac:(lia)) as (ch & L & Hc).
    destruct (ph_exists R C s P (Z.of_nat n + 1) ltac:(lia)) as (p & Hp & Hv).
    exists (ch ++ [p]). split; [rewrite app_length; cbn; lia|].
    intros i Hi. destruct (Nat.eq_dec i n) as [->|Hne].
    + rewrite app_nth2 by lia. rewrite L, Nat.sub_diag. cbn [nth]. auto.
    + rewrite app_nth1 by lia. apply Hc. lia.
Qed.

Theorem chain_exists R C s : Phys R C s -> exists ch, IsChain R C s ch.
Proof.
  intro P. pose proof (ph_len R C s P) as Hl.
  destruct (chain_prefix R C s P (Z.to_nat (len s)) ltac:(lia)) as (ch & L & Hc).
  exists ch. unfold IsChain. split; [lia|]. intros i Hi. apply Hc. lia.
Qed.

(* the chain lists exactly the body cells *)
Theorem chain_covers R C s ch p :
  Phys R C s -> IsChain R C s ch -> in_grid R C p -> (0 < bs_at s p <-> In p ch).
Proof.
  intros P [L Hc] Hp. split.
  - intro Hpos. pose proof (ph_range R C s P p Hp) as Rg.
    set (i := Z.to_nat (bs_at s p - 1)).
    assert (Hi : (i < length ch)%nat) by lia.
    destruct (Hc i Hi) as [G V].
    assert (p = nth i ch (0, 0)) by (apply (ph_unique R C s P); auto; lia).
    rewrite H. apply nth_In. auto.
  - intro Hin. apply (In_nth _ _ (0, 0)) in Hin as (i & Hi & <-). destruct (Hc i Hi) as [_ V]. unfold cell in *. lia.
Qed.

Lemma chain_consecutive_adjacent R C s ch i :
  Phys R C s -> IsChain R C s ch -> (S i < length ch)%nat -> adjacent (nth i ch (0, 0)) (nth (S i) ch (0, 0)).
Proof.
  intros P [L Hc] Hi. destruct (Hc i ltac:(lia)) as [G1 V1]. destruct (Hc (S i) Hi) as [G2 V2].
  apply (ph_adj R C s P); auto; lia.
Qed.

Lemma chain_head_last R C s ch : Phys R C s -> IsChain R C s ch -> last ch (0, 0) = head s.
Proof.
  intros P [L Hc]. pose proof (ph_len R C s P). destruct (ph_head R C s P) as [G V].
  destruct ch as [|c0 ch'] using rev_ind; [cbn in L; lia|]. rewrite last_last.
  rewrite app_length in *. cbn [length] in *.
  destruct (Hc (length ch') ltac:(lia)) as [G2 V2]. rewrite app_nth2, Nat.sub_diag in * by lia. cbn [nth] in *.
  apply (ph_unique R C s P); auto; lia.
Qed.

(* Growth rule.  A legal move pushes the target cell on the head end of the chain; the tail cell is dropped
   unless the target is the fruit cell; the reward is 1 exactly when the fruit is eaten, and only then is the
   fruit replaced (by the draw). *)
Theorem growth_rule R C T s a d ch :
  Phys R C s -> legal R C s a -> IsChain R C s ch ->
  let s' := fst (step R C T s a d) in
  head s' = target s a /\
  (if eaten s a
   then IsChain R C s' (ch ++ [target s a]) /\ len s' = len s + 1 /\ fruit s' = d /\ reward (snd (step R C T s a d)) = [1]
   else IsChain R C s' (tl ch ++ [target s a]) /\ len s' = len s /\ fruit s' = fruit s
        /\ reward (snd (step R C T s a d)) = [0]).
Proof.
  intros P [Hin Hval] [L Hc]. cbv zeta.
  pose proof (step_fields R C T s a d) as F. cbv zeta in F. destruct F as (Fh & Fl & Fs & Ff & _).
  assert (Cell : forall p, in_grid R C p -> bs_at (fst (step R C T s a d)) p = next_cell s a p)
    by (intros; apply (step_cell R C T); auto; apply (ph_shape R C s P)).
  pose proof (step_reward R C T s a d) as Rw. rewrite Fl in Rw.
  split; [exact Fh|].
  set (hd := target s a) in *.
  assert (NC_hd : next_cell s a hd = len s + b2z (eaten s a)).
  { unfold next_cell. fold hd. replace (cell_eqb hd hd) with true by (symmetry; apply cell_eqb_eq; reflexivity). reflexivity. }
  assert (NC_other : forall p, p <> hd -> next_cell s a p = if eaten s a then bs_at s p else dec1 (bs_at s p)).
  { intros p Hp. unfold next_cell. fold hd. replace (cell_eqb hd p) with false; [reflexivity|].
    symmetry. apply cell_eqb_neq. congruence. }
  destruct (eaten s a) eqn:E; cbn [b2z] in *.
  - assert (H0 : bs_at s hd = 0).
    { unfold eaten in E. apply cell_eqb_eq in E. fold hd in E. rewrite E. apply (ph_fruit R C s P). }
    split; [|split; [lia|split; [exact Ff|rewrite Rw; f_equal; lia]]].
    split; [rewrite app_length; cbn [length]; lia|].
    intros i Hi. rewrite app_length in Hi. cbn [length] in Hi.
    destruct (Nat.eq_dec i (length ch)) as [->|Hne].
    + rewrite app_nth2, Nat.sub_diag by lia. cbn [nth]. split; auto. rewrite Cell by auto. rewrite NC_hd. lia.
    + rewrite app_nth1 by lia. destruct (Hc i ltac:(lia)) as [G V]. split; auto.
      rewrite Cell by auto. rewrite NC_other; auto. intros Heq. rewrite Heq in V. lia.
  - split; [|split; [lia|split; [exact Ff|rewrite Rw; f_equal; lia]]].
    pose proof (ph_len R C s P) as Hl.
    destruct ch as [|c0 ch']; [cbn in L; lia|]. cbn [tl length] in *.
    split; [rewrite app_length; cbn [length]; lia|].
    intros i Hi. rewrite app_length in Hi. cbn [length] in Hi.
    destruct (Nat.eq_dec i (length ch')) as [->|Hne].
    + rewrite app_nth2, Nat.sub_diag by lia. cbn [nth]. split; auto. rewrite Cell by auto. rewrite NC_hd. lia.
    + rewrite app_nth1 by lia. destruct (Hc (S i) ltac:(lia)) as [G V]. cbn [nth] in G, V. split; auto.
      rewrite Cell by auto. rewrite NC_other; [unfold dec1; lia|]. intros Heq. rewrite Heq in V. lia.
Qed.

(* ---------- membership in a grid ---------- *)
Lemma in_cells R C p : In p (cells R C) <-> in_grid R C p.
Proof.
  unfold cells, in_grid. rewrite in_flat_map. split.
  - intros (r & Hr & Hp). apply in_map_iff in Hp as (c & <- & Hc). apply in_zrange in Hr, Hc. cbn [fst snd]. lia.
  - intros [Hr Hc]. exists (fst p). split; [apply in_zrange; lia|]. apply in_map_iff. exists (snd p).
    split; [destruct p; reflexivity|apply in_zrange; lia].
Qed.

Lemma in_grid_concat R C (g : grid Z) x :
  shape R C g -> (In x (concat g) <-> exists p, in_grid R C p /\ gat 0 g (fst p) (snd p) = x).
Proof.
  intros Sh. pose proof Sh as [L F]. rewrite in_concat. split.
  - intros (row & Hrow & Hx). apply (In_nth _ _ []) in Hrow as (r & Hr & <-).
    assert (Hr' : 0 <= Z.of_nat r < R) by (unfold zlen in *; lia).
    pose proof (shape_row R C g (Z.of_nat r) Sh Hr') as LR. rewrite znth_nth, Nat2Z.id in LR by lia.
    apply (In_nth _ _ 0) in Hx as (c & Hc & <-).
    exists (Z.of_nat r, Z.of_nat c). cbn [fst snd]. split; [unfold in_grid; cbn [fst snd]; unfold zlen in *; lia|].
    unfold gat. rewrite !znth_nth by lia. rewrite !Nat2Z.id. reflexivity.
  - intros ([r c] & [Hr Hc] & <-). cbn [fst snd] in *. exists (znth [] g r). split.
    + rewrite znth_nth by lia. apply nth_In. unfold zlen in *; lia.
    + unfold gat. rewrite (znth_nth 0) by lia. apply nth_In.
      pose proof (shape_row R C g r Sh Hr). unfold zlen in *; lia.
Qed.

Lemma grid_Forall {A} (P : A -> Prop) d R C (g : grid A) :
  shape R C g -> (forall p, in_grid R C p -> P (gat d g (fst p) (snd p))) -> Forall (Forall P) g.
Proof.
  intros Sh H. pose proof Sh as [L F]. apply Forall_forall. intros row Hrow.
  apply (In_nth _ _ []) in Hrow as (r & Hr & <-).
  assert (Hr' : 0 <= Z.of_nat r < R) by (unfold zlen in *; lia).
  pose proof (shape_row R C g (Z.of_nat r) Sh Hr') as LR. rewrite znth_nth, Nat2Z.id in LR by lia.
  apply Forall_forall. intros x Hx. apply (In_nth _ _ d) in Hx as (c & Hc & <-).
  specialize (H (Z.of_nat r, Z.of_nat c)). cbn [fst snd] in H. unfold gat in H.
  rewrite !znth_nth, !Nat2Z.id in H by lia. apply H. unfold in_grid; cbn [fst snd]; unfold zlen in *; lia.
Qed.

(* ---------- max ---------- *)
Lemma fold_max_spec t : forall x,
  x <= fold_left Z.max t x /\ (forall y, In y t -> y <= fold_left Z.max t x)
  /\ (fold_left Z.max t x = x \/ In (fold_left Z.max t x) t).
Proof.
  induction t as [|z t IH]; intro x; cbn [fold_left].
  - split; [lia|]. split; [intros y []|auto].
  - destruct (IH (Z.max x z)) as (A & B & Cc). split; [lia|]. split.
    + intros y [->|Hy]; [lia|auto].
    + destruct Cc as [Cc|Cc]; [|right; right; auto]. rewrite Cc.
      destruct (Z.max_spec x z) as [[_ ->]|[_ ->]]; [right; left; reflexivity|left; reflexivity].
Qed.

Lemma lmax_ge l y : In y l -> y <= lmax l.
Proof.
  destruct l as [|x t]; [intros []|]. cbn [lmax]. destruct (fold_max_spec t x) as (A & B & _).
  intros [<-|Hy]; auto.
Qed.

Lemma lmax_in l : l <> [] -> In (lmax l) l.
Proof.
  destruct l as [|x t]; [congruence|]. intros _. cbn [lmax]. destruct (fold_max_spec t x) as (_ & _ & [E|E]).
  - rewrite E. left; reflexivity.
  - right; auto.
Qed.

Lemma gmax_is_len R C s : Phys R C s -> gmax (bstate s) = len s.
Proof.
  intro P. pose proof (ph_shape R C s P) as Sh. destruct (ph_head R C s P) as [G V].
  assert (Hin : In (len s) (concat (bstate s))).
  { apply (in_grid_concat R C); auto. exists (head s). split; auto. }
  unfold gmax. apply Z.le_antisymm.
  - assert (Hne : concat (bstate s) <> []) by (intro E; rewrite E in Hin; destruct Hin).
    pose proof (lmax_in _ Hne) as Hm. apply (in_grid_concat R C) in Hm as (p & Hp & Hv); auto.
    rewrite <- Hv. apply (ph_range R C s P p Hp).
  - apply lmax_ge. auto.
Qed.

(* ---------- C12: what the observation shows ---------- *)
Theorem observe_planes R C s p :
  Phys R C s -> in_grid R C p ->
  let o := observe s in
  gat false (o_body o) (fst p) (snd p) = pos (bs_at s p) /\
  gat false (o_head o) (fst p) (snd p) = cell_eqb (head s) p /\
  gat false (o_tail o) (fst p) (snd p) = is1 (bs_at s p) /\
  gat false (o_fruit o) (fst p) (snd p) = cell_eqb (fruit s) p /\
  gat 0 (o_num o) (fst p) (snd p) = bs_at s p /\ o_den o = len s /\
  o_steps o = steps s /\ o_mask o = amask s.
Proof.
  intros P [Pr Pc]. cbv zeta. unfold observe. cbn [o_body o_head o_tail o_fruit o_num o_den o_steps o_mask].
  pose proof (ph_shape R C s P) as Sh. destruct (ph_head R C s P) as [[Hr Hc] _]. destruct (ph_fruit R C s P) as [[Fr Fc] _].
  assert (Shz : shape R C (gmap (fun _ : bool => false) (body s))).
  { rewrite (ph_body R C s P). auto using shape_gmap. }
  assert (Z0 : gat false (gmap (fun _ : bool => false) (body s)) (fst p) (snd p) = false).
  { rewrite (ph_body R C s P). rewrite (gat_gmap (fun _ : bool => false) false false R C) by auto using shape_gmap.
    reflexivity. }
  split; [rewrite (ph_body R C s P); apply (gat_gmap pos 0 false R C); auto|].
  split; [rewrite (gat_gset false R C) by auto; unfold cell_eqb; destruct (_ && _); auto|].
  split; [rewrite (ph_tail R C s P); apply (gat_gmap is1 0 false R C); auto|].
  split; [rewrite (gat_gset false R C) by auto; unfold cell_eqb; destruct (_ && _); auto|].
  split; [reflexivity|].
  split; [rewrite (gmax_is_len R C s P); pose proof (ph_len R C s P); lia|].
  split; reflexivity.
Qed.

(* ---------- C01: the fifth plane lies in [0,1] on EVERY emitted observation (terminal ones included) ---------- *)
Definition NonNeg (g : grid Z) : Prop := Forall (Forall (fun x => 0 <= x)) g.

Lemma Phys_NonNeg R C s : Phys R C s -> NonNeg (bstate s).
Proof.
  intro P. apply (grid_Forall (fun x => 0 <= x) 0 R C); [apply (ph_shape R C s P)|].
  intros p Hp. apply (ph_range R C s P p Hp).
Qed.

Lemma NonNeg_gset g r c v : NonNeg g -> 0 <= v -> NonNeg (gset g r c v).
Proof.
  intros H Hv. unfold gset. cbv zeta.
  destruct (_ && _); auto. destruct (_ && _); auto.
  unfold NonNeg. apply Forall_zupd; auto. apply Forall_zupd; auto.
  unfold znth. destruct (_ <? 0); [constructor|].
  set (k := Z.to_nat (jnorm (zlen g) r)). destruct (Nat.lt_ge_cases k (length g)) as [Hk|Hk].
  - unfold NonNeg in H. rewrite Forall_forall in H. apply H. apply nth_In. auto.
  - rewrite nth_overflow by lia. constructor.
Qed.

Lemma NonNeg_dec1 g : NonNeg (gmap dec1 g).
Proof.
  unfold NonNeg, gmap. apply Forall_map'. apply Forall_forall. intros row _. apply Forall_map'.
  apply Forall_forall. intros x _. unfold dec1. lia.
Qed.

Lemma step_NonNeg R C T s a d : NonNeg (bstate s) -> 0 <= len s -> NonNeg (bstate (fst (step R C T s a d))).
Proof.
  intros H Hl. unfold step. cbn [fst bstate]. apply NonNeg_gset.
  - destruct (cell_eqb _ _); auto using NonNeg_dec1.
  - destruct (cell_eqb _ _); cbn [b2z]; lia.
Qed.

Theorem obs_norm_bounded s :
  NonNeg (bstate s) ->
  let o := observe s in 1 <= o_den o /\ Forall (Forall (fun x => 0 <= x <= o_den o)) (o_num o).
Proof.
  intro H. cbv zeta. unfold observe. cbn [o_den o_num]. split; [lia|].
  apply Forall_forall. intros row Hrow. apply Forall_forall. intros x Hx.
  unfold NonNeg in H. rewrite Forall_forall in H. specialize (H row Hrow). rewrite Forall_forall in H.
  split; [auto|]. assert (x <= gmax (bstate s)); [|lia].
  unfold gmax. apply lmax_ge. apply in_concat. exists row. auto.
Qed.

Theorem emitted_obs_in_spec R C T s a d :
  Inv R C T s ->
  let o := observe (fst (step R C T s a d)) in
  0 <= o_steps o <= T /\ 1 <= o_den o /\ Forall (Forall (fun x => 0 <= x <= o_den o)) (o_num o).
Proof.
  intros [P M Tm]. cbv zeta. split; [apply obs_step_count_bounded; auto|].
  apply obs_norm_bounded. apply step_NonNeg; [apply (Phys_NonNeg R C); auto|].
  pose proof (ph_len R C s P). lia.
Qed.

(* ---------- the boolean checkers decide the declarative predicates ---------- *)
Lemma shape_b_spec {A} R C (g : grid A) : shape_b R C g = true <-> shape R C g.
Proof.
  unfold shape_b, shape. rewrite andb_true_iff, forallb_forall, Forall_forall. split.
  - intros [H1 H2]. split; [lia|]. intros x Hx. specialize (H2 x Hx). lia.
  - intros [H1 H2]. split; [lia|]. intros x Hx. specialize (H2 x Hx). lia.
Qed.

Lemma grid_eqb_spec (a b : grid bool) : grid_eqb Bool.eqb a b = true <-> a = b.
Proof.
  unfold grid_eqb. apply list_eqb_eq. intros x y. apply list_eqb_eq. intros u v. apply Bool.eqb_true_iff.
Qed.

Lemma adjacent_b_spec p q : adjacent_b p q = true <-> adjacent p q.
Proof. unfold adjacent_b, adjacent. lia. Qed.

Theorem Phys_b_sound R C s : Phys_b R C s = true -> Phys R C s.
Proof.
  unfold Phys_b. cbv zeta. intro H.
  do 10 (apply andb_true_iff in H; let H1 := fresh "K" in destruct H as [H H1]).
  rename H into Ksh.
  (* K9 shape, K8 len, K7 range, K6 exists, K5 pairs, K4 head in, K3 head val, K2 fruit in, K1 fruit val, K0 body, K tail *)
  apply shape_b_spec in Ksh. rewrite forallb_forall in K7, K6, K5.
  apply in_grid_b_spec in K4, K2. apply grid_eqb_spec in K0, K.
  constructor; auto; try lia.
  - intros p Hp. apply in_cells in Hp. specialize (K7 p Hp). lia.
  - intros k Hk. specialize (K6 k). rewrite in_map_iff in K6.
    specialize (K6 ltac:(exists (k - 1); split; [lia|apply in_zrange; lia])).
    apply existsb_exists in K6 as (p & Hp & Hv). exists p. split; [apply in_cells; auto|lia].
  - intros p q Hp Hq Hpos Heq. apply in_cells in Hp, Hq. specialize (K5 p Hp). rewrite forallb_forall in K5.
    specialize (K5 q Hq). apply andb_true_iff in K5 as [K5 _].
    replace ((0 <? bs_at s p) && (bs_at s p =? bs_at s q)) with true in K5 by lia. apply cell_eqb_eq. auto.
  - intros p q Hp Hq Hpos Heq. apply in_cells in Hp, Hq. specialize (K5 p Hp). rewrite forallb_forall in K5.
    specialize (K5 q Hq). apply andb_true_iff in K5 as [_ K5].
    replace ((1 <=? bs_at s p) && (bs_at s q =? bs_at s p + 1)) with true in K5 by lia. apply adjacent_b_spec. auto.
  - split; auto. lia.
  - split; auto. lia.
Qed.

Ltac split_and n := match n with O => idtac | S ?m => apply andb_true_iff; split; [split_and m|] end.

Theorem Phys_b_complete R C s : Phys R C s -> Phys_b R C s = true.
Proof.
  intros [Sh Hlen Rg Ex Un Adj [Hh1 Hh2] [Hf1 Hf2] Hb Ht]. unfold Phys_b. cbv zeta.
  split_and 10%nat.
  - apply shape_b_spec; auto.
  - lia.
  - apply forallb_forall. intros p Hp. apply in_cells in Hp. specialize (Rg p Hp). lia.
  - apply forallb_forall. intros k Hk. apply in_map_iff in Hk as (j & <- & Hj). apply in_zrange in Hj.
    destruct (Ex (1 + j) ltac:(lia)) as (p & Hp & Hv). apply existsb_exists. exists p.
    split; [apply in_cells; auto|lia].
  - apply forallb_forall. intros p Hp. apply forallb_forall. intros q Hq. apply in_cells in Hp, Hq.
    apply andb_true_iff. split.
    + destruct ((0 <? bs_at s p) && (bs_at s p =? bs_at s q)) eqn:E; auto. apply cell_eqb_eq. apply Un; auto; lia.
    + destruct ((1 <=? bs_at s p) && (bs_at s q =? bs_at s p + 1)) eqn:E; auto. apply adjacent_b_spec. apply Adj; auto; lia.
  - apply in_grid_b_spec; auto.
  - lia.
  - apply in_grid_b_spec; auto.
  - lia.
  - apply grid_eqb_spec; auto.
  - apply grid_eqb_spec; auto.
Qed.

Theorem mask_ok_b_spec R C s :
  Phys R C s -> MaskOk R C s -> mask_ok_b R C s = true.
Proof.
  intros P M. unfold mask_ok_b. apply list_eqb_eq; [intros x y; apply Bool.eqb_true_iff|].
  rewrite M. unfold action_mask. change (zrange 4) with [0; 1; 2; 3]. unfold moves. cbn [map].
  assert (E : forall a m, move_of a = m ->
              is_valid_move R C (head s) (bstate s) m = legal_b R C s a).
  { intros a m <-. apply eq_true_iff_eq. rewrite legal_b_spec.
    rewrite is_valid_move_spec; [unfold legal, target; tauto|apply (ph_shape R C s P)|apply (Phys_nonneg R C s P)]. }
  rewrite (E 0 (-1, 0)), (E 1 (0, 1)), (E 2 (1, 0)), (E 3 (0, -1)) by reflexivity. reflexivity.
Qed.

(* and conversely: when the checker accepts a state, its mask entries are exactly the legal moves *)
Theorem mask_ok_b_sound R C s a :
  mask_ok_b R C s = true -> 0 <= a < 4 -> (jget false (amask s) a = true <-> legal R C s a).
Proof.
  unfold mask_ok_b. intros H Ha. apply list_eqb_eq in H; [|intros x y; apply Bool.eqb_true_iff].
  rewrite H. change (zrange 4) with [0; 1; 2; 3]. rewrite <- legal_b_spec.
  assert (Hc : a = 0 \/ a = 1 \/ a = 2 \/ a = 3) by lia.
  destruct Hc as [-> | [-> | [-> | ->]]]; cbn [map]; unfold jget, jclamp, jnorm, zlen, znth; cbn; tauto.
Qed.

(* ---------- non-vacuity: a 3x3 episode that eats a fruit, then runs off the board ---------- *)
Example nonvacuous :
  let s0 := fst (init 3 3 (1, 1) (1, 2)) in
  let s1 := fst (step 3 3 9 s0 1 (0, 0)) in          (* Right: eats the fruit at (1,2); new fruit drawn at (0,0) *)
  let s2 := fst (step 3 3 9 s1 0 (0, 0)) in          (* Up *)
  Inv 3 3 9 s0 /\ legal 3 3 s0 1 /\ eaten s0 1 = true /\ draw_ok 3 3 9 s0 1 (0, 0)
  /\ snd (step 3 3 9 s0 1 (0, 0)) = transition 1 [1] /\ len s1 = 2 /\ Phys_b 3 3 s1 = true
  /\ amask s1 = [true; false; true; true] /\ ~ legal 3 3 s1 1
  /\ snd (step 3 3 9 s1 1 (0, 0)) = termination 1 [0]
  /\ bstate s2 = [[0; 0; 2]; [0; 0; 1]; [0; 0; 0]] /\ st (snd (step 3 3 9 s1 0 (0, 0))) = MID
  /\ o_den (observe s2) = 2 /\ steps s2 = 2.
Proof.
  cbv zeta.
  assert (I0 : Inv 3 3 9 (fst (init 3 3 (1, 1) (1, 2)))).
  { apply init_Inv; [lia|unfold in_grid; cbn; lia|reflexivity]. }
  split; [exact I0|].
  split; [apply legal_b_spec; reflexivity|].
  split; [reflexivity|]. split; [intros _; reflexivity|]. split; [reflexivity|]. split; [reflexivity|].
  split; [vm_compute; reflexivity|]. split; [reflexivity|].
  split; [intro L; apply legal_b_spec in L; vm_compute in L; discriminate L|].
  split; [reflexivity|]. split; [reflexivity|]. split; [reflexivity|]. split; reflexivity.
Qed.
