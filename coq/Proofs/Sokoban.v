(* Sokoban, part 2: the Impl step equals the declarative push rules on every physically consistent state and every
   in-spec action (C09); illegal moves are ignored (C05); Physical is invariant under ANY in-spec action and the
   number of boxes is conserved (C07); rewards telescope (C08); LAST exactly when solved or at the limit (C11);
   the observation is the pair of grids (C12); value ranges (C01); protocol (C03).                               *)
Require Import JV.Base.Prelude JV.Base.JaxIndex JV.Base.Codec JV.Base.TimeStep JV.Model.Sokoban JV.Proofs.Sokoban_Grid.

Lemma in_spec_cases a : 0 <= a < 4 -> a = 0 \/ a = 1 \/ a = 2 \/ a = 3.
Proof. lia. Qed.

Lemma move_of_spec a : 0 <= a < 4 -> move_of a = (dr a, dc a).
Proof. intro H. destruct (in_spec_cases a H) as [E|[E|[E|E]]]; subst a; reflexivity. Qed.

Lemma dr_dc_unit a : 0 <= a < 4 ->
  (dr a = -1 /\ dc a = 0) \/ (dr a = 0 /\ dc a = 1) \/ (dr a = 1 /\ dc a = 0) \/ (dr a = 0 /\ dc a = -1).
Proof. intro H. destruct (in_spec_cases a H) as [E|[E|[E|E]]]; subst a; cbn; lia. Qed.

Lemma in_grid_inb G r c : in_grid G r c = inb G r && inb G c.
Proof. unfold in_grid, inb. destruct (0 <=? r), (r <? G), (0 <=? c), (c <? G); reflexivity. Qed.

Lemma inb_spec G i : inb G i = true <-> 0 <= i < G.
Proof. unfold inb. lia. Qed.

Lemma check_space_gat G gr r c v : wf_grid G gr -> 0 <= r < G -> 0 <= c < G ->
  check_space gr r c v = (gat 0 gr r c =? v).
Proof. intros. unfold check_space. rewrite (gget_gat G) by auto. reflexivity. Qed.

Lemma floor_b_spec G fx r c : floor_b G fx r c = true <-> floor G fx r c.
Proof. unfold floor_b, floor, inb. lia. Qed.

Lemma legal_b_spec G s a : legal_b G s a = true <-> legal G s a.
Proof.
  unfold legal_b, legal. cbv zeta.
  rewrite andb_true_iff, orb_true_iff, andb_true_iff, !negb_true_iff, !floor_b_spec, !Z.eqb_neq. tauto.
Qed.

(* ---------- the noop detection is the legality test ---------- *)
Lemma detect_noop_spec G s a : Physical G s -> 0 <= a < 4 ->
  detect_noop G (var s) (fixed s) a (ar s) (ac s) = if legal_b G s a then a else NOOP.
Proof.
  intros (Wf & Wv & Hr & Hc & Cells & SC) Ha.
  unfold detect_noop, box_push_action, legal_b, floor_b. rewrite move_of_spec by auto.
  set (r1 := ar s + dr a). set (c1 := ac s + dc a). set (r2 := r1 + dr a). set (c2 := c1 + dc a).
  rewrite !in_grid_inb.
  destruct (inb G r1 && inb G c1) eqn:I1; cbn [negb andb orb].
  2: { rewrite orb_true_r. reflexivity. }
  assert (R1 : 0 <= r1 < G /\ 0 <= c1 < G) by (unfold inb in I1; lia). destruct R1 as [R1 C1].
  rewrite (check_space_gat G (fixed s)) by auto. rewrite (check_space_gat G (var s) r1 c1) by auto.
  rewrite orb_false_r.
  destruct (gat 0 (fixed s) r1 c1 =? WALL) eqn:W1; cbn [negb andb orb]; [reflexivity|].
  destruct (gat 0 (var s) r1 c1 =? BOX) eqn:B1; cbn [negb andb orb]; [|reflexivity].
  destruct (inb G r2 && inb G c2) eqn:I2; cbn [negb andb orb].
  2: { rewrite orb_true_r. reflexivity. }
  assert (R2 : 0 <= r2 < G /\ 0 <= c2 < G) by (unfold inb in I2; lia). destruct R2 as [R2 C2].
  rewrite (check_space_gat G (fixed s)) by auto. rewrite (check_space_gat G (var s) r2 c2) by auto.
  rewrite orb_false_r.
  destruct (gat 0 (var s) r2 c2 =? BOX) eqn:B2; destruct (gat 0 (fixed s) r2 c2 =? WALL) eqn:W2; reflexivity.
Qed.

Definition moved_grid (s : state) (a : Z) : list (list Z) :=
  let r1 := ar s + dr a in let c1 := ac s + dc a in
  let g1 := gput (gput (var s) (ar s) (ac s) EMPTY) r1 c1 AGENT in
  if gat 0 (var s) r1 c1 =? BOX then gput g1 (r1 + dr a) (c1 + dc a) BOX else g1.

Lemma legal_ranges G s a : legal_b G s a = true ->
  0 <= ar s + dr a < G /\ 0 <= ac s + dc a < G /\ gat 0 (fixed s) (ar s + dr a) (ac s + dc a) <> WALL
  /\ (gat 0 (var s) (ar s + dr a) (ac s + dc a) = BOX ->
      0 <= ar s + dr a + dr a < G /\ 0 <= ac s + dc a + dc a < G
      /\ gat 0 (fixed s) (ar s + dr a + dr a) (ac s + dc a + dc a) <> WALL
      /\ gat 0 (var s) (ar s + dr a + dr a) (ac s + dc a + dc a) <> BOX).
Proof.
  intro L. apply legal_b_spec in L. unfold legal, floor in L. cbv zeta in L. intuition.
Qed.

Lemma wf_moved G s a : Physical G s -> legal_b G s a = true -> wf_grid G (moved_grid s a).
Proof.
  intros (Wf & Wv & Hr & Hc & Cells & SC) L. destruct (legal_ranges G s a L) as (R1 & C1 & W1 & Bx).
  unfold moved_grid. cbv zeta.
  assert (W : wf_grid G (gput (gput (var s) (ar s) (ac s) EMPTY) (ar s + dr a) (ac s + dc a) AGENT)) by (repeat apply wf_gput; auto).
  destruct (gat 0 (var s) (ar s + dr a) (ac s + dc a) =? BOX) eqn:B1; auto.
  apply wf_gput; auto. assert (E : gat 0 (var s) (ar s + dr a) (ac s + dc a) = BOX) by lia. apply Bx in E. tauto.
Qed.

Lemma move_agent_spec G s a : Physical G s -> 0 <= a < 4 -> legal_b G s a = true ->
  move_agent (var s) a (ar s) (ac s) = (moved_grid s a, (ar s + dr a, ac s + dc a)).
Proof.
  intros P Ha L. pose proof P as (Wf & Wv & Hr & Hc & Cells & SC).
  destruct (legal_ranges G s a L) as (R1 & C1 & W1 & Bx).
  unfold move_agent, moved_grid. rewrite move_of_spec by auto. cbv zeta.
  rewrite (check_space_gat G (var s)) by auto.
  assert (Wg1 : wf_grid G (gput (var s) (ar s) (ac s) EMPTY)) by (apply wf_gput; auto).
  rewrite (gset_gput G (var s)) by auto.
  rewrite (gset_gput G (gput (var s) (ar s) (ac s) EMPTY)) by auto.
  destruct (gat 0 (var s) (ar s + dr a) (ac s + dc a) =? BOX) eqn:B1; [|reflexivity].
  assert (E : gat 0 (var s) (ar s + dr a) (ac s + dc a) = BOX) by lia. apply Bx in E. destruct E as (R2 & C2 & _).
  rewrite (gset_gput G) by (auto; apply wf_gput; auto). reflexivity.
Qed.

(* ---------- C09: Impl step = rules ---------- *)
Theorem step_eq_rule G T dense s a :
  Physical G s -> 0 <= a < 4 -> step G T dense s a = rule_step G T dense s a.
Proof.
  intros P Ha. pose proof P as (Wf & Wv & Hr & Hc & Cells & SC).
  unfold step, rule_step. rewrite (detect_noop_spec G) by auto. cbv zeta.
  destruct (legal_b G s a) eqn:L.
  - replace (a =? NOOP) with false by (unfold NOOP; lia).
    rewrite (move_agent_spec G) by auto. fold (moved_grid s a). cbn [var fixed].
    rewrite !(count_targets_on_target G) by (auto using wf_moved).
    unfold cond_done, reward10. destruct dense; destruct (_ || _); reflexivity.
  - change (NOOP =? NOOP) with true. cbn [var fixed].
    rewrite !(count_targets_on_target G) by auto.
    unfold cond_done, reward10. destruct dense; destruct (_ || _); reflexivity.
Qed.

(* ---------- the grid after a legal move, cell by cell ---------- *)
Lemma moved_grid_at G s a r c : Physical G s -> 0 <= a < 4 -> legal_b G s a = true -> 0 <= r < G -> 0 <= c < G ->
  gat 0 (moved_grid s a) r c =
  if (gat 0 (var s) (ar s + dr a) (ac s + dc a) =? BOX) && ((r =? ar s + dr a + dr a) && (c =? ac s + dc a + dc a)) then BOX
  else if (r =? ar s + dr a) && (c =? ac s + dc a) then AGENT
  else if (r =? ar s) && (c =? ac s) then EMPTY
  else gat 0 (var s) r c.
Proof.
  intros P Ha L Hr' Hc'. pose proof P as (Wf & Wv & Hr & Hc & Cells & SC).
  destruct (legal_ranges G s a L) as (R1 & C1 & W1 & Bx).
  assert (Wg1 : wf_grid G (gput (var s) (ar s) (ac s) EMPTY)) by (apply wf_gput; auto).
  unfold moved_grid. cbv zeta.
  destruct (gat 0 (var s) (ar s + dr a) (ac s + dc a) =? BOX) eqn:B1; cbn [andb].
  - assert (E : gat 0 (var s) (ar s + dr a) (ac s + dc a) = BOX) by lia. apply Bx in E. destruct E as (R2 & C2 & _).
    rewrite (gat_gput G) by (auto; apply wf_gput; auto).
    rewrite (gat_gput G) by auto. rewrite (gat_gput G) by auto. reflexivity.
  - rewrite (gat_gput G) by auto. rewrite (gat_gput G) by auto. reflexivity.
Qed.

Lemma pt_eq r c r0 c0 : (r =? r0) && (c =? c0) = true -> r = r0 /\ c = c0.
Proof. lia. Qed.
Lemma pt_neq r c r0 c0 : (r =? r0) && (c =? c0) = false -> ~ (r = r0 /\ c = c0).
Proof. lia. Qed.

Ltac consts := unfold EMPTY, WALL, TARGET, AGENT, BOX, N_BOXES in *.

(* ---------- C07: Physical is invariant under ANY in-spec action ---------- *)
Theorem step_Physical G T dense s a :
  Physical G s -> 0 <= a < 4 -> Physical G (fst (step G T dense s a)).
Proof.
  intros P Ha. rewrite step_eq_rule by auto. pose proof P as (Wf & Wv & Hr & Hc & Cells & SC).
  unfold rule_step. cbv zeta. destruct (legal_b G s a) eqn:L; cbn [fst].
  2: { split; [exact Wf|]. split; [exact Wv|]. split; [exact Hr|]. split; [exact Hc|]. split; [exact Cells|cbn [sc]; lia]. }
  fold (moved_grid s a).
  destruct (legal_ranges G s a L) as (R1 & C1 & W1 & Bx).
  unfold Physical. cbn [fixed var ar ac sc].
  split; [exact Wf|]. split; [eapply wf_moved; eauto|]. split; [exact R1|]. split; [exact C1|]. split; [|lia].
  intros r c Hr' Hc'. rewrite (moved_grid_at G) by auto.
  destruct (Cells r c Hr' Hc') as (F & V & A & NW). split; [exact F|].
  destruct (Cells (ar s) (ac s) Hr Hc) as (_ & _ & Acur & _).
  assert (Cur : gat 0 (var s) (ar s) (ac s) = AGENT) by (apply Acur; auto).
  pose proof (dr_dc_unit a Ha) as U.
  clear P Cells Wf Wv L SC Hr Hc Hr' Hc' R1 C1 Acur Ha F.
  destruct (gat 0 (var s) (ar s + dr a) (ac s + dc a) =? BOX) eqn:B1; cbn [andb].
  - assert (E : gat 0 (var s) (ar s + dr a) (ac s + dc a) = BOX) by (apply Z.eqb_eq; exact B1).
    apply Bx in E. destruct E as (_ & _ & W2 & B2). clear Bx B1.
    destruct ((r =? ar s + dr a + dr a) && (c =? ac s + dc a + dc a)) eqn:E2.
    + apply pt_eq in E2. destruct E2 as [-> ->]. clear V NW B2 Cur W1.
      destruct U as [[Ua Ub]|[[Ua Ub]|[[Ua Ub]|[Ua Ub]]]]; rewrite Ua, Ub in *; consts; repeat split; try lia.
    + destruct ((r =? ar s + dr a) && (c =? ac s + dc a)) eqn:E1.
      * apply pt_eq in E1. destruct E1 as [-> ->]. clear V NW B2 Cur W2 E2.
        destruct U as [[Ua Ub]|[[Ua Ub]|[[Ua Ub]|[Ua Ub]]]]; rewrite Ua, Ub in *; consts; repeat split; try lia.
      * destruct ((r =? ar s) && (c =? ac s)) eqn:E0.
        -- apply pt_eq in E0. destruct E0 as [-> ->]. clear V NW B2 W2 W1 E2.
           destruct U as [[Ua Ub]|[[Ua Ub]|[[Ua Ub]|[Ua Ub]]]]; rewrite Ua, Ub in *; consts; repeat split; try lia.
        -- apply pt_neq in E0. apply pt_neq in E1. clear E2 B2 W2 W1 U Cur. consts. repeat split; try tauto; try lia.
  - clear Bx B1.
    destruct ((r =? ar s + dr a) && (c =? ac s + dc a)) eqn:E1.
    + apply pt_eq in E1. destruct E1 as [-> ->]. clear V NW Cur.
      destruct U as [[Ua Ub]|[[Ua Ub]|[[Ua Ub]|[Ua Ub]]]]; rewrite Ua, Ub in *; consts; repeat split; try lia.
    + destruct ((r =? ar s) && (c =? ac s)) eqn:E0.
      * apply pt_eq in E0. destruct E0 as [-> ->]. clear V NW W1.
        destruct U as [[Ua Ub]|[[Ua Ub]|[[Ua Ub]|[Ua Ub]]]]; rewrite Ua, Ub in *; consts; repeat split; try lia.
      * apply pt_neq in E0. apply pt_neq in E1. clear W1 U Cur. consts. repeat split; try tauto; try lia.
Qed.

Theorem run_Physical G T dense acts : forall s,
  Physical G s -> Forall (fun a => 0 <= a < 4) acts -> Physical G (run G T dense s acts).
Proof.
  induction acts as [|a r IH]; intros s P F; cbn [run]; auto.
  inversion F; subst. apply IH; auto. apply step_Physical; auto.
Qed.

(* exactly one agent *)
Theorem Physical_one_agent G s : Physical G s -> gcount G (var s) AGENT = 1 /\ gat 0 (var s) (ar s) (ac s) = AGENT.
Proof.
  intros (Wf & Wv & Hr & Hc & Cells & SC). split.
  - unfold gcount. rewrite (gsum_ext G _ (fun r c => if (r =? ar s) && (c =? ac s) then 1 else 0)).
    + apply gsum_point; auto.
    + intros r c Hr' Hc'. destruct (Cells r c Hr' Hc') as (_ & _ & A & _). unfold b2z. ifs; lia.
  - destruct (Cells (ar s) (ac s) Hr Hc) as (_ & _ & A & _). apply A. auto.
Qed.

(* ---------- conserved quantities: any per-cell sum after a legal move ---------- *)
Lemma moved_gsum G s a (F : Z -> Z -> Z -> Z) : Physical G s -> 0 <= a < 4 -> legal_b G s a = true ->
  let r1 := ar s + dr a in let c1 := ac s + dc a in
  let r2 := r1 + dr a in let c2 := c1 + dc a in
  gsum G (fun r c => F (gat 0 (moved_grid s a) r c) r c)
  = gsum G (fun r c => F (gat 0 (var s) r c) r c)
    - F AGENT (ar s) (ac s) + F EMPTY (ar s) (ac s)
    - F (gat 0 (var s) r1 c1) r1 c1 + F AGENT r1 c1
    + (if gat 0 (var s) r1 c1 =? BOX then F BOX r2 c2 - F (gat 0 (var s) r2 c2) r2 c2 else 0).
Proof.
  intros P Ha L. pose proof P as (Wf & Wv & Hr & Hc & Cells & SC). cbv zeta.
  destruct (legal_ranges G s a L) as (R1 & C1 & W1 & Bx).
  destruct (Physical_one_agent G s P) as [_ Cur].
  pose proof (dr_dc_unit a Ha) as U.
  assert (Wg1 : wf_grid G (gput (var s) (ar s) (ac s) EMPTY)) by (apply wf_gput; auto).
  assert (Wg2 : wf_grid G (gput (gput (var s) (ar s) (ac s) EMPTY) (ar s + dr a) (ac s + dc a) AGENT)) by (apply wf_gput; auto).
  unfold moved_grid. cbv zeta.
  destruct (gat 0 (var s) (ar s + dr a) (ac s + dc a) =? BOX) eqn:B1.
  - assert (E : gat 0 (var s) (ar s + dr a) (ac s + dc a) = BOX) by (apply Z.eqb_eq; exact B1).
    destruct (Bx E) as (R2 & C2 & W2 & B2).
    rewrite (gsum_gput G _ _ _ _ F) by auto. rewrite (gsum_gput G _ _ _ _ F) by auto. rewrite (gsum_gput G _ _ _ _ F) by auto.
    rewrite !(gat_gput G) by auto.
    replace ((ar s + dr a + dr a =? ar s + dr a) && (ac s + dc a + dc a =? ac s + dc a)) with false by (clear - U; lia).
    replace ((ar s + dr a + dr a =? ar s) && (ac s + dc a + dc a =? ac s)) with false by (clear - U; lia).
    replace ((ar s + dr a =? ar s) && (ac s + dc a =? ac s)) with false by (clear - U; lia).
    rewrite Cur. lia.
  - rewrite (gsum_gput G _ _ _ _ F) by auto. rewrite (gsum_gput G _ _ _ _ F) by auto.
    rewrite !(gat_gput G) by auto.
    replace ((ar s + dr a =? ar s) && (ac s + dc a =? ac s)) with false by (clear - U; lia).
    rewrite Cur. lia.
Qed.

(* C07: the number of boxes is conserved by every in-spec action *)
Theorem step_boxes G T dense s a : Physical G s -> 0 <= a < 4 ->
  gcount G (var (fst (step G T dense s a))) BOX = gcount G (var s) BOX.
Proof.
  intros P Ha. rewrite step_eq_rule by auto. unfold rule_step. cbv zeta.
  destruct (legal_b G s a) eqn:L; cbn [fst var]; [|reflexivity].
  fold (moved_grid s a). unfold gcount.
  rewrite (moved_gsum G s a (fun y _ _ => b2z (y =? BOX))) by auto. cbv zeta.
  destruct (legal_ranges G s a L) as (_ & _ & _ & Bx).
  destruct (gat 0 (var s) (ar s + dr a) (ac s + dc a) =? BOX) eqn:B1.
  - assert (E : gat 0 (var s) (ar s + dr a) (ac s + dc a) = BOX) by (apply Z.eqb_eq; exact B1).
    destruct (Bx E) as (_ & _ & _ & B2). clear - B2 B1. consts. unfold b2z. ifs; lia.
  - clear - B1. consts. unfold b2z. ifs; lia.
Qed.

Theorem run_boxes G T dense acts : forall s,
  Physical G s -> Forall (fun a => 0 <= a < 4) acts -> gcount G (var (run G T dense s acts)) BOX = gcount G (var s) BOX.
Proof.
  induction acts as [|a r IH]; intros s P F; cbn [run]; auto.
  inversion F; subst. rewrite IH; auto using step_Physical, step_boxes.
Qed.

Lemma step_fixed G T dense s a : fixed (fst (step G T dense s a)) = fixed s.
Proof. unfold step. destruct (if _ =? NOOP then _ else _) as [vr' [r' c']]. reflexivity. Qed.

Lemma step_sc G T dense s a : sc (fst (step G T dense s a)) = sc s + 1.
Proof. unfold step. destruct (if _ =? NOOP then _ else _) as [vr' [r' c']]. reflexivity. Qed.

(* C08 / C09: +1 when a box is pushed onto a target, -1 when it is pushed off one, 0 otherwise *)
Theorem step_on_target G T dense s a : Physical G s -> 0 <= a < 4 ->
  let s' := fst (step G T dense s a) in
  let r1 := ar s + dr a in let c1 := ac s + dc a in
  on_target G (var s') (fixed s') = on_target G (var s) (fixed s)
    + (if legal_b G s a && (gat 0 (var s) r1 c1 =? BOX)
       then b2z (gat 0 (fixed s) (r1 + dr a) (c1 + dc a) =? TARGET) - b2z (gat 0 (fixed s) r1 c1 =? TARGET) else 0).
Proof.
  intros P Ha. cbv zeta. rewrite step_fixed. rewrite step_eq_rule by auto. unfold rule_step. cbv zeta.
  destruct (legal_b G s a) eqn:L; cbn [fst var andb]; [|lia].
  fold (moved_grid s a). unfold on_target.
  rewrite (moved_gsum G s a (fun y r c => b2z ((y =? BOX) && (gat 0 (fixed s) r c =? TARGET)))) by auto. cbv zeta.
  destruct (legal_ranges G s a L) as (_ & _ & _ & Bx).
  destruct (gat 0 (var s) (ar s + dr a) (ac s + dc a) =? BOX) eqn:B1.
  - assert (E : gat 0 (var s) (ar s + dr a) (ac s + dc a) = BOX) by (apply Z.eqb_eq; exact B1).
    destruct (Bx E) as (_ & _ & _ & B2). clear - B2 B1. consts. unfold b2z. ifs; lia.
  - clear - B1. consts. unfold b2z. ifs; lia.
Qed.

(* ---------- the boolean checker decides Physical ---------- *)
Lemma cell_b_spec f v r c r0 c0 :
  (((f =? EMPTY) || (f =? WALL) || (f =? TARGET))
   && ((v =? EMPTY) || (v =? AGENT) || (v =? BOX))
   && Bool.eqb (v =? AGENT) ((r =? r0) && (c =? c0))
   && ((v =? EMPTY) || negb (f =? WALL))) = true
  <-> ((f = EMPTY \/ f = WALL \/ f = TARGET) /\ (v = EMPTY \/ v = AGENT \/ v = BOX)
       /\ (v = AGENT <-> (r = r0 /\ c = c0)) /\ (v <> EMPTY -> f <> WALL)).
Proof.
  rewrite !andb_true_iff, eqb_true_iff. consts.
  destruct (v =? 3) eqn:E1; destruct ((r =? r0) && (c =? c0)) eqn:E2; split; intros; try lia.
Qed.

Theorem Physical_b_spec G s : Physical_b G s = true <-> Physical G s.
Proof.
  unfold Physical_b, Physical. rewrite !andb_true_iff, !wf_grid_b_spec, !inb_spec, cells_b_spec, Z.leb_le.
  split.
  - intros (((((Wf & Wv) & Hr) & Hc) & Cells) & SC). repeat (split; [assumption|]). split; [|assumption].
    intros r c Hr' Hc'. apply cell_b_spec. apply Cells; auto.
  - intros (Wf & Wv & Hr & Hc & Cells & SC). split; [|assumption]. split; [auto|].
    intros r c Hr' Hc'. apply cell_b_spec. apply Cells; auto.
Qed.

(* ---------- C05: an illegal move is ignored ---------- *)
Theorem illegal_ignored G T dense s a :
  Physical G s -> 0 <= a < 4 -> legal_b G s a = false ->
  let s' := fst (step G T dense s a) in
  let t := snd (step G T dense s a) in
  let cnt := on_target G (var s) (fixed s) in
  fixed s' = fixed s /\ var s' = var s /\ ar s' = ar s /\ ac s' = ac s /\ sc s' = sc s + 1
  /\ reward t = [if dense then 100 * b2z (cnt =? N_BOXES) - 1 else 100 * b2z (cnt =? N_BOXES)]
  /\ (st t = LAST <-> (cnt = N_BOXES \/ T <= sc s + 1)) /\ (st t = MID \/ st t = LAST).
Proof.
  intros P Ha L. rewrite step_eq_rule by auto. unfold rule_step. rewrite L. cbv zeta. cbn [fst snd fixed var ar ac sc].
  repeat (split; [reflexivity|]).
  set (cnt := on_target G (var s) (fixed s)).
  destruct (cnt =? N_BOXES) eqn:E1; destruct (T <=? sc s + 1) eqn:E2; cbn [orb b2z];
    destruct dense; cbn [reward st termination transition]; unfold LAST, MID;
    (split; [f_equal; lia|]); (split; [split; intro; try lia; try discriminate|]); auto.
Qed.

(* on a state that is not already solved: the documented step penalty only, and the episode continues before the limit *)
Corollary illegal_ignored_unsolved G T dense s a :
  Physical G s -> 0 <= a < 4 -> legal_b G s a = false -> on_target G (var s) (fixed s) <> N_BOXES ->
  let t := snd (step G T dense s a) in
  reward t = [if dense then -1 else 0] /\ (sc s + 1 < T -> st t = MID) /\ (T <= sc s + 1 -> st t = LAST).
Proof.
  intros P Ha L N. destruct (illegal_ignored G T dense s a P Ha L) as (_ & _ & _ & _ & _ & R & Lst & ML). cbv zeta.
  replace (on_target G (var s) (fixed s) =? N_BOXES) with false in R by lia. cbn [b2z] in R.
  split; [rewrite R; destruct dense; reflexivity|]. split.
  - intro H. destruct ML as [M|M]; auto. apply Lst in M. lia.
  - intro H. apply Lst. auto.
Qed.

(* ---------- C09: a legal move, cell by cell ---------- *)
Theorem legal_move G T dense s a :
  Physical G s -> 0 <= a < 4 -> legal_b G s a = true ->
  let s' := fst (step G T dense s a) in
  let r1 := ar s + dr a in let c1 := ac s + dc a in
  fixed s' = fixed s /\ ar s' = r1 /\ ac s' = c1 /\ sc s' = sc s + 1
  /\ forall r c, 0 <= r < G -> 0 <= c < G ->
       gat 0 (var s') r c =
       if (gat 0 (var s) r1 c1 =? BOX) && ((r =? r1 + dr a) && (c =? c1 + dc a)) then BOX
       else if (r =? r1) && (c =? c1) then AGENT
       else if (r =? ar s) && (c =? ac s) then EMPTY
       else gat 0 (var s) r c.
Proof.
  intros P Ha L. rewrite step_eq_rule by auto. unfold rule_step. rewrite L. cbv zeta. cbn [fst fixed var ar ac sc].
  repeat (split; [reflexivity|]). fold (moved_grid s a). intros r c Hr Hc. apply (moved_grid_at G); auto.
Qed.

(* ---------- C03 / C11: for ALL states and ALL integer actions ---------- *)
Definition cnt_of (s : state) : Z := count_targets (var s) (fixed s).

Theorem step_ts G T dense s a :
  let s' := fst (step G T dense s a) in
  snd (step G T dense s a) = cond_done 1 ((cnt_of s' =? N_BOXES) || (T <=? sc s + 1)) [reward10 dense (cnt_of s) (cnt_of s')].
Proof. unfold step, cnt_of. destruct (if _ =? NOOP then _ else _) as [vr' [r' c']]. reflexivity. Qed.

Theorem step_protocol G T dense s a : step_ok 1 false (snd (step G T dense s a)) = true.
Proof. rewrite step_ts. cbv zeta. unfold cond_done. destruct (_ || _); reflexivity. Qed.

Theorem gen_protocol lv : first_ok 1 (snd (gen_level lv)) = true.
Proof. unfold gen_level. destruct (convert_level lv) as [fx vr]. destruct (find_agent vr). reflexivity. Qed.

Theorem step_last_iff G T dense s a :
  let s' := fst (step G T dense s a) in
  st (snd (step G T dense s a)) = LAST <-> (cnt_of s' = N_BOXES \/ T <= sc s').
Proof.
  cbv zeta. rewrite step_ts, step_sc. cbv zeta. unfold cond_done.
  destruct (cnt_of (fst (step G T dense s a)) =? N_BOXES) eqn:E1; destruct (T <=? sc s + 1) eqn:E2; cbn [orb st termination transition];
    unfold LAST, MID; split; intro; try lia; try discriminate.
Qed.

Lemma step_mid_or_last G T dense s a : st (snd (step G T dense s a)) = MID \/ st (snd (step G T dense s a)) = LAST.
Proof. rewrite step_ts. cbv zeta. unfold cond_done. destruct (_ || _); [right|left]; reflexivity. Qed.

Lemma run_sc G T dense acts : forall s, sc (run G T dense s acts) = sc s + zlen acts.
Proof.
  induction acts as [|a r IH]; intro s; cbn [run]; [change (zlen (@nil Z)) with 0; lia|].
  rewrite IH, step_sc, zlen_cons. lia.
Qed.

(* episode view: from a reset state (counter 0), after n steps, step n+1 is LAST when n + 1 >= T, and a LAST before the
   limit happens only by solving the level *)
Theorem episode_limit G T dense s0 acts a :
  sc s0 = 0 ->
  let s := run G T dense s0 acts in
  let n := zlen acts in
  let t := snd (step G T dense s a) in
  (n + 1 = T -> st t = LAST) /\
  (n + 1 < T -> st t = LAST -> cnt_of (fst (step G T dense s a)) = N_BOXES) /\
  (T <= n + 1 -> st t = LAST).
Proof.
  intros Z0. cbv zeta.
  pose proof (step_last_iff G T dense (run G T dense s0 acts) a) as H. cbv zeta in H.
  rewrite step_sc, run_sc, Z0 in H.
  split; [intros; apply H; right; lia|]. split; [|intros; apply H; right; lia].
  intros H0 H1. apply H in H1. destruct H1; auto. lia.
Qed.

(* ---------- C08: rewards telescope ---------- *)
Lemma step_fst_dense G T s a : fst (step G T true s a) = fst (step G T false s a).
Proof. unfold step. destruct (if _ =? NOOP then _ else _) as [vr' [r' c']]. reflexivity. Qed.

Lemma run_dense G T acts : forall s, run G T true s acts = run G T false s acts.
Proof. induction acts as [|a r IH]; intro s; cbn [run]; auto. rewrite step_fst_dense. apply IH. Qed.

Lemma step_reward G T dense s a :
  znth 0 (reward (snd (step G T dense s a))) 0 = reward10 dense (cnt_of s) (cnt_of (fst (step G T dense s a))).
Proof. rewrite step_ts. cbv zeta. unfold cond_done. destruct (_ || _); reflexivity. Qed.

(* dense return = sparse return + 10 * (boxes on targets at the end - at the start) - number of steps   (tenths) *)
Theorem dense_sparse_return G T acts : forall s,
  zsum (rewards G T true s acts)
  = zsum (rewards G T false s acts) + 10 * (cnt_of (run G T true s acts) - cnt_of s) - zlen acts.
Proof.
  induction acts as [|a r IH]; intro s; cbn [rewards run zsum]; [change (zlen (@nil Z)) with 0; lia|].
  rewrite IH, !step_reward, zlen_cons. rewrite <- step_fst_dense.
  unfold reward10. lia.
Qed.

Fixpoint types (G T : Z) (dense : bool) (s : state) (acts : list Z) : list Z :=
  match acts with
  | [] => []
  | a :: r => st (snd (step G T dense s a)) :: types G T dense (fst (step G T dense s a)) r
  end.

(* the sparse reward is 0 on every MID step *)
Lemma sparse_zero_while_mid G T acts : forall s,
  Forall (fun ty => ty = MID) (types G T false s acts) -> zsum (rewards G T false s acts) = 0.
Proof.
  induction acts as [|a r IH]; intros s F; cbn [rewards zsum types] in *; [reflexivity|].
  inversion F as [|x l M F']; subst. rewrite IH by auto. rewrite step_reward.
  assert (N : cnt_of (fst (step G T false s a)) <> N_BOXES).
  { intro E. assert (L : st (snd (step G T false s a)) = LAST) by (apply step_last_iff; left; exact E).
    rewrite M in L. discriminate. }
  unfold reward10. replace (cnt_of (fst (step G T false s a)) =? N_BOXES) with false by lia. cbn [b2z]. lia.
Qed.

Lemma rewards_app G T dense l1 l2 : forall s,
  rewards G T dense s (l1 ++ l2) = rewards G T dense s l1 ++ rewards G T dense (run G T dense s l1) l2.
Proof. induction l1 as [|a r IH]; intro s; cbn [rewards run Datatypes.app]; auto. rewrite IH. reflexivity. Qed.

Lemma run_app G T dense l1 l2 : forall s, run G T dense s (l1 ++ l2) = run G T dense (run G T dense s l1) l2.
Proof. induction l1 as [|a r IH]; intro s; cbn [run Datatypes.app]; auto. Qed.

Lemma zsum_app a b : zsum (a ++ b) = zsum a + zsum b.
Proof. induction a as [|x a IH]; cbn [zsum Datatypes.app]; lia. Qed.

Lemma types_dense G T acts : forall s, types G T true s acts = types G T false s acts.
Proof.
  induction acts as [|a r IH]; intro s; cbn [types]; auto. rewrite step_fst_dense, IH. f_equal.
  rewrite !step_ts. cbv zeta. rewrite step_fst_dense. unfold cond_done. destruct (_ || _); reflexivity.
Qed.

(* the episode return equals the documented objective recomputed from the first and the final state:
   an episode = steps [acts] that all returned MID, then one more step [a] *)
Theorem episode_return G T s0 acts a :
  Forall (fun ty => ty = MID) (types G T false s0 acts) ->
  let sF := run G T false s0 (acts ++ [a]) in
  let solved := b2z (cnt_of sF =? N_BOXES) in
  zsum (rewards G T false s0 (acts ++ [a])) = 100 * solved
  /\ zsum (rewards G T true s0 (acts ++ [a])) = 10 * (cnt_of sF - cnt_of s0) - (zlen acts + 1) + 100 * solved.
Proof.
  intros F. cbv zeta.
  assert (S : zsum (rewards G T false s0 (acts ++ [a])) = 100 * b2z (cnt_of (run G T false s0 (acts ++ [a])) =? N_BOXES)).
  { rewrite rewards_app, zsum_app, sparse_zero_while_mid by auto. rewrite run_app. cbn [rewards run zsum].
    rewrite step_reward. unfold reward10. lia. }
  split; [exact S|]. rewrite dense_sparse_return, S, run_dense, zlen_app. unfold zlen at 2. cbn [length]. lia.
Qed.

(* ---------- C12: the observation is the pair of grids, cell by cell ---------- *)
Lemma zip_row_fst_snd : forall v f, length v = length f -> map fst (zip_row v f) = v /\ map snd (zip_row v f) = f.
Proof.
  induction v as [|x v IH]; intros [|y f] L; cbn in L; try discriminate; cbn [zip_row map]; auto.
  destruct (IH f) as [A B]; [lia|]. rewrite A, B. auto.
Qed.

Theorem obs_faithful G vr fx : wf_grid G vr -> wf_grid G fx ->
  map (map fst) (obs_grid vr fx) = vr /\ map (map snd) (obs_grid vr fx) = fx.
Proof.
  intros [Lv Fv] [Lf Ff]. assert (L : length vr = length fx) by (unfold zlen in *; lia). clear Lv Lf.
  revert fx L Ff. induction vr as [|v vr IH]; intros [|f fx] L Ff; cbn in L; try discriminate; cbn [obs_grid map]; auto.
  inversion Fv; subst. inversion Ff; subst.
  destruct (zip_row_fst_snd v f) as [A B]; [unfold zlen in *; lia|].
  destruct (IH H2 fx) as [C D]; [lia|auto|]. rewrite A, B, C, D. auto.
Qed.

Theorem observe_spec s : observe s = flat_pairs (obs_grid (var s) (fixed s)) ++ [sc s].
Proof. reflexivity. Qed.

(* ---------- C01: value ranges of the observed grid ---------- *)
Lemma wf_grid_Forall G gr (P : Z -> Prop) : wf_grid G gr ->
  (forall r c, 0 <= r < G -> 0 <= c < G -> P (gat 0 gr r c)) -> Forall (Forall P) gr.
Proof.
  intros [L F] H. apply Forall_forall. intros row Hrow. apply Forall_forall. intros x Hx.
  destruct (In_nth _ _ [] Hrow) as (n & Hn & En). destruct (In_nth _ _ 0 Hx) as (m & Hm & Em).
  rewrite Forall_forall in F. pose proof (F row Hrow) as Lr.
  specialize (H (Z.of_nat n) (Z.of_nat m)). unfold gat in H. rewrite !znth_nth in H by lia.
  rewrite !Nat2Z.id in H. rewrite En, Em in H. apply H; unfold zlen in *; lia.
Qed.

Theorem Physical_in_spec G s : Physical G s ->
  Forall (Forall (fun v => 0 <= v <= 4)) (var s) /\ Forall (Forall (fun v => 0 <= v <= 4)) (fixed s)
  /\ zlen (var s) = G /\ zlen (fixed s) = G
  /\ Forall (fun row => zlen row = G) (var s) /\ Forall (fun row => zlen row = G) (fixed s).
Proof.
  intros (Wf & Wv & Hr & Hc & Cells & SC). split; [|split].
  - apply (wf_grid_Forall G); auto. intros r c Hr' Hc'. destruct (Cells r c Hr' Hc') as (_ & V & _). consts. lia.
  - apply (wf_grid_Forall G); auto. intros r c Hr' Hc'. destruct (Cells r c Hr' Hc') as (F & _). consts. lia.
  - destruct Wf, Wv. auto.
Qed.
