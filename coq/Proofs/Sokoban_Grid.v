(* Sokoban, part 1: list / grid library.  Strict cell access and update ([gat], [gput]) versus the JAX gather /
   scatter ([gget], [gset]) on well-shaped grids; sums over the G x G index square ([gsum]) under point updates;
   the code's elementwise count (count_targets) equals the declarative double sum (on_target).                   *)
Require Import JV.Base.Prelude JV.Base.JaxIndex JV.Base.Codec JV.Base.TimeStep JV.Model.Sokoban.

Ltac ifs := repeat match goal with |- context [if ?b then _ else _] => destruct b eqn:? end.

(* ---------- 1-D ---------- *)
Lemma znth_nth {A} (d : A) l i : 0 <= i -> znth d l i = nth (Z.to_nat i) l d.
Proof. intro H. unfold znth. destruct (i <? 0) eqn:E; [lia|reflexivity]. Qed.

Lemma zlen_zupd {A} i (v : A) l : zlen (zupd i v l) = zlen l.
Proof. unfold zlen. rewrite zupd_length. reflexivity. Qed.

Lemma znth_zupd_same {A} (d : A) i v l : 0 <= i < zlen l -> znth d (zupd i v l) i = v.
Proof.
  intro H. unfold znth, zupd. destruct (i <? 0) eqn:E; [lia|]. apply nth_upd_same. unfold zlen in H. lia.
Qed.

Lemma znth_zupd_other {A} (d : A) i j v l : i <> j -> znth d (zupd i v l) j = znth d l j.
Proof.
  intro H. unfold znth, zupd. destruct (j <? 0) eqn:E; auto. destruct (i <? 0) eqn:E2; auto.
  apply nth_upd_other. lia.
Qed.

Lemma znth_cons_0 {A} (d x : A) l : znth d (x :: l) 0 = x.
Proof. reflexivity. Qed.

Lemma znth_cons_succ {A} (d x : A) l i : 0 <= i -> znth d (x :: l) (i + 1) = znth d l i.
Proof.
  intro H. unfold znth. destruct (i + 1 <? 0) eqn:E1; [lia|]. destruct (i <? 0) eqn:E2; [lia|].
  replace (Z.to_nat (i + 1)) with (S (Z.to_nat i)) by lia. reflexivity.
Qed.

Lemma Forall_upd {A} (P : A -> Prop) n v l : Forall P l -> P v -> Forall P (upd n v l).
Proof.
  revert n; induction l as [|x l IH]; intros [|n] F Pv; cbn [upd]; auto; inversion F; subst; constructor; auto.
Qed.

Lemma Forall_zupd {A} (P : A -> Prop) i v l : Forall P l -> P v -> Forall P (zupd i v l).
Proof. intros. unfold zupd. destruct (i <? 0); auto using Forall_upd. Qed.

(* ---------- sums ---------- *)
Lemma zsum_map_ext (f f' : Z -> Z) l : (forall x, In x l -> f x = f' x) -> zsum (map f l) = zsum (map f' l).
Proof. intro H. rewrite (map_ext_in f f' l H). reflexivity. Qed.

Lemma zsum_map_add (f f' : Z -> Z) l : zsum (map (fun x => f x + f' x) l) = zsum (map f l) + zsum (map f' l).
Proof. induction l as [|x l IH]; cbn [map zsum]; lia. Qed.

Lemma zsum_map_zero {A} (l : list A) : zsum (map (fun _ => 0) l) = 0.
Proof. induction l as [|x l IH]; cbn [map zsum]; lia. Qed.

Lemma zsum_map_nonneg {A} (f : A -> Z) l : (forall x, In x l -> 0 <= f x) -> 0 <= zsum (map f l).
Proof.
  induction l as [|x l IH]; intro H; cbn [map zsum]; [lia|].
  pose proof (H x (or_introl eq_refl)). assert (0 <= zsum (map f l)) by (apply IH; intros; apply H; right; auto). lia.
Qed.

Lemma zsum_point_from k i0 n : forall s,
  zsum (map (fun i => if i =? i0 then k else 0) (zrange_from s n)) = if (s <=? i0) && (i0 <? s + Z.of_nat n) then k else 0.
Proof.
  induction n as [|n IH]; intro s; cbn [zrange_from map zsum].
  - ifs; lia.
  - rewrite IH. ifs; lia.
Qed.

Lemma zsum_point k i0 n : 0 <= i0 < n -> zsum (map (fun i => if i =? i0 then k else 0) (zrange n)) = k.
Proof. intro H. unfold zrange. rewrite zsum_point_from. ifs; lia. Qed.

Lemma zrange_from_shift s n : zrange_from (s + 1) n = map (fun i => i + 1) (zrange_from s n).
Proof. revert s; induction n as [|n IH]; intro s; cbn [zrange_from map]; [reflexivity|]. rewrite IH. reflexivity. Qed.

Lemma zsum_zrange_cons {A} (F : Z -> Z) (x : A) l :
  zsum (map F (zrange (zlen (x :: l)))) = F 0 + zsum (map (fun i => F (i + 1)) (zrange (zlen l))).
Proof.
  unfold zrange. rewrite zlen_cons.
  replace (Z.to_nat (1 + zlen l)) with (S (Z.to_nat (zlen l))) by (pose proof (zlen_nonneg l); lia).
  cbn [zrange_from map zsum]. rewrite zrange_from_shift, map_map. reflexivity.
Qed.

Lemma gsum_ext G f f' : (forall r c, 0 <= r < G -> 0 <= c < G -> f r c = f' r c) -> gsum G f = gsum G f'.
Proof.
  intro H. unfold gsum. apply zsum_map_ext. intros r Hr. apply in_zrange in Hr.
  apply zsum_map_ext. intros c Hc. apply in_zrange in Hc. auto.
Qed.

Lemma gsum_add G f f' : gsum G (fun r c => f r c + f' r c) = gsum G f + gsum G f'.
Proof. unfold gsum. rewrite <- zsum_map_add. apply zsum_map_ext. intros. apply zsum_map_add. Qed.

Lemma gsum_point G r0 c0 k : 0 <= r0 < G -> 0 <= c0 < G ->
  gsum G (fun r c => if (r =? r0) && (c =? c0) then k else 0) = k.
Proof.
  intros Hr Hc. unfold gsum.
  rewrite (zsum_map_ext _ (fun r => if r =? r0 then k else 0)).
  - apply zsum_point; auto.
  - intros r _. destruct (r =? r0) eqn:E; cbn [andb].
    + apply zsum_point; auto.
    + apply zsum_map_zero.
Qed.

Lemma gsum_nonneg G f : (forall r c, 0 <= r < G -> 0 <= c < G -> 0 <= f r c) -> 0 <= gsum G f.
Proof.
  intro H. unfold gsum. apply zsum_map_nonneg. intros r Hr. apply in_zrange in Hr.
  apply zsum_map_nonneg. intros c Hc. apply in_zrange in Hc. auto.
Qed.

(* a non-negative summand is a lower bound of the sum *)
Lemma gsum_ge_point G f r0 c0 : (forall r c, 0 <= r < G -> 0 <= c < G -> 0 <= f r c) -> 0 <= r0 < G -> 0 <= c0 < G ->
  f r0 c0 <= gsum G f.
Proof.
  intros H Hr Hc.
  rewrite (gsum_ext G f (fun r c => (if (r =? r0) && (c =? c0) then f r0 c0 else 0)
                                  + (if (r =? r0) && (c =? c0) then 0 else f r c))).
  - rewrite gsum_add, gsum_point by auto.
    assert (0 <= gsum G (fun r c => if (r =? r0) && (c =? c0) then 0 else f r c)); [|lia].
    apply gsum_nonneg. intros r c Hr' Hc'. ifs; auto; lia.
  - intros r c Hr' Hc'. destruct ((r =? r0) && (c =? c0)) eqn:E; [|lia].
    assert (r = r0 /\ c = c0) as [-> ->] by lia. lia.
Qed.

(* ---------- grids ---------- *)
Lemma wf_grid_b_spec G gr : wf_grid_b G gr = true <-> wf_grid G gr.
Proof.
  unfold wf_grid_b, wf_grid. rewrite andb_true_iff, forallb_forall, Forall_forall. split.
  - intros [L F]. split; [lia|]. intros x Hx. specialize (F x Hx). lia.
  - intros [L F]. split; [lia|]. intros x Hx. specialize (F x Hx). lia.
Qed.

Lemma cells_b_spec G p : cells_b G p = true <-> (forall r c, 0 <= r < G -> 0 <= c < G -> p r c = true).
Proof.
  unfold cells_b. rewrite forallb_forall. split.
  - intros H r c Hr Hc. specialize (H r (proj2 (in_zrange r G) Hr)). rewrite forallb_forall in H.
    apply H. apply in_zrange; auto.
  - intros H r Hr. apply in_zrange in Hr. apply forallb_forall. intros c Hc. apply in_zrange in Hc. auto.
Qed.

Lemma wf_row G gr r : wf_grid G gr -> 0 <= r < G -> zlen (znth [] gr r) = G.
Proof.
  intros [L F] H. rewrite znth_nth by lia. rewrite Forall_forall in F. apply F. apply nth_In. unfold zlen in L. lia.
Qed.

Lemma gat_gput G gr r c v r' c' : wf_grid G gr -> 0 <= r < G -> 0 <= c < G ->
  gat 0 (gput gr r c v) r' c' = if (r' =? r) && (c' =? c) then v else gat 0 gr r' c'.
Proof.
  intros W Hr Hc. unfold gat, gput.
  destruct (r' =? r) eqn:Er.
  - assert (r' = r) by lia. subst r'. rewrite znth_zupd_same by (destruct W; lia).
    destruct (c' =? c) eqn:Ec; cbn [andb].
    + assert (c' = c) by lia. subst. apply znth_zupd_same. rewrite (wf_row G) by auto. lia.
    + apply znth_zupd_other. lia.
  - cbn [andb]. rewrite znth_zupd_other by lia. reflexivity.
Qed.

Lemma wf_gput G gr r c v : wf_grid G gr -> 0 <= r < G -> wf_grid G (gput gr r c v).
Proof.
  intros W Hr. pose proof (wf_row G gr r W Hr) as R. destruct W as [L F]. unfold gput. split.
  - rewrite zlen_zupd. exact L.
  - apply Forall_zupd; auto. rewrite zlen_zupd. exact R.
Qed.

Lemma gget_gat G gr r c : wf_grid G gr -> 0 <= r < G -> 0 <= c < G -> gget 0 gr r c = gat 0 gr r c.
Proof.
  intros W Hr Hc. unfold gget, gat, jget. rewrite (jclamp_id (zlen gr)) by (destruct W; lia).
  rewrite jclamp_id; [reflexivity|]. rewrite (wf_row G); auto.
Qed.

Lemma gset_gput G gr r c v : wf_grid G gr -> 0 <= r < G -> 0 <= c < G -> gset gr r c v = gput gr r c v.
Proof.
  intros W Hr Hc. pose proof (wf_row G gr r W Hr) as R. destruct W as [L F].
  unfold gset, gput, jnorm. cbv zeta. rewrite L.
  destruct (r <? 0) eqn:E; [lia|]. replace ((0 <=? r) && (r <? G)) with true by lia.
  rewrite R. destruct (c <? 0) eqn:E2; [lia|]. replace ((0 <=? c) && (c <? G)) with true by lia. reflexivity.
Qed.

(* a sum of a per-cell quantity after one cell is overwritten *)
Lemma gsum_gput G gr r0 c0 v (F : Z -> Z -> Z -> Z) : wf_grid G gr -> 0 <= r0 < G -> 0 <= c0 < G ->
  gsum G (fun r c => F (gat 0 (gput gr r0 c0 v) r c) r c)
  = gsum G (fun r c => F (gat 0 gr r c) r c) - F (gat 0 gr r0 c0) r0 c0 + F v r0 c0.
Proof.
  intros W Hr Hc.
  rewrite (gsum_ext G _ (fun r c => F (gat 0 gr r c) r c
                           + (if (r =? r0) && (c =? c0) then F v r0 c0 - F (gat 0 gr r0 c0) r0 c0 else 0))).
  - rewrite gsum_add, gsum_point by auto. lia.
  - intros r c Hr' Hc'. rewrite (gat_gput G) by auto. destruct ((r =? r0) && (c =? c0)) eqn:E; [|lia].
    assert (r = r0 /\ c = c0) as [-> ->] by lia. lia.
Qed.

Lemma gcount_gput G gr r0 c0 v x : wf_grid G gr -> 0 <= r0 < G -> 0 <= c0 < G ->
  gcount G (gput gr r0 c0 v) x = gcount G gr x - b2z (gat 0 gr r0 c0 =? x) + b2z (v =? x).
Proof. intros. unfold gcount. apply (gsum_gput G gr r0 c0 v (fun y _ _ => b2z (y =? x))); auto. Qed.

Lemma on_target_gput G vr fx r0 c0 v : wf_grid G vr -> 0 <= r0 < G -> 0 <= c0 < G ->
  on_target G (gput vr r0 c0 v) fx
  = on_target G vr fx - b2z ((gat 0 vr r0 c0 =? BOX) && (gat 0 fx r0 c0 =? TARGET))
    + b2z ((v =? BOX) && (gat 0 fx r0 c0 =? TARGET)).
Proof.
  intros. unfold on_target.
  apply (gsum_gput G vr r0 c0 v (fun y r c => b2z ((y =? BOX) && (gat 0 fx r c =? TARGET)))); auto.
Qed.

(* ---------- the code's elementwise count = the declarative double sum ---------- *)
Lemma row_targets_sum : forall v f, zlen v = zlen f ->
  row_targets v f = zsum (map (fun c => b2z ((znth 0 v c =? BOX) && (znth 0 f c =? TARGET))) (zrange (zlen v))).
Proof.
  induction v as [|x v IH]; intros [|y f] L; try reflexivity.
  - exfalso. rewrite zlen_cons in L. pose proof (zlen_nonneg v). change (zlen (@nil Z)) with 0 in L. lia.
  - rewrite !zlen_cons in L.
    rewrite (zsum_zrange_cons (fun c => b2z ((znth 0 (x :: v) c =? BOX) && (znth 0 (y :: f) c =? TARGET)))).
    cbn [row_targets]. rewrite !znth_cons_0. f_equal. rewrite IH by lia.
    apply zsum_map_ext. intros c Hc. apply in_zrange in Hc. rewrite !znth_cons_succ by lia. reflexivity.
Qed.

Lemma count_targets_sum : forall vr fx, zlen vr = zlen fx ->
  count_targets vr fx = zsum (map (fun r => row_targets (znth [] vr r) (znth [] fx r)) (zrange (zlen vr))).
Proof.
  induction vr as [|x vr IH]; intros [|y fx] L; try reflexivity.
  - exfalso. rewrite zlen_cons in L. pose proof (zlen_nonneg vr). change (zlen (@nil (list Z))) with 0 in L. lia.
  - rewrite !zlen_cons in L.
    rewrite (zsum_zrange_cons (fun r => row_targets (znth [] (x :: vr) r) (znth [] (y :: fx) r))).
    cbn [count_targets]. rewrite !znth_cons_0. f_equal. rewrite IH by lia.
    apply zsum_map_ext. intros r Hr. apply in_zrange in Hr. rewrite !znth_cons_succ by lia. reflexivity.
Qed.

Theorem count_targets_on_target G vr fx : wf_grid G vr -> wf_grid G fx -> count_targets vr fx = on_target G vr fx.
Proof.
  intros Wv Wf. rewrite count_targets_sum by (destruct Wv, Wf; lia).
  unfold on_target, gsum. replace (zlen vr) with G by (destruct Wv; lia).
  apply zsum_map_ext. intros r Hr. apply in_zrange in Hr.
  rewrite row_targets_sum by (rewrite !(wf_row G) by auto; reflexivity).
  rewrite (wf_row G) by auto. reflexivity.
Qed.
