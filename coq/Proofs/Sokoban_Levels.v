(* Sokoban, part 3: generated levels (C10), the walled region certificate ("walls around": the agent and the boxes can
   never leave a region that does not touch the border), solvability witnesses, documentation mismatch.          *)
Require Import JV.Base.Prelude JV.Base.JaxIndex JV.Base.Codec JV.Base.TimeStep JV.Model.Sokoban JV.Proofs.Sokoban_Grid JV.Proofs.Sokoban.

Theorem WellFormed_b_spec G s : WellFormed_b G s = true -> WellFormed G s.
Proof.
  unfold WellFormed_b, WellFormed. rewrite !andb_true_iff. intros (((((P & S) & A) & B) & Tg) & O).
  apply Physical_b_spec in P. split; [exact P|]. unfold N_BOXES in *. lia.
Qed.

(* ---------- region certificates ---------- *)
Lemma closed_step G fx R r c a : closed_b G fx R = true -> 0 <= r < G -> 0 <= c < G -> 0 <= a < 4 ->
  rin R r c = true -> gat 0 fx (r + dr a) (c + dc a) <> WALL -> rin R (r + dr a) (c + dc a) = true.
Proof.
  intros C Hr Hc Ha In NW. unfold closed_b in C. rewrite cells_b_spec in C. specialize (C r c Hr Hc).
  rewrite In in C. cbn [negb orb] in C. rewrite !andb_true_iff in C. destruct C as (_ & FA).
  rewrite forallb_forall in FA. specialize (FA a (proj2 (in_zrange a 4) Ha)).
  apply orb_true_iff in FA. destruct FA as [W|I]; auto. lia.
Qed.

Lemma closed_interior G fx R r c : closed_b G fx R = true -> 0 <= r < G -> 0 <= c < G -> rin R r c = true ->
  0 < r < G - 1 /\ 0 < c < G - 1 /\ gat 0 fx r c <> WALL.
Proof.
  intros C Hr Hc In. unfold closed_b in C. rewrite cells_b_spec in C. specialize (C r c Hr Hc).
  rewrite In in C. cbn [negb orb] in C. rewrite !andb_true_iff in C. lia.
Qed.

Lemma inside_at G s R r c : inside_b G s R = true -> 0 <= r < G -> 0 <= c < G -> gat 0 (var s) r c <> EMPTY -> rin R r c = true.
Proof.
  intros I Hr Hc N. unfold inside_b in I. rewrite cells_b_spec in I. specialize (I r c Hr Hc).
  apply orb_true_iff in I. destruct I as [E|E]; auto. lia.
Qed.

(* the agent and the boxes never leave a closed region (any in-spec action, legal or not) *)
Theorem Enclosed_step G T dense s a R :
  Physical G s -> 0 <= a < 4 -> Enclosed_b G s R = true -> Enclosed_b G (fst (step G T dense s a)) R = true.
Proof.
  intros P Ha E. unfold Enclosed_b in *. apply andb_true_iff in E. destruct E as [C I].
  rewrite step_fixed, C. cbn [andb].
  destruct (legal_b G s a) eqn:L.
  2: { destruct (illegal_ignored G T dense s a P Ha L) as (_ & V & _). cbv zeta in V.
       unfold inside_b in *. rewrite V. exact I. }
  destruct (legal_move G T dense s a P Ha L) as (_ & _ & _ & _ & Cell). cbv zeta in Cell.
  destruct (legal_ranges G s a L) as (R1 & C1 & W1 & Bx).
  destruct (Physical_one_agent G s P) as [_ Cur].
  destruct P as (Wf & Wv & Hr & Hc & Cells & SC).
  assert (InCur : rin R (ar s) (ac s) = true).
  { apply (inside_at G s); auto. rewrite Cur. unfold AGENT, EMPTY. lia. }
  assert (In1 : rin R (ar s + dr a) (ac s + dc a) = true) by (apply (closed_step G (fixed s)); auto).
  unfold inside_b. apply cells_b_spec. intros r c Hr' Hc'. rewrite Cell by auto.
  destruct (gat 0 (var s) (ar s + dr a) (ac s + dc a) =? BOX) eqn:B1; cbn [andb].
  - assert (E : gat 0 (var s) (ar s + dr a) (ac s + dc a) = BOX) by (apply Z.eqb_eq; exact B1).
    destruct (Bx E) as (R2 & C2 & W2 & B2).
    assert (In2 : rin R (ar s + dr a + dr a) (ac s + dc a + dc a) = true) by (apply (closed_step G (fixed s)); auto).
    destruct ((r =? ar s + dr a + dr a) && (c =? ac s + dc a + dc a)) eqn:E2.
    { apply pt_eq in E2. destruct E2 as [-> ->]. rewrite In2. apply orb_true_r. }
    destruct ((r =? ar s + dr a) && (c =? ac s + dc a)) eqn:E1.
    { apply pt_eq in E1. destruct E1 as [-> ->]. rewrite In1. apply orb_true_r. }
    destruct ((r =? ar s) && (c =? ac s)) eqn:E0; [reflexivity|].
    unfold inside_b in I. rewrite cells_b_spec in I. apply I; auto.
  - destruct ((r =? ar s + dr a) && (c =? ac s + dc a)) eqn:E1.
    { apply pt_eq in E1. destruct E1 as [-> ->]. rewrite In1. apply orb_true_r. }
    destruct ((r =? ar s) && (c =? ac s)) eqn:E0; [reflexivity|].
    unfold inside_b in I. rewrite cells_b_spec in I. apply I; auto.
Qed.

Theorem run_Enclosed G T dense R acts : forall s,
  Physical G s -> Forall (fun a => 0 <= a < 4) acts -> Enclosed_b G s R = true ->
  Enclosed_b G (run G T dense s acts) R = true.
Proof.
  induction acts as [|a r IH]; intros s P F E; cbn [run]; auto.
  inversion F; subst. apply IH; auto using step_Physical, Enclosed_step.
Qed.

(* inside a closed region the agent is strictly inside the grid: the border tests of the code never fire *)
Theorem Enclosed_agent_interior G s R : Physical G s -> Enclosed_b G s R = true ->
  0 < ar s < G - 1 /\ 0 < ac s < G - 1.
Proof.
  intros P E. unfold Enclosed_b in E. apply andb_true_iff in E. destruct E as [C I].
  destruct (Physical_one_agent G s P) as [_ Cur]. destruct P as (Wf & Wv & Hr & Hc & Cells & SC).
  assert (InCur : rin R (ar s) (ac s) = true).
  { apply (inside_at G s); auto. rewrite Cur. unfold AGENT, EMPTY. lia. }
  destruct (closed_interior G (fixed s) R _ _ C Hr Hc InCur) as (A & B & _). auto.
Qed.

(* ---------- C10: the shipped levels ---------- *)
Theorem gen_toy_wf i : valid_draw i = true ->
  let s := fst (gen_toy i) in WellFormed 10 s /\ Enclosed_b 10 s (flood 10 s) = true.
Proof.
  intro V. assert (i = 0 \/ i = 1) as [-> | ->] by (unfold valid_draw in V; lia); cbv zeta;
    (split; [apply WellFormed_b_spec|]); vm_compute; reflexivity.
Qed.

Theorem gen_simple_wf : let s := fst gen_simple in WellFormed 10 s /\ Enclosed_b 10 s (flood 10 s) = true.
Proof. cbv zeta. split; [apply WellFormed_b_spec|]; vm_compute; reflexivity. Qed.

(* the generator is not a constant function of its draw *)
Theorem gen_toy_depends_on_draw : fst (gen_toy 0) <> fst (gen_toy 1).
Proof. intro E. apply (f_equal ar) in E. vm_compute in E. discriminate. Qed.

(* every state reachable from a generated level under ANY in-spec actions *)
Theorem level_run_invariant T dense acts s0 R :
  WellFormed 10 s0 -> Enclosed_b 10 s0 R = true -> Forall (fun a => 0 <= a < 4) acts ->
  let s := run 10 T dense s0 acts in
  Physical 10 s /\ gcount 10 (var s) AGENT = 1 /\ gcount 10 (var s) BOX = N_BOXES /\ fixed s = fixed s0
  /\ 0 < ar s < 9 /\ 0 < ac s < 9 /\ sc s = zlen acts.
Proof.
  intros (P & S0 & A & B & Tg & O) E F. cbv zeta.
  assert (Ps : Physical 10 (run 10 T dense s0 acts)) by (apply run_Physical; auto).
  split; [exact Ps|]. split; [apply Physical_one_agent; exact Ps|]. split; [rewrite run_boxes; auto|].
  split. { clear - F. revert s0. induction acts as [|a r IH]; intro s0; cbn [run]; auto. inversion F; subst. rewrite IH, step_fixed; auto. }
  pose proof (Enclosed_agent_interior 10 _ R Ps (run_Enclosed 10 T dense R acts s0 P F E)) as [I1 I2].
  rewrite run_sc. lia.
Qed.

(* solvability witnesses: SimpleSolveGenerator's level and ToyGenerator's level1 *)
Definition solve_simple : list Z := [0;2;1;0;2;1;0;2;1;0].
Definition solve_toy1 : list Z := [2;2;2;1;2;2;1;1;0;0;0;1;0;0;3;3;2;3;2;0;1;1;1;2;1;2;2;2;3;0;0].

Theorem simple_solvable :
  cnt_of (run 10 120 true (fst gen_simple) solve_simple) = N_BOXES
  /\ types 10 120 true (fst gen_simple) solve_simple = repeat MID 9 ++ [LAST]
  /\ zsum (rewards 10 120 true (fst gen_simple) solve_simple) = 130      (* 4 boxes + 10 bonus - 10 steps * 0.1 = 13.0 *)
  /\ zsum (rewards 10 120 false (fst gen_simple) solve_simple) = 100.
Proof. vm_compute. repeat split; reflexivity. Qed.

Theorem toy1_solvable :
  cnt_of (run 10 120 true (fst (gen_toy 0)) solve_toy1) = N_BOXES
  /\ types 10 120 true (fst (gen_toy 0)) solve_toy1 = repeat MID 30 ++ [LAST]
  /\ zsum (rewards 10 120 true (fst (gen_toy 0)) solve_toy1) = 40 + 100 - 31.
Proof. vm_compute. repeat split; reflexivity. Qed.

(* ---------- documentation mismatch: docs/environments/sokoban.md (and the docstring of Sokoban.step) list the actions
   as [Up, Down, Left, Right]; the code implements [Up, Right, Down, Left].  Under the md's reading action 1 moves the
   agent one row DOWN whenever the cell below is free floor; it moves it one column to the RIGHT instead. ---------- *)
Theorem md_action_order_refuted :
  exists s, Physical 10 s /\ floor 10 (fixed s) (ar s + 1) (ac s) /\ gat 0 (var s) (ar s + 1) (ac s) = EMPTY
            /\ ar (fst (step 10 120 true s 1)) <> ar s + 1
            /\ ar (fst (step 10 120 true s 1)) = ar s /\ ac (fst (step 10 120 true s 1)) = ac s + 1.
Proof.
  exists (fst gen_simple). split; [apply Physical_b_spec; vm_compute; reflexivity|].
  split; [apply floor_b_spec; vm_compute; reflexivity|]. vm_compute. repeat split; try reflexivity. discriminate.
Qed.
