(* Sokoban AS TRANSLATED FROM THE SOURCE (Gen/SokobanSrc.v: step, detect_noop_action, update_box_push_action, move_agent, check_space,
   in_grid, level_complete, count_targets, both reward functions in tenths, the constants) equals the hand model Model/Sokoban.v on
   every pair of grids, agent location, action, time limit and reward function. *)
Require Import JV.Base.Prelude JV.Base.JaxIndex JV.Base.Codec JV.Base.TimeStep JV.Gen.TimeStepSrc JV.Gen.SokobanSrc.
Require JV.Model.Sokoban.
Require Import Btauto.
(* equal conditionals up to a boolean tautology of their conditions (a | ~b versus ~b | a, ...): keeps the tie insensitive to spelling *)
Ltac if_eq := first [reflexivity | match goal with |- (if ?c then _ else _) = (if ?d then _ else _) =>
    let H := fresh in assert (H : c = d) by btauto; rewrite H; clear H; destruct d; if_eq end].
Module M := JV.Model.Sokoban.

Definition conv (s : State) : M.state :=
  M.mkS (s_fixed_grid s) (s_variable_grid s) (fst (s_agent_location s)) (snd (s_agent_location s)) (s_step_count s).
Definition reward_src (dense : bool) : State -> Z -> State -> Z := if dense then DenseReward else SparseReward.

Lemma consts_src : (NOOP, EMPTY, WALL, TARGET, AGENT, BOX, N_BOXES, MOVES) = (M.NOOP, M.EMPTY, M.WALL, M.TARGET, M.AGENT, M.BOX, M.N_BOXES, M.MOVES).
Proof. reflexivity. Qed.

Lemma check_src g p v : check_space g p v = M.check_space g (fst p) (snd p) v.  Proof. reflexivity. Qed.
Lemma in_grid_src p : in_grid p = M.in_grid GRID_SIZE (fst p) (snd p).
Proof. unfold in_grid, M.in_grid, pb_all, pb_and, pos_cmp. cbn [fst snd]. rewrite !Z.geb_leb. destruct (0 <=? fst p), (fst p <? GRID_SIZE), (0 <=? snd p), (snd p <? GRID_SIZE); reflexivity. Qed.

Lemma push_src fx vr p a : update_box_push_action fx vr p a = M.box_push_action GRID_SIZE fx vr (fst p) (snd p) a.
Proof.
  unfold update_box_push_action, M.box_push_action, M.move_of. cbv zeta. change MOVES with M.MOVES.
  destruct (jget (0, 0) M.MOVES a) as [dr dc]. rewrite !check_src, ?in_grid_src. cbn [fst snd]. unfold WALL, BOX, NOOP, M.WALL, M.BOX, M.NOOP. if_eq.
Qed.
Lemma noop_src vr fx a p : detect_noop_action vr fx a p = M.detect_noop GRID_SIZE vr fx a (fst p) (snd p).
Proof.
  unfold detect_noop_action, M.detect_noop, M.move_of. cbv zeta. change MOVES with M.MOVES.
  destruct (jget (0, 0) M.MOVES a) as [dr dc]. rewrite !check_src, ?in_grid_src, push_src. cbn [fst snd]. unfold WALL, BOX, NOOP, M.WALL, M.BOX, M.NOOP. if_eq.
Qed.
Lemma move_src vr a p : move_agent vr a p = M.move_agent vr a (fst p) (snd p).
Proof.
  unfold move_agent, M.move_agent, M.move_of. change MOVES with M.MOVES.
  destruct (jget (0, 0) M.MOVES a) as [dr dc]. rewrite !check_src. cbn [fst snd]. reflexivity.
Qed.

(* count_targets: element-wise masks and a sum = the model's row-wise count *)
Lemma row_targets_src v f : zsum (map b2z (zip_with andb (map (fun x_ : Z => x_ =? BOX) v) (map (fun x_ : Z => x_ =? TARGET) f))) = M.row_targets v f.
Proof. revert f. induction v as [|x v IH]; intros [|y f]; cbn [map zip_with zsum M.row_targets]; try reflexivity. rewrite IH. reflexivity. Qed.
Lemma zsum_app a b : zsum (a ++ b) = zsum a + zsum b.
Proof. induction a as [|x a IH]; cbn [app zsum]; lia. Qed.
Lemma count_src s : count_targets s = M.count_targets (s_variable_grid s) (s_fixed_grid s).
Proof.
  unfold count_targets, m_sum, m_and, m_map. generalize (s_variable_grid s) (s_fixed_grid s). intros vr.
  induction vr as [|v vr IH]; intros [|f fx]; cbn [map zip_with concat M.count_targets]; try reflexivity.
  rewrite map_app, zsum_app, IH, row_targets_src. reflexivity.
Qed.

Lemma reward_fn_src dense s a s' :
  reward_src dense s a s' = M.reward10 dense (M.count_targets (s_variable_grid s) (s_fixed_grid s)) (M.count_targets (s_variable_grid s') (s_fixed_grid s')).
Proof.
  unfold reward_src, M.reward10. destruct dense; [unfold DenseReward | unfold SparseReward]; rewrite !count_src;
    change N_BOXES with M.N_BOXES; unfold LEVEL_COMPLETE_BONUS, SINGLE_BOX_BONUS; lia.
Qed.

Theorem step_src T dense s a :
  let r := step T (reward_src dense) s a in
  conv (fst r) = fst (M.step GRID_SIZE T dense (conv s) a) /\ snd r = snd (M.step GRID_SIZE T dense (conv s) a).
Proof.
  cbv zeta. unfold step, M.step, level_complete. cbn [conv M.var M.fixed M.ar M.ac M.sc].
  rewrite noop_src. set (a' := M.detect_noop GRID_SIZE (s_variable_grid s) (s_fixed_grid s) a (fst (s_agent_location s)) (snd (s_agent_location s))).
  change NOOP with M.NOOP. rewrite move_src.
  assert (E : (if a' =? M.NOOP then (s_variable_grid s, s_agent_location s) else M.move_agent (s_variable_grid s) a' (fst (s_agent_location s)) (snd (s_agent_location s)))
              = (let '(vr', (r', c')) := (if a' =? M.NOOP then (s_variable_grid s, (fst (s_agent_location s), snd (s_agent_location s)))
                                           else M.move_agent (s_variable_grid s) a' (fst (s_agent_location s)) (snd (s_agent_location s))) in (vr', (r', c')))).
  { destruct (a' =? M.NOOP); [destruct (s_agent_location s); reflexivity|].
    destruct (M.move_agent (s_variable_grid s) a' (fst (s_agent_location s)) (snd (s_agent_location s))) as [g [r c]]. reflexivity. }
  rewrite E. clear E.
  destruct (if a' =? M.NOOP then (s_variable_grid s, (fst (s_agent_location s), snd (s_agent_location s)))
            else M.move_agent (s_variable_grid s) a' (fst (s_agent_location s)) (snd (s_agent_location s))) as [vr' [r' c']].
  cbn [fst snd conv s_fixed_grid s_variable_grid s_agent_location s_step_count].
  rewrite count_src, reward_fn_src. cbn [s_fixed_grid s_variable_grid]. change N_BOXES with M.N_BOXES. rewrite Z.geb_leb.
  split; [reflexivity|].
  unfold cond_done, termination_src, transition_src, termination, transition, StepType_LAST, StepType_MID, LAST, MID.
  destruct ((M.count_targets vr' (s_fixed_grid s) =? M.N_BOXES) || (T <=? s_step_count s + 1)); reflexivity.
Qed.

(* ---- the Sokoban theorems, transferred to the translated source ---- *)
Require Import JV.Proofs.Sokoban_Grid JV.Proofs.Sokoban.
Lemma src_step_physical T dense s a : M.Physical GRID_SIZE (conv s) -> 0 <= a < 4 ->
  M.Physical GRID_SIZE (conv (fst (step T (reward_src dense) s a))).
Proof. intros P Ha. destruct (step_src T dense s a) as [E _]. rewrite E. exact (step_Physical GRID_SIZE T dense (conv s) a P Ha). Qed.
Lemma src_boxes_conserved T dense s a : M.Physical GRID_SIZE (conv s) -> 0 <= a < 4 ->
  M.gcount GRID_SIZE (s_variable_grid (fst (step T (reward_src dense) s a))) M.BOX = M.gcount GRID_SIZE (s_variable_grid s) M.BOX.
Proof.
  intros P Ha. destruct (step_src T dense s a) as [E _].
  change (s_variable_grid (fst (step T (reward_src dense) s a))) with (M.var (conv (fst (step T (reward_src dense) s a)))).
  rewrite E. exact (step_boxes GRID_SIZE T dense (conv s) a P Ha).
Qed.
Lemma src_illegal_ignored T dense s a : M.Physical GRID_SIZE (conv s) -> 0 <= a < 4 -> M.legal_b GRID_SIZE (conv s) a = false ->
  let s' := fst (step T (reward_src dense) s a) in
  s_fixed_grid s' = s_fixed_grid s /\ s_variable_grid s' = s_variable_grid s /\ s_agent_location s' = s_agent_location s
  /\ s_step_count s' = s_step_count s + 1.
Proof.
  intros P Ha L. cbv zeta. destruct (step_src T dense s a) as [E _].
  pose proof (illegal_ignored GRID_SIZE T dense (conv s) a P Ha L) as H. cbv zeta in H. rewrite <- E in H.
  destruct H as (H1 & H2 & H3 & H4 & H5 & _). cbn [conv M.fixed M.var M.ar M.ac M.sc] in *.
  repeat split; try assumption. destruct (s_agent_location (fst (step T (reward_src dense) s a))), (s_agent_location s). cbn [fst snd] in *. congruence.
Qed.

(* C03 on the translated step: never FIRST, MID with discount 1 or LAST with discount 0 (no truncation) -- any state, any action *)
Lemma src_step_protocol T dense s a : step_ok 1 false (snd (step T (reward_src dense) s a)) = true.
Proof. destruct (step_src T dense s a) as [_ E]. rewrite E. apply step_protocol. Qed.

(* C11 on the translated step: LAST exactly when all boxes are on targets or the limit is reached; whole runs of the translated step *)
Fixpoint run_src (T : Z) (dense : bool) (s : State) (acts : list Z) : State :=
  match acts with [] => s | a :: r => run_src T dense (fst (step T (reward_src dense) s a)) r end.
Lemma run_src_eq T dense acts : forall s, conv (run_src T dense s acts) = M.run GRID_SIZE T dense (conv s) acts.
Proof.
  induction acts as [|a r IH]; intros s; cbn [run_src M.run]; [reflexivity|].
  rewrite IH. destruct (step_src T dense s a) as [E1 _]. rewrite E1. reflexivity.
Qed.
Lemma src_last_iff T dense s a :
  let s' := conv (fst (step T (reward_src dense) s a)) in
  st (snd (step T (reward_src dense) s a)) = LAST <-> (cnt_of s' = M.N_BOXES \/ T <= M.sc s').
Proof. cbv zeta. destruct (step_src T dense s a) as [E1 E2]. rewrite E1, E2. exact (step_last_iff GRID_SIZE T dense (conv s) a). Qed.
Lemma src_episode_limit T dense s0 acts a : s_step_count s0 = 0 ->
  let s := run_src T dense s0 acts in
  let n := zlen acts in
  let t := snd (step T (reward_src dense) s a) in
  (n + 1 = T -> st t = LAST) /\
  (n + 1 < T -> st t = LAST -> cnt_of (conv (fst (step T (reward_src dense) s a))) = M.N_BOXES) /\
  (T <= n + 1 -> st t = LAST).
Proof.
  intros H0. cbv zeta. destruct (step_src T dense (run_src T dense s0 acts) a) as [E1 E2]. rewrite E1, E2, run_src_eq.
  exact (episode_limit GRID_SIZE T dense (conv s0) acts a H0).
Qed.
(* C05: an illegal move (into a wall, or pushing a box that cannot move) is ignored -- only the step counter advances *)
Lemma src_illegal_ignored_full T dense s a :
  M.Physical GRID_SIZE (conv s) -> 0 <= a < 4 -> M.legal_b GRID_SIZE (conv s) a = false ->
  let s' := conv (fst (step T (reward_src dense) s a)) in
  let t := snd (step T (reward_src dense) s a) in
  let cnt := M.on_target GRID_SIZE (M.var (conv s)) (M.fixed (conv s)) in
  M.fixed s' = M.fixed (conv s) /\ M.var s' = M.var (conv s) /\ M.ar s' = M.ar (conv s) /\ M.ac s' = M.ac (conv s) /\ M.sc s' = M.sc (conv s) + 1
  /\ reward t = [if dense then 100 * b2z (cnt =? M.N_BOXES) - 1 else 100 * b2z (cnt =? M.N_BOXES)]
  /\ (st t = LAST <-> (cnt = M.N_BOXES \/ T <= M.sc (conv s) + 1)) /\ (st t = MID \/ st t = LAST).
Proof.
  intros P Ha Hl. cbv zeta. destruct (step_src T dense s a) as [E1 E2]. rewrite E1, E2.
  exact (illegal_ignored GRID_SIZE T dense (conv s) a P Ha Hl).
Qed.
(* C08: the dense and the sparse reward function drive the SAME trajectory of the translated step *)
Lemma src_same_trajectory T acts s : conv (run_src T true s acts) = conv (run_src T false s acts).
Proof. rewrite !run_src_eq. exact (run_dense GRID_SIZE T acts (conv s)). Qed.
