(* Sokoban, part 4: ToyGenerator's level2 can never be solved: its box at (2,1) stands against the left wall in a
   column (column 1, rows 1..6, walls above and below) that holds no target; it can only be pushed up and down.   *)
Require Import JV.Base.Prelude JV.Base.JaxIndex JV.Base.Codec JV.Base.TimeStep JV.Model.Sokoban JV.Proofs.Sokoban_Grid JV.Proofs.Sokoban JV.Proofs.Sokoban_Levels.

Definition fx2 := fixed (fst (gen_toy 1)).

Lemma fx2_facts :
  forallb (fun r => gat 0 fx2 r 0 =? WALL) (zrange 10) = true /\ gat 0 fx2 0 1 = WALL /\ gat 0 fx2 7 1 = WALL
  /\ forallb (fun r => negb (gat 0 fx2 r 1 =? TARGET)) (zrange 10) = true.
Proof. vm_compute. repeat split; reflexivity. Qed.

Definition DeadBox (s : state) : Prop :=
  Physical 10 s /\ fixed s = fx2 /\ gcount 10 (var s) BOX = 4 /\ exists r, 1 <= r <= 6 /\ gat 0 (var s) r 1 = BOX.

Lemma DeadBox_init : DeadBox (fst (gen_toy 1)).
Proof.
  split; [apply Physical_b_spec; vm_compute; reflexivity|]. split; [reflexivity|]. split; [vm_compute; reflexivity|].
  exists 2. split; [lia|vm_compute; reflexivity].
Qed.

Lemma DeadBox_step T dense s a : DeadBox s -> 0 <= a < 4 -> DeadBox (fst (step 10 T dense s a)).
Proof.
  intros (P & Fx & Nb & r & Hr & Bx0) Ha.
  split; [apply step_Physical; auto|]. split; [rewrite step_fixed; auto|]. split; [rewrite step_boxes; auto|].
  destruct (legal_b 10 s a) eqn:L.
  2: { destruct (illegal_ignored 10 T dense s a P Ha L) as (_ & V & _). cbv zeta in V. rewrite V. exists r; auto. }
  destruct (legal_move 10 T dense s a P Ha L) as (_ & _ & _ & _ & Cell). cbv zeta in Cell.
  destruct (legal_ranges 10 s a L) as (R1 & C1 & W1 & Bx).
  destruct (Physical_one_agent 10 s P) as [_ Cur].
  destruct fx2_facts as (F1 & F2 & F3 & _). rewrite forallb_forall in F1.
  assert (Wall0 : forall x, 0 <= x < 10 -> gat 0 (fixed s) x 0 = WALL).
  { intros x Hx. rewrite Fx. specialize (F1 x (proj2 (in_zrange x 10) Hx)). lia. }
  destruct P as (Wf & Wv & HAr & HAc & Cells & SC).
  assert (NC0 : ac s <> 0).
  { intro E. destruct (Cells (ar s) (ac s) HAr HAc) as (_ & _ & _ & NW). apply NW.
    - rewrite Cur. unfold AGENT, EMPTY. lia.
    - rewrite E. apply Wall0; auto. }
  clear Cells F1.
  destruct ((r =? ar s + dr a) && (1 =? ac s + dc a)) eqn:E1.
  - apply pt_eq in E1. destruct E1 as [Er Ec].
    assert (B1 : gat 0 (var s) (ar s + dr a) (ac s + dc a) = BOX) by (rewrite <- Er, <- Ec; exact Bx0).
    destruct (Bx B1) as (R2 & C2 & W2 & B2).
    pose proof (dr_dc_unit a Ha) as U.
    assert (D0 : dc a = 0).
    { destruct U as [[Ua Ub]|[[Ua Ub]|[[Ua Ub]|[Ua Ub]]]]; auto.
      - exfalso. apply NC0. lia.
      - exfalso. apply W2. replace (ac s + dc a + dc a) with 0 by lia. apply Wall0. lia. }
    assert (D1 : dr a = -1 \/ dr a = 1) by lia.
    replace (ar s + dr a + dr a) with (r + dr a) in * by lia.
    replace (ac s + dc a + dc a) with 1 in * by lia.
    rewrite Fx in W2.
    exists (r + dr a). split.
    + assert (r + dr a <> 0) by (intro E; rewrite E in W2; apply W2; exact F2).
      assert (r + dr a <> 7) by (intro E; rewrite E in W2; apply W2; exact F3). lia.
    + rewrite Cell by lia. rewrite B1. change (BOX =? BOX) with true. cbn [andb].
      replace ((r + dr a =? r + dr a) && (1 =? 1)) with true by lia. reflexivity.
  - exists r. split; [exact Hr|]. rewrite Cell by lia.
    destruct ((gat 0 (var s) (ar s + dr a) (ac s + dc a) =? BOX) && ((r =? ar s + dr a + dr a) && (1 =? ac s + dc a + dc a))); [reflexivity|].
    rewrite E1.
    destruct ((r =? ar s) && (1 =? ac s)) eqn:E0; [|exact Bx0].
    apply pt_eq in E0. destruct E0 as [E0 E0']. rewrite E0, E0' in Bx0. rewrite Cur in Bx0. discriminate.
Qed.

Lemma DeadBox_unsolved s : DeadBox s -> cnt_of s < N_BOXES.
Proof.
  intros (P & Fx & Nb & r & Hr & B). destruct P as (Wf & Wv & _). unfold cnt_of.
  rewrite (count_targets_on_target 10) by auto.
  set (f := fun x y => b2z ((gat 0 (var s) x y =? BOX) && negb (gat 0 (fixed s) x y =? TARGET))).
  assert (S : on_target 10 (var s) (fixed s) + gsum 10 f = gcount 10 (var s) BOX).
  { unfold on_target, gcount. rewrite <- gsum_add. apply gsum_ext. intros x y _ _. unfold f.
    destruct (gat 0 (var s) x y =? BOX), (gat 0 (fixed s) x y =? TARGET); reflexivity. }
  assert (G1 : f r 1 <= gsum 10 f).
  { apply gsum_ge_point; try lia. intros x y _ _. unfold f, b2z. ifs; lia. }
  assert (V : f r 1 = 1).
  { unfold f. rewrite B, Fx. destruct fx2_facts as (_ & _ & _ & F4). rewrite forallb_forall in F4.
    specialize (F4 r (proj2 (in_zrange r 10) ltac:(lia))). rewrite F4. reflexivity. }
  unfold N_BOXES. lia.
Qed.

Lemma run_DeadBox T dense acts : forall s, DeadBox s -> Forall (fun a => 0 <= a < 4) acts -> DeadBox (run 10 T dense s acts).
Proof.
  induction acts as [|a r IH]; intros s D F; cbn [run]; auto.
  inversion F; subst. apply IH; auto using DeadBox_step.
Qed.

(* whatever in-spec actions are played on level2, the level is never solved, and the episode ends exactly at the limit *)
Theorem toy_level2_never_solved T dense acts a :
  Forall (fun a => 0 <= a < 4) acts -> 0 <= a < 4 ->
  let s := run 10 T dense (fst (gen_toy 1)) acts in
  cnt_of s < N_BOXES
  /\ (st (snd (step 10 T dense s a)) = LAST <-> T <= zlen acts + 1).
Proof.
  intros F Ha. cbv zeta.
  pose proof (run_DeadBox T dense acts _ DeadBox_init F) as D.
  split; [apply DeadBox_unsolved; exact D|].
  pose proof (DeadBox_unsolved _ (DeadBox_step T dense _ a D Ha)) as U.
  pose proof (step_last_iff 10 T dense (run 10 T dense (fst (gen_toy 1)) acts) a) as H. cbv zeta in H.
  rewrite step_sc, run_sc in H. change (sc (fst (gen_toy 1))) with 0 in H. rewrite H. lia.
Qed.
