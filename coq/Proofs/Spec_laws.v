(* Laws of the spec algebra (C16, and the membership half of C15/C01). *)
Require Import JV.Base.Prelude JV.Base.JaxIndex JV.Base.Tree JV.Base.Spec JV.Proofs.Tree_laws.

(* induction principle for the nested inductive *)
Section SpecInd.
  Variable P : spec -> Prop.
  Hypothesis HA : forall s d n, P (SArray s d n).
  Hypothesis HB : forall s d l h n, P (SBounded s d l h n).
  Hypothesis HD : forall k d n, P (SDiscrete k d n).
  Hypothesis HM : forall s v d n, P (SMulti s v d n).
  Hypothesis HN : forall n fs, Forall (fun p => P (snd p)) fs -> P (SNested n fs).
  Fixpoint spec_ind2 (sp : spec) : P sp :=
    match sp with
    | SArray s d n => HA s d n
    | SBounded s d l h n => HB s d l h n
    | SDiscrete k d n => HD k d n
    | SMulti s v d n => HM s v d n
    | SNested n fs =>
        HN n fs ((fix go (fs : list (name * spec)) : Forall (fun p => P (snd p)) fs :=
                    match fs with
                    | [] => Forall_nil _
                    | p :: r => Forall_cons p (spec_ind2 (snd p)) (go r)
                    end) fs)
    end.
End SpecInd.

Lemma name_eqb_eq a b : name_eqb a b = true <-> a = b.
Proof. apply list_eqb_eq. intros; apply Z.eqb_eq. Qed.
Lemma name_eqb_refl a : name_eqb a a = true.
Proof. apply name_eqb_eq; auto. Qed.
Lemma name_eqb_sym a b : name_eqb a b = name_eqb b a.
Proof. apply (list_eqb_sym Z.eqb Z.eqb_sym). Qed.
Lemma shape_eqb_sym a b : shape_eqb a b = shape_eqb b a.
Proof. apply (list_eqb_sym Z.eqb Z.eqb_sym). Qed.

(* ---------- generate_value is valid ---------- *)
Lemma in_bounds_self l h :
  length l = length h ->
  forallb (fun p => negb (xnum_ltb (snd p) (fst p))) (combine l h) = true ->
  in_bounds l l h = true.
Proof.
  revert h; induction l as [|x l IH]; intros [|y h] L F; cbn in *; auto; try lia.
  apply andb_true_iff in F as [F1 F2].
  rewrite IH by (auto; lia). rewrite F1.
  destruct x; cbn; [rewrite Z.ltb_irrefl|]; reflexivity.
Qed.

Lemma in_bounds_zero nvec :
  forallb (fun n => 0 <? n) nvec = true ->
  in_bounds (map (fun _ => Fin 0) nvec) (map (fun _ => Fin 0) nvec) (map (fun n => Fin (n - 1)) nvec) = true.
Proof.
  induction nvec as [|n r IH]; cbn; auto. intro H. apply andb_true_iff in H as [H1 H2].
  rewrite IH by auto. replace (n - 1 <? 0) with false by lia. reflexivity.
Qed.

Lemma gen_valid_leaf sp :
  (forall n fs, sp <> SNested n fs) -> wf_spec sp = true ->
  exists t, generate_leaf sp = Some t /\ validate_leaf sp t = true.
Proof.
  intros Hn W. destruct sp as [s d n|s d l h n|k d n|s v d n|n fs]; cbn in *.
  - eexists; split; eauto. unfold validate_array, zeros; cbn. rewrite shape_eqb_refl, Z.eqb_refl. auto.
  - apply andb_true_iff in W as [_ W]. unfold bounds_ok in W. unfold full.
    destruct (bcast_bound l s) as [lo|] eqn:EL; [|congruence].
    destruct (bcast_bound h s) as [hi|] eqn:EH; [|congruence].
    apply andb_true_iff in W as [W L2]. apply andb_true_iff in W as [W L1].
    apply Nat.eqb_eq in L1, L2.
    eexists; split; eauto. unfold validate_bounded, validate_array; cbn.
    rewrite shape_eqb_refl, Z.eqb_refl, EL, EH. cbn. apply in_bounds_self; auto. lia.
  - eexists; split; eauto. unfold validate_array; cbn. rewrite Z.eqb_refl. cbn.
    replace (k - 1 <? 0) with false by lia. reflexivity.
  - eexists; split; eauto. unfold validate_array; cbn. rewrite shape_eqb_refl, Z.eqb_refl. cbn.
    apply andb_true_iff in W as [W _]. apply andb_true_iff in W as [_ W]. apply in_bounds_zero; auto.
  - exfalso. eapply Hn; eauto.
Qed.

Theorem gen_valid sp : wf_spec sp = true -> exists v, generate_value sp = Some v /\ validate sp v = true.
Proof.
  induction sp as [s d n|s d l h n|k d n|s v d n|n fs IH] using spec_ind2; intro W.
  1-4: (edestruct gen_valid_leaf as (t & G & V); [| exact W |]; [intros ? ? ?; congruence|];
        exists (VLeaf t); cbn [generate_value]; rewrite G; split; [reflexivity|exact V]).
  cbn [generate_value validate wf_spec] in *.
  assert (H : exists vs, fields_gen (fun s => generate_value s) fs = Some vs
                         /\ fields_validate (fun s x => validate s x) fs vs = true).
  { induction fs as [|[k s] r IHr]; [exists []; split; reflexivity|].
    inversion IH as [|? ? Hs Hr]; subst. cbn [fields_all fst snd] in W. apply andb_true_iff in W as [W1 W2].
    destruct (Hs W1) as (x & Gx & Vx). destruct (IHr Hr W2) as (vr & Gr & Vr). cbn [snd] in *.
    exists ((k, x) :: vr). cbn [fields_gen fields_validate fst snd]. rewrite Gx, Gr, name_eqb_refl, Vx, Vr. auto. }
  destruct H as (vs & G & V). exists (VNode vs). rewrite G. split; auto.
Qed.

(* ---------- validate is exact: the declarative reading ---------- *)
Definition within (v lo hi : list xnum) : Prop :=
  (length v <= length lo)%nat /\ (length v <= length hi)%nat /\
  forall i, (i < length v)%nat ->
    xnum_ltb (nth i v NaN) (nth i lo NaN) = false /\ xnum_ltb (nth i hi NaN) (nth i v NaN) = false.

Lemma in_bounds_spec v lo hi : in_bounds v lo hi = true <-> within v lo hi.
Proof.
  unfold within. revert lo hi; induction v as [|x v IH]; intros lo hi; cbn [in_bounds length].
  - split; auto. intros _. repeat split; try lia.
  - destruct lo as [|l lo]; [split; [congruence|cbn; lia]|].
    destruct hi as [|h hi]; [split; [congruence|cbn; lia]|].
    rewrite !andb_true_iff, !negb_true_iff, IH. cbn [length]. split.
    + intros [[A B] (L1 & L2 & N)]. repeat split; try lia; destruct i; cbn; auto; apply N; lia.
    + intros (L1 & L2 & N). pose proof (N 0%nat ltac:(lia)) as [A B]. cbn in A, B.
      repeat split; auto; try lia; apply (N (S i)); lia.
Qed.

Definition member_leaf (sp : spec) (t : tensor) : Prop :=
  match sp with
  | SArray sh dt _ => t_shape t = sh /\ t_dt t = dt
  | SBounded sh dt lo hi _ =>
      t_shape t = sh /\ t_dt t = dt /\
      exists l h, bcast_bound lo sh = Some l /\ bcast_bound hi sh = Some h /\ within (t_data t) l h
  | SDiscrete n dt _ => t_shape t = [] /\ t_dt t = dt /\ within (t_data t) [Fin 0] [Fin (n - 1)]
  | SMulti nsh nvec dt _ =>
      t_shape t = nsh /\ t_dt t = dt /\
      within (t_data t) (map (fun _ => Fin 0) nvec) (map (fun n => Fin (n - 1)) nvec)
  | SNested _ _ => False
  end.

Theorem validate_leaf_exact sp t : validate_leaf sp t = true <-> member_leaf sp t.
Proof.
  destruct sp as [s d n|s d l h n|k d n|s v d n|n fs]; cbn [validate_leaf member_leaf];
    unfold validate_bounded, validate_array; rewrite ?andb_true_iff, ?shape_eqb_eq, ?Z.eqb_eq, ?in_bounds_spec.
  - tauto.
  - destruct (bcast_bound l s) as [lo|]; destruct (bcast_bound h s) as [hi|]; rewrite ?in_bounds_spec; split.
    + intros [[A B] C]. repeat split; auto. eauto.
    + intros (A & B & l' & h' & E1 & E2 & W). inversion E1; inversion E2; subst. tauto.
    + intros [_ C]; congruence. + intros (_ & _ & l' & h' & E1 & E2 & _); congruence.
    + intros [_ C]; congruence. + intros (_ & _ & l' & h' & E1 & E2 & _); congruence.
    + intros [_ C]; congruence. + intros (_ & _ & l' & h' & E1 & E2 & _); congruence.
  - tauto.
  - tauto.
  - split; [congruence|tauto].
Qed.

(* ---------- equality ---------- *)
Definition bound_clean (sh : list Z) (b : bound) : Prop :=
  exists l, bcast_bound b sh = Some l /\ Forall (fun x => x <> NaN) l.

Lemma xlist_eqb_refl l : Forall (fun x => x <> NaN) l -> list_eqb xnum_eqb l l = true.
Proof. induction 1; cbn; auto. rewrite xnum_eqb_refl; auto. Qed.

Lemma xnum_eqb_trans a b c : xnum_eqb a b = true -> xnum_eqb b c = true -> xnum_eqb a c = true.
Proof. destruct a, b, c; cbn; try congruence. rewrite !Z.eqb_eq. congruence. Qed.

Lemma list_eqb_trans {A} (eqb : A -> A -> bool) :
  (forall a b c, eqb a b = true -> eqb b c = true -> eqb a c = true) ->
  forall a b c, list_eqb eqb a b = true -> list_eqb eqb b c = true -> list_eqb eqb a c = true.
Proof.
  intros H a; induction a as [|x a IH]; intros [|y b] [|z c]; cbn; auto; try congruence.
  rewrite !andb_true_iff. intros [A1 A2] [B1 B2]. split; eauto.
Qed.

(* clean = constructor-accepted spec whose bounds contain no NaN (NaN bounds make == irreflexive) *)
Fixpoint clean (sp : spec) : Prop :=
  match sp with
  | SBounded sh _ lo hi _ => bound_clean sh lo /\ bound_clean sh hi
  | SNested _ fs => (fix go (fs : list (name * spec)) : Prop :=
                       match fs with [] => True | p :: r => clean (snd p) /\ go r end) fs
  | _ => True
  end.

Lemma zlist_eqb_refl l : list_eqb Z.eqb l l = true.
Proof. apply list_eqb_eq; [intros; apply Z.eqb_eq|auto]. Qed.

Theorem spec_eqb_refl sp : clean sp -> spec_eqb sp sp = Some true.
Proof.
  induction sp as [s d n|s d l h n|k d n|s v d n|n fs IH] using spec_ind2; cbn [spec_eqb clean]; intro C.
  - rewrite shape_eqb_refl, Z.eqb_refl, name_eqb_refl. reflexivity.
  - destruct C as [(lo & E1 & F1) (hi & E2 & F2)].
    rewrite shape_eqb_refl, Z.eqb_refl. cbn. unfold bound_eq. rewrite E1, E2.
    rewrite !xlist_eqb_refl by auto. cbn. rewrite name_eqb_refl. reflexivity.
  - rewrite !Z.eqb_refl, name_eqb_refl. reflexivity.
  - rewrite shape_eqb_refl, zlist_eqb_refl, Z.eqb_refl, name_eqb_refl. reflexivity.
  - induction fs as [|[k s] r IHr]; [reflexivity|].
    inversion IH as [|? ? Hs Hr]; subst. destruct C as [C1 C2]. cbn [fst snd fields_eqb] in *.
    rewrite name_eqb_refl, (Hs C1), (IHr Hr C2). reflexivity.
Qed.

Lemma bound_eq_sym sh a b : bound_eq sh a b = bound_eq sh b a.
Proof.
  unfold bound_eq. destruct (bcast_bound a sh), (bcast_bound b sh); auto.
  rewrite (list_eqb_sym xnum_eqb xnum_eqb_sym). reflexivity.
Qed.

(* symmetry among specs of one shape (BoundedArray broadcasts its bounds against its own shape) *)
Theorem spec_eqb_sym a b : spec_eqb a b = Some true -> spec_eqb b a = Some true.
Proof.
  revert b. induction a as [s d n|s d l h n|k d n|s v d n|n fs IH] using spec_ind2;
    intros [s' d' n'|s' d' l' h' n'|k' d' n'|s' v' d' n'|n' fs']; cbn [spec_eqb]; try congruence.
  - rewrite (shape_eqb_sym s' s), (Z.eqb_sym d' d), (name_eqb_sym n' n). auto.
  - destruct (shape_eqb s s') eqn:ES; cbn [andb andb_opt]; [|congruence].
    apply shape_eqb_eq in ES; subst s'. rewrite shape_eqb_refl. cbn [andb].
    rewrite (Z.eqb_sym d'). destruct (d =? d'); cbn [andb_opt]; [|congruence].
    rewrite (bound_eq_sym s l' l), (bound_eq_sym s h' h), (name_eqb_sym n' n). auto.
  - rewrite (Z.eqb_sym k' k), (Z.eqb_sym d' d), (name_eqb_sym n' n). auto.
  - rewrite (shape_eqb_sym s' s), (list_eqb_sym Z.eqb Z.eqb_sym v' v), (Z.eqb_sym d' d), (name_eqb_sym n' n). auto.
  - revert fs'. induction fs as [|[k s] r IHr]; intros [|[k' s'] r']; cbn [fields_eqb fst snd]; try congruence; auto.
    inversion IH as [|? ? Hs Hr]; subst. cbn [snd] in *.
    rewrite (name_eqb_sym k' k). destruct (name_eqb k k'); [|congruence].
    destruct (spec_eqb s s') as [[|]|] eqn:E1; try congruence;
    destruct (fields_eqb (fun s1 s2 => spec_eqb s1 s2) r r') as [[|]|] eqn:E2; cbn; try congruence.
    intros _. rewrite (Hs _ E1). rewrite (IHr Hr r' E2). reflexivity.
Qed.

(* what equality discriminates (leaf kinds) *)
Theorem spec_eqb_discriminates_array s d n s' d' n' :
  spec_eqb (SArray s d n) (SArray s' d' n') = Some true <-> s = s' /\ d = d' /\ n = n'.
Proof. cbn. split; [intro H; inversion H as [H1]|intros (->&->&->)].
  - rewrite !andb_true_iff, shape_eqb_eq, Z.eqb_eq, name_eqb_eq in H1. tauto.
  - rewrite shape_eqb_refl, Z.eqb_refl, name_eqb_refl. auto. Qed.

Theorem spec_eqb_discriminates_discrete k d n k' d' n' :
  spec_eqb (SDiscrete k d n) (SDiscrete k' d' n') = Some true <-> k = k' /\ d = d' /\ n = n'.
Proof. cbn. split; [intro H; inversion H as [H1]|intros (->&->&->)].
  - rewrite !andb_true_iff, !Z.eqb_eq, name_eqb_eq in H1. tauto.
  - rewrite !Z.eqb_refl, name_eqb_refl. auto. Qed.

Theorem spec_eqb_discriminates_multi s v d n s' v' d' n' :
  spec_eqb (SMulti s v d n) (SMulti s' v' d' n') = Some true <-> s = s' /\ v = v' /\ d = d' /\ n = n'.
Proof. cbn. split; [intro H; inversion H as [H1]|intros (->&->&->&->)].
  - rewrite !andb_true_iff, shape_eqb_eq, Z.eqb_eq, name_eqb_eq in H1.
    destruct H1 as [[[A B] C] D]. apply (list_eqb_eq Z.eqb Z.eqb_eq) in B. tauto.
  - rewrite shape_eqb_refl, zlist_eqb_refl, Z.eqb_refl, name_eqb_refl. auto. Qed.

Theorem spec_eqb_discriminates_bounded s d l h n s' d' l' h' n' :
  spec_eqb (SBounded s d l h n) (SBounded s' d' l' h' n') = Some true ->
  s = s' /\ d = d' /\ n = n' /\ bound_eq s l l' = Some true /\ bound_eq s h h' = Some true.
Proof.
  cbn. destruct (shape_eqb s s') eqn:ES; cbn; [|congruence]. apply shape_eqb_eq in ES.
  destruct (d =? d') eqn:ED; cbn; [|congruence]. apply Z.eqb_eq in ED.
  destruct (bound_eq s l l') as [[|]|]; cbn; try congruence.
  destruct (bound_eq s h h') as [[|]|]; cbn; try congruence.
  intro H; inversion H as [H1]. apply name_eqb_eq in H1. tauto.
Qed.

Theorem spec_eqb_trans_leaf a b c :
  (forall n fs, a <> SNested n fs) ->
  spec_eqb a b = Some true -> spec_eqb b c = Some true -> spec_eqb a c = Some true.
Proof.
  intro Hn.
  destruct a as [s d n|s d l h n|k d n|s v d n|n fs]; [| | | |exfalso; eapply Hn; eauto];
  destruct b as [s1 d1 n1|s1 d1 l1 h1 n1|k1 d1 n1|s1 v1 d1 n1|n1 fs1]; try (cbn; congruence);
  destruct c as [s2 d2 n2|s2 d2 l2 h2 n2|k2 d2 n2|s2 v2 d2 n2|n2 fs2]; try (cbn; congruence).
  - rewrite !spec_eqb_discriminates_array. intuition congruence.
  - intros H1 H2. apply spec_eqb_discriminates_bounded in H1 as (-> & -> & -> & L1 & H1).
    apply spec_eqb_discriminates_bounded in H2 as (-> & -> & -> & L2 & H2).
    cbn. rewrite shape_eqb_refl, Z.eqb_refl. cbn. unfold bound_eq in *.
    destruct (bcast_bound l s2), (bcast_bound l1 s2), (bcast_bound l2 s2); try congruence.
    destruct (bcast_bound h s2), (bcast_bound h1 s2), (bcast_bound h2 s2); try congruence.
    injection L1 as L1; injection L2 as L2; injection H1 as H1; injection H2 as H2.
    rewrite (list_eqb_trans xnum_eqb xnum_eqb_trans _ _ _ L1 L2).
    rewrite (list_eqb_trans xnum_eqb xnum_eqb_trans _ _ _ H1 H2). cbn.
    rewrite name_eqb_refl. reflexivity.
  - rewrite !spec_eqb_discriminates_discrete. intuition congruence.
  - rewrite !spec_eqb_discriminates_multi. intuition congruence.
Qed.

(* ---------- replace ---------- *)
Theorem replace_nil sp : clean sp -> exists sp', replace sp [] = Some sp' /\ spec_eqb sp' sp = Some true.
Proof. intro C. exists sp. split; [reflexivity|apply spec_eqb_refl; auto]. Qed.

Definition name_of (sp : spec) : name :=
  match sp with SArray _ _ n | SBounded _ _ _ _ n | SDiscrete _ _ n | SMulti _ _ _ n | SNested n _ => n end.
Definition dtype_of (sp : spec) : option Z :=
  match sp with SArray _ d _ | SBounded _ d _ _ _ | SDiscrete _ d _ | SMulti _ _ d _ => Some d | SNested _ _ => None end.
Definition shape_of (sp : spec) : option (list Z) :=
  match sp with SArray s _ _ | SBounded s _ _ _ _ | SMulti s _ _ _ => Some s | SDiscrete _ _ _ => Some [] | SNested _ _ => None end.
Definition bounds_of (sp : spec) : option (bound * bound) :=
  match sp with SBounded _ _ l h _ => Some (l, h) | _ => None end.

Theorem replace_name_only sp n' sp' :
  (forall n fs, sp <> SNested n fs) -> apply_kw sp (KName n') = Some sp' ->
  name_of sp' = n' /\ dtype_of sp' = dtype_of sp /\ shape_of sp' = shape_of sp /\ bounds_of sp' = bounds_of sp.
Proof. intros Hn H. destruct sp; cbn in H; inversion H; subst; cbn; auto. Qed.

Theorem replace_dtype_only sp d' sp' :
  apply_kw sp (KDtype d') = Some sp' ->
  name_of sp' = name_of sp /\ dtype_of sp' = Some d' /\ shape_of sp' = shape_of sp /\ bounds_of sp' = bounds_of sp.
Proof. intros H. destruct sp; cbn in H; inversion H; subst; cbn; auto. Qed.

Theorem replace_shape_only sp s' sp' :
  apply_kw sp (KShape s') = Some sp' ->
  name_of sp' = name_of sp /\ dtype_of sp' = dtype_of sp /\ shape_of sp' = Some s' /\ bounds_of sp' = bounds_of sp.
Proof. intros H. destruct sp; cbn in H; inversion H; subst; cbn; auto. Qed.

Theorem replace_min_only sp b' sp' :
  apply_kw sp (KMin b') = Some sp' ->
  name_of sp' = name_of sp /\ dtype_of sp' = dtype_of sp /\ shape_of sp' = shape_of sp /\
  exists l h, bounds_of sp = Some (l, h) /\ bounds_of sp' = Some (b', h).
Proof. intros H. destruct sp; cbn in H; inversion H; subst; cbn; eauto 8. Qed.

Theorem pickle_roundtrip sp : clean sp -> spec_eqb (unreduce (reduce sp)) sp = Some true.
Proof. apply spec_eqb_refl. Qed.

(* ---------- conversions ---------- *)
Definition no_nan_l (l : list xnum) : Prop := Forall (fun x => x <> NaN) l.

Lemma gym_in_bounds_of v lo hi :
  no_nan_l v -> no_nan_l lo -> no_nan_l hi -> in_bounds v lo hi = true -> gym_in_bounds v lo hi = true.
Proof.
  revert lo hi; induction v as [|x v IH]; intros [|l lo] [|h hi] Nv Nl Nh; cbn; auto; try congruence.
  inversion Nv; inversion Nl; inversion Nh; subst.
  rewrite !andb_true_iff, !negb_true_iff. intros [[A B] C]. rewrite IH by auto.
  destruct x as [x|], l as [l|], h as [h|]; try congruence. cbn in *.
  replace ((l <? x) || (l =? x)) with true by lia. replace ((x <? h) || (x =? h)) with true by lia. auto.
Qed.

Lemma in_bounds_of_gym v lo hi : gym_in_bounds v lo hi = true -> in_bounds v lo hi = true.
Proof.
  revert lo hi; induction v as [|x v IH]; intros [|l lo] [|h hi]; cbn; auto; try congruence.
  rewrite !andb_true_iff, !negb_true_iff. intros [[A B] C]. rewrite IH by auto.
  destruct x as [x|], l as [l|], h as [h|]; cbn in *; try congruence. split; [split|]; auto; lia.
Qed.

Lemma no_nan_map_fin (f : Z -> Z) l : no_nan_l (map (fun n => Fin (f n)) l).
Proof. induction l; constructor; auto; congruence. Qed.

(* every value valid for a (leaf) spec and free of NaN belongs to the converted gym space *)
Theorem valid_in_gym sp t :
  validate_leaf sp t = true -> no_nan_l (t_data t) ->
  (forall sh dt lo hi n, sp = SBounded sh dt lo hi n ->
     exists l h, bcast_bound lo sh = Some l /\ bcast_bound hi sh = Some h /\ no_nan_l l /\ no_nan_l h) ->
  gym_contains_leaf sp t = true.
Proof.
  intros V Nv HB. destruct sp as [s d n|s d l h n|k d n|s v d n|n fs]; cbn in *.
  - rewrite V. cbn. apply forallb_forall. intros x Hx. unfold no_nan_l in Nv. rewrite Forall_forall in Nv.
    specialize (Nv x Hx). destruct x; cbn; congruence.
  - destruct (HB _ _ _ _ _ eq_refl) as (lo & hi & E1 & E2 & N1 & N2).
    unfold validate_bounded in V. rewrite E1, E2 in *. apply andb_true_iff in V as [V1 V2].
    rewrite V1. cbn. apply gym_in_bounds_of; auto.
  - apply andb_true_iff in V as [V1 V2]. unfold validate_array in V1. apply andb_true_iff in V1 as [V1 _].
    rewrite V1. cbn [andb]. apply gym_in_bounds_of; auto; repeat constructor; congruence.
  - apply andb_true_iff in V as [V1 V2]. unfold validate_array in V1. apply andb_true_iff in V1 as [V1 _].
    rewrite V1. cbn [andb]. apply gym_in_bounds_of; auto.
    + apply (no_nan_map_fin (fun _ => 0)). + apply (no_nan_map_fin (fun n => n - 1)).
  - congruence.
Qed.

Theorem valid_in_dm sp t : validate_leaf sp t = true -> dm_validate_leaf sp t = true.
Proof. auto. Qed.

(* a member of the converted gym space, once it has the spec's dtype, is valid for the original spec *)
Theorem gym_sample_valid sp t :
  gym_contains_leaf sp t = true -> dtype_of sp = Some (t_dt t) -> validate_leaf sp t = true.
Proof.
  intros G D. destruct sp as [s d n|s d l h n|k d n|s v d n|n fs]; cbn in *; inversion D; subst.
  - apply andb_true_iff in G as [G _]; auto.
  - unfold validate_bounded. apply andb_true_iff in G as [G1 G2]. rewrite G1. cbn.
    destruct (bcast_bound l s), (bcast_bound h s); try congruence. apply in_bounds_of_gym; auto.
  - apply andb_true_iff in G as [G1 G2]. unfold validate_array. rewrite G1, Z.eqb_refl. cbn.
    apply in_bounds_of_gym; auto.
  - apply andb_true_iff in G as [G1 G2]. unfold validate_array. rewrite G1, Z.eqb_refl. cbn.
    apply in_bounds_of_gym; auto.
Qed.
