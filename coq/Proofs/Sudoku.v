(* Sudoku (9x9, the only size the code supports): the mask computed by get_action_mask (one-hot / BOX_IDX gather /
   scatter) is exactly the table of legal placements (C04); is_puzzle_solved (sorting) is "full and conflict-free";
   an illegal action ends the episode with reward 0 (C05); mask-respecting play keeps the grid conflict-free and a
   complete grid is a solved one (C06); the step is the published rule (C09); well-formed database entries give
   conflict-free reset states (C10); an episode lasts at most 81 - givens steps (C11); emitted boards stay in the
   declared range (C01) and the protocol is MID/LAST with the right discounts (C03).                              *)
Require Import JV.Base.Prelude JV.Base.JaxIndex JV.Base.Codec JV.Base.TimeStep JV.Model.Sudoku.
From Coq Require Import Permutation Sorted Btauto.

(* ---------- generic list facts ---------- *)
Lemma znth_nth {A} (d : A) l i : 0 <= i -> znth d l i = nth (Z.to_nat i) l d.
Proof. intro H. unfold znth. destruct (i <? 0) eqn:E; [lia|reflexivity]. Qed.

Lemma zrange_length n : length (zrange n) = Z.to_nat n.
Proof. unfold zrange. apply zrange_from_length. Qed.

Lemma nth_map_zrange {A} (f : Z -> A) n i d : 0 <= i < n -> nth (Z.to_nat i) (map f (zrange n)) d = f i.
Proof.
  intro H. unfold zrange. rewrite nth_indep with (d' := f 0) by (rewrite map_length, zrange_from_length; lia).
  rewrite map_nth. rewrite zrange_from_nth by lia. f_equal. lia.
Qed.

Lemma znth_map_zrange {A} (f : Z -> A) n i d : 0 <= i < n -> znth d (map f (zrange n)) i = f i.
Proof. intro H. rewrite znth_nth by lia. apply nth_map_zrange; auto. Qed.

Lemma list_eq_map_zrange {A} (d : A) (l : list A) n :
  length l = Z.to_nat n -> l = map (fun i => znth d l i) (zrange n).
Proof.
  intro L. apply (nth_ext _ _ d d); [rewrite map_length, zrange_length; auto|].
  intros k Hk. rewrite <- (Nat2Z.id k) at 2. rewrite nth_map_zrange by lia.
  rewrite znth_nth by lia. rewrite Nat2Z.id. reflexivity.
Qed.

Lemma map2_map {A B C D} (f : B -> C -> D) (g : A -> B) (h : A -> C) l :
  map2 f (map g l) (map h l) = map (fun x => f (g x) (h x)) l.
Proof. induction l; cbn; congruence. Qed.

Lemma forallb_ext_in {A} (f g : A -> bool) l : (forall x, In x l -> f x = g x) -> forallb f l = forallb g l.
Proof.
  induction l as [|a l IH]; intro H; cbn; auto. rewrite H by (left; auto). rewrite IH; auto.
  intros; apply H; right; auto.
Qed.

Lemma forallb_flat_map {A B} (f : B -> bool) (g : A -> list B) l :
  forallb f (flat_map g l) = forallb (fun x => forallb f (g x)) l.
Proof. induction l; cbn; auto. rewrite forallb_app. congruence. Qed.

Lemma forallb_map {A B} (f : B -> bool) (g : A -> B) l : forallb f (map g l) = forallb (fun x => f (g x)) l.
Proof. induction l; cbn; congruence. Qed.

Lemma forallb_zrange (f : Z -> bool) n : forallb f (zrange n) = true <-> forall i, 0 <= i < n -> f i = true.
Proof. rewrite forallb_forall. split; intros H i Hi; apply H; apply in_zrange; auto. Qed.

(* ---------- scatter with distinct in-range indices ---------- *)
Lemma scatter_length {A} idxs : forall (base vals : list A), length (scatter base idxs vals) = length base.
Proof.
  induction idxs as [|i r IH]; intros base [|v vals]; cbn [scatter]; auto. rewrite IH, jset_length. auto.
Qed.

Lemma nth_jset_in {A} (l : list A) i v p d : 0 <= i < zlen l ->
  nth p (jset l i v) d = if Nat.eqb (Z.to_nat i) p then v else nth p l d.
Proof.
  intro H. rewrite jset_in_range by auto. destruct (Nat.eqb (Z.to_nat i) p) eqn:E.
  - apply Nat.eqb_eq in E. subst p. apply nth_upd_same. unfold zlen in H. lia.
  - apply Nat.eqb_neq in E. apply nth_upd_other. auto.
Qed.

Lemma scatter_notin {A} idxs : forall (base vals : list A) p d,
  Forall (fun i => 0 <= i < zlen base) idxs -> ~ In (Z.of_nat p) idxs ->
  nth p (scatter base idxs vals) d = nth p base d.
Proof.
  induction idxs as [|i r IH]; intros base [|v vals] p d HF HN; cbn [scatter]; auto.
  inversion HF as [|? ? Hi HF']; subst. rewrite IH.
  - rewrite nth_jset_in by auto. destruct (Nat.eqb (Z.to_nat i) p) eqn:E; auto.
    apply Nat.eqb_eq in E. exfalso. apply HN. left. lia.
  - unfold zlen. rewrite jset_length. exact HF'.
  - intro Hin. apply HN. right. auto.
Qed.

Lemma scatter_nth {A} idxs : forall (base vals : list A) q d,
  Forall (fun i => 0 <= i < zlen base) idxs -> NoDup idxs -> length vals = length idxs -> (q < length idxs)%nat ->
  nth (Z.to_nat (nth q idxs 0)) (scatter base idxs vals) d = nth q vals d.
Proof.
  induction idxs as [|i r IH]; intros base vals q d HF ND L Hq; [cbn in Hq; lia|].
  destruct vals as [|v vals]; [cbn in L; lia|]. cbn [scatter].
  inversion HF as [|? ? Hi HF']; subst. inversion ND as [|? ? Hni ND']; subst.
  assert (HF2 : Forall (fun i0 => 0 <= i0 < zlen (jset base i v)) r) by (unfold zlen; rewrite jset_length; exact HF').
  destruct q as [|q]; cbn [nth].
  - rewrite scatter_notin; auto.
    + rewrite nth_jset_in by auto. rewrite Nat.eqb_refl. auto.
    + rewrite Z2Nat.id by lia. auto.
  - cbn [length] in L, Hq. apply IH; auto; lia.
Qed.

Fixpoint nodupb (l : list Z) : bool :=
  match l with [] => true | x :: t => negb (existsb (Z.eqb x) t) && nodupb t end.
Lemma nodupb_NoDup l : nodupb l = true -> NoDup l.
Proof.
  induction l as [|x t IH]; cbn [nodupb]; intro H; [constructor|].
  apply andb_true_iff in H as [H1 H2]. constructor; auto. intro Hin.
  apply negb_true_iff in H1. assert (existsb (Z.eqb x) t = true) by (apply existsb_exists; exists x; split; auto; lia).
  congruence.
Qed.

(* ---------- boards as tables ---------- *)
Definition tab (g : Z -> Z -> Z) : list (list Z) := map (fun r => map (g r) (zrange W)) (zrange W).
Definition F (g : Z -> Z -> Z) (p : Z) : Z := g (p / 9) (p mod 9).
Definition in9 (g : Z -> Z -> Z) : Prop := forall r c, 0 <= r < 9 -> 0 <= c < 9 -> -1 <= g r c < 9.

Lemma cell_tab g r c : 0 <= r < 9 -> 0 <= c < 9 -> cell (tab g) r c = g r c.
Proof.
  intros Hr Hc. unfold cell, gat, tab, W. rewrite (znth_map_zrange _ 9 r) by lia.
  rewrite (znth_map_zrange _ 9 c) by lia. reflexivity.
Qed.

Lemma shape_tab b : shape_b b = true -> b = tab (cell b) /\ in9 (cell b).
Proof.
  unfold shape_b, W. intro H. apply andb_true_iff in H as [HL HR]. rewrite forallb_forall in HR.
  assert (Lb : length b = 9%nat) by (unfold zlen in HL; lia).
  assert (Hrow : forall r, 0 <= r < 9 -> length (znth [] b r) = 9%nat /\ forall c, 0 <= c < 9 -> -1 <= cell b r c < 9).
  { intros r Hr. assert (Hin : In (znth [] b r) b) by (rewrite znth_nth by lia; apply nth_In; lia).
    specialize (HR _ Hin). apply andb_true_iff in HR as [H1 H2]. split; [unfold zlen in H1; lia|].
    intros c Hc. unfold cell, gat. rewrite forallb_forall in H2.
    assert (Hin2 : In (znth (-1) (znth [] b r) c) (znth [] b r)).
    { rewrite (znth_nth (-1)) by lia. apply nth_In. unfold zlen in H1. lia. }
    specialize (H2 _ Hin2). lia. }
  split.
  - unfold tab, W. rewrite (list_eq_map_zrange [] b 9) at 1 by (rewrite Lb; reflexivity).
    apply map_ext_in. intros r Hr. apply in_zrange in Hr.
    rewrite (list_eq_map_zrange (-1) (znth [] b r) 9) at 1 by (rewrite (proj1 (Hrow r Hr)); reflexivity).
    reflexivity.
  - intros r c Hr Hc. apply Hrow; auto.
Qed.

Lemma shape_b_tab g : in9 g -> shape_b (tab g) = true.
Proof.
  intro H. unfold shape_b. apply andb_true_iff. split.
  - unfold tab, zlen, W. rewrite map_length, zrange_length. reflexivity.
  - unfold tab. rewrite forallb_map. apply forallb_zrange. intros r Hr. apply andb_true_iff. split.
    + unfold zlen, W. rewrite map_length, zrange_length. reflexivity.
    + rewrite forallb_map. apply forallb_zrange. intros c Hc. unfold W in *. specialize (H r c Hr Hc). lia.
Qed.

(* closed computations on the table form (g stays a free variable) *)
Lemma concat_tab g : concat (tab g) = map (F g) (zrange 81).
Proof. reflexivity. Qed.
Lemma transpose_tab g : transpose (tab g) = tab (fun c r => g r c).
Proof. reflexivity. Qed.
Lemma boxes_tab g : boxes_of (concat (tab g)) = map (map (F g)) box_idx.
Proof. reflexivity. Qed.

(* ---------- C04: get_action_mask is the table of legal placements ---------- *)
Definition boxnum (p : Z) : Z := 3 * ((p mod 9) / 3) + (p / 9) / 3.
Definition box_pos (p : Z) : Z := boxnum p * 9 + ((p / 9) mod 3) * 3 + (p mod 9) mod 3.
Definition boxof (p : Z) : list Z := nth (Z.to_nat (boxnum p)) box_idx [].

Lemma box_table p : 0 <= p < 81 ->
  znth 0 (concat box_idx) (box_pos p) = p /\ box_pos p / 9 = boxnum p /\ 0 <= box_pos p < 81.
Proof.
  assert (H : forallb (fun p => (znth 0 (concat box_idx) (box_pos p) =? p) && (box_pos p / 9 =? boxnum p)
                                && (0 <=? box_pos p) && (box_pos p <? 81)) (zrange 81) = true) by (vm_compute; reflexivity).
  intro Hp. rewrite forallb_zrange in H. specialize (H p Hp).
  repeat (apply andb_true_iff in H as [H ?]). repeat split; lia.
Qed.

Lemma box_idx_nodup : NoDup (concat box_idx).
Proof. apply nodupb_NoDup. vm_compute. reflexivity. Qed.

Lemma box_idx_range : Forall (fun i => 0 <= i < 81) (concat box_idx).
Proof.
  apply Forall_forall. intros x Hx.
  assert (H : forallb (fun i => (0 <=? i) && (i <? 81)) (concat box_idx) = true) by (vm_compute; reflexivity).
  rewrite forallb_forall in H. specialize (H x Hx). lia.
Qed.

Lemma concat_bam {A} (h : list Z -> Z -> A) :
  concat (map (fun idxs => map (h idxs) idxs) box_idx)
  = map (fun q => h (nth (Z.to_nat (q / 9)) box_idx []) (znth 0 (concat box_idx) q)) (zrange 81).
Proof. reflexivity. Qed.

Lemma map2_map_r {A C D} (f : A -> C -> D) (h : A -> C) l : map2 f l (map h l) = map (fun x => f x (h x)) l.
Proof. induction l; cbn; congruence. Qed.

Lemma absent_map {A} (f : A -> Z) l d : absent (map f l) d = forallb (fun x => negb (f x =? d)) l.
Proof.
  unfold absent. induction l as [|a l IH]; cbn [map existsb forallb]; auto.
  rewrite negb_orb. rewrite IH. rewrite (Z.eqb_sym d (f a)). reflexivity.
Qed.

(* the cells of the box of (r,c), as the code's BOX_IDX row lists them *)
Lemma box_cells r c : 0 <= r < 9 -> 0 <= c < 9 ->
  boxof (r * 9 + c)
  = flat_map (fun r' => flat_map (fun c' => if same_box r c r' c' then [r' * 9 + c'] else []) (zrange 9)) (zrange 9).
Proof.
  assert (H : forallb (fun r => forallb (fun c => list_eqb Z.eqb (boxof (r * 9 + c))
     (flat_map (fun r' => flat_map (fun c' => if same_box r c r' c' then [r' * 9 + c'] else []) (zrange 9)) (zrange 9)))
     (zrange 9)) (zrange 9) = true) by (vm_compute; reflexivity).
  intros Hr Hc. rewrite forallb_zrange in H. specialize (H r Hr). rewrite forallb_zrange in H. specialize (H c Hc).
  apply (list_eqb_eq Z.eqb) in H; auto. intros x y. lia.
Qed.

Definition A1 (g : Z -> Z -> Z) (p : Z) : list bool :=
  map2 andb (repeat (F g p =? -1) 9) (absent_mask (map (F g) (boxof p))).

Lemma am1_tab g :
  let am0 := map (fun v => repeat (v =? -1) (Z.to_nat W)) (map (F g) (zrange 81)) in
  scatter am0 (concat box_idx)
    (concat (map2 (fun idxs bm => map (fun i => map2 andb (jget [] am0 i) bm) idxs) box_idx
                  (map absent_mask (map (map (F g)) box_idx))))
  = map (A1 g) (zrange 81).
Proof.
  intro am0. rewrite map_map. rewrite map2_map_r.
  rewrite (concat_bam (fun idxs i => map2 andb (jget [] am0 i) (absent_mask (map (F g) idxs)))).
  assert (L0 : length am0 = 81%nat) by (unfold am0; rewrite !map_length, zrange_length; reflexivity).
  apply (nth_ext _ _ [] []).
  - rewrite scatter_length, map_length, zrange_length. exact L0.
  - intros k Hk. rewrite scatter_length, L0 in Hk.
    destruct (box_table (Z.of_nat k) ltac:(lia)) as (T1 & T2 & T3).
    rewrite <- (Nat2Z.id k). rewrite nth_map_zrange by lia.
    rewrite <- T1 at 1. rewrite (znth_nth 0) by lia.
    rewrite scatter_nth.
    + rewrite nth_map_zrange by lia. rewrite T1, T2. unfold A1. f_equal.
      rewrite jget_in_range by (unfold zlen; lia). unfold am0. rewrite map_map.
      rewrite nth_map_zrange by lia. reflexivity.
    + eapply Forall_impl; [|apply box_idx_range]. intros a Ha. cbv beta in *. unfold zlen. lia.
    + apply box_idx_nodup.
    + rewrite map_length, zrange_length. reflexivity.
    + change (length (concat box_idx)) with 81%nat. lia.
Qed.

Lemma repeat_map_zrange {A} (e : A) : repeat e 9 = map (fun _ => e) (zrange 9).
Proof. reflexivity. Qed.

Theorem gam_tab g :
  get_action_mask (tab g)
  = map (fun r => map (fun c => map (fun d => legal_b (tab g) r c d) (zrange W)) (zrange W)) (zrange W).
Proof.
  unfold get_action_mask. rewrite boxes_tab, transpose_tab, concat_tab. rewrite am1_tab.
  apply map_ext_in. intros r Hr. apply map_ext_in. intros c Hc. apply in_zrange in Hr, Hc. unfold W in *.
  rewrite (znth_map_zrange _ 81) by lia.
  unfold tab at 1 2. rewrite !map_map. rewrite (znth_map_zrange _ 9 r) by lia. rewrite (znth_map_zrange _ 9 c) by lia.
  unfold A1, absent_mask, digits, W. rewrite repeat_map_zrange. rewrite !map2_map.
  apply map_ext_in. intros d Hd. apply in_zrange in Hd.
  unfold legal_b, W. rewrite !absent_map. rewrite box_cells by lia.
  assert (EF : F g (r * 9 + c) = g r c) by (unfold F; f_equal; lia).
  rewrite EF. rewrite cell_tab by lia.
  assert (E1 : forallb (fun c' => negb (cell (tab g) r c' =? d)) (zrange 9) = forallb (fun x => negb (g r x =? d)) (zrange 9)).
  { apply forallb_ext_in. intros x Hx. apply in_zrange in Hx. rewrite cell_tab by lia. reflexivity. }
  assert (E2 : forallb (fun r' => negb (cell (tab g) r' c =? d)) (zrange 9) = forallb (fun x => negb (g x c =? d)) (zrange 9)).
  { apply forallb_ext_in. intros x Hx. apply in_zrange in Hx. rewrite cell_tab by lia. reflexivity. }
  rewrite E1, E2. rewrite forallb_flat_map.
  assert (E3 : forallb (fun r' => forallb (fun c' => negb (same_box r c r' c' && (cell (tab g) r' c' =? d))) (zrange 9)) (zrange 9)
             = forallb (fun x => forallb (fun x0 => negb (F g x0 =? d))
                 (flat_map (fun c' => if same_box r c x c' then [x * 9 + c'] else []) (zrange 9))) (zrange 9)).
  { apply forallb_ext_in. intros x Hx. apply in_zrange in Hx. rewrite forallb_flat_map.
    apply forallb_ext_in. intros y Hy. apply in_zrange in Hy. rewrite cell_tab by lia.
    assert (EF' : F g (x * 9 + y) = g x y) by (unfold F; f_equal; lia).
    destruct (same_box r c x y); cbn [forallb andb]; [rewrite EF', andb_true_r|]; reflexivity. }
  rewrite E3.
  btauto.
Qed.

Definition legal_table (b : list (list Z)) : list (list (list bool)) :=
  map (fun r => map (fun c => map (fun d => legal_b b r c d) (zrange W)) (zrange W)) (zrange W).

Theorem gam_legal b : shape_b b = true -> get_action_mask b = legal_table b.
Proof. intro H. destruct (shape_tab b H) as [E _]. rewrite E. apply gam_tab. Qed.

Lemma mask_at_table b r c d : 0 <= r < 9 -> 0 <= c < 9 -> 0 <= d < 9 -> mask_at (legal_table b) r c d = legal_b b r c d.
Proof.
  intros Hr Hc Hd. unfold mask_at, legal_table, W.
  rewrite (jget_in_range [] _ r) by (unfold zlen; rewrite map_length, zrange_length; lia).
  rewrite nth_map_zrange by lia.
  rewrite (jget_in_range [] _ c) by (unfold zlen; rewrite map_length, zrange_length; lia).
  rewrite nth_map_zrange by lia.
  rewrite (jget_in_range false _ d) by (unfold zlen; rewrite map_length, zrange_length; lia).
  rewrite nth_map_zrange by lia. reflexivity.
Qed.

Lemma legal_b_spec b r c d : legal_b b r c d = true <-> legal b r c d.
Proof.
  unfold legal_b, legal. rewrite !andb_true_iff, !forallb_zrange.
  assert (E : (forall i, 0 <= i < W -> forallb (fun c' => negb (same_box r c i c' && (cell b i c' =? d))) (zrange W) = true)
              <-> (forall r' c', 0 <= r' < W -> 0 <= c' < W -> same_box r c r' c' = true -> cell b r' c' <> d)).
  { split.
    - intros H r' c' Hr' Hc' SB. specialize (H r' Hr'). rewrite forallb_zrange in H. specialize (H c' Hc').
      rewrite SB in H. cbn [andb] in H. lia.
    - intros H r' Hr'. rewrite forallb_zrange. intros c' Hc'. specialize (H r' c' Hr' Hc').
      destruct (same_box r c r' c'); cbn [andb]; [specialize (H eq_refl); lia|reflexivity]. }
  rewrite E. clear E. split.
  - intros [[[H1 H2] H3] H4]. repeat split; auto; try lia;
      intros x Hx; try (specialize (H2 x Hx); lia); try (specialize (H3 x Hx); lia).
  - intros (H1 & H2 & H3 & H4). repeat split; auto; try lia;
      intros x Hx; try (specialize (H2 x Hx); lia); try (specialize (H3 x Hx); lia).
Qed.

(* state invariant: a 9x9 board over -1..8 and the cached mask is the mask of the board *)
Definition Inv (s : state) : Prop := shape_b (board s) = true /\ amask s = get_action_mask (board s).
Definition in_spec (r c d : Z) : Prop := 0 <= r < 9 /\ 0 <= c < 9 /\ 0 <= d < 9.

Theorem C04_mask_iff_legal s r c d :
  Inv s -> in_spec r c d -> (mask_at (amask s) r c d = true <-> legal (board s) r c d).
Proof.
  intros [Sh M] (Hr & Hc & Hd). rewrite M, gam_legal by auto. rewrite mask_at_table by auto. apply legal_b_spec.
Qed.

(* writing one cell *)
Definition upd_g (g : Z -> Z -> Z) (r c d : Z) : Z -> Z -> Z :=
  fun r' c' => if (r' =? r) && (c' =? c) then d else g r' c'.

Lemma gset_tab g r c d : 0 <= r < 9 -> 0 <= c < 9 -> gset (tab g) r c d = tab (upd_g g r c d).
Proof.
  intros Hr Hc.
  assert (Hr' : In r (zrange 9)) by (apply in_zrange; lia).
  assert (Hc' : In c (zrange 9)) by (apply in_zrange; lia).
  vm_compute in Hr', Hc'.
  repeat (destruct Hr' as [<-|Hr']); try contradiction;
  repeat (destruct Hc' as [<-|Hc']); try contradiction; vm_compute; reflexivity.
Qed.

Lemma in9_upd g r c d : in9 g -> -1 <= d < 9 -> in9 (upd_g g r c d).
Proof. intros H Hd r' c' Hr' Hc'. unfold upd_g. destruct (_ && _); auto. Qed.

Theorem init_Inv p : shape_b (map (map (fun v => v - 1)) p) = true -> Inv (fst (init p)).
Proof. intro H. unfold init, Inv. cbn [fst board amask]. auto. Qed.

Theorem step_Inv s r c d : Inv s -> in_spec r c d -> Inv (fst (step s r c d)).
Proof.
  intros [Sh M] (Hr & Hc & Hd). unfold step, Inv. cbn [fst board amask]. split; auto.
  destruct (shape_tab _ Sh) as [E R]. rewrite E. rewrite gset_tab by auto. apply shape_b_tab. apply in9_upd; auto. lia.
Qed.

(* ---------- is_puzzle_solved (sorting every row / column / box) = full and conflict-free ---------- *)
Lemma insert_perm x l : Permutation (insert x l) (x :: l).
Proof.
  induction l as [|y t IH]; cbn [insert]; auto. destruct (x <=? y); auto.
  rewrite IH. apply perm_swap.
Qed.

Lemma isort_perm l : Permutation (isort l) l.
Proof. induction l as [|x t IH]; cbn [isort]; auto. rewrite insert_perm. auto. Qed.

Lemma insert_sorted x l : StronglySorted Z.le l -> StronglySorted Z.le (insert x l).
Proof.
  induction l as [|y t IH]; intro S; cbn [insert].
  - repeat constructor.
  - inversion S as [|? ? S' Fy]; subst. destruct (x <=? y) eqn:E.
    + constructor; auto. constructor; [lia|]. eapply Forall_impl; [|exact Fy]. intros a Ha. cbv beta in *. lia.
    + constructor; auto. eapply Permutation_Forall; [symmetry; apply insert_perm|]. constructor; [lia|auto].
Qed.

Lemma isort_sorted l : StronglySorted Z.le (isort l).
Proof. induction l as [|x t IH]; cbn [isort]; [constructor|]. apply insert_sorted; auto. Qed.

Lemma sorted_perm_eq l1 : forall l2, StronglySorted Z.le l1 -> StronglySorted Z.le l2 -> Permutation l1 l2 -> l1 = l2.
Proof.
  induction l1 as [|a l1 IH]; intros l2 S1 S2 P.
  - apply Permutation_nil in P. auto.
  - destruct l2 as [|b l2]; [symmetry in P; apply Permutation_nil in P; discriminate|].
    inversion S1 as [|? ? S1' F1]; subst. inversion S2 as [|? ? S2' F2]; subst.
    assert (a = b).
    { assert (Ha : In a (b :: l2)) by (eapply Permutation_in; [exact P|left; auto]).
      assert (Hb : In b (a :: l1)) by (eapply Permutation_in; [symmetry; exact P|left; auto]).
      rewrite Forall_forall in F1, F2. destruct Ha as [->|Ha]; auto. destruct Hb as [->|Hb]; auto.
      specialize (F1 _ Hb). specialize (F2 _ Ha). lia. }
    subst b. f_equal. apply IH; auto. eapply Permutation_cons_inv; eauto.
Qed.

Lemma zrange9_sorted : StronglySorted Z.le (zrange 9).
Proof. vm_compute zrange. repeat first [apply SSorted_nil | apply SSorted_cons | apply Forall_nil | apply Forall_cons | lia]. Qed.

Lemma zrange9_nodup : NoDup (zrange 9).
Proof. apply nodupb_NoDup. vm_compute. reflexivity. Qed.

Lemma validate_row_spec l : length l = 9%nat ->
  (validate_row l = true <-> NoDup l /\ forall x, In x l -> 0 <= x < 9).
Proof.
  intro L. unfold validate_row, W. rewrite (list_eqb_eq Z.eqb) by (intros; lia). split.
  - intro H. assert (P : Permutation (zrange 9) l) by (rewrite <- H; apply isort_perm). split.
    + eapply Permutation_NoDup; [exact P|apply zrange9_nodup].
    + intros x Hx. apply in_zrange. eapply Permutation_in; [symmetry; exact P|auto].
  - intros [ND R]. apply sorted_perm_eq; [apply isort_sorted|apply zrange9_sorted|].
    rewrite isort_perm. apply NoDup_Permutation_bis; auto.
    + rewrite zrange_length, L. cbn. lia.
    + intros x Hx. apply in_zrange. auto.
Qed.

Definition row_idx : list (list Z) := map (fun r => map (fun c => r * 9 + c) (zrange 9)) (zrange 9).
Definition col_idx : list (list Z) := map (fun c => map (fun r => r * 9 + c) (zrange 9)) (zrange 9).
Definition unit_idx : list (list Z) := row_idx ++ col_idx ++ box_idx.

Lemma rows_tab g : tab g = map (map (F g)) row_idx.
Proof. reflexivity. Qed.
Lemma cols_tab g : tab (fun c r => g r c) = map (map (F g)) col_idx.
Proof. reflexivity. Qed.

Lemma solved_units g : is_puzzle_solved (tab g) = forallb (fun u => validate_row (map (F g) u)) unit_idx.
Proof.
  unfold is_puzzle_solved. rewrite transpose_tab, boxes_tab, cols_tab. rewrite (rows_tab g) at 1.
  unfold unit_idx. rewrite !forallb_app, !forallb_map. rewrite andb_assoc. reflexivity.
Qed.

Definition fullP (g : Z -> Z -> Z) : Prop := forall r c, 0 <= r < 9 -> 0 <= c < 9 -> 0 <= g r c.
Definition cfP (g : Z -> Z -> Z) : Prop :=
  forall r c r' c', 0 <= r < 9 -> 0 <= c < 9 -> 0 <= r' < 9 -> 0 <= c' < 9 ->
    peers r c r' c' = true -> 0 <= g r c -> g r c <> g r' c'.

Definition uat (u : list Z) (j : Z) : Z := znth 0 u j.

(* closed facts about the 27 units, by computation *)
Lemma units_peers u : In u unit_idx ->
  length u = 9%nat /\ forall j, 0 <= j < 9 -> 0 <= uat u j < 81 /\
    forall j', 0 <= j' < 9 -> j <> j' -> peers (uat u j / 9) (uat u j mod 9) (uat u j' / 9) (uat u j' mod 9) = true.
Proof.
  assert (H : forallb (fun u => (zlen u =? 9) && forallb (fun j => inb 81 (uat u j) && forallb (fun j' =>
      (j =? j') || peers (uat u j / 9) (uat u j mod 9) (uat u j' / 9) (uat u j' mod 9)) (zrange 9)) (zrange 9)) unit_idx = true)
    by (vm_compute; reflexivity).
  intro Hu. rewrite forallb_forall in H. specialize (H u Hu). apply andb_true_iff in H as [H1 H2].
  split; [unfold zlen in H1; lia|]. intros j Hj. rewrite forallb_zrange in H2. specialize (H2 j Hj).
  apply andb_true_iff in H2 as [H2 H3]. unfold inb in H2. split; [lia|].
  intros j' Hj' Hne. rewrite forallb_zrange in H3. specialize (H3 j' Hj'). apply orb_true_iff in H3 as [H3|H3]; [lia|auto].
Qed.

Lemma peers_unit r c r' c' : 0 <= r < 9 -> 0 <= c < 9 -> 0 <= r' < 9 -> 0 <= c' < 9 -> peers r c r' c' = true ->
  exists u j j', In u unit_idx /\ 0 <= j < 9 /\ 0 <= j' < 9 /\ j <> j' /\ uat u j = r * 9 + c /\ uat u j' = r' * 9 + c'.
Proof.
  assert (H : forallb (fun r => forallb (fun c => forallb (fun r' => forallb (fun c' =>
      implb (peers r c r' c') (existsb (fun u => existsb (Z.eqb (r * 9 + c)) u && existsb (Z.eqb (r' * 9 + c')) u) unit_idx))
      (zrange 9)) (zrange 9)) (zrange 9)) (zrange 9) = true) by (vm_compute; reflexivity).
  intros Hr Hc Hr' Hc' P.
  rewrite forallb_zrange in H. specialize (H r Hr). rewrite forallb_zrange in H. specialize (H c Hc).
  rewrite forallb_zrange in H. specialize (H r' Hr'). rewrite forallb_zrange in H. specialize (H c' Hc').
  rewrite P in H. cbn [implb] in H.
  apply existsb_exists in H as (u & Hu & H). apply andb_true_iff in H as [H1 H2].
  apply existsb_exists in H1 as (x & Hx & Ex). apply existsb_exists in H2 as (y & Hy & Ey).
  assert (x = r * 9 + c) by lia. assert (y = r' * 9 + c') by lia. subst x y.
  destruct (units_peers u Hu) as [L _].
  apply (In_nth _ _ 0) in Hx as (j & Hj & Ej). apply (In_nth _ _ 0) in Hy as (j' & Hj' & Ej').
  exists u, (Z.of_nat j), (Z.of_nat j'). unfold uat. rewrite !znth_nth by lia. rewrite !Nat2Z.id.
  repeat split; auto; try lia.
  intro E. assert (j = j') by lia. subst j'. unfold peers in P. lia.
Qed.

Lemma cell_unit r c : 0 <= r < 9 -> 0 <= c < 9 -> exists u, In u unit_idx /\ In (r * 9 + c) u.
Proof.
  intros Hr Hc. exists (map (fun c => r * 9 + c) (zrange 9)). split.
  - unfold unit_idx. apply in_or_app. left. unfold row_idx.
    apply (in_map (fun r => map (fun c => r * 9 + c) (zrange 9))). apply in_zrange. lia.
  - apply (in_map (fun c => r * 9 + c)). apply in_zrange. lia.
Qed.

Theorem solved_iff g : in9 g -> (is_puzzle_solved (tab g) = true <-> fullP g /\ cfP g).
Proof.
  intro R. rewrite solved_units, forallb_forall. split.
  - intro H.
    assert (HU : forall u, In u unit_idx -> NoDup (map (F g) u) /\ forall x, In x (map (F g) u) -> 0 <= x < 9).
    { intros u Hu. apply validate_row_spec; auto. rewrite map_length. apply (units_peers u Hu). }
    split.
    + intros r c Hr Hc. destruct (cell_unit r c Hr Hc) as (u & Hu & Hin).
      destruct (HU u Hu) as [_ Rg]. specialize (Rg (F g (r * 9 + c)) (in_map _ _ _ Hin)).
      replace (F g (r * 9 + c)) with (g r c) in Rg by (unfold F; f_equal; lia). lia.
    + intros r c r' c' Hr Hc Hr' Hc' P _ E.
      destruct (peers_unit r c r' c' Hr Hc Hr' Hc' P) as (u & j & j' & Hu & Hj & Hj' & Hne & E1 & E2).
      destruct (HU u Hu) as [ND _]. destruct (units_peers u Hu) as [L _].
      rewrite (NoDup_nth _ 0) in ND. rewrite map_length, L in ND.
      specialize (ND (Z.to_nat j) (Z.to_nat j') ltac:(lia) ltac:(lia)).
      rewrite !(nth_indep _ 0 (F g 0)) in ND by (rewrite map_length; lia). rewrite !map_nth in ND.
      unfold uat in E1, E2. rewrite znth_nth in E1, E2 by lia. rewrite E1, E2 in ND.
      replace (F g (r * 9 + c)) with (g r c) in ND by (unfold F; f_equal; lia).
      replace (F g (r' * 9 + c')) with (g r' c') in ND by (unfold F; f_equal; lia).
      specialize (ND E). lia.
  - intros [Fu Cf] u Hu. destruct (units_peers u Hu) as [L UP].
    apply validate_row_spec; [rewrite map_length; auto|]. split.
    + apply (NoDup_nth _ 0). rewrite map_length, L. intros i j Hi Hj E.
      rewrite !(nth_indep _ 0 (F g 0)) in E by (rewrite map_length; lia). rewrite !map_nth in E.
      destruct (Nat.eq_dec i j) as [|Hne]; auto. exfalso.
      destruct (UP (Z.of_nat i) ltac:(lia)) as [Ri Pi]. destruct (UP (Z.of_nat j) ltac:(lia)) as [Rj _].
      specialize (Pi (Z.of_nat j) ltac:(lia) ltac:(lia)).
      assert (Zi : znth 0 u (Z.of_nat i) = nth i u 0) by (rewrite znth_nth by lia; rewrite Nat2Z.id; auto).
      assert (Zj : znth 0 u (Z.of_nat j) = nth j u 0) by (rewrite znth_nth by lia; rewrite Nat2Z.id; auto).
      unfold uat in *. rewrite Zi, Zj in *.
      unfold F in E. eapply (Cf _ _ _ _ _ _ _ _ Pi); [apply Fu; lia|exact E].
    + intros x Hx. apply in_map_iff in Hx as (p & <- & Hp). apply (In_nth _ _ 0) in Hp as (k & Hk & <-).
      destruct (UP (Z.of_nat k) ltac:(lia)) as [Rk _]. unfold uat in Rk. rewrite znth_nth in Rk by lia. rewrite Nat2Z.id in Rk.
      unfold F. split; [apply Fu; lia|apply R; lia].
  Unshelve. all: lia.
Qed.

Lemma full_b_spec b : full_b b = true <-> full b.
Proof.
  unfold full_b, full. rewrite forallb_zrange. split.
  - intros H r c Hr Hc. specialize (H r Hr). rewrite forallb_zrange in H. specialize (H c Hc). lia.
  - intros H r Hr. rewrite forallb_zrange. intros c Hc. specialize (H r c Hr Hc). lia.
Qed.

Lemma conflict_free_b_spec b : conflict_free_b b = true <-> conflict_free b.
Proof.
  unfold conflict_free_b, conflict_free. rewrite forallb_zrange. split.
  - intros H r c r' c' Hr Hc Hr' Hc' P G. specialize (H r Hr). rewrite forallb_zrange in H. specialize (H c Hc).
    rewrite forallb_zrange in H. specialize (H r' Hr'). rewrite forallb_zrange in H. specialize (H c' Hc').
    rewrite P in H. cbn [andb] in H. lia.
  - intros H r Hr. rewrite forallb_zrange. intros c Hc. rewrite forallb_zrange. intros r' Hr'.
    rewrite forallb_zrange. intros c' Hc'. specialize (H r c r' c' Hr Hc Hr' Hc').
    destruct (peers r c r' c'); cbn [andb]; [|reflexivity]. specialize (H eq_refl).
    destruct (0 <=? cell b r c) eqn:E; cbn [andb]; [|reflexivity]. specialize (H ltac:(lia)). lia.
Qed.

Lemma full_tab g : full (tab g) <-> fullP g.
Proof.
  unfold full, fullP, W. split; intros H r c Hr Hc; specialize (H r c Hr Hc); rewrite cell_tab in * by lia; auto.
Qed.

Lemma cf_tab g : conflict_free (tab g) <-> cfP g.
Proof.
  unfold conflict_free, cfP, W. split; intros H r c r' c' Hr Hc Hr' Hc'; specialize (H r c r' c' Hr Hc Hr' Hc');
    rewrite !cell_tab in * by lia; auto.
Qed.

Theorem solved_spec b : shape_b b = true -> is_puzzle_solved b = full_b b && conflict_free_b b.
Proof.
  intro Sh. destruct (shape_tab b Sh) as [E R]. rewrite E. apply eq_true_iff_eq.
  rewrite (solved_iff _ R), andb_true_iff, full_b_spec, conflict_free_b_spec, full_tab, cf_tab. tauto.
Qed.

(* some / no legal placement *)
Lemma existsb_map {A B} (f : B -> bool) (g : A -> B) l : existsb f (map g l) = existsb (fun x => f (g x)) l.
Proof. induction l; cbn; congruence. Qed.

Lemma any_mask_table b :
  any_mask (legal_table b) = true <-> exists r c d, in_spec r c d /\ legal_b b r c d = true.
Proof.
  unfold any_mask, legal_table, W. rewrite existsb_map. split.
  - intro H. apply existsb_exists in H as (r & Hr & H). rewrite existsb_map in H.
    apply existsb_exists in H as (c & Hc & H). rewrite existsb_map in H.
    apply existsb_exists in H as (d & Hd & H). apply in_zrange in Hr, Hc, Hd.
    exists r, c, d. unfold in_spec. auto.
  - intros (r & c & d & (Hr & Hc & Hd) & H). apply existsb_exists. exists r. split; [apply in_zrange; auto|].
    rewrite existsb_map. apply existsb_exists. exists c. split; [apply in_zrange; auto|].
    rewrite existsb_map. apply existsb_exists. exists d. split; [apply in_zrange; auto|auto].
Qed.

Lemma negb_existsb {A} (f : A -> bool) l : negb (existsb f l) = forallb (fun x => negb (f x)) l.
Proof. induction l; cbn; auto. rewrite negb_orb. congruence. Qed.

Lemma no_mask_table b :
  negb (any_mask (legal_table b))
  = forallb (fun r => forallb (fun c => forallb (fun d => negb (legal_b b r c d)) (zrange W)) (zrange W)) (zrange W).
Proof.
  unfold any_mask, legal_table. rewrite existsb_map, negb_existsb. apply forallb_ext_in. intros r _.
  rewrite existsb_map, negb_existsb. apply forallb_ext_in. intros c _.
  rewrite existsb_map, negb_existsb. reflexivity.
Qed.

Lemma same_box_sym r c r' c' : same_box r c r' c' = same_box r' c' r c.
Proof. unfold same_box. rewrite (Z.eqb_sym (r / 3)), (Z.eqb_sym (c / 3)). reflexivity. Qed.

Lemma legal_tab g r c d : 0 <= r < 9 -> 0 <= c < 9 ->
  (legal (tab g) r c d <->
   g r c = -1 /\ forall r' c', 0 <= r' < 9 -> 0 <= c' < 9 -> (r' = r \/ c' = c \/ same_box r c r' c' = true) -> g r' c' <> d).
Proof.
  intros Hr Hc. unfold legal, W. rewrite cell_tab by lia. split.
  - intros (H1 & H2 & H3 & H4). split; auto. intros r' c' Hr' Hc' [->|[->|SB]].
    + specialize (H2 c' Hc'). rewrite cell_tab in H2 by lia. auto.
    + specialize (H3 r' Hr'). rewrite cell_tab in H3 by lia. auto.
    + specialize (H4 r' c' Hr' Hc' SB). rewrite cell_tab in H4 by lia. auto.
  - intros [H1 H2]. repeat split; auto.
    + intros c' Hc'. rewrite cell_tab by lia. apply H2; auto.
    + intros r' Hr'. rewrite cell_tab by lia. apply H2; auto.
    + intros r' c' Hr' Hc' SB. rewrite cell_tab by lia. apply H2; auto.
Qed.

Lemma peers_cases r c r' c' :
  peers r c r' c' = true <-> (r <> r' \/ c <> c') /\ (r = r' \/ c = c' \/ same_box r c r' c' = true).
Proof. unfold peers. destruct (same_box r c r' c'); lia. Qed.

(* ---------- C05: an illegal action ends the episode; on a position that still had a legal move its reward is 0 ---------- *)
Theorem invalid_terminates s r c d :
  mask_at (amask s) r c d = false -> st (snd (step s r c d)) = LAST /\ discount (snd (step s r c d)) = [0].
Proof. intro H. unfold step. cbn [snd]. rewrite H. cbn. auto. Qed.

Theorem invalid_reward_zero s r c d :
  Inv s -> in_spec r c d -> any_mask (amask s) = true -> mask_at (amask s) r c d = false ->
  snd (step s r c d) = termination 1 [0].
Proof.
  intros [Sh M] IS Any Bad. pose proof IS as (Hr & Hc & Hd).
  unfold step. cbn [snd]. rewrite Bad. cbn [negb orb cond_done]. f_equal. f_equal.
  destruct (is_puzzle_solved (gset (board s) r c d)) eqn:So; [exfalso|reflexivity].
  rewrite M, gam_legal in Any, Bad by auto. rewrite mask_at_table in Bad by auto.
  apply any_mask_table in Any as (r2 & c2 & d2 & (Hr2 & Hc2 & Hd2) & L2). apply legal_b_spec in L2.
  destruct (shape_tab _ Sh) as [E R]. set (g := cell (board s)) in *. rewrite E in *. clear E.
  rewrite gset_tab in So by auto. apply solved_iff in So; [|apply in9_upd; auto; lia]. destruct So as [Fu Cf].
  apply legal_tab in L2; auto. destruct L2 as [E2 _].
  destruct (Z.eq_dec (g r c) (-1)) as [Em|Nem].
  - (* the cell was empty: then d was legal *)
    assert (legal (tab g) r c d); [|apply legal_b_spec in H; congruence].
    apply legal_tab; auto. split; auto. intros r' c' Hr' Hc' Rel.
    destruct (Z.eq_dec r' r) as [->|]; [destruct (Z.eq_dec c' c) as [->|]|]; try lia.
    + specialize (Cf r c r c' Hr Hc Hr' Hc'). unfold upd_g in Cf. rewrite !Z.eqb_refl in Cf.
      replace (c' =? c) with false in Cf by lia. cbn [andb] in Cf.
      intro Q. apply Cf; try lia. apply peers_cases. split; [lia|auto].
    + specialize (Cf r c r' c' Hr Hc Hr' Hc'). unfold upd_g in Cf. rewrite !Z.eqb_refl in Cf.
      replace (r' =? r) with false in Cf by lia. cbn [andb] in Cf.
      intro Q. apply Cf; try lia. apply peers_cases. split; [lia|]. destruct Rel as [|[|]]; auto.
  - (* the cell was filled: the other empty cell is still empty in the "solved" grid *)
    specialize (Fu r2 c2 Hr2 Hc2). unfold upd_g in Fu.
    destruct ((r2 =? r) && (c2 =? c)) eqn:Q; [|lia]. assert (r2 = r /\ c2 = c) as [-> ->] by lia. lia.
Qed.

(* ---------- C06: legal play keeps the grid conflict-free; a full grid is a solved one ---------- *)
Definition Inv6 (s : state) : Prop := Inv s /\ conflict_free (board s).

Lemma cfP_upd g r c d : 0 <= r < 9 -> 0 <= c < 9 -> cfP g -> legal (tab g) r c d -> cfP (upd_g g r c d).
Proof.
  intros Hr Hc Cf L. apply legal_tab in L; auto. destruct L as [Em L].
  intros r1 c1 r2 c2 Hr1 Hc1 Hr2 Hc2 P G. apply peers_cases in P as [Ne Rel]. unfold upd_g in *.
  destruct ((r1 =? r) && (c1 =? c)) eqn:Q1; destruct ((r2 =? r) && (c2 =? c)) eqn:Q2.
  - lia.
  - assert (r1 = r /\ c1 = c) as [-> ->] by lia. intro Q. apply (L r2 c2 Hr2 Hc2); [|auto].
    destruct Rel as [|[|]]; auto.
  - assert (r2 = r /\ c2 = c) as [-> ->] by lia. apply (L r1 c1 Hr1 Hc1).
    destruct Rel as [|[|SB]]; auto. right; right. rewrite same_box_sym. auto.
  - apply Cf; auto. apply peers_cases. auto.
Qed.

Theorem init_Inv6 p : puzzle_ok_b p = true -> Inv6 (fst (init p)).
Proof.
  unfold puzzle_ok_b. intro H. apply andb_true_iff in H as [H1 H2]. split; [apply init_Inv; auto|].
  unfold init. cbn [fst board]. apply conflict_free_b_spec. auto.
Qed.

Theorem step_Inv6 s r c d :
  Inv6 s -> in_spec r c d -> mask_at (amask s) r c d = true -> Inv6 (fst (step s r c d)).
Proof.
  intros [I Cf] IS Hm. split; [apply step_Inv; auto|].
  apply (C04_mask_iff_legal s r c d I IS) in Hm. destruct I as [Sh M]. destruct IS as (Hr & Hc & Hd).
  unfold step. cbn [fst board]. destruct (shape_tab _ Sh) as [E R]. set (g := cell (board s)) in *. rewrite E in *.
  rewrite gset_tab by auto. apply cf_tab. apply cfP_upd; auto. apply cf_tab; auto.
Qed.

(* the reward is 1 exactly for a complete conflict-free grid; after a legal move from a conflict-free grid,
   "complete" alone is enough (completion => solved), and the episode ends there *)
Theorem reward_one_iff s r c d : Inv s -> in_spec r c d ->
  (reward (snd (step s r c d)) = [1] <-> full (board (fst (step s r c d))) /\ conflict_free (board (fst (step s r c d)))).
Proof.
  intros I IS. pose proof (step_Inv s r c d I IS) as [Sh' _]. unfold step in *. cbn [fst snd board] in *.
  assert (Hrew : forall dn x, reward (cond_done 1 dn [x]) = [x]) by (intros [|] x; reflexivity). rewrite Hrew.
  rewrite (solved_spec _ Sh'). rewrite <- full_b_spec, <- conflict_free_b_spec.
  destruct (full_b _); destruct (conflict_free_b _); cbn; split; intro H; try discriminate; try tauto; try (destruct H; discriminate).
Qed.

Theorem completion_solved s r c d :
  Inv6 s -> in_spec r c d -> mask_at (amask s) r c d = true -> full (board (fst (step s r c d))) ->
  snd (step s r c d) = termination 1 [1].
Proof.
  intros I6 IS Hm Fu. pose proof (step_Inv6 s r c d I6 IS Hm) as [[Sh' _] Cf'].
  unfold step in *. cbn [fst snd board] in *. rewrite Hm. cbn [negb orb].
  rewrite (solved_spec _ Sh'). apply full_b_spec in Fu. apply conflict_free_b_spec in Cf'. rewrite Fu, Cf'. cbn [andb b2z].
  rewrite (gam_legal _ Sh').
  assert (N : any_mask (legal_table (gset (board s) r c d)) = false).
  { destruct (any_mask _) eqn:A; auto. apply any_mask_table in A as (r2 & c2 & d2 & (Hr2 & Hc2 & Hd2) & L).
    apply legal_b_spec in L. destruct L as [L _]. apply full_b_spec in Fu. specialize (Fu r2 c2 Hr2 Hc2). lia. }
  rewrite N. reflexivity.
Qed.

(* ---------- C09: the step is the published rule ---------- *)
Theorem step_is_rules s r c d : Inv s -> in_spec r c d -> step s r c d = rules_step s r c d.
Proof.
  intros I IS. pose proof (step_Inv s r c d I IS) as [Sh' _]. destruct I as [Sh M]. pose proof IS as (Hr & Hc & Hd).
  unfold step, rules_step in *. cbn [fst board] in *.
  rewrite M. rewrite (gam_legal _ Sh), (gam_legal _ Sh'). rewrite mask_at_table by auto.
  fold (legal_table (gset (board s) r c d)). rewrite <- no_mask_table. rewrite <- (solved_spec _ Sh').
  destruct (legal_b (board s) r c d); cbn [negb orb]; [|reflexivity].
  destruct (any_mask (legal_table (gset (board s) r c d))) eqn:A; cbn [negb cond_done]; [|reflexivity].
  f_equal. f_equal. f_equal.
  destruct (is_puzzle_solved _) eqn:So; [exfalso|reflexivity].
  rewrite (solved_spec _ Sh') in So. apply andb_true_iff in So as [Fu _]. apply full_b_spec in Fu.
  apply any_mask_table in A as (r2 & c2 & d2 & (Hr2 & Hc2 & Hd2) & L). apply legal_b_spec in L. destruct L as [L _].
  specialize (Fu r2 c2 Hr2 Hc2). lia.
Qed.

(* ---------- C11: structural horizon = number of empty cells = 81 - givens ---------- *)
Lemma zsum_map_ext_in {A} (f f' : A -> Z) l : (forall x, In x l -> f x = f' x) -> zsum (map f l) = zsum (map f' l).
Proof. intro H. f_equal. apply map_ext_in. auto. Qed.

Lemma zsum_map_nonneg {A} (f : A -> Z) l : (forall x, In x l -> 0 <= f x) -> 0 <= zsum (map f l).
Proof.
  induction l as [|a l IH]; intro H; cbn [map zsum]; [lia|].
  assert (0 <= f a) by (apply H; left; auto). assert (0 <= zsum (map f l)) by (apply IH; intros; apply H; right; auto). lia.
Qed.

Lemma zsum_map_ge {A} (f : A -> Z) l i : (forall x, In x l -> 0 <= f x) -> In i l -> f i <= zsum (map f l).
Proof.
  induction l as [|a l IH]; intros H Hi; [contradiction|]. cbn [map zsum].
  assert (0 <= f a) by (apply H; left; auto).
  assert (0 <= zsum (map f l)) by (apply zsum_map_nonneg; intros; apply H; right; auto).
  destruct Hi as [->|Hi]; [lia|]. assert (f i <= zsum (map f l)) by (apply IH; auto; intros; apply H; right; auto). lia.
Qed.

Lemma zsum_map_point (f f' : Z -> Z) l i :
  NoDup l -> In i l -> (forall x, In x l -> x <> i -> f' x = f x) -> zsum (map f' l) = zsum (map f l) + (f' i - f i).
Proof.
  induction l as [|a l IH]; intros ND Hi H; [contradiction|]. inversion ND as [|? ? Hna ND']; subst. cbn [map zsum].
  destruct Hi as [->|Hi].
  - rewrite (zsum_map_ext_in f' f l); [lia|]. intros x Hx. apply H; [right; auto|]. intro; subst; auto.
  - rewrite IH; auto; [|intros; apply H; auto; right; auto]. rewrite (H a); [lia|left; auto|]. intro; subst; auto.
Qed.

Lemma zsum_map_add {A} (f h : A -> Z) l : zsum (map (fun x => f x + h x) l) = zsum (map f l) + zsum (map h l).
Proof. induction l; cbn [map zsum]; lia. Qed.

Definition emp_row (g : Z -> Z -> Z) (r : Z) : Z := zsum (map (fun c => b2z (g r c =? -1)) (zrange 9)).
Definition emp (g : Z -> Z -> Z) : Z := zsum (map (emp_row g) (zrange 9)).

Lemma empties_tab g : empties (tab g) = emp g.
Proof.
  unfold empties, emp, emp_row, W. apply zsum_map_ext_in. intros r Hr. apply in_zrange in Hr.
  apply zsum_map_ext_in. intros c Hc. apply in_zrange in Hc. rewrite cell_tab by lia. reflexivity.
Qed.

Lemma emp_row_nonneg g r : 0 <= emp_row g r.
Proof. apply zsum_map_nonneg. intros x _. destruct (_ =? _); cbn; lia. Qed.

Lemma emp_upd g r c d : 0 <= r < 9 -> 0 <= c < 9 -> g r c = -1 -> d <> -1 -> emp (upd_g g r c d) = emp g - 1.
Proof.
  intros Hr Hc Em Hd. unfold emp.
  rewrite (zsum_map_point (emp_row g) (emp_row (upd_g g r c d)) (zrange 9) r); [|apply zrange9_nodup|apply in_zrange; lia|].
  - unfold emp_row.
    rewrite (zsum_map_point (fun c0 => b2z (g r c0 =? -1)) (fun c0 => b2z (upd_g g r c d r c0 =? -1)) (zrange 9) c);
      [|apply zrange9_nodup|apply in_zrange; lia|].
    + unfold upd_g. rewrite !Z.eqb_refl. cbn [andb]. rewrite Em. replace (d =? -1) with false by lia. cbn. lia.
    + intros x _ Hx. unfold upd_g. replace (x =? c) with false by lia. rewrite andb_false_r. reflexivity.
  - intros x _ Hx. unfold emp_row. apply zsum_map_ext_in. intros y _. unfold upd_g. replace (x =? r) with false by lia. reflexivity.
Qed.

Lemma emp_ge1 g r c : 0 <= r < 9 -> 0 <= c < 9 -> g r c = -1 -> 1 <= emp g.
Proof.
  intros Hr Hc Em. unfold emp.
  assert (H1 : emp_row g r <= zsum (map (emp_row g) (zrange 9))).
  { apply zsum_map_ge; [intros; apply emp_row_nonneg|apply in_zrange; lia]. }
  assert (H2 : b2z (g r c =? -1) <= emp_row g r).
  { unfold emp_row. apply (zsum_map_ge (fun c0 => b2z (g r c0 =? -1))); [intros x _; destruct (_ =? _); cbn; lia|apply in_zrange; lia]. }
  rewrite Em in H2. change (b2z (-1 =? -1)) with 1 in H2. lia.
Qed.

Lemma emp_nonneg g : 0 <= emp g.
Proof. apply zsum_map_nonneg. intros; apply emp_row_nonneg. Qed.

(* the givens: filled cells; empties = 81 - givens on every well-shaped board *)
Definition givens (b : list (list Z)) : Z :=
  zsum (map (fun r => zsum (map (fun c => b2z (0 <=? cell b r c)) (zrange W))) (zrange W)).

Theorem empties_givens b : shape_b b = true -> empties b = 81 - givens b.
Proof.
  intro Sh. destruct (shape_tab b Sh) as [_ R].
  enough (empties b + givens b = 81) by lia. unfold empties, givens, W. rewrite <- zsum_map_add.
  rewrite (zsum_map_ext_in _ (fun _ => 9) (zrange 9)); [reflexivity|]. intros r Hr. apply in_zrange in Hr.
  rewrite <- zsum_map_add. rewrite (zsum_map_ext_in _ (fun _ => 1) (zrange 9)); [reflexivity|]. intros c Hc. apply in_zrange in Hc.
  specialize (R r c Hr Hc). destruct (cell b r c =? -1) eqn:E1; destruct (0 <=? cell b r c) eqn:E2; cbn; lia.
Qed.

Lemma board_step s r c d : board (fst (step s r c d)) = gset (board s) r c d.
Proof. reflexivity. Qed.

Lemma step_mid_inv s r c d : st (snd (step s r c d)) = MID ->
  mask_at (amask s) r c d = true /\ any_mask (get_action_mask (gset (board s) r c d)) = true.
Proof.
  unfold step. cbn [snd].
  destruct (mask_at (amask s) r c d); destruct (any_mask (get_action_mask (gset (board s) r c d)));
    cbn [negb orb cond_done]; intro H; auto; discriminate H.
Qed.

Lemma mid_tab g r c d r2 c2 d2 :
  0 <= r < 9 -> 0 <= c < 9 -> 0 <= d < 9 -> 0 <= r2 < 9 -> 0 <= c2 < 9 ->
  legal (tab g) r c d -> legal (tab (upd_g g r c d)) r2 c2 d2 ->
  emp (upd_g g r c d) = emp g - 1 /\ 1 <= emp (upd_g g r c d).
Proof.
  intros Hr Hc Hd Hr2 Hc2 L1 L2. apply legal_tab in L1; auto. destruct L1 as [Em _].
  apply legal_tab in L2; auto. destruct L2 as [Em2 _].
  split; [apply emp_upd; auto; lia|]. apply (emp_ge1 _ r2 c2); auto.
Qed.

Theorem mid_step_consumes s r c d :
  Inv s -> in_spec r c d -> st (snd (step s r c d)) = MID ->
  mask_at (amask s) r c d = true /\
  empties (board (fst (step s r c d))) = empties (board s) - 1 /\ 1 <= empties (board (fst (step s r c d))).
Proof.
  intros I IS Hmid. destruct (step_mid_inv s r c d Hmid) as [Hm A]. split; auto.
  pose proof (step_Inv s r c d I IS) as [Sh' _]. rewrite board_step in *.
  apply (C04_mask_iff_legal s r c d I IS) in Hm. destruct I as [Sh M]. destruct IS as (Hr & Hc & Hd).
  rewrite (gam_legal _ Sh') in A. apply any_mask_table in A as (r2 & c2 & d2 & (Hr2 & Hc2 & Hd2) & L2). apply legal_b_spec in L2.
  destruct (shape_tab _ Sh) as [E _]. rewrite E in Hm, L2 |- *. rewrite gset_tab in L2 |- * by auto.
  rewrite !empties_tab. apply (mid_tab _ r c d r2 c2 d2); auto.
Qed.

Definition action := (Z * Z * Z)%type.
Definition act_ok (a : action) : Prop := in_spec (fst (fst a)) (snd (fst a)) (snd a).
Definition step_a (s : state) (a : action) : state * tstep := step s (fst (fst a)) (snd (fst a)) (snd a).
(* an episode: stops at the first LAST *)
Fixpoint run (s : state) (acts : list action) : list (state * tstep) :=
  match acts with
  | [] => []
  | a :: r => let p := step_a s a in p :: (if st (snd p) =? LAST then [] else run (fst p) r)
  end.

Lemma step_type_cases s r c d : st (snd (step s r c d)) = MID \/ st (snd (step s r c d)) = LAST.
Proof. unfold step. cbn [snd]. destruct (_ || _); cbn; auto. Qed.

Theorem C11_horizon acts : forall s,
  Inv s -> Forall act_ok acts -> Z.of_nat (length (run s acts)) <= Z.max 1 (empties (board s)).
Proof.
  induction acts as [|a rest IH]; intros s I HA; cbn [run length]; [lia|].
  inversion HA as [|? ? Ha HA']; subst. unfold step_a in *. destruct a as [[r c] d]. cbn [fst snd] in *.
  destruct (step_type_cases s r c d) as [Hmid|HL].
  - assert (Hne : (st (snd (step s r c d)) =? LAST) = false) by (rewrite Hmid; reflexivity). rewrite Hne.
    destruct (mid_step_consumes s r c d I Ha Hmid) as (_ & E1 & E2).
    specialize (IH (fst (step s r c d)) (step_Inv s r c d I Ha) HA'). cbn [length]. lia.
  - assert (He : (st (snd (step s r c d)) =? LAST) = true) by (rewrite HL; reflexivity). rewrite He. cbn [length]. lia.
Qed.

(* ---------- C10: well-formed database entries give conflict-free reset states; the scan is sound ---------- *)
Definition puzzle_ok (p : list (list Z)) : Prop := puzzle_ok_b p = true.

Theorem gen_Inv6 db idx : Forall puzzle_ok db -> valid_draw db idx = true -> Inv6 (fst (gen_db db idx)).
Proof.
  intros HF V. unfold valid_draw in V. unfold gen_db. apply init_Inv6. rewrite Forall_forall in HF. apply HF.
  rewrite znth_nth by lia. apply nth_In. unfold zlen in V. lia.
Qed.

Lemma scan_sound k : forall i l bad first mn mx,
  0 <= bad -> nth 0 (puzzles_scan k i l bad first mn mx) 1 = 0 ->
  bad = 0 /\ Forall puzzle_ok (fst (dec_many (take_grid W W) k l)).
Proof.
  induction k as [|k IH]; intros i l bad first mn mx Hb H; cbn [puzzles_scan dec_many] in *.
  - cbn in H. split; auto. cbn. constructor.
  - destruct (take_grid W W l) as [p l'] eqn:Ep.
    destruct (dec_many (take_grid W W) k l') as [xs l2] eqn:Ex.
    apply IH in H; [|destruct (puzzle_ok_b p); lia]. rewrite Ex in H. destruct H as [H1 H2]. cbn [fst] in *.
    destruct (puzzle_ok_b p) eqn:Ok; [|lia]. split; auto.
Qed.

Theorem puzzles_io_sound l :
  hd 1 (sudoku_puzzles_io l) = 0 ->
  Forall puzzle_ok (fst (dec_many (take_grid W W) (Z.to_nat (fst (take1 l))) (snd (take1 l)))).
Proof.
  unfold sudoku_puzzles_io. destruct (take1 l) as [k l']. cbn [fst snd]. intro H.
  apply (scan_sound (Z.to_nat k) 0 l' 0 (-1) 81 0); [lia|].
  destruct (puzzles_scan _ _ _ _ _ _ _); cbn in *; auto.
Qed.

(* ---------- C01 / C03 ---------- *)
Theorem board_in_spec s r c d : Inv s -> in_spec r c d ->
  forall r' c', 0 <= r' < 9 -> 0 <= c' < 9 -> -1 <= cell (board (fst (step s r c d))) r' c' <= 9.
Proof.
  intros I IS r' c' Hr' Hc'. destruct (step_Inv s r c d I IS) as [Sh' _].
  destruct (shape_tab _ Sh') as [_ R]. specialize (R r' c' Hr' Hc'). lia.
Qed.

Theorem step_protocol s r c d : step_ok 1 false (snd (step s r c d)) = true.
Proof. unfold step. cbn [snd]. destruct (_ || _); reflexivity. Qed.

Theorem init_protocol p : first_ok 1 (snd (init p)) = true.
Proof. reflexivity. Qed.

(* ---------- a concrete non-trivial instance (the sample puzzle shipped in constants.py) ---------- *)
Definition sample_puzzle : list (list Z) :=
  [[0;0;0;8;0;1;0;0;0]; [0;0;0;0;0;0;0;4;3]; [5;0;0;0;0;0;0;0;0]; [0;0;0;0;7;0;8;0;0]; [0;0;0;0;0;0;1;0;0];
   [0;2;0;0;3;0;0;0;0]; [6;0;0;0;0;0;0;7;5]; [0;0;3;4;0;0;0;0;0]; [0;0;0;2;0;0;6;0;0]].
Definition sample_solved : list (list Z) :=
  [[2;3;7;8;4;1;5;6;9]; [1;8;6;7;9;5;2;4;3]; [5;9;4;3;2;6;7;1;8]; [3;1;5;6;7;4;8;9;2]; [4;6;9;5;8;2;1;3;7];
   [7;2;8;1;3;9;4;5;6]; [6;4;2;9;1;8;3;7;5]; [8;5;3;4;6;7;9;2;1]; [9;7;1;2;5;3;6;8;4]].
(* the solution with the cell (4,7) blanked *)
Definition one_hole : list (list Z) := gset sample_solved 4 7 0.

Example nonvacuous :
  let s0 := fst (init sample_puzzle) in
  let s1 := fst (init one_hole) in
  puzzle_ok_b sample_puzzle = true /\ empties (board s0) = 64 /\ givens (board s0) = 17
  /\ mask_at (amask s0) 0 0 1 = true /\ st (snd (step s0 0 0 1)) = MID /\ reward (snd (step s0 0 0 1)) = [0]
  /\ mask_at (amask s0) 0 3 0 = false /\ snd (step s0 0 3 0) = termination 1 [0]
  /\ mask_at (amask s0) 0 0 7 = false /\ snd (step s0 0 0 7) = termination 1 [0]
  /\ puzzle_ok_b one_hole = true /\ any_mask (amask s1) = true
  /\ mask_at (amask s1) 4 7 2 = true /\ snd (step s1 4 7 2) = termination 1 [1]
  /\ snd (step s1 4 7 3) = termination 1 [0]
  /\ puzzle_ok_b (gset sample_puzzle 0 0 8) = false.
Proof. vm_compute. repeat split. Qed.
