(* TSP: every theorem below holds for ALL numbers of cities, all states satisfying the stated hypotheses, all actions, and for
   an ARBITRARY distance oracle [dist] and penalty code [pen] (Section variables): nothing depends on a metric property.
   Architecture: a state satisfying [Inv] IS [view n c tour] for a partial tour of distinct cities; two core lemmas compute
   the step on such a state ([step_view]: an unvisited city is appended; [step_view_invalid]: a visited city => penalty,
   untouched).  C04, C05, C06, C08, C09, C10, C11, C12, C01, C03 are corollaries.                                  *)
Require Import JV.Base.Prelude JV.Base.JaxIndex JV.Base.Codec JV.Base.TimeStep JV.Model.TSP JV.Proofs.TSP_lists.
From Coq Require Import Permutation.

(* ---------- facts that need no invariant (any state, any oracle) ---------- *)
Lemma step_coords rnd sparse n pen dist s a : coords (fst (step_r rnd sparse n pen dist s a)) = coords s.
Proof. unfold step_r. cbn [fst]. destruct (valid s a); reflexivity. Qed.

Lemma step_invalid_state rnd sparse n pen dist s a : valid s a = false -> fst (step_r rnd sparse n pen dist s a) = s.
Proof. intro H. unfold step_r. rewrite H. reflexivity. Qed.

Lemma step_valid_state rnd sparse n pen dist s a : valid s a = true -> fst (step_r rnd sparse n pen dist s a) = update s a.
Proof. intro H. unfold step_r. rewrite H. reflexivity. Qed.

Lemma step_type_cases rnd sparse n pen dist s a :
  st (snd (step_r rnd sparse n pen dist s a)) = MID \/ st (snd (step_r rnd sparse n pen dist s a)) = LAST.
Proof. unfold step_r. cbn [snd]. destruct (_ || _); [right|left]; reflexivity. Qed.

(* a MID step: the action was accepted, one more city, still not all of them *)
Lemma mid_step rnd sparse n pen dist s a : st (snd (step_r rnd sparse n pen dist s a)) = MID ->
  valid s a = true /\ fst (step_r rnd sparse n pen dist s a) = update s a /\ nvis s + 1 <> n.
Proof.
  unfold step_r. cbn [snd fst]. destruct (valid s a) eqn:V; cbn [negb].
  - rewrite orb_false_r. cbn [update nvis]. destruct (nvis s + 1 =? n) eqn:E; cbn [cond_done termination transition st]; [discriminate|].
    intros _. repeat split. lia.
  - rewrite orb_true_r. cbn. discriminate.
Qed.

Lemma invalid_is_last rnd sparse n pen dist s a : valid s a = false -> st (snd (step_r rnd sparse n pen dist s a)) = LAST.
Proof. intro H. unfold step_r. rewrite H. cbn [negb snd]. rewrite orb_true_r. reflexivity. Qed.

(* C03 *)
Theorem C03_step_protocol rnd sparse n pen dist s a : step_ok 1 false (snd (step_r rnd sparse n pen dist s a)) = true.
Proof. unfold step_r. cbn [snd]. destruct (_ || _); reflexivity. Qed.

Theorem C03_init_protocol n c : first_ok 1 (snd (init n c)) = true.
Proof. reflexivity. Qed.

(* ---------- C04 / C12: the mask, entry by entry (needs only the shape) ---------- *)
Lemma legal_b_spec s i : legal_b s i = true <-> legal s i.
Proof. unfold legal_b, legal. destruct (znth true (visited s) i); cbn; split; congruence. Qed.

Lemma mask_eq_map n s : zlen (visited s) = n -> mask s = map (legal_b s) (zrange n).
Proof.
  intro L. unfold mask. apply (nth_ext _ _ false false).
  - rewrite !map_length, zrange_length. unfold zlen in L. lia.
  - intros k Hk. rewrite map_length in Hk. rewrite nth_map_zrange_nat by (unfold zlen in L; lia).
    unfold legal_b. rewrite znth_nth by lia. rewrite Nat2Z.id.
    rewrite (nth_indep _ false (negb true)) by (rewrite map_length; exact Hk). rewrite map_nth. reflexivity.
Qed.

Lemma valid_legal n s a : zlen (visited s) = n -> 0 <= a < n -> valid s a = legal_b s a.
Proof.
  intros L Ha. unfold valid, legal_b. rewrite jget_znth by lia. rewrite !znth_nth by lia.
  rewrite (nth_indep (visited s) true false) by (unfold zlen in L; lia). reflexivity.
Qed.

Lemma mask_entry n s a : zlen (visited s) = n -> 0 <= a < n -> jget false (mask s) a = legal_b s a.
Proof.
  intros L Ha. rewrite (mask_eq_map n s L). rewrite jget_in_range by (rewrite zlen_mask; lia). apply nth_map_zrange. exact Ha.
Qed.

Theorem C04_mask_iff_legal n s a : zlen (visited s) = n -> 0 <= a < n -> (jget false (mask s) a = true <-> legal s a).
Proof. intros L Ha. rewrite (mask_entry n s a L Ha). apply legal_b_spec. Qed.

(* the environment's own acceptance test is the same rule *)
Theorem C04_mask_iff_accepts n s a : zlen (visited s) = n -> 0 <= a < n -> jget false (mask s) a = valid s a.
Proof. intros L Ha. rewrite (mask_entry n s a L Ha), (valid_legal n s a L Ha). reflexivity. Qed.

Theorem C04_checker n s m : zlen (visited s) = n ->
  (list_eqb Bool.eqb m (map (legal_b s) (zrange n)) = true <-> m = mask s).
Proof. intro L. rewrite list_eqb_bool. rewrite (mask_eq_map n s L). tauto. Qed.

Theorem C12_observation n s : zlen (visited s) = n ->
  observe s = (coords s, position s, traj s, map (legal_b s) (zrange n)).
Proof. intro L. unfold observe. rewrite (mask_eq_map n s L). reflexivity. Qed.

(* ---------- the two core lemmas: the step on the encoding of a partial tour ---------- *)
Section Oracle.
Variable n pen : Z.
Variable dist : Z -> Z -> Z.
Hypothesis Hn : 0 <= n.

Lemma view_fields c tour :
  coords (view n c tour) = c /\ position (view n c tour) = last tour (-1) /\ visited (view n c tour) = map (mem tour) (zrange n)
  /\ traj (view n c tour) = tour ++ repeat (-1) (Z.to_nat n - length tour) /\ nvis (view n c tour) = zlen tour.
Proof. repeat split. Qed.

Lemma tour_of_view c tour : tour_of (view n c tour) = tour.
Proof. unfold tour_of, view. cbn [nvis traj]. apply tour_of_padded. Qed.

Lemma view_shape c tour : good n tour -> zlen (visited (view n c tour)) = n /\ zlen (traj (view n c tour)) = n.
Proof.
  intro G. pose proof (good_length n tour G) as L. cbn [view visited traj]. split; [apply zlen_mask; exact Hn|].
  rewrite zlen_app. unfold zlen in *. rewrite repeat_length. lia.
Qed.

Lemma legal_view c tour a : 0 <= a < n -> legal_b (view n c tour) a = negb (mem tour a).
Proof. intro Ha. unfold legal_b. cbn [view visited]. rewrite visited_znth by exact Ha. reflexivity. Qed.

Lemma valid_view c tour a : 0 <= a < n -> valid (view n c tour) a = negb (mem tour a).
Proof. intro Ha. unfold valid. cbn [view visited]. rewrite visited_get by exact Ha. reflexivity. Qed.

Lemma update_view c tour a : good n tour -> 0 <= a < n -> mem tour a = false ->
  update (view n c tour) a = view n c (tour ++ [a]).
Proof.
  intros G Ha M. pose proof (good_snoc_length n tour a G Ha M) as L.
  unfold update, view. cbn [coords visited traj nvis]. f_equal.
  - rewrite last_snoc. reflexivity.
  - apply visited_set. exact Ha.
  - rewrite traj_set by (unfold zlen in L; lia). rewrite app_length. cbn [length]. f_equal. f_equal. lia.
  - rewrite zlen_app. reflexivity.
Qed.

Lemma city_last tour a : tour <> [] -> Forall (fun c => 0 <= c < n) tour -> city n (last tour (-1)) = last tour a.
Proof.
  intros NE F. destruct tour as [|x t]; [congruence|].
  rewrite (last_cons_indep t x (-1) a). unfold city. apply jclamp_id.
  rewrite Forall_forall in F. apply F. apply last_In.
Qed.

(* the dense reward of a legal step, as a function of the partial tour *)
Definition dense_reward (rnd : Z -> Z) (tour : list Z) (a : Z) : Z :=
  if zlen tour + 1 =? n then rnd (- edge dist tour a - dist a (hd a (tour ++ [a]))) else - edge dist tour a.
Definition sparse_reward (tour : list Z) (a : Z) : Z :=
  if zlen tour + 1 =? n then - closed_len dist (tour ++ [a]) else 0.

Lemma step_view rnd sparse c tour a : good n tour -> 0 <= a < n -> mem tour a = false ->
  step_r rnd sparse n pen dist (view n c tour) a =
  (view n c (tour ++ [a]), cond_done 1 (zlen tour + 1 =? n) [if sparse then sparse_reward tour a else dense_reward rnd tour a]).
Proof.
  intros G Ha M. pose proof (good_snoc n tour a G Ha M) as G'. pose proof (good_snoc_length n tour a G Ha M) as L.
  unfold step_r. rewrite (valid_view c tour a Ha), M. cbn [negb]. rewrite (update_view c tour a G Ha M).
  assert (NV : nvis (view n c (tour ++ [a])) = zlen tour + 1) by (cbn [view nvis]; rewrite zlen_app; reflexivity).
  rewrite NV, orb_false_r. f_equal. f_equal. f_equal.
  unfold reward_of. rewrite NV, orb_false_r. destruct sparse.
  - (* sparse *)
    unfold sparse_reward. destruct (zlen tour + 1 =? n) eqn:E; [|reflexivity].
    cbn [view traj]. rewrite app_length. cbn [length].
    replace (Z.to_nat n - (length tour + 1))%nat with 0%nat by (unfold zlen in E; lia).
    cbn [repeat]. rewrite app_nil_r. rewrite (tour_length_closed dist n _ (proj2 G')). reflexivity.
  - (* dense *)
    unfold dense_reward. cbn [view position visited traj nvis]. rewrite last_snoc.
    rewrite (all_visited n (tour ++ [a]) Hn G'). rewrite zlen_app. change (zlen [a]) with 1.
    assert (CA : city n a = a) by (unfold city; apply jclamp_id; exact Ha). rewrite CA.
    assert (R1 : (if zlen tour =? 0 then 0 else - dist (city n (last tour (-1))) a) = - edge dist tour a).
    { destruct tour as [|x t]; [reflexivity|].
      replace (zlen (x :: t) =? 0) with false by (rewrite zlen_cons; pose proof (zlen_nonneg t); lia).
      rewrite (city_last (x :: t) a) by (try discriminate; exact (proj2 G)). reflexivity. }
    rewrite R1. destruct (zlen tour + 1 =? n) eqn:E; [|reflexivity].
    f_equal. f_equal. f_equal.
    destruct tour as [|x t].
    + (* a single city: the old trajectory[0] is -1, the gather wraps/clamps to city 0 = a *)
      change (zlen []) with 0 in E. assert (n = 1) by lia. subst n. assert (a = 0) by lia. subst a. reflexivity.
    + rewrite (traj_first (x :: t) _ x t eq_refl). cbn [app hd]. unfold city. apply jclamp_id.
      pose proof (proj2 G) as F. inversion F; subst. assumption.
Qed.

Lemma step_view_invalid rnd sparse c tour a : good n tour -> 0 <= a < n -> mem tour a = true -> zlen tour < n ->
  step_r rnd sparse n pen dist (view n c tour) a = (view n c tour, termination 1 [- pen]).
Proof.
  intros G Ha M L. unfold step_r. rewrite (valid_view c tour a Ha), M. cbn [negb]. rewrite orb_true_r.
  cbn [cond_done]. f_equal. f_equal. f_equal.
  unfold reward_of. rewrite orb_true_r. destruct sparse; [reflexivity|].
  cbn [view visited nvis]. rewrite (all_visited n tour Hn G).
  replace (zlen tour =? n) with false by lia.
  destruct tour as [|x t]; [discriminate M|].
  replace (zlen (x :: t) =? 0) with false by (rewrite zlen_cons; pose proof (zlen_nonneg t); lia). reflexivity.
Qed.

(* ---------- the invariant ---------- *)
Lemma Inv_view c tour : good n tour -> Inv n (view n c tour).
Proof. intro G. exists tour. split; [exact G|reflexivity]. Qed.

Lemma Inv_tour s : Inv n s -> good n (tour_of s) /\ s = view n (coords s) (tour_of s).
Proof. intros (tour & G & E). assert (T : tour_of s = tour) by (rewrite E; apply tour_of_view). rewrite T. split; assumption. Qed.

Lemma state_eqb_spec a b : state_eqb a b = true <-> a = b.
Proof.
  unfold state_eqb. rewrite !andb_true_iff, !list_eqb_Z, list_eqb_bool, !Z.eqb_eq. destruct a as [c1 p1 v1 t1 k1], b as [c2 p2 v2 t2 k2]; cbn [coords position visited traj nvis].
  split; [intros ((((A & B) & C) & D) & E); congruence|intro H; inversion H; subst; tauto].
Qed.

Theorem Inv_b_spec s : Inv_b n s = true <-> Inv n s.
Proof.
  unfold Inv_b. rewrite !andb_true_iff, good_b_spec, state_eqb_spec. split.
  - intros ((_ & G) & E). exists (tour_of s). split; assumption.
  - intro I. destruct (Inv_tour s I) as (G & E). split; [split; [|exact G]|exact E].
    rewrite E. cbn [view nvis]. pose proof (zlen_nonneg (tour_of s)). lia.
Qed.

Lemma init_view c : fst (init n c) = view n c [].
Proof.
  unfold init, view. cbn [fst last app length zlen]. f_equal.
  - change (mem []) with (fun _ : Z => false). rewrite map_const_repeat, zrange_length. reflexivity.
  - f_equal. lia.
Qed.

Theorem init_Inv c : Inv n (fst (init n c)).
Proof. rewrite init_view. apply Inv_view. apply good_nil. Qed.

(* preserved by EVERY in-spec action, legal or not *)
Theorem step_Inv rnd sparse s a : Inv n s -> 0 <= a < n -> Inv n (fst (step_r rnd sparse n pen dist s a)).
Proof.
  intros I Ha. destruct (Inv_tour s I) as (G & E). rewrite E.
  destruct (mem (tour_of s) a) eqn:M.
  - rewrite step_invalid_state by (rewrite valid_view by exact Ha; rewrite M; reflexivity). apply Inv_view. exact G.
  - rewrite step_view by assumption. cbn [fst]. apply Inv_view. apply good_snoc; assumption.
Qed.

(* what the invariant says, in plain words (C06) *)
Theorem Inv_meaning s : Inv n s ->
  let tour := tour_of s in
  NoDup tour /\ Forall (fun c => 0 <= c < n) tour /\ nvis s = zlen tour /\ 0 <= nvis s <= n
  /\ zlen (visited s) = n /\ zlen (traj s) = n
  /\ (forall i, 0 <= i < n -> (znth false (visited s) i = true <-> In i tour))
  /\ traj s = tour ++ repeat (-1) (Z.to_nat (n - nvis s))
  /\ position s = last tour (-1).
Proof.
  intros I tour. destruct (Inv_tour s I) as (G & E). fold tour in G, E.
  pose proof (good_length n tour G) as L. pose proof (zlen_nonneg tour) as L0.
  destruct (view_shape (coords s) tour G) as (S1 & S2). rewrite <- E in S1, S2.
  assert (NV : nvis s = zlen tour) by (rewrite E; reflexivity).
  split; [exact (proj1 G)|]. split; [exact (proj2 G)|]. split; [exact NV|]. split; [lia|]. split; [exact S1|]. split; [exact S2|].
  split; [|split].
  - intros i Hi. rewrite E. cbn [view visited]. rewrite visited_znth by exact Hi. apply mem_In.
  - rewrite E at 1. cbn [view traj]. f_equal. f_equal. unfold zlen in *. lia.
  - rewrite E at 1. reflexivity.
Qed.

Theorem C06_complete_is_permutation s : Inv n s -> nvis s = n -> Permutation (traj s) (zrange n) /\ all_true (visited s) = true.
Proof.
  intros I E. destruct (Inv_tour s I) as (G & Ev). assert (NV : zlen (tour_of s) = n) by (rewrite Ev in E; exact E).
  split.
  - rewrite Ev at 1. cbn [view traj]. replace (Z.to_nat n - length (tour_of s))%nat with 0%nat by (unfold zlen in NV; lia).
    cbn [repeat]. rewrite app_nil_r. apply good_complete_perm; assumption.
  - rewrite Ev. cbn [view visited]. rewrite all_visited by assumption. lia.
Qed.

(* a legal step ends the episode exactly when the tour is complete *)
Theorem C06_last_iff_complete rnd sparse s a : Inv n s -> 0 <= a < n -> legal s a ->
  (st (snd (step_r rnd sparse n pen dist s a)) = LAST <-> nvis (fst (step_r rnd sparse n pen dist s a)) = n).
Proof.
  intros I Ha Lg. destruct (Inv_tour s I) as (G & E). rewrite E in Lg |- *.
  apply legal_b_spec in Lg. rewrite legal_view in Lg by exact Ha. apply negb_true_iff in Lg.
  rewrite step_view by assumption. cbn [fst snd view nvis]. rewrite zlen_app. change (zlen [a]) with 1.
  destruct (zlen (tour_of s) + 1 =? n) eqn:Q; cbn [cond_done termination transition st]; split; intro H; try lia; try discriminate H; reflexivity.
Qed.

Theorem perm_b_spec l : perm_b n l = true -> Permutation l (zrange n).
Proof.
  unfold perm_b. rewrite !andb_true_iff, Z.eqb_eq, nodup_b_spec, range_forallb. intros (((L & ND) & F) & _).
  apply good_complete_perm; [exact Hn|split; assumption|exact L].
Qed.

(* ---------- C05: revisiting a city ---------- *)
Theorem C05_revisit rnd sparse s a : Inv n s -> nvis s < n -> 0 <= a < n -> ~ legal s a ->
  step_r rnd sparse n pen dist s a = (s, termination 1 [- pen]).
Proof.
  intros I L Ha NL. destruct (Inv_tour s I) as (G & E).
  assert (M : mem (tour_of s) a = true).
  { destruct (mem (tour_of s) a) eqn:M; [reflexivity|]. exfalso. apply NL. apply legal_b_spec. rewrite E, legal_view by exact Ha. rewrite M. reflexivity. }
  rewrite E at 1 2. apply step_view_invalid; try assumption. rewrite E in L. exact L.
Qed.

(* sparse: the penalty needs no hypothesis on the state at all *)
Theorem C05_revisit_sparse rnd s a : valid s a = false ->
  step_r rnd true n pen dist s a = (s, termination 1 [- pen]).
Proof. intro V. unfold step_r. rewrite V. cbn [negb]. rewrite orb_true_r. unfold reward_of. rewrite orb_true_r. reflexivity. Qed.

(* ---------- C09: the code's algorithm = the published rules ---------- *)
Lemma visit_view c tour a : good n tour -> 0 <= a < n -> mem tour a = false -> visit (view n c tour) a = view n c (tour ++ [a]).
Proof.
  intros G Ha M. rewrite <- (update_view c tour a G Ha M). pose proof (good_snoc_length n tour a G Ha M) as L.
  destruct (view_shape c tour G) as (S1 & S2). pose proof (zlen_nonneg tour).
  unfold visit, update. f_equal.
  - symmetry. apply jset_zupd. lia.
  - symmetry. apply jset_zupd. cbn [view nvis]. lia.
Qed.

Theorem C09_step_is_rules sparse s a : Inv n s -> nvis s < n -> 0 <= a < n ->
  step sparse n pen dist s a = step_rules sparse n pen dist s a.
Proof.
  intros I L Ha. destruct (Inv_tour s I) as (G & E). unfold step, step_rules.
  set (tour := tour_of s) in *. rewrite E. rewrite legal_view by exact Ha.
  destruct (mem tour a) eqn:M; cbn [negb].
  - apply step_view_invalid; try assumption. rewrite E in L. exact L.
  - rewrite step_view by assumption. rewrite visit_view by assumption. cbn [view nvis].
    unfold sparse_reward, dense_reward, rid. destruct (zlen tour + 1 =? n); destruct sparse; reflexivity.
Qed.

(* ---------- episodes ---------- *)
Fixpoint run (rnd : Z -> Z) (sparse : bool) (s : state) (acts : list Z) : list (state * tstep) :=
  match acts with
  | [] => []
  | a :: r => let p := step_r rnd sparse n pen dist s a in p :: (if st (snd p) =? LAST then [] else run rnd sparse (fst p) r)
  end.
Definition ret (tr : list (state * tstep)) : Z := zsum (map (fun p => zsum (reward (snd p))) tr).
Definition final (tr : list (state * tstep)) (s : state) : state := fst (last tr (s, mkTS MID [] [])).
Definition ended (tr : list (state * tstep)) : Prop := st (snd (last tr (mkS [] 0 [] [] 0, mkTS MID [] []))) = LAST.
(* mask-respecting play: every chosen city is in-spec and unvisited *)
Fixpoint legal_run (rnd : Z -> Z) (sparse : bool) (s : state) (acts : list Z) : Prop :=
  match acts with
  | [] => True
  | a :: r => 0 <= a < n /\ legal s a /\
              (st (snd (step_r rnd sparse n pen dist s a)) = LAST \/ legal_run rnd sparse (fst (step_r rnd sparse n pen dist s a)) r)
  end.

Lemma final_cons p tl s s' : final (p :: tl) s = final (p :: tl) s'.
Proof. unfold final. f_equal. apply last_cons_indep. Qed.

Lemma ended_cons p q tl : ended (p :: q :: tl) <-> ended (q :: tl).
Proof. unfold ended. reflexivity. Qed.

(* C06 along whole episodes, ANY in-spec actions *)
Theorem C06_run_Inv rnd sparse acts : forall s,
  Inv n s -> Forall (fun a => 0 <= a < n) acts -> Forall (fun p => Inv n (fst p)) (run rnd sparse s acts).
Proof.
  induction acts as [|a r IH]; intros s I HA; cbn [run]; [constructor|].
  inversion HA as [|? ? Ha HA']; subst. pose proof (step_Inv rnd sparse s a I Ha) as I'.
  constructor; [exact I'|]. destruct (_ =? LAST); [constructor|]. apply IH; assumption.
Qed.

(* the key episode lemma: a mask-respecting episode that ends, started from the encoding of a partial tour, ends on the
   encoding of a COMPLETE tour T extending it; it has exactly n - |tour| steps; its exact return telescopes *)
Lemma run_view sparse c acts : forall tour,
  good n tour -> legal_run rid sparse (view n c tour) acts -> ended (run rid sparse (view n c tour) acts) ->
  exists T, good n T /\ zlen T = n /\ final (run rid sparse (view n c tour) acts) (view n c tour) = view n c T
    /\ Z.of_nat (length (run rid sparse (view n c tour) acts)) = n - zlen tour
    /\ (exists k, T = tour ++ firstn k acts)
    /\ ret (run rid sparse (view n c tour) acts) = if sparse then - closed_len dist T else - (closed_len dist T - path_len dist tour).
Proof.
  induction acts as [|a r IH]; intros tour G HL HE; cbn [run] in *.
  - unfold ended in HE. cbn in HE. discriminate.
  - destruct HL as (Ha & Lg & Hrest).
    apply legal_b_spec in Lg. rewrite legal_view in Lg by exact Ha. apply negb_true_iff in Lg.
    pose proof (good_snoc n tour a G Ha Lg) as G'.
    rewrite (step_view rid sparse c tour a G Ha Lg) in *. cbn [fst snd] in *.
    destruct (zlen tour + 1 =? n) eqn:Q; cbn [cond_done termination transition st reward] in *.
    + (* closing step *)
      change (LAST =? LAST) with true. cbn iota.
      exists (tour ++ [a]). split; [exact G'|]. split; [rewrite zlen_app; change (zlen [a]) with 1; lia|].
      split; [reflexivity|]. split; [cbn [length]; lia|]. split; [exists 1%nat; reflexivity|].
      unfold ret. cbn [map zsum snd reward termination].
      destruct sparse; [unfold sparse_reward; rewrite Q; lia|]. unfold dense_reward, rid. rewrite Q, closed_len_snoc. lia.
    + change (MID =? LAST) with false in *. cbn iota in *.
      destruct Hrest as [HLa|Hrest]; [discriminate HLa|].
      destruct (run rid sparse (view n c (tour ++ [a])) r) as [|p tl] eqn:Er.
      * unfold ended in HE. cbn in HE. discriminate.
      * assert (HE' : ended (run rid sparse (view n c (tour ++ [a])) r)) by (rewrite Er; exact HE).
        destruct (IH _ G' Hrest HE') as (T & GT & LT & FT & LenT & (k & KT) & RT). rewrite Er in FT, LenT, RT.
        exists T. split; [exact GT|]. split; [exact LT|].
        split; [rewrite <- FT; unfold final; f_equal; change (last (p :: tl) (view n c tour, mkTS MID [] []) = last (p :: tl) (view n c (tour ++ [a]), mkTS MID [] [])); apply last_cons_indep|].
        split; [cbn [length] in *; rewrite zlen_app in LenT; change (zlen [a]) with 1 in LenT; lia|].
        split; [exists (S k); rewrite KT, <- app_assoc; reflexivity|].
        unfold ret in *. cbn [map zsum snd reward transition]. cbn [map zsum] in RT. rewrite RT.
        unfold sparse_reward, dense_reward. rewrite Q. destruct sparse; [lia|]. rewrite path_len_snoc. lia.
Qed.

(* the same trajectory under the two reward functions: same states, same step types *)
Lemma step_sparse_indep rnd s a :
  fst (step_r rnd true n pen dist s a) = fst (step_r rnd false n pen dist s a)
  /\ st (snd (step_r rnd true n pen dist s a)) = st (snd (step_r rnd false n pen dist s a)).
Proof. unfold step_r. cbn [fst snd]. split; [reflexivity|]. destruct (_ || _); reflexivity. Qed.

Lemma legal_run_sparse_indep rnd acts : forall s, legal_run rnd true s acts -> legal_run rnd false s acts.
Proof.
  induction acts as [|a r IH]; intros s H; cbn [legal_run] in *; [auto|].
  destruct H as (Ha & L & Hr). split; [auto|split; [auto|]].
  destruct (step_sparse_indep rnd s a) as (E1 & E2). rewrite <- E1, <- E2.
  destruct Hr; [left; auto|right; apply IH; auto].
Qed.

Lemma run_sparse_indep rnd acts : forall s,
  map fst (run rnd true s acts) = map fst (run rnd false s acts)
  /\ map (fun p => st (snd p)) (run rnd true s acts) = map (fun p => st (snd p)) (run rnd false s acts).
Proof.
  induction acts as [|a r IH]; intro s; cbn [run map]; [auto|].
  destruct (step_sparse_indep rnd s a) as (E1 & E2). rewrite E1, E2.
  destruct (st (snd (step_r rnd false n pen dist s a)) =? LAST); cbn [map]; [auto|].
  destruct (IH (fst (step_r rnd false n pen dist s a))) as (I1 & I2). rewrite I1, I2. auto.
Qed.

Lemma last_map {A B} (f : A -> B) l d : last (map f l) (f d) = f (last l d).
Proof. induction l as [|x l IH]; [reflexivity|]. cbn [map]. destruct l; [reflexivity|]. exact IH. Qed.

Lemma ended_sparse_indep rnd acts s : ended (run rnd true s acts) -> ended (run rnd false s acts).
Proof.
  unfold ended. intro H.
  pose proof (last_map (fun p : state * tstep => st (snd p)) (run rnd true s acts) (mkS [] 0 [] [] 0, mkTS MID [] [])) as A.
  pose proof (last_map (fun p : state * tstep => st (snd p)) (run rnd false s acts) (mkS [] 0 [] [] 0, mkTS MID [] [])) as B.
  cbn beta in A, B. rewrite <- B. rewrite <- (proj2 (run_sparse_indep rnd acts s)). rewrite A. exact H.
Qed.

(* C08: from the reset state, every mask-respecting episode run to termination visits a permutation T of all the cities,
   lasts exactly n steps, and BOTH reward functions return minus the closed tour length of T (incl. the closing edge) *)
Theorem C08_return c acts :
  let s0 := fst (init n c) in
  legal_run rid true s0 acts -> ended (run rid true s0 acts) ->
  exists T, Permutation T (zrange n) /\ NoDup T
    /\ final (run rid true s0 acts) s0 = view n c T /\ final (run rid false s0 acts) s0 = view n c T
    /\ traj (view n c T) = T
    /\ length (run rid true s0 acts) = Z.to_nat n
    /\ ret (run rid true s0 acts) = - closed_len dist T
    /\ ret (run rid false s0 acts) = - closed_len dist T.
Proof.
  intros s0 HL HE. unfold s0 in *. rewrite init_view in *.
  destruct (run_view true c acts [] (good_nil n) HL HE) as (T & GT & LT & FT & LenT & _ & RT).
  destruct (run_view false c acts [] (good_nil n) (legal_run_sparse_indep rid acts _ HL) (ended_sparse_indep rid acts _ HE))
    as (T' & GT' & LT' & FT' & _ & _ & RT').
  assert (TT : T' = T).
  { unfold final in FT, FT'.
    pose proof (last_map fst (run rid true (view n c []) acts) (view n c [], mkTS MID [] [])) as A.
    pose proof (last_map fst (run rid false (view n c []) acts) (view n c [], mkTS MID [] [])) as B.
    cbn [fst] in A, B. rewrite <- A in FT. rewrite <- B in FT'. rewrite (proj1 (run_sparse_indep rid acts _)) in FT.
    rewrite FT in FT'. rewrite <- (tour_of_view c T), <- (tour_of_view c T'). rewrite FT'. reflexivity. }
  subst T'. exists T.
  split; [apply good_complete_perm; assumption|]. split; [exact (proj1 GT)|]. split; [exact FT|]. split; [exact FT'|].
  split. { cbn [view traj]. replace (Z.to_nat n - length T)%nat with 0%nat by (unfold zlen in LT; lia). cbn [repeat]. apply app_nil_r. }
  split; [change (zlen []) with 0 in LenT; lia|]. split; [exact RT|].
  rewrite RT'. cbn [path_len]. lia.
Qed.

(* the dense rewards telescope from ANY consistent state: return = -(closed tour length - length of the path already travelled) *)
Theorem C08_dense_telescope s acts : Inv n s ->
  legal_run rid false s acts -> ended (run rid false s acts) ->
  exists T, good n T /\ zlen T = n /\ final (run rid false s acts) s = view n (coords s) T
    /\ ret (run rid false s acts) = - (closed_len dist T - path_len dist (tour_of s)).
Proof.
  intros I HL HE. destruct (Inv_tour s I) as (G & E). rewrite E in HL, HE |- *. rewrite tour_of_view. cbn [view coords].
  destruct (run_view false (coords s) acts (tour_of s) G HL HE) as (T & GT & LT & FT & _ & _ & RT).
  exists T. split; [exact GT|]. split; [exact LT|]. split; [exact FT|exact RT].
Qed.

(* ---------- C11: the structural horizon num_cities ---------- *)
Lemma run_bound rnd sparse acts : forall s,
  Inv n s -> Forall (fun a => 0 <= a < n) acts ->
  Z.of_nat (length (run rnd sparse s acts)) <= Z.max 1 (n - nvis s)
  /\ (~ ended (run rnd sparse s acts) -> Z.of_nat (length (run rnd sparse s acts)) < Z.max 1 (n - nvis s)).
Proof.
  induction acts as [|a r IH]; intros s I HA; cbn [run length].
  - lia.
  - inversion HA as [|? ? Ha HA']; subst.
    pose proof (step_Inv rnd sparse s a I Ha) as I'.
    destruct (step_type_cases rnd sparse n pen dist s a) as [Hmid|HL].
    + assert (Hne : (st (snd (step_r rnd sparse n pen dist s a)) =? LAST) = false) by (rewrite Hmid; reflexivity).
      rewrite Hne. destruct (mid_step _ _ _ _ _ _ _ Hmid) as (V & Eu & NE).
      assert (NV : nvis (fst (step_r rnd sparse n pen dist s a)) = nvis s + 1) by (rewrite Eu; reflexivity).
      destruct (Inv_meaning _ I') as (_ & _ & _ & B & _).
      destruct (IH _ I' HA') as (B1 & B2). cbn [length]. rewrite NV in B1, B2, B.
      split; [lia|]. intro NEn.
      destruct (run rnd sparse (fst (step_r rnd sparse n pen dist s a)) r) as [|p tl] eqn:Er; [cbn [length]; lia|].
      assert (H : ~ ended (p :: tl)) by (intro En; apply NEn; exact En). specialize (B2 H). cbn [length] in *. lia.
    + assert (He : (st (snd (step_r rnd sparse n pen dist s a)) =? LAST) = true) by (rewrite HL; reflexivity).
      rewrite He. cbn [length]. split; [lia|]. intro NEn. exfalso. apply NEn. exact HL.
Qed.

Lemma run_not_ended_length rnd sparse acts : forall s,
  ~ ended (run rnd sparse s acts) -> length (run rnd sparse s acts) = length acts.
Proof.
  induction acts as [|a r IH]; intros s NE; cbn [run length] in *; [reflexivity|].
  destruct (st (snd (step_r rnd sparse n pen dist s a)) =? LAST) eqn:E.
  - exfalso. apply NE. unfold ended. cbn [last snd]. lia.
  - cbn [length]. f_equal. apply IH. intro En. apply NE.
    destruct (run rnd sparse (fst (step_r rnd sparse n pen dist s a)) r) as [|p tl] eqn:Er; [cbn in En; discriminate|exact En].
Qed.

(* from a reset state, under ANY in-spec actions, both reward functions, every rounding: at most num_cities steps, and
   any num_cities in-spec actions DO reach LAST; (mask-respecting episodes take exactly num_cities steps: C08_return) *)
Theorem C11_episode_within_num_cities c rnd sparse acts :
  1 <= n -> Forall (fun a => 0 <= a < n) acts ->
  let tr := run rnd sparse (fst (init n c)) acts in
  Z.of_nat (length tr) <= n /\ (n <= Z.of_nat (length acts) -> ended tr).
Proof.
  intros H1 HA tr. destruct (run_bound rnd sparse acts _ (init_Inv c) HA) as (B1 & B2).
  change (nvis (fst (init n c))) with 0 in B1, B2. fold tr in B1, B2. split; [lia|]. intro Hlen.
  destruct (Z.eq_dec (st (snd (last tr (mkS [] 0 [] [] 0, mkTS MID [] [])))) LAST) as [E|E]; [exact E|].
  exfalso. specialize (B2 E). pose proof (run_not_ended_length rnd sparse acts _ E) as L. fold tr in L. lia.
Qed.

Theorem C11_horizon rnd sparse acts s : Inv n s -> Forall (fun a => 0 <= a < n) acts ->
  Z.of_nat (length (run rnd sparse s acts)) <= Z.max 1 (n - nvis s).
Proof. intros I HA. apply (run_bound rnd sparse acts s I HA). Qed.

(* ---------- C10 / C01: generated instances, declared ranges ---------- *)
Definition coords_ok (sc : Z) (c : list Z) : Prop := Forall (fun x => 0 <= x <= sc) c /\ zlen c = 2 * n.

Lemma coords_ok_b sc c : forallb (fun x => (0 <=? x) && (x <=? sc)) c && (zlen c =? 2 * n) = true <-> coords_ok sc c.
Proof.
  unfold coords_ok. rewrite andb_true_iff, forallb_forall, Forall_forall, Z.eqb_eq.
  split; intros (A & B); (split; [|exact B]); intros x Hx; specialize (A x Hx); lia.
Qed.

Theorem C01_ranges sc s : Inv n s -> coords_ok sc (coords s) -> ranges_b n sc s = true.
Proof.
  intros I C. destruct (Inv_meaning s I) as (_ & F & _ & _ & S1 & S2 & _ & Tr & Po). set (tour := tour_of s) in *.
  unfold ranges_b. apply coords_ok_b in C. apply andb_true_iff in C as (C1 & C2).
  rewrite C1, C2, S1, S2, !Z.eqb_refl. cbn [andb]. rewrite !andb_true_r.
  assert (FB : Forall (fun x => -1 <= x <= n - 1) tour) by (eapply Forall_impl; [|exact F]; cbn beta; intros; lia).
  apply andb_true_iff. split.
  - rewrite Po. destruct tour as [|x t]; [cbn [last]; lia|].
    rewrite Forall_forall in FB. specialize (FB _ (last_In t x (-1))). lia.
  - rewrite Tr. rewrite forallb_forall. intros x Hx. apply in_app_or in Hx. destruct Hx as [Hx|Hx].
    + rewrite Forall_forall in FB. specialize (FB x Hx). lia.
    + apply repeat_spec in Hx. subst x. lia.
Qed.

(* ranges hold on EVERY emitted state: the reset state and the successor of any in-spec action, terminal ones included *)
Theorem C01_ranges_step sc rnd sparse s a : Inv n s -> coords_ok sc (coords s) -> 0 <= a < n ->
  ranges_b n sc (fst (step_r rnd sparse n pen dist s a)) = true.
Proof. intros I C Ha. apply C01_ranges; [apply step_Inv; assumption|rewrite step_coords; exact C]. Qed.

Theorem C10_init_wf sc c : valid_draw n sc c = true ->
  let s0 := fst (init n c) in
  Inv n s0 /\ ranges_b n sc s0 = true /\ position s0 = -1 /\ nvis s0 = 0 /\ tour_of s0 = []
  /\ visited s0 = repeat false (Z.to_nat n) /\ traj s0 = repeat (-1) (Z.to_nat n) /\ coords s0 = c
  /\ snd (init n c) = restart 1
  /\ zlen c = 2 * n /\ Forall (fun x => 0 <= x < sc) c.
Proof.
  intros V s0. unfold valid_draw in V. apply andb_true_iff in V as (V1 & V2). apply Z.eqb_eq in V1.
  assert (F : Forall (fun x => 0 <= x < sc) c).
  { rewrite Forall_forall. rewrite forallb_forall in V2. intros x Hx. specialize (V2 x Hx). lia. }
  split; [apply init_Inv|]. split.
  - apply C01_ranges; [apply init_Inv|]. split; [|exact V1]. eapply Forall_impl; [|exact F]. cbn beta. intros; lia.
  - repeat split; try reflexivity; assumption.
Qed.

(* ---------- combined statements used by Props ---------- *)
Theorem legal_iff_not_on_tour s a : Inv n s -> 0 <= a < n -> (legal s a <-> ~ In a (tour_of s)).
Proof.
  intros I Ha. destruct (Inv_tour s I) as (G & E). rewrite <- legal_b_spec. rewrite E at 1. rewrite legal_view by exact Ha.
  rewrite negb_true_iff. apply mem_false.
Qed.

Theorem C01_reset sc c : valid_draw n sc c = true ->
  ranges_b n sc (fst (init n c)) = true /\ position (fst (init n c)) = -1 /\ mask (fst (init n c)) = repeat true (Z.to_nat n).
Proof.
  intro V. destruct (C10_init_wf sc c V) as (_ & R & P & _). split; [exact R|]. split; [exact P|].
  unfold mask, init. cbn [fst visited]. generalize (Z.to_nat n). intro k. induction k as [|k IH]; [reflexivity|]. cbn [repeat map negb]. rewrite IH. reflexivity.
Qed.

Theorem C01_every_step sc rnd sparse s a : Inv n s -> coords_ok sc (coords s) -> 0 <= a < n ->
  let s' := fst (step_r rnd sparse n pen dist s a) in
  ranges_b n sc s' = true /\ Inv n s' /\ coords s' = coords s.
Proof.
  intros I C Ha. split; [apply C01_ranges_step; assumption|]. split; [apply step_Inv; assumption|apply step_coords].
Qed.

(* C05 seen from the mask: a masked-out in-spec action on a non-terminal consistent state *)
Theorem C05_masked_out rnd sparse s a : Inv n s -> nvis s < n -> 0 <= a < n -> jget false (mask s) a = false ->
  step_r rnd sparse n pen dist s a = (s, termination 1 [- pen]).
Proof.
  intros I L Ha M. apply C05_revisit; try assumption. intro Lg.
  destruct (Inv_meaning s I) as (_ & _ & _ & _ & S1 & _). apply (C04_mask_iff_legal n s a S1 Ha) in Lg. congruence.
Qed.

(* a legal action is never treated as invalid: the city is appended, the reward is not the penalty branch *)
Theorem C05_legal_accepted rnd sparse s a : Inv n s -> 0 <= a < n -> legal s a ->
  fst (step_r rnd sparse n pen dist s a) = visit s a /\ tour_of (fst (step_r rnd sparse n pen dist s a)) = tour_of s ++ [a].
Proof.
  intros I Ha Lg. destruct (Inv_tour s I) as (G & E).
  assert (M : mem (tour_of s) a = false).
  { apply legal_b_spec in Lg. rewrite E in Lg. rewrite legal_view in Lg by exact Ha. apply negb_true_iff in Lg. exact Lg. }
  rewrite E at 1 2 3. rewrite step_view by assumption. cbn [fst]. rewrite visit_view by assumption. rewrite tour_of_view. split; reflexivity.
Qed.
End Oracle.

(* ---------- float32: the binary32 rounding of the dense closing sum is the identity on small integers, so the rounded model
   IS the exact model whenever all distance codes and the penalty code are below 2^22 (e.g. integer-grid instances) ---------- *)
Lemma rne24_small x : -16777216 < x < 16777216 -> rne24 x = x.
Proof.
  intro H. unfold rne24, rne24_pos. destruct (x <? 0) eqn:E.
  - replace (- x <? 16777216) with true by lia. lia.
  - replace (x <? 16777216) with true by lia. reflexivity.
Qed.

Theorem float_step_exact sparse n pen dist s a :
  (forall i j, 0 <= dist i j < 4194304) -> 0 <= pen < 4194304 ->
  step_r rne24 sparse n pen dist s a = step sparse n pen dist s a.
Proof.
  intros HD HP. unfold step, step_r. f_equal. f_equal. f_equal. unfold reward_of.
  destruct sparse; [reflexivity|].
  destruct (all_true _); [|reflexivity]. unfold rid.
  set (d2 := dist _ _). pose proof (HD (city n (position (if valid s a then update s a else s))) (city n (jget (-1) (traj s) 0))) as B2. fold d2 in B2.
  set (d1 := dist _ _). pose proof (HD (city n (position s)) (city n (position (if valid s a then update s a else s)))) as B1. fold d1 in B1.
  apply rne24_small. destruct (nvis s =? 0); destruct (valid s a); lia.
Qed.

(* ---------- a concrete non-trivial instance: 4 cities on a line at 0, 3, 7, 12 (distance = |difference|), penalty 99 ---------- *)
Definition ex_dist (i j : Z) : Z := Z.abs (znth 0 [0; 3; 7; 12] i - znth 0 [0; 3; 7; 12] j).
Example nonvacuous :
  let c := [0; 0; 3; 0; 7; 0; 12; 0] in
  let s0 := fst (init 4 c) in
  let s1 := fst (step false 4 99 ex_dist s0 2) in
  let s2 := fst (step false 4 99 ex_dist s1 0) in
  valid_draw 4 16 c = true /\ Inv_b 4 s0 = true /\ position s0 = -1 /\ mask s0 = [true; true; true; true]
  /\ s1 = mkS c 2 [false; false; true; false] [2; -1; -1; -1] 1 /\ snd (step false 4 99 ex_dist s0 2) = transition 1 [0]
  /\ snd (step false 4 99 ex_dist s1 0) = transition 1 [-7] /\ mask s2 = [false; true; false; true] /\ Inv_b 4 s2 = true
  /\ step false 4 99 ex_dist s2 2 = (s2, termination 1 [-99]) /\ step true 4 99 ex_dist s2 0 = (s2, termination 1 [-99])
  /\ map (fun p => reward (snd p)) (run 4 99 ex_dist rid false s0 [2; 0; 3; 1]) = [[0]; [-7]; [-12]; [-9 - 4]]
  /\ map (fun p => reward (snd p)) (run 4 99 ex_dist rid true s0 [2; 0; 3; 1]) = [[0]; [0]; [0]; [-32]]
  /\ closed_len ex_dist [2; 0; 3; 1] = 32 /\ perm_b 4 (traj (final (run 4 99 ex_dist rid true s0 [2; 0; 3; 1]) s0)) = true.
Proof. vm_compute. repeat split; reflexivity. Qed.

(* C11, "never earlier without another cause": a mask-respecting episode from the reset state that ends has exactly num_cities steps *)
Theorem C11_legal_episode_exact n pen dist c acts : 0 <= n ->
  let s0 := fst (init n c) in
  legal_run n pen dist rid true s0 acts -> ended (run n pen dist rid true s0 acts) ->
  length (run n pen dist rid true s0 acts) = Z.to_nat n /\ nvis (final (run n pen dist rid true s0 acts) s0) = n.
Proof.
  intros Hn s0 HL HE. destruct (C08_return n pen dist Hn c acts HL HE) as (T & P & _ & F & _ & _ & L & _).
  split; [exact L|]. fold s0 in F. rewrite F. cbn [view nvis]. unfold zlen. rewrite (Permutation.Permutation_length P), zrange_length. lia.
Qed.
