(* TSP: list facts used by Proofs/TSP.v - membership masks, the -1 padded trajectory, pigeonhole on distinct cities,
   path / closed-tour lengths over an ARBITRARY distance function. *)
Require Import JV.Base.Prelude JV.Base.JaxIndex JV.Base.Codec JV.Base.TimeStep JV.Model.TSP.
From Coq Require Import Permutation.

(* ---------- generic ---------- *)
Lemma znth_nth {A} (d : A) l i : 0 <= i -> znth d l i = nth (Z.to_nat i) l d.
Proof. intro H. unfold znth. destruct (i <? 0) eqn:E; [lia|reflexivity]. Qed.

Lemma jget_znth {A} (d : A) l i : 0 <= i < zlen l -> jget d l i = znth d l i.
Proof. intro H. unfold jget. rewrite jclamp_id by lia. reflexivity. Qed.

Lemma jset_zupd {A} (l : list A) i v : 0 <= i < zlen l -> jset l i v = zupd i v l.
Proof.
  intro H. unfold jset, jnorm. destruct (i <? 0) eqn:E; [lia|].
  replace ((0 <=? i) && (i <? zlen l)) with true by lia. reflexivity.
Qed.

Lemma zupd_upd {A} (l : list A) i v : 0 <= i -> zupd i v l = upd (Z.to_nat i) v l.
Proof. intro H. unfold zupd. destruct (i <? 0) eqn:E; [lia|reflexivity]. Qed.

Lemma zrange_length n : length (zrange n) = Z.to_nat n.
Proof. unfold zrange. apply zrange_from_length. Qed.

Lemma zlen_zrange n : 0 <= n -> zlen (zrange n) = n.
Proof. intro H. unfold zlen. rewrite zrange_length. lia. Qed.

Lemma nth_map_zrange_nat {A} (f : Z -> A) n k d : (k < Z.to_nat n)%nat -> nth k (map f (zrange n)) d = f (Z.of_nat k).
Proof.
  intro H. unfold zrange. rewrite nth_indep with (d' := f 0) by (rewrite map_length, zrange_from_length; lia).
  rewrite map_nth. rewrite zrange_from_nth by lia. f_equal.
Qed.

Lemma nth_map_zrange {A} (f : Z -> A) n i d : 0 <= i < n -> nth (Z.to_nat i) (map f (zrange n)) d = f i.
Proof. intro H. rewrite nth_map_zrange_nat by lia. f_equal. lia. Qed.

Lemma NoDup_zrange_from s k : NoDup (zrange_from s k).
Proof.
  revert s; induction k as [|k IH]; intro s; cbn [zrange_from]; constructor; [|apply IH].
  rewrite in_zrange_from. lia.
Qed.

Lemma NoDup_zrange n : NoDup (zrange n).
Proof. apply NoDup_zrange_from. Qed.

Lemma last_cons_indep {A} (l : list A) x d d' : last (x :: l) d = last (x :: l) d'.
Proof.
  revert x; induction l as [|y l IH]; intro x; [reflexivity|].
  change (last (y :: l) d = last (y :: l) d'). apply IH.
Qed.

Lemma last_snoc {A} (l : list A) a d : last (l ++ [a]) d = a.
Proof. apply last_last. Qed.

Lemma last_In {A} (l : list A) x d : In (last (x :: l) d) (x :: l).
Proof.
  revert x; induction l as [|y l IH]; intro x; [left; reflexivity|].
  right. change (In (last (y :: l) d) (y :: l)). apply IH.
Qed.

Lemma upd_app_len {A} (l r : list A) x v : upd (length l) v (l ++ x :: r) = l ++ v :: r.
Proof. induction l as [|h t IH]; cbn [length app upd]; [reflexivity|]. rewrite IH. reflexivity. Qed.

Lemma map_const_repeat {A B} (b : B) (l : list A) : map (fun _ => b) l = repeat b (length l).
Proof. induction l as [|x l IH]; cbn [map length repeat]; [reflexivity|]. rewrite IH. reflexivity. Qed.

Lemma forallb_map_id {A} (f : A -> bool) l : all_true (map f l) = forallb f l.
Proof. unfold all_true. induction l as [|x l IH]; cbn [map forallb]; [reflexivity|]. rewrite IH. reflexivity. Qed.

Lemma firstn_app_exact {A} (l r : list A) : firstn (length l) (l ++ r) = l.
Proof. induction l as [|h t IH]; cbn [length firstn app]; [destruct r; reflexivity|]. rewrite IH. reflexivity. Qed.

Lemma list_eqb_Z a b : list_eqb Z.eqb a b = true <-> a = b.
Proof. apply list_eqb_eq. intros x y. apply Z.eqb_eq. Qed.

Lemma list_eqb_bool a b : list_eqb Bool.eqb a b = true <-> a = b.
Proof. apply list_eqb_eq. intros x y. destruct x, y; cbn; split; congruence. Qed.

(* ---------- membership, distinctness ---------- *)
Lemma mem_In l i : mem l i = true <-> In i l.
Proof.
  unfold mem. rewrite existsb_exists. split.
  - intros (x & H & E). apply Z.eqb_eq in E. subst. exact H.
  - intro H. exists i. split; [exact H|apply Z.eqb_refl].
Qed.

Lemma mem_false l i : mem l i = false <-> ~ In i l.
Proof. rewrite <- mem_In. destruct (mem l i); split; intro H; try reflexivity; try discriminate; try (intro; discriminate). exfalso; apply H; reflexivity. Qed.

Lemma mem_snoc l a i : mem (l ++ [a]) i = mem l i || (i =? a).
Proof. unfold mem. rewrite existsb_app. cbn [existsb]. rewrite orb_false_r. reflexivity. Qed.

Lemma nodup_b_spec l : nodup_b l = true <-> NoDup l.
Proof.
  induction l as [|x l IH]; cbn [nodup_b]; [split; [constructor|reflexivity]|].
  rewrite andb_true_iff, negb_true_iff, mem_false, IH. split.
  - intros (A & B). constructor; assumption.
  - intro H. inversion H; subst. split; assumption.
Qed.

Lemma range_forallb n l : forallb (fun c => (0 <=? c) && (c <? n)) l = true <-> Forall (fun c => 0 <= c < n) l.
Proof.
  rewrite forallb_forall, Forall_forall. split; intros H x Hx; specialize (H x Hx); lia.
Qed.

Lemma good_b_spec n l : good_b n l = true <-> good n l.
Proof. unfold good_b, good. rewrite andb_true_iff, nodup_b_spec, range_forallb. tauto. Qed.

Lemma good_nil n : good n [].
Proof. split; constructor. Qed.

Lemma good_incl n tour : good n tour -> incl tour (zrange n).
Proof. intros (_ & F) x Hx. rewrite Forall_forall in F. apply in_zrange. apply F. exact Hx. Qed.

(* pigeonhole: a partial tour never has more than n cities *)
Lemma good_length n tour : good n tour -> zlen tour <= Z.max 0 n.
Proof.
  intro G. pose proof (NoDup_incl_length (proj1 G) (good_incl n tour G)) as L.
  rewrite zrange_length in L. unfold zlen. lia.
Qed.

Lemma good_snoc n tour a : good n tour -> 0 <= a < n -> mem tour a = false -> good n (tour ++ [a]).
Proof.
  intros (ND & F) Ha M. apply mem_false in M. split.
  - apply (Permutation_NoDup (Permutation_cons_append tour a)). constructor; assumption.
  - apply Forall_app. split; [exact F|]. constructor; [exact Ha|constructor].
Qed.

Lemma good_snoc_length n tour a : good n tour -> 0 <= a < n -> mem tour a = false -> zlen tour + 1 <= n.
Proof.
  intros G Ha M. pose proof (good_length n _ (good_snoc n tour a G Ha M)) as L.
  rewrite zlen_app in L. unfold zlen in L at 2. cbn [length] in L. lia.
Qed.

(* every city visited <=> the partial tour has n cities *)
Lemma all_visited n tour : 0 <= n -> good n tour -> all_true (map (mem tour) (zrange n)) = (zlen tour =? n).
Proof.
  intros Hn G. rewrite forallb_map_id. apply Bool.eq_iff_eq_true. rewrite forallb_forall, Z.eqb_eq.
  pose proof (good_length n tour G) as L. split.
  - intro H. assert (I : incl (zrange n) tour) by (intros x Hx; apply mem_In; apply H; exact Hx).
    pose proof (NoDup_incl_length (NoDup_zrange n) I) as L2. rewrite zrange_length in L2. unfold zlen in *. lia.
  - intros E x Hx. apply mem_In.
    refine (@NoDup_length_incl Z tour (zrange n) (proj1 G) _ (good_incl n tour G) x Hx).
    rewrite zrange_length; unfold zlen in E; lia.
Qed.

(* a complete tour is a permutation of the cities *)
Lemma good_complete_perm n tour : 0 <= n -> good n tour -> zlen tour = n -> Permutation tour (zrange n).
Proof.
  intros Hn G E. apply NoDup_Permutation; [exact (proj1 G)|apply NoDup_zrange|].
  intro x. split; [apply good_incl; exact G|].
  intro Hx. refine (@NoDup_length_incl Z tour (zrange n) (proj1 G) _ (good_incl n tour G) x Hx).
  rewrite zrange_length; unfold zlen in E; lia.
Qed.

(* ---------- the visited mask as a gather / scatter ---------- *)
Lemma zlen_mask n (f : Z -> bool) : 0 <= n -> zlen (map f (zrange n)) = n.
Proof. intro H. unfold zlen. rewrite map_length, zrange_length. lia. Qed.

Lemma visited_get n tour a : 0 <= a < n -> jget false (map (mem tour) (zrange n)) a = mem tour a.
Proof. intro H. rewrite jget_in_range by (rewrite zlen_mask; lia). apply nth_map_zrange. exact H. Qed.

Lemma visited_znth n tour a d : 0 <= a < n -> znth d (map (mem tour) (zrange n)) a = mem tour a.
Proof. intro H. rewrite znth_nth by lia. apply nth_map_zrange. exact H. Qed.

Lemma visited_set n tour a : 0 <= a < n -> jset (map (mem tour) (zrange n)) a true = map (mem (tour ++ [a])) (zrange n).
Proof.
  intro H. rewrite jset_in_range by (rewrite zlen_mask; lia).
  apply (nth_ext _ _ false false).
  - rewrite upd_length, !map_length. reflexivity.
  - intros k Hk. rewrite upd_length, map_length, zrange_length in Hk.
    rewrite (nth_map_zrange_nat (mem (tour ++ [a]))) by exact Hk. rewrite mem_snoc.
    destruct (Nat.eq_dec k (Z.to_nat a)) as [E|E].
    + subst k. rewrite nth_upd_same by (rewrite map_length, zrange_length; exact Hk).
      replace (Z.of_nat (Z.to_nat a) =? a) with true by lia. rewrite orb_true_r. reflexivity.
    + rewrite nth_upd_other by (intro; apply E; congruence). rewrite nth_map_zrange_nat by exact Hk.
      replace (Z.of_nat k =? a) with false by lia. rewrite orb_false_r. reflexivity.
Qed.

(* ---------- the -1 padded trajectory ---------- *)
Lemma traj_set (tour : list Z) k a : (1 <= k)%nat ->
  jset (tour ++ repeat (-1) k) (zlen tour) a = (tour ++ [a]) ++ repeat (-1) (k - 1).
Proof.
  intro Hk. destruct k as [|k]; [lia|]. cbn [repeat]. replace (S k - 1)%nat with k by lia.
  rewrite jset_in_range.
  - unfold zlen. rewrite Nat2Z.id. rewrite upd_app_len. rewrite <- app_assoc. reflexivity.
  - rewrite zlen_app, zlen_cons. pose proof (zlen_nonneg tour). pose proof (zlen_nonneg (repeat (-1) k)). lia.
Qed.

Lemma traj_first (tour : list Z) k x t : tour = x :: t -> jget (-1) (tour ++ repeat (-1) k) 0 = x.
Proof.
  intro E. subst tour. rewrite jget_in_range.
  - reflexivity.
  - cbn [app]. rewrite zlen_cons. pose proof (zlen_nonneg (t ++ repeat (-1) k)). lia.
Qed.

Lemma tour_of_padded (tour : list Z) k : firstn_z (zlen tour) (tour ++ repeat (-1) k) = tour.
Proof. unfold firstn_z, zlen. rewrite Nat2Z.id. apply firstn_app_exact. Qed.

(* ---------- path and closed-tour lengths, any distance function ---------- *)
Section Dist.
Variable dist : Z -> Z -> Z.

Lemma path_len_snoc tour a : path_len dist (tour ++ [a]) = path_len dist tour + edge dist tour a.
Proof.
  induction tour as [|x t IH]; [reflexivity|].
  destruct t as [|y t'].
  - cbn [app path_len edge last]. lia.
  - change ((x :: y :: t') ++ [a]) with (x :: y :: (t' ++ [a])).
    change (path_len dist (x :: y :: t' ++ [a])) with (dist x y + path_len dist ((y :: t') ++ [a])).
    rewrite IH. change (path_len dist (x :: y :: t')) with (dist x y + path_len dist (y :: t')).
    unfold edge. change (last (x :: y :: t') a) with (last (y :: t') a). lia.
Qed.

Lemma closed_len_snoc tour a :
  closed_len dist (tour ++ [a]) = path_len dist tour + edge dist tour a + dist a (hd a (tour ++ [a])).
Proof.
  destruct tour as [|x t].
  - cbn [app closed_len path_len edge last hd]. lia.
  - change ((x :: t) ++ [a]) with (x :: (t ++ [a])). unfold closed_len.
    change (x :: t ++ [a]) with ((x :: t) ++ [a]). rewrite path_len_snoc, last_snoc. reflexivity.
Qed.

(* the code's rolled sum is the closed tour length *)
Lemma rolled_sum x l y : zsum (map2 dist (x :: l) (l ++ [y])) = path_len dist (x :: l) + dist (last (x :: l) x) y.
Proof.
  revert x; induction l as [|z l IH]; intro x.
  - cbn [app map2 zsum path_len last]. lia.
  - change (zsum (map2 dist (x :: z :: l) ((z :: l) ++ [y]))) with (dist x z + zsum (map2 dist (z :: l) (l ++ [y]))).
    rewrite IH. change (path_len dist (x :: z :: l)) with (dist x z + path_len dist (z :: l)).
    change (last (x :: z :: l) x) with (last (z :: l) x). rewrite (last_cons_indep l z x z). lia.
Qed.

Lemma map_city_id n l : Forall (fun c => 0 <= c < n) l -> map (city n) l = l.
Proof.
  induction 1 as [|x l Hx F IH]; [reflexivity|]. cbn [map]. rewrite IH. unfold city. rewrite jclamp_id by exact Hx. reflexivity.
Qed.

Lemma tour_length_closed n l : Forall (fun c => 0 <= c < n) l -> tour_length n dist l = closed_len dist l.
Proof.
  intro F. unfold tour_length. rewrite (map_city_id n l F). destruct l as [|x l]; [reflexivity|].
  cbn [roll1 closed_len]. apply rolled_sum.
Qed.
End Dist.
