(* Tetris, part 1: the tetromino tables (re-checked by vm_compute on the generated constants), the spec of
   check_valid / pad_last3, and C04: the action mask is exactly the set of legal placements.          *)
Require Import JV.Base.Prelude JV.Base.JaxIndex JV.Base.Codec JV.Base.TimeStep JV.Gen.TetrisConsts JV.Model.Tetris.
Require Import JV.Proofs.Tetris_lib.

Lemma bool_eq_iff (a b : bool) : (a = true <-> b = true) -> a = b.
Proof. destruct a, b; intros [H1 H2]; auto; try (symmetry; auto); discriminate (H1 eq_refl) || discriminate (H2 eq_refl). Qed.

(* ================= table facts ================= *)
Definition all_pieces : list zgrid := concat TETROMINOES_LIST.

Definition bin_b (t : zgrid) : bool := all44 (fun i j => (cell t i j =? 0) || (cell t i j =? 1)).
Definition upfill_b (t : zgrid) : bool :=
  all44 (fun i j => cell (tetromino_mask t) i j =?
                    (if existsb (fun i' => (i <=? i') && (cell t i' j =? 1)) (zrange 4) then 1 else 0)).
Definition colne_b (t : zgrid) : bool :=
  all4 (fun j => Bool.eqb (col_nonempty t j) (existsb (fun i => cell t i j =? 1) (zrange 4))).
Definition rowne_b (t : zgrid) : bool :=
  all4 (fun i => Bool.eqb (row_nonempty t i) (existsb (fun j => cell t i j =? 1) (zrange 4))).
Definition contig_b (t : zgrid) : bool :=
  all44 (fun j k => implb ((1 <=? k) && (k <=? j))
     (implb (col_nonempty t j) (col_nonempty t k) && implb (row_nonempty t j) (row_nonempty t k))).
Definition ncells (t : zgrid) : Z :=
  zsum (map (fun a => zsum (map (fun b => b2z (cell t a b =? 1)) (zrange 4))) (zrange 4)).
Definition piece_ok_b (t : zgrid) : bool :=
  bin_b t && upfill_b t && colne_b t && rowne_b t && contig_b t && (ncells t =? 4)
  && row_nonempty t 0 && col_nonempty t 0 && (zlen t =? 4) && forallb (fun r => zlen r =? 4) t.

(* THE table check: every one of the 7 x 4 shipped matrices is a 0/1 4x4 matrix with exactly four cells, top-left
   aligned, with contiguous rows/columns, and tetromino_mask fills each column upwards *)
Lemma pieces_ok : forallb piece_ok_b all_pieces = true.
Proof. vm_compute. reflexivity. Qed.

Lemma tables_shape :
  zlen TETROMINOES_LIST = 7 /\ forallb (fun l => zlen l =? NUM_ROTATIONS) TETROMINOES_LIST = true
  /\ NUM_ROTATIONS = 4 /\ REWARD_LIST = [0; 40; 100; 300; 1200].
Proof. vm_compute. auto. Qed.

Lemma jget_In {A} (d : A) l i : 0 < zlen l -> In (jget d l i) l.
Proof. intro H. unfold jget. apply znth_In. apply jclamp_range. exact H. Qed.

Lemma rotations_len idx : zlen (jget [] TETROMINOES_LIST idx) = 4.
Proof.
  destruct tables_shape as [H7 [HR _]]. rewrite forallb_forall in HR.
  assert (Hin : In (jget [] TETROMINOES_LIST idx) TETROMINOES_LIST) by (apply jget_In; lia).
  specialize (HR _ Hin). cbv [NUM_ROTATIONS] in HR. lia.
Qed.

Lemma piece_in idx rot : In (piece idx rot) all_pieces.
Proof.
  unfold piece, all_pieces. apply in_concat. exists (jget [] TETROMINOES_LIST idx). split.
  - apply jget_In. destruct tables_shape as [H7 _]. lia.
  - apply jget_In. rewrite rotations_len. lia.
Qed.

Record PieceOK (t : zgrid) : Prop := {
  pk_bin : forall i j, 0 <= i < 4 -> 0 <= j < 4 -> cell t i j = 0 \/ cell t i j = 1;
  pk_mbin : forall i j, 0 <= i < 4 -> 0 <= j < 4 -> cell (tetromino_mask t) i j = 0 \/ cell (tetromino_mask t) i j = 1;
  pk_up : forall i j, 0 <= i < 4 -> 0 <= j < 4 ->
            (cell (tetromino_mask t) i j = 1 <-> exists i', i <= i' < 4 /\ cell t i' j = 1);
  pk_col : forall j, 0 <= j < 4 -> (col_nonempty t j = true <-> exists i, 0 <= i < 4 /\ cell t i j = 1);
  pk_row : forall i, 0 <= i < 4 -> (row_nonempty t i = true <-> exists j, 0 <= j < 4 /\ cell t i j = 1);
  pk_ccol : forall j k, 1 <= k <= j -> j < 4 -> col_nonempty t j = true -> col_nonempty t k = true;
  pk_crow : forall j k, 1 <= k <= j -> j < 4 -> row_nonempty t j = true -> row_nonempty t k = true;
  pk_four : ncells t = 4;
  pk_top : row_nonempty t 0 = true;
  pk_left : col_nonempty t 0 = true;
  pk_h : zlen t = 4;
  pk_w : forall r, In r t -> zlen r = 4 }.

Lemma eqb_existsb_iff (b : bool) f n (P : Z -> Prop) :
  (forall i, f i = true <-> P i) -> Bool.eqb b (existsb f (zrange n)) = true -> (b = true <-> exists i, 0 <= i < n /\ P i).
Proof.
  intros Hf E. apply eqb_prop in E. subst b. rewrite existsb_zrange.
  split; intros [i [Hi H]]; exists i; split; auto; apply Hf; auto.
Qed.

Lemma piece_ok t : In t all_pieces -> PieceOK t.
Proof.
  intro Hin. pose proof pieces_ok as H. rewrite forallb_forall in H. specialize (H t Hin).
  unfold piece_ok_b in H. rewrite !andb_true_iff in H.
  destruct H as [[[[[[[[[Hbin Hup] Hcol] Hrow] Hcon] H4c] Htop] Hleft] Hh] Hw].
  unfold bin_b in Hbin. rewrite all44_spec in Hbin.
  unfold upfill_b in Hup. rewrite all44_spec in Hup.
  unfold colne_b in Hcol. rewrite all4_spec in Hcol.
  unfold rowne_b in Hrow. rewrite all4_spec in Hrow.
  unfold contig_b in Hcon. rewrite all44_spec in Hcon.
  constructor.
  - intros i j Hi Hj. specialize (Hbin i j Hi Hj). lia.
  - intros i j Hi Hj. specialize (Hup i j Hi Hj). destruct (existsb _ _); lia.
  - intros i j Hi Hj. specialize (Hup i j Hi Hj).
    destruct (existsb _ _) eqn:E.
    + split; [intros _|lia]. apply existsb_zrange in E. destruct E as [i' [Hi' E]]. exists i'. lia.
    + split; [lia|]. intros [i' [Hi' E']]. exfalso.
      assert (X : existsb (fun i'0 : Z => (i <=? i'0) && (cell t i'0 j =? 1)) (zrange 4) = true)
        by (apply existsb_zrange; exists i'; lia). congruence.
  - intros j Hj. apply (eqb_existsb_iff _ (fun i => cell t i j =? 1) 4 (fun i => cell t i j = 1)); [intro; lia | auto].
  - intros i Hi. apply (eqb_existsb_iff _ (fun j => cell t i j =? 1) 4 (fun j => cell t i j = 1)); [intro; lia | auto].
  - intros j k Hk Hj Hc. specialize (Hcon j k ltac:(lia) ltac:(lia)).
    replace ((1 <=? k) && (k <=? j)) with true in Hcon by lia. cbn [implb] in Hcon.
    apply andb_true_iff in Hcon. destruct Hcon as [Hcon _]. rewrite Hc in Hcon. exact Hcon.
  - intros j k Hk Hj Hc. specialize (Hcon j k ltac:(lia) ltac:(lia)).
    replace ((1 <=? k) && (k <=? j)) with true in Hcon by lia. cbn [implb] in Hcon.
    apply andb_true_iff in Hcon. destruct Hcon as [_ Hcon]. rewrite Hc in Hcon. exact Hcon.
  - lia.
  - exact Htop.
  - exact Hleft.
  - lia.
  - intros r Hr. rewrite forallb_forall in Hw. specialize (Hw r Hr). lia.
Qed.

(* ================= shapes ================= *)
Definition Shape (nr nc : Z) (g : zgrid) : Prop :=
  zlen g = nr + 3 /\ forall r, In r g -> zlen r = nc + 3 /\ forall v, In v r -> 0 <= v.

Lemma shape_b_spec nr nc g : shape_b nr nc g = true <-> Shape nr nc g.
Proof.
  unfold shape_b, Shape. rewrite andb_true_iff, forallb_forall. split.
  - intros [H1 H2]. split; [lia|]. intros r Hr. specialize (H2 r Hr). apply andb_true_iff in H2. destruct H2 as [H2 H3].
    split; [lia|]. rewrite forallb_forall in H3. intros v Hv. specialize (H3 v Hv). lia.
  - intros [H1 H2]. split; [lia|]. intros r Hr. destruct (H2 r Hr) as [H3 H4]. apply andb_true_iff. split; [lia|].
    apply forallb_forall. intros v Hv. specialize (H4 v Hv). lia.
Qed.

Lemma shape_row nr nc g i : Shape nr nc g -> 0 <= i < nr + 3 -> zlen (znth [] g i) = nc + 3.
Proof. intros [H1 H2] Hi. apply H2. apply znth_In. lia. Qed.

Lemma shape_height nr nc g : Shape nr nc g -> height g = nr + 3.
Proof. intros [H _]. exact H. Qed.

Lemma shape_width nr nc g : Shape nr nc g -> 0 <= nr -> width g = nc + 3.
Proof. intros H Hn. unfold width. apply (shape_row nr nc); auto. lia. Qed.

Lemma shape_nonneg nr nc g i j : Shape nr nc g -> 0 <= gat 0 g i j.
Proof.
  intros [_ H]. unfold gat. destruct (znth_In_or [] g i) as [E|Hin].
  - rewrite E. unfold znth. destruct (j <? 0); [lia|]. destruct (Z.to_nat j); cbn; lia.
  - destruct (znth_In_or 0 (znth [] g i) j) as [E|Hv]; [lia|]. apply (H _ Hin). exact Hv.
Qed.

Lemma shape_as_tab nr nc g : Shape nr nc g -> g = tab (nr + 3) (nc + 3) (fun i j => gat 0 g i j).
Proof. intros [H1 H2]. apply grid_as_tab; auto. intros r Hr. apply H2. exact Hr. Qed.

Lemma gat_clip1 g i j : gat 0 (clip1 g) i j = Z.min 1 (gat 0 g i j).
Proof.
  unfold gat, clip1. change (@nil Z) with (map (Z.min 1) []) at 1. rewrite znth_map_d.
  change 0 with (Z.min 1 0) at 1. rewrite znth_map_d. reflexivity.
Qed.

Lemma shape_clip1 nr nc g : Shape nr nc g -> Shape nr nc (clip1 g).
Proof.
  intros [H1 H2]. unfold clip1. split; [rewrite zlen_map; auto|].
  intros r Hr. apply in_map_iff in Hr. destruct Hr as [r0 [E Hr0]]. subst r. destruct (H2 r0 Hr0) as [H3 H4].
  split; [rewrite zlen_map; auto|]. intros v Hv. apply in_map_iff in Hv. destruct Hv as [v0 [E Hv0]]. specialize (H4 v0 Hv0). lia.
Qed.

Lemma dyn_start_id n i : 0 <= i <= n - 4 -> dyn_start n 4 i = i.
Proof. intro H. unfold dyn_start, jnorm. destruct (i <? 0) eqn:E; lia. Qed.

(* ================= check_valid, pad_last3 ================= *)
Lemma check_valid_spec nr nc g q y x :
  Shape nr nc g -> 1 <= nr -> 0 <= y <= nr - 1 -> 0 <= x <= nc - 1 ->
  (forall i j, 0 <= i < 4 -> 0 <= j < 4 -> cell q i j = 0 \/ cell q i j = 1) ->
  (check_valid (clip1 g) q y x = true <->
   forall i j, 0 <= i < 4 -> 0 <= j < 4 -> cell q i j = 1 -> gat 0 g (y + i) (x + j) = 0).
Proof.
  intros HS Hnr Hy Hx Hq. unfold check_valid.
  rewrite (shape_height nr nc) by (apply shape_clip1; auto).
  rewrite (shape_width nr nc) by (try apply shape_clip1; auto; lia).
  rewrite !dyn_start_id by lia. rewrite all44_spec.
  split; intros H i j Hi Hj.
  - intro Hc. specialize (H i j Hi Hj). rewrite gat_clip1, Hc in H. pose proof (shape_nonneg nr nc g (y + i) (x + j) HS). lia.
  - rewrite gat_clip1. destruct (Hq i j Hi Hj) as [E|E]; rewrite E; [lia|]. rewrite (H i j Hi Hj E). lia.
Qed.

Lemma pad_last3_len l p : zlen (pad_last3 l p) = zlen l.
Proof. unfold pad_last3. rewrite zlen_map, zlen_zrange; auto using zlen_nonneg. Qed.

Lemma pad_last3_spec l p k : 0 <= k < zlen l ->
  znth false (pad_last3 l p) k = znth false l k && (if zlen l - 3 <=? k then negb (p (zlen l - k)) else true).
Proof.
  intro H. unfold pad_last3. rewrite (znth_map 0) by (rewrite zlen_zrange; lia). rewrite znth_zrange by lia.
  destruct (zlen l - 3 <=? k); [reflexivity | rewrite andb_true_r; reflexivity].
Qed.

(* ================= C04: mask = legal ================= *)
Lemma legal_b_spec nc g t x : legal_b nc g t x = true <-> legal nc g t x.
Proof.
  unfold legal_b, legal. rewrite all44_spec. split; intros H i j Hi Hj.
  - intro Hc. specialize (H i j Hi Hj). replace (cell t i j =? 1) with true in H by lia. cbn [implb] in H.
    apply andb_true_iff in H. destruct H as [H1 H2]. split; [lia|]. rewrite forallb_zrange in H2.
    intros i' Hi'. specialize (H2 i' ltac:(lia)). lia.
  - destruct (cell t i j =? 1) eqn:E; [|reflexivity]. cbn [implb]. destruct (H i j Hi Hj ltac:(lia)) as [H1 H2].
    apply andb_true_iff. split; [lia|]. apply forallb_zrange. intros i' Hi'. specialize (H2 i' ltac:(lia)). lia.
Qed.

Lemma action_mask_len nr nc g t : Shape nr nc g -> 0 <= nr -> 0 <= nc -> zlen (tetromino_action_mask g t) = nc.
Proof.
  intros HS Hnr Hnc. unfold tetromino_action_mask. rewrite pad_last3_len, zlen_map, (shape_width nr nc) by auto.
  rewrite zlen_zrange; lia.
Qed.

Lemma action_mask_spec nr nc g t x :
  Shape nr nc g -> 4 <= nr -> 4 <= nc -> In t all_pieces -> 0 <= x < nc ->
  znth false (tetromino_action_mask (clip1 g) t) x = legal_b nc g t x.
Proof.
  intros HS Hnr Hnc Hin Hx. pose proof (piece_ok t Hin) as PK.
  unfold tetromino_action_mask. rewrite (shape_width nr nc) by (try apply shape_clip1; auto; lia).
  replace (nc + 3 - 3) with nc by lia.
  rewrite pad_last3_spec by (rewrite zlen_map, zlen_zrange; lia).
  rewrite zlen_map, zlen_zrange by lia.
  rewrite (znth_map 0) by (rewrite zlen_zrange; lia). rewrite znth_zrange by lia.
  apply bool_eq_iff. rewrite legal_b_spec, andb_true_iff.
  rewrite (check_valid_spec nr nc) by (auto; try lia; apply (pk_mbin t PK)).
  split.
  - intros [HV HP] i j Hi Hj Hc. split.
    + destruct (Z_lt_dec (x + j) nc) as [|Hge]; [auto|exfalso].
      replace (nc - 3 <=? x) with true in HP by lia.
      assert (Cj : col_nonempty t j = true) by (apply (pk_col t PK); [lia|]; exists i; auto).
      pose proof (pk_ccol t PK j (nc - x) ltac:(lia) ltac:(lia) Cj) as Ck. rewrite Ck in HP. discriminate.
    + intros i' Hi'. specialize (HV i' j ltac:(lia) Hj). replace (0 + i') with i' in HV by lia. apply HV.
      apply (pk_up t PK); [lia|lia|]. exists i. split; [lia|auto].
  - intro HL. split.
    + intros i j Hi Hj Hm. apply (pk_up t PK) in Hm; [|lia|lia]. destruct Hm as [i' [Hi' Hc]].
      destruct (HL i' j ltac:(lia) Hj Hc) as [_ HF]. replace (0 + i) with i by lia. apply HF. lia.
    + destruct (nc - 3 <=? x) eqn:E; [|reflexivity]. destruct (col_nonempty t (nc - x)) eqn:Ck; [exfalso|reflexivity].
      apply (pk_col t PK) in Ck; [|lia]. destruct Ck as [i [Hi Hc]].
      destruct (HL i (nc - x) Hi ltac:(lia) Hc) as [HF _]. lia.
Qed.

Lemma jget_znth {A} (d : A) l i : 0 <= i < zlen l -> jget d l i = znth d l i.
Proof. intro H. unfold jget. rewrite jclamp_id by lia. reflexivity. Qed.

(* C04 *)
Theorem mask_is_legal_mask nr nc g idx :
  Shape nr nc g -> 4 <= nr -> 4 <= nc -> calc_mask (clip1 g) idx = legal_mask nc g idx.
Proof.
  intros HS Hnr Hnc. unfold calc_mask, legal_mask.
  destruct tables_shape as [_ [_ [HNR _]]]. rewrite HNR.
  apply (list_ext []); [rewrite zlen_map, rotations_len, zlen_tab; lia|].
  rewrite zlen_map, rotations_len. intros r Hr.
  rewrite (@znth_map zgrid (list bool) [] [] (tetromino_action_mask (clip1 g))) by (rewrite rotations_len; lia). rewrite znth_tab by lia.
  assert (EP : znth [] (jget [] TETROMINOES_LIST idx) r = piece idx r)
    by (unfold piece; rewrite (jget_znth [] (jget [] TETROMINOES_LIST idx) r) by (rewrite rotations_len; lia); reflexivity).
  unfold zgrid in *. rewrite EP.
  apply (list_ext false).
  - rewrite (action_mask_len nr nc) by (try apply shape_clip1; auto; lia). rewrite zlen_map, zlen_zrange; lia.
  - rewrite (action_mask_len nr nc) by (try apply shape_clip1; auto; lia). intros x Hx.
    rewrite (action_mask_spec nr nc) by (auto using piece_in).
    rewrite (znth_map 0) by (rewrite zlen_zrange; lia). rewrite znth_zrange by lia. reflexivity.
Qed.

Lemma legal_mask_get nc g idx r x : 0 <= r < 4 -> 0 <= x < nc ->
  gget false (legal_mask nc g idx) r x = legal_b nc g (piece idx r) x.
Proof.
  intros Hr Hx. unfold legal_mask, gget. destruct tables_shape as [_ [_ [HNR _]]]. rewrite HNR.
  set (f := fun r0 x0 : Z => legal_b nc g (piece idx r0) x0).
  assert (E : jget [] (tab 4 nc f) r = map (fun j => f r j) (zrange nc))
    by (rewrite jget_znth by (rewrite zlen_tab; lia); apply znth_tab; lia).
  rewrite E. rewrite jget_znth by (rewrite zlen_map, zlen_zrange; lia).
  rewrite (znth_map 0) by (rewrite zlen_zrange; lia). rewrite znth_zrange by lia. reflexivity.
Qed.
