(* Tetris, part 3: clean_lines (stable argsort + take_along_axis + zeroing loop) = delete the full rows and shift. *)
Require Import JV.Base.Prelude JV.Base.JaxIndex JV.Base.Codec JV.Base.TimeStep JV.Gen.TetrisConsts JV.Model.Tetris.
Require Import JV.Proofs.Tetris_lib.

Definition key0 (p : Z * Z) : bool := fst p =? 0.

Lemma insert_key0 i l : (forall p, In p l -> 0 <= fst p) -> insert_key 0 i l = (0, i) :: l.
Proof.
  intro H. destruct l as [|[k' i'] t]; cbn [insert_key]; [reflexivity|].
  specialize (H (k', i') (or_introl eq_refl)). cbn [fst] in H. replace (0 <=? k') with true by lia. reflexivity.
Qed.

Lemma insert_key1 i zs os :
  (forall p, In p zs -> fst p = 0) -> (forall p, In p os -> fst p = 1) ->
  insert_key 1 i (zs ++ os) = zs ++ (1, i) :: os.
Proof.
  intros Hz Ho. induction zs as [|[k' i'] zs IH]; cbn [app insert_key].
  - destruct os as [|[k' i'] t]; cbn [insert_key]; [reflexivity|].
    specialize (Ho (k', i') (or_introl eq_refl)). cbn [fst] in Ho. subst k'. reflexivity.
  - pose proof (Hz (k', i') (or_introl eq_refl)) as E. cbn [fst] in E. subst k'.
    replace (1 <=? 0) with false by lia. rewrite IH; [reflexivity|]. intros p Hp. apply Hz. right. exact Hp.
Qed.

(* a stable sort of 0/1 keys is the partition (zeros first, each class in the original order) *)
Lemma sort01 (ps : list (Z * Z)) :
  (forall p, In p ps -> fst p = 0 \/ fst p = 1) ->
  fold_right (fun ki acc => insert_key (fst ki) (snd ki) acc) [] ps
  = filter key0 ps ++ filter (fun p => negb (key0 p)) ps.
Proof.
  induction ps as [|[k i] ps IH]; intro H; cbn [fold_right filter]; [reflexivity|].
  rewrite IH by (intros p Hp; apply H; right; exact Hp). cbn [fst snd].
  destruct (H (k, i) (or_introl eq_refl)) as [E|E]; cbn [fst] in E; subst k; unfold key0 at 1 3; cbn [fst Z.eqb negb].
  - cbn [app]. apply insert_key0. intros p Hp. apply in_app_or in Hp. destruct Hp as [Hp|Hp]; apply filter_In in Hp;
      destruct Hp as [Hp _]; destruct (H p (or_intror Hp)); lia.
  - apply insert_key1; intros p Hp; apply filter_In in Hp; destruct Hp as [Hp Hk]; unfold key0 in Hk.
    + lia.
    + destruct (H p (or_intror Hp)); lia.
Qed.

Section Rows.
Variable f : list Z -> bool.                       (* is_full *)
Definition rkey (r : list Z) : Z := b2z (negb (f r)).
Definition pairs_from (s : Z) (g : zgrid) : list (Z * Z) := combine (map rkey g) (zrange_from s (length g)).

Lemma pairs_keys s g p : In p (pairs_from s g) -> fst p = 0 \/ fst p = 1.
Proof.
  unfold pairs_from. destruct p as [k i]. intro H. apply in_combine_l in H. apply in_map_iff in H.
  destruct H as [r [E _]]. cbn [fst]. subst k. unfold rkey. destruct (f r); cbn; auto.
Qed.

(* gathering the rows whose key passes q, through the indices kept by the filter, is filtering the rows *)
Lemma gather_filter (q : Z -> bool) (G : zgrid) s g :
  (forall k, (k < length g)%nat -> jget [] G (s + Z.of_nat k) = nth k g []) ->
  map (fun i => jget [] G i) (map snd (filter (fun p => q (fst p)) (pairs_from s g))) = filter (fun r => q (rkey r)) g.
Proof.
  revert s; induction g as [|r g IH]; intros s H; [reflexivity|].
  unfold pairs_from. cbn [length map zrange_from combine filter fst].
  assert (Hr : jget [] G s = r) by (specialize (H O ltac:(cbn; lia)); rewrite Z.add_0_r in H; exact H).
  assert (IH' : map (fun i => jget [] G i) (map snd (filter (fun p => q (fst p)) (pairs_from (s + 1) g))) = filter (fun r => q (rkey r)) g).
  { apply IH. intros k Hk. specialize (H (S k) ltac:(cbn; lia)). cbn [nth] in H. rewrite <- H. f_equal. lia. }
  unfold pairs_from in IH'.
  destruct (q (rkey r)); cbn [map snd]; rewrite IH'; [rewrite Hr|]; reflexivity.
Qed.

Lemma count_true g : zsum (map b2z (map f g)) = Z.of_nat (length (filter f g)).
Proof. induction g as [|r g IH]; cbn [map zsum filter]; [reflexivity|]. destruct (f r); cbn [b2z length]; lia. Qed.
End Rows.

Lemma upd_app_mid {A} (pre : list A) x tl v : upd (length pre) v (pre ++ x :: tl) = pre ++ v :: tl.
Proof. induction pre as [|a pre IH]; cbn [length app upd]; [reflexivity|]. rewrite IH. reflexivity. Qed.

Lemma zero_loop (zero : list Z) m : forall (pre F rest : zgrid),
  length F = m ->
  fold_left (fun acc i => jset acc i zero) (zrange_from (Z.of_nat (length pre)) m) (pre ++ F ++ rest)
  = pre ++ repeat zero m ++ rest.
Proof.
  induction m as [|m IH]; intros pre F rest HF.
  - destruct F; [reflexivity|discriminate].
  - destruct F as [|r F]; [discriminate|]. cbn [zrange_from fold_left repeat].
    rewrite jset_in_range by (unfold zlen; rewrite app_length; cbn [length app]; lia).
    rewrite Nat2Z.id. cbn [app]. rewrite upd_app_mid.
    specialize (IH (pre ++ [zero]) F rest ltac:(cbn in HF; lia)).
    rewrite app_length in IH. cbn [length] in IH. replace (Z.of_nat (length pre + 1)) with (Z.of_nat (length pre) + 1) in IH by lia.
    rewrite <- !app_assoc in IH. cbn [app] in IH. exact IH.
Qed.

(* C08/C09: clean_lines = delete full rows, push empty rows on top, the others keep their order *)
Theorem clean_lines_is_clear nc g : clean_lines g (full_lines g nc) = clear nc g.
Proof.
  unfold clean_lines, full_lines, clear, argsort.
  set (f := is_full nc). rewrite (map_map f (fun b => b2z (negb b))).
  change (fun x : list Z => b2z (negb (f x))) with (rkey f).
  unfold zlen. rewrite map_length. unfold zrange. rewrite Nat2Z.id. fold (pairs_from f 0 g).
  rewrite sort01 by (apply pairs_keys). rewrite !map_app.
  pose proof (gather_filter f (fun k => k =? 0) g 0 g) as G1.
  pose proof (gather_filter f (fun k => negb (k =? 0)) g 0 g) as G2.
  assert (HG : forall k, (k < length g)%nat -> jget [] g (0 + Z.of_nat k) = nth k g []).
  { intros k Hk. rewrite jget_in_range by (unfold zlen; lia). cbn [Z.add]. rewrite Nat2Z.id. reflexivity. }
  specialize (G1 HG). specialize (G2 HG). unfold key0.
  rewrite G1, G2.
  assert (E1 : filter (fun r => rkey f r =? 0) g = filter f g)
    by (apply filter_ext; intro r; unfold rkey; destruct (f r); reflexivity).
  assert (E2 : filter (fun r => negb (rkey f r =? 0)) g = filter (fun r => negb (f r)) g)
    by (apply filter_ext; intro r; unfold rkey; destruct (f r); reflexivity).
  rewrite E1, E2, count_true. rewrite Nat2Z.id.
  apply (zero_loop _ (length (filter f g)) [] (filter f g)). reflexivity.
Qed.
