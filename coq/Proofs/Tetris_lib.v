(* Tetris: generic list / grid lemmas used by Proofs/Tetris*.v (kept in this environment's own files). *)
Require Import JV.Base.Prelude JV.Base.JaxIndex JV.Base.Codec JV.Base.TimeStep JV.Gen.TetrisConsts JV.Model.Tetris.

Lemma znth_nth {A} (d : A) l i : 0 <= i -> znth d l i = nth (Z.to_nat i) l d.
Proof. intro H. unfold znth. destruct (i <? 0) eqn:E; [lia|reflexivity]. Qed.

Lemma znth_neg {A} (d : A) l i : i < 0 -> znth d l i = d.
Proof. intro H. unfold znth. destruct (i <? 0) eqn:E; [reflexivity|lia]. Qed.

Lemma znth_oob {A} (d : A) l i : zlen l <= i -> znth d l i = d.
Proof.
  intro H. pose proof (zlen_nonneg l). rewrite znth_nth by lia. apply nth_overflow. unfold zlen in *. lia.
Qed.

Lemma znth_out {A} (d : A) l i : ~ (0 <= i < zlen l) -> znth d l i = d.
Proof. intro H. destruct (Z_lt_dec i 0); [apply znth_neg; lia | apply znth_oob; lia]. Qed.

Lemma znth_In {A} (d : A) l i : 0 <= i < zlen l -> In (znth d l i) l.
Proof. intro H. rewrite znth_nth by lia. apply nth_In. unfold zlen in *. lia. Qed.

Lemma znth_In_or {A} (d : A) l i : znth d l i = d \/ In (znth d l i) l.
Proof.
  destruct (Z_lt_dec i 0); [left; apply znth_neg; lia|].
  destruct (Z_lt_dec i (zlen l)); [right; apply znth_In; lia | left; apply znth_oob; lia].
Qed.

Lemma In_znth {A} (d : A) l x : In x l -> exists i, 0 <= i < zlen l /\ znth d l i = x.
Proof.
  intro H. destruct (In_nth l x d H) as [n [Hn E]]. exists (Z.of_nat n). split; [unfold zlen; lia|].
  rewrite znth_nth by lia. rewrite Nat2Z.id. exact E.
Qed.

Lemma zlen_map {A B} (f : A -> B) l : zlen (map f l) = zlen l.
Proof. unfold zlen. rewrite map_length. reflexivity. Qed.

Lemma zlen_zrange n : 0 <= n -> zlen (zrange n) = n.
Proof. intro H. unfold zlen, zrange. rewrite zrange_from_length. lia. Qed.

Lemma zlen_repeat {A} (x : A) n : zlen (repeat x n) = Z.of_nat n.
Proof. unfold zlen. rewrite repeat_length. reflexivity. Qed.

Lemma znth_map {A B} (d : A) (d' : B) (f : A -> B) l i : 0 <= i < zlen l -> znth d' (map f l) i = f (znth d l i).
Proof.
  intro H. rewrite !znth_nth by lia. rewrite (nth_indep _ d' (f d)) by (rewrite map_length; unfold zlen in H; lia).
  apply map_nth.
Qed.

Lemma znth_map_d {A B} (d : A) (f : A -> B) l i : znth (f d) (map f l) i = f (znth d l i).
Proof.
  destruct (Z_lt_dec i 0); [rewrite !znth_neg by lia; reflexivity|].
  rewrite !znth_nth by lia. apply map_nth.
Qed.

Lemma znth_zrange n i : 0 <= i < n -> znth 0 (zrange n) i = i.
Proof. intro H. rewrite znth_nth by lia. unfold zrange. rewrite zrange_from_nth by lia. lia. Qed.

Lemma znth_repeat {A} (d x : A) n i : 0 <= i < Z.of_nat n -> znth d (repeat x n) i = x.
Proof.
  intro H. rewrite znth_nth by lia. assert (G : (Z.to_nat i < n)%nat) by lia. clear H. revert G. generalize (Z.to_nat i). clear i.
  induction n as [|n IH]; intros [|k] G; cbn [repeat nth]; try lia; auto. apply IH. lia.
Qed.

Lemma list_ext {A} (d : A) l1 l2 :
  zlen l1 = zlen l2 -> (forall i, 0 <= i < zlen l1 -> znth d l1 i = znth d l2 i) -> l1 = l2.
Proof.
  intros HL H. apply (nth_ext _ _ d d); [unfold zlen in HL; lia|].
  intros n Hn. specialize (H (Z.of_nat n)). rewrite !znth_nth, Nat2Z.id in H by lia. apply H. unfold zlen. lia.
Qed.

Lemma map_zrange_znth {A} (d : A) l : l = map (znth d l) (zrange (zlen l)).
Proof.
  pose proof (zlen_nonneg l).
  apply (list_ext d); [rewrite zlen_map, zlen_zrange; lia|].
  intros i Hi. rewrite (znth_map 0) by (rewrite zlen_zrange; lia). rewrite znth_zrange by lia. reflexivity.
Qed.

Lemma forallb_zrange f n : forallb f (zrange n) = true <-> forall i, 0 <= i < n -> f i = true.
Proof. rewrite forallb_forall. split; intros H i Hi; apply H; apply in_zrange; auto. Qed.

Lemma existsb_zrange f n : existsb f (zrange n) = true <-> exists i, 0 <= i < n /\ f i = true.
Proof.
  rewrite existsb_exists. split; intros [i [H1 H2]]; exists i; split; auto; apply in_zrange; auto.
Qed.

Lemma all4_spec f : all4 f = true <-> forall i, 0 <= i < 4 -> f i = true.
Proof. unfold all4. apply forallb_zrange. Qed.

Lemma all44_spec f : all44 f = true <-> forall i j, 0 <= i < 4 -> 0 <= j < 4 -> f i j = true.
Proof.
  unfold all44. rewrite all4_spec. split.
  - intros H i j Hi Hj. specialize (H i Hi). rewrite all4_spec in H. auto.
  - intros H i Hi. rewrite all4_spec. auto.
Qed.

(* ---- tab ---- *)
Lemma zlen_tab {A} h w (f : Z -> Z -> A) : 0 <= h -> zlen (tab h w f) = h.
Proof. intro H. unfold tab. rewrite zlen_map, zlen_zrange; lia. Qed.

Lemma znth_tab {A} h w (f : Z -> Z -> A) i : 0 <= i < h -> znth [] (tab h w f) i = map (fun j => f i j) (zrange w).
Proof. intro H. unfold tab. rewrite (znth_map 0) by (rewrite zlen_zrange; lia). rewrite znth_zrange by lia. reflexivity. Qed.

Lemma gat_tab {A} (d : A) h w f i j : 0 <= i < h -> 0 <= j < w -> gat d (tab h w f) i j = f i j.
Proof.
  intros Hi Hj. unfold gat. rewrite znth_tab by lia. rewrite (znth_map 0) by (rewrite zlen_zrange; lia).
  rewrite znth_zrange by lia. reflexivity.
Qed.

Lemma gat_tab_out {A} (d : A) h w f i j : ~ (0 <= i < h /\ 0 <= j < w) -> gat d (tab h w f) i j = d.
Proof.
  intro H. unfold gat. destruct (Z_le_dec 0 h) as [Hh|Hh].
  - destruct (Z_lt_dec i 0); [rewrite (znth_neg [] _ i) by lia; destruct (j <? 0) eqn:E; unfold znth; rewrite E; auto; destruct (Z.to_nat j); auto|].
    destruct (Z_lt_dec i h).
    + rewrite znth_tab by lia. apply znth_out. destruct (Z_le_dec 0 w); [rewrite zlen_map, zlen_zrange by lia; lia|].
      unfold zrange. replace (Z.to_nat w) with O by lia. cbn. unfold zlen; cbn. lia.
    + rewrite (znth_oob [] _ i) by (rewrite zlen_tab; lia). apply znth_out. unfold zlen; cbn. lia.
  - unfold tab, zrange. replace (Z.to_nat h) with O by lia. cbn [zrange_from map].
    replace (znth [] [] i) with (@nil A) by (unfold znth; destruct (i <? 0); auto; destruct (Z.to_nat i); auto).
    unfold znth; destruct (j <? 0); auto; destruct (Z.to_nat j); auto.
Qed.

Lemma height_tab {A} h w (f : Z -> Z -> A) : 0 <= h -> zlen (tab h w f) = h.
Proof. apply zlen_tab. Qed.

Lemma width_tab h w (f : Z -> Z -> Z) : 0 < h -> 0 <= w -> width (tab h w f) = w.
Proof. intros H1 H2. unfold width. rewrite znth_tab by lia. rewrite zlen_map, zlen_zrange; lia. Qed.

Lemma tab_ext {A} h w (f g : Z -> Z -> A) :
  (forall i j, 0 <= i < h -> 0 <= j < w -> f i j = g i j) -> tab h w f = tab h w g.
Proof.
  intro H. unfold tab. apply map_ext_in. intros i Hi. apply map_ext_in. intros j Hj.
  apply in_zrange in Hi. apply in_zrange in Hj. auto.
Qed.

Lemma in_tab_row {A} h w (f : Z -> Z -> A) r : In r (tab h w f) -> exists i, 0 <= i < h /\ r = map (fun j => f i j) (zrange w).
Proof. unfold tab. rewrite in_map_iff. intros [i [E Hi]]. apply in_zrange in Hi. exists i. auto. Qed.

(* a rectangular grid is the tabulation of its cells *)
Lemma grid_as_tab (g : zgrid) h w :
  zlen g = h -> (forall r, In r g -> zlen r = w) -> g = tab h w (fun i j => gat 0 g i j).
Proof.
  intros Hh Hw. pose proof (zlen_nonneg g).
  apply (list_ext []); [rewrite zlen_tab; lia|].
  intros i Hi. rewrite znth_tab by lia. unfold gat.
  assert (Hr : zlen (znth [] g i) = w) by (apply Hw, znth_In; lia).
  rewrite <- Hr. apply map_zrange_znth.
Qed.

(* ---- sums over index ranges ---- *)
Lemma zrange_from_app s a b : zrange_from s (a + b) = zrange_from s a ++ zrange_from (s + Z.of_nat a) b.
Proof.
  revert s; induction a as [|a IH]; intro s; cbn [zrange_from Nat.add app].
  - f_equal. lia.
  - rewrite IH. do 3 f_equal. lia.
Qed.

Lemma zsum_app a b : zsum (a ++ b) = zsum a + zsum b.
Proof. induction a as [|x a IH]; cbn [app zsum]; lia. Qed.

Lemma zsum_map_zero {A} (F : A -> Z) l : (forall x, In x l -> F x = 0) -> zsum (map F l) = 0.
Proof. induction l as [|x l IH]; intro H; cbn [map zsum]; [reflexivity|]. rewrite H by (left; auto). rewrite IH; [lia|]. intros; apply H; right; auto. Qed.

Lemma map_zrange_from_shift {A} (F : Z -> A) s n : map F (zrange_from s n) = map (fun a => F (s + a)) (zrange_from 0 n).
Proof.
  assert (G : forall k, map F (zrange_from (s + k) n) = map (fun a => F (s + a)) (zrange_from k n)).
  { induction n as [|n IH]; intro k; cbn [zrange_from map]; [reflexivity|]. f_equal. rewrite <- IH. f_equal. f_equal. lia. }
  specialize (G 0). rewrite Z.add_0_r in G. exact G.
Qed.

(* a function that vanishes outside the window [s, s+k) sums over the window only *)
Lemma zsum_window F n s k :
  0 <= s -> 0 <= k -> s + k <= n -> (forall i, ~ (s <= i < s + k) -> F i = 0) ->
  zsum (map F (zrange n)) = zsum (map (fun a => F (s + a)) (zrange k)).
Proof.
  intros Hs Hk Hn H0. unfold zrange.
  replace (Z.to_nat n) with (Z.to_nat s + (Z.to_nat k + Z.to_nat (n - s - k)))%nat by lia.
  rewrite !zrange_from_app, !map_app, !zsum_app.
  rewrite (zsum_map_zero F (zrange_from 0 (Z.to_nat s))) by (intros x Hx; apply in_zrange_from in Hx; apply H0; lia).
  rewrite (zsum_map_zero F (zrange_from _ (Z.to_nat (n - s - k)))) by (intros x Hx; apply in_zrange_from in Hx; apply H0; lia).
  rewrite map_zrange_from_shift. replace (0 + Z.of_nat (Z.to_nat s)) with s by lia. lia.
Qed.

Lemma zsum_map_ext {A} (F G : A -> Z) l : (forall x, In x l -> F x = G x) -> zsum (map F l) = zsum (map G l).
Proof. intro H. f_equal. apply map_ext_in. exact H. Qed.

Lemma zsum_map_add {A} (F G : A -> Z) l : zsum (map (fun x => F x + G x) l) = zsum (map F l) + zsum (map G l).
Proof. induction l as [|x l IH]; cbn [map zsum]; lia. Qed.
