(* Tetris, part 4: the physical invariant of the padded grid, kept by stamp (legal placement) and by clear; cell counting. *)
Require Import JV.Base.Prelude JV.Base.JaxIndex JV.Base.Codec JV.Base.TimeStep JV.Gen.TetrisConsts JV.Model.Tetris.
Require Import JV.Proofs.Tetris_lib JV.Proofs.Tetris JV.Proofs.Tetris_place JV.Proofs.Tetris_clear.

Definition row_ok (nc : Z) (r : list Z) : Prop :=
  zlen r = nc + 3 /\ (forall v, In v r -> 0 <= v) /\ (forall j, nc <= j < nc + 3 -> znth 0 r j = 0).
Definition GridOK (nr nc : Z) (g : zgrid) : Prop :=
  zlen g = nr + 3 /\ (forall r, In r g -> row_ok nc r)
  /\ (forall i j, nr <= i < nr + 3 -> 0 <= j < nc + 3 -> gat 0 g i j = 0)
  /\ (forall r, In r g -> is_full nc r = false).

Lemma row_ok_b_spec nc r : row_ok_b nc r = true <-> row_ok nc r.
Proof.
  unfold row_ok_b, row_ok. rewrite !andb_true_iff, !forallb_forall. split.
  - intros [[H1 H2] H3]. split; [lia|]. split.
    + intros v Hv. specialize (H2 v Hv). lia.
    + intros j Hj. specialize (H3 j). rewrite in_zrange_from in H3. specialize (H3 ltac:(lia)). lia.
  - intros [H1 [H2 H3]]. split; [split; [lia|]|].
    + intros v Hv. specialize (H2 v Hv). lia.
    + intros j Hj. apply in_zrange_from in Hj. specialize (H3 j ltac:(lia)). lia.
Qed.

Lemma grid_ok_b_spec nr nc g : grid_ok_b nr nc g = true <-> GridOK nr nc g.
Proof.
  unfold grid_ok_b, GridOK. rewrite !andb_true_iff, !forallb_forall. split.
  - intros [[[H1 H2] H3] H4]. split; [lia|]. split; [|split].
    + intros r Hr. apply row_ok_b_spec. auto.
    + intros i j Hi Hj. specialize (H3 i). rewrite in_zrange_from in H3. specialize (H3 ltac:(lia)).
      rewrite forallb_zrange in H3. specialize (H3 j Hj). lia.
    + intros r Hr. specialize (H4 r Hr). destruct (is_full nc r); [discriminate|reflexivity].
  - intros [H1 [H2 [H3 H4]]]. split; [split; [split; [lia|]|]|].
    + intros r Hr. apply row_ok_b_spec. auto.
    + intros i Hi. apply in_zrange_from in Hi. apply forallb_zrange. intros j Hj. specialize (H3 i j ltac:(lia) Hj). lia.
    + intros r Hr. rewrite (H4 r Hr). reflexivity.
Qed.

Lemma gridok_shape nr nc g : GridOK nr nc g -> Shape nr nc g.
Proof. intros [H1 [H2 _]]. split; [auto|]. intros r Hr. destruct (H2 r Hr) as [A [B _]]. auto. Qed.

(* padding columns are empty (index form) *)
Lemma gridok_padcol nr nc g i j : GridOK nr nc g -> nc <= j -> gat 0 g i j = 0.
Proof.
  intros [H1 [H2 _]] Hj. unfold gat. destruct (znth_In_or [] g i) as [E|Hin].
  - rewrite E. apply znth_out. unfold zlen; cbn. lia.
  - destruct (H2 _ Hin) as [A [_ C]]. destruct (Z_lt_dec j (nc + 3)); [apply C; lia | apply znth_oob; lia].
Qed.

Lemma gridok_padrow nr nc g i j : GridOK nr nc g -> nr <= i -> gat 0 g i j = 0.
Proof.
  intros HG Hi. pose proof HG as [H1 [H2 [H3 _]]].
  destruct (Z_lt_dec i (nr + 3)).
  - destruct (Z_lt_dec j 0); [unfold gat; apply znth_neg; lia|].
    destruct (Z_lt_dec j (nc + 3)); [apply H3; lia | apply (gridok_padcol nr nc); auto; lia].
  - unfold gat. rewrite (znth_oob [] g i) by lia. apply znth_out. unfold zlen; cbn. lia.
Qed.

(* ---------- is_full in index form ---------- *)
Lemma forallb_firstn {A} (p : A -> bool) d n l :
  (n <= length l)%nat -> (forallb p (firstn n l) = true <-> forall j, (j < n)%nat -> p (nth j l d) = true).
Proof.
  revert l; induction n as [|n IH]; intros l Hn; cbn [firstn forallb].
  - split; [intros _ j Hj; lia | auto].
  - destruct l as [|x l]; [cbn in Hn; lia|]. cbn [forallb]. rewrite andb_true_iff, IH by (cbn in Hn; lia). split.
    + intros [H1 H2] [|j] Hj; cbn [nth]; auto. apply H2. lia.
    + intro H. split; [apply (H O); lia|]. intros j Hj. apply (H (S j)). lia.
Qed.

Lemma is_full_spec nc r : 0 <= nc <= zlen r ->
  (is_full nc r = true <-> forall j, 0 <= j < nc -> znth 0 r j <> 0).
Proof.
  intro H. unfold is_full, firstn_z. rewrite (forallb_firstn _ 0) by (unfold zlen in H; lia). split.
  - intros Hf j Hj. specialize (Hf (Z.to_nat j) ltac:(lia)). rewrite znth_nth by lia. lia.
  - intros Hf j Hj. specialize (Hf (Z.of_nat j) ltac:(lia)). rewrite znth_nth, Nat2Z.id in Hf by lia. lia.
Qed.

Lemma not_full_zero nc r : 1 <= nc <= zlen r -> znth 0 r 0 = 0 -> is_full nc r = false.
Proof.
  intros H H0. destruct (is_full nc r) eqn:E; [|reflexivity]. pose proof (proj1 (is_full_spec nc r ltac:(lia)) E) as E'. specialize (E' 0 ltac:(lia)). lia.
Qed.

(* ---------- counting ---------- *)
Lemma count_if_sum {A} (p : A -> bool) l : count_if p l = zsum (map (fun x => b2z (p x)) l).
Proof.
  unfold count_if. induction l as [|x l IH]; cbn [filter map zsum]; [reflexivity|].
  destruct (p x); [rewrite zlen_cons|]; cbn [b2z]; lia.
Qed.

Lemma cells_tab h w F :
  cells (tab h w F) = zsum (map (fun i => zsum (map (fun j => b2z (nonzero (F i j))) (zrange w))) (zrange h)).
Proof.
  unfold cells, tab. rewrite map_map. f_equal. apply map_ext. intro i. unfold row_count. rewrite count_if_sum, map_map. reflexivity.
Qed.

Lemma zsum_const {A} (l : list A) c : zsum (map (fun _ => c) l) = c * zlen l.
Proof. induction l as [|x l IH]; cbn [map zsum]; [unfold zlen; cbn; lia|]. rewrite zlen_cons. lia. Qed.

Lemma row_count_idx r : row_count r = zsum (map (fun j => b2z (nonzero (znth 0 r j))) (zrange (zlen r))).
Proof.
  unfold row_count. rewrite count_if_sum. rewrite (map_zrange_znth 0 r) at 1. rewrite map_map. reflexivity.
Qed.

Lemma row_count_full nc r : 0 <= nc -> row_ok nc r -> is_full nc r = true -> row_count r = nc.
Proof.
  intros Hnc [H1 [H2 H3]] Hf0. pose proof (proj1 (is_full_spec nc r ltac:(lia)) Hf0) as Hf.
  rewrite row_count_idx, H1.
  rewrite (zsum_window _ (nc + 3) 0 nc); [|lia|lia|lia|].
  2:{ intros i Hi. destruct (Z_lt_dec i 0); [rewrite znth_neg by lia; reflexivity|].
      destruct (Z_lt_dec i (nc + 3)); [rewrite H3 by lia; reflexivity | rewrite znth_oob by lia; reflexivity]. }
  rewrite (zsum_map_ext _ (fun _ => 1)); [rewrite zsum_const, zlen_zrange; lia|].
  intros a Ha. apply in_zrange in Ha. specialize (Hf (0 + a) ltac:(lia)). unfold nonzero. destruct (znth 0 r (0 + a) =? 0) eqn:E; [lia|reflexivity].
Qed.

Lemma row_count_zero w : row_count (repeat 0 w) = 0.
Proof. unfold row_count, count_if. induction w as [|w IH]; cbn [repeat filter]; [reflexivity|]. cbn. exact IH. Qed.

Lemma zsum_filter_split {A} (F : A -> Z) (p : A -> bool) l :
  zsum (map F l) = zsum (map F (filter p l)) + zsum (map F (filter (fun x => negb (p x)) l)).
Proof. induction l as [|x l IH]; cbn [map zsum filter]; [reflexivity|]. destruct (p x); cbn [negb map zsum]; lia. Qed.

Lemma filter_len_split {A} (p : A -> bool) l : (length (filter p l) + length (filter (fun x => negb (p x)) l) = length l)%nat.
Proof. induction l as [|x l IH]; cbn [filter length]; [reflexivity|]. destruct (p x); cbn [negb length]; lia. Qed.

Lemma cells_app a b : cells (a ++ b) = cells a + cells b.
Proof. unfold cells. rewrite map_app, zsum_app. reflexivity. Qed.

(* C07: clearing removes num_cols cells per cleared line *)
Lemma cells_clear nc g :
  0 <= nc -> (forall r, In r g -> row_ok nc r) ->
  cells (clear nc g) = cells g - nc * Z.of_nat (length (filter (is_full nc) g)).
Proof.
  intros Hnc HR. unfold clear. rewrite cells_app.
  assert (E0 : cells (repeat (repeat 0 (Z.to_nat (width g))) (length (filter (is_full nc) g))) = 0).
  { unfold cells. apply zsum_map_zero. intros r Hr. apply repeat_spec in Hr. subst r. apply row_count_zero. }
  rewrite E0. unfold cells at 2. rewrite (zsum_filter_split row_count (is_full nc) g).
  assert (E1 : zsum (map row_count (filter (is_full nc) g)) = nc * Z.of_nat (length (filter (is_full nc) g))).
  { rewrite (zsum_map_ext _ (fun _ => nc)); [rewrite zsum_const; reflexivity|].
    intros r Hr. apply filter_In in Hr. destruct Hr as [Hr Hf]. apply row_count_full; auto. }
  rewrite E1. unfold cells. lia.
Qed.

(* ---------- stamp: a legal placement ---------- *)
Section Stamp.
Variables (nr nc : Z) (g t : zgrid) (y x c : Z).
Hypothesis HG : GridOK nr nc g.
Hypothesis Hnr : 4 <= nr.
Hypothesis Hnc : 4 <= nc.
Hypothesis Hin : In t all_pieces.
Hypothesis Hy : 0 <= y.
Hypothesis Hx : 0 <= x.
Hypothesis Hc : 1 <= c.
Hypothesis HP : can_place nr g t y x.
Hypothesis HL : forall i j, 0 <= i < 4 -> 0 <= j < 4 -> cell t i j = 1 -> x + j < nc.

Let HS : Shape nr nc g := gridok_shape nr nc g HG.

Lemma covers_inv i j : covers t y x i j = true ->
  0 <= i - y < 4 /\ 0 <= j - x < 4 /\ cell t (i - y) (j - x) = 1 /\ i < nr /\ j < nc /\ gat 0 g i j = 0.
Proof.
  unfold covers. intro H. rewrite !andb_true_iff in H. destruct H as [[[[A B] C] D] E].
  assert (Hc1 : cell t (i - y) (j - x) = 1) by lia.
  destruct (HP (i - y) (j - x) ltac:(lia) ltac:(lia) Hc1) as [P1 P2].
  pose proof (HL (i - y) (j - x) ltac:(lia) ltac:(lia) Hc1) as P3.
  replace (y + (i - y)) with i in * by lia. replace (x + (j - x)) with j in * by lia. repeat split; lia.
Qed.

Lemma stamp_get i j : 0 <= i < nr + 3 -> 0 <= j < nc + 3 ->
  gat 0 (stamp g t y x c) i j = if covers t y x i j then c else gat 0 g i j.
Proof.
  intros Hi Hj. unfold stamp. rewrite (shape_height nr nc), (shape_width nr nc) by (auto; lia). rewrite gat_tab by lia. reflexivity.
Qed.

Lemma stamp_shape : Shape nr nc (stamp g t y x c).
Proof.
  unfold stamp. rewrite (shape_height nr nc), (shape_width nr nc) by (auto; lia). split; [rewrite zlen_tab; lia|].
  intros r Hr. apply in_tab_row in Hr. destruct Hr as [i [Hi E]]. subst r. split; [rewrite zlen_map, zlen_zrange; lia|].
  intros v Hv. apply in_map_iff in Hv. destruct Hv as [j [E Hj]]. subst v.
  destruct (covers t y x i j); [lia | apply (shape_nonneg nr nc); auto].
Qed.

Lemma stamp_rows_ok r : In r (stamp g t y x c) -> row_ok nc r.
Proof.
  intro Hr. destruct (proj2 stamp_shape r Hr) as [A B]. split; [auto|]. split; [auto|].
  apply (In_znth []) in Hr. destruct Hr as [i [Hi E]]. subst r. rewrite (proj1 stamp_shape) in Hi.
  intros j Hj. change (gat 0 (stamp g t y x c) i j = 0). rewrite stamp_get by lia.
  destruct (covers t y x i j) eqn:Cv; [apply covers_inv in Cv; lia | apply (gridok_padcol nr nc); auto; lia].
Qed.

Lemma stamp_padrow i j : nr <= i < nr + 3 -> 0 <= j < nc + 3 -> gat 0 (stamp g t y x c) i j = 0.
Proof.
  intros Hi Hj. rewrite stamp_get by lia.
  destruct (covers t y x i j) eqn:Cv; [apply covers_inv in Cv; lia | apply (gridok_padrow nr nc); auto; lia].
Qed.

Lemma covers_sum : y + 4 <= nr + 3 -> x + 4 <= nc + 3 ->
  zsum (map (fun i => zsum (map (fun j => b2z (covers t y x i j)) (zrange (nc + 3)))) (zrange (nr + 3))) = ncells t.
Proof.
  intros By Bx.
  rewrite (zsum_window _ (nr + 3) y 4); [|lia|lia|lia|].
  2:{ intros i Hi. apply zsum_map_zero. intros j _. unfold covers.
      destruct ((y <=? i) && (i <? y + 4)) eqn:E; [lia|reflexivity]. }
  unfold ncells. apply zsum_map_ext. intros a Ha. apply in_zrange in Ha.
  rewrite (zsum_window _ (nc + 3) x 4); [|lia|lia|lia|].
  2:{ intros j Hj. unfold covers.
      destruct ((y <=? y + a) && (y + a <? y + 4) && (x <=? j) && (j <? x + 4)) eqn:E; [lia|reflexivity]. }
  apply zsum_map_ext. intros b Hb. apply in_zrange in Hb. unfold covers.
  replace (y + a - y) with a by lia. replace (x + b - x) with b by lia.
  replace ((y <=? y + a) && (y + a <? y + 4) && (x <=? x + b) && (x + b <? x + 4)) with true by lia. reflexivity.
Qed.

(* C07: a placed piece adds exactly its four cells *)
Lemma cells_stamp : cells (stamp g t y x c) = cells g + 4.
Proof.
  pose proof (piece_ok t Hin) as PK.
  assert (By : y + 4 <= nr + 3).
  { pose proof (pk_top t PK) as Ht. apply (pk_row t PK) in Ht; [|lia]. destruct Ht as [j [Hj Hc1]].
    destruct (HP 0 j ltac:(lia) Hj Hc1). lia. }
  assert (Bx : x + 4 <= nc + 3).
  { pose proof (pk_left t PK) as Ht. apply (pk_col t PK) in Ht; [|lia]. destruct Ht as [i [Hi Hc1]].
    pose proof (HL i 0 Hi ltac:(lia) Hc1). lia. }
  rewrite (shape_as_tab nr nc g HS) at 2. unfold stamp. rewrite (shape_height nr nc), (shape_width nr nc) by (auto; lia).
  rewrite !cells_tab. rewrite <- (pk_four t PK), <- (covers_sum By Bx), <- zsum_map_add.
  apply zsum_map_ext. intros i Hi. rewrite <- zsum_map_add. apply zsum_map_ext. intros j Hj.
  destruct (covers t y x i j) eqn:Cv; [|cbn [b2z]; lia].
  apply covers_inv in Cv. destruct Cv as [_ [_ [_ [_ [_ E]]]]]. rewrite E. unfold nonzero.
  replace (c =? 0) with false by lia. reflexivity.
Qed.
End Stamp.

(* ---------- clear keeps the invariant ---------- *)
Lemma znth_app_r {A} (d : A) a b i : zlen a <= i -> znth d (a ++ b) i = znth d b (i - zlen a).
Proof.
  intro H. pose proof (zlen_nonneg a). rewrite !znth_nth by lia. unfold zlen in *. rewrite app_nth2 by lia. f_equal. lia.
Qed.

Lemma filter_none {A} (p : A -> bool) l : (forall x, In x l -> p x = false) -> filter p l = [].
Proof. induction l as [|x l IH]; intro H; cbn [filter]; [reflexivity|]. rewrite (H x (or_introl eq_refl)). apply IH. intros; apply H; right; auto. Qed.

Lemma filter_all {A} (p : A -> bool) l : (forall x, In x l -> p x = true) -> filter p l = l.
Proof. induction l as [|x l IH]; intro H; cbn [filter]; [reflexivity|]. rewrite (H x (or_introl eq_refl)). f_equal. apply IH. intros; apply H; right; auto. Qed.

Lemma clear_gridok nr nc g :
  1 <= nr -> 1 <= nc -> Shape nr nc g -> (forall r, In r g -> row_ok nc r) ->
  (forall i j, nr <= i < nr + 3 -> 0 <= j < nc + 3 -> gat 0 g i j = 0) ->
  GridOK nr nc (clear nc g).
Proof.
  intros Hnr Hnc HS HR HPad. pose proof HS as [HL _].
  assert (HW : width g = nc + 3) by (apply (shape_width nr nc); auto; lia).
  remember (firstn (Z.to_nat nr) g) as top eqn:Et. remember (skipn (Z.to_nat nr) g) as pad eqn:Ep.
  assert (Eg : g = top ++ pad) by (rewrite Et, Ep; symmetry; apply firstn_skipn).
  assert (Ltop : zlen top = nr) by (rewrite Et; unfold zlen in *; rewrite firstn_length; lia).
  clear Et Ep.
  assert (Hpad : forall k, znth [] pad k = znth [] g (nr + k) \/ k < 0).
  { intro k. destruct (Z_lt_dec k 0); [right; lia|left]. rewrite Eg. rewrite znth_app_r by lia. f_equal. lia. }
  assert (PadNF : forall r, In r pad -> is_full nc r = false).
  { intros r Hr. assert (Hrg : In r g) by (rewrite Eg; apply in_or_app; right; exact Hr).
    apply (In_znth []) in Hr. destruct Hr as [k [Hk E]]. destruct (Hpad k) as [E2|]; [|lia]. rewrite E2 in E.
    assert (Lpad : zlen pad = 3) by (rewrite Eg, zlen_app in HL; lia).
    apply not_full_zero; [rewrite (proj1 (HR r Hrg)); lia|]. rewrite <- E. apply (HPad (nr + k) 0); lia. }
  assert (EF : filter (is_full nc) g = filter (is_full nc) top)
    by (rewrite Eg at 1; rewrite filter_app, (filter_none _ pad PadNF), app_nil_r; reflexivity).
  assert (EN : filter (fun r => negb (is_full nc r)) g = filter (fun r => negb (is_full nc r)) top ++ pad).
  { rewrite Eg at 1. rewrite filter_app. f_equal. apply filter_all. intros r Hr. rewrite (PadNF r Hr). reflexivity. }
  set (zero := repeat 0 (Z.to_nat (width g))).
  assert (Zok : row_ok nc zero).
  { unfold zero. rewrite HW. split; [rewrite zlen_repeat; lia|]. split.
    - intros v Hv. apply repeat_spec in Hv. lia.
    - intros j Hj. apply znth_repeat. lia. }
  assert (ZNF : is_full nc zero = false).
  { apply not_full_zero; [rewrite (proj1 Zok); lia|]. unfold zero. apply znth_repeat. lia. }
  pose proof (filter_len_split (is_full nc) top) as LS.
  unfold clear. fold zero. split; [|split; [|split]].
  - unfold zlen. rewrite app_length, repeat_length. pose proof (filter_len_split (is_full nc) g). unfold zlen in HL. lia.
  - intros r Hr. apply in_app_or in Hr. destruct Hr as [Hr|Hr].
    + apply repeat_spec in Hr. subst r. exact Zok.
    + apply filter_In in Hr. apply HR. tauto.
  - intros i j Hi Hj. rewrite EF, EN, app_assoc. unfold gat.
    rewrite znth_app_r by (unfold zlen in *; rewrite app_length, repeat_length; lia).
    assert (EL : zlen (repeat zero (length (filter (is_full nc) top)) ++ filter (fun r => negb (is_full nc r)) top) = nr)
      by (unfold zlen in *; rewrite app_length, repeat_length; lia).
    rewrite EL. destruct (Hpad (i - nr)) as [E|]; [|lia]. rewrite E. replace (nr + (i - nr)) with i by lia.
    apply (HPad i j); lia.
  - intros r Hr. apply in_app_or in Hr. destruct Hr as [Hr|Hr].
    + apply repeat_spec in Hr. subst r. exact ZNF.
    + apply filter_In in Hr. destruct Hr as [_ Hr]. destruct (is_full nc r); [discriminate|reflexivity].
Qed.
