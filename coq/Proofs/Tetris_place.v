(* Tetris, part 2: argmin of a boolean vector, possible_positions = can_place, the drop row (with JAX's clamping of -1),
   place_tetromino = stamp.                                                                                          *)
Require Import JV.Base.Prelude JV.Base.JaxIndex JV.Base.Codec JV.Base.TimeStep JV.Gen.TetrisConsts JV.Model.Tetris.
Require Import JV.Proofs.Tetris_lib JV.Proofs.Tetris.

(* ---------- argmin on booleans: first False, 0 when there is none ---------- *)
Fixpoint first_false (l : list bool) : Z :=
  match l with [] => 0 | b :: t => if b then 1 + first_false t else 0 end.

Lemma znth_cons {A} (d x : A) l k : 0 < k -> znth d (x :: l) k = znth d l (k - 1).
Proof.
  intro H. rewrite !znth_nth by lia. replace (Z.to_nat k) with (S (Z.to_nat (k - 1))) by lia. reflexivity.
Qed.

Lemma znth_0 {A} (d x : A) l : znth d (x :: l) 0 = x.
Proof. reflexivity. Qed.

Lemma first_false_spec l :
  0 <= first_false l <= zlen l /\ (forall k, 0 <= k < first_false l -> znth false l k = true)
  /\ (first_false l < zlen l -> znth false l (first_false l) = false).
Proof.
  induction l as [|b t IH]; cbn [first_false].
  - unfold zlen; cbn. repeat split; intros; lia.
  - rewrite zlen_cons. destruct IH as [I1 [I2 I3]]. destruct b.
    + split; [lia|]. split.
      * intros k Hk. destruct (Z.eq_dec k 0) as [->|]; [reflexivity|]. rewrite znth_cons by lia. apply I2. lia.
      * intro H. rewrite znth_cons by lia. replace (1 + first_false t - 1) with (first_false t) by lia. apply I3. lia.
    + pose proof (zlen_nonneg t). split; [lia|]. split; [intros; lia|]. intros _. reflexivity.
Qed.

Lemma argmax_from_le best bi i l : (forall x, In x l -> x <= best) -> argmax_from best bi i l = bi.
Proof.
  revert i; induction l as [|x l IH]; intros i H; cbn [argmax_from]; [reflexivity|].
  assert (x <= best) by (apply H; left; auto). replace (best <? x) with false by lia. apply IH. intros; apply H; right; auto.
Qed.

Lemma neg_b2z_le0 l x : In x (map Z.opp (map b2z l)) -> x <= 0.
Proof. rewrite map_map, in_map_iff. intros [b [E _]]. subst x. destruct b; cbn; lia. Qed.

Lemma argmax_from_bools bi i l :
  argmax_from (-1) bi i (map Z.opp (map b2z l)) = if first_false l =? zlen l then bi else i + first_false l.
Proof.
  revert i; induction l as [|b t IH]; intro i; cbn [map argmax_from first_false].
  - reflexivity.
  - rewrite zlen_cons. pose proof (first_false_spec t) as [F _]. pose proof (zlen_nonneg t). destruct b; cbn [b2z Z.opp].
    + replace (-1 <? -1) with false by lia. rewrite IH. destruct (first_false t =? zlen t) eqn:E.
      * replace (1 + first_false t =? 1 + zlen t) with true by lia. reflexivity.
      * replace (1 + first_false t =? 1 + zlen t) with false by lia. lia.
    + replace (-1 <? 0) with true by lia. rewrite argmax_from_le by (apply neg_b2z_le0).
      replace (0 =? 1 + zlen t) with false by lia. lia.
Qed.

Lemma argmin_bools l : argmin (map b2z l) = if first_false l =? zlen l then 0 else first_false l.
Proof.
  unfold argmin, argmax. destruct l as [|b t]; [reflexivity|]. cbn [map first_false]. rewrite zlen_cons.
  pose proof (first_false_spec t) as [F _]. pose proof (zlen_nonneg t). destruct b; cbn [b2z Z.opp].
  - rewrite argmax_from_bools. destruct (first_false t =? zlen t) eqn:E.
    + replace (1 + first_false t =? 1 + zlen t) with true by lia. reflexivity.
    + replace (1 + first_false t =? 1 + zlen t) with false by lia. reflexivity.
  - rewrite argmax_from_le by (apply neg_b2z_le0). replace (0 =? 1 + zlen t) with false by lia. reflexivity.
Qed.

(* ---------- possible_positions = can_place ---------- *)
Lemma can_place_b_spec nr g t y x : can_place_b nr g t y x = true <-> can_place nr g t y x.
Proof.
  unfold can_place_b, can_place. rewrite all44_spec. split; intros H i j Hi Hj.
  - intro Hc. specialize (H i j Hi Hj). replace (cell t i j =? 1) with true in H by lia. cbn [implb] in H. lia.
  - destruct (cell t i j =? 1) eqn:E; [|reflexivity]. cbn [implb]. specialize (H i j Hi Hj ltac:(lia)). lia.
Qed.

Lemma pp_len nr nc g t x : Shape nr nc g -> 0 <= nr -> zlen (possible_positions g t x) = nr.
Proof.
  intros HS Hnr. unfold possible_positions. rewrite pad_last3_len, zlen_map, (shape_height nr nc) by auto.
  rewrite zlen_zrange; lia.
Qed.

Lemma pp_spec nr nc g t x y :
  Shape nr nc g -> 4 <= nr -> 4 <= nc -> In t all_pieces -> 0 <= x < nc -> 0 <= y < nr ->
  znth false (possible_positions g t x) y = can_place_b nr g t y x.
Proof.
  intros HS Hnr Hnc Hin Hx Hy. pose proof (piece_ok t Hin) as PK.
  unfold possible_positions. rewrite (shape_height nr nc) by auto. replace (nr + 3 - 3) with nr by lia.
  rewrite pad_last3_spec by (rewrite zlen_map, zlen_zrange; lia).
  rewrite zlen_map, zlen_zrange by lia.
  rewrite (znth_map 0) by (rewrite zlen_zrange; lia). rewrite znth_zrange by lia.
  apply bool_eq_iff. rewrite can_place_b_spec, andb_true_iff.
  rewrite (check_valid_spec nr nc) by (auto; try lia; apply (pk_bin t PK)).
  split.
  - intros [HV HP] i j Hi Hj Hc. split; [|apply HV; auto].
    destruct (Z_lt_dec (y + i) nr) as [|Hge]; [auto|exfalso].
    replace (nr - 3 <=? y) with true in HP by lia.
    assert (Ci : row_nonempty t i = true) by (apply (pk_row t PK); [lia|]; exists j; auto).
    pose proof (pk_crow t PK i (nr - y) ltac:(lia) ltac:(lia) Ci) as Ck. rewrite Ck in HP. discriminate.
  - intro HL. split.
    + intros i j Hi Hj Hc. apply (HL i j Hi Hj Hc).
    + destruct (nr - 3 <=? y) eqn:E; [|reflexivity]. destruct (row_nonempty t (nr - y)) eqn:Ck; [exfalso|reflexivity].
      apply (pk_row t PK) in Ck; [|lia]. destruct Ck as [j [Hj Hc]].
      destruct (HL (nr - y) j ltac:(lia) Hj Hc) as [HF _]. lia.
Qed.

Lemma legal_can_place0 nr nc g t x : 4 <= nr -> legal nc g t x -> can_place nr g t 0 x.
Proof.
  intros Hnr HL i j Hi Hj Hc. destruct (HL i j Hi Hj Hc) as [_ HF]. split; [lia|].
  replace (0 + i) with i by lia. apply HF. lia.
Qed.

(* the row the code computes: argmin(possible_positions) - 1, normalised and clamped by dynamic_update_slice *)
Definition drop_y (g t : zgrid) (x : Z) : Z := argmin (map b2z (possible_positions g t x)) - 1.
Definition drop_row (nr : Z) (g t : zgrid) (x : Z) : Z := dyn_start (nr + 3) 4 (drop_y g t x).

Lemma drop_row_range nr g t x : 1 <= nr -> 0 <= drop_row nr g t x <= nr - 1.
Proof. intro H. unfold drop_row, dyn_start. lia. Qed.

(* C08/C09: the drop is the resting row *)
Theorem drop_is_rest_row nr nc g t x :
  Shape nr nc g -> 4 <= nr -> 4 <= nc -> In t all_pieces -> 0 <= x < nc -> can_place nr g t 0 x ->
  rest_row nr g t x (drop_row nr g t x).
Proof.
  intros HS Hnr Hnc Hin Hx H0. pose proof (piece_ok t Hin) as PK.
  unfold drop_row, drop_y. rewrite argmin_bools. set (pp := possible_positions g t x).
  assert (Lpp : zlen pp = nr) by (apply (pp_len nr nc); auto; lia).
  pose proof (first_false_spec pp) as [F1 [F2 F3]]. rewrite Lpp in *.
  assert (PP : forall y, 0 <= y < nr -> (znth false pp y = true <-> can_place nr g t y x)).
  { intros y Hy. unfold pp. rewrite (pp_spec nr nc) by auto. apply can_place_b_spec. }
  destruct (first_false pp =? nr) eqn:E.
  - (* every position possible: argmin = 0, y = -1, clamped to nr - 1 *)
    assert (Ey : dyn_start (nr + 3) 4 (0 - 1) = nr - 1) by (unfold dyn_start, jnorm; destruct (0 - 1 <? 0) eqn:Q; lia). rewrite Ey.
    split; [lia|]. split.
    + intros y' Hy'. apply PP; [lia|]. apply F2. lia.
    + intro HC. pose proof (pk_top t PK) as Ht. apply (pk_row t PK) in Ht; [|lia]. destruct Ht as [j [Hj Hc]].
      destruct (HC 0 j ltac:(lia) Hj Hc) as [HF _]. lia.
  - assert (Hff : first_false pp < nr) by lia. specialize (F3 Hff).
    assert (first_false pp <> 0).
    { intro E0. rewrite E0 in F3. apply (PP 0 ltac:(lia)) in H0. congruence. }
    rewrite dyn_start_id by lia. split; [lia|]. split.
    + intros y' Hy'. apply PP; [lia|]. apply F2. lia.
    + replace (first_false pp - 1 + 1) with (first_false pp) by lia. intro HC. apply PP in HC; [|lia]. congruence.
Qed.

(* ---------- place_tetromino = stamp ---------- *)
Lemma fold_max_ge t x : x <= fold_left Z.max t x /\ forall v, In v t -> v <= fold_left Z.max t x.
Proof.
  revert x; induction t as [|a t IH]; intro x; cbn [fold_left].
  - split; [lia|]. intros v [].
  - destruct (IH (Z.max x a)) as [I1 I2]. split; [lia|]. intros v [->|Hv]; [lia|]. apply I2. exact Hv.
Qed.

Lemma lmax_ge l v : In v l -> v <= lmax l.
Proof.
  destruct l as [|x t]; [intros []|]. cbn [lmax]. destruct (fold_max_ge t x) as [I1 I2]. intros [->|H]; auto.
Qed.

Lemma gmax_ge nr nc g i j : Shape nr nc g -> 0 <= i < nr + 3 -> 0 <= j < nc + 3 -> gat 0 g i j <= gmax g.
Proof.
  intros HS Hi Hj. unfold gmax. apply lmax_ge. apply in_concat. exists (znth [] g i). destruct HS as [H1 H2]. split.
  - apply znth_In. lia.
  - unfold gat. apply znth_In. rewrite (proj1 (H2 _ (znth_In [] g i ltac:(lia)))). lia.
Qed.

Lemma gmax_nonneg nr nc g : Shape nr nc g -> 0 <= nr -> 0 <= nc -> 0 <= gmax g.
Proof.
  intros HS Hnr Hnc. pose proof (gmax_ge nr nc g 0 0 HS ltac:(lia) ltac:(lia)). pose proof (shape_nonneg nr nc g 0 0 HS). lia.
Qed.

Lemma cell_scale c t a b : PieceOK t -> 0 <= a < 4 -> 0 <= b < 4 -> cell (scale c t) a b = c * cell t a b.
Proof.
  intros PK Ha Hb. unfold cell, gat, scale.
  rewrite (znth_map []) by (rewrite (pk_h t PK); lia).
  rewrite (znth_map 0); [reflexivity|]. rewrite (pk_w t PK); [lia|]. apply znth_In. rewrite (pk_h t PK). lia.
Qed.

Lemma place_is_stamp nr nc g t x :
  Shape nr nc g -> 1 <= nr -> 1 <= nc -> In t all_pieces ->
  place_tetromino g t x = (stamp g t (drop_row nr g t x) (dyn_start (nc + 3) 4 x) (gmax g + 1), drop_y g t x).
Proof.
  intros HS Hnr Hnc Hin. pose proof (piece_ok t Hin) as PK. unfold place_tetromino. fold (drop_y g t x). f_equal.
  unfold emax, stamp, dyn_update, drop_row. rewrite (shape_height nr nc), (shape_width nr nc) by (auto; lia).
  set (ys := dyn_start (nr + 3) 4 (drop_y g t x)). set (xs := dyn_start (nc + 3) 4 x).
  assert (Hys : 0 <= ys <= nr - 1) by (unfold ys, dyn_start; lia).
  assert (Hxs : 0 <= xs <= nc - 1) by (unfold xs, dyn_start; lia).
  apply tab_ext. intros i j Hi Hj. rewrite gat_tab by lia.
  pose proof (shape_nonneg nr nc g i j HS) as Hnn. pose proof (gmax_ge nr nc g i j HS Hi Hj) as Hmx.
  unfold covers.
  destruct ((ys <=? i) && (i <? ys + 4) && (xs <=? j) && (j <? xs + 4)) eqn:B; cbn [andb].
  - rewrite cell_scale by (auto; lia). destruct (pk_bin t PK (i - ys) (j - xs) ltac:(lia) ltac:(lia)) as [E|E]; rewrite E;
      [replace (0 =? 1) with false by reflexivity | replace (1 =? 1) with true by reflexivity]; lia.
  - lia.
Qed.
