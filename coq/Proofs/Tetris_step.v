(* Tetris, part 5: theorems about env.step / env.reset (C01 C03 C04 C05 C07 C08 C09 C10 C11 C12). *)
Require Import JV.Base.Prelude JV.Base.JaxIndex JV.Base.Codec JV.Base.TimeStep JV.Gen.TetrisConsts JV.Model.Tetris.
Require Import JV.Proofs.Tetris_lib JV.Proofs.Tetris JV.Proofs.Tetris_place JV.Proofs.Tetris_clear JV.Proofs.Tetris_phys.

Definition Physical (nr nc : Z) (s : state) : Prop :=
  GridOK nr nc (grid s) /\ valid_draw (tidx s) = true /\ 0 <= step_count s
  /\ amask s = calc_mask (clip1 (grid s)) (tidx s).

Lemma mask_eqb_spec a b : mask_eqb a b = true <-> a = b.
Proof.
  unfold mask_eqb. apply list_eqb_eq. intros x y. apply list_eqb_eq. intros p q. apply eqb_true_iff.
Qed.

Lemma Physical_b_spec nr nc s : Physical_b nr nc s = true <-> Physical nr nc s.
Proof.
  unfold Physical_b, Physical. rewrite !andb_true_iff, grid_ok_b_spec, mask_eqb_spec. split.
  - intros [[[A B] C] D]. split; [auto|split; [auto|split; [lia|auto]]].
  - intros [A [B [C D]]]. split; [split; [split; [auto|auto]|lia]|auto].
Qed.

(* ---------- step, with place_tetromino and clean_lines replaced by their specifications ---------- *)
Definition placed (nr nc : Z) (s : state) (rot x : Z) : zgrid :=
  stamp (grid s) (piece (tidx s) rot) (drop_row nr (grid s) (piece (tidx s) rot) x) (dyn_start (nc + 3) 4 x) (gmax (grid s) + 1).

Definition lines (nr nc : Z) (s : state) (rot x : Z) : Z := zsum (map b2z (full_lines (placed nr nc s rot x) nc)).

Lemma step_unfold nr nc tl s rot x d :
  Shape nr nc (grid s) -> 1 <= nr -> 1 <= nc ->
  step nr nc tl s rot x d =
   (let t := piece (tidx s) rot in
    let g1 := placed nr nc s rot x in
    let fl := full_lines g1 nc in
    let g2 := clear nc g1 in
    let m := calc_mask (clip1 g2) d in
    let valid := gget false (amask s) rot x in
    let r := jget 0 REWARD_LIST (lines nr nc s rot x) * b2z valid in
    let sc := step_count s + 1 in
    let done := negb (mask_any m) || negb valid || (tl <=? sc) in
    (mkS g2 (grid s) d (scale (Z.max 1 (gmax g2)) t) (piece d 0) x (drop_y (grid s) t x) m fl (score s + r) r false sc,
     cond_done 1 done [r], mkO (map (firstn_z nc) (firstn_z nr (clip1 g2))) (piece d 0) m sc)).
Proof.
  intros HS Hnr Hnc. unfold step. rewrite (place_is_stamp nr nc) by (auto using piece_in).
  cbv beta iota zeta. rewrite clean_lines_is_clear. reflexivity.
Qed.

(* ---------- shape is kept by ANY action ---------- *)
Lemma stamp_shape_any nr nc g t y x c : Shape nr nc g -> 0 <= nr -> 1 <= c -> Shape nr nc (stamp g t y x c).
Proof.
  intros HS Hnr Hc. unfold stamp. rewrite (shape_height nr nc), (shape_width nr nc) by (auto; lia).
  pose proof (zlen_nonneg g). pose proof (proj1 HS).
  split; [rewrite zlen_tab; lia|].
  intros r Hr. apply in_tab_row in Hr. destruct Hr as [i [Hi E]]. subst r.
  destruct (Z_le_dec 0 (nc + 3)).
  - split; [rewrite zlen_map, zlen_zrange; lia|].
    intros v Hv. apply in_map_iff in Hv. destruct Hv as [j [E Hj]]. subst v.
    destruct (covers t y x i j); [lia | apply (shape_nonneg nr nc); auto].
  - exfalso. pose proof (shape_row nr nc g 0 HS ltac:(lia)). pose proof (zlen_nonneg (znth [] g 0)). lia.
Qed.

Lemma clear_shape nr nc g : Shape nr nc g -> 0 <= nr -> Shape nr nc (clear nc g).
Proof.
  intros HS Hnr. pose proof HS as [HL HR]. unfold clear. split.
  - unfold zlen in *. rewrite app_length, repeat_length. pose proof (filter_len_split (is_full nc) g). lia.
  - intros r Hr. apply in_app_or in Hr. destruct Hr as [Hr|Hr].
    + apply repeat_spec in Hr. subst r. rewrite (shape_width nr nc) by auto.
      pose proof (shape_row nr nc g 0 HS ltac:(lia)). pose proof (zlen_nonneg (znth [] g 0)).
      split; [rewrite zlen_repeat; lia|]. intros v Hv. apply repeat_spec in Hv. lia.
    + apply filter_In in Hr. apply HR. tauto.
Qed.

Lemma placed_shape nr nc s rot x : Shape nr nc (grid s) -> 1 <= nr -> 1 <= nc -> Shape nr nc (placed nr nc s rot x).
Proof.
  intros HS Hnr Hnc. unfold placed. apply stamp_shape_any; auto; try lia.
  pose proof (gmax_nonneg nr nc (grid s) HS ltac:(lia) ltac:(lia)). lia.
Qed.

Theorem step_shape nr nc tl s rot x d :
  Shape nr nc (grid s) -> 1 <= nr -> 1 <= nc -> Shape nr nc (grid (fst (fst (step nr nc tl s rot x d)))).
Proof.
  intros HS Hnr Hnc. rewrite (step_unfold nr nc) by auto. cbn [fst grid].
  apply clear_shape; [apply placed_shape; auto | lia].
Qed.

(* ---------- C04 ---------- *)
Theorem step_mask_legal nr nc tl s rot x d :
  Shape nr nc (grid s) -> 4 <= nr -> 4 <= nc ->
  let s' := fst (fst (step nr nc tl s rot x d)) in amask s' = legal_mask nc (grid s') (tidx s').
Proof.
  intros HS Hnr Hnc. rewrite (step_unfold nr nc) by (auto; lia). cbn [fst grid amask tidx].
  apply (mask_is_legal_mask nr nc); auto. apply clear_shape; [apply placed_shape; auto; lia | lia].
Qed.

Lemma physical_mask nr nc s : Physical nr nc s -> 4 <= nr -> 4 <= nc -> amask s = legal_mask nc (grid s) (tidx s).
Proof. intros [HG [_ [_ HM]]] Hnr Hnc. rewrite HM. apply (mask_is_legal_mask nr nc); auto. apply (gridok_shape nr nc); auto. Qed.

Theorem mask_true_iff_legal nr nc s rot x :
  Physical nr nc s -> 4 <= nr -> 4 <= nc -> 0 <= rot < 4 -> 0 <= x < nc ->
  (gget false (amask s) rot x = true <-> legal nc (grid s) (piece (tidx s) rot) x).
Proof.
  intros HP Hnr Hnc Hr Hx. rewrite (physical_mask nr nc) by auto. rewrite legal_mask_get by auto. apply legal_b_spec.
Qed.

(* ---------- C05, C03, C11 ---------- *)
Theorem step_invalid nr nc tl s rot x d :
  Shape nr nc (grid s) -> 1 <= nr -> 1 <= nc -> gget false (amask s) rot x = false ->
  snd (fst (step nr nc tl s rot x d)) = termination 1 [0].
Proof.
  intros HS Hnr Hnc Hv. rewrite (step_unfold nr nc) by auto. cbn [fst snd]. rewrite Hv. cbn [b2z negb orb].
  rewrite Z.mul_0_r, orb_true_r. reflexivity.
Qed.

Theorem step_type_cases nr nc tl s rot x d :
  Shape nr nc (grid s) -> 1 <= nr -> 1 <= nc ->
  let '(s', ts, _) := step nr nc tl s rot x d in
  step_count s' = step_count s + 1
  /\ (st ts = LAST <-> (mask_any (amask s') = false \/ gget false (amask s) rot x = false \/ tl <= step_count s'))
  /\ (st ts = MID \/ st ts = LAST)
  /\ discount ts = [if st ts =? LAST then 0 else 1]
  /\ reward ts = [rew s'] /\ score s' = score s + rew s'
  /\ rew s' = jget 0 REWARD_LIST (lines nr nc s rot x) * b2z (gget false (amask s) rot x).
Proof.
  intros HS Hnr Hnc. rewrite (step_unfold nr nc) by auto. cbv zeta. cbn [step_count amask rew score].
  set (m := calc_mask _ d). set (v := gget false (amask s) rot x).
  split; [reflexivity|].
  destruct (negb (mask_any m) || negb v || (tl <=? step_count s + 1)) eqn:D; cbn [cond_done termination transition st discount reward repeat].
  - split; [|split; [right; reflexivity | repeat split; reflexivity]].
    split; [intros _|reflexivity]. apply orb_true_iff in D. destruct D as [D|D]; [|right; right; lia].
    apply orb_true_iff in D. destruct D as [D|D]; [left|right; left]; destruct (mask_any m), v; auto; discriminate.
  - split; [|split; [left; reflexivity | repeat split; reflexivity]].
    split; [intro; discriminate|]. intro H. exfalso. apply orb_false_iff in D. destruct D as [D D3]. apply orb_false_iff in D.
    destruct D as [D1 D2]. destruct H as [H|[H|H]]; [rewrite H in D1; discriminate | fold v in H; rewrite H in D2; discriminate | lia].
Qed.

(* ---------- C12 / C01: the observation ---------- *)
Lemma zlen_firstn_z {A} n (l : list A) : 0 <= n <= zlen l -> zlen (firstn_z n l) = n.
Proof. intro H. unfold firstn_z, zlen in *. rewrite firstn_length. lia. Qed.

Lemma nth_firstn' {A} (d : A) n l k : (k < n)%nat -> nth k (firstn n l) d = nth k l d.
Proof.
  revert l k; induction n as [|n IH]; intros l k H; [lia|]. destruct l as [|a l]; [destruct k; reflexivity|].
  destruct k; cbn [firstn nth]; [reflexivity|]. apply IH. lia.
Qed.

Lemma znth_firstn_z {A} (d : A) n l i : 0 <= i < n -> znth d (firstn_z n l) i = znth d l i.
Proof. intro H. rewrite !znth_nth by lia. unfold firstn_z. apply nth_firstn'. lia. Qed.

Lemma firstn_view nr nc g : Shape nr nc g -> 0 <= nr -> 0 <= nc ->
  map (firstn_z nc) (firstn_z nr (clip1 g)) = tab nr nc (fun i j => if gat 0 g i j =? 0 then 0 else 1).
Proof.
  intros HS Hnr Hnc. pose proof (shape_clip1 nr nc g HS) as HC.
  assert (L1 : zlen (firstn_z nr (clip1 g)) = nr) by (apply zlen_firstn_z; rewrite (proj1 HC); lia).
  apply (list_ext []); [rewrite zlen_map, L1, zlen_tab; lia|].
  rewrite zlen_map, L1. intros i Hi. rewrite (znth_map []) by lia. rewrite znth_firstn_z, znth_tab by lia.
  assert (L2 : zlen (znth [] (clip1 g) i) = nc + 3) by (apply (shape_row nr nc); auto; lia).
  apply (list_ext 0); [rewrite zlen_firstn_z, zlen_map, zlen_zrange; lia|].
  rewrite zlen_firstn_z by lia. intros j Hj. rewrite znth_firstn_z by lia.
  rewrite (znth_map 0) by (rewrite zlen_zrange; lia). rewrite znth_zrange by lia.
  change (znth 0 (znth [] (clip1 g) i) j) with (gat 0 (clip1 g) i j). rewrite gat_clip1.
  pose proof (shape_nonneg nr nc g i j HS). destruct (gat 0 g i j =? 0) eqn:E; lia.
Qed.

(* C12: the observation returned by step is the declarative view of the successor state *)
Theorem step_obs_view nr nc tl s rot x d :
  Shape nr nc (grid s) -> 1 <= nr -> 1 <= nc ->
  let '(s', _, o) := step nr nc tl s rot x d in o = view nr nc s'.
Proof.
  intros HS Hnr Hnc. rewrite (step_unfold nr nc) by auto. cbv zeta. unfold view. cbn [grid tidx amask step_count].
  assert (HS2 : Shape nr nc (clear nc (placed nr nc s rot x))) by (apply clear_shape; [apply placed_shape; auto | lia]).
  rewrite (firstn_view nr nc _ HS2) by lia. reflexivity.
Qed.

(* C01: what the spec declares -- grid: (num_rows, num_cols) in [0,1]; tetromino (4,4) in [0,1]; mask (4, num_cols); 0 <= step_count <= time_limit *)
Definition bin_grid (h w : Z) (g : zgrid) : Prop :=
  zlen g = h /\ forall r, In r g -> zlen r = w /\ forall v, In v r -> v = 0 \/ v = 1.
Definition obs_in_spec (nr nc tl : Z) (o : obs) : Prop :=
  bin_grid nr nc (o_grid o) /\ bin_grid 4 4 (o_tet o)
  /\ (zlen (o_mask o) = 4 /\ forall r, In r (o_mask o) -> zlen r = nc) /\ 0 <= o_step o <= tl.

Lemma piece_bin idx rot : bin_grid 4 4 (piece idx rot).
Proof.
  pose proof (piece_ok _ (piece_in idx rot)) as PK. split; [apply (pk_h _ PK)|].
  intros r Hr. split; [apply (pk_w _ PK); auto|]. intros v Hv.
  apply (In_znth []) in Hr. destruct Hr as [i [Hi E]]. subst r. apply (In_znth 0) in Hv. destruct Hv as [j [Hj E]]. subst v.
  rewrite (pk_h _ PK) in Hi. rewrite (pk_w _ PK) in Hj by (apply znth_In; rewrite (pk_h _ PK); lia).
  apply (pk_bin _ PK); lia.
Qed.

Lemma legal_mask_dims nc g idx : 0 <= nc -> zlen (legal_mask nc g idx) = 4 /\ forall r, In r (legal_mask nc g idx) -> zlen r = nc.
Proof.
  intro Hnc. unfold legal_mask. destruct tables_shape as [_ [_ [HNR _]]]. rewrite HNR. split; [apply zlen_tab; lia|].
  intros r Hr. apply in_tab_row in Hr. destruct Hr as [i [_ E]]. subst r. rewrite zlen_map, zlen_zrange; lia.
Qed.

Lemma view_in_spec nr nc tl s : 0 <= nr -> 4 <= nc -> amask s = legal_mask nc (grid s) (tidx s) -> 0 <= step_count s <= tl ->
  obs_in_spec nr nc tl (view nr nc s).
Proof.
  intros Hnr Hnc HM Hst. unfold view, obs_in_spec. cbn [o_grid o_tet o_mask o_step]. split; [|split; [apply piece_bin|split; [|auto]]].
  - split; [apply zlen_tab; lia|]. intros r Hr. apply in_tab_row in Hr. destruct Hr as [i [_ E]]. subst r.
    split; [rewrite zlen_map, zlen_zrange; lia|]. intros v Hv. apply in_map_iff in Hv. destruct Hv as [j [E _]]. subst v.
    destruct (gat 0 (grid s) i j =? 0); auto.
  - rewrite HM. apply legal_mask_dims. lia.
Qed.

Theorem step_obs_in_spec nr nc tl s rot x d :
  Shape nr nc (grid s) -> 4 <= nr -> 4 <= nc -> 0 <= step_count s < tl ->
  obs_in_spec nr nc tl (snd (step nr nc tl s rot x d)).
Proof.
  intros HS Hnr Hnc Hst.
  pose proof (step_obs_view nr nc tl s rot x d HS ltac:(lia) ltac:(lia)) as HV.
  pose proof (step_mask_legal nr nc tl s rot x d HS Hnr Hnc) as HM.
  pose proof (step_type_cases nr nc tl s rot x d HS ltac:(lia) ltac:(lia)) as HT.
  destruct (step nr nc tl s rot x d) as [[s' ts] o]. cbn [fst snd] in *. subst o. destruct HT as [HC _].
  apply view_in_spec; auto; lia.
Qed.

(* ---------- C07 / C09: a mask-true action ---------- *)
Section Legal.
Variables (nr nc tl : Z) (s : state) (rot x d : Z).
Hypothesis HP : Physical nr nc s.
Hypothesis Hnr : 4 <= nr.
Hypothesis Hnc : 4 <= nc.
Hypothesis Hrot : 0 <= rot < 4.
Hypothesis Hx : 0 <= x < nc.
Hypothesis Hd : valid_draw d = true.
Hypothesis Hv : gget false (amask s) rot x = true.

Let g := grid s.
Let t := piece (tidx s) rot.
Let HG : GridOK nr nc g := proj1 HP.
Let HS : Shape nr nc g := gridok_shape nr nc g HG.
Let y := drop_row nr g t x.

Lemma legal_t : legal nc g t x.
Proof. apply (mask_true_iff_legal nr nc); auto. Qed.

Lemma rest_t : rest_row nr g t x y.
Proof.
  apply (drop_is_rest_row nr nc); auto. apply piece_in. apply (legal_can_place0 nr nc); auto. apply legal_t.
Qed.

Lemma placed_eq : placed nr nc s rot x = stamp g t y x (gmax g + 1).
Proof. unfold placed. rewrite dyn_start_id by lia. reflexivity. Qed.

Lemma can_place_y : can_place nr g t y x.
Proof. destruct rest_t as [H0 [H1 _]]. apply H1. lia. Qed.

Lemma legal_cols : forall i j, 0 <= i < 4 -> 0 <= j < 4 -> cell t i j = 1 -> x + j < nc.
Proof. intros i j Hi Hj Hc. apply (legal_t i j Hi Hj Hc). Qed.

Lemma color_pos : 1 <= gmax g + 1.
Proof. pose proof (gmax_nonneg nr nc g HS ltac:(lia) ltac:(lia)). lia. Qed.

Lemma y_nonneg : 0 <= y.
Proof. destruct rest_t. auto. Qed.

Ltac side := first [ exact HG | exact legal_cols | exact can_place_y | exact y_nonneg | exact color_pos | assumption | lia ].

Lemma lines_count : lines nr nc s rot x = Z.of_nat (length (filter (is_full nc) (placed nr nc s rot x))).
Proof. unfold lines, full_lines. apply count_true. Qed.

Lemma zsum_b2z_bounds {A} (p : A -> bool) l : 0 <= zsum (map (fun a => b2z (p a)) l) <= zlen l.
Proof. induction l as [|a l IH]; [unfold zlen; cbn; lia|]. cbn [map zsum]. rewrite zlen_cons. destruct (p a); cbn [b2z]; lia. Qed.

(* at most four lines are cleared at once: a full row of the stamped grid meets the piece (no full row before) *)
Lemma lines_le_4 : 0 <= lines nr nc s rot x <= 4.
Proof.
  unfold lines, full_lines. rewrite placed_eq. unfold stamp.
  rewrite (shape_height nr nc), (shape_width nr nc) by (auto; lia). unfold tab. rewrite !map_map.
  pose proof (drop_row_range nr g t x ltac:(lia)) as Hy. fold y in Hy.
  rewrite (zsum_window _ (nr + 3) y 4); [|lia|lia|lia|].
  - pose proof (zsum_b2z_bounds (fun a => is_full nc (map (fun j => if covers t y x (y + a) j then gmax g + 1 else gat 0 g (y + a) j) (zrange (nc + 3)))) (zrange 4)) as B.
    rewrite zlen_zrange in B by lia. exact B.
  - intros i Hi.
    assert (E : map (fun j => if covers t y x i j then gmax g + 1 else gat 0 g i j) (zrange (nc + 3)) = map (fun j => gat 0 g i j) (zrange (nc + 3))).
    { apply map_ext. intro j. unfold covers. destruct ((y <=? i) && (i <? y + 4)) eqn:Q; [lia|reflexivity]. }
    rewrite E. clear E.
    assert (NF : is_full nc (map (fun j => gat 0 g i j) (zrange (nc + 3))) = false); [|rewrite NF; reflexivity].
    destruct (Z_lt_dec i 0) as [Hneg|Hnn].
    + apply not_full_zero; [rewrite zlen_map, zlen_zrange; lia|]. rewrite (znth_map 0) by (rewrite zlen_zrange; lia).
      rewrite znth_zrange by lia. unfold gat. rewrite (znth_neg [] g i) by lia. reflexivity.
    + destruct (Z_lt_dec i (nr + 3)) as [Hlt|Hge].
      * assert (ER : map (fun j => gat 0 g i j) (zrange (nc + 3)) = znth [] g i).
        { unfold gat. rewrite <- (shape_row nr nc g i HS) by lia. symmetry. apply map_zrange_znth. }
        rewrite ER. pose proof HG as [HL [_ [_ HNF]]]. apply HNF. apply znth_In. lia.
      * apply not_full_zero; [rewrite zlen_map, zlen_zrange; lia|]. rewrite (znth_map 0) by (rewrite zlen_zrange; lia).
        rewrite znth_zrange by lia. apply (gridok_padrow nr nc); auto. lia.
Qed.

(* C07: the successor is physical and the cell count moves by +4 - num_cols * lines *)
Theorem step_legal_physical :
  let s' := fst (fst (step nr nc tl s rot x d)) in
  Physical nr nc s' /\ cells (grid s') = cells (grid s) + 4 - nc * lines nr nc s rot x.
Proof.
  rewrite (step_unfold nr nc) by (auto; lia). cbv zeta. cbn [fst grid]. rewrite lines_count, placed_eq.
  pose proof (piece_in (tidx s) rot) as Hin. fold t in Hin.
  assert (R : forall r, In r (stamp g t y x (gmax g + 1)) -> row_ok nc r)
    by (intros r Hr; apply (stamp_rows_ok nr nc g t y x (gmax g + 1)); try exact Hr; side).
  split.
  - split; [|split; [|split]]; cbn [grid tidx step_count amask].
    + apply clear_gridok; try lia; auto.
      * apply stamp_shape_any; auto; try lia. apply color_pos.
      * intros i j Hi Hj. apply (stamp_padrow nr nc g t y x (gmax g + 1)); side.
    + exact Hd.
    + pose proof HP as [_ [_ [H _]]]. lia.
    + reflexivity.
  - rewrite cells_clear by (auto; lia).
    assert (CS : cells (stamp g t y x (gmax g + 1)) = cells g + 4) by (apply (cells_stamp nr nc); side).
    rewrite CS. fold g. lia.
Qed.

(* C08/C09: the published rules -- drop to the resting row, stamp, clear full rows; reward from the table *)
Theorem step_legal_rules :
  let '(s', ts, _) := step nr nc tl s rot x d in
  rest_row nr g t x y /\ grid s' = clear nc (stamp g t y x (gmax g + 1))
  /\ flines s' = full_lines (stamp g t y x (gmax g + 1)) nc
  /\ reward ts = [jget 0 REWARD_LIST (lines nr nc s rot x)] /\ tidx s' = d /\ new_tet s' = piece d 0
  /\ grid_old s' = g /\ xpos s' = x /\ dyn_start (nr + 3) 4 (ypos s') = y.
Proof.
  rewrite (step_unfold nr nc) by (auto; lia). cbv zeta. cbn [grid flines tidx new_tet grid_old xpos ypos]. rewrite placed_eq, Hv.
  split; [apply rest_t|]. repeat split; try reflexivity.
  destruct (negb _ || negb true || _); cbn [cond_done termination transition reward b2z]; rewrite Z.mul_1_r; reflexivity.
Qed.
End Legal.

(* C07 for ANY in-spec action: either the step is LAST, or the successor is physical *)
Theorem step_any_physical nr nc tl s rot x d :
  Physical nr nc s -> 4 <= nr -> 4 <= nc -> 0 <= rot < 4 -> 0 <= x < nc -> valid_draw d = true ->
  let '(s', ts, _) := step nr nc tl s rot x d in st ts = LAST \/ Physical nr nc s'.
Proof.
  intros HP Hnr Hnc Hr Hx Hd.
  destruct (gget false (amask s) rot x) eqn:Hv.
  - pose proof (step_legal_physical nr nc tl s rot x d HP Hnr Hnc Hr Hx Hd Hv) as H.
    destruct (step nr nc tl s rot x d) as [[s' ts] o]. right. apply H.
  - pose proof (step_invalid nr nc tl s rot x d (gridok_shape _ _ _ (proj1 HP)) ltac:(lia) ltac:(lia) Hv) as H.
    destruct (step nr nc tl s rot x d) as [[s' ts] o]. cbn [fst snd] in H. left. rewrite H. reflexivity.
Qed.

(* ---------- C10: reset ---------- *)
Lemma zeros_gridok nr nc : 1 <= nr -> 1 <= nc -> GridOK nr nc (tab (nr + 3) (nc + 3) (fun _ _ => 0)).
Proof.
  intros Hnr Hnc.
  assert (R : forall r, In r (tab (nr + 3) (nc + 3) (fun _ _ => 0)) -> r = map (fun _ => 0) (zrange (nc + 3))).
  { intros r Hr. apply in_tab_row in Hr. destruct Hr as [i [_ E]]. exact E. }
  assert (Z0 : forall j, znth 0 (map (fun _ : Z => 0) (zrange (nc + 3))) j = 0).
  { intro j. destruct (znth_In_or 0 (map (fun _ : Z => 0) (zrange (nc + 3))) j) as [E|E]; [auto|].
    apply in_map_iff in E. destruct E as [k [E _]]. lia. }
  split; [apply zlen_tab; lia|]. split; [|split].
  - intros r Hr. rewrite (R r Hr). split; [rewrite zlen_map, zlen_zrange; lia|]. split.
    + intros v Hv. apply in_map_iff in Hv. destruct Hv as [k [E _]]. lia.
    + intros j _. apply Z0.
  - intros i j Hi Hj. rewrite gat_tab by lia. reflexivity.
  - intros r Hr. rewrite (R r Hr). apply not_full_zero; [rewrite zlen_map, zlen_zrange; lia | apply Z0].
Qed.

Lemma clip1_zeros h w : clip1 (tab h w (fun _ _ => 0)) = tab h w (fun _ _ => 0).
Proof. unfold clip1, tab. rewrite map_map. apply map_ext. intro i. rewrite map_map. reflexivity. Qed.

Theorem init_physical nr nc d :
  4 <= nr -> 4 <= nc -> valid_draw d = true ->
  let '(s0, ts, o) := init nr nc d in
  Physical nr nc s0 /\ cells (grid s0) = 0 /\ ts = restart 1 /\ o = view nr nc s0
  /\ gget false (amask s0) 0 0 = true /\ step_count s0 = 0 /\ score s0 = 0.
Proof.
  intros Hnr Hnc Hd. unfold init. cbv zeta.
  set (g := tab (nr + 3) (nc + 3) (fun _ _ => 0)).
  pose proof (zeros_gridok nr nc ltac:(lia) ltac:(lia)) as HG. fold g in HG.
  pose proof (gridok_shape nr nc g HG) as HS.
  assert (EM : calc_mask g d = legal_mask nc g d).
  { rewrite <- (mask_is_legal_mask nr nc) by auto. unfold g. rewrite clip1_zeros. reflexivity. }
  split; [|split; [|split; [reflexivity|split; [|split; [|split; reflexivity]]]]].
  - split; [exact HG|]. cbn [tidx step_count amask grid]. split; [exact Hd|]. split; [lia|].
    unfold g. rewrite clip1_zeros. reflexivity.
  - cbn [grid]. unfold g. rewrite cells_tab. apply zsum_map_zero. intros i _. apply zsum_map_zero. intros j _. reflexivity.
  - unfold view. cbn [grid tidx amask step_count]. f_equal.
    rewrite <- (firstn_view nr nc g HS) by lia. unfold g. rewrite clip1_zeros. reflexivity.
  - cbn [amask]. rewrite EM, legal_mask_get by lia. apply legal_b_spec.
    intros i j Hi Hj _. split; [lia|]. intros i' Hi'. unfold g. rewrite gat_tab by lia. reflexivity.
Qed.

(* ---------- C11 / C08 over whole runs ---------- *)
Fixpoint all_mid (ts : list tstep) : Prop := match ts with [] => True | t :: r => st t = MID /\ all_mid r end.

Lemma run_shape nr nc tl l : forall s, Shape nr nc (grid s) -> 1 <= nr -> 1 <= nc ->
  Shape nr nc (grid (fst (run nr nc tl s l))).
Proof.
  induction l as [|[[rot x] d] l IH]; intros s HS Hnr Hnc; cbn [run fst]; [exact HS|].
  pose proof (step_shape nr nc tl s rot x d HS Hnr Hnc) as H1.
  destruct (step nr nc tl s rot x d) as [[s1 t1] o1]. cbn [fst] in H1. specialize (IH s1 H1 Hnr Hnc).
  destruct (run nr nc tl s1 l) as [s2 ts]. exact IH.
Qed.

(* the counter: after a run, step_count has advanced by its length, the score by the sum of the rewards;
   every MID step happened strictly before the time limit, and a step that reaches the limit is LAST *)
Theorem run_counter nr nc tl l : forall s, Shape nr nc (grid s) -> 1 <= nr -> 1 <= nc ->
  let '(s', ts) := run nr nc tl s l in
  step_count s' = step_count s + zlen l /\ zlen ts = zlen l
  /\ score s' = score s + zsum (map (fun t => zsum (reward t)) ts)
  /\ (all_mid ts -> step_count s' < tl \/ l = [])
  /\ (forall k, 0 <= k < zlen l -> tl <= step_count s + k + 1 -> st (znth (restart 1) ts k) = LAST).
Proof.
  induction l as [|[[rot x] d] l IH]; intros s HS Hnr Hnc; cbn [run].
  - unfold zlen; cbn. repeat split; try lia. intros; right; reflexivity.
  - pose proof (step_type_cases nr nc tl s rot x d HS Hnr Hnc) as HT.
    pose proof (step_shape nr nc tl s rot x d HS Hnr Hnc) as H1.
    destruct (step nr nc tl s rot x d) as [[s1 t1] o1]. cbn [fst] in H1.
    destruct HT as [HC [HL [HK [_ [HR [HSc _]]]]]].
    specialize (IH s1 H1 Hnr Hnc). destruct (run nr nc tl s1 l) as [s2 ts].
    destruct IH as [I1 [I2 [I3 [I4 I5]]]]. rewrite !zlen_cons. pose proof (zlen_nonneg l).
    split; [lia|]. split; [lia|]. split; [cbn [map zsum]; rewrite HR; cbn [zsum]; lia|]. split.
    + intros [M A]. left. destruct (I4 A) as [I|I]; [lia|]. subst l. unfold zlen in I1; cbn in I1.
      destruct (Z_lt_dec (step_count s1) tl); [lia|exfalso].
      assert (st t1 = LAST) by (apply HL; right; right; lia). unfold MID, LAST in *. lia.
    + intros k Hk Htl. destruct (Z.eq_dec k 0) as [->|].
      * rewrite znth_0. apply HL. right; right. lia.
      * rewrite znth_cons by lia. apply I5; lia.
Qed.

(* C01 at reset *)
Theorem init_obs_in_spec nr nc tl d :
  4 <= nr -> 4 <= nc -> 0 <= tl -> valid_draw d = true -> obs_in_spec nr nc tl (snd (init nr nc d)).
Proof.
  intros Hnr Hnc Htl Hd. pose proof (init_physical nr nc d Hnr Hnc Hd) as H.
  destruct (init nr nc d) as [[s0 ts] o]. destruct H as [HP [_ [_ [Ho [_ [Hc _]]]]]]. cbn [snd]. subst o.
  apply view_in_spec; try lia. apply (physical_mask nr nc); auto.
Qed.

(* concrete states for the non-vacuity examples *)
Definition ex_s0 : state := fst (fst (init 4 4 0)).                       (* 4x4 board, first piece I *)
Definition ex_s1 : state := fst (fst (step 4 4 9 ex_s0 1 0 3)).           (* flat I on the floor: one line cleared, next piece O *)
