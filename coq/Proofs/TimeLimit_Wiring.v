(* The time-limit wiring as TRANSLATED FROM THE SOURCE (Gen/TimeLimitSrc.v, regenerated on every run) against the
   documented behaviour and against the hand models: for EVERY value of the limit (not a sample of values). *)
Require Import ZArith Bool Lia.
Require Import JV.Gen.TimeLimitSrc.
Require JV.Model.Cleaner JV.Model.Maze JV.Model.PacMan JV.Model.MultiCvrp JV.Model.FlatPack.
Open Scope Z_scope.

Definition opt0 (o : option Z) : Z := match o with Some t => t | None => 0 end.

Lemma py_or_some t b : t <> 0 -> py_or (Some t) b = Some t.
Proof. intros H. unfold py_or. destruct (t =? 0) eqn:E; [apply Z.eqb_eq in E; contradiction | reflexivity]. Qed.

Ltac plain := intros; reflexivity.
Lemma snake_explicit t r c : snake_limit_src (Some t) r c = Some t. Proof. plain. Qed.
Lemma lbf_explicit t r c : lbf_limit_src (Some t) r c = Some t. Proof. plain. Qed.
Lemma mmst_explicit t r c : mmst_limit_src (Some t) r c = Some t. Proof. plain. Qed.
Lemma connector_explicit t r c : connector_limit_src (Some t) r c = Some t. Proof. plain. Qed.
Lemma robot_warehouse_explicit t r c : robot_warehouse_limit_src (Some t) r c = Some t. Proof. plain. Qed.
Lemma sokoban_explicit t r c : sokoban_limit_src (Some t) r c = Some t. Proof. plain. Qed.
Lemma tetris_explicit t r c : tetris_limit_src (Some t) r c = Some t. Proof. plain. Qed.
Lemma sliding_tile_puzzle_explicit t r c : sliding_tile_puzzle_limit_src (Some t) r c = Some t. Proof. plain. Qed.
Lemma rubiks_cube_explicit t r c : rubiks_cube_limit_src (Some t) r c = Some t. Proof. plain. Qed.
Lemma cleaner_explicit t r c : t <> 0 -> cleaner_limit_src (Some t) r c = Some t.
Proof. intros H. unfold cleaner_limit_src. apply py_or_some; exact H. Qed.
Lemma maze_explicit t r c : t <> 0 -> maze_limit_src (Some t) r c = Some t.
Proof. intros H. unfold maze_limit_src. apply py_or_some; exact H. Qed.
Lemma pac_man_explicit t r c : t <> 0 -> pac_man_limit_src (Some t) r c = Some t.
Proof. intros H. unfold pac_man_limit_src. apply py_or_some; exact H. Qed.

(* documented defaults *)
Lemma defaults_positive :
  snake_default = Some 4000 /\ lbf_default = Some 100 /\ mmst_default = Some 70 /\ connector_default = Some 50
  /\ robot_warehouse_default = Some 500 /\ sokoban_default = Some 120 /\ tetris_default = Some 400
  /\ sliding_tile_puzzle_default = Some 500 /\ rubiks_cube_default = Some 200
  /\ cleaner_default = None /\ maze_default = None /\ pac_man_default = None.
Proof. repeat split; reflexivity. Qed.
Lemma cleaner_none r c : cleaner_limit_src cleaner_default r c = Some (r * c) /\ cleaner_limit_src (Some 0) r c = Some (r * c).
Proof. split; reflexivity. Qed.
Lemma maze_none r c : maze_limit_src maze_default r c = Some (r * c) /\ maze_limit_src (Some 0) r c = Some (r * c).
Proof. split; reflexivity. Qed.
Lemma pac_man_none r c : pac_man_limit_src pac_man_default r c = Some 1000 /\ pac_man_limit_src (Some 0) r c = Some 1000.
Proof. split; reflexivity. Qed.

(* the source wiring IS the hand model's wiring (the models encode None as 0) *)
Lemma cleaner_model o r c : cleaner_limit_src o r c = Some (JV.Model.Cleaner.eff_limit (opt0 o) r c).
Proof. unfold cleaner_limit_src, py_or, JV.Model.Cleaner.eff_limit, opt0. destruct o as [t|]; [destruct (t =? 0)|]; reflexivity. Qed.
Lemma maze_model o r c : maze_limit_src o r c = Some (JV.Model.Maze.resolve_limit r c (opt0 o)).
Proof. unfold maze_limit_src, py_or, JV.Model.Maze.resolve_limit, opt0. destruct o as [t|]; [destruct (t =? 0)|]; reflexivity. Qed.
Lemma pac_man_model o r c : pac_man_limit_src o r c = Some (JV.Model.PacMan.resolve_limit (opt0 o)).
Proof. unfold pac_man_limit_src, py_or, JV.Model.PacMan.resolve_limit, opt0. destruct o as [t|]; [destruct (t =? 0)|]; reflexivity. Qed.

(* the limit test of every environment is `limit <= count` *)
Lemma tests_are_geq count limit :
  snake_limit_test count limit = (limit <=? count) /\ cleaner_limit_test count limit = (limit <=? count)
  /\ lbf_limit_test count limit = (limit <=? count) /\ pac_man_limit_test count limit = (limit <=? count)
  /\ maze_limit_test count limit = (limit <=? count) /\ mmst_limit_test count limit = (limit <=? count)
  /\ connector_limit_test count limit = (limit <=? count) /\ robot_warehouse_limit_test count limit = (limit <=? count)
  /\ sokoban_limit_test count limit = (limit <=? count) /\ tetris_limit_test count limit = (limit <=? count)
  /\ sliding_tile_puzzle_limit_test count limit = (limit <=? count) /\ rubiks_cube_limit_test count limit = (limit <=? count).
Proof. repeat split; apply Z.geb_leb. Qed.

(* structural horizons: MultiCVRP (env and BOTH reward functions agree: > 2 * num_customers, for any number of vehicles),
   FlatPack (>= num_blocks) *)
Lemma multi_cvrp_horizon count n v :
  multi_cvrp_env_horizon_test_0 count n v = (2 * n <? count)
  /\ multi_cvrp_reward_horizon_test_0 count n v = (2 * n <? count)
  /\ multi_cvrp_reward_horizon_test_1 count n v = (2 * n <? count).
Proof.
  unfold multi_cvrp_env_horizon_test_0, multi_cvrp_reward_horizon_test_0, multi_cvrp_reward_horizon_test_1.
  rewrite Z.gtb_ltb, (Z.mul_comm n 2). repeat split; reflexivity.
Qed.
Lemma multi_cvrp_model n v s' : multi_cvrp_env_horizon_test_0 (JV.Model.MultiCvrp.scount s') n v = JV.Model.MultiCvrp.at_limit n s'.
Proof. unfold JV.Model.MultiCvrp.at_limit. apply (multi_cvrp_horizon (JV.Model.MultiCvrp.scount s') n v). Qed.
Lemma flat_pack_horizon count nb : flat_pack_env_horizon_test_0 count nb = (nb <=? count).
Proof. apply Z.geb_leb. Qed.
