(* Laws of the timestep constructors (C03) and of the time-limit bookkeeping (C11), environment independent. *)
Require Import JV.Base.Prelude JV.Base.Codec JV.Base.TimeStep.

Lemma list_eqb_Z_refl l : list_eqb Z.eqb l l = true.
Proof. induction l as [|x l IH]; cbn [list_eqb]; auto. rewrite Z.eqb_refl, IH. reflexivity. Qed.

Lemma in01_repeat0 k : in01 (repeat 0 k) = true.
Proof. induction k; cbn; auto. Qed.
Lemma in01_repeat1 k : in01 (repeat 1 k) = true.
Proof. induction k; cbn; auto. Qed.
Lemma all_zero_repeat0 k : all_zero (repeat 0 k) = true.
Proof. induction k; cbn; auto. Qed.
Lemma all_zero_repeat1 k : (0 < k)%nat -> all_zero (repeat 1 k) = false.
Proof. destruct k; [lia|reflexivity]. Qed.

(* reset: FIRST, zero reward, unit discount, shaped like the specs *)
Theorem restart_first_ok k : first_ok k (restart k) = true.
Proof. unfold first_ok, restart; cbn [st reward discount]. rewrite !list_eqb_Z_refl. reflexivity. Qed.

(* step: the three constructors every jumanji step ends with *)
Theorem transition_step_ok k r tr : (0 < k)%nat -> length r = k -> step_ok k tr (transition k r) = true.
Proof.
  intros Hk Hr. unfold step_ok, transition; cbn [st reward discount].
  rewrite repeat_length, Hr, Nat.eqb_refl, in01_repeat1, all_zero_repeat1 by auto. reflexivity.
Qed.
Theorem termination_step_ok k r tr : length r = k -> step_ok k tr (termination k r) = true.
Proof.
  intros Hr. unfold step_ok, termination; cbn [st reward discount].
  rewrite repeat_length, Hr, Nat.eqb_refl, in01_repeat0, all_zero_repeat0. reflexivity.
Qed.
(* a truncation (LAST with unit discount) is accepted only where it is documented *)
Theorem truncation_step_ok k r : length r = k -> step_ok k true (truncation k r) = true.
Proof.
  intros Hr. unfold step_ok, truncation; cbn [st reward discount].
  rewrite repeat_length, Hr, Nat.eqb_refl, in01_repeat1. cbn. rewrite orb_true_r. reflexivity.
Qed.
Theorem truncation_undocumented_rejected k r : (0 < k)%nat -> step_ok k false (truncation k r) = false.
Proof.
  intros Hk. unfold step_ok, truncation; cbn [st reward discount]. rewrite all_zero_repeat1 by auto.
  cbn. rewrite !andb_false_r. reflexivity.
Qed.
Theorem cond_done_step_ok k done r tr : (0 < k)%nat -> length r = k -> step_ok k tr (cond_done k done r) = true.
Proof. intros; unfold cond_done; destruct done; auto using transition_step_ok, termination_step_ok. Qed.

(* what the protocol checker run on implementation timesteps decides *)
Theorem step_ok_spec k tr t : step_ok k tr t = true <->
  (st t = MID \/ st t = LAST) /\ length (discount t) = k /\ length (reward t) = k
  /\ Forall (fun d => 0 <= d <= 1) (discount t)
  /\ (st t = MID -> exists d, In d (discount t) /\ d <> 0)
  /\ (st t = LAST -> Forall (fun d => d = 0) (discount t) \/ tr = true).
Proof.
  unfold step_ok, in01, all_zero, MID, LAST.
  rewrite !andb_true_iff, orb_true_iff, !Z.eqb_eq, !Nat.eqb_eq, forallb_forall, Forall_forall.
  split.
  - intros (((((Hs & Hd) & Hr) & H01) & Hm) & Hl). repeat split; auto.
    + specialize (H01 _ H). lia.
    + specialize (H01 _ H). lia.
    + intro E. rewrite E in Hm. cbn in Hm. apply negb_true_iff in Hm.
      destruct (forallb (Z.eqb 0) (discount t)) eqn:F; [discriminate|].
      assert (X : existsb (fun d => negb (0 =? d)) (discount t) = true).
      { clear -F. induction (discount t) as [|d l IH]; cbn [forallb existsb] in *; [discriminate|].
        destruct (0 =? d); cbn [negb andb orb] in *; auto. }
      apply existsb_exists in X as (d & Hin & Hd'). exists d. split; auto. lia.
    + intro E. rewrite E in Hl. cbn in Hl. apply orb_true_iff in Hl as [Hl|Hl]; auto.
      left. rewrite forallb_forall in Hl. apply Forall_forall. intros d Hin. specialize (Hl d Hin). lia.
  - intros (Hs & Hd & Hr & H01 & Hm & Hl). repeat split; auto.
    + intros d Hin. specialize (H01 d Hin). lia.
    + destruct (st t =? 1) eqn:E; auto. apply Z.eqb_eq in E. destruct (Hm E) as (d & Hin & Hnz).
      apply negb_true_iff. destruct (forallb (Z.eqb 0) (discount t)) eqn:F; auto.
      rewrite forallb_forall in F. specialize (F d Hin). lia.
    + destruct (st t =? 2) eqn:E; auto. apply Z.eqb_eq in E. destruct (Hl E) as [Hz|Ht]; apply orb_true_iff; auto.
      left. apply forallb_forall. intros d Hin. rewrite Forall_forall in Hz. specialize (Hz d Hin). lia.
Qed.

Theorem first_ok_spec k t : first_ok k t = true <-> st t = FIRST /\ reward t = repeat 0 k /\ discount t = repeat 1 k.
Proof.
  unfold first_ok. rewrite !andb_true_iff, Z.eqb_eq.
  rewrite !(list_eqb_eq Z.eqb Z.eqb_eq). tauto.
Qed.

(* ---- C11: what [limit_ok] accepts.  types = step types of steps i0, i0+1, ... ; other[j] = 1 iff step i0+j ended
   for a cause other than the time limit. *)
Theorem limit_ok_sound T : forall types other i0, limit_ok T i0 types other = true ->
  forall j, (j < length types)%nat ->
    (forall j', (j' < j)%nat -> nth j' types 0 <> LAST) ->
    (nth j types 0 <> LAST -> i0 + Z.of_nat j < T)                                      (* never later *)
    /\ (nth j types 0 = LAST -> i0 + Z.of_nat j = T \/ (z2b (nth j other 0) = true /\ i0 + Z.of_nat j <= T)).  (* never earlier without a cause *)
Proof.
  induction types as [|ty r IH]; intros other i0 H j Hj Hbefore; [cbn in Hj; lia|].
  destruct other as [|o ro]; [cbn in H; discriminate|]. cbn [limit_ok] in H.
  destruct j as [|j].
  - cbn [nth]. destruct (ty =? LAST) eqn:E.
    + apply Z.eqb_eq in E. split; [congruence|]. intros _. apply orb_true_iff in H as [H|H].
      * apply andb_true_iff in H as [H1 H2]. right. split; auto. lia.
      * left. lia.
    + apply Z.eqb_neq in E. apply andb_true_iff in H as [H1 H2]. split; [intros _; lia|congruence].
  - assert (E : (ty =? LAST) = false). { apply Z.eqb_neq. apply (Hbefore 0%nat). lia. }
    rewrite E in H. apply andb_true_iff in H as [H1 H2].
    specialize (IH ro (i0 + 1) H2 j). cbn [length] in Hj. cbn [nth].
    destruct IH as [A B]; [lia| |].
    + intros j' Hj'. apply (Hbefore (S j')). lia.
    + split; intros X; [specialize (A X); lia|]. destruct (B X) as [B1|[B1 B2]]; [left; lia|right; split; auto; lia].
Qed.

(* ---- generic counter argument: an environment whose step increments a counter and is LAST exactly when another cause
   holds or the counter reaches T, ends exactly at T ---- *)
Section TimeLimit.
  Variables (S A : Type) (cnt : S -> Z) (stp : S -> A -> S * tstep) (other : S -> A -> bool) (T : Z).
  Hypothesis Hcnt : forall s a, cnt (fst (stp s a)) = cnt s + 1.
  Hypothesis Hlast : forall s a, st (snd (stp s a)) = LAST <-> (other s a = true \/ T <= cnt s + 1).

  Fixpoint run (s : S) (acts : list A) : list (S * A * tstep) :=
    match acts with [] => [] | a :: r => (s, a, snd (stp s a)) :: run (fst (stp s a)) r end.

  (* never later: while every step so far was not LAST, fewer than T steps have been taken *)
  Theorem limit_upper acts : forall s, cnt s = 0 \/ 0 <= cnt s ->
    Forall (fun x => st (snd x) <> LAST) (run s acts) -> cnt s + Z.of_nat (length acts) < T \/ acts = [].
  Proof.
    induction acts as [|a r IH]; intros s H0 F; [right; reflexivity|left].
    cbn [run] in F. inversion F as [|x l Hx Hr]; subst. cbn [snd] in Hx.
    assert (N : ~ T <= cnt s + 1) by (intro C; apply Hx; apply Hlast; auto).
    destruct (IH (fst (stp s a))) as [L|E]; [rewrite Hcnt; lia|auto| |].
    - rewrite Hcnt in L. cbn [length]. lia.
    - subst r. cbn [length]. lia.
  Qed.

  (* never earlier without another cause, and exactly at T otherwise *)
  Theorem limit_exact s a : st (snd (stp s a)) = LAST -> other s a = false -> T <= cnt s + 1.
  Proof. intros L O. apply Hlast in L as [L|L]; [congruence|auto]. Qed.
  Theorem limit_reached s a : cnt s + 1 = T -> st (snd (stp s a)) = LAST.
  Proof. intro E. apply Hlast. right. lia. Qed.
End TimeLimit.
