(* jumanji/tree_utils.py and testing/pytrees.py AS TRANSLATED FROM THE SOURCE (Gen/TreeSrc.v) equal the hand model Base/Tree.v
   on every pytree; the laws of Proofs/Tree_laws.v are transferred. *)
Require Import JV.Base.Prelude JV.Base.JaxIndex JV.Base.Tree JV.Gen.TreeSrc JV.Proofs.Tree_laws.

Lemma tree_slice_src_eq t i : tree_slice_src t i = tree_slice t i.
Proof. reflexivity. Qed.
Lemma tree_add_element_src_eq t i e : tree_add_element_src t i e = tree_add_element t i e.
Proof. reflexivity. Qed.
Lemma tree_transpose_src_eq ts : tree_transpose_src ts = tree_transpose ts.
Proof. destruct ts as [|t0 ts]; reflexivity. Qed.
Lemma forallb_map_id {A} (f : A -> bool) l : forallb (fun b => b) (map f l) = forallb f l.
Proof. induction l as [|x l IH]; cbn [map forallb]; [reflexivity | rewrite IH; reflexivity]. Qed.
Lemma is_equal_pytree_src_eq a b : is_equal_pytree_src a b = is_equal_pytree a b.
Proof.
  unfold is_equal_pytree_src, is_equal_pytree, map_structure2_flat, np_all.
  destruct (def_eqb (p_def a) (p_def b) && Nat.eqb (length (p_leaves a)) (length (p_leaves b))); [|reflexivity].
  f_equal. apply forallb_map_id.
Qed.
Lemma assert_different_src_eq a b : assert_trees_are_different_fails_src a b = assert_different_fails a b.
Proof. unfold assert_trees_are_different_fails_src, assert_different_fails. rewrite is_equal_pytree_src_eq.
       destruct (is_equal_pytree a b) as [[|]|]; reflexivity. Qed.
Lemma assert_equal_src_eq a b : assert_trees_are_equal_fails_src a b = assert_equal_fails a b.
Proof. unfold assert_trees_are_equal_fails_src, assert_equal_fails. rewrite is_equal_pytree_src_eq. reflexivity. Qed.

Lemma src_slice_transpose (ts : list ptree) t0 s i :
  Forall wf_tree ts -> Forall (same_structure t0) ts -> tree_transpose_src ts = Some s ->
  (i < length ts)%nat -> tree_slice_src s (Z.of_nat i) = Some (nth i ts (mkP [] [])).
Proof. rewrite tree_transpose_src_eq, tree_slice_src_eq. apply slice_transpose. Qed.
Lemma src_add_element_at t i e r n :
  wf_tree t -> wf_tree e -> batched n t -> 0 <= n ->
  tree_add_element_src t i e = Some r -> tree_slice_src r i = Some e.
Proof. rewrite tree_add_element_src_eq, tree_slice_src_eq. apply add_element_at. Qed.
Lemma src_add_element_else t i j e r n :
  wf_tree t -> wf_tree e -> batched n t -> 0 <= n ->
  tree_add_element_src t i e = Some r -> jnorm n j <> jnorm n i -> 0 <= jnorm n j < n ->
  tree_slice_src r j = tree_slice_src t j.
Proof. rewrite tree_add_element_src_eq, !tree_slice_src_eq. apply add_element_else. Qed.
