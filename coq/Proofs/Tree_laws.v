(* Laws of the pytree helpers (C19).  Everything is proved for arbitrary trees,
   leaf shapes, batch sizes and indices. *)
Require Import JV.Base.Prelude JV.Base.JaxIndex JV.Base.Tree.

(* ---------- list arithmetic ---------- *)
Lemma nth_firstn_lt {A} (l : list A) n p d : (p < n)%nat -> nth p (firstn n l) d = nth p l d.
Proof.
  revert n p; induction l as [|x l IH]; intros [|n] [|p] H; cbn; auto; try lia.
  apply IH; lia.
Qed.

Lemma nth_skipn_add {A} (l : list A) m p d : nth p (skipn m l) d = nth (m + p) l d.
Proof.
  revert l; induction m as [|m IH]; intros l; cbn; auto.
  destruct l as [|x l]; cbn; auto. destruct p; auto.
Qed.

Lemma chunk_nth {A} (l : list A) m sz p d :
  (p < sz)%nat -> nth p (firstn sz (skipn m l)) d = nth (m + p) l d.
Proof. intro H. rewrite nth_firstn_lt by auto. apply nth_skipn_add. Qed.

Lemma chunk_length {A} (l : list A) m sz : (m + sz <= length l)%nat -> length (firstn sz (skipn m l)) = sz.
Proof. intro H. rewrite firstn_length, skipn_length. lia. Qed.

Lemma list_ext {A} (a b : list A) d :
  length a = length b -> (forall p, (p < length a)%nat -> nth p a d = nth p b d) -> a = b.
Proof.
  revert b; induction a as [|x a IH]; intros [|y b] L H; cbn in *; try lia; auto.
  f_equal. - apply (H 0%nat); lia. - apply IH; [lia|]. intros p Hp. apply (H (S p)); lia.
Qed.

Lemma concat_length_uniform {A} (ls : list (list A)) sz :
  Forall (fun l => length l = sz) ls -> length (concat ls) = (length ls * sz)%nat.
Proof. induction 1 as [|l ls H _ IH]; cbn; auto. rewrite app_length, IH, H. lia. Qed.

Lemma chunk_concat {A} (ls : list (list A)) sz i :
  Forall (fun l => length l = sz) ls -> (i < length ls)%nat ->
  firstn sz (skipn (i * sz) (concat ls)) = nth i ls [].
Proof.
  intros H. revert i. induction H as [|l ls Hl H IH]; intros i Hi; cbn in *; [lia|].
  destruct i as [|i].
  - cbn. rewrite firstn_app, Hl, Nat.sub_diag, firstn_O, app_nil_r. rewrite <- Hl. apply firstn_all.
  - cbn [Nat.mul]. rewrite skipn_app, Hl.
    replace (sz + i * sz - sz)%nat with (i * sz)%nat by lia.
    rewrite skipn_all2 by lia. cbn. apply IH. lia.
Qed.

Lemma set_chunk_same {A} (data e : list A) j sz n :
  length data = (n * sz)%nat -> (j < n)%nat -> length e = sz ->
  firstn sz (skipn (j * sz) (firstn (j * sz) data ++ e ++ skipn ((j + 1) * sz) data)) = e.
Proof.
  intros Hd Hj He.
  assert (Hjs : (j * sz + sz <= n * sz)%nat) by nia.
  rewrite skipn_app. rewrite firstn_length, Nat.min_l by lia.
  rewrite Nat.sub_diag, skipn_O. rewrite skipn_all2 by (rewrite firstn_length; lia).
  cbn [app]. rewrite firstn_app, He, Nat.sub_diag, firstn_O, app_nil_r. rewrite <- He. apply firstn_all.
Qed.

Lemma set_chunk_other {A} (data e : list A) j k sz n :
  length data = (n * sz)%nat -> (j < n)%nat -> (k < n)%nat -> k <> j -> length e = sz ->
  firstn sz (skipn (k * sz) (firstn (j * sz) data ++ e ++ skipn ((j + 1) * sz) data))
  = firstn sz (skipn (k * sz) data).
Proof.
  intros Hd Hj Hk Hne He.
  assert (Hjs : (j * sz + sz <= n * sz)%nat) by nia.
  assert (Hks : (k * sz + sz <= n * sz)%nat) by nia.
  set (new := firstn (j * sz) data ++ e ++ skipn ((j + 1) * sz) data).
  assert (Hnew : length new = (n * sz)%nat).
  { unfold new. rewrite !app_length, firstn_length, skipn_length. lia. }
  destruct sz as [|sz']; [reflexivity|]. set (sz := S sz') in *.
  assert (D : data <> []) by (intro E; rewrite E in Hd; cbn in Hd; nia).
  destruct data as [|d0 data']; [congruence|]. set (data := d0 :: data') in *.
  apply (list_ext _ _ d0).
  - rewrite !chunk_length by lia. reflexivity.
  - intros p Hp. rewrite chunk_length in Hp by lia.
    rewrite !chunk_nth by lia. unfold new.
    assert (C : (k < j)%nat \/ (j < k)%nat) by lia. destruct C as [C|C].
    + assert ((k * sz + p < j * sz)%nat) by nia.
      rewrite app_nth1 by (rewrite firstn_length; lia).
      apply nth_firstn_lt; lia.
    + assert ((j * sz + sz <= k * sz)%nat) by nia.
      rewrite app_nth2 by (rewrite firstn_length; lia).
      rewrite firstn_length, Nat.min_l by lia.
      rewrite app_nth2 by lia.
      rewrite nth_skipn_add. f_equal. lia.
Qed.

(* ---------- reflexivity of the structural equalities ---------- *)
Lemma shape_eqb_eq a b : shape_eqb a b = true <-> a = b.
Proof. apply list_eqb_eq. intros; apply Z.eqb_eq. Qed.
Lemma def_eqb_eq a b : def_eqb a b = true <-> a = b.
Proof. apply list_eqb_eq. intros; apply Z.eqb_eq. Qed.
Lemma shape_eqb_refl a : shape_eqb a a = true.
Proof. apply shape_eqb_eq; auto. Qed.
Lemma def_eqb_refl a : def_eqb a a = true.
Proof. apply def_eqb_eq; auto. Qed.

(* ---------- all_some / map2o ---------- *)
Lemma all_some_map_ext {A B} (f : A -> option B) (g : A -> B) l :
  (forall x, In x l -> f x = Some (g x)) -> all_some (map f l) = Some (map g l).
Proof.
  induction l as [|x l IH]; cbn; intro H; auto.
  rewrite (H x) by auto. rewrite IH by auto. reflexivity.
Qed.

Lemma all_some_length {A} (l : list (option A)) r : all_some l = Some r -> length r = length l.
Proof.
  revert r; induction l as [|[x|] l IH]; cbn; intros r H; try congruence.
  - inversion H; auto.
  - destruct (all_some l); inversion H; cbn; f_equal; auto.
Qed.

Lemma all_some_nth {A} (l : list (option A)) r j d :
  all_some l = Some r -> (j < length l)%nat -> nth j l None = Some (nth j r d).
Proof.
  revert r j; induction l as [|[x|] l IH]; cbn; intros r j H Hj; try congruence; try lia.
  destruct (all_some l) eqn:E; inversion H; subst. destruct j; cbn; auto. apply IH; auto; lia.
Qed.

Lemma map2o_length {A B C} (f : A -> B -> option C) a b r :
  map2o f a b = Some r -> length r = length a /\ length a = length b.
Proof.
  revert b r; induction a as [|x a IH]; intros [|y b] r H; cbn in *; try congruence.
  - inversion H; auto.
  - destruct (f x y); try congruence. destruct (map2o f a b) eqn:E; try congruence.
    inversion H; subst. destruct (IH _ _ E). cbn; split; lia.
Qed.

Lemma map2o_nth {A B C} (f : A -> B -> option C) a b r j da db dc :
  map2o f a b = Some r -> (j < length a)%nat -> f (nth j a da) (nth j b db) = Some (nth j r dc).
Proof.
  revert b r j; induction a as [|x a IH]; intros [|y b] r j H Hj; cbn in *; try congruence; try lia.
  destruct (f x y) eqn:F; try congruence. destruct (map2o f a b) eqn:E; try congruence.
  inversion H; subst. destruct j; cbn; auto. apply IH; auto; lia.
Qed.

(* ---------- leaf laws ---------- *)
Definition compat (t0 t : tensor) : Prop := t_dt t = t_dt t0 /\ t_shape t = t_shape t0.

Lemma slice_stack_leaf (ls : list tensor) t0 s i :
  Forall wf_tensor ls -> Forall (compat t0) ls -> stack_leaves ls = Some s ->
  (i < length ls)%nat ->
  slice_leaf (Z.of_nat i) s = Some (nth i ls dummy_tensor).
Proof.
  intros Hwf Hc Hs Hi. destruct ls as [|a ls]; [cbn in Hi; lia|].
  unfold stack_leaves in Hs.
  destruct (forallb _ _) eqn:Fb; [|congruence]. inversion Hs; subst s; clear Hs.
  unfold slice_leaf; cbn [t_shape t_dt t_data].
  unfold jnorm. destruct (Z.of_nat i <? 0) eqn:E; [lia|].
  replace ((0 <=? Z.of_nat i) && (Z.of_nat i <? zlen (a :: ls))) with true by (unfold zlen; lia).
  rewrite Nat2Z.id.
  assert (Hall : Forall (fun t => t_dt t = t_dt a /\ t_shape t = t_shape a) (a :: ls)).
  { rewrite forallb_forall in Fb. apply Forall_forall. intros t Ht. specialize (Fb t Ht).
    apply andb_true_iff in Fb as [F1 F2]. split; [lia | apply shape_eqb_eq; auto]. }
  assert (Hlen : Forall (fun l => length l = prodn (t_shape a)) (map t_data (a :: ls))).
  { apply Forall_map. rewrite Forall_forall in *. intros t Ht.
    destruct (Hall t Ht) as [_ Hsh]. specialize (Hwf t Ht). unfold wf_tensor in Hwf. congruence. }
  change (t_data a ++ concat (map t_data ls)) with (concat (map t_data (a :: ls))).
  rewrite chunk_concat with (sz := prodn (t_shape a)); auto; [|rewrite map_length; auto].
  set (t := nth i (a :: ls) dummy_tensor).
  assert (Hin : In t (a :: ls)) by (apply nth_In; auto).
  rewrite Forall_forall in Hall. destruct (Hall t Hin) as [Hd Hsh].
  change [] with (t_data dummy_tensor). rewrite map_nth. fold t.
  destruct t as [dt sh da]; cbn in *. subst. reflexivity.
Qed.

Lemma slice_set_leaf_same t e i r n rest :
  wf_tensor t -> wf_tensor e -> t_shape t = n :: rest -> 0 <= n ->
  set_leaf i t e = Some r -> slice_leaf i r = Some e.
Proof.
  intros Ht He Hs Hn Hset. unfold set_leaf in Hset. rewrite Hs in Hset.
  destruct (_ && _) eqn:C; [|congruence]. inversion Hset; subst r; clear Hset.
  repeat (apply andb_true_iff in C as [C ?]).
  unfold slice_leaf; cbn [t_shape t_dt t_data]. rewrite ?Hs.
  replace ((0 <=? jnorm n i) && (jnorm n i <? n)) with true by lia.
  unfold wf_tensor in *. rewrite Hs in Ht. cbn [prodn fold_right] in Ht.
  apply shape_eqb_eq in H0.
  rewrite set_chunk_same with (n := Z.to_nat n); auto; try lia; [|congruence].
  destruct e as [dt sh da]; cbn in *. f_equal. f_equal; auto. lia.
Qed.

Lemma slice_set_leaf_other t e i j r n rest :
  wf_tensor t -> wf_tensor e -> t_shape t = n :: rest -> 0 <= n ->
  set_leaf i t e = Some r -> jnorm n j <> jnorm n i -> 0 <= jnorm n j < n ->
  slice_leaf j r = slice_leaf j t.
Proof.
  intros Ht He Hs Hn Hset Hne Hj. unfold set_leaf in Hset. rewrite Hs in Hset.
  destruct (_ && _) eqn:C; [|congruence]. inversion Hset; subst r; clear Hset.
  repeat (apply andb_true_iff in C as [C ?]).
  unfold slice_leaf; cbn [t_shape t_dt t_data]. rewrite ?Hs.
  replace ((0 <=? jnorm n j) && (jnorm n j <? n)) with true by lia.
  unfold wf_tensor in *. rewrite Hs in Ht. cbn [prodn fold_right] in Ht.
  apply shape_eqb_eq in H0.
  rewrite set_chunk_other with (n := Z.to_nat n); auto; try lia. congruence.
Qed.

Lemma set_leaf_meta t e i r : set_leaf i t e = Some r -> t_dt r = t_dt t /\ t_shape r = t_shape t.
Proof.
  unfold set_leaf. destruct (t_shape t) eqn:S; [congruence|].
  destruct (_ && _); [|congruence]. intro H; inversion H; cbn; auto.
Qed.

(* ---------- tree laws ---------- *)
Definition wf_tree (t : ptree) : Prop := Forall wf_tensor (p_leaves t).
Definition same_structure (t0 t : ptree) : Prop :=
  p_def t = p_def t0 /\ length (p_leaves t) = length (p_leaves t0) /\
  forall j, (j < length (p_leaves t0))%nat ->
       compat (nth j (p_leaves t0) dummy_tensor) (nth j (p_leaves t) dummy_tensor).

Lemma all_some_map_Some {A} (l : list A) : all_some (map Some l) = Some l.
Proof. induction l; cbn; auto. rewrite IHl; auto. Qed.

Lemma nth_map_lt {A B} (f : A -> B) l j da db : (j < length l)%nat -> nth j (map f l) db = f (nth j l da).
Proof. intro H. rewrite nth_indep with (d' := f da) by (rewrite map_length; auto). apply map_nth. Qed.

Theorem slice_transpose (ts : list ptree) t0 s i :
  Forall wf_tree ts -> Forall (same_structure t0) ts -> tree_transpose ts = Some s ->
  (i < length ts)%nat ->
  tree_slice s (Z.of_nat i) = Some (nth i ts (mkP [] [])).
Proof.
  intros Hwf Hss Htr Hi. destruct ts as [|a ts']; [cbn in Hi; lia|].
  cbn [tree_transpose] in Htr. set (ts := a :: ts') in *. unfold transpose_with in Htr.
  destruct (forallb _ ts) eqn:Fb; [|congruence].
  destruct (all_some _) as [ls|] eqn:AS; [|congruence]. inversion Htr; subst s; clear Htr.
  set (T := nth i ts (mkP [] [])).
  assert (HTin : In T ts) by (apply nth_In; auto).
  assert (Hain : In a ts) by (left; auto).
  rewrite Forall_forall in Hss, Hwf.
  destruct (Hss T HTin) as (HTd & HTl & HTc). destruct (Hss a Hain) as (Had & Hal & Hac).
  set (L := length (p_leaves a)) in *.
  pose proof (all_some_length _ _ AS) as Hls. rewrite map_length, seq_length in Hls.
  unfold tree_slice; cbn [p_leaves p_def].
  assert (E : map (slice_leaf (Z.of_nat i)) ls = map Some (p_leaves T)).
  { apply (list_ext _ _ None).
    - rewrite !map_length. lia.
    - intros p Hp. rewrite map_length in Hp.
      rewrite (nth_map_lt _ _ _ dummy_tensor) by lia.
      rewrite (nth_map_lt _ _ _ dummy_tensor) by lia.
      pose proof (all_some_nth _ _ p dummy_tensor AS) as Hn.
      rewrite map_length, seq_length in Hn. specialize (Hn ltac:(lia)).
      rewrite (nth_map_lt _ _ _ 0%nat) in Hn by (rewrite seq_length; lia).
      rewrite seq_nth in Hn by lia. cbn [Nat.add] in Hn.
      rewrite slice_stack_leaf with (ls := map (fun t => nth p (p_leaves t) dummy_tensor) ts)
                                    (t0 := nth p (p_leaves t0) dummy_tensor); auto.
      + rewrite (nth_map_lt _ _ _ (mkP [] [])) by auto. reflexivity.
      + apply Forall_map, Forall_forall. intros t Ht.
        specialize (Hwf t Ht). unfold wf_tree in Hwf. rewrite Forall_forall in Hwf.
        apply Hwf, nth_In. destruct (Hss t Ht) as (_ & Hl & _). lia.
      + apply Forall_map, Forall_forall. intros t Ht.
        destruct (Hss t Ht) as (_ & Hl & Hc). apply Hc. lia.
      + rewrite map_length. auto. }
  rewrite E, all_some_map_Some. f_equal. destruct T as [d l]; cbn in *. congruence.
Qed.

Definition batched (n : Z) (t : ptree) : Prop :=
  Forall (fun l => exists rest, t_shape l = n :: rest) (p_leaves t).

Theorem add_element_at t i e r n :
  wf_tree t -> wf_tree e -> batched n t -> 0 <= n ->
  tree_add_element t i e = Some r -> tree_slice r i = Some e.
Proof.
  intros Ht He Hb Hn Hadd. unfold tree_add_element in Hadd.
  destruct (def_eqb _ _) eqn:D; [|congruence]. apply def_eqb_eq in D.
  destruct (map2o _ _ _) as [ls|] eqn:M; [|congruence]. inversion Hadd; subst r; clear Hadd.
  destruct (map2o_length _ _ _ _ M) as [L1 L2].
  unfold tree_slice; cbn [p_leaves p_def].
  assert (E : map (slice_leaf i) ls = map Some (p_leaves e)).
  { apply (list_ext _ _ None).
    - rewrite !map_length. lia.
    - intros p Hp. rewrite map_length in Hp.
      rewrite (nth_map_lt _ _ _ dummy_tensor) by lia.
      rewrite (nth_map_lt _ _ _ dummy_tensor) by lia.
      pose proof (map2o_nth _ _ _ _ p dummy_tensor dummy_tensor dummy_tensor M ltac:(lia)) as Hnn.
      unfold wf_tree, batched in *. rewrite Forall_forall in Ht, He, Hb.
      assert (I1 : In (nth p (p_leaves t) dummy_tensor) (p_leaves t)) by (apply nth_In; lia).
      assert (I2 : In (nth p (p_leaves e) dummy_tensor) (p_leaves e)) by (apply nth_In; lia).
      destruct (Hb _ I1) as [rest Hs].
      eapply slice_set_leaf_same; eauto. }
  rewrite E, all_some_map_Some. f_equal. destruct e; cbn in *; congruence.
Qed.

Theorem add_element_else t i j e r n :
  wf_tree t -> wf_tree e -> batched n t -> 0 <= n ->
  tree_add_element t i e = Some r -> jnorm n j <> jnorm n i -> 0 <= jnorm n j < n ->
  tree_slice r j = tree_slice t j.
Proof.
  intros Ht He Hb Hn Hadd Hne Hj. unfold tree_add_element in Hadd.
  destruct (def_eqb _ _) eqn:D; [|congruence].
  destruct (map2o _ _ _) as [ls|] eqn:M; [|congruence]. inversion Hadd; subst r; clear Hadd.
  destruct (map2o_length _ _ _ _ M) as [L1 L2].
  unfold tree_slice; cbn [p_leaves p_def].
  assert (E : map (slice_leaf j) ls = map (slice_leaf j) (p_leaves t)).
  { apply (list_ext _ _ None).
    - rewrite !map_length. lia.
    - intros p Hp. rewrite map_length in Hp.
      rewrite (nth_map_lt _ _ _ dummy_tensor) by lia.
      rewrite (nth_map_lt _ _ _ dummy_tensor) by lia.
      pose proof (map2o_nth _ _ _ _ p dummy_tensor dummy_tensor dummy_tensor M ltac:(lia)) as Hn'.
      unfold wf_tree, batched in *. rewrite Forall_forall in Ht, He, Hb.
      assert (I1 : In (nth p (p_leaves t) dummy_tensor) (p_leaves t)) by (apply nth_In; lia).
      assert (I2 : In (nth p (p_leaves e) dummy_tensor) (p_leaves e)) by (apply nth_In; lia).
      destruct (Hb _ I1) as [rest Hs].
      apply slice_set_leaf_other with (e := nth p (p_leaves e) dummy_tensor) (i := i) (n := n) (rest := rest); auto. }
  rewrite E. reflexivity.
Qed.

Theorem add_element_preserves t i e r :
  tree_add_element t i e = Some r ->
  p_def r = p_def t /\ length (p_leaves r) = length (p_leaves t) /\
  forall p, (p < length (p_leaves t))%nat ->
    t_dt (nth p (p_leaves r) dummy_tensor) = t_dt (nth p (p_leaves t) dummy_tensor) /\
    t_shape (nth p (p_leaves r) dummy_tensor) = t_shape (nth p (p_leaves t) dummy_tensor).
Proof.
  intro Hadd. unfold tree_add_element in Hadd.
  destruct (def_eqb _ _) eqn:D; [|congruence].
  destruct (map2o _ _ _) as [ls|] eqn:M; [|congruence]. inversion Hadd; subst r; clear Hadd.
  destruct (map2o_length _ _ _ _ M) as [L1 L2]. cbn. repeat split; auto;
  pose proof (map2o_nth _ _ _ _ p dummy_tensor dummy_tensor dummy_tensor M H) as Hn;
  apply set_leaf_meta in Hn; tauto.
Qed.

Theorem transpose_preserves ts t0 s :
  tree_transpose ts = Some s -> In t0 ts ->
  p_def s = p_def t0 /\ length (p_leaves s) = length (p_leaves t0).
Proof.
  intros Htr Hin. destruct ts as [|a ts']; [inversion Hin|].
  cbn [tree_transpose] in Htr. set (ts := a :: ts') in *. unfold transpose_with in Htr.
  destruct (forallb _ ts) eqn:Fb; [|congruence].
  destruct (all_some _) as [ls|] eqn:AS; [|congruence]. inversion Htr; subst s; clear Htr.
  rewrite forallb_forall in Fb. specialize (Fb t0 Hin). apply andb_true_iff in Fb as [F1 F2].
  apply def_eqb_eq in F1. apply Nat.eqb_eq in F2. cbn.
  pose proof (all_some_length _ _ AS) as Hls. rewrite map_length, seq_length in Hls. split; congruence.
Qed.

(* ---------- the equality helper ---------- *)
Definition no_nan (t : tensor) : Prop := Forall (fun x => x <> NaN) (t_data t).

Lemma xnum_eqb_refl x : x <> NaN -> xnum_eqb x x = true.
Proof. destruct x; cbn; [intros; apply Z.eqb_refl | congruence]. Qed.
Lemma xnum_eqb_sym x y : xnum_eqb x y = xnum_eqb y x.
Proof. destruct x, y; cbn; auto using Z.eqb_sym. Qed.

Lemma list_eqb_sym {A} (eqb : A -> A -> bool) :
  (forall x y, eqb x y = eqb y x) -> forall a b, list_eqb eqb a b = list_eqb eqb b a.
Proof. intros H a; induction a as [|x a IH]; intros [|y b]; cbn; auto. rewrite H, IH; auto. Qed.

Lemma array_equal_refl t : no_nan t -> array_equal t t = true.
Proof.
  intro H. unfold array_equal. rewrite shape_eqb_refl. cbn.
  unfold no_nan in H. induction H; cbn; auto. rewrite xnum_eqb_refl; auto.
Qed.

Lemma array_equal_sym a b : array_equal a b = array_equal b a.
Proof.
  unfold array_equal, shape_eqb. rewrite (list_eqb_sym Z.eqb Z.eqb_sym).
  rewrite (list_eqb_sym xnum_eqb xnum_eqb_sym). reflexivity.
Qed.

Theorem eq_refl_tree t : Forall no_nan (p_leaves t) -> is_equal_pytree t t = Some true.
Proof.
  intro H. unfold is_equal_pytree. rewrite def_eqb_refl, Nat.eqb_refl. cbn. f_equal.
  induction H; cbn; auto. rewrite array_equal_refl; auto.
Qed.

(* the NaN case: np.array_equal(nan, nan) is False, so reflexivity genuinely needs no_nan *)
Example eq_refl_nan_refuted :
  exists t, is_equal_pytree t t = Some false.
Proof. exists (mkP [0] [mkT 7 [] [NaN]]). reflexivity. Qed.

Lemma forallb_combine_sym {A} (f : A -> A -> bool) (H : forall x y, f x y = f y x) a b :
  forallb (fun p => f (fst p) (snd p)) (combine a b) = forallb (fun p => f (fst p) (snd p)) (combine b a).
Proof. revert b; induction a as [|x a IH]; intros [|y b]; cbn; auto. rewrite H, IH; auto. Qed.

Theorem eq_sym_tree a b : is_equal_pytree a b = is_equal_pytree b a.
Proof.
  unfold is_equal_pytree. unfold def_eqb. rewrite (list_eqb_sym Z.eqb Z.eqb_sym (p_def a)).
  rewrite (Nat.eqb_sym (length (p_leaves a))).
  destruct (_ && _); auto. f_equal. apply forallb_combine_sym, array_equal_sym.
Qed.

Theorem eq_exact a b :
  p_def a = p_def b -> length (p_leaves a) = length (p_leaves b) ->
  (is_equal_pytree a b = Some true <->
   forall j, (j < length (p_leaves a))%nat ->
     let x := nth j (p_leaves a) dummy_tensor in let y := nth j (p_leaves b) dummy_tensor in
     t_shape x = t_shape y /\ list_eqb xnum_eqb (t_data x) (t_data y) = true).
Proof.
  intros Hd Hl. unfold is_equal_pytree. rewrite Hd, def_eqb_refl, Hl, Nat.eqb_refl. cbn.
  split.
  - intro H. injection H as H1. rewrite forallb_forall in H1.
    intros j Hj. cbv zeta.
    set (x := nth j (p_leaves a) dummy_tensor). set (y := nth j (p_leaves b) dummy_tensor).
    assert (I : In (x, y) (combine (p_leaves a) (p_leaves b))).
    { unfold x, y. rewrite <- combine_nth by auto. apply nth_In. rewrite combine_length. lia. }
    specialize (H1 _ I). cbn in H1. unfold array_equal in H1. apply andb_true_iff in H1 as [S1 S2].
    apply shape_eqb_eq in S1. split; assumption.
  - intro H. f_equal. apply forallb_forall. intros [x y] I.
    apply (In_nth _ _ (dummy_tensor, dummy_tensor)) in I as (j & Hj & E).
    rewrite combine_length in Hj. rewrite combine_nth in E by auto. inversion E; subst.
    destruct (H j ltac:(lia)) as [S1 S2]. cbn. unfold array_equal. rewrite S1, shape_eqb_refl, S2. reflexivity.
Qed.

Theorem assert_different_iff a b :
  assert_different_fails a b = Some true <-> is_equal_pytree a b = Some true.
Proof. reflexivity. Qed.

Theorem structure_mismatch_raises a b : p_def a <> p_def b -> is_equal_pytree a b = None.
Proof.
  intro H. unfold is_equal_pytree. destruct (def_eqb _ _) eqn:E; auto.
  apply def_eqb_eq in E. congruence.
Qed.
