(* TSP AS TRANSLATED FROM THE SOURCE (Gen/TspSrc.v: the state part of step, _update_state, _state_to_observation) equals the hand model
   Model/TSP.v for every state and action; the reward function is a parameter instantiated with the model's reward. *)
Require Import JV.Base.Prelude JV.Base.JaxIndex JV.Base.Codec JV.Base.TimeStep JV.Gen.TimeStepSrc JV.Gen.TspSrc.
Require JV.Model.TSP.
Module M := JV.Model.TSP.

Definition conv (s : State) : M.state := M.mkS (s_coordinates s) (s_position s) (s_visited_mask s) (s_trajectory s) (s_num_visited s).
(* the model's reward function, as a reward_fn of the translated environment *)
Definition reward_model rnd sparse n pen dist : State -> Z -> State -> bool -> Z :=
  fun s _ s' v => M.reward_of rnd sparse n pen dist (conv s) (conv s') v.

Lemma update_src s a : conv (update_state s a) = M.update (conv s) a.  Proof. reflexivity. Qed.
Lemma observe_src s :
  (o_coordinates (state_to_observation s), o_position (state_to_observation s), o_trajectory (state_to_observation s),
   o_action_mask (state_to_observation s)) = M.observe (conv s).
Proof. reflexivity. Qed.

(* timesteps equal up to the boolean identities left after the case analysis; conditions compared up to conversion *)
Ltac ts_eq := unfold cond_done, termination_src, transition_src, termination, transition, StepType_LAST, StepType_MID, LAST, MID;
  cbn [negb orb andb]; rewrite ?orb_true_r, ?orb_false_r;
  first [reflexivity | match goal with |- (if ?c then _ else _) = (if ?d then _ else _) => change c with d; destruct d; reflexivity end].
Theorem step_src rnd sparse n pen dist s a :
  let r := step n (reward_model rnd sparse n pen dist) s a in
  conv (fst r) = fst (M.step_r rnd sparse n pen dist (conv s) a) /\ snd r = snd (M.step_r rnd sparse n pen dist (conv s) a).
Proof.
  (* by cases on the one atomic test (already visited?), so that the spelling of the source (locals, operand order) is irrelevant *)
  cbv zeta. unfold step, M.step_r, M.valid, reward_model. cbn [conv M.visited].
  destruct (jget false (s_visited_mask s) a) eqn:Ev; cbn [negb fst snd]; (split; [reflexivity|]); ts_eq.
Qed.

(* ---- TSP theorems transferred to the translated source ---- *)
Require Import JV.Proofs.TSP_lists JV.Proofs.TSP.
Lemma src_step_inv n pen dist rnd sparse s a : 0 <= n -> M.Inv n (conv s) -> 0 <= a < n ->
  M.Inv n (conv (fst (step n (reward_model rnd sparse n pen dist) s a))).
Proof. intros Hn I Ha. destruct (step_src rnd sparse n pen dist s a) as [E _]. rewrite E. exact (step_Inv n pen dist Hn rnd sparse (conv s) a I Ha). Qed.
Lemma src_mask_iff_legal n s a : zlen (s_visited_mask s) = n -> 0 <= a < n ->
  (jget false (o_action_mask (state_to_observation s)) a = true <-> M.legal (conv s) a).
Proof. intros L Ha. exact (C04_mask_iff_legal n (conv s) a L Ha). Qed.

(* C03 on the translated step: never FIRST, MID with discount 1 or LAST with discount 0 (no truncation) -- any state, any action *)
Lemma src_step_protocol rnd sparse n pen dist s a : step_ok 1 false (snd (step n (reward_model rnd sparse n pen dist) s a)) = true.
Proof. destruct (step_src rnd sparse n pen dist s a) as [_ E]. rewrite E. apply C03_step_protocol. Qed.
(* C05: a masked-out city ends the episode with the penalty and leaves the state untouched *)
Lemma src_masked_out n pen dist rnd sparse s a : 0 <= n ->
  M.Inv n (conv s) -> M.nvis (conv s) < n -> 0 <= a < n -> jget false (M.mask (conv s)) a = false ->
  conv (fst (step n (reward_model rnd sparse n pen dist) s a)) = conv s
  /\ snd (step n (reward_model rnd sparse n pen dist) s a) = termination 1 [- pen].
Proof.
  intros Hn I Hv Ha Hm. destruct (step_src rnd sparse n pen dist s a) as [E1 E2]. rewrite E1, E2.
  rewrite (C05_masked_out n pen dist Hn rnd sparse (conv s) a I Hv Ha Hm). split; reflexivity.
Qed.
(* C12: the translated observation is the state's coordinates, position and trajectory plus the mask "legal city" *)
Lemma src_observation n s : zlen (s_visited_mask s) = n ->
  let o := state_to_observation s in
  (o_coordinates o, o_position o, o_trajectory o, o_action_mask o)
  = (s_coordinates s, s_position s, s_trajectory s, map (M.legal_b (conv s)) (zrange n)).
Proof. intros L. cbv zeta. rewrite observe_src. exact (C12_observation n (conv s) L). Qed.

(* ---- whole episodes of the translated step (state part translated, the model's reward function): up to and including the first LAST ---- *)
Fixpoint run_src (rnd : Z -> Z) (sparse : bool) (n pen : Z) (dist : Z -> Z -> Z) (s : State) (acts : list Z) : list (State * tstep) :=
  match acts with
  | [] => []
  | a :: r => let p := step n (reward_model rnd sparse n pen dist) s a in
              p :: (if st (snd p) =? LAST then [] else run_src rnd sparse n pen dist (fst p) r)
  end.
Definition cp (p : State * tstep) : M.state * tstep := (conv (fst p), snd p).
Lemma run_src_eq rnd sparse n pen dist acts : forall s, map cp (run_src rnd sparse n pen dist s acts) = run n pen dist rnd sparse (conv s) acts.
Proof.
  induction acts as [|a r IH]; intros s; cbn [run_src run map]; [reflexivity|].
  destruct (step_src rnd sparse n pen dist s a) as [E1 E2]. unfold cp at 1. rewrite E1, E2, <- surjective_pairing. f_equal.
  destruct (st (snd (M.step_r rnd sparse n pen dist (conv s) a)) =? LAST); [reflexivity|]. rewrite IH, E1. reflexivity.
Qed.
(* C11: an episode of the translated step lasts at most max(1, number of unvisited cities) steps *)
Lemma src_horizon n pen dist rnd sparse acts s : 0 <= n -> M.Inv n (conv s) -> Forall (fun a => 0 <= a < n) acts ->
  Z.of_nat (length (run_src rnd sparse n pen dist s acts)) <= Z.max 1 (n - M.nvis (conv s)).
Proof.
  intros Hn I F. rewrite <- (map_length cp), run_src_eq. exact (C11_horizon n pen dist Hn rnd sparse acts (conv s) I F).
Qed.
