(* Laws of the wrappers, for EVERY environment (the section variables are universally quantified after the section). *)
Require Import JV.Base.Prelude JV.Base.Codec JV.Base.TimeStep JV.Model.Wrappers.

Lemma key_eqb_eq a : forall b, key_eqb a b = true <-> a = b.
Proof.
  induction a as [x|a IH|a IH]; intros [y|b|b]; cbn [key_eqb]; split; intro H; try discriminate; try congruence.
  - f_equal. lia.
  - inversion H. lia.
  - f_equal. apply IH; auto.
  - inversion H; subst. apply IH; auto.
  - f_equal. apply IH; auto.
  - inversion H; subst. apply IH; auto.
Qed.
Lemma key_eqb_refl a : key_eqb a a = true.
Proof. apply key_eqb_eq; reflexivity. Qed.

Lemma kdesc_depth k k' : kdesc k k' = true -> (kdepth k <= kdepth k')%nat.
Proof.
  induction k' as [y|p IH|p IH]; cbn [kdesc kdepth]; intro H; apply orb_true_iff in H as [H|H];
    try (apply key_eqb_eq in H; subst; cbn [kdepth]; lia); try discriminate; specialize (IH H); lia.
Qed.
Lemma kdesc_refl k : kdesc k k = true.
Proof. destruct k; cbn [kdesc]; rewrite key_eqb_refl; reflexivity. Qed.
Lemma kdesc_trans a b c : kdesc a b = true -> kdesc b c = true -> kdesc a c = true.
Proof.
  intros H1. induction c as [y|p IH|p IH]; cbn [kdesc]; intro H2; apply orb_true_iff in H2 as [H2|H2];
    try (apply key_eqb_eq in H2; subst; exact H1); try discriminate; rewrite (IH H2); apply orb_true_r.
Qed.
Lemma kdesc_KL k k' : kdesc k k' = true -> kdesc k (KL k') = true.
Proof. intro H. cbn [kdesc]. rewrite H. apply orb_true_r. Qed.

Section Laws.
  Variables St Obs Act Rw : Type.
  Variable reset : key -> St * wts Obs Rw.
  Variable step : St -> Act -> St * wts Obs Rw.
  Variable skey : St -> key.
  Notation wts := (wts Obs Rw).
  Notation ar_step := (ar_step St Obs Act Rw reset step skey).
  Notation maybe_add := (maybe_add Obs Rw).

  (* ---------------- C13 ---------------- *)
  Theorem ar_not_last nx s a : w_ty _ _ (snd (step s a)) <> LAST ->
    ar_step nx s a = (fst (step s a), maybe_add nx (snd (step s a))).
  Proof.
    intro H. unfold Wrappers.ar_step, maybe_reset. destruct (step s a) as [s' t]. cbn [fst snd] in *.
    destruct (w_ty _ _ t =? LAST) eqn:E; [apply Z.eqb_eq in E; congruence|reflexivity].
  Qed.

  Theorem ar_last nx s a : w_ty _ _ (snd (step s a)) = LAST ->
    let s' := fst (step s a) in let t := snd (step s a) in
    let k := KL (skey s') in
    let r := ar_step nx s a in
    fst r = fst (reset k)
    /\ w_obs _ _ (snd r) = w_obs _ _ (snd (reset k))
    /\ w_ty _ _ (snd r) = LAST /\ w_rew _ _ (snd r) = w_rew _ _ t /\ w_disc _ _ (snd r) = w_disc _ _ t
    /\ w_ext _ _ (snd r) = w_ext _ _ t
    /\ w_next _ _ (snd r) = if nx then Some (w_obs _ _ t) else w_next _ _ t.
  Proof.
    intro H. unfold Wrappers.ar_step, maybe_reset. destruct (step s a) as [s' t]. cbn [fst snd] in *.
    rewrite H, Z.eqb_refl. unfold auto_reset. destruct (reset (KL (skey s'))) as [s0 t0]. cbn [fst snd].
    unfold set_obs, Wrappers.maybe_add. destruct nx; cbn; repeat split; auto.
  Qed.

  (* with next_obs_in_extras the TRUE successor observation of every step is in extras["next_obs"] *)
  Theorem ar_next_obs s a : w_next _ _ (snd (ar_step true s a)) = Some (w_obs _ _ (snd (step s a))).
  Proof.
    unfold Wrappers.ar_step, maybe_reset. destruct (step s a) as [s' t]. cbn [fst snd].
    destruct (w_ty _ _ t =? LAST); [unfold auto_reset; destruct (reset _) as [s0 t0]|]; reflexivity.
  Qed.
  (* without it the extras are exactly the environment's *)
  Theorem ar_no_next_obs s a : w_next _ _ (snd (ar_step false s a)) = w_next _ _ (snd (step s a))
                               /\ w_ext _ _ (snd (ar_step false s a)) = w_ext _ _ (snd (step s a)).
  Proof.
    unfold Wrappers.ar_step, maybe_reset. destruct (step s a) as [s' t]. cbn [fst snd].
    destruct (w_ty _ _ t =? LAST); [unfold auto_reset; destruct (reset _) as [s0 t0]|]; split; reflexivity.
  Qed.

  (* successive automatic resets start from different keys — for every environment whose state key is derived from the
     key it was reset with and only ever replaced by keys derived from itself (key discipline) *)
  Hypothesis Hreset : forall k, kdesc k (skey (fst (reset k))) = true.
  Hypothesis Hstep : forall s a, kdesc (skey s) (skey (fst (step s a))) = true.

  Lemma ar_reset_keys_deeper acts : forall s k, In k (ar_reset_keys St Obs Act Rw reset step skey s acts) ->
    (kdepth (skey s) < kdepth k)%nat.
  Proof.
    induction acts as [|a r IH]; intros s k H; cbn [ar_reset_keys] in H; [contradiction|].
    pose proof (Hstep s a) as D. destruct (step s a) as [s' t]. cbn [fst] in D. apply kdesc_depth in D.
    destruct (w_ty _ _ t =? LAST).
    - destruct H as [<-|H]; [cbn [kdepth]; lia|].
      apply IH in H. pose proof (kdesc_depth _ _ (Hreset (KL (skey s')))) as D2. cbn [kdepth] in D2. lia.
    - apply IH in H. lia.
  Qed.

  Theorem ar_fresh_keys acts : forall s, NoDup (ar_reset_keys St Obs Act Rw reset step skey s acts).
  Proof.
    induction acts as [|a r IH]; intro s; cbn [ar_reset_keys]; [constructor|].
    destruct (step s a) as [s' t]. destruct (w_ty _ _ t =? LAST); [|apply IH].
    constructor; [|apply IH]. intro H. apply ar_reset_keys_deeper in H.
    pose proof (kdesc_depth _ _ (Hreset (KL (skey s')))) as D. lia.
  Qed.

  (* ... and differ from the key of the reset that started the run *)
  Theorem ar_keys_differ_from_start acts k0 :
    ~ In k0 (ar_reset_keys St Obs Act Rw reset step skey (fst (reset k0)) acts).
  Proof.
    intro H. apply ar_reset_keys_deeper in H. pose proof (kdesc_depth _ _ (Hreset k0)). lia.
  Qed.
End Laws.

Section Batch.
  Variables St Obs Act Rw : Type.
  Variable reset : key -> St * wts Obs Rw.
  Variable step : St -> Act -> St * wts Obs Rw.
  Variable skey : St -> key.

  Lemma map_map2 {A B C D} (f : C -> D) (g : A -> B -> C) a : forall b,
    map f (map2 g a b) = map2 (fun x y => f (g x y)) a b.
  Proof. induction a as [|x a IH]; intros [|y b]; cbn [map2 map]; auto. rewrite IH. reflexivity. Qed.

  (* ---------------- C14 ---------------- *)
  (* VmapAutoResetWrapper is observationally VmapWrapper(AutoResetWrapper(env)), for every batch and every subset of
     episodes ending on the same step *)
  Theorem var_is_vmap_ar nx ss acts :
    var_step St Obs Act Rw reset step skey nx ss acts = vmap_ar_step St Obs Act Rw reset step skey nx ss acts.
  Proof. unfold var_step, vmap_ar_step. rewrite map_map2. reflexivity. Qed.
  Theorem var_reset_is_vmap_ar nx ks :
    var_reset St Obs Rw reset nx ks = vmap_ar_reset St Obs Rw reset nx ks.
  Proof.
    unfold var_reset, vmap_ar_reset. rewrite map_map. apply map_ext. intro k. unfold ar_reset.
    destruct (reset k); reflexivity.
  Qed.

  Lemma map2_nth {A B C} (f : A -> B -> C) da db dc a : forall b i,
    (i < length a)%nat -> (i < length b)%nat -> nth i (map2 f a b) dc = f (nth i a da) (nth i b db).
  Proof.
    induction a as [|x a IH]; intros [|y b] [|i] Ha Hb; cbn in *; try lia; auto. apply IH; lia.
  Qed.
  Lemma map2_length {A B C} (f : A -> B -> C) a : forall b, length (map2 f a b) = Nat.min (length a) (length b).
  Proof. induction a as [|x a IH]; intros [|y b]; cbn; auto. Qed.

  (* at every batch index the batched wrappers return exactly what the unwrapped environment / the single-instance
     AutoResetWrapper returns for that index alone *)
  Theorem vmap_step_pointwise ss acts i ds da dd :
    (i < length ss)%nat -> (i < length acts)%nat ->
    nth i (vmap_step St Obs Act Rw step ss acts) dd = step (nth i ss ds) (nth i acts da).
  Proof. apply map2_nth. Qed.
  Theorem var_step_pointwise nx ss acts i ds da dd :
    (i < length ss)%nat -> (i < length acts)%nat ->
    nth i (var_step St Obs Act Rw reset step skey nx ss acts) dd
    = ar_step St Obs Act Rw reset step skey nx (nth i ss ds) (nth i acts da).
  Proof. intros. rewrite var_is_vmap_ar. apply map2_nth; auto. Qed.
  Theorem vmap_step_length ss acts :
    length (vmap_step St Obs Act Rw step ss acts) = Nat.min (length ss) (length acts).
  Proof. apply map2_length. Qed.
  Theorem vmap_reset_pointwise ks i dk dd : (i < length ks)%nat ->
    nth i (vmap_reset St Obs Rw reset ks) dd = reset (nth i ks dk).
  Proof. intro H. unfold vmap_reset. rewrite (nth_indep _ dd (reset dk)) by (rewrite map_length; auto). apply map_nth. Qed.
  (* both batched wrappers render the first element of the batch *)
  Theorem render_first s ss : render_arg St (s :: ss) = Some s.
  Proof. reflexivity. Qed.
End Batch.

Section Adapters.
  Variables St Obs Act Rw : Type.
  Variable reset : key -> St * wts Obs Rw.
  Variable step : St -> Act -> St * wts Obs Rw.
  Variable disc_zero : Rw -> bool.
  Notation gym_run := (gym_run St Obs Act Rw reset step disc_zero).
  Notation gym_do := (gym_do St Obs Act Rw reset step disc_zero).
  Notation gym_final := (gym_final St Obs Act Rw reset step disc_zero).
  Notation native_run := (native_run St Obs Act Rw reset step disc_zero).

  (* ---------------- C15 ---------------- *)
  (* the gym adapter relays the native episode under the documented key schedule *)
  Theorem gym_relay ops : forall k cur, gym_run (mkA St k cur) ops = native_run k cur ops.
  Proof.
    induction ops as [|o r IH]; intros k cur; [reflexivity|].
    destruct o as [n| |n|a]; cbn [Wrappers.gym_run Wrappers.gym_do Wrappers.native_run a_key a_state].
    - rewrite IH. reflexivity.
    - destruct (reset (KL k)) as [s t]. rewrite IH. reflexivity.
    - destruct (reset (KL (KRoot n))) as [s t]. rewrite IH. reflexivity.
    - destruct cur as [s|]; [destruct (step s a) as [s' t]|]; rewrite IH; reflexivity.
  Qed.

  (* terminated = (native discount is zero), truncated = (native step is LAST) *)
  Theorem gym_step_flags k s a :
    snd (gym_do (mkA St k (Some s)) (OStep Act a)) =
    let t := snd (step s a) in
    GStep Obs Rw (w_obs _ _ t) (w_rew _ _ t) (disc_zero (w_disc _ _ t)) (w_ty _ _ t =? LAST) (w_ext _ _ t).
  Proof. cbn [Wrappers.gym_do a_state]. destruct (step s a); reflexivity. Qed.

  (* re-seeding reproduces the same episode whatever happened before *)
  Theorem gym_reseed n ops h1 h2 ad1 ad2 :
    gym_run (gym_final ad1 h1) (OResetSeed Act n :: ops) = gym_run (gym_final ad2 h2) (OResetSeed Act n :: ops).
  Proof. cbn [Wrappers.gym_run Wrappers.gym_do]. destruct (reset (KL (KRoot n))); reflexivity. Qed.
  Theorem gym_seed_then_reset n ops h1 h2 ad1 ad2 :
    gym_run (gym_final ad1 h1) (OSeed Act n :: OReset Act :: ops) = gym_run (gym_final ad2 h2) (OSeed Act n :: OReset Act :: ops).
  Proof. cbn [Wrappers.gym_run Wrappers.gym_do a_key]. destruct (reset (KL (KRoot n))); reflexivity. Qed.

  (* dm_env: the first timestep carries no reward and no discount (DFirst has neither); steps are the native timestep *)
  Theorem dm_first k cur : snd (dm_do St Obs Act Rw reset step (mkA St k cur) (OReset Act)) = DFirst Obs Rw (w_obs _ _ (snd (reset (KL k)))).
  Proof. cbn [dm_do a_key]. destruct (reset (KL k)); reflexivity. Qed.
  Theorem dm_step k s a : snd (dm_do St Obs Act Rw reset step (mkA St k (Some s)) (OStep Act a)) =
    let t := snd (step s a) in DStep Obs Rw (w_ty _ _ t) (w_obs _ _ t) (w_rew _ _ t) (w_disc _ _ t).
  Proof. cbn [dm_do a_state]. destruct (step s a); reflexivity. Qed.
  Theorem dm_key_schedule k cur : a_key _ (fst (dm_do St Obs Act Rw reset step (mkA St k cur) (OReset Act))) = KR k.
  Proof. cbn [dm_do a_key]. destruct (reset (KL k)); reflexivity. Qed.

  (* MultiToSingleWrapper: aggregated reward and discount, and nothing else changed *)
  Variables agg_r agg_d : Rw -> Rw.
  Theorem m2s_step_spec s a :
    let r := m2s_step St Obs Act Rw step agg_r agg_d s a in let t := snd (step s a) in
    fst r = fst (step s a)
    /\ w_rew _ _ (snd r) = agg_r (w_rew _ _ t) /\ w_disc _ _ (snd r) = agg_d (w_disc _ _ t)
    /\ w_ty _ _ (snd r) = w_ty _ _ t /\ w_obs _ _ (snd r) = w_obs _ _ t
    /\ w_ext _ _ (snd r) = w_ext _ _ t /\ w_next _ _ (snd r) = w_next _ _ t.
  Proof. unfold m2s_step. destruct (step s a) as [s' t]. cbn. repeat split. Qed.
  Theorem m2s_reset_spec k :
    let r := m2s_reset St Obs Rw reset agg_r agg_d k in let t := snd (reset k) in
    fst r = fst (reset k)
    /\ w_rew _ _ (snd r) = agg_r (w_rew _ _ t) /\ w_disc _ _ (snd r) = agg_d (w_disc _ _ t)
    /\ w_ty _ _ (snd r) = w_ty _ _ t /\ w_obs _ _ (snd r) = w_obs _ _ t /\ w_ext _ _ (snd r) = w_ext _ _ t.
  Proof. unfold m2s_reset. destruct (reset k) as [s' t]. cbn. repeat split. Qed.
End Adapters.

(* a 2-step counter environment (LAST every second step) whose state key is the right half of its reset key: used by the
   non-vacuity examples *)
Definition toy_reset (k : key) : (Z * key) * wts Z Z := ((0, KR k), mkW Z Z FIRST 0 0 1 0 None).
Definition toy_step (s : Z * key) (a : Z) : (Z * key) * wts Z Z :=
  ((fst s + 1, snd s), mkW Z Z (if fst s + 1 =? 2 then LAST else MID) (fst s + 1) a (if fst s + 1 =? 2 then 0 else 1) 7 None).
