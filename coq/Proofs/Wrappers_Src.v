(* jumanji/wrappers.py AS TRANSLATED FROM THE SOURCE (Gen/WrappersSrc.v, regenerated on every run) equals the hand model
   Model/Wrappers.v, for EVERY environment (any state / observation / action types, any reset / step / key projection), both
   settings of next_obs_in_extras, every state, action, key and batch.  The generic theorems of Proofs/Wrappers.v therefore
   hold of the translated source. *)
Require Import JV.Base.Prelude JV.Base.Codec JV.Base.TimeStep JV.Model.Wrappers JV.Gen.WrappersSrc.
Require Import List. Import ListNotations.

Lemma combine_fst_snd {A B} (l : list (A * B)) : combine (map fst l) (map snd l) = l.
Proof. induction l as [|[a b] l IH]; cbn [map fst snd combine]; [reflexivity | rewrite IH; reflexivity]. Qed.
Section Tie.
  Variables St Obs Act Rw RO : Type.
  Variable reset : key -> St * wts Obs Rw.
  Variable step : St -> Act -> St * wts Obs Rw.
  Variable skey : St -> key.
  Variable render_inner : option St -> RO.
  Variable nx : bool.
  Variables agg_r agg_d : Rw -> Rw.

  Lemma maybe_add_src t : AutoResetWrapper_maybe_add Obs Rw nx t = maybe_add Obs Rw nx t.
  Proof. unfold AutoResetWrapper_maybe_add, maybe_add, add_obs_to_extras_src, ts_replace_extras, extras_set_next, ts_extras.
         destruct nx; destruct t; reflexivity. Qed.
  Lemma var_maybe_add_src t : VmapAutoResetWrapper_maybe_add Obs Rw nx t = maybe_add Obs Rw nx t.
  Proof. unfold VmapAutoResetWrapper_maybe_add, maybe_add, add_obs_to_extras_src, ts_replace_extras, extras_set_next, ts_extras.
         destruct nx; destruct t; reflexivity. Qed.

  Lemma wrapper_reset_src k : Wrapper_reset St Obs Rw reset k = reset k.  Proof. reflexivity. Qed.
  Lemma wrapper_step_src s a : Wrapper_step St Obs Act Rw step s a = step s a.  Proof. reflexivity. Qed.

  Lemma auto_reset_src s t :
    AutoResetWrapper_auto_reset St Obs Rw reset skey nx s t = auto_reset St Obs Rw reset skey nx s t.
  Proof.
    unfold AutoResetWrapper_auto_reset, auto_reset, py_split. destruct (reset (KL (skey s))) as [s0 t0].
    rewrite maybe_add_src. reflexivity.
  Qed.
  Lemma ar_reset_src k : AutoResetWrapper_reset St Obs Rw reset nx k = ar_reset St Obs Rw reset nx k.
  Proof. unfold AutoResetWrapper_reset, ar_reset, Wrapper_reset. destruct (reset k) as [s t]. rewrite maybe_add_src. reflexivity. Qed.
  Lemma ar_step_src s a :
    AutoResetWrapper_step St Obs Act Rw reset step skey nx s a = ar_step St Obs Act Rw reset step skey nx s a.
  Proof.
    unfold AutoResetWrapper_step, ar_step, maybe_reset, ts_last. destruct (step s a) as [s' t].
    destruct (w_ty Obs Rw t =? LAST).
    - rewrite auto_reset_src. destruct (auto_reset St Obs Rw reset skey nx s' t); reflexivity.
    - rewrite maybe_add_src. reflexivity.
  Qed.

  Lemma var_auto_reset_src s t :
    VmapAutoResetWrapper_auto_reset St Obs Rw reset skey nx s t = auto_reset St Obs Rw reset skey nx s t.
  Proof.
    unfold VmapAutoResetWrapper_auto_reset, auto_reset, py_split. destruct (reset (KL (skey s))) as [s0 t0].
    rewrite var_maybe_add_src. reflexivity.
  Qed.
  Lemma var_maybe_reset_src s t :
    VmapAutoResetWrapper_maybe_reset St Obs Rw reset skey nx s t = maybe_reset St Obs Rw reset skey nx (s, t).
  Proof.
    unfold VmapAutoResetWrapper_maybe_reset, maybe_reset, ts_last. destruct (w_ty Obs Rw t =? LAST).
    - rewrite var_auto_reset_src. destruct (auto_reset St Obs Rw reset skey nx s t); reflexivity.
    - rewrite var_maybe_add_src. reflexivity.
  Qed.

  Lemma vmap_reset_src ks : VmapWrapper_reset St Obs Rw reset ks = vmap_reset St Obs Rw reset ks.
  Proof. unfold VmapWrapper_reset, vmap_reset. apply combine_fst_snd. Qed.
  Lemma vmap_step_src ss acts : VmapWrapper_step St Obs Act Rw step ss acts = vmap_step St Obs Act Rw step ss acts.
  Proof. unfold VmapWrapper_step, vmap_step. apply combine_fst_snd. Qed.
  Lemma vmap_render_src ss : VmapWrapper_render St RO render_inner ss = render_inner (render_arg St ss).
  Proof. reflexivity. Qed.
  Lemma var_render_src ss : VmapAutoResetWrapper_render St RO render_inner ss = render_inner (render_arg St ss).
  Proof. reflexivity. Qed.

  Lemma var_reset_src ks : VmapAutoResetWrapper_reset St Obs Rw reset nx ks = var_reset St Obs Rw reset nx ks.
  Proof.
    unfold VmapAutoResetWrapper_reset, var_reset. generalize (map reset ks). intros l.
    induction l as [|[s t] l IH]; cbn [map fst snd combine]; [reflexivity|]. rewrite var_maybe_add_src. f_equal. exact IH.
  Qed.
  Lemma var_step_src ss acts :
    VmapAutoResetWrapper_step St Obs Act Rw reset step skey nx ss acts = var_step St Obs Act Rw reset step skey nx ss acts.
  Proof.
    unfold VmapAutoResetWrapper_step, var_step. cbv zeta. rewrite combine_fst_snd, combine_fst_snd.
    apply map_ext. intros [s t]. cbn [fst snd]. apply var_maybe_reset_src.
  Qed.

  Lemma aggregate_src t : MultiToSingleWrapper_aggregate_timestep Obs Rw agg_r agg_d t = aggregate Obs Rw agg_r agg_d t.
  Proof. destruct t; reflexivity. Qed.
  Lemma m2s_reset_src k : MultiToSingleWrapper_reset St Obs Rw reset agg_r agg_d k = m2s_reset St Obs Rw reset agg_r agg_d k.
  Proof. unfold MultiToSingleWrapper_reset, m2s_reset. destruct (reset k) as [s t]. rewrite aggregate_src. reflexivity. Qed.
  Lemma m2s_step_src s a : MultiToSingleWrapper_step St Obs Act Rw step agg_r agg_d s a = m2s_step St Obs Act Rw step agg_r agg_d s a.
  Proof. unfold MultiToSingleWrapper_step, m2s_step. destruct (step s a) as [s' t]. rewrite aggregate_src. reflexivity. Qed.
End Tie.

(* ---- the generic theorems, transferred to the translated source ---- *)
Require Import JV.Proofs.Wrappers.
Section Transfer.
  Variables St Obs Act Rw : Type.
  Variable reset : key -> St * wts Obs Rw.
  Variable step : St -> Act -> St * wts Obs Rw.
  Variable skey : St -> key.
  Variable nx : bool.
  Variables agg_r agg_d : Rw -> Rw.

  Lemma src_not_last s a : w_ty _ _ (snd (step s a)) <> LAST ->
    AutoResetWrapper_step St Obs Act Rw reset step skey nx s a = (fst (step s a), maybe_add Obs Rw nx (snd (step s a))).
  Proof. rewrite ar_step_src. apply ar_not_last. Qed.
  Lemma src_last s a : w_ty _ _ (snd (step s a)) = LAST ->
    let s' := fst (step s a) in let t := snd (step s a) in
    let k := KL (skey s') in
    let r := AutoResetWrapper_step St Obs Act Rw reset step skey nx s a in
    fst r = fst (reset k)
    /\ w_obs _ _ (snd r) = w_obs _ _ (snd (reset k))
    /\ w_ty _ _ (snd r) = LAST /\ w_rew _ _ (snd r) = w_rew _ _ t /\ w_disc _ _ (snd r) = w_disc _ _ t
    /\ w_ext _ _ (snd r) = w_ext _ _ t
    /\ w_next _ _ (snd r) = if nx then Some (w_obs _ _ t) else w_next _ _ t.
  Proof. intros H. cbv zeta. rewrite ar_step_src. exact (ar_last St Obs Act Rw reset step skey nx s a H). Qed.
  Lemma src_var_is_vmap_ar ss acts :
    VmapAutoResetWrapper_step St Obs Act Rw reset step skey nx ss acts
    = map2 (AutoResetWrapper_step St Obs Act Rw reset step skey nx) ss acts.
  Proof.
    rewrite var_step_src, var_is_vmap_ar. unfold vmap_ar_step.
    revert acts. induction ss as [|s ss IH]; intros [|a acts]; cbn [map2]; try reflexivity.
    rewrite ar_step_src, IH. reflexivity.
  Qed.
  Lemma src_var_reset_is_vmap_ar ks :
    VmapAutoResetWrapper_reset St Obs Rw reset nx ks = map (AutoResetWrapper_reset St Obs Rw reset nx) ks.
  Proof. rewrite var_reset_src, var_reset_is_vmap_ar. unfold vmap_ar_reset. apply map_ext. intro k. symmetry. apply ar_reset_src. Qed.
  Lemma src_vmap_is_map ss acts : VmapWrapper_step St Obs Act Rw step ss acts = map2 step ss acts.
  Proof. rewrite vmap_step_src. reflexivity. Qed.
End Transfer.
