(* C01 — everything emitted conforms to the declared specs.  Generic part: the validator the harness runs on EVERY timestep
   of the real environments (reset, every step, terminal) against the environment's REAL spec objects is exactly spec
   membership (shape, dtype, inclusive bounds; proved in Proofs/Spec_laws.v), and generate_value() of any
   constructor-accepted spec is a member.  Per-environment invariants bounding the observed fields are in C01_<Env>.v. *)
Require Import JV.Base.Prelude JV.Base.JaxIndex JV.Base.Tree JV.Base.Spec JV.Proofs.Spec_laws.
Theorem C01_validate_is_membership sp t : validate_leaf sp t = true <-> member_leaf sp t.
Proof. exact (validate_leaf_exact sp t). Qed.
Print Assumptions C01_validate_is_membership.
Theorem C01_bounds_inclusive v lo hi : in_bounds v lo hi = true <-> within v lo hi.
Proof. exact (in_bounds_spec v lo hi). Qed.
Theorem C01_generate_value_member sp : wf_spec sp = true -> exists v, generate_value sp = Some v /\ validate sp v = true.
Proof. exact (gen_valid sp). Qed.
Print Assumptions C01_generate_value_member.
