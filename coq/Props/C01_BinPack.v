(* C01 BinPack (value ranges).  Every coordinate kept in the EMS buffer - active OR stale, the observation shows both - lies in
   the container box, and every item length lies in [0, container length]: established at reset, preserved by every in-spec step
   (legal or not).  With normalize_dimensions these are the ratios in [0,1] the spec declares, without it the integers in
   [0, max_dim].  Shapes are preserved.  (dtypes / structure / reward and discount specs: generic harness.)
   Hypotheses: the stored mask/order are those of the state (consistent: what reset and step establish), obs_num_ems <= max_num_ems. *)
Require Import JV.Base.Prelude JV.Base.JaxIndex JV.Base.Codec JV.Base.TimeStep JV.Model.BinPack JV.Proofs.BinPack_lib JV.Proofs.BinPack JV.Proofs.BinPack_obs.
(* a concrete instance: container 4x2x2, two items 2x2x2 and one 3x2x2, buffer of 4 EMSs, 2 observed *)
Definition ex_c := make_container 4 2 2.
Definition ex_items := [mkIt 2 2 2; mkIt 2 2 2; mkIt 3 2 2].
Definition ex_s0 := fst (init 2 ex_c 4 ex_items [true; true; true]).
Definition ex_s1 := fst (step 2 false ex_s0 0 0).
Definition ex_s2 := fst (step 2 false ex_s1 0 1).
Theorem C01_BinPack_step_ranges n m obs s a0 a1 :
  shape n m s -> consistent obs s -> obs <= m -> inspec obs n a0 a1 ->
  ranges_b s = true -> ranges_b (step_state obs s a0 a1) = true.
Proof. exact (step_ranges n m obs s a0 a1). Qed.
Theorem C01_BinPack_init_ranges obs c max_ems its im :
  in_box c c = true -> in_box c sp0 = true -> forallb (item_in c) its = true -> ranges_b (fst (init obs c max_ems its im)) = true.
Proof. exact (init_ranges obs c max_ems its im). Qed.
Theorem C01_BinPack_step_shape n m obs s a0 a1 :
  shape n m s -> consistent obs s -> obs <= m -> inspec obs n a0 a1 -> shape n m (step_state obs s a0 a1).
Proof. exact (step_shape n m obs s a0 a1). Qed.
Theorem C01_BinPack_step_consistent obs s a0 a1 : consistent obs (step_state obs s a0 a1).
Proof. exact (step_state_consistent obs s a0 a1). Qed.
Print Assumptions C01_BinPack_step_ranges.
Example C01_BinPack_nonvacuous :
  shape_b 3 4 ex_s0 = true /\ ranges_b ex_s0 = true /\ ranges_b ex_s2 = true /\ step_valid ex_s0 0 0 = true
  /\ ems ex_s1 = [mkSp 2 4 0 2 0 2; sp0; sp0; sp0] /\ ems_mask ex_s1 = [true; false; false; false].
Proof. vm_compute. repeat split; reflexivity. Qed.
