(* C01 CVRP (value ranges): every state reached from a reset (invariant Inv, see C06/C10) whose demands lie in [0, max_capacity]
   - step never changes the demands - is inside the declared observation ranges: demands/max_capacity and capacity/max_capacity
   in [0,1], position in [0,n], trajectory entries in [0,n+1], shapes n+1 / n+1 / 2n.  (dtypes/structure: generic harness.) *)
Require Import JV.Base.Prelude JV.Base.JaxIndex JV.Base.Codec JV.Base.TimeStep JV.Model.CVRP JV.Proofs.CVRP.
Theorem C01_CVRP_ranges n mc s h : 1 <= n -> Inv n mc s h -> Forall (fun d => 0 <= d <= mc) (demands s) -> ranges_b n mc s = true.
Proof. exact (C01_ranges n mc s h). Qed.
Theorem C01_CVRP_demands_constant dist rnd sp mc pen s a : demands (fst (step_r rnd sp mc pen dist s a)) = demands s.
Proof. exact (step_demands dist rnd sp mc pen s a). Qed.
Print Assumptions C01_CVRP_ranges.
Example C01_CVRP_nonvacuous :
  ranges_b 2 3 (fst (init 2 3 [1; 2; 2])) = true /\ ranges_b 2 3 (mkS [0; 2; 4] 0 3 [true; false; false] [0; 0; 0; 0] 1) = false.
Proof. vm_compute. split; reflexivity. Qed.
