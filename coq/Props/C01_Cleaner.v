(* C01 Cleaner: every observation emitted in an episode lies inside the declared observation spec (grid in [0,2],
   locations in [0,0]..[rows,cols], mask num_agents x 4, step_count in [0, limit]): reset, every step from a state below
   the limit (terminal step included), and a MID step leaves the state below the limit, so the argument repeats. *)
Require Import JV.Base.Prelude JV.Base.JaxIndex JV.Base.Codec JV.Base.TimeStep JV.Model.Cleaner JV.Proofs.Cleaner.
Theorem C01_Cleaner_spec_ok c s : Inv c s -> cnt s <= tlim c -> spec_ok_b c s = true.
Proof. exact (C01_spec_ok c s). Qed.
Theorem C01_Cleaner_step_conforms c s acts :
  Inv c s -> zlen acts = nag c -> cnt s < tlim c -> spec_ok_b c (fst (step c s acts)) = true.
Proof. exact (C01_step_conforms c s acts). Qed.
Theorem C01_Cleaner_mid_below_limit c s acts : st (snd (step c s acts)) = MID -> cnt (fst (step c s acts)) < tlim c.
Proof. exact (C01_mid_below_limit c s acts). Qed.
Print Assumptions C01_Cleaner_step_conforms.
Example C01_Cleaner_nonvacuous :
  spec_ok_b ex_cfg ex_s0 = true /\ spec_ok_b ex_cfg (fst (step ex_cfg ex_s0 [1; 2])) = true
  /\ spec_ok_b (mkC 2 3 2 0 2) (fst (step ex_cfg ex_s0 [1; 2])) = false.
Proof. vm_compute. repeat split; reflexivity. Qed.
