(* C01 Connector, PROVED for all sizes, states and in-spec joint actions: everything emitted conforms to the declared
   observation spec.  From any Physical state (one entity per cell, stored heads / targets agree with the grid) the
   successor grid is grid_size x grid_size with EVERY value in [0, 3 * num_agents + 1], the mask is num_agents x 5 and
   step_count stays in [0, time_limit] (terminal step included); the same holds for the reset observation.  The value
   bound comes from the max-join theorem (Proofs/Connector_Join.v): the successor state is again Physical, so every cell
   is EMPTY or a code kind + 3 * id with id < num_agents.  Reward / discount vectors have length num_agents with
   discounts in {0,1} (C03_Connector_step). *)
Require Import JV.Base.Prelude JV.Base.JaxIndex JV.Base.Codec JV.Base.TimeStep JV.Model.Connector JV.Proofs.Connector
  JV.Proofs.Connector_Step.
Theorem C01_Connector_spec_conformance c s acts :
  Physical c s -> wf c s acts -> in_spec acts -> 0 <= cnt s < tlim c ->
  spec_ok_b c (next c s acts) (maskof c s acts) = true.
Proof. exact (spec_next c s acts). Qed.
Theorem C01_Connector_reset_conformance c s :
  Physical c s -> cnt s = 0 -> 0 <= tlim c -> spec_ok_b c s (snd (reset_of c s)) = true.
Proof. exact (spec_reset c s). Qed.
Theorem C01_Connector_values c s r k :
  Physical c s -> 0 <= r < gsz c -> 0 <= k < gsz c -> 0 <= gat 0 (grid s) r k <= 3 * nag c + 1.
Proof. exact (Physical_values c s r k). Qed.
(* the shape part needs no hypothesis on the state *)
Theorem C01_Connector_shape c s acts :
  0 <= gsz c -> wf c s acts -> 0 <= cnt s < tlim c ->
  dims_b (gsz c) (grid (next c s acts)) = true
  /\ zlen (maskof c s acts) = nag c /\ forallb (fun r => zlen r =? 5) (maskof c s acts) = true
  /\ 0 <= cnt (next c s acts) <= tlim c.
Proof. exact (C01_shape c s acts). Qed.
Print Assumptions C01_Connector_spec_conformance.
Print Assumptions C01_Connector_reset_conformance.
Print Assumptions C01_Connector_values.
Print Assumptions C01_Connector_shape.
Example C01_Connector_nonvacuous :
  (Physical ex_cfg ex_s0 /\ wf ex_cfg ex_s0 [2; 4] /\ in_spec [2; 4] /\ 0 <= cnt ex_s0 < tlim ex_cfg)
  /\ spec_ok_b ex_cfg ex_s0 (snd (reset_of ex_cfg ex_s0)) = true
  /\ spec_ok_b ex_cfg (next ex_cfg ex_s0 [2; 4]) (maskof ex_cfg ex_s0 [2; 4]) = true
  /\ spec_ok_b (mkC 3 1 5 100 (-3)) (next ex_cfg ex_s0 [2; 4]) (maskof ex_cfg ex_s0 [2; 4]) = false.
Proof.
  split; [|vm_compute; repeat split; reflexivity].
  split; [apply Physical_b_spec; vm_compute; reflexivity|]. split; [vm_compute; repeat split; discriminate|].
  split; [repeat constructor; lia|vm_compute; split; [discriminate|reflexivity]].
Qed.
