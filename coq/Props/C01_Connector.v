(* C01 Connector, shape part PROVED for all sizes: the successor grid is grid_size x grid_size, the mask num_agents x 5,
   step_count in [0, time_limit] for every step taken below the limit (terminal step included); reward / discount vectors
   have length num_agents with discounts in {0,1} (C03_Connector_step).
   Full statement (kept as a comment; _partial because the value bound needs the max-join analysis, which is only
   correspondence-checked + checked by spec_ok_b on every implementation state):
     Physical c s -> wf c s acts -> cnt s < tlim c -> spec_ok_b c (next c s acts) (maskof c s acts) = true
   i.e. additionally every grid value lies in [0, 3 * num_agents + 1]. *)
Require Import JV.Base.Prelude JV.Base.JaxIndex JV.Base.Codec JV.Base.TimeStep JV.Model.Connector JV.Proofs.Connector.
Theorem C01_Connector_shape_partial c s acts :
  0 <= gsz c -> wf c s acts -> 0 <= cnt s < tlim c ->
  dims_b (gsz c) (grid (next c s acts)) = true
  /\ zlen (maskof c s acts) = nag c /\ forallb (fun r => zlen r =? 5) (maskof c s acts) = true
  /\ 0 <= cnt (next c s acts) <= tlim c.
Proof. exact (C01_shape c s acts). Qed.
Print Assumptions C01_Connector_shape_partial.
Example C01_Connector_nonvacuous :
  spec_ok_b ex_cfg ex_s0 (snd (reset_of ex_cfg ex_s0)) = true
  /\ spec_ok_b ex_cfg (next ex_cfg ex_s0 [2; 4]) (maskof ex_cfg ex_s0 [2; 4]) = true
  /\ spec_ok_b (mkC 3 1 5 100 (-3)) (next ex_cfg ex_s0 [2; 4]) (maskof ex_cfg ex_s0 [2; 4]) = false.
Proof. vm_compute. repeat split; reflexivity. Qed.
