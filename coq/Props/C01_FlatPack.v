(* C01 FlatPack (model side; the real specs are validated by the generic harness on every emitted timestep):
   every reachable grid has the declared shape, is non-negative, and each non-zero cell holds a cell value of a block of
   the instance -- hence lies in [0, num_blocks] whenever the block values do (observation_spec bounds). *)
Require Import JV.Base.Prelude JV.Base.JaxIndex JV.Base.Codec JV.Base.TimeStep JV.Model.FlatPack JV.Proofs.FlatPack JV.Proofs.FlatPack_Pack JV.Proofs.FlatPack_Solve JV.Proofs.FlatPack_Gen.
Theorem C01_FlatPack_grid_values cf bl acts s' ts i j :
  3 <= cR cf -> 3 <= cC cf -> 0 <= cN cf -> blocks_ok (cN cf) bl ->
  Forall (in_space cf) acts -> run cf (fst (init cf bl)) acts = (s', ts) ->
  0 <= i < cR cf -> 0 <= j < cC cf ->
  shape (cR cf) (cC cf) (grid s') /\
  (cell (grid s') i j = 0 \/ exists b i' j', 0 <= b < cN cf /\ 0 <= i' < 3 /\ 0 <= j' < 3 /\ cell (grid s') i j = cell (znth [] (blocks s') b) i' j').
Proof. exact (reachable_grid_values cf bl acts s' ts i j). Qed.
Print Assumptions C01_FlatPack_grid_values.
Example C01_FlatPack_nonvacuous :
  let s := fst (run toy_cf (fst (init toy_cf toy_blocks_rot)) (sol_actions toy_sol_rot)) in
  shape_b 5 5 (grid s) && range_b 0 4 (grid s) = true.
Proof. vm_compute. reflexivity. Qed.
