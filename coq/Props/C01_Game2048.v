(* C01 Game2048 (bounds of observed fields): every observation emitted by reset and by every step (terminal included) is an
   n x n board (spec Array (n,n) int32; additionally all entries are >= 0) and a mask of exactly 4 booleans (BoundedArray (4,));
   the reward is one non-negative scalar, the discount is the scalar 0 or 1 (BoundedArray [0,1]).  generate_value() of
   DiscreteArray(4) is 0, which is in [0,4) and accepted by step (step is total).  dtypes/structure: generic checker (T3). *)
Require Import JV.Base.Prelude JV.Base.JaxIndex JV.Base.Codec JV.Base.TimeStep JV.Model.Game2048
  JV.Proofs.Game2048_Row JV.Proofs.Game2048_Board JV.Proofs.Game2048.
Theorem C01_Game2048_step_conforms n s a idx v s' t : Inv n s -> 0 <= a < 4 -> (legal_b n (board s) a = true -> 0 <= v) ->
  step n s a idx v = Some (s', t) ->
  wf n (fst (observe s')) /\ nonneg (fst (observe s')) /\ length (snd (observe s')) = 4%nat
  /\ step_ok 1 false t = true /\ (exists r, reward t = [r] /\ 0 <= r)
  /\ (discount t = [0] \/ discount t = [1]).
Proof. exact (emitted_conforms n s a idx v s' t). Qed.
Print Assumptions C01_Game2048_step_conforms.
Theorem C01_Game2048_reset_conforms n idx v s t : 0 <= v -> init n idx v = Some (s, t) ->
  wf n (fst (observe s)) /\ nonneg (fst (observe s)) /\ length (snd (observe s)) = 4%nat /\ first_ok 1 t = true.
Proof. exact (reset_conforms n idx v s t). Qed.
Print Assumptions C01_Game2048_reset_conforms.
Theorem C01_Game2048_generated_action_accepted n s idx v :
  0 <= 0 < 4 /\ exists s' t, step n s 0 idx v = Some (s', t) /\ step_ok 1 false t = true.
Proof.
  split; [lia|]. destruct (step_total_protocol n s 0 idx v) as (s' & t & E & H & _). exists s', t. split; assumption.
Qed.
Print Assumptions C01_Game2048_generated_action_accepted.
Example C01_Game2048_nonvacuous :
  Inv 4 ex_state /\ wf 4 (fst (observe ex_state)) /\ length (snd (observe ex_state)) = 4%nat.
Proof. split; [exact ex_Inv|]. split; [apply wf_b_spec; reflexivity|reflexivity]. Qed.
