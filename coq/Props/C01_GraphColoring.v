(* C01 GraphColoring (value ranges of every observed field, on EVERY emitted state).  The observation is the four state fields
   (C12), so the declared observation spec is the boolean [ranges_b n] on the state: adj_matrix n x n booleans, colors of
   length n with every entry in [-1, n-1], current_node_index in [0, n-1], action_mask of length n (booleans: no range).
   It holds at reset for every graph of the right shape (in particular every generated one, for every draw matrix), and is
   preserved by EVERY step from ANY state inside the spec - reachable or not, terminal or not - under any in-spec colour,
   legal or not: so also on the terminal step and when stepping on after LAST.  The node index is cur+1 and wraps to 0
   (not n) on the last node: (cur+1) mod n.   dtypes/structure/reward/discount specs: generic harness. *)
Require Import JV.Base.Prelude JV.Base.JaxIndex JV.Base.Codec JV.Base.TimeStep JV.Model.GraphColoring JV.Proofs.GraphColoring
  JV.Proofs.GraphColoring_rules JV.Proofs.GraphColoring_episode JV.Proofs.GraphColoring_gen.
Theorem C01_GraphColoring_reset n adj0 :
  0 < n -> graph_wf n adj0 ->
  ranges_b n (fst (init n adj0)) = true /\ colors (fst (init n adj0)) = repeat (-1) (Z.to_nat n)
  /\ cur (fst (init n adj0)) = 0 /\ amask (fst (init n adj0)) = repeat true (Z.to_nat n).
Proof. exact (C01_reset_in_spec n adj0). Qed.
Theorem C01_GraphColoring_reset_generated n draw : 0 < n -> ranges_b n (fst (init n (gen_adj n draw))) = true.
Proof. exact (C01_reset_generated n draw). Qed.
Theorem C01_GraphColoring_every_step n s a :
  0 < n -> ranges_b n s = true -> 0 <= a < n -> ranges_b n (fst (step n s a)) = true.
Proof. exact (C01_step_in_spec n s a). Qed.
Print Assumptions C01_GraphColoring_every_step.
Theorem C01_GraphColoring_node_index_wraps n s a :
  0 < n -> 0 <= cur s < n ->
  cur (fst (step n s a)) = (if cur s =? n - 1 then 0 else cur s + 1) /\ 0 <= cur (fst (step n s a)) <= n - 1.
Proof. exact (C01_node_index n s a). Qed.
(* every state emitted along a run (terminal one included), any in-spec actions *)
Theorem C01_GraphColoring_run n acts s :
  0 < n -> ranges_b n s = true -> Forall (fun a => 0 <= a < n) acts ->
  Forall (fun p => ranges_b n (fst p) = true) (run n s acts).
Proof. exact (C01_run_in_spec n acts s). Qed.
Print Assumptions C01_GraphColoring_run.
(* the boolean is the declared spec *)
Theorem C01_GraphColoring_ranges_spec n s : ranges_b n s = true <->
  zlen (adj s) = n /\ Forall (fun r : list bool => zlen r = n) (adj s)
  /\ (zlen (colors s) = n /\ Forall (fun c => -1 <= c < n) (colors s)) /\ 0 <= cur s < n /\ zlen (amask s) = n.
Proof. exact (ranges_b_spec n s). Qed.
Example C01_GraphColoring_nonvacuous :
  let adj0 := gen_adj 3 [[true;true;true];[true;true;true];[false;true;true]] in
  let s0 := fst (init 3 adj0) in
  let s3 := fst (step 3 (fst (step 3 (fst (step 3 s0 0)) 1)) 2) in
  ranges_b 3 s0 = true /\ ranges_b 3 s3 = true /\ cur s3 = 0 /\ colors s3 = [0; 1; 2]
  /\ ranges_b 3 (fst (step 3 s3 0)) = true                       (* stepping on after LAST, an illegal colour *)
  /\ ranges_b 3 (mkS adj0 [0; 1; 3] 0 [true; true; true]) = false   (* colour n is outside *)
  /\ ranges_b 3 (mkS adj0 [0; 1; 2] 3 [true; true; true]) = false.  (* node index n is outside *)
Proof. vm_compute. repeat split; reflexivity. Qed.
