(* C01 JobShop (value ranges of the observed fields): ops_machine_ids in [-1, M-1], ops_durations in [-1, D],
   machines_job_ids in [0, J], machines_remaining_times in [0, D] are preserved by EVERY in-spec joint action (legal or not,
   also after LAST); the generators establish them (C10).  Shapes/dtypes and the concrete reset/terminal timesteps: generic harness. *)
Require Import JV.Base.Prelude JV.Base.JaxIndex JV.Base.Codec JV.Base.TimeStep JV.Proofs.TimeStep_laws.
Require Import JV.Model.JobShop JV.Proofs.JobShop_lib JV.Proofs.JobShop_step JV.Proofs.JobShop_sched JV.Proofs.JobShop_episode JV.Proofs.JobShop_gen.
Theorem C01_JobShop_ranges_preserved c s act : shape c s -> in_spec c act -> ranges_b c s = true ->
  ranges_b c (fst (step c s act)) = true.
Proof. exact (ranges_preserved c s act). Qed.
Theorem C01_JobShop_shape_preserved c s act : shape c s -> shape c (fst (step c s act)).
Proof. exact (step_shape c s act). Qed.
Theorem C01_JobShop_ranges_meaning c s : ranges_b c s = true <->
  (forall j k, 0 <= j < nj c -> 0 <= k < no c -> -1 <= mach s j k <= nm c - 1 /\ -1 <= dur s j k <= nd c) /\
  (forall m, 0 <= m < nm c -> 0 <= job s m <= nj c /\ 0 <= rem s m <= nd c).
Proof. exact (ranges_b_spec c s). Qed.
Print Assumptions C01_JobShop_ranges_preserved.
Definition toy_s0 := fst (init toy_cfg toy_mach toy_dur).
Definition toy_acts : list (list Z) := [[3;4;0;1];[5;5;5;5];[5;5;1;0];[5;2;5;5];[4;5;5;3];[3;0;5;2];[1;4;0;5];[3;5;5;5]].
Example C01_JobShop_nonvacuous :
  ranges_b toy_cfg toy_s0 = true /\ ranges_b toy_cfg (fst (step toy_cfg toy_s0 [3;4;0;1])) = true
  /\ rem (fst (step toy_cfg toy_s0 [3;4;0;1])) 0 = 3 /\ ranges_b (mkC 5 4 4 3) toy_s0 = false.
Proof. vm_compute. repeat split; reflexivity. Qed.
