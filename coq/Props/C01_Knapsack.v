(* C01 Knapsack (value ranges): step never changes weights/values, so the declared [0,1] ranges established by the generator
   (C10) hold in every observation, including terminal ones; shapes are preserved.  (dtypes/structure: generic harness.) *)
Require Import JV.Base.Prelude JV.Base.JaxIndex JV.Base.Codec JV.Base.TimeStep JV.Model.Knapsack JV.Proofs.Knapsack.
Theorem C01_Knapsack_ranges_preserved sc rnd sparse s a :
  ranges_b sc s = true -> ranges_b sc (fst (step_r rnd sparse s a)) = true.
Proof. exact (C01_ranges_preserved sc rnd sparse s a). Qed.
Theorem C01_Knapsack_shape_preserved n rnd sparse s a : shape n s -> shape n (fst (step_r rnd sparse s a)).
Proof. exact (step_r_shape n rnd sparse s a). Qed.
Print Assumptions C01_Knapsack_ranges_preserved.
Example C01_Knapsack_nonvacuous :
  ranges_b 1024 (mkS [512; 0; 1024] [1; 2; 3] [false; false; true] 512) = true
  /\ ranges_b 1024 (mkS [512; 0; 1025] [1; 2; 3] [false; false; true] 512) = false.
Proof. vm_compute. split; reflexivity. Qed.
