(* C01 LevelBasedForaging: every observation emitted in an episode lies inside the declared observation spec
   (agents_view: num_agents x 3(num_food+num_agents) entries in [-1, max_ob] for the vector observer, num_agents x 3 x (2fov+1)^2
   entries in [0, max_ob] for the grid observer, max_ob = max(num_agents*max_agent_level, max_agent_level, grid_size);
   action_mask num_agents x 6; step_count in [0, time_limit]): for the reset state and every state reached from it, as long as
   step_count <= time_limit, i.e. up to and including the terminal step (a MID step leaves the state below the limit). *)
From Coq Require Import QArith.
Require Import JV.Base.Prelude JV.Base.JaxIndex JV.Base.Codec JV.Base.TimeStep JV.Model.Lbf JV.Proofs.Lbf JV.Proofs.Lbf_Spec.
Open Scope Z_scope.
Theorem C01_Lbf_spec_ok c s :
  Inv c s -> 1 <= fov c -> 0 < gsz c -> 1 <= nag c -> cnt s <= tlim c -> spec_ok_b c s = true.
Proof. exact (C01_spec_ok c s). Qed.
Theorem C01_Lbf_step_conforms c s acts :
  Inv c s -> zlen acts = nag c -> 1 <= fov c -> 0 < gsz c -> 1 <= nag c -> cnt s < tlim c ->
  spec_ok_b c (fst (step c s acts)) = true.
Proof. exact (C01_step_conforms c s acts). Qed.
Theorem C01_Lbf_mid_below_limit c s acts : st (snd (step c s acts)) = MID -> cnt (fst (step c s acts)) < tlim c.
Proof. exact (C01_mid_below_limit c s acts). Qed.
Print Assumptions C01_Lbf_step_conforms.
Example C01_Lbf_nonvacuous :
  spec_ok_b ex_cfg ex_s0 = true /\ spec_ok_b ex_cfg (fst (step ex_cfg ex_s0 [5; 1])) = true
  /\ spec_ok_b (mkC 5 2 2 1 3 true 0%Q true 2) ex_s0 = true
  (* a food level above num_agents * max_agent_level, or a step count beyond the limit, is rejected *)
  /\ spec_ok_b ex_cfg (mkS (agents ex_s0) [mkF 0 1 1 7 false; mkF 1 3 3 2 false] 0) = false
  /\ spec_ok_b ex_cfg (mkS (agents ex_s0) (foods ex_s0) 4) = false.
Proof. vm_compute. repeat split; reflexivity. Qed.
