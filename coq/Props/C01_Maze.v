(* C01 Maze (value ranges of the observed fields): in every Physical state -- i.e. at reset and after any in-spec
   actions (C07) -- agent and target coordinates lie in the declared bounds [0, rows-1] x [0, cols-1], the mask has
   4 entries and walls has shape rows x cols (bool entries by typing; step_count is an unbounded int32 Array). *)
Require Import JV.Base.Prelude JV.Base.JaxIndex JV.Base.Codec JV.Base.TimeStep JV.Model.MazeGen JV.Model.Maze JV.Proofs.MazeGen JV.Proofs.Maze.
Theorem C01_Maze_values_in_spec rows cols s :
  Physical rows cols s ->
  0 <= ar s <= rows - 1 /\ 0 <= ac s <= cols - 1 /\ 0 <= tr s <= rows - 1 /\ 0 <= tc s <= cols - 1
  /\ length (amask s) = 4%nat /\ zlen (walls s) = rows /\ Forall (fun row => zlen row = cols) (walls s).
Proof. exact (Physical_in_spec rows cols s). Qed.
Print Assumptions C01_Maze_values_in_spec.
Example C01_Maze_nonvacuous : Physical_b 5 5 (fst toy_init) = true.
Proof. vm_compute. reflexivity. Qed.
