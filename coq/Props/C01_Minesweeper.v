(* C01 Minesweeper: the values emitted stay inside the ranges announced by observation_spec (board in [-1, 8],
   step_count in [0, rows*cols - num_mines]) at reset and after EVERY in-spec step of a running episode, terminal steps
   included.  Shapes/dtypes/reward/discount and generate_value are checked on the implementation by the generic harness. *)
Require Import JV.Base.Prelude JV.Base.JaxIndex JV.Base.Codec JV.Base.TimeStep JV.Model.Minesweeper.
Require Import JV.Proofs.Minesweeper_lists JV.Proofs.Minesweeper_count JV.Proofs.Minesweeper.
Theorem C01_Minesweeper_step_in_spec rc rows cols nm s r c :
  Phys rows cols nm s -> Live rows cols s -> 0 <= r < rows -> 0 <= c < cols ->
  spec_ok_b rows cols nm (fst (step rc rows cols s r c)) = true.
Proof. exact (step_spec_ok rc rows cols nm s r c). Qed.
Print Assumptions C01_Minesweeper_step_in_spec.
Theorem C01_Minesweeper_reset_in_spec rows cols nm locs :
  nm <= rows * cols -> spec_ok_b rows cols nm (fst (init rows cols locs)) = true.
Proof. exact (init_spec_ok rows cols nm locs). Qed.
Print Assumptions C01_Minesweeper_reset_in_spec.
(* the invariants used as hypotheses hold at reset and along every running episode: see C07 / C11 *)
Example C01_Minesweeper_nonvacuous :
  let s3 := final ex_s0 (run default_rcfg 2 3 ex_s0 [(0, 0); (1, 1); (1, 0)]) in
  Phys_b 2 3 2 s3 = true /\ Safe_b 2 3 s3 = true /\ step_count s3 = 3
  /\ step_count (fst (step default_rcfg 2 3 s3 0 2)) = 2 * 3 - 2 /\ st (snd (step default_rcfg 2 3 s3 0 2)) = LAST.
Proof. vm_compute. repeat split; reflexivity. Qed.
