(* C01 MMST: value ranges of the observation: node_types labels in [-1, 2*num_agents-1] (the declared BoundedArray),
   positions in [0, num_nodes-1] on every Inv state; step_count <= time_limit up to the terminal step follows from C11. *)
Require Import JV.Base.Prelude JV.Base.JaxIndex JV.Base.Codec JV.Base.TimeStep JV.Model.Mmst JV.Proofs.Mmst_lib JV.Proofs.Mmst JV.Proofs.Mmst_Episode JV.Proofs.Mmst_Obs JV.Proofs.Mmst_Gen JV.Proofs.Mmst_Examples.
Theorem C01_Mmst_node_types_range c s j :
  0 <= cA c ->
  (forall j, 0 <= j < cN c -> -1 <= znth (-1) (ntypes s) j < cA c) ->
  (forall a, 0 <= a < cA c -> zlen (znth [] (cidx s) a) = cN c) ->
  0 <= j < cN c -> -1 <= view (cA c) s j <= 2 * cA c - 1.
Proof. intros H0 H1 H2. exact (view_range c s H0 H1 H2 j). Qed.
Print Assumptions C01_Mmst_node_types_range.
Theorem C01_Mmst_positions_range c start s a : Inv c start s -> 0 <= a < cA c -> 0 <= znth 0 (pos s) a < cN c.
Proof. intro H. exact (wf_pos1 c s (inv_wf c start s H) a). Qed.
Example C01_Mmst_nonvacuous :
  ntypes ex_s0 = [0; 0; -1; 1; -1; 1] /\ pos ex_s0 = [0; 5]
  /\ amask ex_s0 = [[false; true; false; false; false; false]; [false; false; false; false; true; false]]
  /\ obs_types ex_cfg ex_s0 = [0; 1; -1; 3; -1; 2].
Proof. exact ex_reset. Qed.
