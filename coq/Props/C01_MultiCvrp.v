(* C01 MultiCVRP.  action_spec = BoundedArray(shape (V,), int16, 0, num_customers) (the model's action_spec_max n = n is
   compared with the real env.action_spec by the harness; before the fix bb8f8cd9 the maximum was num_customers+1).
   Proved: EVERY in-spec joint action (one node index 0..n per vehicle) is handled: the step keeps the C06 invariant and
   moves every vehicle to a node 0..n - so by induction every reachable state satisfies the invariant; under it the integer
   observation fields stay in their declared ranges (0 <= demands <= max_capacity given the instance bound,
   0 <= capacities <= max_capacity, shapes).  generate_value() = all zeros is in-spec, hence accepted.
   The bound is tight: the out-of-spec index n+1 is NOT handled (witness).
   Float ranges (coordinates, windows, coefficients, local times) are checked on the implementation by the generic validator. *)
Require Import JV.Base.Prelude JV.Base.JaxIndex JV.Base.Codec JV.Base.TimeStep JV.Model.MultiCvrp JV.Proofs.MultiCvrp JV.Proofs.MultiCvrp_Episode.
Theorem C01_MultiCvrp_every_in_spec_action_handled rnd n V mc dist d0 s H acts : n < 32768 -> 0 <= mc -> Inv n V mc d0 s H ->
  in_spec n V acts ->
  let s' := update rnd mc dist s acts in
  Inv n V mc d0 s' (next_nodes s acts :: H) /\ zlen (pos s') = V /\ Forall (fun a => 0 <= a <= n) (pos s').
Proof. exact (C01_in_spec_handled rnd n V mc dist d0 s H acts). Qed.
Print Assumptions C01_MultiCvrp_every_in_spec_action_handled.
Theorem C01_MultiCvrp_in_spec_b_spec n V acts : in_spec_b n V acts = true <-> in_spec n V acts.
Proof. exact (in_spec_b_spec n V acts). Qed.
Theorem C01_MultiCvrp_generate_value_in_spec n V : 0 <= n -> 0 <= V -> in_spec n V (repeat 0 (Z.to_nat V)).
Proof. exact (generate_value_in_spec n V). Qed.
Theorem C01_MultiCvrp_ranges n V mc d0 s H : Inv n V mc d0 s H -> (forall i, znth 0 d0 i <= mc) ->
  (forall i, 0 <= i <= n -> 0 <= znth 0 (demands s) i <= mc) /\ (forall v, 0 <= v < V -> 0 <= znth 0 (cap s) v <= mc)
  /\ zlen (demands s) = n + 1 /\ zlen (cap s) = V /\ zlen (pos s) = V.
Proof. exact (C01_ranges n V mc d0 s H). Qed.
Print Assumptions C01_MultiCvrp_ranges.
Theorem C01_MultiCvrp_action_spec_max_tight :
  exists (s : state) (acts : list Z), Inv 2 2 5 [0; 2; 3] s [] /\ Forall (fun a => 0 <= a <= action_spec_max 2 + 1) acts
  /\ in_spec_b 2 2 acts = false
  /\ let s' := update rid 5 dlin s acts in
     pos s' = [2; 3] /\ cap s' = [2; 2] /\ demands s' = [0; 2; 0]
     /\ ~ (exists H', Inv 2 2 5 [0; 2; 3] s' H').
Proof. exact action_spec_max_tight. Qed.
Print Assumptions C01_MultiCvrp_action_spec_max_tight.
Example C01_MultiCvrp_nonvacuous :
  let s0 := st0 [0; 2; 3] 2 5 2 in
  Inv_b 2 2 5 [0; 2; 3] s0 [] = true /\ ranges_b 2 2 5 s0 = true
  /\ in_spec_b 2 2 [0; 0] = true /\ ranges_b 2 2 5 (update rid 5 dlin s0 [0; 0]) = true        (* generate_value() *)
  /\ in_spec_b 2 2 [2; 2] = true /\ Inv_b 2 2 5 [0; 2; 3] (update rid 5 dlin s0 [2; 2]) [[2; 0]] = true
  /\ in_spec_b 2 2 [3; 0] = false /\ in_spec_b 2 2 [1] = false /\ action_spec_max 2 = 2.
Proof. vm_compute. repeat split; reflexivity. Qed.
