(* C01 PacMan (value ranges of the observed fields): in every state satisfying the physical invariant Inv -- i.e. at
   reset and after any actions and permitted ghost draws (C07) -- the player's x (row) lies in [0, x_size-1] and its
   y (column) in [0, y_size-1] (the bounds of observation_spec after the spec fix), the grid has shape x_size x y_size
   with entries in [0, 1], the mask has 5 entries, there are 4 ghosts.  (ghost / pellet / power-up locations, score and
   frightened_state_time are unbounded int32 Arrays in the spec.)  Shapes/dtypes are checked dynamically by the harness. *)
Require Import JV.Base.Prelude JV.Base.JaxIndex JV.Base.Codec JV.Base.TimeStep JV.Gen.PacManConsts JV.Model.PacMan JV.Proofs.PacMan JV.Proofs.PacMan_Inv JV.Proofs.PacMan_Rules.
Theorem C01_PacMan_values_in_spec xs ys s :
  Inv xs ys s ->
  0 <= px s <= xs - 1 /\ 0 <= py s <= ys - 1
  /\ zlen (grid s) = xs /\ (forall row, In row (grid s) -> zlen row = ys /\ forall v, In v row -> 0 <= v <= 1)
  /\ length (compute_mask (grid s) (px s) (py s)) = 5%nat /\ length (ghosts s) = 4%nat.
Proof. exact (Inv_in_spec xs ys s). Qed.
Print Assumptions C01_PacMan_values_in_spec.
Example C01_PacMan_nonvacuous : Inv_b X_SIZE Y_SIZE (gen_state DEFAULT_MAZE_ASCII) = true /\ X_SIZE = 31 /\ Y_SIZE = 28.
Proof. vm_compute. repeat split; reflexivity. Qed.
