(* C01 RobotWarehouse: everything emitted conforms to the declared observation spec (agents_view int32
   [num_agents, num_obs_features] without bounds, action_mask bool [num_agents, 5], step_count in [0, time_limit]).
   Proved for every state and joint action: step_count grows by one and a MID step leaves it below the limit (so it is
   <= time_limit up to and including the terminal step); the mask has one row of 5 entries per agent; and for EVERY state
   (consistent or not, terminal collision states included), every agent index and every sensor range, each agents_view row
   written by the code's writer (dynamic_update_slice at a running index) has exactly nfeat(sensor_range) =
   num_obs_features entries, one row per agent. *)
Require Import JV.Base.Prelude JV.Base.JaxIndex JV.Base.Codec JV.Base.TimeStep JV.Model.RobotWarehouse JV.Proofs.RobotWarehouse_lib JV.Proofs.RobotWarehouse JV.Proofs.RobotWarehouse_Step JV.Proofs.RobotWarehouse_Check JV.Proofs.RobotWarehouse_Obs.
Theorem C01_RobotWarehouse_step_count c s acts draws :
  cnt (fst (step c s acts draws)) = cnt s + 1
  /\ (st (snd (step c s acts draws)) = MID -> cnt (fst (step c s acts draws)) < tlim c).
Proof. exact (conj (step_cnt c s acts draws) (mid_below_limit c s acts draws)). Qed.
Theorem C01_RobotWarehouse_mask_shape c s acts draws :
  let s' := fst (step c s acts draws) in
  zlen (amask s') = zlen (agents s') /\ Forall (fun r => zlen r = 5) (amask s').
Proof. exact (step_mask_shape c s acts draws). Qed.
Theorem C01_RobotWarehouse_view_row_length c s i : zlen (agent_obs c s i) = nfeat (srange c).
Proof. exact (agent_obs_len c s i). Qed.
Theorem C01_RobotWarehouse_view_shape c s : 0 <= nag c ->
  zlen (observe c s) = nag c /\ Forall (fun row => zlen row = nfeat (srange c)) (observe c s).
Proof. exact (observe_shape c s). Qed.
Print Assumptions C01_RobotWarehouse_step_count.
Print Assumptions C01_RobotWarehouse_mask_shape.
Print Assumptions C01_RobotWarehouse_view_row_length.
Print Assumptions C01_RobotWarehouse_view_shape.
Example C01_RobotWarehouse_nonvacuous :
  spec_ok_b ex_c ex_s0 = true /\ spec_ok_b ex_c ex_s1 = true /\ nfeat (srange ex_c) = 66
  /\ zlen (agent_obs ex_c ex_s1 0) = 66
  /\ spec_ok_b ex_c (mkS (gsh ex_s0) (gag ex_s0) (agents ex_s0) (shelves ex_s0) (queue ex_s0) 6 (amask ex_s0)) = false.
Proof. vm_compute. repeat split; reflexivity. Qed.
