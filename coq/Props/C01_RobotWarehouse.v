(* C01 RobotWarehouse (PARTIAL): of the declared observation spec (agents_view int32 [num_agents, num_obs_features] without bounds,
   action_mask bool [num_agents, 5], step_count in [0, time_limit]) the following is proved for every state and joint action:
   step_count grows by one and a MID step leaves it below the limit (so it is <= time_limit up to and including the terminal
   step); the mask has one row of 5 entries per agent.  Full statement (not proved, correspondence-checked + generic validate
   on every emitted timestep): additionally every agents_view row has exactly nfeat(sensor_range) entries. *)
Require Import JV.Base.Prelude JV.Base.JaxIndex JV.Base.Codec JV.Base.TimeStep JV.Model.RobotWarehouse JV.Proofs.RobotWarehouse_lib JV.Proofs.RobotWarehouse JV.Proofs.RobotWarehouse_Step JV.Proofs.RobotWarehouse_Check.
Theorem C01_RobotWarehouse_step_count_partial c s acts draws :
  cnt (fst (step c s acts draws)) = cnt s + 1
  /\ (st (snd (step c s acts draws)) = MID -> cnt (fst (step c s acts draws)) < tlim c).
Proof. exact (conj (step_cnt c s acts draws) (mid_below_limit c s acts draws)). Qed.
Theorem C01_RobotWarehouse_mask_shape_partial c s acts draws :
  let s' := fst (step c s acts draws) in
  zlen (amask s') = zlen (agents s') /\ Forall (fun r => zlen r = 5) (amask s').
Proof. exact (step_mask_shape c s acts draws). Qed.
Print Assumptions C01_RobotWarehouse_step_count_partial.
Print Assumptions C01_RobotWarehouse_mask_shape_partial.
Example C01_RobotWarehouse_nonvacuous :
  spec_ok_b ex_c ex_s0 = true /\ spec_ok_b ex_c ex_s1 = true /\ nfeat (srange ex_c) = 66
  /\ spec_ok_b ex_c (mkS (gsh ex_s0) (gag ex_s0) (agents ex_s0) (shelves ex_s0) (queue ex_s0) 6 (amask ex_s0)) = false.
Proof. vm_compute. repeat split; reflexivity. Qed.
