(* C01 RubiksCube: every cube emitted by reset or by any sequence of steps is a 6 x n x n array of stickers in 0..5
   (observation_spec cube bounds) and the emitted step_count stays in [0, time_limit]. *)
Require Import JV.Base.Prelude JV.Base.JaxIndex JV.Base.Codec JV.Base.TimeStep JV.Gen.RubikTables JV.Model.RubiksCube.
Require Import JV.Proofs.RubiksCube_Lists JV.Proofs.RubiksCube_Cube JV.Proofs.RubiksCube_Action JV.Proofs.RubiksCube_Group JV.Proofs.RubiksCube_Env.
From Coq Require Import Permutation.
Theorem C01_RubiksCube_cube_in_spec n c : 2 <= n -> Reach n c -> shape n c /\ in_spec_b c = true.
Proof. exact (fun Hn R => conj (reach_shape n c Hn R) (reach_in_spec n c Hn R)). Qed.
Theorem C01_RubiksCube_reach n T s a acts :
  Reach n (cube_of (fst (init n acts))) /\ (Reach n (cube_of s) -> Reach n (cube_of (fst (step n T s a)))).
Proof. exact (conj (init_reach n acts) (step_reach n T s a)). Qed.
Theorem C01_RubiksCube_count_in_spec n T s a : 0 <= count s < T -> 0 <= count (fst (step n T s a)) <= T.
Proof. exact (step_count_bound n T s a). Qed.
Print Assumptions C01_RubiksCube_cube_in_spec.
Example C01_RubiksCube_nonvacuous : in_spec_b (scramble 4 [5; 30; 11]) = true /\ shape_b 4 (scramble 4 [5; 30; 11]) = true.
Proof. vm_compute. auto. Qed.
