(* C01 SlidingTile: every observation emitted by reset and by every step up to and including the terminal one lies inside the
   declared observation spec: puzzle n x n with entries in [0, n^2-1], blank position in [0, n-1]^2, mask of 4 booleans,
   step_count in [0, time_limit].  (dtype/shape conformance of the REAL arrays, reward/discount specs and generate_value are
   checked on the implementation by harness/generic.py through the verified validate.)
   Good = Inv (well-shaped board, blank where the state says) + tiles are a permutation of 0..n^2-1; it holds after reset
   and is preserved by every in-spec action, legal or not.  After the terminal step the counter exceeds time_limit: the
   hypothesis steps s < T is exactly "the episode has not ended by the limit yet". *)
Require Import JV.Base.Prelude JV.Base.JaxIndex JV.Base.Codec JV.Base.TimeStep JV.Model.SlidingTile JV.Proofs.SlidingTile JV.Proofs.SlidingTile_Episode.
From Coq Require Import Permutation.
Theorem C01_SlidingTile_step_obs_in_spec n T rw s a :
  Good n s -> 0 <= a < 4 -> 0 <= steps s < T -> obs_ok n T (ob_of n T rw s a).
Proof. exact (step_obs_ok n T rw s a). Qed.
Theorem C01_SlidingTile_reset_obs_in_spec n T draws key :
  0 < n -> 0 <= T -> valid_draws n (gen_start n) draws = true -> obs_ok n T (snd (reset n (gen_state n draws key))).
Proof. exact (reset_obs_ok n T draws key). Qed.
Theorem C01_SlidingTile_Good_reset n draws key : 0 < n -> valid_draws n (gen_start n) draws = true -> Good n (gen_state n draws key).
Proof. exact (gen_state_Good n draws key). Qed.
Theorem C01_SlidingTile_Good_step n T rw s a : Good n s -> 0 <= a < 4 -> Good n (nxt n T rw s a).
Proof. exact (step_Good n T rw s a). Qed.
Print Assumptions C01_SlidingTile_step_obs_in_spec.
Print Assumptions C01_SlidingTile_reset_obs_in_spec.
Example C01_SlidingTile_nonvacuous :
  valid_draws 3 (gen_start 3) [0; 3; 0] = true
  /\ ob_of 3 5 0 (gen_state 3 [0; 3; 0] [7; 9]) 2 = mkO [[1; 2; 3]; [4; 0; 5]; [7; 8; 6]] (1, 1) [true; true; true; true] 1.
Proof. vm_compute. split; reflexivity. Qed.
