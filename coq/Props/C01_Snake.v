(* C01 Snake: every observation emitted by step from a consistent state (terminal observations included: time limit,
   illegal move, completion) lies in the declared bounds: 0 <= step_count <= time_limit (the spec is
   BoundedArray(0, time_limit)), the four 0/1 planes are booleans by construction, and the fifth plane
   num/den satisfies 1 <= den and 0 <= num <= den, i.e. it lies in [0,1].  Same for the reset observation.
   Shapes/dtypes of the real arrays are validated by the generic harness (extracted validate). *)
Require Import JV.Base.Prelude JV.Base.JaxIndex JV.Base.Codec JV.Base.TimeStep JV.Model.Snake JV.Proofs.Snake JV.Proofs.Snake_rules JV.Proofs.Snake_examples.
Theorem C01_Snake_step_obs_in_spec R C T s a d :
  Inv R C T s ->
  let o := observe (fst (step R C T s a d)) in
  0 <= o_steps o <= T /\ 1 <= o_den o /\ Forall (Forall (fun x => 0 <= x <= o_den o)) (o_num o).
Proof. exact (emitted_obs_in_spec R C T s a d). Qed.
Print Assumptions C01_Snake_step_obs_in_spec.
Theorem C01_Snake_reset_obs_in_spec R C T hd fr :
  0 < T -> in_grid R C hd -> valid_draw R C (body (fst (init R C hd fr))) fr = true ->
  let o := observe (fst (init R C hd fr)) in
  0 <= o_steps o <= T /\ 1 <= o_den o /\ Forall (Forall (fun x => 0 <= x <= o_den o)) (o_num o).
Proof.
  exact (fun HT Hh Hv => conj (conj (Z.le_refl 0) (Z.lt_le_incl 0 T HT))
           (obs_norm_bounded _ (Phys_NonNeg R C _ (init_Phys R C hd fr Hh Hv)))).
Qed.
Print Assumptions C01_Snake_reset_obs_in_spec.
(* reward in {0,1}, discount/step type by the protocol checker *)
Theorem C01_Snake_reward_in_spec R C T s a d :
  reward (snd (step R C T s a d)) = [0] \/ reward (snd (step R C T s a d)) = [1].
Proof. exact (reward_01 R C T s a d). Qed.
(* the bound is attained: with time_limit 3 the terminal observation shows step_count = 3 *)
Example C01_Snake_nonvacuous :
  Inv 3 3 3 e2 /\ st (snd (step 3 3 3 e2 0 (2, 2))) = LAST /\ o_steps (observe (fst (step 3 3 3 e2 0 (2, 2)))) = 3.
Proof. exact (conj (proj2 (proj2 (proj2 (proj2 ex_inv)))) (conj (proj2 (proj2 (proj2 (proj2 (proj2 (proj2 ex_steps)))))) (proj2 (proj2 (proj2 (proj2 (proj2 (proj2 (proj2 ex_obs))))))))). Qed.
