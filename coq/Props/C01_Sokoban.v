(* C01 Sokoban (value ranges of the observed fields): in every Physical state -- i.e. at reset and after ANY in-spec
   actions (C07) -- both grids are G x G with entries in [0, 4] (the declared BoundedArray(uint8, 0, 4) of shape
   (G, G, 2)), and the observed grid is exactly the two grids stacked (C12); step_count is an unbounded int32 Array;
   reward / discount shapes: C03. *)
Require Import JV.Base.Prelude JV.Base.JaxIndex JV.Base.Codec JV.Base.TimeStep JV.Model.Sokoban JV.Proofs.Sokoban_Grid JV.Proofs.Sokoban JV.Proofs.Sokoban_Levels.
Theorem C01_Sokoban_values_in_spec G s : Physical G s ->
  Forall (Forall (fun v => 0 <= v <= 4)) (var s) /\ Forall (Forall (fun v => 0 <= v <= 4)) (fixed s)
  /\ zlen (var s) = G /\ zlen (fixed s) = G
  /\ Forall (fun row => zlen row = G) (var s) /\ Forall (fun row => zlen row = G) (fixed s).
Proof. exact (Physical_in_spec G s). Qed.
Print Assumptions C01_Sokoban_values_in_spec.
Theorem C01_Sokoban_every_emitted_state T dense acts s0 R :
  WellFormed 10 s0 -> Enclosed_b 10 s0 R = true -> Forall (fun a => 0 <= a < 4) acts ->
  let s := run 10 T dense s0 acts in
  Physical 10 s /\ gcount 10 (var s) AGENT = 1 /\ gcount 10 (var s) BOX = N_BOXES /\ fixed s = fixed s0
  /\ 0 < ar s < 9 /\ 0 < ac s < 9 /\ sc s = zlen acts.
Proof. exact (level_run_invariant T dense acts s0 R). Qed.
Print Assumptions C01_Sokoban_every_emitted_state.
Example C01_Sokoban_nonvacuous :
  Physical_b 10 (fst gen_simple) = true /\ Physical_b 10 (run 10 120 true (fst (gen_toy 1)) [0;1;1;2;3;3;0]) = true.
Proof. vm_compute. split; reflexivity. Qed.
