(* C01 Sudoku (model side; the real specs are validated on every emitted timestep by the generic harness): after any in-spec
   action from an Inv state the board is 9x9 with every cell in -1..8, inside the declared BoundedArray(-1, 9); the mask is the
   9x9x9 boolean table [legal_table].                                                                                         *)
Require Import JV.Base.Prelude JV.Base.JaxIndex JV.Base.Codec JV.Base.TimeStep JV.Model.Sudoku JV.Proofs.Sudoku.
Theorem C01_Sudoku_board_in_spec s r c d : Inv s -> in_spec r c d ->
  forall r' c', 0 <= r' < 9 -> 0 <= c' < 9 -> -1 <= cell (board (fst (step s r c d))) r' c' <= 9.
Proof. exact (board_in_spec s r c d). Qed.
Print Assumptions C01_Sudoku_board_in_spec.
Example C01_Sudoku_nonvacuous :
  shape_b (board (fst (step (fst (init sample_puzzle)) 8 8 8))) = true.
Proof. vm_compute. reflexivity. Qed.
