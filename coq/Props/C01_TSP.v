(* C01 TSP (value ranges of every observed field, on EVERY emitted state): whenever the state encodes a partial tour (Inv: true
   at reset, preserved by every in-spec action) the coordinates are the generated ones (never changed by step, inside [0,1]
   when drawn from [0,1)), position and every trajectory entry lie in [-1, num_cities-1], shapes are as declared.  This covers
   the reset observation, where position = -1 (the declared minimum) and the mask is all True, and the terminal step
   (any in-spec action, legal or not).  The action mask is a boolean array (no range to check).
   dtypes/structure/reward/discount specs: generic harness through the extracted validate. *)
Require Import JV.Base.Prelude JV.Base.JaxIndex JV.Base.Codec JV.Base.TimeStep JV.Model.TSP JV.Proofs.TSP_lists JV.Proofs.TSP.
Theorem C01_TSP_reset n sc c : 0 <= n -> valid_draw n sc c = true ->
  ranges_b n sc (fst (init n c)) = true /\ position (fst (init n c)) = -1 /\ mask (fst (init n c)) = repeat true (Z.to_nat n).
Proof. intro Hn. exact (C01_reset n (fun _ _ => 0) Hn sc c). Qed.
Theorem C01_TSP_every_step n pen dist sc rnd sparse s a : 0 <= n ->
  Inv n s -> coords_ok n sc (coords s) -> 0 <= a < n ->
  let s' := fst (step_r rnd sparse n pen dist s a) in
  ranges_b n sc s' = true /\ Inv n s' /\ coords s' = coords s.
Proof. intro Hn. exact (C01_every_step n pen dist Hn sc rnd sparse s a). Qed.
Print Assumptions C01_TSP_every_step.
Theorem C01_TSP_ranges n sc s : 0 <= n -> Inv n s -> coords_ok n sc (coords s) -> ranges_b n sc s = true.
Proof. intro Hn. exact (C01_ranges n (fun _ _ => 0) Hn sc s). Qed.
Print Assumptions C01_TSP_ranges.
Example C01_TSP_nonvacuous :
  let s0 := fst (init 3 [0; 5; 16; 2; 7; 7]) in
  ranges_b 3 16 s0 = true /\ position s0 = -1 /\ Inv_b 3 s0 = true
  /\ ranges_b 3 16 (fst (step false 3 99 (fun _ _ => 1) (fst (step false 3 99 (fun _ _ => 1) s0 2)) 2)) = true
  /\ ranges_b 3 16 (mkS [0; 5; 16; 2; 7; 7] 3 [false; false; false] [-1; -1; -1] 0) = false
  /\ ranges_b 3 16 (mkS [0; 5; 17; 2; 7; 7] (-1) [false; false; false] [-1; -1; -1] 0) = false.
Proof. vm_compute. repeat split; reflexivity. Qed.
