(* C01 Tetris: the observation of reset and of EVERY step (any action, legal or not, terminal or not -- the terminal one
   carries step_count = step_count + 1 <= time_limit) has the declared structure: grid (num_rows, num_cols) in [0,1],
   tetromino (4,4) in [0,1], action_mask (4, num_cols), 0 <= step_count <= time_limit.  Needs only the shape invariant
   (kept by any action, C01_Tetris_shape_kept) and step_count < time_limit for the state stepped from.
   Note: for time_limit <= 0 the first step already emits step_count 1 > time_limit (degenerate configuration, excluded). *)
Require Import JV.Base.Prelude JV.Base.JaxIndex JV.Base.Codec JV.Base.TimeStep JV.Gen.TetrisConsts JV.Model.Tetris.
Require Import JV.Proofs.Tetris JV.Proofs.Tetris_place JV.Proofs.Tetris_clear JV.Proofs.Tetris_phys JV.Proofs.Tetris_step.
Theorem C01_Tetris_step_obs_in_spec nr nc tl s rot x d :
  Shape nr nc (grid s) -> 4 <= nr -> 4 <= nc -> 0 <= step_count s < tl ->
  obs_in_spec nr nc tl (snd (step nr nc tl s rot x d)).
Proof. exact (step_obs_in_spec nr nc tl s rot x d). Qed.
Print Assumptions C01_Tetris_step_obs_in_spec.
Theorem C01_Tetris_reset_obs_in_spec nr nc tl d :
  4 <= nr -> 4 <= nc -> 0 <= tl -> valid_draw d = true -> obs_in_spec nr nc tl (snd (init nr nc d)).
Proof. exact (init_obs_in_spec nr nc tl d). Qed.
Print Assumptions C01_Tetris_reset_obs_in_spec.
Theorem C01_Tetris_shape_kept nr nc tl s rot x d :
  Shape nr nc (grid s) -> 1 <= nr -> 1 <= nc -> Shape nr nc (grid (fst (fst (step nr nc tl s rot x d)))).
Proof. exact (step_shape nr nc tl s rot x d). Qed.
Print Assumptions C01_Tetris_shape_kept.
(* the terminal observation at the time limit: step_count = time_limit = 1 *)
Example C01_Tetris_nonvacuous :
  shape_b 4 4 (grid ex_s0) = true /\ o_step (snd (step 4 4 1 ex_s0 1 0 3)) = 1 /\ st (snd (fst (step 4 4 1 ex_s0 1 0 3))) = LAST.
Proof. vm_compute. repeat split; reflexivity. Qed.
