(* C03 — FIRST, MID*, LAST protocol with sane reward and discount.  Generic part (every environment's model builds its
   timesteps from these constructors; the extracted [first_ok]/[step_ok] are what the harness evaluates on EVERY timestep
   of the real environments, including steps taken after LAST). *)
Require Import JV.Base.Prelude JV.Base.Codec JV.Base.TimeStep JV.Proofs.TimeStep_laws.

(* reset: FIRST, zero reward and unit discount shaped like the reward/discount specs (k entries) *)
Theorem C03_restart k : first_ok k (restart k) = true.
Proof. exact (restart_first_ok k). Qed.
Print Assumptions C03_restart.
(* step never returns FIRST; MID has a non-zero discount; LAST has zero discount ... *)
Theorem C03_transition k r tr : (0 < k)%nat -> length r = k -> step_ok k tr (transition k r) = true.
Proof. exact (transition_step_ok k r tr). Qed.
Theorem C03_termination k r tr : length r = k -> step_ok k tr (termination k r) = true.
Proof. exact (termination_step_ok k r tr). Qed.
Theorem C03_cond_done k done r tr : (0 < k)%nat -> length r = k -> step_ok k tr (cond_done k done r) = true.
Proof. exact (cond_done_step_ok k done r tr). Qed.
Print Assumptions C03_cond_done.
(* ... except where truncation is documented (LevelBasedForaging at its time limit); anywhere else it is rejected *)
Theorem C03_truncation_documented k r : length r = k -> step_ok k true (truncation k r) = true.
Proof. exact (truncation_step_ok k r). Qed.
Theorem C03_truncation_undocumented k r : (0 < k)%nat -> step_ok k false (truncation k r) = false.
Proof. exact (truncation_undocumented_rejected k r). Qed.
Print Assumptions C03_truncation_undocumented.
(* the meaning of the checkers *)
Theorem C03_step_ok_spec k tr t : step_ok k tr t = true <->
  (st t = MID \/ st t = LAST) /\ length (discount t) = k /\ length (reward t) = k
  /\ Forall (fun d => 0 <= d <= 1) (discount t)
  /\ (st t = MID -> exists d, In d (discount t) /\ d <> 0)
  /\ (st t = LAST -> Forall (fun d => d = 0) (discount t) \/ tr = true).
Proof. exact (step_ok_spec k tr t). Qed.
Theorem C03_first_ok_spec k t : first_ok k t = true <-> st t = FIRST /\ reward t = repeat 0 k /\ discount t = repeat 1 k.
Proof. exact (first_ok_spec k t). Qed.
Print Assumptions C03_step_ok_spec.
Example C03_nonvacuous :
  step_ok 2 false (mkTS MID [3; 0] [1; 0]) = true /\ step_ok 2 false (mkTS MID [3; 0] [0; 0]) = false
  /\ step_ok 1 false (mkTS LAST [5] [1]) = false /\ step_ok 1 false (mkTS FIRST [0] [1]) = false
  /\ first_ok 3 (restart 3) = true.
Proof. vm_compute. repeat split. Qed.
