(* C03 BinPack: reset gives FIRST (reward 0, discount 1); every step - any state, any action, also after LAST - gives MID with
   discount 1 or LAST with discount 0, never FIRST. *)
Require Import JV.Base.Prelude JV.Base.JaxIndex JV.Base.Codec JV.Base.TimeStep JV.Model.BinPack JV.Proofs.BinPack_lib JV.Proofs.BinPack JV.Proofs.BinPack_obs.
(* a concrete instance: container 4x2x2, two items 2x2x2 and one 3x2x2, buffer of 4 EMSs, 2 observed *)
Definition ex_c := make_container 4 2 2.
Definition ex_items := [mkIt 2 2 2; mkIt 2 2 2; mkIt 3 2 2].
Definition ex_s0 := fst (init 2 ex_c 4 ex_items [true; true; true]).
Definition ex_s1 := fst (step 2 false ex_s0 0 0).
Definition ex_s2 := fst (step 2 false ex_s1 0 1).
Theorem C03_BinPack_step_protocol obs sparse s a0 a1 : step_ok 1 false (snd (step obs sparse s a0 a1)) = true.
Proof. exact (step_protocol obs sparse s a0 a1). Qed.
Theorem C03_BinPack_init_protocol obs c max_ems its im : first_ok 1 (snd (init obs c max_ems its im)) = true.
Proof. exact (init_protocol obs c max_ems its im). Qed.
Print Assumptions C03_BinPack_step_protocol.
Example C03_BinPack_nonvacuous :
  snd (step 2 false ex_s0 0 0) = transition 1 [8] /\ snd (step 2 false ex_s0 1 0) = termination 1 [0]
  /\ snd (step 2 false ex_s1 0 1) = termination 1 [8].
Proof. vm_compute. repeat split; reflexivity. Qed.
