(* C03 CVRP: reset gives FIRST with reward 0 and discount 1; every step (any state, any action, any distance oracle, also after
   LAST) gives MID with discount 1 or LAST with discount 0, never FIRST. *)
Require Import JV.Base.Prelude JV.Base.JaxIndex JV.Base.Codec JV.Base.TimeStep JV.Model.CVRP JV.Proofs.CVRP.
Theorem C03_CVRP_step_protocol dist rnd sp mc pen s a : step_ok 1 false (snd (step_r rnd sp mc pen dist s a)) = true.
Proof. exact (C03_step_protocol dist rnd sp mc pen s a). Qed.
Theorem C03_CVRP_init_protocol n mc draw : first_ok 1 (snd (init n mc draw)) = true.
Proof. exact (C03_init_protocol n mc draw). Qed.
Print Assumptions C03_CVRP_step_protocol.
Example C03_CVRP_nonvacuous :
  let d := fun i j => 10 * Z.abs (i - j) in
  let s0 := fst (init 2 3 [1; 2; 2]) in
  snd (step false 3 99 d s0 1) = transition 1 [-10] /\ snd (step false 3 99 d s0 0) = termination 1 [-99].
Proof. vm_compute. split; reflexivity. Qed.
