(* C03 CVRP over the SOURCE-TRANSLATED step (Gen/CvrpSrc.v, regenerated from /repo on every run; see C09_CVRP_Source.v): every step -- any
   state, any action, also after LAST -- returns MID with unit discount or LAST with zero discount, never FIRST, never a truncation. *)
Require Import JV.Base.Prelude JV.Base.JaxIndex JV.Base.Codec JV.Base.TimeStep JV.Gen.TimeStepSrc JV.Gen.CvrpSrc JV.Proofs.CVRP JV.Proofs.Cvrp_Src.
Require JV.Model.CVRP.
Theorem C03_CVRP_Source_step_protocol rnd sparse mc pen dist s a : step_ok 1 false (snd (step mc (reward_model rnd sparse pen dist) s a)) = true.
Proof. exact (src_step_protocol rnd sparse mc pen dist s a). Qed.
Print Assumptions C03_CVRP_Source_step_protocol.
