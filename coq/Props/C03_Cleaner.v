(* C03 Cleaner: reset gives FIRST with zero reward and unit discount; every step gives MID (discount 1) or LAST
   (discount 0), never FIRST, for every state and every action vector. *)
Require Import JV.Base.Prelude JV.Base.JaxIndex JV.Base.Codec JV.Base.TimeStep JV.Model.Cleaner JV.Proofs.Cleaner.
Theorem C03_Cleaner_first c maze : first_ok 1 (snd (init c maze)) = true.
Proof. exact (C03_first c maze). Qed.
Theorem C03_Cleaner_step c s acts : step_ok 1 false (snd (step c s acts)) = true.
Proof. exact (C03_step c s acts). Qed.
Print Assumptions C03_Cleaner_step.
Example C03_Cleaner_nonvacuous :
  enc_ts (snd (init ex_cfg ex_maze)) = [FIRST; 0; 1] /\ enc_ts (snd (step ex_cfg ex_s0 [1; 1])) = [MID; 2; 1]
  /\ enc_ts (snd (step ex_cfg ex_s0 [1; 2])) = [LAST; 2; 0].
Proof. vm_compute. repeat split; reflexivity. Qed.
