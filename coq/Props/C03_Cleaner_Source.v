(* C03 Cleaner over the SOURCE-TRANSLATED step (Gen/CleanerSrc.v, regenerated from /repo on every run; see C09_Cleaner_Source.v): every step -- any
   state, any action, also after LAST -- returns MID with unit discount or LAST with zero discount, never FIRST, never a truncation. *)
Require Import JV.Base.Prelude JV.Base.JaxIndex JV.Base.Codec JV.Base.TimeStep JV.Gen.TimeStepSrc JV.Gen.CleanerSrc JV.Proofs.Cleaner JV.Proofs.Cleaner_Src.
Require JV.Model.Cleaner.
Theorem C03_Cleaner_Source_step_protocol (R C N T pen : Z) s acts : step_ok 1 false (snd (step R C T pen s acts)) = true.
Proof. exact (src_step_protocol R C N T pen s acts). Qed.
Print Assumptions C03_Cleaner_Source_step_protocol.
