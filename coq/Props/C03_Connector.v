(* C03 Connector: reset gives FIRST with zero rewards and unit discounts (one per agent); every step gives MID or LAST,
   never FIRST, rewards and discounts of length num_agents, discounts in {0,1}; a LAST step has all-zero discounts; a MID
   step never has an all-zero discount: the per-agent discount is 1 - done, and MID means some agent is neither connected
   nor blocked.  For every state and every action vector of the right length (no bound on sizes). *)
Require Import JV.Base.Prelude JV.Base.JaxIndex JV.Base.Codec JV.Base.TimeStep JV.Model.Connector JV.Proofs.Connector.
Theorem C03_Connector_first c s : first_ok (Z.to_nat (nag c)) (snd (fst (reset_of c s))) = true.
Proof. exact (C03_first c s). Qed.
Theorem C03_Connector_step c s acts : wf c s acts -> step_ok (Z.to_nat (nag c)) false (tsof c s acts) = true.
Proof. exact (C03_step c s acts). Qed.
Theorem C03_Connector_mid_some_agent_not_done c s acts :
  st (tsof c s acts) = MID -> existsb negb (dones c s acts) = true
  /\ discount (tsof c s acts) = map (fun d : bool => 1 - b2z d) (dones c s acts).
Proof. exact (C03_mid_some_agent_alive c s acts). Qed.
Print Assumptions C03_Connector_step.
Print Assumptions C03_Connector_mid_some_agent_not_done.
Example C03_Connector_nonvacuous :
  wf ex_cfg ex_s0 [2; 4] /\ enc_ts (tsof ex_cfg ex_s0 [2; 4]) = [MID; -3; -3; 1; 1]
  /\ enc_ts (snd (fst (reset_of ex_cfg ex_s0))) = [FIRST; 0; 0; 1; 1].
Proof. vm_compute. repeat split; try reflexivity; intro; discriminate. Qed.
