(* C03 FlatPack: reset is FIRST with zero reward / unit discount; every step (any state, any action) is MID with discount 1
   or LAST with discount 0, never FIRST, with a scalar reward *)
Require Import JV.Base.Prelude JV.Base.JaxIndex JV.Base.Codec JV.Base.TimeStep JV.Model.FlatPack JV.Proofs.FlatPack JV.Proofs.FlatPack_Pack.
Theorem C03_FlatPack_reset cf bl : first_ok 1 (snd (init cf bl)) = true.
Proof. exact (init_protocol cf bl). Qed.
Theorem C03_FlatPack_step cf s b k r c :
  let t := snd (step cf s b k r c) in
  (st t = MID /\ discount t = [1] \/ st t = LAST /\ discount t = [0]) /\ length (reward t) = 1%nat /\ st t <> FIRST.
Proof. exact (step_protocol cf s b k r c). Qed.
Print Assumptions C03_FlatPack_step.
Example C03_FlatPack_nonvacuous :
  step_ok 1 false (snd (step (mkC 5 5 4 0) (fst (init (mkC 5 5 4 0) toy_blocks_rot)) 0 2 0 0)) = true.
Proof. vm_compute. reflexivity. Qed.
