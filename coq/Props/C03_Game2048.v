(* C03 Game2048: for EVERY state (well-formed or not, so also after LAST), action and draw the model's step is defined
   (the while loops never exhaust their fuel), returns MID or LAST (never FIRST) with a scalar reward and discount 1 (MID) /
   0 (LAST); reset returns FIRST with reward 0 and discount 1. *)
Require Import JV.Base.Prelude JV.Base.JaxIndex JV.Base.Codec JV.Base.TimeStep JV.Model.Game2048
  JV.Proofs.Game2048_Row JV.Proofs.Game2048_Board JV.Proofs.Game2048.
Theorem C03_Game2048_step n s a idx v :
  exists s' t, step n s a idx v = Some (s', t) /\ step_ok 1 false t = true /\ length (amask s') = 4%nat
               /\ step_count s' = step_count s + 1.
Proof. exact (step_total_protocol n s a idx v). Qed.
Print Assumptions C03_Game2048_step.
Theorem C03_Game2048_reset n idx v :
  exists s t, init n idx v = Some (s, t) /\ first_ok 1 t = true /\ score s = 0 /\ step_count s = 0
              /\ length (amask s) = 4%nat.
Proof. exact (init_total_protocol n idx v). Qed.
Print Assumptions C03_Game2048_reset.
Example C03_Game2048_nonvacuous :
  step 2 ex_stuck 1 0 1 = Some (mkS [[1;2];[2;1]] [false; false; false; false] 8 10, termination 1 [0])
  /\ step_ok 1 false (termination 1 [0]) = true /\ step_ok 1 false (mkTS FIRST [0] [1]) = false.
Proof. split; [exact (proj2 (proj2 ex_stuck_facts))|split; reflexivity]. Qed.
