(* C03 Game2048 over the SOURCE-TRANSLATED step (Gen/Game2048Src.v; see C09_Game2048_Source.v): every step -- any state, any action, any draws --
   returns MID with unit discount or LAST with zero discount, never FIRST, never a truncation. *)
Require Import JV.Base.Prelude JV.Base.JaxIndex JV.Base.Codec JV.Base.TimeStep JV.Gen.TimeStepSrc JV.Gen.Game2048Src JV.Proofs.Game2048_Row JV.Proofs.Game2048_Board JV.Proofs.Game2048 JV.Proofs.Game2048_Src.
Require JV.Model.Game2048.
Theorem C03_Game2048_Source_step_protocol n di dv s a : step_ok 1 false (snd (step n (mv_model n) (cm_model n) di dv s a)) = true.
Proof. exact (src_step_protocol n di dv s a). Qed.
Print Assumptions C03_Game2048_Source_step_protocol.
