(* C03 GraphColoring: reset gives FIRST with reward 0 and discount 1; every step - any state, any action, also after LAST -
   gives MID with discount 1 or LAST with discount 0, never FIRST; LAST exactly when the emitted colouring is complete or
   the colour was masked out. *)
Require Import JV.Base.Prelude JV.Base.JaxIndex JV.Base.Codec JV.Base.TimeStep JV.Model.GraphColoring JV.Proofs.GraphColoring
  JV.Proofs.GraphColoring_rules JV.Proofs.GraphColoring_episode JV.Proofs.GraphColoring_gen.
Theorem C03_GraphColoring_step_protocol n s a : step_ok 1 false (snd (step n s a)) = true.
Proof. exact (C03_step_protocol n s a). Qed.
Theorem C03_GraphColoring_init_protocol n adj0 : first_ok 1 (snd (init n adj0)) = true.
Proof. exact (C03_init_protocol n adj0). Qed.
Theorem C03_GraphColoring_last_iff n s a :
  (st (snd (step n s a)) = LAST <->
   all_colored (colors (fst (step n s a))) = true \/ jget false (amask s) a = false)
  /\ discount (snd (step n s a)) = [if st (snd (step n s a)) =? LAST then 0 else 1].
Proof. exact (C03_last_iff n s a). Qed.
Print Assumptions C03_GraphColoring_step_protocol.
Print Assumptions C03_GraphColoring_last_iff.
Example C03_GraphColoring_nonvacuous :
  let adj0 := gen_adj 3 [[true;true;true];[true;true;true];[false;true;true]] in
  let s1 := fst (step 3 (fst (init 3 adj0)) 0) in
  let s2 := fst (step 3 s1 1) in
  snd (init 3 adj0) = restart 1 /\ snd (step 3 s1 1) = transition 1 [0] /\ snd (step 3 s1 0) = termination 1 [-3]
  /\ snd (step 3 s2 0) = termination 1 [-2]
  /\ snd (step 3 (fst (step 3 s2 0)) 2) = termination 1 [-3].     (* after LAST: still MID/LAST, never FIRST *)
Proof. vm_compute. repeat split; reflexivity. Qed.
