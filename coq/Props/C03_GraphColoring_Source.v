(* C03 GraphColoring over the SOURCE-TRANSLATED step (Gen/GraphColoringSrc.v, regenerated from /repo on every run; see C09_GraphColoring_Source.v): every step -- any
   state, any action, also after LAST -- returns MID with unit discount or LAST with zero discount, never FIRST, never a truncation. *)
Require Import JV.Base.Prelude JV.Base.JaxIndex JV.Base.Codec JV.Base.TimeStep JV.Gen.TimeStepSrc JV.Gen.GraphColoringSrc JV.Proofs.GraphColoring_Src.
Require JV.Model.GraphColoring.
Theorem C03_GraphColoring_Source_step_protocol n s a : zlen (s_colors s) = n -> step_ok 1 false (snd (step n s a)) = true.
Proof. exact (src_step_protocol n s a). Qed.
Print Assumptions C03_GraphColoring_Source_step_protocol.
