(* C03 JobShop: reset gives FIRST (reward 0, discount 1); every step - any state, any action, also after LAST - gives MID with
   discount 1 or LAST with discount 0 (termination, never truncation), never FIRST. *)
Require Import JV.Base.Prelude JV.Base.JaxIndex JV.Base.Codec JV.Base.TimeStep JV.Proofs.TimeStep_laws.
Require Import JV.Model.JobShop JV.Proofs.JobShop_lib JV.Proofs.JobShop_step JV.Proofs.JobShop_sched JV.Proofs.JobShop_episode JV.Proofs.JobShop_gen.
Theorem C03_JobShop_step_protocol c s act : step_ok 1 false (snd (step c s act)) = true.
Proof. exact (step_protocol c s act). Qed.
Theorem C03_JobShop_init_protocol c om od : first_ok 1 (snd (init c om od)) = true.
Proof. exact (init_protocol c om od). Qed.
Print Assumptions C03_JobShop_step_protocol.
Definition toy_s0 := fst (init toy_cfg toy_mach toy_dur).
Definition toy_acts : list (list Z) := [[3;4;0;1];[5;5;5;5];[5;5;1;0];[5;2;5;5];[4;5;5;3];[3;0;5;2];[1;4;0;5];[3;5;5;5]].
Example C03_JobShop_nonvacuous :
  snd (step toy_cfg toy_s0 [3;4;0;1]) = transition 1 [-1] /\ snd (step toy_cfg toy_s0 [5;5;5;5]) = termination 1 [-80]
  /\ snd (step toy_cfg toy_s0 [0;5;5;5]) = termination 1 [-80].
Proof. vm_compute. repeat split; reflexivity. Qed.
