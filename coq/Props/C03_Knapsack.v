(* C03 Knapsack: reset gives FIRST with reward 0 and discount 1; every step (any state, any action, also after LAST) gives
   MID with discount 1 or LAST with discount 0, never FIRST. *)
Require Import JV.Base.Prelude JV.Base.JaxIndex JV.Base.Codec JV.Base.TimeStep JV.Model.Knapsack JV.Proofs.Knapsack.
Theorem C03_Knapsack_step_protocol rnd sparse s a : step_ok 1 false (snd (step_r rnd sparse s a)) = true.
Proof. exact (C03_step_protocol rnd sparse s a). Qed.
Theorem C03_Knapsack_init_protocol n total w v : first_ok 1 (snd (init n total w v)) = true.
Proof. exact (C03_init_protocol n total w v). Qed.
Print Assumptions C03_Knapsack_step_protocol.
Example C03_Knapsack_nonvacuous :
  let s := mkS [512; 800; 100] [1; 2; 3] [false; false; false] 700 in
  snd (step false s 2) = transition 1 [3] /\ snd (step false s 1) = termination 1 [0].
Proof. vm_compute. split; reflexivity. Qed.
