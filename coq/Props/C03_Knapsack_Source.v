(* C03 Knapsack over the SOURCE-TRANSLATED step (Gen/KnapsackSrc.v, regenerated from /repo on every run; see C09_Knapsack_Source.v): every step -- any
   state, any action, also after LAST -- returns MID with unit discount or LAST with zero discount, never FIRST, never a truncation. *)
Require Import JV.Base.Prelude JV.Base.JaxIndex JV.Base.Codec JV.Base.TimeStep JV.Gen.TimeStepSrc JV.Gen.KnapsackSrc JV.Proofs.Knapsack_Src.
Require JV.Model.Knapsack.
Theorem C03_Knapsack_Source_step_protocol rnd sparse s a : step_ok 1 false (snd (step rnd (reward_src sparse) s a)) = true.
Proof. exact (src_step_protocol rnd sparse s a). Qed.
Print Assumptions C03_Knapsack_Source_step_protocol.
