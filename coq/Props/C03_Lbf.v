(* C03 LevelBasedForaging: reset gives FIRST with zero reward and unit discount (one entry per agent); every step gives MID
   (discount 1) or LAST, never FIRST.  LAST has discount 0 when all food is eaten (termination); the ONLY LAST with
   discount 1 is the documented truncation: the step reaching the time limit with uneaten food left. *)
From Coq Require Import QArith.
Require Import JV.Base.Prelude JV.Base.JaxIndex JV.Base.Codec JV.Base.TimeStep JV.Model.Lbf JV.Proofs.Lbf.
Open Scope Z_scope.
Theorem C03_Lbf_first c coop d : first_ok (Z.to_nat (nag c)) (snd (init c coop d)) = true.
Proof. exact (C03_first c coop d). Qed.
(* trunc_ok (the flag allowing a unit discount on LAST) is exactly "this step reaches the time limit" *)
Theorem C03_Lbf_step c s acts :
  zlen (agents s) = nag c -> zlen acts = nag c -> 0 < nag c ->
  step_ok (Z.to_nat (nag c)) (tlim c <=? cnt s + 1) (snd (step c s acts)) = true.
Proof. exact (C03_step c s acts). Qed.
Theorem C03_Lbf_truncation_iff c s acts : 0 < nag c ->
  (st (snd (step c s acts)) = LAST /\ discount (snd (step c s acts)) = repeat 1 (Z.to_nat (nag c)))
  <-> (tlim c <= cnt s + 1 /\ all_eaten (fst (step c s acts)) = false).
Proof. exact (C03_truncation_iff c s acts). Qed.
Theorem C03_Lbf_discount c s acts :
  discount (snd (step c s acts)) = repeat (if all_eaten (fst (step c s acts)) then 0 else 1) (Z.to_nat (nag c)).
Proof. exact (discount_exact c s acts). Qed.
Print Assumptions C03_Lbf_step.
Print Assumptions C03_Lbf_truncation_iff.
Example C03_Lbf_nonvacuous :
  (* MID; truncation at the limit (LAST, discount 1); termination when the last food is eaten (LAST, discount 0) *)
  enc_ts (snd (step ex_cfg ex_s0 [5; 1])) = [MID; 0; 0; 1; 1]
  /\ (let s := mkS (agents ex_s0) (foods ex_s0) 2 in st (snd (step ex_cfg s [0; 0])) = LAST /\ discount (snd (step ex_cfg s [0; 0])) = [1; 1])
  /\ (let s := mkS [mkA 0 1 0 1 false; mkA 1 1 2 2 false] [mkF 0 1 1 2 false; mkF 1 3 3 2 true] 0 in
      st (snd (step ex_cfg s [5; 5])) = LAST /\ discount (snd (step ex_cfg s [5; 5])) = [0; 0]).
Proof. vm_compute. repeat split; reflexivity. Qed.
