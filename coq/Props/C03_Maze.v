(* C03 Maze: every step emits MID or LAST with reward shape 1, discount 1 on MID and 0 on LAST (termination, never
   truncation); reset emits FIRST with reward 0 and discount 1.  For ALL states and ALL integer actions. *)
Require Import JV.Base.Prelude JV.Base.JaxIndex JV.Base.Codec JV.Base.TimeStep JV.Model.MazeGen JV.Model.Maze JV.Proofs.MazeGen JV.Proofs.Maze.
Theorem C03_Maze_step_protocol rows cols T s a : step_ok 1 false (snd (step rows cols T s a)) = true.
Proof. exact (step_protocol rows cols T s a). Qed.
Print Assumptions C03_Maze_step_protocol.
Theorem C03_Maze_reset_protocol rows cols w r c r2 c2 : first_ok 1 (snd (init rows cols w r c r2 c2)) = true.
Proof. exact (init_protocol rows cols w r c r2 c2). Qed.
Example C03_Maze_nonvacuous : st (snd (step 5 5 25 (fst toy_init) 2)) = MID /\ st (snd (step 5 5 1 (fst toy_init) 2)) = LAST.
Proof. vm_compute. split; reflexivity. Qed.
