(* C03 Maze over the SOURCE-TRANSLATED step (Gen/MazeSrc.v, regenerated from /repo on every run; see C09_Maze_Source.v): every step -- any
   state, any action, also after LAST -- returns MID with unit discount or LAST with zero discount, never FIRST, never a truncation. *)
Require Import JV.Base.Prelude JV.Base.JaxIndex JV.Base.Codec JV.Base.TimeStep JV.Gen.TimeStepSrc JV.Gen.MazeSrc JV.Proofs.Maze_Src.
Require JV.Model.Maze.
Theorem C03_Maze_Source_step_protocol rows cols T s a : step_ok 1 false (snd (step rows cols T s a)) = true.
Proof. exact (src_step_protocol rows cols T s a). Qed.
Print Assumptions C03_Maze_Source_step_protocol.
