(* C03 Minesweeper: reset gives FIRST with zero reward and unit discount; every step -- any state, any action, also after
   LAST -- gives MID with discount 1 or LAST with discount 0 (termination, never truncation). *)
Require Import JV.Base.Prelude JV.Base.JaxIndex JV.Base.Codec JV.Base.TimeStep JV.Model.Minesweeper.
Require Import JV.Proofs.Minesweeper_lists JV.Proofs.Minesweeper_count JV.Proofs.Minesweeper.
Theorem C03_Minesweeper_step_protocol rc rows cols s r c : step_ok 1 false (snd (step rc rows cols s r c)) = true.
Proof. exact (step_protocol rc rows cols s r c). Qed.
Print Assumptions C03_Minesweeper_step_protocol.
Theorem C03_Minesweeper_reset_protocol rows cols locs : first_ok 1 (snd (init rows cols locs)) = true.
Proof. exact (init_protocol rows cols locs). Qed.
Print Assumptions C03_Minesweeper_reset_protocol.
Example C03_Minesweeper_nonvacuous :
  st (snd (step default_rcfg 2 3 ex_s0 0 0)) = MID /\ discount (snd (step default_rcfg 2 3 ex_s0 0 0)) = [1]
  /\ st (snd (step default_rcfg 2 3 ex_s0 0 1)) = LAST /\ discount (snd (step default_rcfg 2 3 ex_s0 0 1)) = [0].
Proof. vm_compute. repeat split; reflexivity. Qed.
