(* C03 Minesweeper over the SOURCE-TRANSLATED step (Gen/MinesweeperSrc.v, regenerated from /repo on every run; see C09_Minesweeper_Source.v):
   every step -- any board of the declared shape, any action (in range or not), also after LAST -- returns MID with unit discount or LAST
   with zero discount, never FIRST, never a truncation. *)
Require Import JV.Base.Prelude JV.Base.JaxIndex JV.Base.Codec JV.Base.TimeStep JV.Gen.TimeStepSrc JV.Gen.MinesweeperSrc JV.Proofs.Minesweeper_lists JV.Proofs.Minesweeper_count JV.Proofs.Minesweeper JV.Proofs.Minesweeper_Src.
Require JV.Model.Minesweeper.
Theorem C03_Minesweeper_Source_step_protocol rows cols nm re rm ri s a : shaped rows cols (s_board s) -> 0 < rows ->
  step_ok 1 false (snd (step nm (DefaultRewardFn_call re rm ri) DefaultDoneFn_call s a)) = true.
Proof. exact (src_step_protocol rows cols nm re rm ri s a). Qed.
Print Assumptions C03_Minesweeper_Source_step_protocol.
