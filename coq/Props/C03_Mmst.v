(* C03 MMST: reset gives FIRST with reward 0 / discount 1; every step gives MID with discount 1 or LAST with discount 0 *)
Require Import JV.Base.Prelude JV.Base.JaxIndex JV.Base.Codec JV.Base.TimeStep JV.Model.Mmst JV.Proofs.Mmst_lib JV.Proofs.Mmst JV.Proofs.Mmst_Episode JV.Proofs.Mmst_Obs JV.Proofs.Mmst_Gen JV.Proofs.Mmst_Examples.
Theorem C03_Mmst_step_protocol c s acts perm :
  let t := snd (step c s acts perm) in
  (st t = MID /\ discount t = [1] \/ st t = LAST /\ discount t = [0]) /\ length (reward t) = 1%nat.
Proof. exact (step_protocol c s acts perm). Qed.
Print Assumptions C03_Mmst_step_protocol.
Theorem C03_Mmst_reset_protocol c base adj0 comps :
  let t := snd (init c base adj0 comps) in st t = FIRST /\ reward t = [0] /\ discount t = [1] /\ sc (fst (init c base adj0 comps)) = 0.
Proof. exact (init_protocol c base adj0 comps). Qed.
Example C03_Mmst_nonvacuous :
  let run4 := run ex_cfg ex_s0 [([0;5],[0;1]); ([0;5],[0;1]); ([0;5],[0;1])] in
  sc run4 = 3 /\ st (snd (step ex_cfg run4 [0; 5] [0; 1])) = LAST
  /\ st (snd (step ex_cfg (run ex_cfg ex_s0 [([0;5],[0;1]); ([0;5],[0;1])]) [0; 5] [0; 1])) = MID.
Proof. exact ex_time_limit. Qed.
