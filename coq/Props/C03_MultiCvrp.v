(* C03 MultiCVRP: reset gives FIRST with reward 0 / discount 1; every step gives MID (discount 1) or LAST (discount 0, a
   termination - also at the step limit), scalar reward and discount. *)
Require Import JV.Base.Prelude JV.Base.JaxIndex JV.Base.Codec JV.Base.TimeStep JV.Model.MultiCvrp JV.Proofs.MultiCvrp JV.Proofs.MultiCvrp_Episode.
Theorem C03_MultiCvrp_step rnd sp n mc dist s acts : step_ok 1 false (snd (step_r rnd sp n mc dist s acts)) = true.
Proof. exact (C03_step_protocol rnd sp n mc dist s acts). Qed.
Theorem C03_MultiCvrp_reset rnd n V mc maxd wl r ws ce cl : first_ok 1 (snd (init_r rnd n V mc maxd wl r ws ce cl)) = true.
Proof. exact (C03_init_protocol rnd n V mc maxd wl r ws ce cl). Qed.
Print Assumptions C03_MultiCvrp_step.
Example C03_MultiCvrp_nonvacuous :
  snd (step false 3 4 dlin (st0 [0; 2; 3; 2] 2 4 3) [2; 1]) = mkTS MID [- (30 * cs)] [1]
  /\ discount (snd (step false 0 4 dlin (st0 [0; 2; 3; 2] 2 4 3) [2; 1])) = [0].
Proof. vm_compute. repeat split; reflexivity. Qed.
