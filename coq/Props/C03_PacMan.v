(* C03 PacMan: every step emits MID or LAST with reward shape 1, discount 1 on MID and 0 on LAST (termination, never
   truncation); reset emits FIRST with reward 0 and discount 1.  For ALL states, ALL integer actions and ALL ghost draws
   (hence also for steps taken after a LAST). *)
Require Import JV.Base.Prelude JV.Base.JaxIndex JV.Base.Codec JV.Base.TimeStep JV.Gen.PacManConsts JV.Model.PacMan JV.Proofs.PacMan JV.Proofs.PacMan_Inv JV.Proofs.PacMan_Rules.
Theorem C03_PacMan_step_protocol xs ys T s a d : step_ok 1 false (snd (step xs ys T s a d)) = true.
Proof. exact (step_protocol xs ys T s a d). Qed.
Print Assumptions C03_PacMan_step_protocol.
Theorem C03_PacMan_reset_protocol maze : first_ok 1 (snd (init maze)) = true.
Proof. exact (init_protocol maze). Qed.
Example C03_PacMan_nonvacuous :
  let s0 := gen_state DEFAULT_MAZE_ASCII in
  st (snd (step 31 28 7 s0 1 [4; 4; 4; 4])) = MID /\ st (snd (step 31 28 1 s0 1 [4; 4; 4; 4])) = LAST.
Proof. vm_compute. split; reflexivity. Qed.
