(* C03 RobotWarehouse: reset gives FIRST with zero reward and unit discount; every step gives MID (discount 1) or LAST
   (discount 0, a termination: agent collision or time limit), never FIRST -- for every state, joint action and draws. *)
Require Import JV.Base.Prelude JV.Base.JaxIndex JV.Base.Codec JV.Base.TimeStep JV.Model.RobotWarehouse JV.Proofs.RobotWarehouse_lib JV.Proofs.RobotWarehouse JV.Proofs.RobotWarehouse_Step JV.Proofs.RobotWarehouse_Check.
Theorem C03_RobotWarehouse_first c cells dirs q : first_ok 1 (snd (init c cells dirs q)) = true.
Proof. exact (init_first c cells dirs q). Qed.
Theorem C03_RobotWarehouse_step c s acts draws : step_ok 1 false (snd (step c s acts draws)) = true.
Proof. exact (step_protocol c s acts draws). Qed.
Print Assumptions C03_RobotWarehouse_step.
Example C03_RobotWarehouse_nonvacuous :
  enc_ts (snd (step ex_c ex_s0 [TOGGLE; NOOP] [0; 0])) = [MID; 0; 1]
  (* agent 1 walks into agent 0: collision, LAST with discount 0 *)
  /\ enc_ts (snd (step ex_c ex_s0 [NOOP; FORWARD] [0; 0])) = [LAST; 0; 0].
Proof. vm_compute. split; reflexivity. Qed.
