(* C03 RubiksCube: reset emits FIRST with reward 0 and discount 1; every step emits MID (discount 1) or LAST
   (discount 0), never FIRST (the protocol predicates are those of Base/TimeStep.v). *)
Require Import JV.Base.Prelude JV.Base.JaxIndex JV.Base.Codec JV.Base.TimeStep JV.Gen.RubikTables JV.Model.RubiksCube.
Require Import JV.Proofs.RubiksCube_Lists JV.Proofs.RubiksCube_Cube JV.Proofs.RubiksCube_Action JV.Proofs.RubiksCube_Group JV.Proofs.RubiksCube_Env.
From Coq Require Import Permutation.
Theorem C03_RubiksCube_step n T s a : step_ok 1 false (snd (step n T s a)) = true.
Proof. exact (step_protocol n T s a). Qed.
Theorem C03_RubiksCube_reset n acts : first_ok 1 (snd (init n acts)) = true.
Proof. exact (init_protocol n acts). Qed.
Print Assumptions C03_RubiksCube_step.
Example C03_RubiksCube_nonvacuous : st (snd (init 3 [1])) = FIRST /\ st (snd (step 3 9 (fst (init 3 [1])) (1, 0, 0))) = MID /\ st (snd (step 3 1 (fst (init 3 [1])) (0, 0, 0))) = LAST.
Proof. vm_compute. auto. Qed.
