(* C03 SlidingTile: reset gives FIRST with zero reward and unit discount; step gives MID with discount 1 or LAST with discount 0,
   never FIRST -- for every state (also after a LAST), every action, every configuration. *)
Require Import JV.Base.Prelude JV.Base.JaxIndex JV.Base.Codec JV.Base.TimeStep JV.Model.SlidingTile JV.Proofs.SlidingTile JV.Proofs.SlidingTile_Episode.
From Coq Require Import Permutation.
Theorem C03_SlidingTile_reset_first n s0 : first_ok 1 (snd (fst (reset n s0))) = true /\ fst (fst (reset n s0)) = s0.
Proof. exact (reset_first n s0). Qed.
Theorem C03_SlidingTile_step_protocol n T rw s a :
  step_ok 1 false (ts_of n T rw s a) = true
  /\ (st (ts_of n T rw s a) = MID /\ discount (ts_of n T rw s a) = [1] \/ st (ts_of n T rw s a) = LAST /\ discount (ts_of n T rw s a) = [0]).
Proof. exact (step_protocol n T rw s a). Qed.
Print Assumptions C03_SlidingTile_step_protocol.
Example C03_SlidingTile_nonvacuous :
  let s0 := gen_state 3 [0; 3; 0] [7; 9] in
  snd (fst (reset 3 s0)) = mkTS FIRST [0] [1] /\ ts_of 3 5 0 s0 2 = mkTS MID [1] [1]
  /\ ts_of 3 1 0 s0 2 = mkTS LAST [1] [0] /\ ts_of 3 1 0 (nxt 3 1 0 s0 2) 0 = mkTS LAST [-1] [0].
Proof. vm_compute. repeat split; reflexivity. Qed.
