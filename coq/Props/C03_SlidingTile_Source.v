(* C03 SlidingTilePuzzle over the SOURCE-TRANSLATED step (Gen/SlidingTileSrc.v, regenerated from /repo on every run; see
   C09_SlidingTile_Source.v): every step on a well-formed board returns MID with unit discount or LAST with zero discount, never FIRST. *)
Require Import JV.Base.Prelude JV.Base.JaxIndex JV.Base.Codec JV.Base.TimeStep JV.Gen.TimeStepSrc JV.Gen.SlidingTileSrc.
Require Import JV.Proofs.SlidingTile JV.Proofs.SlidingTile_Src.
Require JV.Model.SlidingTile.
Theorem C03_SlidingTile_Source_step_protocol n T rw (key : list Z) s a :
  wf n (s_puzzle s) -> JV.Model.SlidingTile.in_grid n (s_empty_tile_position s) = true -> wf n (JV.Model.SlidingTile.goal n) ->
  step_ok 1 false (snd (step n T (JV.Model.SlidingTile.goal n) (reward_src rw) s a)) = true.
Proof. exact (src_step_protocol n T rw key s a). Qed.
Print Assumptions C03_SlidingTile_Source_step_protocol.
