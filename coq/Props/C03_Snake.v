(* C03 Snake: reset gives FIRST with reward 0 and discount 1; EVERY step (any state, any action, also after LAST)
   gives MID with discount 1 or LAST with discount 0 (the verified protocol predicates of Base/TimeStep). *)
Require Import JV.Base.Prelude JV.Base.JaxIndex JV.Base.Codec JV.Base.TimeStep JV.Model.Snake JV.Proofs.Snake JV.Proofs.Snake_rules JV.Proofs.Snake_examples.
Theorem C03_Snake_reset R C hd fr : first_ok 1 (snd (init R C hd fr)) = true.
Proof. exact (protocol_reset R C hd fr). Qed.
Theorem C03_Snake_step R C T s a d : step_ok 1 false (snd (step R C T s a d)) = true.
Proof. exact (protocol_step R C T s a d). Qed.
Print Assumptions C03_Snake_step.
Example C03_Snake_nonvacuous :
  snd (step 3 3 9 e0 1 (1, 2)) = transition 1 [1] /\ snd (step 3 3 9 e2 1 (0, 0)) = termination 1 [0].
Proof. exact (conj (proj1 (proj2 (proj2 ex_steps))) (proj1 (proj2 ex_illegal))). Qed.
