(* C03 Snake over the SOURCE-TRANSLATED step (Gen/SnakeSrc.v, regenerated from /repo on every run; see C09_Snake_Source.v): every step -- any
   state, any action, also after LAST -- returns MID with unit discount or LAST with zero discount, never FIRST, never a truncation. *)
Require Import JV.Base.Prelude JV.Base.JaxIndex JV.Base.Codec JV.Base.TimeStep JV.Gen.TimeStepSrc JV.Gen.SnakeSrc JV.Proofs.Snake_Src.
Require JV.Model.Snake.
Theorem C03_Snake_Source_step_protocol R C T (draw : list (list bool) -> Z * Z) s a : step_ok 1 false (snd (step R C T draw s a)) = true.
Proof. exact (src_step_protocol R C T draw s a). Qed.
Print Assumptions C03_Snake_Source_step_protocol.
