(* C03 Sokoban: every step emits MID or LAST with reward shape 1, discount 1 on MID and 0 on LAST (termination, never
   truncation); reset emits FIRST with reward 0 and discount 1.  For ALL states, ALL integer actions, both reward fns. *)
Require Import JV.Base.Prelude JV.Base.JaxIndex JV.Base.Codec JV.Base.TimeStep JV.Model.Sokoban JV.Proofs.Sokoban_Grid JV.Proofs.Sokoban JV.Proofs.Sokoban_Levels.
Theorem C03_Sokoban_step_protocol G T dense s a : step_ok 1 false (snd (step G T dense s a)) = true.
Proof. exact (step_protocol G T dense s a). Qed.
Print Assumptions C03_Sokoban_step_protocol.
Theorem C03_Sokoban_reset_protocol lv : first_ok 1 (snd (gen_level lv)) = true.
Proof. exact (gen_protocol lv). Qed.
Example C03_Sokoban_nonvacuous :
  st (snd (step 10 120 true (fst gen_simple) 0)) = MID /\ st (snd (step 10 1 true (fst gen_simple) 0)) = LAST
  /\ st (snd (gen_toy 0)) = FIRST.
Proof. vm_compute. repeat split; reflexivity. Qed.
