(* C03 Sokoban over the SOURCE-TRANSLATED step (Gen/SokobanSrc.v, regenerated from /repo on every run; see C09_Sokoban_Source.v): every step -- any
   state, any action, also after LAST -- returns MID with unit discount or LAST with zero discount, never FIRST, never a truncation. *)
Require Import JV.Base.Prelude JV.Base.JaxIndex JV.Base.Codec JV.Base.TimeStep JV.Gen.TimeStepSrc JV.Gen.SokobanSrc JV.Proofs.Sokoban_Src.
Require JV.Model.Sokoban.
Theorem C03_Sokoban_Source_step_protocol T dense s a : step_ok 1 false (snd (step T (reward_src dense) s a)) = true.
Proof. exact (src_step_protocol T dense s a). Qed.
Print Assumptions C03_Sokoban_Source_step_protocol.
