(* C03 over jumanji/types.py AS TRANSLATED FROM /repo's CURRENT SOURCE on every run (Gen/TimeStepSrc.v, from the `ast` of StepType,
   TimeStep.first/mid/last, restart, transition, termination, truncation): the translated constructors ARE the model constructors every
   environment model builds its timesteps from, and they satisfy the protocol checkers, for every shape and reward. *)
Require Import JV.Base.Prelude JV.Base.Codec JV.Base.TimeStep JV.Proofs.TimeStep_laws JV.Gen.TimeStepSrc.

Theorem C03_Source_constructors_are_model k r d :
  (StepType_FIRST, StepType_MID, StepType_LAST) = (FIRST, MID, LAST)
  /\ restart_src k = restart k
  /\ transition_src k r None = transition k r /\ transition_src k r (Some d) = transition_d r d
  /\ termination_src k r = termination k r
  /\ truncation_src k r None = truncation k r /\ truncation_src k r (Some d) = truncation_d r d.
Proof. repeat split; reflexivity. Qed.
Print Assumptions C03_Source_constructors_are_model.
Theorem C03_Source_step_type_tests ty :
  TimeStep_first ty = (ty =? FIRST) /\ TimeStep_mid ty = (ty =? MID) /\ TimeStep_last ty = (ty =? LAST).
Proof. repeat split; reflexivity. Qed.
Theorem C03_Source_restart k : first_ok k (restart_src k) = true.
Proof. exact (restart_first_ok k). Qed.
Theorem C03_Source_transition k r tr : (0 < k)%nat -> length r = k -> step_ok k tr (transition_src k r None) = true.
Proof. exact (transition_step_ok k r tr). Qed.
Theorem C03_Source_termination k r tr : length r = k -> step_ok k tr (termination_src k r) = true.
Proof. exact (termination_step_ok k r tr). Qed.
Theorem C03_Source_truncation_only_where_documented k r :
  (length r = k -> step_ok k true (truncation_src k r None) = true) /\ ((0 < k)%nat -> step_ok k false (truncation_src k r None) = false).
Proof. exact (conj (truncation_step_ok k r) (truncation_undocumented_rejected k r)). Qed.
Print Assumptions C03_Source_truncation_only_where_documented.
Example C03_Source_nonvacuous :
  termination_src 2 [5; 6] = mkTS 2 [5; 6] [0; 0] /\ truncation_src 1 [5] None = mkTS 2 [5] [1] /\ TimeStep_last 2 = true /\ TimeStep_last 1 = false.
Proof. vm_compute. repeat split; reflexivity. Qed.
