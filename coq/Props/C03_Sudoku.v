(* C03 Sudoku: reset gives FIRST with reward 0 and discount 1; every step (any state, any action) gives MID with discount 1 or
   LAST with discount 0, never FIRST.                                                                                      *)
Require Import JV.Base.Prelude JV.Base.JaxIndex JV.Base.Codec JV.Base.TimeStep JV.Model.Sudoku JV.Proofs.Sudoku.
Theorem C03_Sudoku_step_protocol s r c d : step_ok 1 false (snd (step s r c d)) = true.
Proof. exact (step_protocol s r c d). Qed.
Theorem C03_Sudoku_reset_protocol p : first_ok 1 (snd (init p)) = true.
Proof. exact (init_protocol p). Qed.
Print Assumptions C03_Sudoku_step_protocol.
Example C03_Sudoku_nonvacuous :
  st (snd (step (fst (init sample_puzzle)) 0 0 1)) = MID /\ st (snd (step (fst (init sample_puzzle)) 0 0 7)) = LAST.
Proof. vm_compute. repeat split. Qed.
