(* C03 TSP: reset gives FIRST with reward 0 and discount 1; every step (any state, any action, any oracle, also after LAST)
   gives MID with discount 1 or LAST with discount 0, never FIRST. *)
Require Import JV.Base.Prelude JV.Base.JaxIndex JV.Base.Codec JV.Base.TimeStep JV.Model.TSP JV.Proofs.TSP_lists JV.Proofs.TSP.
Theorem C03_TSP_step_protocol rnd sparse n pen dist s a : step_ok 1 false (snd (step_r rnd sparse n pen dist s a)) = true.
Proof. exact (C03_step_protocol rnd sparse n pen dist s a). Qed.
Theorem C03_TSP_init_protocol n c : first_ok 1 (snd (init n c)) = true.
Proof. exact (C03_init_protocol n c). Qed.
Print Assumptions C03_TSP_step_protocol.
Example C03_TSP_nonvacuous :
  let s1 := fst (step false 3 99 (fun _ _ => 1) (fst (init 3 [0; 5; 16; 2; 7; 7])) 2) in
  snd (step false 3 99 (fun _ _ => 1) s1 0) = transition 1 [-1] /\ snd (step false 3 99 (fun _ _ => 1) s1 2) = termination 1 [-99].
Proof. vm_compute. split; reflexivity. Qed.
