(* C03 TSP over the SOURCE-TRANSLATED step (Gen/TspSrc.v, regenerated from /repo on every run; see C09_TSP_Source.v): every step -- any
   state, any action, also after LAST -- returns MID with unit discount or LAST with zero discount, never FIRST, never a truncation. *)
Require Import JV.Base.Prelude JV.Base.JaxIndex JV.Base.Codec JV.Base.TimeStep JV.Gen.TimeStepSrc JV.Gen.TspSrc.
Require Import JV.Proofs.TSP_lists JV.Proofs.TSP JV.Proofs.Tsp_Src.
Require JV.Model.TSP.
Theorem C03_TSP_Source_step_protocol rnd sparse n pen dist s a : step_ok 1 false (snd (step n (reward_model rnd sparse n pen dist) s a)) = true.
Proof. exact (src_step_protocol rnd sparse n pen dist s a). Qed.
Print Assumptions C03_TSP_Source_step_protocol.
