(* C03 Tetris: reset emits FIRST (reward 0, discount 1); every step emits MID with discount 1 or LAST with discount 0. *)
Require Import JV.Base.Prelude JV.Base.JaxIndex JV.Base.Codec JV.Base.TimeStep JV.Gen.TetrisConsts JV.Model.Tetris.
Require Import JV.Proofs.Tetris JV.Proofs.Tetris_place JV.Proofs.Tetris_clear JV.Proofs.Tetris_phys JV.Proofs.Tetris_step.
Theorem C03_Tetris_protocol nr nc tl s rot x d :
  Shape nr nc (grid s) -> 1 <= nr -> 1 <= nc ->
  let '(s', ts, _) := step nr nc tl s rot x d in
  step_count s' = step_count s + 1
  /\ (st ts = LAST <-> (mask_any (amask s') = false \/ gget false (amask s) rot x = false \/ tl <= step_count s'))
  /\ (st ts = MID \/ st ts = LAST)
  /\ discount ts = [if st ts =? LAST then 0 else 1]
  /\ reward ts = [rew s'] /\ score s' = score s + rew s'
  /\ rew s' = jget 0 REWARD_LIST (lines nr nc s rot x) * b2z (gget false (amask s) rot x).
Proof. exact (step_type_cases nr nc tl s rot x d). Qed.
Print Assumptions C03_Tetris_protocol.
Theorem C03_Tetris_reset_first nr nc d : snd (fst (init nr nc d)) = restart 1.
Proof. reflexivity. Qed.
Print Assumptions C03_Tetris_reset_first.
Example C03_Tetris_nonvacuous :
  first_ok 1 (snd (fst (init 4 4 0))) = true /\ step_ok 1 false (snd (fst (step 4 4 9 ex_s0 1 0 3))) = true
  /\ st (snd (fst (step 4 4 9 ex_s0 1 0 3))) = MID /\ st (snd (fst (step 4 4 9 ex_s0 1 1 3))) = LAST.
Proof. vm_compute. repeat split; reflexivity. Qed.
