(* C04 BinPack: mask[e, i] is true exactly when (e, i) is legal: the EMS the agent SEES at position e (buffer slot
   sorted_ems_indexes[e]) is active, item i is real and not placed yet, and it fits in that EMS - for every in-spec pair, in every
   state whose stored mask/order are current (reset and every step establish this: C01_BinPack_step_consistent).
   The environment's own reaction agrees: step treats the action as valid iff it is legal, and a legal action places the item. *)
Require Import JV.Base.Prelude JV.Base.JaxIndex JV.Base.Codec JV.Base.TimeStep JV.Model.BinPack JV.Proofs.BinPack_lib JV.Proofs.BinPack JV.Proofs.BinPack_obs.
(* a concrete instance: container 4x2x2, two items 2x2x2 and one 3x2x2, buffer of 4 EMSs, 2 observed *)
Definition ex_c := make_container 4 2 2.
Definition ex_items := [mkIt 2 2 2; mkIt 2 2 2; mkIt 3 2 2].
Definition ex_s0 := fst (init 2 ex_c 4 ex_items [true; true; true]).
Definition ex_s1 := fst (step 2 false ex_s0 0 0).
Definition ex_s2 := fst (step 2 false ex_s1 0 1).
Theorem C04_BinPack_mask_iff_legal n m obs s e i :
  shape n m s -> consistent obs s -> 0 <= e < obs -> obs <= m -> 0 <= i < n ->
  (gget false (action_mask s) e i = true <-> legal s e i).
Proof. exact (mask_iff_legal n m obs s e i). Qed.
Theorem C04_BinPack_reaction n m obs s a0 a1 :
  shape n m s -> consistent obs s -> obs <= m -> inspec obs n a0 a1 -> step_valid s a0 a1 = legal_b s a0 a1.
Proof. exact (valid_legal n m obs s a0 a1). Qed.
Theorem C04_BinPack_legal_is_placed n m obs s a0 a1 :
  shape n m s -> consistent obs s -> obs <= m -> inspec obs n a0 a1 -> step_valid s a0 a1 = true ->
  let s' := step_state obs s a0 a1 in
  count_placed s' = count_placed s + 1 /\ pvol s' = pvol s + ivol (item_at s a1) /\ placed_at s' a1 = true.
Proof. exact (valid_step_counts n m obs s a0 a1). Qed.
Print Assumptions C04_BinPack_mask_iff_legal.
Example C04_BinPack_nonvacuous :
  shape_b 3 4 ex_s1 = true /\ action_mask ex_s1 = [[false; true; false]; [false; false; false]]
  /\ map (fun e => map (legal_b ex_s1 e) [0; 1; 2]) [0; 1] = action_mask ex_s1 /\ sorted_idx ex_s1 = [0; 1; 2; 3].
Proof. vm_compute. repeat split; reflexivity. Qed.
