(* C04 CVRP: for every well-shaped state and EVERY node of the action space the mask entry is True exactly when the rules allow
   the node: the depot iff the vehicle is not at the depot; a customer iff it is unserved and its demand is <= the remaining
   capacity (== included).  On states where the depot flag mirrors the position (wf0: part of the invariant of every reachable
   state) the mask entry equals the environment's own validity test: a masked-in node is never refused, no accepted node hidden. *)
Require Import JV.Base.Prelude JV.Base.JaxIndex JV.Base.Codec JV.Base.TimeStep JV.Model.CVRP JV.Proofs.CVRP.
Theorem C04_CVRP_mask_iff_legal n s a : shape n s -> 0 <= a <= n -> (jget false (mask s) a = true <-> legal n s a).
Proof. exact (C04_mask_iff_legal n s a). Qed.
Print Assumptions C04_CVRP_mask_iff_legal.
Theorem C04_CVRP_mask_iff_accepts n s a : shape n s -> wf0 s -> 0 <= a <= n -> jget false (mask s) a = valid s a.
Proof. exact (C04_mask_iff_accepts n s a). Qed.
Theorem C04_CVRP_reachable_wf0 n mc s h : Inv n mc s h -> shape n s /\ wf0 s.
Proof. exact (inv_shape n mc s h). Qed.
Theorem C04_CVRP_legal_b n s a : legal_b n s a = true <-> legal n s a.
Proof. exact (legal_b_spec n s a). Qed.
Print Assumptions C04_CVRP_mask_iff_accepts.
(* boundary: demand 2 == capacity 2 is masked in, demand 3 is masked out, a served customer is masked out, depot allowed away from it *)
Example C04_CVRP_nonvacuous :
  let s := mkS [0; 2; 3; 1] 3 2 [false; false; false; true] [0; 3; 0; 0; 0; 0] 2 in
  shape 3 s /\ wf0 s /\ mask s = [true; true; false; false] /\ legal 3 s 1 /\ ~ legal 3 s 2 /\ ~ legal 3 s 3 /\ legal 3 s 0.
Proof.
  cbv zeta. split; [split; reflexivity|]. split; [repeat split; vm_compute; congruence|]. split; [reflexivity|].
  rewrite <- !C04_CVRP_legal_b. vm_compute. repeat split; congruence.
Qed.
