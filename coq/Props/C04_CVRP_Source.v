(* C04 CVRP over the SOURCE-TRANSLATED observation (Gen/CvrpSrc.v; see C09_CVRP_Source.v): the mask entry of node a is True exactly when
   the rules allow it (customer: unvisited and demand within the remaining capacity; depot: not already there). *)
Require Import JV.Base.Prelude JV.Base.JaxIndex JV.Base.Codec JV.Base.TimeStep JV.Gen.TimeStepSrc JV.Gen.CvrpSrc JV.Proofs.CVRP JV.Proofs.Cvrp_Src.
Require JV.Model.CVRP.
Theorem C04_CVRP_Source_mask_iff_legal n mc s a : shape n (conv s) -> 0 <= a <= n ->
  (jget false (o_action_mask (state_to_observation mc s)) a = true <-> JV.Model.CVRP.legal n (conv s) a).
Proof. exact (src_mask_iff_legal n mc s a). Qed.
Print Assumptions C04_CVRP_Source_mask_iff_legal.
