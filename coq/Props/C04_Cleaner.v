(* C04 Cleaner: for every state satisfying the invariant (rows x cols of ANY size, non-square included, any number of
   agents), every agent i and every action a of the action space, the stored mask entry is True exactly when the
   target cell is on the grid and is not a wall.  Inv holds after reset (C10_Cleaner) and after every step (C07_Cleaner). *)
Require Import JV.Base.Prelude JV.Base.JaxIndex JV.Base.Codec JV.Base.TimeStep JV.Model.Cleaner JV.Proofs.Cleaner.
Theorem C04_Cleaner_mask_iff_legal c s i a :
  Inv c s -> 0 <= i < nag c -> 0 <= a < 4 ->
  (jget false (znth [] (amask s) i) a = true <-> legal (rows c) (cols c) (grid s) (znth (0, 0) (locs s) i) a).
Proof. exact (C04_mask_iff_legal c s i a). Qed.
Print Assumptions C04_Cleaner_mask_iff_legal.
(* table form = the boolean checker the harness runs on implementation states *)
Theorem C04_Cleaner_mask_table c s : Inv c s -> mask_exact_b c s = true.
Proof. exact (C04_mask_table c s). Qed.
Theorem C04_Cleaner_checker R C g loc a : legal_b R C g loc a = true <-> legal R C g loc a.
Proof. exact (legal_b_spec R C g loc a). Qed.
(* the environment's own reaction: a joint in-spec action gives MID exactly when every agent's action is legal,
   a dirty tile remains and the limit is not reached; so masked-in play is never treated as invalid *)
Theorem C04_Cleaner_reaction c s acts :
  Inv c s -> zlen acts = nag c -> in_spec acts ->
  (st (snd (step c s acts)) = MID <->
   (forall i, 0 <= i < nag c -> legal (rows c) (cols c) (grid s) (znth (0, 0) (locs s) i) (znth 0 acts i))
   /\ any_dirty (grid (fst (step c s acts))) = true /\ cnt s + 1 < tlim c).
Proof. exact (C04_reaction c s acts). Qed.
Print Assumptions C04_Cleaner_reaction.
Example C04_Cleaner_nonvacuous :
  Inv_b ex_cfg ex_s0 = true
  /\ amask ex_s0 = [[false; true; false; false]; [false; true; false; false]]
  /\ connected_b 2 3 (grid ex_s0) = true
  /\ (let r := step ex_cfg ex_s0 [1; 1] in
      st (snd r) = MID /\ reward (snd r) = [4 * 1 - 2] /\ grid (fst r) = [[1; 1; 0]; [2; 2; 0]]
      /\ locs (fst r) = [(0, 1); (0, 1)] /\ Inv_b ex_cfg (fst r) = true)
  /\ (let r := step ex_cfg ex_s0 [1; 2] in
      st (snd r) = LAST /\ reward (snd r) = [4 * 1 - 2] /\ locs (fst r) = [(0, 1); (0, 0)]
      /\ Inv_b ex_cfg (fst r) = true)
  /\ (let r := step ex_cfg ex_s0 [0; 3] in
      st (snd r) = LAST /\ reward (snd r) = [- 2] /\ grid (fst r) = grid ex_s0 /\ locs (fst r) = locs ex_s0)
  /\ step ex_cfg ex_s0 [1; 2] = ref_step ex_cfg ex_s0 [1; 2].
Proof. exact nonvacuous. Qed.
(* LATENT finding (outside the shipped configurations): Cleaner.reset computes the mask for agents at (0,0) instead of
   the positions returned by the generator; with a user-written Generator subclass whose agents start elsewhere the
   reset mask is not the set of legal moves.  RandomGenerator (the only shipped one) always starts at (0,0). *)
Theorem C04_Cleaner_reset_custom_generator_refuted :
  exists c g ls, Physical_b c (fst (reset_of c g ls)) = true /\ mask_exact_b c (fst (reset_of c g ls)) = false
    /\ amask (fst (reset_of c g ls)) = [[false; false; true; false]]
    /\ map (legal_b (rows c) (cols c) g (1, 1)) (zrange 4) = [false; true; true; true].
Proof. exact reset_custom_generator_refuted. Qed.
Print Assumptions C04_Cleaner_reset_custom_generator_refuted.
