(* C04 Cleaner: for every state satisfying the invariant (rows x cols of ANY size, non-square included, any number of
   agents), every agent i and every action a of the action space, the stored mask entry is True exactly when the
   target cell is on the grid and is not a wall.  Inv holds after reset (C10_Cleaner) and after every step (C07_Cleaner). *)
Require Import JV.Base.Prelude JV.Base.JaxIndex JV.Base.Codec JV.Base.TimeStep JV.Model.Cleaner JV.Proofs.Cleaner.
Theorem C04_Cleaner_mask_iff_legal c s i a :
  Inv c s -> 0 <= i < nag c -> 0 <= a < 4 ->
  (jget false (znth [] (amask s) i) a = true <-> legal (rows c) (cols c) (grid s) (znth (0, 0) (locs s) i) a).
Proof. exact (C04_mask_iff_legal c s i a). Qed.
Print Assumptions C04_Cleaner_mask_iff_legal.
(* table form = the boolean checker the harness runs on implementation states *)
Theorem C04_Cleaner_mask_table c s : Inv c s -> mask_exact_b c s = true.
Proof. exact (C04_mask_table c s). Qed.
Theorem C04_Cleaner_checker R C g loc a : legal_b R C g loc a = true <-> legal R C g loc a.
Proof. exact (legal_b_spec R C g loc a). Qed.
(* the environment's own reaction: a joint in-spec action gives MID exactly when every agent's action is legal,
   a dirty tile remains and the limit is not reached; so masked-in play is never treated as invalid *)
Theorem C04_Cleaner_reaction c s acts :
  Inv c s -> zlen acts = nag c -> in_spec acts ->
  (st (snd (step c s acts)) = MID <->
   (forall i, 0 <= i < nag c -> legal (rows c) (cols c) (grid s) (znth (0, 0) (locs s) i) (znth 0 acts i))
   /\ any_dirty (grid (fst (step c s acts))) = true /\ cnt s + 1 < tlim c).
Proof. exact (C04_reaction c s acts). Qed.
Print Assumptions C04_Cleaner_reaction.
Example C04_Cleaner_nonvacuous :
  Inv_b ex_cfg ex_s0 = true
  /\ amask ex_s0 = [[false; true; false; false]; [false; true; false; false]]
  /\ connected_b 2 3 (grid ex_s0) = true
  /\ (let r := step ex_cfg ex_s0 [1; 1] in
      st (snd r) = MID /\ reward (snd r) = [4 * 1 - 2] /\ grid (fst r) = [[1; 1; 0]; [2; 2; 0]]
      /\ locs (fst r) = [(0, 1); (0, 1)] /\ Inv_b ex_cfg (fst r) = true)
  /\ (let r := step ex_cfg ex_s0 [1; 2] in
      st (snd r) = LAST /\ reward (snd r) = [4 * 1 - 2] /\ locs (fst r) = [(0, 1); (0, 0)]
      /\ Inv_b ex_cfg (fst r) = true)
  /\ (let r := step ex_cfg ex_s0 [0; 3] in
      st (snd r) = LAST /\ reward (snd r) = [- 2] /\ grid (fst r) = grid ex_s0 /\ locs (fst r) = locs ex_s0)
  /\ step ex_cfg ex_s0 [1; 2] = ref_step ex_cfg ex_s0 [1; 2].
Proof. exact nonvacuous. Qed.
(* reset on the state of ANY Generator (agents anywhere on CLEAN cells): the reset mask is the table of legal moves at the
   generator's own agent locations.  Refuted before the fix "Cleaner reset computed the action mask for agents at (0,0)". *)
Theorem C04_Cleaner_reset_custom_generator c g ls :
  Physical c (mkS g ls [] 0) -> mask_exact_b c (fst (reset_of c g ls)) = true.
Proof. exact (reset_custom_generator_mask_exact c g ls). Qed.
Print Assumptions C04_Cleaner_reset_custom_generator.
Example C04_Cleaner_reset_custom_generator_nonvacuous :
  let c := mkC 3 3 1 9 2 in let g := [[0; 2; 0]; [0; 1; 0]; [0; 0; 0]] in
  Physical_b c (fst (reset_of c g [(1, 1)])) = true
  /\ amask (fst (reset_of c g [(1, 1)])) = [[false; true; true; true]].
Proof. exact reset_custom_generator_example. Qed.
