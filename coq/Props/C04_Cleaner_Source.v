(* C04 Cleaner over the SOURCE-TRANSLATED step (Gen/CleanerSrc.v; see C09_Cleaner_Source.v): after any joint action of the right
   length the invariant holds again and every agent's stored mask row is exactly its set of legal moves. *)
Require Import JV.Base.Prelude JV.Base.JaxIndex JV.Base.Codec JV.Base.TimeStep JV.Gen.TimeStepSrc JV.Gen.CleanerSrc JV.Proofs.Cleaner JV.Proofs.Cleaner_Src.
Require JV.Model.Cleaner.
Theorem C04_Cleaner_Source_mask_function_is_model R C g ls : compute_action_mask R C g ls = JV.Model.Cleaner.compute_mask R C g ls.
Proof. exact (mask_src R C g ls). Qed.
Theorem C04_Cleaner_Source_mask_iff_legal R C N T pen s acts i a :
  JV.Model.Cleaner.Inv (JV.Model.Cleaner.mkC R C N T pen) (conv s) -> zlen acts = N -> 0 <= i < N -> 0 <= a < 4 ->
  let s' := fst (step R C T pen s acts) in
  (jget false (znth [] (s_action_mask s') i) a = true
   <-> JV.Model.Cleaner.legal R C (s_grid s') (znth (0, 0) (s_agents_locations s') i) a).
Proof. exact (src_mask_iff_legal R C N T pen s acts i a). Qed.
Print Assumptions C04_Cleaner_Source_mask_iff_legal.
