(* C04 Connector: per agent, the emitted mask row is exactly the table of legal actions: the no-op is always legal; a move
   is legal iff the target cell is on the grid, is EMPTY or the agent's own target, and the agent is not connected.
   For every well-shaped grid of every size, every agent record, every action 0..4 (the mask of a successor state is
   [action_mask] of its grid and agents: C12_Connector_observation). *)
Require Import JV.Base.Prelude JV.Base.JaxIndex JV.Base.Codec JV.Base.TimeStep JV.Model.Connector JV.Proofs.Connector.
Theorem C04_Connector_mask_iff_legal G g ag a :
  dims G g -> 0 <= a <= 4 -> (znth false (action_mask G g ag) a = true <-> legal G g ag a).
Proof. exact (C04_mask_iff_legal G g ag a). Qed.
Theorem C04_Connector_mask_table G g ag : dims G g -> action_mask G g ag = map (legal_b G g ag) (zrange 5).
Proof. exact (C04_mask_table G g ag). Qed.
(* the boolean checker run on implementation states decides the declarative predicate *)
Theorem C04_Connector_checker G g ag a : legal_b G g ag a = true <-> legal G g ag a.
Proof. exact (legal_b_spec G g ag a). Qed.
Print Assumptions C04_Connector_mask_iff_legal.
Example C04_Connector_nonvacuous :
  dims 3 (grid ex_s0) /\ action_mask 3 (grid ex_s0) (znth dflt (agents ex_s0) 0) = [true; false; true; true; false]
  /\ snd (step ex_cfg ex_s0 [2; 4]) = [[true; false; true; false; false]; [true; false; false; true; false]].
Proof. vm_compute. repeat split; try reflexivity; repeat constructor. Qed.
