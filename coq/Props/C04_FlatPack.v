(* C04 FlatPack: in every state satisfying the invariant (reset state; preserved by every in-spec step) and for EVERY
   action (block, rotation, row, col) of the action space, the stored mask entry is True exactly when the rules allow
   the placement: block unplaced, its 3x3 box on the grid, its footprint after k quarter turns on empty cells only. *)
Require Import JV.Base.Prelude JV.Base.JaxIndex JV.Base.Codec JV.Base.TimeStep JV.Model.FlatPack JV.Proofs.FlatPack JV.Proofs.FlatPack_Pack.
Theorem C04_FlatPack_mask_iff_legal cf s b k r c :
  StateOK cf s -> in_space cf (b, k, r, c) ->
  (mask_get (amask s) b k r c = true <-> legal cf (grid s) (blocks s) (placed s) (b, k, r, c)).
Proof. intros OK IS. exact (mask_iff_legal cf s (b, k, r, c) OK IS). Qed.
Theorem C04_FlatPack_invariant_init cf bl :
  3 <= cR cf -> 3 <= cC cf -> 0 <= cN cf -> blocks_ok (cN cf) bl -> StateOK cf (fst (init cf bl)).
Proof. exact (init_StateOK cf bl). Qed.
Theorem C04_FlatPack_invariant_step cf s b k r c :
  StateOK cf s -> in_space cf (b, k, r, c) -> StateOK cf (fst (step cf s b k r c)).
Proof. exact (step_StateOK cf s b k r c). Qed.
Theorem C04_FlatPack_checker_sound cf g bl pl a : legal_b cf g bl pl a = true <-> legal cf g bl pl a.
Proof. exact (legal_b_iff cf g bl pl a). Qed.
Print Assumptions C04_FlatPack_mask_iff_legal.
Print Assumptions C04_FlatPack_invariant_step.
Example C04_FlatPack_nonvacuous :
  let cf := mkC 5 5 4 0 in let s := fst (step cf (fst (init cf toy_blocks_rot)) 0 2 0 0) in
  mask_exact_b cf s = true /\ mask_get (amask s) 1 2 0 2 = true /\ mask_get (amask s) 1 0 0 0 = false /\ mask_get (amask s) 0 0 2 2 = false.
Proof. vm_compute. repeat split; reflexivity. Qed.
