(* C04 Game2048: on every state satisfying Inv (reset states, and every successor under ANY action) and for EVERY action,
   the stored/observed mask entry is True exactly when the rules allow the move (sliding changes some line), and exactly
   when the environment's own move changes the board. *)
Require Import JV.Base.Prelude JV.Base.JaxIndex JV.Base.Codec JV.Base.TimeStep JV.Model.Game2048
  JV.Proofs.Game2048_Row JV.Proofs.Game2048_Board JV.Proofs.Game2048.
Theorem C04_Game2048_mask_iff_legal n s a : Inv n s -> 0 <= a < 4 ->
  (jget false (amask s) a = true <-> legal n (board s) a).
Proof. exact (mask_iff_legal n s a). Qed.
Print Assumptions C04_Game2048_mask_iff_legal.
Theorem C04_Game2048_mask_iff_board_changes n s a : Inv n s -> 0 <= a < 4 ->
  (jget false (amask s) a = true <-> exists mb r, move n (board s) a = Some (mb, r) /\ mb <> board s).
Proof. exact (mask_iff_moves n s a). Qed.
Print Assumptions C04_Game2048_mask_iff_board_changes.
(* the mask function itself, on any board of non-negative exponents (any shape) *)
Theorem C04_Game2048_mask_function n b : nonneg b -> action_mask n b = Some (rules_mask n b).
Proof. exact (action_mask_spec n b). Qed.
Print Assumptions C04_Game2048_mask_function.
Theorem C04_Game2048_inv_reset n idx v s t : 0 <= v -> init n idx v = Some (s, t) -> Inv n s.
Proof. exact (init_Inv n idx v s t). Qed.
Theorem C04_Game2048_inv_step n s a idx v s' t : Inv n s -> 0 <= a < 4 -> (legal_b n (board s) a = true -> 0 <= v) ->
  step n s a idx v = Some (s', t) -> Inv n s'.
Proof. exact (step_Inv n s a idx v s' t). Qed.
Print Assumptions C04_Game2048_inv_step.
(* the boolean checkers evaluated on implementation states decide the declarative predicates *)
Theorem C04_Game2048_checker n b a : legal_b n b a = true <-> legal n b a.
Proof. exact (legal_b_spec n b a). Qed.
Theorem C04_Game2048_checker_wf n b : wf_b n b = true <-> wf n b.
Proof. exact (wf_b_spec n b). Qed.
Theorem C04_Game2048_checker_nonneg b : nonneg_b b = true <-> nonneg b.
Proof. exact (nonneg_b_spec b). Qed.
Example C04_Game2048_nonvacuous :
  Inv 2 ex_stuck /\ amask ex_stuck = [false; false; false; false]
  /\ step 2 ex_stuck 1 0 1 = Some (mkS [[1;2];[2;1]] [false; false; false; false] 8 10, termination 1 [0]).
Proof. exact ex_stuck_facts. Qed.
Example C04_Game2048_nonvacuous2 : Inv 4 ex_state /\ amask ex_state = [true; true; true; true].
Proof. split; [exact ex_Inv|exact (proj1 ex_facts)]. Qed.
