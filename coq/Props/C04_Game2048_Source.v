(* C04 Game2048 over the SOURCE-TRANSLATED step (Gen/Game2048Src.v; see C09_Game2048_Source.v): the mask stored by the translated step is True
   exactly on the moves that change the new board. *)
Require Import JV.Base.Prelude JV.Base.JaxIndex JV.Base.Codec JV.Base.TimeStep JV.Gen.TimeStepSrc JV.Gen.Game2048Src JV.Proofs.Game2048_Row JV.Proofs.Game2048_Board JV.Proofs.Game2048 JV.Proofs.Game2048_Src.
Require JV.Model.Game2048.
Theorem C04_Game2048_Source_mask_iff_legal n di dv s a b :
  Inv n (conv s) -> 0 <= a < 4 -> (JV.Model.Game2048.legal_b n (s_board s) a = true -> 0 <= dv) -> 0 <= b < 4 ->
  let s' := fst (step n (mv_model n) (cm_model n) di dv s a) in
  (jget false (s_action_mask s') b = true <-> JV.Model.Game2048.legal n (s_board s') b).
Proof. exact (src_mask_iff_legal n di dv s a b). Qed.
Print Assumptions C04_Game2048_Source_mask_iff_legal.
