(* C04 GraphColoring: for every reachable-shaped state (Inv) and every colour of the action space, the mask
   entry is True exactly when no neighbour of the current node already has that colour. *)
Require Import JV.Base.Prelude JV.Base.JaxIndex JV.Base.Codec JV.Base.TimeStep JV.Model.GraphColoring JV.Proofs.GraphColoring JV.Proofs.GraphColoring_rules.
Theorem C04_GraphColoring_mask_iff_legal n s c :
  0 < n -> Inv n s -> 0 <= c < n ->
  (jget false (amask s) c = true <-> legal n (adj s) (colors s) (cur s) c).
Proof. exact (C04_mask_iff_legal n s c). Qed.
Print Assumptions C04_GraphColoring_mask_iff_legal.
(* Inv holds on reset states of every generated graph and is preserved by every legal non-terminal step *)
Theorem C04_GraphColoring_inv_init n adj0 : 0 < n -> graph_wf n adj0 -> Inv n (fst (init n adj0)).
Proof. exact (init_Inv n adj0). Qed.
Theorem C04_GraphColoring_inv_step n s a :
  0 < n -> Inv n s -> 0 <= a < n -> jget false (amask s) a = true ->
  st (snd (step n s a)) = MID -> Inv n (fst (step n s a)).
Proof. exact (step_preserves_Inv n s a). Qed.
Print Assumptions C04_GraphColoring_inv_step.
(* the same on the weak invariant Inv0 (Inv without properness), which holds at reset and is closed under EVERY in-spec
   colour - legal or not, terminal step or not, also when stepping on after LAST: the mask is exact on every state the
   environment can emit, and the whole mask IS the list of legal colours *)
Theorem C04_GraphColoring_mask_iff_legal_every_state n s c :
  0 < n -> Inv0 n s -> 0 <= c < n ->
  (jget false (amask s) c = true <-> legal n (adj s) (colors s) (cur s) c).
Proof. exact (mask_iff_legal0 n s c). Qed.
Theorem C04_GraphColoring_mask_is_legal_set n adj colors node :
  0 < n -> graph_wf n adj -> colors_wf n colors -> 0 <= node < n ->
  valid_actions n node adj colors = map (legal_b n adj colors node) (zrange n).
Proof. exact (mask_is_legal_set n adj colors node). Qed.
Theorem C04_GraphColoring_inv0_init n adj0 : 0 < n -> graph_wf n adj0 -> Inv0 n (fst (init n adj0)).
Proof. exact (init_Inv0 n adj0). Qed.
Theorem C04_GraphColoring_inv0_step n s a : 0 < n -> Inv0 n s -> 0 <= a < n -> Inv0 n (fst (step n s a)).
Proof. exact (step_preserves_Inv0 n s a). Qed.
Print Assumptions C04_GraphColoring_mask_iff_legal_every_state.
Print Assumptions C04_GraphColoring_inv0_step.
(* the boolean checker run on implementation states decides the same predicate *)
Theorem C04_GraphColoring_checker n adj colors i c : legal_b n adj colors i c = true <-> legal n adj colors i c.
Proof. exact (legal_b_spec n adj colors i c). Qed.
Example C04_GraphColoring_nonvacuous :
  let adj0 := gen_adj 3 [[true;true;true];[true;true;true];[false;true;true]] in
  let s1 := fst (step 3 (fst (init 3 adj0)) 0) in
  edge adj0 0 1 = true /\ jget false (amask s1) 0 = false /\ jget false (amask s1) 1 = true
  /\ st (snd (step 3 s1 0)) = LAST /\ reward (snd (step 3 s1 0)) = [-3].
Proof. exact nonvacuous. Qed.
