(* C04 / C06 GraphColoring over the SOURCE-TRANSLATED step and `_get_valid_actions` (Gen/GraphColoringSrc.v; see C09_GraphColoring_Source.v) *)
Require Import JV.Base.Prelude JV.Base.JaxIndex JV.Base.Codec JV.Base.TimeStep JV.Gen.TimeStepSrc JV.Gen.GraphColoringSrc.
Require Import JV.Proofs.GraphColoring JV.Proofs.GraphColoring_rules JV.Proofs.GraphColoring_Src.
Require JV.Model.GraphColoring.
Theorem C04_GraphColoring_Source_mask_function_is_model n node adj colors :
  get_valid_actions n node adj colors = JV.Model.GraphColoring.valid_actions n node adj colors.
Proof. exact (mask_src n node adj colors). Qed.
(* after EVERY in-spec action of the translated step (legal or not) the stored mask of the next node is exactly its set of legal colours:
   those no already-coloured neighbour has, judged on the UPDATED colours *)
Theorem C04_GraphColoring_Source_mask_iff_legal n s a c : 0 < n -> Inv0 n (conv s) -> 0 <= a < n -> 0 <= c < n ->
  let s' := fst (step n s a) in
  (jget false (s_action_mask s') c = true
   <-> JV.Model.GraphColoring.legal n (s_adj_matrix s') (s_colors s') (s_current_node_index s') c).
Proof. exact (src_mask_iff_legal n s a c). Qed.
Print Assumptions C04_GraphColoring_Source_mask_iff_legal.
