(* C04 JobShop: in every state whose mask is the one computed from its own fields (true after reset and after EVERY step:
   C04_JobShop_mask_fresh_step / _init), for every machine m and job j
      action_mask[m][j]  <->  j is unfinished, its next operation (first pending one) belongs to m, m is idle (remaining 0)
                              and no machine holds j with remaining time > 0,
   and the no-op column is always True.  The env's own reaction (an action outside the mask ends the episode with the
   penalty) is C05.  [legal_mask_check] is the meaning of the checker run on implementation states. *)
Require Import JV.Base.Prelude JV.Base.JaxIndex JV.Base.Codec JV.Base.TimeStep JV.Proofs.TimeStep_laws.
Require Import JV.Model.JobShop JV.Proofs.JobShop_lib JV.Proofs.JobShop_step JV.Proofs.JobShop_sched JV.Proofs.JobShop_episode JV.Proofs.JobShop_gen.
Theorem C04_JobShop_mask_iff_legal c s m j : shape c s -> mask_fresh c s -> 0 <= m < nm c -> 0 <= j < nj c ->
  (gat false (amask s) m j = true <-> legal c s m j).
Proof. exact (mask_iff_legal c s m j). Qed.
Theorem C04_JobShop_noop_always_legal c s m : shape c s -> mask_fresh c s -> 0 <= m < nm c -> gat false (amask s) m (nj c) = true.
Proof. exact (mask_noop c s m). Qed.
Theorem C04_JobShop_mask_fresh_step c s act : mask_fresh c (fst (step c s act)).
Proof. exact (step_mask_fresh c s act). Qed.
Theorem C04_JobShop_mask_fresh_init c om od : mask_fresh c (fst (init c om od)).
Proof. exact (init_mask_fresh c om od). Qed.
Theorem C04_JobShop_legal_b_spec c s m j : legal_b c s m j = true <-> legal c s m j.
Proof. exact (legal_b_spec c s m j). Qed.
Theorem C04_JobShop_checker c s : 0 <= nj c -> list_eqb (list_eqb Bool.eqb) (amask s) (legal_mask c s) = true ->
  forall m, 0 <= m < nm c -> gat false (amask s) m (nj c) = true /\
    forall j, 0 <= j < nj c -> (gat false (amask s) m j = true <-> legal c s m j).
Proof. exact (legal_mask_check c s). Qed.
Print Assumptions C04_JobShop_mask_iff_legal.
Definition toy_s0 := fst (init toy_cfg toy_mach toy_dur).
Definition toy_acts : list (list Z) := [[3;4;0;1];[5;5;5;5];[5;5;1;0];[5;2;5;5];[4;5;5;3];[3;0;5;2];[1;4;0;5];[3;5;5;5]].
Example C04_JobShop_nonvacuous :
  let s1 := fst (step toy_cfg toy_s0 [3;4;0;1]) in
  amask toy_s0 = [[false;false;false;true;false;true];[false;false;true;false;true;true];[true;false;false;false;false;true];[false;true;false;false;false;true]]
  /\ amask s1 = [[false;false;false;false;false;true];[false;false;false;false;false;true];[false;false;false;false;false;true];[false;false;false;false;false;true]]
  /\ legal_b toy_cfg toy_s0 1 2 = true /\ legal_b toy_cfg toy_s0 1 0 = false.
Proof. vm_compute. repeat split; reflexivity. Qed.
