(* C04 Knapsack: for every well-shaped state and EVERY item of the action space, the mask entry is True exactly when the
   item is unpacked and its weight is <= the remaining budget (== included); and the mask entry equals the environment's
   own validity test, so a masked-in item is never treated as invalid and no legal item is hidden. *)
Require Import JV.Base.Prelude JV.Base.JaxIndex JV.Base.Codec JV.Base.TimeStep JV.Model.Knapsack JV.Proofs.Knapsack.
Theorem C04_Knapsack_mask_iff_legal n s i :
  shape n s -> 0 <= i < n -> (jget false (mask s) i = true <-> legal s i).
Proof. exact (C04_mask_iff_legal n s i). Qed.
Print Assumptions C04_Knapsack_mask_iff_legal.
Theorem C04_Knapsack_mask_iff_accepts n s a : shape n s -> 0 <= a < n -> jget false (mask s) a = valid s a.
Proof. exact (C04_mask_iff_accepts n s a). Qed.
Print Assumptions C04_Knapsack_mask_iff_accepts.
(* the boolean checker run on implementation states decides "this mask is the mask of the rules" *)
Theorem C04_Knapsack_checker n s m : shape n s ->
  (list_eqb Bool.eqb m (map (legal_b s) (zrange n)) = true <-> m = mask s).
Proof. exact (C04_checker n s m). Qed.
Theorem C04_Knapsack_legal_b s i : legal_b s i = true <-> legal s i.
Proof. exact (legal_b_spec s i). Qed.
Print Assumptions C04_Knapsack_checker.
(* boundary: weight 512 == remaining budget 512 is masked in, 513 is masked out, a packed item is masked out *)
Example C04_Knapsack_nonvacuous :
  let s := mkS [512; 513; 100] [1; 2; 3] [false; false; true] 512 in
  shape 3 s /\ mask s = [true; false; false] /\ legal s 0 /\ ~ legal s 1 /\ ~ legal s 2.
Proof. vm_compute. repeat split; try reflexivity; intuition (try discriminate; try lia). Qed.
