(* C04 Knapsack over the SOURCE-TRANSLATED observation (Gen/KnapsackSrc.v; see C09_Knapsack_Source.v): the mask entry of item i is True
   exactly when the rules allow it -- not packed yet and weight <= remaining budget (equality included). *)
Require Import JV.Base.Prelude JV.Base.JaxIndex JV.Base.Codec JV.Base.TimeStep JV.Gen.TimeStepSrc JV.Gen.KnapsackSrc JV.Proofs.Knapsack JV.Proofs.Knapsack_Src.
Require JV.Model.Knapsack.
Theorem C04_Knapsack_Source_mask_iff_legal n s i : JV.Model.Knapsack.shape n (conv s) -> 0 <= i < n ->
  (jget false (o_action_mask (state_to_observation s)) i = true <-> JV.Model.Knapsack.legal (conv s) i).
Proof. exact (src_mask_iff_legal n s i). Qed.
Print Assumptions C04_Knapsack_Source_mask_iff_legal.
