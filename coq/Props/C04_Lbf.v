(* C04 LevelBasedForaging: in every physically consistent state (Inv: every state reachable from a generated one under ANY
   actions, see C07_Lbf / C10_Lbf) the mask row of every agent is exactly the table of legal actions:
   NOOP always; a move iff the target cell is on the grid and holds no other agent and no uneaten food; LOAD iff an
   uneaten food is 4-adjacent.  [legal] is the independent declarative statement, [legal_b] its boolean twin. *)
From Coq Require Import QArith.
Require Import JV.Base.Prelude JV.Base.JaxIndex JV.Base.Codec JV.Base.TimeStep JV.Model.Lbf JV.Proofs.Lbf.
Open Scope Z_scope.
Theorem C04_Lbf_mask_iff_legal c s a k :
  Inv c s -> In a (agents s) -> 0 <= k < 6 ->
  (znth false (mask_agent (gsz c) s a) k = true <-> legal (gsz c) s a k).
Proof. exact (mask_znth_iff_legal c s a k). Qed.
Theorem C04_Lbf_mask_table c s a : Inv c s -> In a (agents s) -> mask_agent (gsz c) s a = map (legal_b (gsz c) s a) (zrange 6).
Proof. exact (mask_iff_legal c s a). Qed.
Theorem C04_Lbf_checker c s : Inv c s -> mask_exact_b c s = true.
Proof. exact (mask_exact c s). Qed.
Theorem C04_Lbf_legal_b_spec g s a k : legal_b g s a k = true <-> legal g s a k.
Proof. exact (legal_b_spec g s a k). Qed.
Print Assumptions C04_Lbf_mask_iff_legal.
(* a masked-in move is really executed when nobody else moves (the env's own reaction): see C09_Lbf. *)
Example C04_Lbf_nonvacuous :
  Inv_b ex_cfg ex_s0 = true
  /\ mask_all (gsz ex_cfg) ex_s0 = [[true; true; true; false; false; true]; [true; true; true; true; true; false]]
  /\ mask_exact_b ex_cfg ex_s0 = true.
Proof. vm_compute. repeat split; reflexivity. Qed.
