(* C04 Maze: in every physically consistent state (an invariant of reset + any in-spec actions, see C07) and for
   every action 0..3 (Up, Right, Down, Left) the mask entry is True exactly when the destination cell is on the
   grid and not a wall.  Any grid shape (rows, cols independent: non-square included), any walls. *)
Require Import JV.Base.Prelude JV.Base.JaxIndex JV.Base.Codec JV.Base.TimeStep JV.Model.MazeGen JV.Model.Maze JV.Proofs.MazeGen JV.Proofs.Maze.
Theorem C04_Maze_mask_iff_legal rows cols s a :
  Physical rows cols s -> 0 <= a < 4 ->
  (jget false (amask s) a = true <-> legal rows cols (walls s) (ar s) (ac s) a).
Proof. exact (mask_iff_legal rows cols s a). Qed.
Print Assumptions C04_Maze_mask_iff_legal.
(* the code's mask function is the legal set, for any position on any well-formed grid *)
Theorem C04_Maze_compute_mask rows cols w r c :
  wf_walls rows cols w -> compute_mask rows cols w r c = map (legal_b rows cols w r c) (zrange 4).
Proof. exact (compute_mask_legal rows cols w r c). Qed.
Theorem C04_Maze_checker rows cols w r c a : legal_b rows cols w r c a = true <-> legal rows cols w r c a.
Proof. exact (legal_b_spec rows cols w r c a). Qed.
(* masked-in actions are really taken (never treated as invalid) *)
Theorem C04_Maze_masked_in_moves rows cols T s a :
  Physical rows cols s -> 0 <= a < 4 -> jget false (amask s) a = true ->
  let s' := fst (step rows cols T s a) in
  ar s' = ar s + dr a /\ ac s' = ac s + dc a /\ free rows cols (walls s) (ar s') (ac s')
  /\ walls s' = walls s /\ tr s' = tr s /\ tc s' = tc s /\ sc s' = sc s + 1.
Proof. exact (legal_moves rows cols T s a). Qed.
Print Assumptions C04_Maze_masked_in_moves.
Example C04_Maze_nonvacuous :
  let s0 := fst toy_init in
  Physical_b 5 5 s0 = true /\ connected_b 5 5 toy_walls = true
  /\ amask s0 = [false; false; true; false]
  /\ ar (fst (step 5 5 25 s0 1)) = 0 /\ ac (fst (step 5 5 25 s0 1)) = 0 /\ st (snd (step 5 5 25 s0 1)) = MID
  /\ ar (fst (step 5 5 25 s0 2)) = 1
  /\ st (snd (step 5 5 1 s0 2)) = LAST
  /\ (let s := run 5 5 25 s0 [2;2;2;1;1;0;0;0;1] in (ar s, ac s) = (0, 3) /\
      reward (snd (step 5 5 25 s 1)) = [1] /\ st (snd (step 5 5 25 s 1)) = LAST).
Proof. exact toy_run. Qed.
