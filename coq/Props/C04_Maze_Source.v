(* C04 Maze over the environment AS TRANSLATED FROM /repo's CURRENT SOURCE on every run (Gen/MazeSrc.v; see C09_Maze_Source.v). *)
Require Import JV.Base.Prelude JV.Base.JaxIndex JV.Base.Codec JV.Base.TimeStep JV.Gen.TimeStepSrc JV.Gen.MazeSrc JV.Proofs.Maze_Src.
Require JV.Model.Maze.
Theorem C04_Maze_Source_mask_function_is_model rows cols w p :
  compute_action_mask rows cols w p = JV.Model.Maze.compute_mask rows cols w (fst p) (snd p).
Proof. exact (mask_src rows cols w p). Qed.
Print Assumptions C04_Maze_Source_mask_function_is_model.
(* after any in-spec step of the translated code the stored mask is exactly the set of legal moves *)
Theorem C04_Maze_Source_mask_exact rows cols T s a b :
  JV.Model.Maze.Physical rows cols (conv s) -> 0 <= a < 4 -> 0 <= b < 4 ->
  let s' := fst (step rows cols T s a) in
  (jget false (s_action_mask s') b = true
   <-> JV.Model.Maze.legal rows cols (s_walls s') (fst (s_agent_position s')) (snd (s_agent_position s')) b).
Proof. exact (src_mask_iff_legal rows cols T s a b). Qed.
Print Assumptions C04_Maze_Source_mask_exact.
