(* C04 Minesweeper: for every board of the right shape and EVERY action (r, c) of the action space the mask entry is True
   exactly when the square is unexplored (legal); it is exactly then that the environment's own validity test accepts
   the action; and, from reset, exactly when the square has not been played yet in this episode (independent,
   history-based statement of "not yet explored"), for every in-spec action sequence. *)
Require Import JV.Base.Prelude JV.Base.JaxIndex JV.Base.Codec JV.Base.TimeStep JV.Model.Minesweeper.
Require Import JV.Proofs.Minesweeper_lists JV.Proofs.Minesweeper_count JV.Proofs.Minesweeper.
Theorem C04_Minesweeper_mask_iff_legal rows cols b r c :
  shaped rows cols b -> 0 <= r < rows -> 0 <= c < cols -> (gat false (action_mask b) r c = true <-> legal b r c).
Proof. exact (mask_iff_legal rows cols b r c). Qed.
Print Assumptions C04_Minesweeper_mask_iff_legal.
Theorem C04_Minesweeper_mask_is_env_reaction rows cols b r c :
  shaped rows cols b -> 0 <= r < rows -> 0 <= c < cols -> is_valid_action b r c = gat false (action_mask b) r c.
Proof. exact (mask_iff_valid rows cols b r c). Qed.
Print Assumptions C04_Minesweeper_mask_is_env_reaction.
Theorem C04_Minesweeper_mask_iff_not_played rc rows cols nm locs acts r c :
  0 <= rows -> 0 <= cols -> valid_draw rows cols nm locs = true -> Forall (in_spec_p rows cols) acts ->
  0 <= r < rows -> 0 <= c < cols ->
  (gat false (action_mask (board (play rc rows cols (fst (init rows cols locs)) acts))) r c = true <-> ~ In (r, c) acts).
Proof. exact (mask_iff_not_played rc rows cols nm locs acts r c). Qed.
Print Assumptions C04_Minesweeper_mask_iff_not_played.
(* a masked-in action is never treated as invalid: the episode continues, or ends on a mine / on the solved board with the
   mine / empty-square reward; a masked-out action is: see C05 *)
Theorem C04_Minesweeper_checker b r c : legal_b b r c = true <-> legal b r c.
Proof. exact (legal_b_spec b r c). Qed.
Example C04_Minesweeper_nonvacuous :
  let s1 := fst (step default_rcfg 2 3 ex_s0 1 1) in
  shape_b 2 3 (board s1) = true /\ gat false (action_mask (board s1)) 1 1 = false /\ gat false (action_mask (board s1)) 0 1 = true
  /\ is_valid_action (board s1) 1 1 = false /\ is_valid_action (board s1) 0 1 = true.
Proof. vm_compute. repeat split; reflexivity. Qed.
