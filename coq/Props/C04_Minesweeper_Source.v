(* C04 Minesweeper over the SOURCE-TRANSLATED step and observation (Gen/MinesweeperSrc.v; see C09_Minesweeper_Source.v): the mask in the
   observation of the state a step produces is True exactly on the legal (unexplored) squares of the new board. *)
Require Import JV.Base.Prelude JV.Base.JaxIndex JV.Base.Codec JV.Base.TimeStep JV.Gen.TimeStepSrc JV.Gen.MinesweeperSrc JV.Proofs.Minesweeper_lists JV.Proofs.Minesweeper_count JV.Proofs.Minesweeper JV.Proofs.Minesweeper_Src.
Require JV.Model.Minesweeper.
Theorem C04_Minesweeper_Source_mask_iff_legal rows cols nm re rm ri s a r c :
  Phys rows cols nm (conv s) -> 0 <= fst a < rows -> 0 <= snd a < cols -> 0 <= r < rows -> 0 <= c < cols ->
  let s' := fst (step nm (DefaultRewardFn_call re rm ri) DefaultDoneFn_call s a) in
  (gat false (o_action_mask (state_to_observation nm s')) r c = true <-> JV.Model.Minesweeper.legal (s_board s') r c).
Proof. exact (src_obs_mask_iff_legal rows cols nm re rm ri s a r c). Qed.
Print Assumptions C04_Minesweeper_Source_mask_iff_legal.
(* history form: from the generator's state (unexplored board), after ANY in-spec action sequence played through the translated step,
   the mask of the translated observation is True exactly on the squares not played yet *)
Theorem C04_Minesweeper_Source_mask_iff_not_played rows cols nm re rm ri locs acts r c : 0 < rows -> 0 <= cols ->
  JV.Model.Minesweeper.valid_draw rows cols nm locs = true -> Forall (in_spec_p rows cols) acts -> 0 <= r < rows -> 0 <= c < cols ->
  let s0 := fst (reset_from nm (mkState (repeat (repeat (-1) (Z.to_nat cols)) (Z.to_nat rows)) 0 locs)) in
  (gat false (o_action_mask (state_to_observation nm (play_src nm re rm ri s0 acts))) r c = true <-> ~ In (r, c) acts).
Proof. exact (fun H => src_mask_iff_not_played rows cols nm re rm ri H locs acts r c). Qed.
Print Assumptions C04_Minesweeper_Source_mask_iff_not_played.
