(* C04 MMST.  Rules (utils.make_action_mask / docs): agent a may move to node j iff j is adjacent to its position in the
   base graph and j is not a utility node already used by ANOTHER agent ([legal_move]); finished agents have no move.
   [Inv] (coq/Proofs/Mmst.v) holds on every reset state of a well-formed instance (C04_Mmst_inv_reset) and is preserved by
   EVERY step (any actions, any tie-break permutation).
   Proved at full strength (after fix aa74bf17, which rebuilds the mask with the updated finished flags): the mask of the
   successor state is exactly [not finished in THAT state] && legal_move, for every agent and every node. *)
Require Import JV.Base.Prelude JV.Base.JaxIndex JV.Base.Codec JV.Base.TimeStep JV.Model.Mmst JV.Proofs.Mmst_lib JV.Proofs.Mmst JV.Proofs.Mmst_Episode JV.Proofs.Mmst_Obs JV.Proofs.Mmst_Gen JV.Proofs.Mmst_Examples JV.Proofs.Mmst_Init.
Theorem C04_Mmst_mask_iff_legal c start s acts perm a j :
  Inv c start s -> 0 <= a < cA c -> 0 <= j < cN c ->
  let t := fst (step c s acts perm) in
  gat false (amask t) a j = negb (znth false (fin t) a) && legal_move (cA c) t a j.
Proof. intro H. exact (mask_s' c start s acts perm H a j). Qed.
Print Assumptions C04_Mmst_mask_iff_legal.
(* the active-edge tensor the mask is read from = base graph minus edges into utility nodes used by other agents *)
Theorem C04_Mmst_active_edges c start s a i j :
  Inv c start s -> 0 <= a < cA c -> 0 <= i < cN c -> 0 <= j < cN c ->
  eat s a i j = if base_adj s i j && negb (blocked (cA c) s a j) then j else -1.
Proof. intro H. exact (inv_E c start s H a i j). Qed.
Theorem C04_Mmst_inv_step c start s acts perm : Inv c start s -> Inv c start (fst (step c s acts perm)).
Proof. exact (step_Inv c start s acts perm). Qed.
Print Assumptions C04_Mmst_inv_step.
Theorem C04_Mmst_inv_reset c base adj0 comps :
  instance_wf c base adj0 comps -> Inv c (fun a => jget 0 (znth [] comps a) 0) (fst (init c base adj0 comps)).
Proof. exact (init_Inv c base adj0 comps). Qed.
Print Assumptions C04_Mmst_inv_reset.
(* formerly C04_Mmst_stale_mask_refuted: on the fixed code the just-finished agent's row is empty *)
Theorem C04_Mmst_finished_agent_has_empty_mask :
  znth false (fin ex_s1) 0 = true /\ legal_move 2 ex_s1 0 2 = true
  /\ amask ex_s1 = [[false; false; false; false; false; false]; [false; false; false; true; false; true]]
  /\ znth 0 (pos (fst (step ex_cfg ex_s1 [2; 3] [0; 1]))) 0 = znth 0 (pos ex_s1) 0.
Proof. exact fresh_mask_example. Qed.
Example C04_Mmst_nonvacuous :
  ntypes ex_s0 = [0; 0; -1; 1; -1; 1] /\ pos ex_s0 = [0; 5]
  /\ amask ex_s0 = [[false; true; false; false; false; false]; [false; false; false; false; true; false]]
  /\ obs_types ex_cfg ex_s0 = [0; 1; -1; 3; -1; 2].
Proof. exact ex_reset. Qed.
