(* C04 MMST.  Rules (utils.make_action_mask / docs): agent a may move to node j iff j is adjacent to its position in the
   base graph and j is not a utility node already used by ANOTHER agent ([legal_move]); finished agents have no move.
   [Inv] (coq/Proofs/Mmst.v) holds on every reset state of a well-formed instance and is preserved by EVERY step
   (any actions, any tie-break permutation).
   Proved: the mask of the successor state is exactly [not finished BEFORE the step] && legal_move, for every agent and
   every node.  The full statement "mask = not finished (current flags) && legal_move" is REFUTED by the faithful model:
   the mask is built with the previous finished flags (env.py "Not updated yet"), see ..._stale_mask_refuted. *)
Require Import JV.Base.Prelude JV.Base.JaxIndex JV.Base.Codec JV.Base.TimeStep JV.Model.Mmst JV.Proofs.Mmst_lib JV.Proofs.Mmst JV.Proofs.Mmst_Episode JV.Proofs.Mmst_Obs JV.Proofs.Mmst_Gen JV.Proofs.Mmst_Examples JV.Proofs.Mmst_Init.
Theorem C04_Mmst_mask_iff_legal_partial c start s acts perm a j :
  Inv c start s -> 0 <= a < cA c -> 0 <= j < cN c ->
  gat false (amask (fst (step c s acts perm))) a j
  = negb (znth false (fin s) a) && legal_move (cA c) (fst (step c s acts perm)) a j.
Proof. intro H. exact (mask_s' c start s acts perm H a j). Qed.
Print Assumptions C04_Mmst_mask_iff_legal_partial.
(* the active-edge tensor the mask is read from = base graph minus edges into utility nodes used by other agents *)
Theorem C04_Mmst_active_edges c start s a i j :
  Inv c start s -> 0 <= a < cA c -> 0 <= i < cN c -> 0 <= j < cN c ->
  eat s a i j = if base_adj s i j && negb (blocked (cA c) s a j) then j else -1.
Proof. intro H. exact (inv_E c start s H a i j). Qed.
Theorem C04_Mmst_inv_step c start s acts perm : Inv c start s -> Inv c start (fst (step c s acts perm)).
Proof. exact (step_Inv c start s acts perm). Qed.
Print Assumptions C04_Mmst_inv_step.
Theorem C04_Mmst_inv_reset c base adj0 comps :
  instance_wf c base adj0 comps -> Inv c (fun a => jget 0 (znth [] comps a) 0) (fst (init c base adj0 comps)).
Proof. exact (init_Inv c base adj0 comps). Qed.
Print Assumptions C04_Mmst_inv_reset.
(* a masked-in move of an unfinished agent that wins (or has no) tie-break is executed: see C05 for the converse *)
Theorem C04_Mmst_stale_mask_refuted :
  exists c s a j, znth false (fin s) a = true /\ gat false (amask s) a j = true /\ legal_move (cA c) s a j = true
    /\ s = fst (step c (fst (init c ex_base ex_adj ex_comps)) [1; 4] [0; 1])
    /\ znth 0 (pos (fst (step c s [j; 3] [0; 1]))) a = znth 0 (pos s) a.
Proof. exists ex_cfg, ex_s1, 0, 2. pose proof stale_mask_witness as H. repeat split; try apply H. Qed.
Print Assumptions C04_Mmst_stale_mask_refuted.
Example C04_Mmst_nonvacuous :
  ntypes ex_s0 = [0; 0; -1; 1; -1; 1] /\ pos ex_s0 = [0; 5]
  /\ amask ex_s0 = [[false; true; false; false; false; false]; [false; false; false; false; true; false]]
  /\ obs_types ex_cfg ex_s0 = [0; 1; -1; 3; -1; 2].
Proof. exact ex_reset. Qed.
