(* C04 MultiCVRP: per vehicle v and node a in [0, n], the mask entry is True exactly when the rules allow the move (the depot
   always; a customer iff it still has demand and the demand fits vehicle v's remaining capacity - utils.create_action_mask;
   the time windows are SOFT and do not enter the mask), and exactly when the environment's own sanitiser keeps the choice.
   The nodes 0..n are exactly the values of the action spec (C01_MultiCvrp.v): every in-spec action has its mask column. *)
Require Import JV.Base.Prelude JV.Base.JaxIndex JV.Base.Codec JV.Base.TimeStep JV.Model.MultiCvrp JV.Proofs.MultiCvrp JV.Proofs.MultiCvrp_Episode.
Theorem C04_MultiCvrp_mask_iff_legal n V mc d0 s H v a : Inv n V mc d0 s H -> 0 <= v < V -> 0 <= a <= n ->
  (znth false (znth [] (amask s) v) a = true <-> legal n s v a).
Proof. exact (C04_mask_iff_legal n V mc d0 s H v a). Qed.
Print Assumptions C04_MultiCvrp_mask_iff_legal.
Theorem C04_MultiCvrp_mask_iff_accepts n V mc d0 s H v a : Inv n V mc d0 s H -> 0 <= v < V -> 0 <= a <= n ->
  san (demands s) (znth 0 (cap s) v) a = if znth false (znth [] (amask s) v) a then a else 0.
Proof. exact (C04_mask_iff_accepts n V mc d0 s H v a). Qed.
(* on ANY state whose stored mask is create_action_mask(demands, capacities) - every state built by reset or step *)
Theorem C04_MultiCvrp_mask_any_state n s v a : zlen (demands s) = n + 1 -> amask s = create_mask (demands s) (cap s) ->
  0 <= v < zlen (cap s) -> 0 <= a <= n -> znth false (znth [] (amask s) v) a = legal_b n s v a.
Proof. exact (create_mask_legal n s v a). Qed.
Theorem C04_MultiCvrp_step_mask rnd mc dist s acts :
  amask (update rnd mc dist s acts) = create_mask (demands (update rnd mc dist s acts)) (cap (update rnd mc dist s acts)).
Proof. exact (upd_amask rnd mc dist s acts). Qed.
Example C04_MultiCvrp_nonvacuous :
  let s1 := fst (step false 3 4 dlin (st0 [0; 2; 3; 2] 2 4 3) [2; 0]) in
  amask s1 = [[true; false; false; false]; [true; true; false; true]]       (* vehicle 0 has 1 left; customer 2 is served *)
  /\ map (fun a => legal_b 3 s1 0 a) [0; 1; 2; 3] = [true; false; false; false]
  /\ map (fun a => legal_b 3 s1 1 a) [0; 1; 2; 3] = [true; true; false; true].
Proof. vm_compute. repeat split; reflexivity. Qed.
