(* C04 PacMan: in every state whose player stands on a free cell of a maze passing maze_ok_b (every state reachable from
   reset, C07) the action mask is EXACTLY the set of legal moves: for the four moves (0: row-1, 1: column-1, 2: row+1,
   3: column+1) the entry is True iff the target cell -- wrapped around the grid exactly like player_step wraps it at the
   tunnel -- is free; the no-op (4) is never offered.  Judged by the environment's own reaction as well: a masked-in
   move is taken (the player lands on the wrapped target), a masked-out action leaves the player where it is.
   Note: the docs name action 1 "right" and 3 "left"; the code (MOVES and player_step alike) moves to column-1 on 1 and
   column+1 on 3.  Mask and dynamics agree with each other; only the names in the docs are swapped. *)
Require Import JV.Base.Prelude JV.Base.JaxIndex JV.Base.Codec JV.Base.TimeStep JV.Gen.PacManConsts JV.Model.PacMan JV.Proofs.PacMan JV.Proofs.PacMan_Inv JV.Proofs.PacMan_Rules.
Theorem C04_PacMan_mask_iff_legal xs ys g x y :
  maze_ok_b xs ys g = true -> free xs ys g x y ->
  compute_mask g x y = map (legal_b xs ys g x y) [0; 1; 2; 3; 4].
Proof. exact (mask_legal xs ys g x y). Qed.
Print Assumptions C04_PacMan_mask_iff_legal.
Theorem C04_PacMan_legal_b_spec xs ys g x y a : legal_b xs ys g x y a = true <-> legal xs ys g x y a.
Proof. exact (legal_b_spec xs ys g x y a). Qed.
Theorem C04_PacMan_own_reaction xs ys s a :
  maze_ok_b xs ys (grid s) = true -> free xs ys (grid s) (px s) (py s) -> 0 <= a <= 4 ->
  (znth false (compute_mask (grid s) (px s) (py s)) a = true ->
     0 <= a < 4 /\ nxy xs ys s a = ((px s + dx a) mod xs, (py s + dy a) mod ys)) /\
  (znth false (compute_mask (grid s) (px s) (py s)) a = false -> nxy xs ys s a = (px s, py s)).
Proof. exact (mask_reaction xs ys s a). Qed.
Print Assumptions C04_PacMan_own_reaction.
Theorem C04_PacMan_next_position xs ys T s a d :
  px (fst (step xs ys T s a d)) = fst (nxy xs ys s a) /\ py (fst (step xs ys T s a d)) = snd (nxy xs ys s a).
Proof. rewrite step_eq. split; reflexivity. Qed.
(* non-vacuity: at the right tunnel mouth (row 14, column 27) moving to column+1 is legal and wraps to column 0 *)
Example C04_PacMan_nonvacuous :
  maze_ok_b 31 28 MAZE = true /\ free_b 31 28 MAZE 14 27 = true
  /\ compute_mask MAZE 14 27 = [false; true; false; true; false]
  /\ legal_b 31 28 MAZE 14 27 3 = true /\ rule_player 31 28 MAZE 14 27 3 = (14, 0) /\ rule_player 31 28 MAZE 14 0 1 = (14, 27).
Proof. vm_compute. repeat split; reflexivity. Qed.
