(* C04 RobotWarehouse: in every consistent state (Inv: reset states by C10, successors of collision-free steps by C07) the
   stored mask -- the one the observation carries -- is, per agent and for EVERY action 0..4, exactly the table of legal moves
   stated independently on the shelf TABLE: everything is legal except FORWARD by an agent carrying a shelf when the cell
   ahead is inside the grid and holds another shelf (FORWARD against the border is legal and leaves the agent in place).
   The mask of the successor of any collision-free step is again the legal table of the successor.  Only FORWARD is ever
   masked.  (The env's own reaction to masked-in / masked-out moves is judged in the harness.) *)
Require Import JV.Base.Prelude JV.Base.JaxIndex JV.Base.Codec JV.Base.TimeStep JV.Model.RobotWarehouse JV.Proofs.RobotWarehouse_lib JV.Proofs.RobotWarehouse JV.Proofs.RobotWarehouse_Step JV.Proofs.RobotWarehouse_Check.
Theorem C04_RobotWarehouse_mask_is_legal c s : Inv c s -> amask s = legal_mask c s.
Proof. exact (mask_is_legal c s). Qed.
Theorem C04_RobotWarehouse_step_mask_is_legal c s acts draws :
  Inv c s -> zlen acts = nag c -> collided c s acts = false ->
  let s' := fst (step c s acts draws) in amask s' = legal_mask c s'.
Proof. exact (step_mask_is_legal c s acts draws). Qed.
Theorem C04_RobotWarehouse_only_forward_masked H W gs a act : act <> FORWARD -> valid_action H W gs a act = true.
Proof. exact (nonforward_always_valid H W gs a act). Qed.
Print Assumptions C04_RobotWarehouse_mask_is_legal.
Print Assumptions C04_RobotWarehouse_step_mask_is_legal.
Example C04_RobotWarehouse_nonvacuous :
  Inv_b ex_c ex_s1 = true
  (* agent 0 carries shelf 1 at (1,1) and faces shelf 2 at (1,2): FORWARD masked out; agent 1: everything legal *)
  /\ amask ex_s1 = [[true; false; true; true; true]; [true; true; true; true; true]]
  /\ legal_mask ex_c ex_s1 = amask ex_s1
  (* before picking the shelf up the same FORWARD was legal *)
  /\ amask ex_s0 = [[true; true; true; true; true]; [true; true; true; true; true]].
Proof. vm_compute. repeat split; reflexivity. Qed.
