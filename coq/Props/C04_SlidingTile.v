(* C04 SlidingTile: for every board size, every blank position on the board and EVERY action 0..3 the mask entry is True exactly
   when the blank's neighbour in that direction is on the board (independent statement [legal]); the mask shown in the
   observation of reset / step is that mask for the successor state; and the env's own reaction agrees: the move is
   executed (state changes) exactly when it is legal. *)
Require Import JV.Base.Prelude JV.Base.JaxIndex JV.Base.Codec JV.Base.TimeStep JV.Model.SlidingTile JV.Proofs.SlidingTile JV.Proofs.SlidingTile_Episode.
From Coq Require Import Permutation.
Theorem C04_SlidingTile_mask_iff_legal n e a : in_grid n e = true -> 0 <= a < 4 ->
  (jget false (valid_actions n e) a = true <-> legal n e a).
Proof. exact (mask_iff_legal n e a). Qed.
Theorem C04_SlidingTile_observed_mask n s : in_grid n (blank s) = true ->
  o_puz (observe n s) = puz s /\ o_blank (observe n s) = blank s /\ o_steps (observe n s) = steps s
  /\ o_mask (observe n s) = map (legal_b n (blank s)) (zrange 4)
  /\ forall a, 0 <= a < 4 -> (jget false (o_mask (observe n s)) a = true <-> legal n (blank s) a).
Proof. exact (observe_view n s). Qed.
Theorem C04_SlidingTile_step_shows_mask_of_successor n T rw s a : ob_of n T rw s a = observe n (nxt n T rw s a).
Proof. exact (step_obs_faithful n T rw s a). Qed.
Theorem C04_SlidingTile_env_reaction n g e a : Inv n (g, e) -> 0 <= a < 4 -> (move_empty n g e a <> (g, e) <-> legal n e a).
Proof. exact (move_changes_iff_legal n g e a). Qed.
(* the blank stays on the board along reset and every in-spec step, so the hypothesis in_grid always holds *)
Theorem C04_SlidingTile_inv_step n T rw s a : Inv n (bd s) -> 0 <= a < 4 -> Inv n (bd (nxt n T rw s a)).
Proof. exact (step_Inv n T rw s a). Qed.
Theorem C04_SlidingTile_checker n e a : legal_b n e a = true <-> legal n e a.
Proof. exact (legal_b_spec n e a). Qed.
Print Assumptions C04_SlidingTile_mask_iff_legal.
Print Assumptions C04_SlidingTile_env_reaction.
Example C04_SlidingTile_nonvacuous :
  in_grid 3 (0, 1) = true /\ valid_actions 3 (0, 1) = [false; true; true; true] /\ valid_actions 3 (2, 2) = [true; false; false; true]
  /\ valid_actions 2 (0, 0) = [false; true; true; false].
Proof. vm_compute. repeat split; reflexivity. Qed.
