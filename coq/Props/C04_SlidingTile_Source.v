(* C04 SlidingTilePuzzle over the SOURCE-TRANSLATED `_get_valid_actions` (Gen/SlidingTileSrc.v; see C09_SlidingTile_Source.v):
   it is the model's mask on every position, hence exactly the set of legal moves. *)
Require Import JV.Base.Prelude JV.Base.JaxIndex JV.Base.Codec JV.Base.TimeStep JV.Gen.TimeStepSrc JV.Gen.SlidingTileSrc.
Require Import JV.Proofs.SlidingTile JV.Proofs.SlidingTile_Src.
Require JV.Model.SlidingTile.
Theorem C04_SlidingTile_Source_mask_is_model n e : get_valid_actions n e = JV.Model.SlidingTile.valid_actions n e.
Proof. exact (valid_src n e). Qed.
Theorem C04_SlidingTile_Source_mask_iff_legal n e a :
  JV.Model.SlidingTile.in_grid n e = true -> 0 <= a < 4 ->
  (jget false (get_valid_actions n e) a = true <-> JV.Model.SlidingTile.legal n e a).
Proof. intros He Ha. rewrite (valid_src n e). exact (mask_iff_legal n e a He Ha). Qed.
Print Assumptions C04_SlidingTile_Source_mask_iff_legal.
