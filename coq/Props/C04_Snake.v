(* C04 Snake: in every consistent state and for EVERY action 0..3 the mask entry is True exactly when the move is
   legal: the target cell is inside the board and is not on the body, except for the tail cell (value 1), which the
   tail vacates.  Judged also by the environment's own reaction: a masked-out move is LAST (C05), a masked-in move
   ends the episode only by completion or the time limit. *)
Require Import JV.Base.Prelude JV.Base.JaxIndex JV.Base.Codec JV.Base.TimeStep JV.Model.Snake JV.Proofs.Snake JV.Proofs.Snake_rules JV.Proofs.Snake_examples.
Theorem C04_Snake_mask_iff_legal R C T s a :
  Inv R C T s -> 0 <= a < 4 -> (jget false (amask s) a = true <-> legal R C s a).
Proof. exact (mask_iff_legal R C T s a). Qed.
Print Assumptions C04_Snake_mask_iff_legal.
Theorem C04_Snake_legal_never_invalid R C T s a d :
  Inv R C T s -> 0 <= a < 4 -> legal R C s a ->
  all_true (body (fst (step R C T s a d))) = false -> steps s + 1 < T -> st (snd (step R C T s a d)) = MID.
Proof. exact (legal_continues R C T s a d). Qed.
(* Inv holds after reset and after every non-terminal step, for ANY action *)
Theorem C04_Snake_inv_init R C T hd fr :
  0 < T -> in_grid R C hd -> valid_draw R C (body (fst (init R C hd fr))) fr = true -> Inv R C T (fst (init R C hd fr)).
Proof. exact (init_Inv R C T hd fr). Qed.
Theorem C04_Snake_inv_step R C T s a d :
  Inv R C T s -> 0 <= a < 4 -> draw_ok R C T s a d ->
  st (snd (step R C T s a d)) = MID -> Inv R C T (fst (step R C T s a d)).
Proof. exact (step_preserves_Inv R C T s a d). Qed.
Print Assumptions C04_Snake_inv_step.
(* the boolean checkers run on implementation states decide the same predicates *)
Theorem C04_Snake_checker R C s a : legal_b R C s a = true <-> legal R C s a.
Proof. exact (legal_b_spec R C s a). Qed.
Theorem C04_Snake_mask_checker_sound R C s a :
  mask_ok_b R C s = true -> 0 <= a < 4 -> (jget false (amask s) a = true <-> legal R C s a).
Proof. exact (mask_ok_b_sound R C s a). Qed.
Theorem C04_Snake_mask_checker_complete R C s : Phys R C s -> MaskOk R C s -> mask_ok_b R C s = true.
Proof. exact (mask_ok_b_spec R C s). Qed.
Example C04_Snake_nonvacuous :
  amask e2 = [true; false; true; false] /\ legal 3 3 e2 0 /\ ~ legal 3 3 e2 1 /\ legal 3 3 e2 2 /\ ~ legal 3 3 e2 3
  /\ target e2 1 = (1, 3) /\ target e2 3 = (1, 1) /\ bs_at e2 (1, 1) = 2
  /\ legal 3 3 e1 3 /\ bs_at e1 (target e1 3) = 1.
Proof. exact ex_mask. Qed.
