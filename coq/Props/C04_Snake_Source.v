(* C04 / C07 Snake over the SOURCE-TRANSLATED step and `_get_action_mask` (Gen/SnakeSrc.v; see C09_Snake_Source.v). *)
Require Import JV.Base.Prelude JV.Base.JaxIndex JV.Base.Codec JV.Base.TimeStep JV.Gen.TimeStepSrc JV.Gen.SnakeSrc.
Require Import JV.Proofs.Snake JV.Proofs.Snake_Src.
Require JV.Model.Snake.
Theorem C04_Snake_Source_mask_function_is_model R C hd bs : get_action_mask R C hd bs = JV.Model.Snake.action_mask R C hd bs.
Proof. exact (mask_src R C hd bs). Qed.
(* the translated mask function, on the head and body of any consistent state, is exactly the set of legal moves (inside the board
   and onto a free cell or the cell the tail vacates) *)
Theorem C04_Snake_Source_mask_function_exact R C T s b :
  Inv R C T (conv s) -> 0 <= b < 4 ->
  (jget false (get_action_mask R C (s_head_position s) (s_body_state s)) b = true <-> JV.Model.Snake.legal R C (conv s) b).
Proof. exact (src_mask_fn_legal R C T s b). Qed.
Print Assumptions C04_Snake_Source_mask_function_exact.
(* after ANY in-spec action of the translated step that continues the episode, the invariant (physical chain + exact mask + clock)
   holds again and the stored mask is exactly the set of legal moves *)
Theorem C04_Snake_Source_after_step R C T s a (draw : list (list bool) -> Z * Z) b :
  Inv R C T (conv s) -> 0 <= a < 4 -> draw_ok R C T (conv s) a (draw (new_body R C T s a)) ->
  st (snd (step R C T draw s a)) = MID -> 0 <= b < 4 ->
  let s' := fst (step R C T draw s a) in
  Inv R C T (conv s') /\ (jget false (s_action_mask s') b = true <-> JV.Model.Snake.legal R C (conv s') b).
Proof.
  intros I Ha D Hm Hb. exact (conj (src_inv_step R C T s a draw I Ha D Hm) (src_mask_iff_legal R C T s a draw b I Ha D Hm Hb)).
Qed.
Print Assumptions C04_Snake_Source_after_step.
