(* C04 Sudoku (9x9, the only size the code supports): for every state satisfying Inv (9x9 board over -1..8, cached mask = mask of
   the board; holds at reset and after ANY in-spec action) and EVERY action (r,c,d) of the 9x9x9 action space, the mask entry is
   True exactly when the cell is empty and the digit occurs nowhere in its row, its column and its 3x3 box.  The mask is the one
   the code computes (one_hot.any masks, BOX_IDX gather, multiply, BOX_IDX scatter, and-ing).                                  *)
Require Import JV.Base.Prelude JV.Base.JaxIndex JV.Base.Codec JV.Base.TimeStep JV.Model.Sudoku JV.Proofs.Sudoku.
Theorem C04_Sudoku_mask_iff_legal s r c d :
  Inv s -> in_spec r c d -> (mask_at (amask s) r c d = true <-> legal (board s) r c d).
Proof. exact (C04_mask_iff_legal s r c d). Qed.
Print Assumptions C04_Sudoku_mask_iff_legal.
(* the whole 9x9x9 array computed by get_action_mask is the table of legal placements *)
Theorem C04_Sudoku_mask_is_legal_table b : shape_b b = true -> get_action_mask b = legal_table b.
Proof. exact (gam_legal b). Qed.
Print Assumptions C04_Sudoku_mask_is_legal_table.
(* Inv holds on every reset state of a well-shaped database entry and is preserved by every in-spec action, legal or not *)
Theorem C04_Sudoku_inv_init p : shape_b (map (map (fun v => v - 1)) p) = true -> Inv (fst (init p)).
Proof. exact (init_Inv p). Qed.
Theorem C04_Sudoku_inv_step s r c d : Inv s -> in_spec r c d -> Inv (fst (step s r c d)).
Proof. exact (step_Inv s r c d). Qed.
Print Assumptions C04_Sudoku_inv_step.
(* the boolean checker run on implementation states decides the declarative predicate *)
Theorem C04_Sudoku_checker b r c d : legal_b b r c d = true <-> legal b r c d.
Proof. exact (legal_b_spec b r c d). Qed.
Example C04_Sudoku_nonvacuous :
  let s0 := fst (init sample_puzzle) in
  shape_b (board s0) = true /\ mask_at (amask s0) 0 0 1 = true /\ mask_at (amask s0) 0 0 7 = false
  /\ mask_at (amask s0) 0 3 0 = false /\ mask_at (amask (fst (step s0 0 0 1))) 0 1 1 = false.
Proof. vm_compute. repeat split. Qed.
