(* C04 TSP: for every well-shaped state and EVERY city a of the action space, the observed mask entry is True exactly when the
   city is unvisited (the rule), and exactly when the environment itself accepts the action (its own validity test);
   the whole mask is the map of the rule over the cities (the checker run on implementation states).  Under the state
   invariant "unvisited" means: not on the partial tour; a masked-in action is never treated as invalid (it is appended). *)
Require Import JV.Base.Prelude JV.Base.JaxIndex JV.Base.Codec JV.Base.TimeStep JV.Model.TSP JV.Proofs.TSP_lists JV.Proofs.TSP.
Theorem C04_TSP_mask_iff_legal n s a : zlen (visited s) = n -> 0 <= a < n -> (jget false (mask s) a = true <-> legal s a).
Proof. exact (C04_mask_iff_legal n s a). Qed.
Theorem C04_TSP_mask_iff_accepts n s a : zlen (visited s) = n -> 0 <= a < n -> jget false (mask s) a = valid s a.
Proof. exact (C04_mask_iff_accepts n s a). Qed.
Theorem C04_TSP_checker n s m : zlen (visited s) = n -> (list_eqb Bool.eqb m (map (legal_b s) (zrange n)) = true <-> m = mask s).
Proof. exact (C04_checker n s m). Qed.
Theorem C04_TSP_legal_iff_not_on_tour n s a : Inv n s -> 0 <= a < n -> (legal s a <-> ~ In a (tour_of s)).
Proof. exact (legal_iff_not_on_tour n s a). Qed.
Theorem C04_TSP_legal_never_invalid n pen dist rnd sparse s a : 0 <= n -> Inv n s -> 0 <= a < n -> legal s a ->
  fst (step_r rnd sparse n pen dist s a) = visit s a /\ tour_of (fst (step_r rnd sparse n pen dist s a)) = tour_of s ++ [a].
Proof. intro Hn. exact (C05_legal_accepted n pen dist Hn rnd sparse s a). Qed.
Print Assumptions C04_TSP_mask_iff_legal.
Print Assumptions C04_TSP_legal_never_invalid.
Example C04_TSP_nonvacuous :
  let s2 := fst (step false 4 99 ex_dist (fst (step false 4 99 ex_dist (fst (init 4 [0; 0; 3; 0; 7; 0; 12; 0])) 2)) 0) in
  Inv_b 4 s2 = true /\ mask s2 = [false; true; false; true] /\ map (legal_b s2) (zrange 4) = [false; true; false; true]
  /\ map (valid s2) (zrange 4) = [false; true; false; true] /\ tour_of s2 = [2; 0].
Proof. vm_compute. repeat split; reflexivity. Qed.
