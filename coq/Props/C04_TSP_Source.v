(* C04 TSP over the SOURCE-TRANSLATED observation (Gen/TspSrc.v; see C09_TSP_Source.v) *)
Require Import JV.Base.Prelude JV.Base.JaxIndex JV.Base.Codec JV.Base.TimeStep JV.Gen.TimeStepSrc JV.Gen.TspSrc.
Require Import JV.Proofs.TSP_lists JV.Proofs.TSP JV.Proofs.Tsp_Src.
Require JV.Model.TSP.
(* C04: the translated observation's mask entry is True exactly for the cities not yet visited *)
Theorem C04_TSP_Source_mask_iff_legal n s a : zlen (s_visited_mask s) = n -> 0 <= a < n ->
  (jget false (o_action_mask (state_to_observation s)) a = true <-> JV.Model.TSP.legal (conv s) a).
Proof. exact (src_mask_iff_legal n s a). Qed.
Print Assumptions C04_TSP_Source_mask_iff_legal.
