(* C04 Tetris: the action mask is exactly the set of legal placements.
   legal nc g t x  :=  every cell (i,j) of the rotated piece t put in the spawn rows at column x has x+j < num_cols, and
   that cell and every cell above it in its column is empty (the piece enters from above without collision).
   (a) after ANY step from a well-shaped state (any action, any draw) the new mask is the table of legal_b for the new
       grid and the new piece; (b) in a physical state mask[rot, x] = true <-> legal; (c) legal_b reflects legal. *)
Require Import JV.Base.Prelude JV.Base.JaxIndex JV.Base.Codec JV.Base.TimeStep JV.Gen.TetrisConsts JV.Model.Tetris.
Require Import JV.Proofs.Tetris JV.Proofs.Tetris_place JV.Proofs.Tetris_clear JV.Proofs.Tetris_phys JV.Proofs.Tetris_step.
Theorem C04_Tetris_mask_is_legal_after_step nr nc tl s rot x d :
  Shape nr nc (grid s) -> 4 <= nr -> 4 <= nc ->
  let s' := fst (fst (step nr nc tl s rot x d)) in amask s' = legal_mask nc (grid s') (tidx s').
Proof. exact (step_mask_legal nr nc tl s rot x d). Qed.
Print Assumptions C04_Tetris_mask_is_legal_after_step.
Theorem C04_Tetris_mask_iff_legal nr nc s rot x :
  Physical nr nc s -> 4 <= nr -> 4 <= nc -> 0 <= rot < 4 -> 0 <= x < nc ->
  (gget false (amask s) rot x = true <-> legal nc (grid s) (piece (tidx s) rot) x).
Proof. exact (mask_true_iff_legal nr nc s rot x). Qed.
Print Assumptions C04_Tetris_mask_iff_legal.
Theorem C04_Tetris_calc_mask nr nc g idx :
  Shape nr nc g -> 4 <= nr -> 4 <= nc -> calc_mask (clip1 g) idx = legal_mask nc g idx.
Proof. exact (mask_is_legal_mask nr nc g idx). Qed.
Print Assumptions C04_Tetris_calc_mask.
Theorem C04_Tetris_legal_b_reflects nc g t x : legal_b nc g t x = true <-> legal nc g t x.
Proof. exact (legal_b_spec nc g t x). Qed.
Print Assumptions C04_Tetris_legal_b_reflects.
(* a physical state with legal and illegal placements *)
Example C04_Tetris_nonvacuous :
  Physical_b 4 4 ex_s1 = true /\ gget false (amask ex_s1) 0 2 = true /\ gget false (amask ex_s1) 0 3 = false
  /\ gget false (amask ex_s0) 1 1 = false.
Proof. vm_compute. repeat split; reflexivity. Qed.
