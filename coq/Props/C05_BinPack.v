(* C05 BinPack: an action whose mask entry is false (for a current mask: exactly an illegal (ems, item) pair, C04) ends the
   episode (LAST, discount 0) with the documented reward - dense: 0, sparse: the CURRENT utilisation (numerator = volume placed so
   far) - and leaves container, EMSs, items, placements and locations untouched; a state whose stored mask/order are current is
   returned unchanged as a whole. *)
Require Import JV.Base.Prelude JV.Base.JaxIndex JV.Base.Codec JV.Base.TimeStep JV.Model.BinPack JV.Proofs.BinPack_lib JV.Proofs.BinPack JV.Proofs.BinPack_obs.
(* a concrete instance: container 4x2x2, two items 2x2x2 and one 3x2x2, buffer of 4 EMSs, 2 observed *)
Definition ex_c := make_container 4 2 2.
Definition ex_items := [mkIt 2 2 2; mkIt 2 2 2; mkIt 3 2 2].
Definition ex_s0 := fst (init 2 ex_c 4 ex_items [true; true; true]).
Definition ex_s1 := fst (step 2 false ex_s0 0 0).
Definition ex_s2 := fst (step 2 false ex_s1 0 1).
Theorem C05_BinPack_invalid obs sparse s a0 a1 :
  step_valid s a0 a1 = false ->
  let (s', t) := step obs sparse s a0 a1 in
  st t = LAST /\ discount t = [0] /\ reward t = [if sparse then pvol s else 0] /\
  container s' = container s /\ ems s' = ems s /\ ems_mask s' = ems_mask s /\ items s' = items s /\
  items_mask s' = items_mask s /\ items_placed s' = items_placed s /\ items_loc s' = items_loc s /\
  (consistent obs s -> s' = s).
Proof. exact (invalid_step obs sparse s a0 a1). Qed.
Theorem C05_BinPack_illegal_is_invalid n m obs s a0 a1 :
  shape n m s -> consistent obs s -> obs <= m -> inspec obs n a0 a1 -> ~ legal s a0 a1 -> step_valid s a0 a1 = false.
Proof. exact (illegal_is_invalid n m obs s a0 a1). Qed.
Print Assumptions C05_BinPack_invalid.
Example C05_BinPack_nonvacuous :
  step_valid ex_s1 0 0 = false /\ step_valid ex_s1 0 2 = false /\ step_valid ex_s1 1 1 = false
  /\ step 2 true ex_s1 0 2 = (ex_s1, termination 1 [8]) /\ step 2 false ex_s1 0 2 = (ex_s1, termination 1 [0]).
Proof. vm_compute. repeat split; reflexivity. Qed.
