(* C05 CVRP (terminate-on-invalid): an in-spec node that is illegal (the depot while at the depot, a served customer, a customer
   whose demand exceeds the remaining capacity) gives LAST with discount 0 and exactly the penalty (whose code [pen] the
   harness ties to the documented -2*num_nodes*sqrt(2) through the verified [penalty_b]), and the WHOLE state (position, capacity,
   visited mask, trajectory, visit counter, instance) is untouched - for both reward functions, every distance oracle with
   d(depot,depot) = 0.  Without any invariant: a refused node never changes the state. *)
Require Import JV.Base.Prelude JV.Base.JaxIndex JV.Base.Codec JV.Base.TimeStep JV.Model.CVRP JV.Proofs.CVRP.
Theorem C05_CVRP_illegal_node dist (dist00 : dist 0 0 = 0) n mc s h sp pen a :
  Inv n mc s h -> 0 <= a <= n -> ~ legal n s a -> step sp mc pen dist s a = (s, termination 1 [- pen]).
Proof. exact (C05_illegal_node dist dist00 n mc s h sp pen a). Qed.
Print Assumptions C05_CVRP_illegal_node.
Theorem C05_CVRP_refused_any_state dist rnd sp mc pen s a : valid s a = false ->
  let p := step_r rnd sp mc pen dist s a in
  fst p = s /\ st (snd p) = LAST /\ discount (snd p) = [0] /\ (sp = true \/ all_visited s = false -> reward (snd p) = [- pen]).
Proof. exact (C05_refused_any_state dist rnd sp mc pen s a). Qed.
(* the penalty code p at scale sc is within tol of the real number 2*n*sqrt(2):  (p-tol)^2 <= 8 n^2 sc^2 <= (p+tol)^2 *)
Theorem C05_CVRP_penalty_b n sc tol p : penalty_b n sc tol p = true ->
  0 <= p - tol /\ (p - tol) * (p - tol) <= 8 * n * n * sc * sc <= (p + tol) * (p + tol).
Proof. unfold penalty_b. rewrite !andb_true_iff. lia. Qed.
Example C05_CVRP_nonvacuous :
  let d := fun i j => 10 * Z.abs (i - j) in
  let s0 := fst (init 2 3 [1; 2; 2]) in
  let s1 := fst (step false 3 99 d s0 1) in
  step true 3 99 d s0 0 = (s0, termination 1 [-99])          (* depot while at the depot *)
  /\ step false 3 99 d s1 1 = (s1, termination 1 [-99])      (* served customer *)
  /\ step false 3 99 d s1 2 = (s1, termination 1 [-99])      (* demand 2 > remaining capacity 1 *)
  /\ penalty_b 20 1000000 1 56568542 = true /\ penalty_b 20 1000000 1 56568545 = false.
Proof. vm_compute. repeat split; reflexivity. Qed.
