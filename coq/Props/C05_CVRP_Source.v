(* C05 CVRP over the SOURCE-TRANSLATED state part of the step (Gen/CvrpSrc.v; see C09_CVRP_Source.v; the reward function is the model's): a
   refused node -- in ANY state -- leaves the state untouched and ends the episode with zero discount; the penalty is paid. *)
Require Import JV.Base.Prelude JV.Base.JaxIndex JV.Base.Codec JV.Base.TimeStep JV.Gen.TimeStepSrc JV.Gen.CvrpSrc JV.Proofs.CVRP JV.Proofs.Cvrp_Src.
Require JV.Model.CVRP.
Theorem C05_CVRP_Source_refused_any_state dist rnd sp mc pen s a : JV.Model.CVRP.valid (conv s) a = false ->
  let p := step mc (reward_model rnd sp pen dist) s a in
  conv (fst p) = conv s /\ st (snd p) = LAST /\ discount (snd p) = [0]
  /\ (sp = true \/ JV.Model.CVRP.all_visited (conv s) = false -> reward (snd p) = [- pen]).
Proof. exact (src_refused_any_state dist rnd sp mc pen s a). Qed.
Print Assumptions C05_CVRP_Source_refused_any_state.
