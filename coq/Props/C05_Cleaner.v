(* C05 Cleaner (docs: "the episode terminates if ... an invalid action is taken / blocked by a wall. In both cases,
   the agent's position remains unchanged"; reward = tiles cleaned - penalty, no special invalid-move penalty):
   if agent i's in-spec action is illegal the step is LAST with discount 0, agent i keeps its position and the reward
   is the documented tiles-cleaned-minus-penalty; if every agent's action is illegal the grid and all positions are
   untouched.  (Agents whose own action is legal still move and clean on that step: that is what the code does and
   what the docs say per agent.) *)
Require Import JV.Base.Prelude JV.Base.JaxIndex JV.Base.Codec JV.Base.TimeStep JV.Model.Cleaner JV.Proofs.Cleaner.
Theorem C05_Cleaner_illegal c s acts i :
  Inv c s -> zlen acts = nag c -> in_spec acts -> 0 <= i < nag c ->
  ~ legal (rows c) (cols c) (grid s) (znth (0, 0) (locs s) i) (znth 0 acts i) ->
  let r := step c s acts in
  st (snd r) = LAST /\ discount (snd r) = [0]
  /\ znth (0, 0) (locs (fst r)) i = znth (0, 0) (locs s) i
  /\ reward (snd r) = [4 * (count_dirty (grid s) - count_dirty (grid (fst r))) - pen c].
Proof. exact (C05_illegal c s acts i). Qed.
Print Assumptions C05_Cleaner_illegal.
Theorem C05_Cleaner_all_illegal_untouched c s acts :
  Inv c s -> zlen acts = nag c -> in_spec acts ->
  (forall i, 0 <= i < nag c -> ~ legal (rows c) (cols c) (grid s) (znth (0, 0) (locs s) i) (znth 0 acts i)) ->
  grid (fst (step c s acts)) = grid s /\ locs (fst (step c s acts)) = locs s.
Proof. exact (C05_all_illegal_untouched c s acts). Qed.
Print Assumptions C05_Cleaner_all_illegal_untouched.
Example C05_Cleaner_nonvacuous :
  Inv_b ex_cfg ex_s0 = true
  /\ legal_b 2 3 (grid ex_s0) (0, 0) 2 = false /\ legal_b 2 3 (grid ex_s0) (0, 0) 0 = false
  /\ st (snd (step ex_cfg ex_s0 [1; 2])) = LAST /\ locs (fst (step ex_cfg ex_s0 [1; 2])) = [(0, 1); (0, 0)]
  /\ grid (fst (step ex_cfg ex_s0 [0; 3])) = grid ex_s0.
Proof. vm_compute. repeat split; reflexivity. Qed.
