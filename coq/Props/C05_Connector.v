(* C05 Connector (ignore-invalid): an illegal move is exactly a no-op.  For every state with a well-shaped grid and every
   in-spec joint action, the whole step result (successor grid, agents, step count, masks, step type, rewards, discounts)
   is the one of the same joint action with every illegal move replaced by the no-op: the offending agent keeps its
   position, nothing is written on its behalf, and the episode continues exactly as it would have. *)
Require Import JV.Base.Prelude JV.Base.JaxIndex JV.Base.Codec JV.Base.TimeStep JV.Model.Connector JV.Proofs.Connector.
Theorem C05_Connector_illegal_is_noop c s acts :
  dims (gsz c) (grid s) -> Forall (fun a => 0 <= a <= 4) acts ->
  step c s (sanitise (gsz c) (grid s) (agents s) acts) = step c s acts.
Proof. exact (C05_illegal_is_noop c s acts). Qed.
(* and the no-op itself leaves agent and grid alone in the per-agent step *)
Theorem C05_Connector_noop G ag g : step_agent G ag g 0 = (ag, g).
Proof. exact (step_agent_noop G ag g). Qed.
Print Assumptions C05_Connector_illegal_is_noop.
Example C05_Connector_nonvacuous :
  sanitise 3 (grid ex_s0) (agents ex_s0) [1; 3] = [0; 3] /\ sanitise 3 (grid ex_s0) (agents ex_s0) [4; 2] = [0; 2]
  /\ map apos (agents (next ex_cfg ex_s0 [1; 3])) = [(0, 0); (2, 1)] /\ st (tsof ex_cfg ex_s0 [1; 3]) = MID.
Proof. vm_compute. repeat split; reflexivity. Qed.
