(* C05 FlatPack: an action the mask rejects is ignored -- for ANY state and ANY index tuple: grid, placed blocks and block
   set untouched, the mask is recomputed from the unchanged state, reward 0, the step counter advances and the episode
   continues (MID) unless the structural horizon num_blocks is reached by this very step. *)
Require Import JV.Base.Prelude JV.Base.JaxIndex JV.Base.Codec JV.Base.TimeStep JV.Model.FlatPack JV.Proofs.FlatPack JV.Proofs.FlatPack_Pack.
Theorem C05_FlatPack_illegal_ignored cf s b k r c :
  mask_get (amask s) b k r c = false ->
  let s' := fst (step cf s b k r c) in let t := snd (step cf s b k r c) in
  grid s' = grid s /\ placed s' = placed s /\ blocks s' = blocks s /\ num_blocks s' = num_blocks s /\
  step_count s' = step_count s + 1 /\
  amask s' = make_mask (cR cf) (cC cf) (cN cf) (grid s) (blocks s) (placed s) /\
  reward t = [0] /\ (st t = MID <-> step_count s + 1 < num_blocks s).
Proof. exact (illegal_ignored cf s b k r c). Qed.
(* with the invariant: the whole state except the counter is unchanged, the mask included *)
Theorem C05_FlatPack_mask_unchanged cf s b k r c :
  StateOK cf s -> mask_get (amask s) b k r c = false -> amask (fst (step cf s b k r c)) = amask s.
Proof. intros OK M. rewrite (ok_mask cf s OK). exact (proj1 (proj2 (proj2 (proj2 (proj2 (proj2 (illegal_ignored cf s b k r c M))))))). Qed.
Print Assumptions C05_FlatPack_illegal_ignored.
Print Assumptions C05_FlatPack_mask_unchanged.
Example C05_FlatPack_nonvacuous :
  let cf := mkC 5 5 4 0 in let s := fst (step cf (fst (init cf toy_blocks_rot)) 0 2 0 0) in
  mask_get (amask s) 1 0 0 0 = false /\ st (snd (step cf s 1 0 0 0)) = MID /\ grid (fst (step cf s 1 0 0 0)) = grid s.
Proof. vm_compute. repeat split; reflexivity. Qed.
