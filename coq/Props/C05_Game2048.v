(* C05 Game2048 (ignore-invalid): a masked-out action leaves board, mask and score untouched, earns reward 0, spawns nothing
   (whatever the draw would have been), only the step counter advances; the episode continues when some move is legal. *)
Require Import JV.Base.Prelude JV.Base.JaxIndex JV.Base.Codec JV.Base.TimeStep JV.Model.Game2048
  JV.Proofs.Game2048_Row JV.Proofs.Game2048_Board JV.Proofs.Game2048.
Theorem C05_Game2048_illegal_ignored n s a idx v : Inv n s -> 0 <= a < 4 -> jget false (amask s) a = false ->
  step n s a idx v = Some (mkS (board s) (amask s) (score s) (step_count s + 1),
                           cond_done 1 (negb (existsb id (amask s))) [0]).
Proof. exact (illegal_ignored n s a idx v). Qed.
Print Assumptions C05_Game2048_illegal_ignored.
Theorem C05_Game2048_illegal_continues n s a idx v : Inv n s -> 0 <= a < 4 -> jget false (amask s) a = false ->
  existsb id (amask s) = true ->
  exists s' t, step n s a idx v = Some (s', t) /\ st t = MID /\ reward t = [0] /\ board s' = board s
               /\ amask s' = amask s /\ score s' = score s.
Proof. exact (illegal_continues n s a idx v). Qed.
Print Assumptions C05_Game2048_illegal_continues.
Example C05_Game2048_nonvacuous :
  let s := mkS [[1;0];[2;0]] (rules_mask 2 [[1;0];[2;0]]) 4 7 in
  Inv 2 s /\ jget false (amask s) 3 = false /\ existsb id (amask s) = true
  /\ step 2 s 3 1 2 = Some (mkS [[1;0];[2;0]] (amask s) 4 8, transition 1 [0]).
Proof.
  split; [|vm_compute; repeat split; reflexivity].
  split; [apply wf_b_spec; reflexivity|]. split; [apply nonneg_b_spec; reflexivity|reflexivity].
Qed.
