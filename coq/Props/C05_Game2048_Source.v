(* C05 Game2048 over the SOURCE-TRANSLATED step (Gen/Game2048Src.v; see C09_Game2048_Source.v): a move whose stored mask entry is False leaves the
   board, the mask and the score untouched -- no tile is added -- only the step counter advances; the reward is 0 and the step is LAST only
   if no move at all was legal. *)
Require Import JV.Base.Prelude JV.Base.JaxIndex JV.Base.Codec JV.Base.TimeStep JV.Gen.TimeStepSrc JV.Gen.Game2048Src JV.Proofs.Game2048_Row JV.Proofs.Game2048_Board JV.Proofs.Game2048 JV.Proofs.Game2048_Src.
Require JV.Model.Game2048.
Theorem C05_Game2048_Source_illegal_ignored n di dv s a : Inv n (conv s) -> 0 <= a < 4 -> jget false (s_action_mask s) a = false ->
  conv (fst (step n (mv_model n) (cm_model n) di dv s a))
    = JV.Model.Game2048.mkS (s_board s) (s_action_mask s) (s_score s) (s_step_count s + 1)
  /\ snd (step n (mv_model n) (cm_model n) di dv s a) = cond_done 1 (negb (existsb id (s_action_mask s))) [0].
Proof. exact (src_illegal_ignored n di dv s a). Qed.
Print Assumptions C05_Game2048_Source_illegal_ignored.
