(* C05 GraphColoring (terminate-on-invalid): a masked-out colour gives LAST with reward -num_nodes; the graph is untouched *)
Require Import JV.Base.Prelude JV.Base.JaxIndex JV.Base.Codec JV.Base.TimeStep JV.Model.GraphColoring JV.Proofs.GraphColoring.
Theorem C05_GraphColoring_invalid_terminates n s a :
  jget false (amask s) a = false ->
  snd (step n s a) = termination 1 [- n] /\ adj (fst (step n s a)) = adj s.
Proof. exact (invalid_terminates n s a). Qed.
Print Assumptions C05_GraphColoring_invalid_terminates.
