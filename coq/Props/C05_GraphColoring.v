(* C05 GraphColoring (terminate-on-invalid).  docs/environments/graph_coloring.md: "If an invalid action is attempted, the
   episode immediately terminates and the agent receives a large negative reward"; env.py docstring: "the reward is the
   negative of the total number of colors".  Nothing is promised about the state, and the code does NOT leave it alone:
   a masked-out colour gives LAST, reward -num_nodes, discount 0, and the state component is computed exactly as for a
   legal colour - the illegal colour IS written into colors[current node], the node index advances ((cur+1) mod n), the
   mask is recomputed; only the graph is untouched.  On every state of the weak invariant (reset, closed under every in-spec
   colour) this means: the emitted terminal colouring contains the illegal colour at the current node, every other node
   keeps its colour, and the colouring is NOT proper (the node and one of its neighbours share the colour).
   Conversely a legal colour is never punished. *)
Require Import JV.Base.Prelude JV.Base.JaxIndex JV.Base.Codec JV.Base.TimeStep JV.Model.GraphColoring JV.Proofs.GraphColoring
  JV.Proofs.GraphColoring_rules JV.Proofs.GraphColoring_episode JV.Proofs.GraphColoring_gen.
Theorem C05_GraphColoring_invalid_terminates n s a :
  jget false (amask s) a = false ->
  snd (step n s a) = termination 1 [- n] /\ adj (fst (step n s a)) = adj s.
Proof. exact (invalid_terminates n s a). Qed.
Print Assumptions C05_GraphColoring_invalid_terminates.
Theorem C05_GraphColoring_invalid_exact n s a :
  jget false (amask s) a = false ->
  step n s a = (mkS (adj s) (jset (colors s) (cur s) a) ((cur s + 1) mod n)
                    (valid_actions n ((cur s + 1) mod n) (adj s) (jset (colors s) (cur s) a)),
                termination 1 [- n]).
Proof. exact (C05_invalid_exact n s a). Qed.
Theorem C05_GraphColoring_state_independent_of_validity n s a :
  fst (step n s a) = mkS (adj s) (jset (colors s) (cur s) a) ((cur s + 1) mod n)
                         (valid_actions n ((cur s + 1) mod n) (adj s) (jset (colors s) (cur s) a)).
Proof. exact (C05_state_independent_of_validity n s a). Qed.
Theorem C05_GraphColoring_invalid_colour_is_written n s a :
  0 < n -> Inv0 n s -> 0 <= a < n -> ~ legal n (adj s) (colors s) (cur s) a ->
  let s' := fst (step n s a) in
  snd (step n s a) = termination 1 [- n]
  /\ adj s' = adj s
  /\ color_of (colors s') (cur s) = a
  /\ (forall j, 0 <= j < n -> j <> cur s -> color_of (colors s') j = color_of (colors s) j)
  /\ cur s' = next_node n (cur s)
  /\ (exists j, 0 <= j < n /\ j <> cur s /\ edge (adj s) (cur s) j = true
                /\ color_of (colors s') j = color_of (colors s') (cur s) /\ 0 <= color_of (colors s') j)
  /\ ~ proper n (adj s') (colors s').
Proof. exact (C05_invalid_colour_is_written n s a). Qed.
Print Assumptions C05_GraphColoring_invalid_colour_is_written.
Theorem C05_GraphColoring_legal_colour_accepted n s a :
  0 < n -> Inv0 n s -> 0 <= a < n -> legal n (adj s) (colors s) (cur s) a ->
  let s' := fst (step n s a) in
  snd (step n s a) = (if complete_b n (colors s') then termination 1 [- colours_used n (colors s')] else transition 1 [0])
  /\ colors s' = paint n (colors s) (cur s) a.
Proof. exact (C05_legal_colour_accepted n s a). Qed.
Print Assumptions C05_GraphColoring_legal_colour_accepted.
Example C05_GraphColoring_nonvacuous :
  let adj0 := gen_adj 3 [[true;true;true];[true;true;true];[false;true;true]] in
  let s1 := fst (step 3 (fst (init 3 adj0)) 0) in
  edge adj0 1 0 = true /\ legal_b 3 adj0 (colors s1) (cur s1) 0 = false /\ jget false (amask s1) 0 = false
  /\ step 3 s1 0 = (mkS adj0 [0; 0; -1] 2 [false; true; true], termination 1 [-3])
  /\ proper_b 3 adj0 (colors s1) = true /\ proper_b 3 adj0 (colors (fst (step 3 s1 0))) = false.
Proof. vm_compute. repeat split; reflexivity. Qed.
