(* C05 GraphColoring over the SOURCE-TRANSLATED step (Gen/GraphColoringSrc.v; see C09_GraphColoring_Source.v): a colour whose stored mask entry
   is False ends the episode with reward -num_nodes and zero discount; the graph is untouched. *)
Require Import JV.Base.Prelude JV.Base.JaxIndex JV.Base.Codec JV.Base.TimeStep JV.Gen.TimeStepSrc JV.Gen.GraphColoringSrc JV.Proofs.GraphColoring_Src.
Require JV.Model.GraphColoring.
Theorem C05_GraphColoring_Source_invalid_terminates n s a : zlen (s_colors s) = n -> jget false (s_action_mask s) a = false ->
  snd (step n s a) = termination 1 [- n] /\ s_adj_matrix (fst (step n s a)) = s_adj_matrix s.
Proof. exact (src_invalid_terminates n s a). Qed.
Print Assumptions C05_GraphColoring_Source_invalid_terminates.
