(* C05 JobShop (terminate-on-invalid): an in-spec joint action in which some machine picks a masked-out job - in particular any
   action giving the same job to two machines - ends the episode (LAST, discount 0) with exactly the documented penalty
   -num_jobs*max_num_ops*max_op_duration; conversely an action inside the mask is never treated as invalid.
   (docs/environments/job_shop.md promises nothing about the state after an invalid action.) *)
Require Import JV.Base.Prelude JV.Base.JaxIndex JV.Base.Codec JV.Base.TimeStep JV.Proofs.TimeStep_laws.
Require Import JV.Model.JobShop JV.Proofs.JobShop_lib JV.Proofs.JobShop_step JV.Proofs.JobShop_sched JV.Proofs.JobShop_episode JV.Proofs.JobShop_gen.
Theorem C05_JobShop_invalid_terminates c s act : shape c s -> mask_fresh c s -> in_spec c act -> ~ valid_action c s act ->
  snd (step c s act) = termination 1 [- (nj c * no c * nd c)].
Proof. exact (invalid_terminates c s act). Qed.
Theorem C05_JobShop_same_job_twice_invalid c s act m1 m2 : 0 <= m1 < nm c -> 0 <= m2 < nm c -> m1 <> m2 ->
  act_at act m1 = act_at act m2 -> act_at act m1 <> nj c -> shape c s -> ~ valid_action c s act.
Proof. exact (same_job_invalid c s act m1 m2). Qed.
Theorem C05_JobShop_invalid_iff c s act : shape c s -> mask_fresh c s -> in_spec c act ->
  (invalid_b c s act = false <-> valid_action c s act).
Proof. exact (invalid_b_false c s act). Qed.
Theorem C05_JobShop_valid_not_penalised_unless_idle c s act : shape c s -> mask_fresh c s -> in_spec c act -> valid_action c s act ->
  let s' := fst (step c s act) in
  snd (step c s act) =
    if all_idle_b c (mjob s') (mrem s') then termination 1 [penalty c]
    else if finished_b c (omask s') (mrem s') then termination 1 [-1] else transition 1 [-1].
Proof. exact (valid_step_ts c s act). Qed.
Print Assumptions C05_JobShop_invalid_terminates.
Definition toy_s0 := fst (init toy_cfg toy_mach toy_dur).
Definition toy_acts : list (list Z) := [[3;4;0;1];[5;5;5;5];[5;5;1;0];[5;2;5;5];[4;5;5;3];[3;0;5;2];[1;4;0;5];[3;5;5;5]].
Example C05_JobShop_nonvacuous :
  snd (step toy_cfg toy_s0 [0;5;5;5]) = termination 1 [-80]          (* job 0 is masked out on machine 0 *)
  /\ snd (step toy_cfg toy_s0 [3;2;5;5]) = transition 1 [-1]
  /\ snd (step toy_cfg toy_s0 [5;2;2;5]) = termination 1 [-80]       (* job 2 on two machines *)
  /\ invalid_b toy_cfg toy_s0 [5;2;2;5] = true /\ invalid_b toy_cfg toy_s0 [3;2;5;5] = false.
Proof. vm_compute. repeat split; reflexivity. Qed.
