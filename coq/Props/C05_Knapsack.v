(* C05 Knapsack (terminate-on-invalid): an in-spec item that is already packed or heavier than the remaining budget gives
   LAST with reward 0 and discount 0, and the WHOLE state (packed items, remaining budget, instance) is untouched -
   for both reward functions and every rounding of the budget subtraction (exact or float32). *)
Require Import JV.Base.Prelude JV.Base.JaxIndex JV.Base.Codec JV.Base.TimeStep JV.Model.Knapsack JV.Proofs.Knapsack.
Theorem C05_Knapsack_illegal_item n rnd sparse s a :
  shape n s -> 0 <= a < n -> ~ legal s a -> step_r rnd sparse s a = (s, termination 1 [0]).
Proof. exact (C05_illegal_item n rnd sparse s a). Qed.
Print Assumptions C05_Knapsack_illegal_item.
(* and only illegal items are refused: a legal one is packed and pays its weight *)
Theorem C05_Knapsack_legal_item_accepted n sparse s a :
  shape n s -> 0 <= a < n -> legal s a -> fst (step sparse s a) = pack s a.
Proof. exact (C05_legal_item_accepted n sparse s a). Qed.
Print Assumptions C05_Knapsack_legal_item_accepted.
Example C05_Knapsack_nonvacuous :
  let s := mkS [512; 513; 100] [1; 2; 3] [false; false; true] 512 in
  shape 3 s /\ ~ legal s 1 /\ ~ legal s 2
  /\ step true s 1 = (s, termination 1 [0]) /\ step false s 2 = (s, termination 1 [0])
  /\ step_r rne24 false s 2 = (s, termination 1 [0]) /\ packed (fst (step false s 0)) = [true; false; true].
Proof. vm_compute. repeat split; try reflexivity; intuition (try discriminate; try lia). Qed.
