(* C05 Knapsack over the SOURCE-TRANSLATED step (Gen/KnapsackSrc.v; see C09_Knapsack_Source.v): an item that is packed already or does not fit
   ends the episode with zero reward and leaves the state untouched -- for every rounding of the one inexact float operation. *)
Require Import JV.Base.Prelude JV.Base.JaxIndex JV.Base.Codec JV.Base.TimeStep JV.Gen.TimeStepSrc JV.Gen.KnapsackSrc JV.Proofs.Knapsack_Src.
Require JV.Model.Knapsack.
Theorem C05_Knapsack_Source_illegal_item n rnd sparse s a :
  JV.Model.Knapsack.shape n (conv s) -> 0 <= a < n -> ~ JV.Model.Knapsack.legal (conv s) a ->
  conv (fst (step rnd (reward_src sparse) s a)) = conv s /\ snd (step rnd (reward_src sparse) s a) = termination 1 [0].
Proof. exact (src_illegal_item n rnd sparse s a). Qed.
Print Assumptions C05_Knapsack_Source_illegal_item.
