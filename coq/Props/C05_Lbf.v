(* C05 LevelBasedForaging (ignore-invalid): an illegal move or load is ignored and the episode continues.
   - replacing every illegal move of a joint action by NOOP gives the SAME step (state, rewards, step type, discount),
     for every state and every joint action: nothing happens on behalf of an illegal move;
   - the agent playing it keeps its cell, id and level;
   - an agent playing LOAD with no uneaten food adjacent keeps its cell and contributes level 0 to the loading of EVERY
     food: nothing is eaten and no share is paid on its behalf (only its loading flag is set);
   - no illegal action ends the episode: LAST iff all food eaten or the time limit (C11_Lbf_last_iff). *)
From Coq Require Import QArith.
Require Import JV.Base.Prelude JV.Base.JaxIndex JV.Base.Codec JV.Base.TimeStep JV.Model.Lbf JV.Proofs.Lbf.
Open Scope Z_scope.
Theorem C05_Lbf_illegal_moves_ignored c s acts : step c s (sanitize (gsz c) s acts) = step c s acts.
Proof. exact (C05_illegal_moves_ignored c s acts). Qed.
Theorem C05_Lbf_illegal_move_stays c s acts a k :
  In (a, k) (combine (agents s) acts) -> 1 <= k <= 4 -> legal_b (gsz c) s a k = false ->
  let a' := settle (map (sim_move (gsz c) (agents s) (foods s)) (combine (agents s) acts)) (gsz c) (agents s) (foods s) (a, k) in
  In a' (step_agents c s acts) /\ apos a' = apos a /\ aid a' = aid a /\ alvl a' = alvl a /\ aload a' = false.
Proof. exact (C05_illegal_move_stays c s acts a k). Qed.
Theorem C05_Lbf_illegal_load_ignored c s acts a :
  In (a, LOAD) (combine (agents s) acts) -> legal_b (gsz c) s a LOAD = false ->
  let a' := settle (map (sim_move (gsz c) (agents s) (foods s)) (combine (agents s) acts)) (gsz c) (agents s) (foods s) (a, LOAD) in
  In a' (step_agents c s acts) /\ apos a' = apos a
  /\ forall f, In f (foods s) -> (adjacent (ax a') (ay a') (fx f) (fy f) && aload a' && negb (featen f)) = false.
Proof. exact (C05_illegal_load_ignored c s acts a). Qed.
Theorem C05_Lbf_episode_continues c s acts :
  st (snd (step c s acts)) = LAST <-> (other_cause c s acts = true \/ tlim c <= cnt s + 1).
Proof. exact (C11_last_iff c s acts). Qed.
Print Assumptions C05_Lbf_illegal_moves_ignored.
Print Assumptions C05_Lbf_illegal_load_ignored.
Example C05_Lbf_nonvacuous :
  (* agent 0 at (1,0): LEFT leaves the grid, RIGHT runs into food 0; agent 1 at (2,2): LOAD with no food adjacent *)
  legal_b 5 ex_s0 (mkA 0 1 0 1 false) 3 = false /\ legal_b 5 ex_s0 (mkA 0 1 0 1 false) 4 = false
  /\ legal_b 5 ex_s0 (mkA 1 2 2 2 false) 5 = false
  /\ sanitize 5 ex_s0 [4; 5] = [0; 5]
  /\ map apos (agents (fst (step ex_cfg ex_s0 [4; 5]))) = map apos (agents ex_s0)
  /\ foods (fst (step ex_cfg ex_s0 [4; 5])) = foods ex_s0 /\ st (snd (step ex_cfg ex_s0 [4; 5])) = MID.
Proof. vm_compute. repeat split; reflexivity. Qed.
