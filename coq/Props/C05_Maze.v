(* C05 Maze (ignore-invalid): an in-spec action whose mask entry is False leaves the agent, the target, the walls
   and the mask untouched; only the step counter advances.  The reward is 0 unless the agent already stands on the
   target, and the step is LAST only for an independent cause (already on target, time limit, agent walled in):
   otherwise the episode continues (MID). *)
Require Import JV.Base.Prelude JV.Base.JaxIndex JV.Base.Codec JV.Base.TimeStep JV.Model.MazeGen JV.Model.Maze JV.Proofs.MazeGen JV.Proofs.Maze.
Theorem C05_Maze_illegal_ignored rows cols T s a :
  Physical rows cols s -> 0 <= a < 4 -> jget false (amask s) a = false ->
  let s' := fst (step rows cols T s a) in
  let t := snd (step rows cols T s a) in
  ar s' = ar s /\ ac s' = ac s /\ tr s' = tr s /\ tc s' = tc s /\ walls s' = walls s /\ amask s' = amask s
  /\ sc s' = sc s + 1
  /\ reward t = [b2z ((ar s =? tr s) && (ac s =? tc s))]
  /\ (st t = LAST <-> ((ar s = tr s /\ ac s = tc s) \/ T <= sc s + 1
                       \/ forall k, 0 <= k < 4 -> ~ legal rows cols (walls s) (ar s) (ac s) k))
  /\ (st t = MID \/ st t = LAST).
Proof. exact (illegal_ignored rows cols T s a). Qed.
Print Assumptions C05_Maze_illegal_ignored.
Example C05_Maze_nonvacuous :
  let s0 := fst toy_init in
  Physical_b 5 5 s0 = true /\ jget false (amask s0) 1 = false
  /\ ar (fst (step 5 5 25 s0 1)) = 0 /\ ac (fst (step 5 5 25 s0 1)) = 0 /\ st (snd (step 5 5 25 s0 1)) = MID
  /\ reward (snd (step 5 5 25 s0 1)) = [0].
Proof. vm_compute. repeat split; reflexivity. Qed.
