(* C05 Maze over the SOURCE-TRANSLATED step (Gen/MazeSrc.v, regenerated from /repo on every run; see C09_Maze_Source.v): an in-spec action
   whose stored mask entry is False leaves the agent, the target, the walls and the mask untouched; only the step counter advances; the
   step is LAST only for an independent cause (already on the target, time limit, agent walled in). *)
Require Import JV.Base.Prelude JV.Base.JaxIndex JV.Base.Codec JV.Base.TimeStep JV.Gen.TimeStepSrc JV.Gen.MazeSrc JV.Proofs.Maze_Src.
Require JV.Model.Maze.
Theorem C05_Maze_Source_illegal_ignored rows cols T s a :
  JV.Model.Maze.Physical rows cols (conv s) -> 0 <= a < 4 -> jget false (s_action_mask s) a = false ->
  let s' := conv (fst (step rows cols T s a)) in
  let t := snd (step rows cols T s a) in
  JV.Model.Maze.ar s' = JV.Model.Maze.ar (conv s) /\ JV.Model.Maze.ac s' = JV.Model.Maze.ac (conv s) /\ JV.Model.Maze.tr s' = JV.Model.Maze.tr (conv s)
  /\ JV.Model.Maze.tc s' = JV.Model.Maze.tc (conv s) /\ JV.Model.Maze.walls s' = JV.Model.Maze.walls (conv s)
  /\ JV.Model.Maze.amask s' = JV.Model.Maze.amask (conv s) /\ JV.Model.Maze.sc s' = JV.Model.Maze.sc (conv s) + 1
  /\ reward t = [b2z ((JV.Model.Maze.ar (conv s) =? JV.Model.Maze.tr (conv s)) && (JV.Model.Maze.ac (conv s) =? JV.Model.Maze.tc (conv s)))]
  /\ (st t = LAST <-> ((JV.Model.Maze.ar (conv s) = JV.Model.Maze.tr (conv s) /\ JV.Model.Maze.ac (conv s) = JV.Model.Maze.tc (conv s))
                       \/ T <= JV.Model.Maze.sc (conv s) + 1
                       \/ forall k, 0 <= k < 4 -> ~ JV.Model.Maze.legal rows cols (JV.Model.Maze.walls (conv s)) (JV.Model.Maze.ar (conv s)) (JV.Model.Maze.ac (conv s)) k))
  /\ (st t = MID \/ st t = LAST).
Proof. exact (src_illegal_ignored rows cols T s a). Qed.
Print Assumptions C05_Maze_Source_illegal_ignored.
