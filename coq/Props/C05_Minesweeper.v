(* C05 Minesweeper (docs: "If either a mined square or an already explored square is selected, the episode terminates";
   reward 0 by default, configurable): on every physically consistent state and for every in-spec action
   - an explored square gives LAST, discount 0, the configured invalid-action reward; the board and the mines are
     untouched (the square is re-written with the value it already shows), only step_count advances;
   - an unexplored mined square gives LAST, discount 0, the configured mine reward; only that square changes;
   - conversely the episode continues only after an unexplored, unmined square, with the empty-square reward. *)
Require Import JV.Base.Prelude JV.Base.JaxIndex JV.Base.Codec JV.Base.TimeStep JV.Model.Minesweeper.
Require Import JV.Proofs.Minesweeper_lists JV.Proofs.Minesweeper_count JV.Proofs.Minesweeper.
Theorem C05_Minesweeper_explored_terminates rc rows cols nm s r c :
  Phys rows cols nm s -> 0 <= r < rows -> 0 <= c < cols -> cell (board s) r c <> -1 ->
  step rc rows cols s r c = (mkS (board s) (step_count s + 1) (mines s), termination 1 [r_invalid rc]).
Proof. exact (explored_terminates rc rows cols nm s r c). Qed.
Print Assumptions C05_Minesweeper_explored_terminates.
Theorem C05_Minesweeper_mine_terminates rc rows cols nm s r c :
  Phys rows cols nm s -> 0 <= r < rows -> 0 <= c < cols -> cell (board s) r c = -1 -> is_mine rows cols (mines s) r c = true ->
  snd (step rc rows cols s r c) = termination 1 [r_mine rc]
  /\ mines (fst (step rc rows cols s r c)) = mines s
  /\ forall r' c', 0 <= r' < rows -> 0 <= c' < cols -> (r', c') <> (r, c) ->
       cell (board (fst (step rc rows cols s r c))) r' c' = cell (board s) r' c'.
Proof. exact (mine_terminates rc rows cols nm s r c). Qed.
Print Assumptions C05_Minesweeper_mine_terminates.
Theorem C05_Minesweeper_continues_only_on_safe_reveal rc rows cols nm s r c :
  Phys rows cols nm s -> 0 <= r < rows -> 0 <= c < cols -> st (snd (step rc rows cols s r c)) = MID ->
  cell (board s) r c = -1 /\ is_mine rows cols (mines s) r c = false /\ reward (snd (step rc rows cols s r c)) = [r_empty rc]
  /\ discount (snd (step rc rows cols s r c)) = [1].
Proof. exact (mid_means_safe_reveal rc rows cols nm s r c). Qed.
Print Assumptions C05_Minesweeper_continues_only_on_safe_reveal.
Example C05_Minesweeper_nonvacuous :
  let s1 := fst (step default_rcfg 2 3 ex_s0 0 0) in
  Phys_b 2 3 2 s1 = true /\ cell (board s1) 0 0 = 1 /\ snd (step (mkR 6 (-2) (-9)) 2 3 s1 0 0) = termination 1 [-9]
  /\ is_mine 2 3 (mines s1) 0 1 = true /\ snd (step (mkR 6 (-2) (-9)) 2 3 s1 0 1) = termination 1 [-2].
Proof. vm_compute. repeat split; reflexivity. Qed.
