(* C05 Minesweeper over the SOURCE-TRANSLATED step (Gen/MinesweeperSrc.v; see C09_Minesweeper_Source.v): selecting an already explored
   square ends the episode with the configured invalid-action reward; board and mines untouched, only step_count advances. *)
Require Import JV.Base.Prelude JV.Base.JaxIndex JV.Base.Codec JV.Base.TimeStep JV.Gen.TimeStepSrc JV.Gen.MinesweeperSrc JV.Proofs.Minesweeper_lists JV.Proofs.Minesweeper_count JV.Proofs.Minesweeper JV.Proofs.Minesweeper_Src.
Require JV.Model.Minesweeper.
Theorem C05_Minesweeper_Source_explored_terminates rows cols nm re rm ri s a :
  Phys rows cols nm (conv s) -> 0 <= fst a < rows -> 0 <= snd a < cols -> JV.Model.Minesweeper.cell (s_board s) (fst a) (snd a) <> -1 ->
  conv (fst (step nm (DefaultRewardFn_call re rm ri) DefaultDoneFn_call s a))
    = JV.Model.Minesweeper.mkS (s_board s) (s_step_count s + 1) (s_flat_mine_locations s)
  /\ snd (step nm (DefaultRewardFn_call re rm ri) DefaultDoneFn_call s a) = termination 1 [ri].
Proof. exact (src_explored_terminates rows cols nm re rm ri s a). Qed.
Print Assumptions C05_Minesweeper_Source_explored_terminates.
