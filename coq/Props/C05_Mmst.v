(* C05 MMST (ignore-invalid; docs: "-1.0 if it does not connect and an extra penalty of -1.0 if it chooses an invalid
   action").  For every Inv state, every unfinished agent a and every action whose (clamped) node is not a legal move:
   the agent keeps its position, route array, route index set and position index (nothing is moved on its behalf), its
   action code is INVALID_CHOICE and its reward term is time_step + noop_penalty -- always (after fix 49322d14; before it
   the penalty was dropped for agents that had visited node N-1).  The step reward is the sum of the agents' terms and the
   episode continues unless the time limit is reached or every agent is finished. *)
Require Import JV.Base.Prelude JV.Base.JaxIndex JV.Base.Codec JV.Base.TimeStep JV.Model.Mmst JV.Proofs.Mmst_lib JV.Proofs.Mmst JV.Proofs.Mmst_Episode JV.Proofs.Mmst_Obs JV.Proofs.Mmst_Gen JV.Proofs.Mmst_Examples.
Theorem C05_Mmst_illegal_move c start s acts perm a :
  Inv c start s -> 0 <= a < cA c -> znth false (fin s) a = false ->
  legal_move (cA c) s a (jclamp (cN c) (znth 0 acts a)) = false ->
  let t := fst (step c s acts perm) in
  znth 0 (pos t) a = znth 0 (pos s) a /\ znth [] (conn t) a = znth [] (conn s) a
  /\ znth [] (cidx t) a = znth [] (cidx s) a /\ znth 0 (pidx t) a = znth 0 (pidx s) a
  /\ faF c s acts perm a = INVALID_CHOICE
  /\ rew_term c s acts perm a = rt c + rn c.
Proof. exact (illegal_move c start s acts perm a). Qed.
Print Assumptions C05_Mmst_illegal_move.
Theorem C05_Mmst_reward_is_sum c start s acts perm : Inv c start s ->
  reward (snd (step c s acts perm)) = [zsum (tab (cA c) (rew_term c s acts perm))].
Proof. exact (reward_sum c start s acts perm). Qed.
(* the episode continues unless the time limit is reached or every agent is finished *)
Theorem C05_Mmst_continues c s acts perm :
  st (snd (step c s acts perm)) = if all_true (fin (fst (step c s acts perm))) || (cT c <=? sc s + 1) then LAST else MID.
Proof. exact (step_type c s acts perm). Qed.
(* formerly C05_Mmst_penalty_refuted: the agent standing on node N-1 is now charged like any other *)
Example C05_Mmst_nonvacuous :
  legal_move 2 ex_s0 1 0 = false /\ legal_move 2 ex_s0 0 3 = false
  /\ visited ex_s0 1 5 = true
  /\ rew_term ex_cfg ex_s0 [3; 0] [0; 1] 1 = -1 + -1
  /\ rew_term ex_cfg ex_s0 [3; 0] [0; 1] 0 = -1 + -1
  /\ reward (snd (step ex_cfg ex_s0 [3; 0] [0; 1])) = [-4]
  /\ pos (fst (step ex_cfg ex_s0 [3; 0] [0; 1])) = pos ex_s0.
Proof. exact penalty_example. Qed.
