(* C05 MMST (ignore-invalid; docs: "-1.0 if it does not connect and an extra penalty of -1.0 if it chooses an invalid
   action").  For every Inv state, every unfinished agent a and every action whose (clamped) node is not a legal move:
   the agent keeps its position, route array, route index set and position index (nothing is moved on its behalf), and
   its reward term is time_step + noop_penalty -- EXCEPT when the agent has already visited node N-1, where the noop
   penalty is silently dropped (connected_nodes_index[agent, -1] wraps to the last node: action code -3 instead of -1).
   Hence the documented penalty is REFUTED (C05_Mmst_penalty_refuted); everything else is proved. *)
Require Import JV.Base.Prelude JV.Base.JaxIndex JV.Base.Codec JV.Base.TimeStep JV.Model.Mmst JV.Proofs.Mmst_lib JV.Proofs.Mmst JV.Proofs.Mmst_Episode JV.Proofs.Mmst_Obs JV.Proofs.Mmst_Gen JV.Proofs.Mmst_Examples.
Theorem C05_Mmst_illegal_move_partial c start s acts perm a :
  Inv c start s -> 0 <= a < cA c -> znth false (fin s) a = false ->
  legal_move (cA c) s a (jclamp (cN c) (znth 0 acts a)) = false ->
  let t := fst (step c s acts perm) in
  znth 0 (pos t) a = znth 0 (pos s) a /\ znth [] (conn t) a = znth [] (conn s) a
  /\ znth [] (cidx t) a = znth [] (cidx s) a /\ znth 0 (pidx t) a = znth 0 (pidx s) a
  /\ faF c s acts perm a = (if visited s a (cN c - 1) then INVALID_ALREADY_TRAVERSED else INVALID_CHOICE)
  /\ rew_term c s acts perm a = rt c + (if visited s a (cN c - 1) then 0 else rn c).
Proof. exact (illegal_move c start s acts perm a). Qed.
Print Assumptions C05_Mmst_illegal_move_partial.
Theorem C05_Mmst_reward_is_sum c start s acts perm : Inv c start s ->
  reward (snd (step c s acts perm)) = [zsum (tab (cA c) (rew_term c s acts perm))].
Proof. exact (reward_sum c start s acts perm). Qed.
(* the episode continues unless the time limit is reached or every agent is finished *)
Theorem C05_Mmst_continues c s acts perm :
  st (snd (step c s acts perm)) = if all_true (fin (fst (step c s acts perm))) || (cT c <=? sc s + 1) then LAST else MID.
Proof. exact (step_type c s acts perm). Qed.
Theorem C05_Mmst_penalty_refuted :
  exists c s acts perm a, legal_move (cA c) s a (znth 0 acts a) = false /\ znth false (fin s) a = false
    /\ s = fst (init c ex_base ex_adj ex_comps) /\ rew_term c s acts perm a = rt c /\ rn c = -1.
Proof. exists ex_cfg, ex_s0, [3; 0], [0; 1], 1. pose proof penalty_witness as H. repeat split; try apply H. Qed.
Print Assumptions C05_Mmst_penalty_refuted.
Example C05_Mmst_nonvacuous :
  legal_move 2 ex_s0 1 0 = false /\ legal_move 2 ex_s0 0 3 = false
  /\ rew_term ex_cfg ex_s0 [3; 0] [0; 1] 1 = -1 /\ rew_term ex_cfg ex_s0 [3; 0] [0; 1] 0 = -1 + -1
  /\ reward (snd (step ex_cfg ex_s0 [3; 0] [0; 1])) = [-3].
Proof. exact penalty_witness. Qed.
