(* C05 MultiCVRP (ignore-invalid, documented in env.py _update_state: "Zero any node selections if the node has zero demand or
   does not have enough capacity left ... sends them back to the depot"; docs/environments/multi_cvrp.md is silent):
   a step with masked-out choices IS the step in which those vehicles chose the depot - same successor state, same timestep,
   for both reward functions, every rounding, every state; the vehicle is at the depot with full capacity and nothing was
   served for it; the episode does not end because of it. *)
Require Import JV.Base.Prelude JV.Base.JaxIndex JV.Base.Codec JV.Base.TimeStep JV.Model.MultiCvrp JV.Proofs.MultiCvrp JV.Proofs.MultiCvrp_Episode.
Theorem C05_MultiCvrp_illegal_is_depot rnd sp n mc dist s acts :
  step_r rnd sp n mc dist s (sans s acts) = step_r rnd sp n mc dist s acts.
Proof. exact (C05_step_sanitised rnd sp n mc dist s acts). Qed.
Print Assumptions C05_MultiCvrp_illegal_is_depot.
Theorem C05_MultiCvrp_sanitise_spec n V s acts v : n < 32768 -> zlen (demands s) = n + 1 -> zlen (cap s) = V -> zlen acts = V ->
  Forall (fun a => 0 <= a <= n) acts -> 0 <= v < V ->
  znth 0 (sans s acts) v = if legal_b n s v (znth 0 acts v) then znth 0 acts v else 0.
Proof. exact (fun a b c d e => sans_znth n V s acts a b c d e v). Qed.
Theorem C05_MultiCvrp_illegal_goes_to_depot rnd n V mc dist d0 s H acts v : n < 32768 -> 0 <= mc -> Inv n V mc d0 s H ->
  zlen acts = V -> Forall (fun a => 0 <= a <= n) acts -> 0 <= v < V -> ~ legal n s v (znth 0 acts v) ->
  let s' := update rnd mc dist s acts in
  znth 0 (pos s') v = 0 /\ znth 0 (cap s') v = mc /\ load d0 (route (next_nodes s acts :: H) v) = 0.
Proof. exact (C05_illegal_goes_to_depot rnd n V mc dist d0 s H acts v). Qed.
Print Assumptions C05_MultiCvrp_illegal_goes_to_depot.
Example C05_MultiCvrp_nonvacuous :
  let s1 := fst (step false 3 4 dlin (st0 [0; 2; 3; 2] 2 4 3) [2; 0]) in
  step false 3 4 dlin s1 [3; 2] = step false 3 4 dlin s1 [0; 0]          (* demand 2 > capacity 1; customer 2 already served *)
  /\ step true 3 4 dlin s1 [1; 2] = step true 3 4 dlin s1 [0; 0]
  /\ st (snd (step false 3 4 dlin s1 [3; 2])) = MID /\ demands (fst (step false 3 4 dlin s1 [3; 2])) = demands s1.
Proof. vm_compute. repeat split; reflexivity. Qed.
