(* C05 PacMan (ignore-invalid): a move into a wall (0 <= a < 4 with legal_b = false; also the no-op) is ignored: the
   resulting state is EXACTLY the one the documented no-op produces (only the recorded last_direction differs), the
   timestep is the same, the player keeps its position; when nothing lies under the player (true after every step: the
   reset cell is the only one where the player can stand on a pellet) no pellet or power-up is eaten, the counters are
   unchanged and the only reward is what the ghosts' collisions pay; the episode continues unless the clock, a ghost or
   the empty board end it (C11_PacMan_last_iff). *)
Require Import JV.Base.Prelude JV.Base.JaxIndex JV.Base.Codec JV.Base.TimeStep JV.Gen.PacManConsts JV.Model.PacMan JV.Proofs.PacMan JV.Proofs.PacMan_Inv JV.Proofs.PacMan_Rules.
Theorem C05_PacMan_illegal_is_noop xs ys T s a d :
  wf_grid xs ys (grid s) -> free xs ys (grid s) (px s) (py s) -> 0 <= a <= 4 ->
  legal_b xs ys (grid s) (px s) (py s) a = false ->
  fst (step xs ys T s a d) = with_last_dir (fst (step xs ys T s 4 d)) a
  /\ snd (step xs ys T s a d) = snd (step xs ys T s 4 d)
  /\ px (fst (step xs ys T s a d)) = px s /\ py (fst (step xs ys T s a d)) = py s.
Proof. exact (illegal_is_noop xs ys T s a d). Qed.
Print Assumptions C05_PacMan_illegal_is_noop.
Theorem C05_PacMan_illegal_eats_nothing xs ys T s a d :
  wf_grid xs ys (grid s) -> free xs ys (grid s) (px s) (py s) -> 0 <= a <= 4 ->
  legal_b xs ys (grid s) (px s) (py s) a = false ->
  existsb (hit (px s) (py s)) (pellet_locs s) = false -> existsb (hit (px s) (py s)) (pu_locs s) = false ->
  let s' := fst (step xs ys T s a d) in
  pellet_locs s' = pellet_locs s /\ pu_locs s' = pu_locs s /\ pellets s' = pellets s
  /\ reward (snd (step xs ys T s a d)) = [ghost_rew xs ys s a d].
Proof. exact (illegal_eats_nothing xs ys T s a d). Qed.
Print Assumptions C05_PacMan_illegal_eats_nothing.
Theorem C05_PacMan_nothing_under_player_after_step xs ys T s a d :
  maze_ok_b xs ys (grid s) = true -> free xs ys (grid s) (px s) (py s) ->
  let s' := fst (step xs ys T s a d) in
  existsb (hit (px s') (py s')) (pellet_locs s') = false /\ existsb (hit (px s') (py s')) (pu_locs s') = false.
Proof. exact (nothing_under_player_after_step xs ys T s a d). Qed.
(* non-vacuity: from the state after one move to the left, "down" (2) runs into a wall: the player stays, nothing is eaten, MID *)
Example C05_PacMan_nonvacuous :
  let s1 := fst (step 31 28 7 (gen_state DEFAULT_MAZE_ASCII) 1 [4; 4; 4; 4]) in
  legal_b 31 28 (grid s1) (px s1) (py s1) 2 = false
  /\ (px (fst (step 31 28 7 s1 2 [4; 4; 4; 4])), py (fst (step 31 28 7 s1 2 [4; 4; 4; 4]))) = (px s1, py s1)
  /\ pellets (fst (step 31 28 7 s1 2 [4; 4; 4; 4])) = pellets s1
  /\ snd (step 31 28 7 s1 2 [4; 4; 4; 4]) = transition 1 [0].
Proof. vm_compute. repeat split; reflexivity. Qed.
