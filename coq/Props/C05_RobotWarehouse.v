(* C05 RobotWarehouse (ignore-invalid): a masked-out action (only FORWARD can be, see C04) is rewritten to NOOP.
   - playing the joint action in which every masked-out action is replaced by NOOP gives the SAME step (state, reward, step
     type, discount), for every state and joint action: nothing is moved, picked or dropped on behalf of a masked-out action;
   - NOOP leaves the whole world untouched, and the agent whose action is masked out keeps its table entry through the whole
     step: cell, direction AND load flag (a no-op never drops or picks a shelf -- the repaired defect);
   - if the step does not end in a collision the successor is consistent (C07), so a still-carrying agent still has its
     shelf under it;
   - the episode does not end on its behalf: LAST iff agent collision (decided on the sanitised actions) or time limit. *)
Require Import JV.Base.Prelude JV.Base.JaxIndex JV.Base.Codec JV.Base.TimeStep JV.Model.RobotWarehouse JV.Proofs.RobotWarehouse_lib JV.Proofs.RobotWarehouse JV.Proofs.RobotWarehouse_Step JV.Proofs.RobotWarehouse_Check.
Theorem C05_RobotWarehouse_masked_is_noop c s acts draws : step c s (sanitize (amask s) acts) draws = step c s acts draws.
Proof. exact (step_sanitized c s acts draws). Qed.
Theorem C05_RobotWarehouse_sanitize_masked row a : jget false row a = false -> sanitize1 row a = NOOP.
Proof. exact (sanitize1_masked row a). Qed.
Theorem C05_RobotWarehouse_noop_changes_nothing c hw w i : act_agent (gh c) (gw c) hw w NOOP i = w.
Proof. exact (act_noop c hw w i). Qed.
Theorem C05_RobotWarehouse_masked_agent_untouched c s acts draws i :
  Inv c s -> zlen acts = nag c -> 0 <= i < nag c ->
  jget false (znth [] (amask s) i) (znth 0 acts i) = false ->
  znth dA (agents (fst (step c s acts draws))) i = znth dA (agents s) i.
Proof. exact (masked_agent_untouched c s acts draws i). Qed.
Theorem C05_RobotWarehouse_episode_continues c s acts draws :
  st (snd (step c s acts draws)) = LAST <-> (collided c s acts = true \/ tlim c <= cnt s + 1).
Proof. exact (step_last_iff c s acts draws). Qed.
Print Assumptions C05_RobotWarehouse_masked_is_noop.
Print Assumptions C05_RobotWarehouse_masked_agent_untouched.
Example C05_RobotWarehouse_nonvacuous :
  (* agent 0 carries shelf 1 and plays the masked-out FORWARD: it stays on (1,1), keeps facing RIGHT and keeps carrying;
     both layers and the shelf table are untouched and the episode continues *)
  jget false (znth [] (amask ex_s1) 0) FORWARD = false
  /\ sanitize (amask ex_s1) [FORWARD; LEFT] = [NOOP; LEFT]
  /\ znth dA (agents (fst (step ex_c ex_s1 [FORWARD; LEFT] [0; 0]))) 0 = mkA 1 1 1 true
  /\ gsh (fst (step ex_c ex_s1 [FORWARD; LEFT] [0; 0])) = gsh ex_s1
  /\ shelves (fst (step ex_c ex_s1 [FORWARD; LEFT] [0; 0])) = shelves ex_s1
  /\ st (snd (step ex_c ex_s1 [FORWARD; LEFT] [0; 0])) = MID
  (* an explicit NOOP by a carrying agent off the highway keeps the load as well *)
  /\ acar (znth dA (agents (fst (step ex_c ex_s1 [NOOP; NOOP] [0; 0]))) 0) = true.
Proof. vm_compute. repeat split; reflexivity. Qed.
