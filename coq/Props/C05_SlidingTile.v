(* C05 SlidingTile (ignore-invalid): an in-spec action whose target cell is off the board leaves board, blank position and key
   untouched, only the step counter advances; the dense reward is 0; and the episode continues (MID, discount 1, reward 0)
   unless the board was already solved or the time limit is reached by this step.
   Remark (boundary, documented behaviour of done = array_equal(puzzle, solved)): on an ALREADY solved board (possible at
   reset when the random walk returns to the goal) an ignored move yields LAST, and SparseRewardFn pays 1 for it. *)
Require Import JV.Base.Prelude JV.Base.JaxIndex JV.Base.Codec JV.Base.TimeStep JV.Model.SlidingTile JV.Proofs.SlidingTile JV.Proofs.SlidingTile_Episode.
From Coq Require Import Permutation.
Theorem C05_SlidingTile_illegal_ignored n T rw s a : in_grid n (blank s) = true -> 0 <= a < 4 -> legal_b n (blank s) a = false ->
  nxt n T rw s a = mkS (puz s) (blank s) (steps s + 1) (skey s)
  /\ reward (ts_of n T rw s a) = [if rw =? 0 then 0 else b2z (solved n s)]
  /\ (solved n s = false -> steps s + 1 < T ->
      st (ts_of n T rw s a) = MID /\ discount (ts_of n T rw s a) = [1] /\ reward (ts_of n T rw s a) = [0]).
Proof. exact (step_illegal n T rw s a). Qed.
Print Assumptions C05_SlidingTile_illegal_ignored.
Example C05_SlidingTile_nonvacuous :
  let s0 := gen_state 3 [0; 3; 0] [7; 9] in
  legal_b 3 (blank s0) 0 = false /\ solved 3 s0 = false /\ step 3 5 0 s0 0 = (mkS (puz s0) (blank s0) 1 [7; 9], mkTS MID [0] [1], observe 3 (mkS (puz s0) (blank s0) 1 [7; 9])).
Proof. vm_compute. repeat split; reflexivity. Qed.
Example C05_SlidingTile_solved_board_remark :
  let s0 := gen_state 2 [] [7; 9] in solved 2 s0 = true /\ legal_b 2 (blank s0) 1 = false /\ ts_of 2 5 1 s0 1 = mkTS LAST [1] [0].
Proof. vm_compute. repeat split; reflexivity. Qed.
