(* C05 SlidingTilePuzzle over the SOURCE-TRANSLATED step (Gen/SlidingTileSrc.v; see C09_SlidingTile_Source.v): an in-spec move whose mask entry
   is False (the blank would leave the grid) leaves the board and the blank untouched -- only the step counter advances -- and the reward is
   the step's ordinary reward (0 dense, solved-indicator sparse). *)
Require Import JV.Base.Prelude JV.Base.JaxIndex JV.Base.Codec JV.Base.TimeStep JV.Gen.TimeStepSrc JV.Gen.SlidingTileSrc.
Require Import JV.Proofs.SlidingTile JV.Proofs.SlidingTile_Src.
Require JV.Model.SlidingTile.
Require JV.Proofs.SlidingTile_Episode.
Theorem C05_SlidingTile_Source_illegal_ignored n T rw (key : list Z) s a :
  wf n (s_puzzle s) -> JV.Model.SlidingTile.in_grid n (s_empty_tile_position s) = true -> wf n (JV.Model.SlidingTile.goal n) ->
  0 <= a < 4 -> JV.Model.SlidingTile.legal_b n (s_empty_tile_position s) a = false ->
  conv key (fst (step n T (JV.Model.SlidingTile.goal n) (reward_src rw) s a))
    = JV.Model.SlidingTile.mkS (s_puzzle s) (s_empty_tile_position s) (s_step_count s + 1) key
  /\ reward (snd (step n T (JV.Model.SlidingTile.goal n) (reward_src rw) s a))
     = [if rw =? 0 then 0 else b2z (JV.Proofs.SlidingTile_Episode.solved n (conv key s))].
Proof. exact (src_illegal_ignored n T rw key s a). Qed.
Print Assumptions C05_SlidingTile_Source_illegal_ignored.
