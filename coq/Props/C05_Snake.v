(* C05 Snake (terminate-on-invalid): a masked-out = illegal move (off the board or onto the body) makes the step LAST
   with discount 0 and the documented reward 0 (no fruit can be eaten by an illegal move).  The docs promise nothing
   about the state after an invalid move. *)
Require Import JV.Base.Prelude JV.Base.JaxIndex JV.Base.Codec JV.Base.TimeStep JV.Model.Snake JV.Proofs.Snake JV.Proofs.Snake_rules JV.Proofs.Snake_examples.
Theorem C05_Snake_illegal_terminates R C T s a d :
  Inv R C T s -> 0 <= a < 4 -> jget false (amask s) a = false ->
  snd (step R C T s a d) = termination 1 [0] /\ ~ legal R C s a.
Proof. exact (illegal_terminates R C T s a d). Qed.
Print Assumptions C05_Snake_illegal_terminates.
Example C05_Snake_nonvacuous :
  jget false (amask e2) 1 = false /\ snd (step 3 3 9 e2 1 (0, 0)) = termination 1 [0]
  /\ jget false (amask e2) 3 = false /\ snd (step 3 3 9 e2 3 (0, 0)) = termination 1 [0].
Proof. exact ex_illegal. Qed.
