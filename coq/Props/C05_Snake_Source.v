(* C05 Snake over the SOURCE-TRANSLATED step (Gen/SnakeSrc.v, regenerated from /repo on every run; see C09_Snake_Source.v): a move whose stored
   mask entry is False ends the episode with zero reward and zero discount -- and it is exactly then that the move is illegal. *)
Require Import JV.Base.Prelude JV.Base.JaxIndex JV.Base.Codec JV.Base.TimeStep JV.Gen.TimeStepSrc JV.Gen.SnakeSrc JV.Proofs.Snake_Src.
Require JV.Model.Snake JV.Proofs.Snake.
Theorem C05_Snake_Source_illegal_terminates R C T (draw : list (list bool) -> Z * Z) s a :
  JV.Proofs.Snake.Inv R C T (conv s) -> 0 <= a < 4 -> jget false (s_action_mask s) a = false ->
  snd (step R C T draw s a) = termination 1 [0] /\ ~ JV.Model.Snake.legal R C (conv s) a.
Proof. exact (src_illegal_terminates R C T draw s a). Qed.
Print Assumptions C05_Snake_Source_illegal_terminates.
