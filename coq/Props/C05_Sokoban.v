(* C05 Sokoban (ignore-invalid, no action mask): an in-spec action that the rules forbid -- the destination is off the
   grid or a wall, or it holds a box whose own destination is off the grid, a wall or another box -- leaves both
   grids and the agent untouched; only the step counter advances.  The reward is the step penalty alone (-0.1 dense,
   0 sparse; plus the +10 bonus only when the state was ALREADY solved) and the step is LAST only for an independent
   cause (already solved, time limit): otherwise the episode continues (MID). *)
Require Import JV.Base.Prelude JV.Base.JaxIndex JV.Base.Codec JV.Base.TimeStep JV.Model.Sokoban JV.Proofs.Sokoban_Grid JV.Proofs.Sokoban JV.Proofs.Sokoban_Levels.
Theorem C05_Sokoban_illegal_ignored G T dense s a :
  Physical G s -> 0 <= a < 4 -> legal_b G s a = false ->
  let s' := fst (step G T dense s a) in
  let t := snd (step G T dense s a) in
  let cnt := on_target G (var s) (fixed s) in
  fixed s' = fixed s /\ var s' = var s /\ ar s' = ar s /\ ac s' = ac s /\ sc s' = sc s + 1
  /\ reward t = [if dense then 100 * b2z (cnt =? N_BOXES) - 1 else 100 * b2z (cnt =? N_BOXES)]
  /\ (st t = LAST <-> (cnt = N_BOXES \/ T <= sc s + 1)) /\ (st t = MID \/ st t = LAST).
Proof. exact (illegal_ignored G T dense s a). Qed.
Print Assumptions C05_Sokoban_illegal_ignored.
Theorem C05_Sokoban_illegal_ignored_unsolved G T dense s a :
  Physical G s -> 0 <= a < 4 -> legal_b G s a = false -> on_target G (var s) (fixed s) <> N_BOXES ->
  let t := snd (step G T dense s a) in
  reward t = [if dense then -1 else 0] /\ (sc s + 1 < T -> st t = MID) /\ (T <= sc s + 1 -> st t = LAST).
Proof. exact (illegal_ignored_unsolved G T dense s a). Qed.
Print Assumptions C05_Sokoban_illegal_ignored_unsolved.
(* the boolean legality test used on implementation states decides the declarative rule *)
Theorem C05_Sokoban_legal_checker G s a : legal_b G s a = true <-> legal G s a.
Proof. exact (legal_b_spec G s a). Qed.
(* walking into a wall (toy level 1, Up from the start) and pushing a box into a wall (box at (3,3), wall at (3,4)) *)
Example C05_Sokoban_nonvacuous :
  let s0 := fst (gen_toy 0) in
  Physical_b 10 s0 = true /\ legal_b 10 s0 0 = false
  /\ var (fst (step 10 120 true s0 0)) = var s0 /\ st (snd (step 10 120 true s0 0)) = MID
  /\ reward (snd (step 10 120 true s0 0)) = [-1]
  /\ (let s := run 10 120 true s0 [3;2;2;1] in
      (ar s, ac s) = (3, 2) /\ gat 0 (var s) 3 3 = BOX /\ gat 0 (fixed s) 3 4 = WALL /\ legal_b 10 s 1 = false
      /\ var (fst (step 10 120 true s 1)) = var s /\ reward (snd (step 10 120 true s 1)) = [-1]).
Proof. vm_compute. repeat split; reflexivity. Qed.
