(* C05 Sokoban over the SOURCE-TRANSLATED step (Gen/SokobanSrc.v; see C09_Sokoban_Source.v): an illegal move (into a wall, or pushing a box
   that cannot move) is ignored -- grids and agent untouched, the step counter advances, the reward is the step's ordinary reward, and the
   step is LAST only for an independent cause (level already complete, time limit). *)
Require Import JV.Base.Prelude JV.Base.JaxIndex JV.Base.Codec JV.Base.TimeStep JV.Gen.TimeStepSrc JV.Gen.SokobanSrc JV.Proofs.Sokoban_Src.
Require JV.Model.Sokoban.
Theorem C05_Sokoban_Source_illegal_ignored_full T dense s a :
  JV.Model.Sokoban.Physical GRID_SIZE (conv s) -> 0 <= a < 4 -> JV.Model.Sokoban.legal_b GRID_SIZE (conv s) a = false ->
  let s' := conv (fst (step T (reward_src dense) s a)) in
  let t := snd (step T (reward_src dense) s a) in
  let cnt := JV.Model.Sokoban.on_target GRID_SIZE (JV.Model.Sokoban.var (conv s)) (JV.Model.Sokoban.fixed (conv s)) in
  JV.Model.Sokoban.fixed s' = JV.Model.Sokoban.fixed (conv s) /\ JV.Model.Sokoban.var s' = JV.Model.Sokoban.var (conv s)
  /\ JV.Model.Sokoban.ar s' = JV.Model.Sokoban.ar (conv s) /\ JV.Model.Sokoban.ac s' = JV.Model.Sokoban.ac (conv s)
  /\ JV.Model.Sokoban.sc s' = JV.Model.Sokoban.sc (conv s) + 1
  /\ reward t = [if dense then 100 * b2z (cnt =? JV.Model.Sokoban.N_BOXES) - 1 else 100 * b2z (cnt =? JV.Model.Sokoban.N_BOXES)]
  /\ (st t = LAST <-> (cnt = JV.Model.Sokoban.N_BOXES \/ T <= JV.Model.Sokoban.sc (conv s) + 1)) /\ (st t = MID \/ st t = LAST).
Proof. exact (src_illegal_ignored_full T dense s a). Qed.
Print Assumptions C05_Sokoban_Source_illegal_ignored_full.
