(* C05 Sudoku (terminate-on-invalid): an action whose mask entry is False ends the episode (LAST, discount 0); on every position
   that still had a legal move (every non-terminal reachable state) its reward is the documented 0 ("1 if the board is correctly
   solved and 0 in every other case").  The docs do not promise an untouched board and the code does write the cell.
   Not claimed: a position with NO legal move (e.g. a reset on an already complete grid) - there every action is illegal and
   re-writing a digit of a solved grid yields reward 1; the model and the code agree on it (harness, boundary "solved-full").  *)
Require Import JV.Base.Prelude JV.Base.JaxIndex JV.Base.Codec JV.Base.TimeStep JV.Model.Sudoku JV.Proofs.Sudoku.
Theorem C05_Sudoku_invalid_terminates s r c d :
  mask_at (amask s) r c d = false -> st (snd (step s r c d)) = LAST /\ discount (snd (step s r c d)) = [0].
Proof. exact (invalid_terminates s r c d). Qed.
Theorem C05_Sudoku_invalid_reward_zero s r c d :
  Inv s -> in_spec r c d -> any_mask (amask s) = true -> mask_at (amask s) r c d = false ->
  snd (step s r c d) = termination 1 [0].
Proof. exact (invalid_reward_zero s r c d). Qed.
Print Assumptions C05_Sudoku_invalid_reward_zero.
Example C05_Sudoku_nonvacuous :
  let s0 := fst (init sample_puzzle) in
  any_mask (amask s0) = true /\ mask_at (amask s0) 0 3 0 = false /\ snd (step s0 0 3 0) = termination 1 [0]
  /\ mask_at (amask s0) 0 0 7 = false /\ snd (step s0 0 0 7) = termination 1 [0]
  /\ snd (step (fst (init one_hole)) 4 7 3) = termination 1 [0].
Proof. vm_compute. repeat split. Qed.
