(* C05 TSP (terminate-on-invalid, documented in docs/environments/tsp.md and the class docstring): in every non-terminal state
   that encodes a partial tour, choosing an already visited city (= a masked-out in-spec action) gives a LAST step with
   discount 0 and reward exactly the documented penalty -num_cities*sqrt(2) ([pen] is its code), under BOTH reward
   functions and every rounding, and the whole state (coordinates, position, visited mask, trajectory, counter) is untouched.
   For the sparse reward no hypothesis on the state is needed. *)
Require Import JV.Base.Prelude JV.Base.JaxIndex JV.Base.Codec JV.Base.TimeStep JV.Model.TSP JV.Proofs.TSP_lists JV.Proofs.TSP.
Theorem C05_TSP_revisit n pen dist rnd sparse s a : 0 <= n ->
  Inv n s -> nvis s < n -> 0 <= a < n -> ~ legal s a ->
  step_r rnd sparse n pen dist s a = (s, termination 1 [- pen]).
Proof. intro Hn. exact (C05_revisit n pen dist Hn rnd sparse s a). Qed.
Print Assumptions C05_TSP_revisit.
Theorem C05_TSP_masked_out n pen dist rnd sparse s a : 0 <= n ->
  Inv n s -> nvis s < n -> 0 <= a < n -> jget false (mask s) a = false ->
  step_r rnd sparse n pen dist s a = (s, termination 1 [- pen]).
Proof. intro Hn. exact (C05_masked_out n pen dist Hn rnd sparse s a). Qed.
Theorem C05_TSP_revisit_sparse n pen dist rnd s a : valid s a = false ->
  step_r rnd true n pen dist s a = (s, termination 1 [- pen]).
Proof. exact (C05_revisit_sparse n pen dist rnd s a). Qed.
Print Assumptions C05_TSP_masked_out.
Example C05_TSP_nonvacuous :
  let s2 := fst (step false 4 99 ex_dist (fst (step false 4 99 ex_dist (fst (init 4 [0; 0; 3; 0; 7; 0; 12; 0])) 2)) 0) in
  Inv_b 4 s2 = true /\ nvis s2 = 2 /\ legal_b s2 2 = false /\ legal_b s2 0 = false
  /\ step false 4 99 ex_dist s2 2 = (s2, termination 1 [-99]) /\ step true 4 99 ex_dist s2 0 = (s2, termination 1 [-99])
  /\ step_r rne24 false 4 99 ex_dist s2 0 = (s2, termination 1 [-99]).
Proof. vm_compute. repeat split; reflexivity. Qed.
