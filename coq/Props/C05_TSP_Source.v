(* C05 TSP over the SOURCE-TRANSLATED state part of the step (Gen/TspSrc.v; see C09_TSP_Source.v; the reward function is the model's): a
   masked-out city ends the episode with the penalty and leaves the state untouched. *)
Require Import JV.Base.Prelude JV.Base.JaxIndex JV.Base.Codec JV.Base.TimeStep JV.Gen.TimeStepSrc JV.Gen.TspSrc.
Require Import JV.Proofs.TSP_lists JV.Proofs.TSP JV.Proofs.Tsp_Src.
Require JV.Model.TSP.
Theorem C05_TSP_Source_masked_out n pen dist rnd sparse s a : 0 <= n ->
  JV.Model.TSP.Inv n (conv s) -> JV.Model.TSP.nvis (conv s) < n -> 0 <= a < n -> jget false (JV.Model.TSP.mask (conv s)) a = false ->
  conv (fst (step n (reward_model rnd sparse n pen dist) s a)) = conv s
  /\ snd (step n (reward_model rnd sparse n pen dist) s a) = termination 1 [- pen].
Proof. exact (src_masked_out n pen dist rnd sparse s a). Qed.
Print Assumptions C05_TSP_Source_masked_out.
