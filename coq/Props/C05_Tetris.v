(* C05 Tetris (terminate-on-invalid): a masked-out placement gives LAST with reward 0 and discount 0, whatever else happens.
   (docs/environments/tetris.md promise nothing about the grid after an invalid action; the model shows the piece is then
   written at the clamped row num_rows-1, possibly into the padding -- harmless, the episode is over.) *)
Require Import JV.Base.Prelude JV.Base.JaxIndex JV.Base.Codec JV.Base.TimeStep JV.Gen.TetrisConsts JV.Model.Tetris.
Require Import JV.Proofs.Tetris JV.Proofs.Tetris_place JV.Proofs.Tetris_clear JV.Proofs.Tetris_phys JV.Proofs.Tetris_step.
Theorem C05_Tetris_invalid_terminates nr nc tl s rot x d :
  Shape nr nc (grid s) -> 1 <= nr -> 1 <= nc -> gget false (amask s) rot x = false ->
  snd (fst (step nr nc tl s rot x d)) = termination 1 [0].
Proof. exact (step_invalid nr nc tl s rot x d). Qed.
Print Assumptions C05_Tetris_invalid_terminates.
Example C05_Tetris_nonvacuous :
  shape_b 4 4 (grid ex_s0) = true /\ gget false (amask ex_s0) 1 1 = false
  /\ snd (fst (step 4 4 9 ex_s0 1 1 3)) = termination 1 [0].
Proof. vm_compute. repeat split; reflexivity. Qed.
