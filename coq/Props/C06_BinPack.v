(* C06 BinPack.  Packing s :=  every placed item lies inside the container; two placed items never overlap; and (strengthening)
   every ACTIVE EMS lies inside the container and is disjoint from every placed item.
   It holds at reset and is preserved by EVERY in-spec step (a legal pair packs the item at the min corner of the chosen EMS and
   runs the full _update_ems - six half-space cuts, dominance filtering, argmin slot choice incl. the overwrite of slot 0 when the
   buffer is full; an illegal pair changes nothing).  Hypotheses: shapes, stored mask/order current, obs_num_ems <= max_num_ems.
   Completion: an episode that ends after a legal action ends because NO (observed EMS, item) pair is legal any more
   (C06_BinPack_completion): the packing is maximal w.r.t. the observed EMSs.
   Provenance (C06_BinPack_update_ems_origin): every ACTIVE slot of the buffer returned by _update_ems holds either an old active
   EMS that the placed item does not intersect (kept as it was), or a NON-EMPTY cut of an old active EMS e that the item does
   intersect: e' = hyper d item e, which is included in e, disjoint from the item and is, point for point, e intersected with the
   open half-space on the outer side of face d of the item (x < item.x1, x >= item.x2, ...).  Nothing else is ever added. *)
Require Import JV.Base.Prelude JV.Base.JaxIndex JV.Base.Codec JV.Base.TimeStep JV.Model.BinPack JV.Proofs.BinPack_lib JV.Proofs.BinPack JV.Proofs.BinPack_obs JV.Proofs.BinPack_ems.
(* a concrete instance: container 4x2x2, two items 2x2x2 and one 3x2x2, buffer of 4 EMSs, 2 observed *)
Definition ex_c := make_container 4 2 2.
Definition ex_items := [mkIt 2 2 2; mkIt 2 2 2; mkIt 3 2 2].
Definition ex_s0 := fst (init 2 ex_c 4 ex_items [true; true; true]).
Definition ex_s1 := fst (step 2 false ex_s0 0 0).
Definition ex_s2 := fst (step 2 false ex_s1 0 1).
Theorem C06_BinPack_init obs c max_ems its im : 0 < max_ems -> Packing (fst (init obs c max_ems its im)).
Proof. exact (init_Packing obs c max_ems its im). Qed.
Theorem C06_BinPack_step n m obs s a0 a1 :
  shape n m s -> consistent obs s -> obs <= m -> inspec obs n a0 a1 -> Packing s -> Packing (step_state obs s a0 a1).
Proof. exact (step_Packing n m obs s a0 a1). Qed.
Theorem C06_BinPack_pack_item n m s k a :
  shape n m s -> 0 <= a < n -> 0 <= k < m ->
  emask_at s k = true -> placed_at s a = false -> fits (item_at s a) (item_of (ems_at s k)) = true ->
  Packing s -> Packing (pack_item s k a).
Proof. exact (pack_item_Packing n m s k a). Qed.
Theorem C06_BinPack_update_ems (Qold Qnew : space -> Prop) es ms isp :
  EInv Qold es ms ->
  (forall e, Qold e -> sp_intersect isp e = false -> Qnew e) ->
  (forall e d, Qold e -> Qnew (hyper d isp e)) ->
  EInv Qnew (fst (update_ems es ms isp)) (snd (update_ems es ms isp)).
Proof. exact (update_ems_EInv Qold Qnew es ms isp). Qed.
Theorem C06_BinPack_update_ems_origin es ms isp k :
  length es = length ms ->
  nth k (snd (update_ems es ms isp)) false = true ->
  let e' := nth k (fst (update_ems es ms isp)) sp0 in
  (exists j, nth j ms false = true /\ e' = nth j es sp0 /\ sp_intersect isp e' = false) \/
  (exists j d, nth j ms false = true /\ sp_intersect isp (nth j es sp0) = true /\ sp_empty e' = false /\
     sp_incl e' (nth j es sp0) = true /\ sp_intersect e' isp = false /\
     forall px py pz, inside px py pz e' <-> inside px py pz (nth j es sp0) /\ outer_side d isp px py pz).
Proof. exact (update_ems_active_origin es ms isp k). Qed.
Theorem C06_BinPack_completion n m obs sparse s a0 a1 e i :
  shape n m s -> consistent obs s -> obs <= m -> inspec obs n a0 a1 -> step_valid s a0 a1 = true ->
  st (snd (step obs sparse s a0 a1)) = LAST -> 0 <= e < obs -> 0 <= i < n -> ~ legal (fst (step obs sparse s a0 a1)) e i.
Proof. exact (completion_maximal n m obs sparse s a0 a1 e i). Qed.
Theorem C06_BinPack_checker s : Packing_b s = true -> Packing s.
Proof. exact (Packing_b_sound s). Qed.
Print Assumptions C06_BinPack_step.
Print Assumptions C06_BinPack_completion.
Print Assumptions C06_BinPack_update_ems_origin.
Example C06_BinPack_nonvacuous :
  shape_b 3 4 ex_s0 = true /\ Packing_b ex_s0 = true /\ Packing_b ex_s1 = true /\ Packing_b ex_s2 = true
  /\ items_placed ex_s2 = [true; true; false] /\ items_loc ex_s2 = [mkLoc 0 0 0; mkLoc 2 0 0; loc0]
  /\ ems_mask ex_s2 = [false; false; false; false] /\ st (snd (step 2 false ex_s1 0 1)) = LAST
  /\ Packing_b (mkS ex_c (ems ex_s2) (ems_mask ex_s2) ex_items [true; true; true] [true; true; false] [mkLoc 0 0 0; mkLoc 1 0 0; loc0] [] []) = false.
Proof. vm_compute. repeat split; reflexivity. Qed.
