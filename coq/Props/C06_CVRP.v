(* C06 CVRP: the invariant Inv n mc s h (h = the route so far) holds on the reset state and after EVERY in-spec action (an
   illegal one changes nothing and ends the episode), along whole episodes.  It says: the vehicle load (demands served since the
   last depot visit) equals max_capacity - capacity and never exceeds max_capacity, 0 <= capacity; no customer is on the route
   twice and the visited mask is exactly the set of customers on the route; the trajectory array records the route.
   When a legal node ends the episode, every customer has been served and the vehicle is back at the depot. *)
Require Import JV.Base.Prelude JV.Base.JaxIndex JV.Base.Codec JV.Base.TimeStep JV.Model.CVRP JV.Proofs.CVRP.
Theorem C06_CVRP_init n mc draw : 1 <= n -> 0 <= mc -> zlen draw = n + 1 -> Inv n mc (fst (init n mc draw)) [].
Proof. exact (init_Inv n mc draw). Qed.
Theorem C06_CVRP_step dist n mc s h sp pen a : 1 <= n -> 0 <= mc -> Inv n mc s h -> 0 <= a <= n ->
  exists h', Inv n mc (fst (step sp mc pen dist s a)) h' /\ (h' = h \/ (h' = a :: h /\ legal n s a)).
Proof. exact (step_Inv_any dist n mc s h sp pen a). Qed.
Theorem C06_CVRP_episode dist n mc sp pen acts s h : 1 <= n -> 0 <= mc -> Inv n mc s h -> Forall (fun a => 0 <= a <= n) acts ->
  Forall (fun p => exists h', Inv n mc (fst p) h') (run dist sp mc pen s acts).
Proof. exact (C06_run_Inv dist n mc sp pen acts s h). Qed.
Print Assumptions C06_CVRP_episode.
Theorem C06_CVRP_load_within_capacity n mc s h : Inv n mc s h ->
  load (demands s) h = mc - cap s /\ load (demands s) h <= mc /\ 0 <= cap s.
Proof. exact (C06_load_within_capacity n mc s h). Qed.
Theorem C06_CVRP_no_customer_twice n mc s h : Inv n mc s h ->
  NoDup (customers h) /\ (forall i, 1 <= i <= n -> (znth false (visited s) i = true <-> In i h)).
Proof. exact (C06_no_customer_twice n mc s h). Qed.
Theorem C06_CVRP_completion dist (dist00 : dist 0 0 = 0) n mc s h sp pen a : 1 <= n -> 0 <= mc -> Inv n mc s h -> 0 <= a <= n -> legal n s a ->
  st (snd (step sp mc pen dist s a)) = LAST ->
  a = 0 /\ pos (fst (step sp mc pen dist s a)) = 0 /\ (forall i, 1 <= i <= n -> In i h)
  /\ complete_b n (fst (step sp mc pen dist s a)) = true.
Proof. exact (C06_completion dist dist00 n mc s h sp pen a). Qed.
Print Assumptions C06_CVRP_completion.
(* the boolean checker the harness runs on IMPLEMENTATION states is sound: green means the state satisfies the invariant with the
   route read back from its trajectory array *)
Theorem C06_CVRP_checker_sound n mc s : Feasible_b n mc s = true -> Inv n mc s (hist_of n s).
Proof. exact (Feasible_b_sound n mc s). Qed.
Print Assumptions C06_CVRP_checker_sound.
(* capacity 3, demands 2 and 2: the vehicle must refill between the customers; 2n = 4 visits after the initial depot *)
Example C06_CVRP_nonvacuous :
  let d := fun i j => 10 * Z.abs (i - j) in
  let s0 := fst (init 2 3 [1; 2; 2]) in
  let tr := run d false 3 99 s0 [1; 0; 2; 0] in
  Feasible_b 2 3 s0 = true /\ forallb (fun p => Feasible_b 2 3 (fst p)) tr = true
  /\ map (fun p => cap (fst p)) tr = [1; 3; 1; 3] /\ map (fun p => st (snd p)) tr = [MID; MID; MID; LAST]
  /\ hist_of 2 (final tr) = [0; 2; 0; 1] /\ complete_b 2 (final tr) = true
  /\ Feasible_b 2 3 (mkS [0; 2; 2] 2 0 [false; true; true] [0; 1; 2; 0] 3) = false.   (* load 4 > capacity 3 *)
Proof. vm_compute. repeat split; reflexivity. Qed.
