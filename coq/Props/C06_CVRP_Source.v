(* C06 CVRP over the SOURCE-TRANSLATED step (Gen/CvrpSrc.v): ANY in-spec action keeps the invariant (load since the last depot visit =
   max_capacity - capacity <= max_capacity, no customer served twice, trajectory / mask agree with the history). *)
Require Import JV.Base.Prelude JV.Base.JaxIndex JV.Base.Codec JV.Base.TimeStep JV.Gen.TimeStepSrc JV.Gen.CvrpSrc JV.Proofs.CVRP JV.Proofs.Cvrp_Src.
Require JV.Model.CVRP.
Theorem C06_CVRP_Source_step_keeps_invariant dist n mc s h sp pen a : 1 <= n -> 0 <= mc -> JV.Model.CVRP.Inv n mc (conv s) h -> 0 <= a <= n ->
  exists h', JV.Model.CVRP.Inv n mc (conv (fst (step mc (reward_model (fun x => x) sp pen dist) s a))) h'
             /\ (h' = h \/ (h' = a :: h /\ JV.Model.CVRP.legal n (conv s) a)).
Proof. exact (src_step_inv dist n mc s h sp pen a). Qed.
Print Assumptions C06_CVRP_Source_step_keeps_invariant.
