(* C06 Connector (routes never share a cell), PROVED for all sizes, states and in-spec joint actions.
   Grid level (from the max-join theorem, Proofs/Connector_Join.v): a Physical state -- every cell is EMPTY or carries a
   code kind + 3 * id of exactly one agent id < num_agents, a POSITION code sits at that agent's stored position, a
   TARGET code at its stored target -- steps to a Physical state, and every cell changes only EMPTY / own TARGET ->
   POSITION of the mover or POSITION -> PATH of the same agent (grid_step_b, the checker the harness also runs on every
   implementation transition).  Declaratively: a cell that changed was EMPTY or the mover's OWN target and now holds the
   mover's head, or was the mover's head and now holds its path; nobody ever writes a cell owned by another agent, and
   this holds however many agents contend for the same cell.
   Agent level: every agent is unchanged, or moved one cell onto a cell that is on the grid and held EMPTY or its OWN
   target in the grid the step started from, and it was not connected. *)
Require Import JV.Base.Prelude JV.Base.JaxIndex JV.Base.Codec JV.Base.TimeStep JV.Model.Connector JV.Proofs.Connector
  JV.Proofs.Connector_Step.
Theorem C06_Connector_routes_exclusive c s acts :
  Physical c s -> wf c s acts -> in_spec acts ->
  Physical c (next c s acts) /\ grid_step_b (grid s) (grid (next c s acts)) = true.
Proof. exact (fun HP HW HI => conj (Physical_next c s acts HP HW HI) (grid_step_next c s acts HP HW HI)). Qed.
Theorem C06_Connector_only_own_cells_written c s acts r k :
  Physical c s -> wf c s acts -> in_spec acts ->
  0 <= r < gsz c -> 0 <= k < gsz c -> gat 0 (grid (next c s acts)) r k <> gat 0 (grid s) r k ->
  exists j, 0 <= j < nag c /\
    let o := znth dflt (agents s) j in let n := znth dflt (agents (next c s acts)) j in
    ((apos n = (r, k) /\ apos o <> (r, k) /\ (gat 0 (grid s) r k = EMPTY \/ gat 0 (grid s) r k = tgtv j)
      /\ gat 0 (grid (next c s acts)) r k = posv j)
     \/ (apos o = (r, k) /\ apos n <> (r, k) /\ gat 0 (grid s) r k = posv j /\ gat 0 (grid (next c s acts)) r k = pathv j)).
Proof. exact (fun HP HW HI => changed_cell c s acts HP HW HI r k). Qed.
Theorem C06_Connector_agent_moves_only_into_empty_or_own_target c s acts k :
  wf c s acts -> 0 <= k < nag c -> dims (gsz c) (grid s) -> 0 <= znth 0 acts k <= 4 ->
  let o := znth dflt (agents s) k in let n := znth dflt (agents (next c s acts)) k in
  n = o \/ (aid n = aid o /\ astart n = astart o /\ atarget n = atarget o /\ 1 <= znth 0 acts k
            /\ apos n = padd (apos o) (dir (znth 0 acts k)) /\ in_grid (gsz c) (apos n) = true
            /\ (cell (grid s) (apos n) = EMPTY \/ cell (grid s) (apos n) = tgtv (aid o)) /\ connected o = false).
Proof. exact (agent_step_cases c s acts k). Qed.
Print Assumptions C06_Connector_routes_exclusive.
Print Assumptions C06_Connector_only_own_cells_written.
Print Assumptions C06_Connector_agent_moves_only_into_empty_or_own_target.
Example C06_Connector_nonvacuous :
  let c := mkC 3 3 9 100 (-3) in
  (Physical c ex_s3 /\ wf c ex_s3 [3; 2; 4] /\ in_spec [3; 2; 4])
  /\ Physical_b c ex_s3 = true /\ Physical_b c (next c ex_s3 [3; 2; 4]) = true
  /\ grid_step_b (grid ex_s3) (grid (next c ex_s3 [3; 2; 4])) = true
  /\ grid (next c ex_s3 [3; 2; 4]) <> grid ex_s3
  /\ grid_step_b (grid ex_s3) [[0; 2; 0]; [5; 0; 8]; [3; 9; 9]] = false.
Proof.
  cbv zeta. split; [|vm_compute; repeat split; try reflexivity; discriminate].
  split; [apply Physical_b_spec; vm_compute; reflexivity|]. split; [vm_compute; repeat split; discriminate|repeat constructor; lia].
Qed.
