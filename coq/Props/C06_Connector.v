(* C06 Connector (routes never share a cell), agent-level part PROVED for all sizes, states and in-spec joint actions:
   after a step every agent is unchanged, or it moved one cell onto a cell that is on the grid and held EMPTY or its OWN
   target in the grid the step started from, and it was not connected (so it never steps onto another agent's path, head
   or target).  Every cell holds a single code kind + 3 * id, so a cell belongs to at most one agent by construction.
   Grid-level statement (kept as a comment; _partial): Physical c s -> Physical c (next c s acts), and every cell changes
   only EMPTY/own TARGET -> POSITION or POSITION -> PATH of the same agent.  It needs the max-join analysis and is
   correspondence-checked (Impl = Rules = implementation on every transition, 2-/3-/4-way contests included) and checked by
   the verified booleans Physical_b / grid_step_b on every implementation state. *)
Require Import JV.Base.Prelude JV.Base.JaxIndex JV.Base.Codec JV.Base.TimeStep JV.Model.Connector JV.Proofs.Connector.
Theorem C06_Connector_agent_moves_only_into_empty_or_own_target_partial c s acts k :
  wf c s acts -> 0 <= k < nag c -> dims (gsz c) (grid s) -> 0 <= znth 0 acts k <= 4 ->
  let o := znth dflt (agents s) k in let n := znth dflt (agents (next c s acts)) k in
  n = o \/ (aid n = aid o /\ astart n = astart o /\ atarget n = atarget o /\ 1 <= znth 0 acts k
            /\ apos n = padd (apos o) (dir (znth 0 acts k)) /\ in_grid (gsz c) (apos n) = true
            /\ (cell (grid s) (apos n) = EMPTY \/ cell (grid s) (apos n) = tgtv (aid o)) /\ connected o = false).
Proof. exact (agent_step_cases c s acts k). Qed.
Print Assumptions C06_Connector_agent_moves_only_into_empty_or_own_target_partial.
Example C06_Connector_nonvacuous :
  let c := mkC 3 3 9 100 (-3) in
  Physical_b c ex_s3 = true /\ Physical_b c (next c ex_s3 [3; 2; 4]) = true
  /\ grid_step_b (grid ex_s3) (grid (next c ex_s3 [3; 2; 4])) = true
  /\ grid_step_b (grid ex_s3) [[0; 2; 0]; [5; 0; 8]; [3; 9; 9]] = false.
Proof. vm_compute. repeat split; reflexivity. Qed.
