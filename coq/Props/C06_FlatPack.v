(* C06 FlatPack: from reset, under ANY in-spec actions (accepted ones are placed, rejected ones ignored), the grid is
   explained by a list of placements ps, one per placed block, all inside the grid (inside the action space), no two
   on one cell, every cell = value of the placement covering it (0 if none).  Hence every non-zero cell is covered by
   exactly one placed block and carries that block's cell value (its id for a well-formed instance). *)
Require Import JV.Base.Prelude JV.Base.JaxIndex JV.Base.Codec JV.Base.TimeStep JV.Model.FlatPack JV.Proofs.FlatPack JV.Proofs.FlatPack_Pack.
Theorem C06_FlatPack_reachable_packed cf bl acts s' ts :
  3 <= cR cf -> 3 <= cC cf -> 0 <= cN cf -> blocks_ok (cN cf) bl ->
  Forall (in_space cf) acts -> run cf (fst (init cf bl)) acts = (s', ts) ->
  StateOK cf s' /\ exists ps, Feasible cf (blocks s') (placed s') (grid s') ps.
Proof. exact (reachable_packed cf bl acts s' ts). Qed.
Theorem C06_FlatPack_step_preserves cf s ps b k r c :
  StateOK cf s -> Feasible cf (blocks s) (placed s) (grid s) ps -> in_space cf (b, k, r, c) ->
  Feasible cf (blocks (fst (step cf s b k r c))) (placed (fst (step cf s b k r c))) (grid (fst (step cf s b k r c)))
           (if mask_get (amask s) b k r c then (b, k, r, c) :: ps else ps).
Proof. exact (step_Feasible cf s ps b k r c). Qed.
Theorem C06_FlatPack_nonzero_cell_one_block cf bl pl g ps i j :
  Feasible cf bl pl g ps -> 0 <= i < cR cf -> 0 <= j < cC cf -> cell g i j <> 0 ->
  exists a, In a ps /\ in_space cf a /\ znth false pl (blk_of a) = true /\ pcell bl a i j = cell g i j /\
            forall a', In a' ps -> pcell bl a' i j <> 0 -> a' = a.
Proof. exact (feasible_cell cf bl pl g ps i j). Qed.
Theorem C06_FlatPack_zero_cell_uncovered cf bl pl g ps i j :
  Feasible cf bl pl g ps -> blocks_ok (cN cf) bl -> 0 <= i < cR cf -> 0 <= j < cC cf -> cell g i j = 0 ->
  forall a, In a ps -> pcell bl a i j = 0.
Proof. exact (feasible_empty cf bl pl g ps i j). Qed.
Print Assumptions C06_FlatPack_reachable_packed.
Print Assumptions C06_FlatPack_nonzero_cell_one_block.
Example C06_FlatPack_nonvacuous :
  let cf := mkC 5 5 4 0 in
  let s := fst (run cf (fst (init cf toy_blocks_rot)) [(0, 2, 0, 0); (1, 0, 0, 0); (1, 2, 0, 2); (3, 0, 2, 2)]) in
  state_feasible_b cf s = true /\ length (recover cf s) = 3%nat /\ count_nz (grid s) = 19.
Proof. vm_compute. repeat split; reflexivity. Qed.
