(* C06 GraphColoring: under mask-respecting play adjacent coloured nodes never share a colour (Inv contains [proper]) *)
Require Import JV.Base.Prelude JV.Base.JaxIndex JV.Base.Codec JV.Base.TimeStep JV.Model.GraphColoring JV.Proofs.GraphColoring.
Theorem C06_GraphColoring_proper_init n adj0 : 0 < n -> graph_wf n adj0 -> proper n adj0 (colors (fst (init n adj0))).
Proof. intros H G. exact (inv_proper _ _ (init_Inv n adj0 H G)). Qed.
Theorem C06_GraphColoring_proper_step n s a :
  0 < n -> Inv n s -> 0 <= a < n -> jget false (amask s) a = true ->
  st (snd (step n s a)) = MID -> proper n (adj (fst (step n s a))) (colors (fst (step n s a))).
Proof. intros H I A M S. exact (inv_proper _ _ (step_preserves_Inv n s a H I A M S)). Qed.
Print Assumptions C06_GraphColoring_proper_step.
