(* C06 GraphColoring: under mask-respecting play adjacent coloured nodes never share a colour (Inv contains [proper]) - on
   every step, the terminal one included - and a mask-respecting episode from reset that ends delivers a COMPLETE PROPER
   colouring of the generated graph: every node has a colour in [0, n-1] and no edge joins two nodes of the same colour. *)
Require Import JV.Base.Prelude JV.Base.JaxIndex JV.Base.Codec JV.Base.TimeStep JV.Model.GraphColoring JV.Proofs.GraphColoring
  JV.Proofs.GraphColoring_rules JV.Proofs.GraphColoring_episode.
Theorem C06_GraphColoring_proper_init n adj0 : 0 < n -> graph_wf n adj0 -> proper n adj0 (colors (fst (init n adj0))).
Proof. intros H G. exact (inv_proper _ _ (init_Inv n adj0 H G)). Qed.
Theorem C06_GraphColoring_proper_step n s a :
  0 < n -> Inv n s -> 0 <= a < n -> jget false (amask s) a = true ->
  st (snd (step n s a)) = MID -> proper n (adj (fst (step n s a))) (colors (fst (step n s a))).
Proof. intros H I A M S. exact (inv_proper _ _ (step_preserves_Inv n s a H I A M S)). Qed.
Print Assumptions C06_GraphColoring_proper_step.
(* also on the terminal step: the whole invariant survives every mask-respecting in-spec colour *)
Theorem C06_GraphColoring_inv_every_legal_step n s a :
  0 < n -> Inv n s -> 0 <= a < n -> jget false (amask s) a = true -> Inv n (fst (step n s a)).
Proof. exact (step_preserves_Inv_legal n s a). Qed.
Print Assumptions C06_GraphColoring_inv_every_legal_step.
Theorem C06_GraphColoring_completion_is_a_proper_colouring n adj0 acts :
  0 < n -> graph_wf n adj0 ->
  let s0 := fst (init n adj0) in
  inspec n acts -> legal_run n s0 acts -> ended n s0 acts ->
  let sf := final n s0 acts in
  adj sf = adj0 /\ (forall j, 0 <= j < n -> 0 <= color_of (colors sf) j < n) /\ proper n adj0 (colors sf).
Proof.
  intros Hn G s0 HA Hl He sf.
  exact (let H := C08_return_from_reset n adj0 acts Hn G HA Hl He in conj (proj1 (proj2 H)) (conj (proj1 (proj2 (proj2 H))) (proj1 (proj2 (proj2 (proj2 H)))))).
Qed.
Print Assumptions C06_GraphColoring_completion_is_a_proper_colouring.
(* the boolean checkers run on implementation states decide the declarative predicates *)
Theorem C06_GraphColoring_checker n adj colors : proper_b n adj colors = true <-> proper n adj colors.
Proof. exact (proper_b_spec n adj colors). Qed.
Example C06_GraphColoring_nonvacuous :
  let adj0 := gen_adj 4 [[false;false;false;false];[true;false;false;false];[false;true;false;false];[true;false;true;false]] in
  let s0 := fst (init 4 adj0) in
  legal_run 4 s0 [0; 1; 0; 1] /\ ended 4 s0 [0; 1; 0; 1] /\ colors (final 4 s0 [0; 1; 0; 1]) = [0; 1; 0; 1]
  /\ proper_b 4 adj0 [0; 1; 0; 1] = true /\ proper_b 4 adj0 [0; 1; 1; 1] = false.
Proof. vm_compute. repeat split; try reflexivity; intuition (try discriminate; try lia). Qed.
