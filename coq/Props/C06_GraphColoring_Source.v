(* C06 GraphColoring over the SOURCE-TRANSLATED step (Gen/GraphColoringSrc.v): every mask-respecting in-spec colour keeps the whole
   invariant, in particular the colouring stays proper (adjacent coloured nodes differ). *)
Require Import JV.Base.Prelude JV.Base.JaxIndex JV.Base.Codec JV.Base.TimeStep JV.Gen.TimeStepSrc JV.Gen.GraphColoringSrc.
Require Import JV.Proofs.GraphColoring JV.Proofs.GraphColoring_rules JV.Proofs.GraphColoring_Src.
Require JV.Model.GraphColoring.
Theorem C06_GraphColoring_Source_legal_step_keeps_proper n s a :
  0 < n -> Inv n (conv s) -> 0 <= a < n -> jget false (s_action_mask s) a = true ->
  let s' := fst (step n s a) in
  Inv n (conv s') /\ JV.Model.GraphColoring.proper n (s_adj_matrix s') (s_colors s').
Proof. intros Hn I Ha Hm. cbv zeta. pose proof (src_proper_step n s a Hn I Ha Hm) as I'. exact (conj I' (inv_proper n _ I')). Qed.
Print Assumptions C06_GraphColoring_Source_legal_step_keeps_proper.
