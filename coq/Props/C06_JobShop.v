(* C06 JobShop: from reset on a well-formed instance (C10), under mask-respecting play of any length (every joint action inside
   the mask of the current state) the schedule built so far always satisfies the hard constraints [Feasible]:
     - the operations of a job are scheduled in order, each starting no earlier than the end of the previous ones
       (so two operations of one job never overlap),
     - two different operations on the same machine never overlap in time,
     - scheduled_times holds a start time in [0, clock) exactly for the scheduled operations, -1 elsewhere;
   and when the episode reports "finished" every real operation has been scheduled and has ended.
   The invariant behind it is the clock invariant [Inv] (DESIGN A.3), preserved by every mask-respecting step. *)
Require Import JV.Base.Prelude JV.Base.JaxIndex JV.Base.Codec JV.Base.TimeStep JV.Proofs.TimeStep_laws.
Require Import JV.Model.JobShop JV.Proofs.JobShop_lib JV.Proofs.JobShop_step JV.Proofs.JobShop_sched JV.Proofs.JobShop_episode JV.Proofs.JobShop_gen.
Theorem C06_JobShop_play_feasible c om od acts : 0 <= nj c -> 0 <= nm c -> 0 < no c -> rows_ok od (nj c) (no c) ->
  inst_wf c (fst (init c om od)) -> respects c (fst (init c om od)) acts ->
  Feasible c (play c (fst (init c om od)) acts).
Proof. exact (play_Feasible c om od acts). Qed.
Theorem C06_JobShop_init_Inv c om od : 0 <= nj c -> 0 <= nm c -> 0 < no c -> rows_ok od (nj c) (no c) ->
  inst_wf c (fst (init c om od)) -> Inv c (fst (init c om od)).
Proof. exact (init_Inv c om od). Qed.
Theorem C06_JobShop_step_preserves_Inv c s act : Inv c s -> in_spec c act -> valid_action c s act -> Inv c (fst (step c s act)).
Proof. exact (step_preserves_Inv c s act). Qed.
Theorem C06_JobShop_Inv_Feasible c s : Inv c s -> Feasible c s.
Proof. exact (Inv_Feasible c s). Qed.
Theorem C06_JobShop_finished_complete c s : finished_b c (omask s) (mrem s) = true -> Complete c s.
Proof. exact (finished_Complete c s). Qed.
Theorem C06_JobShop_finished_all_ended c s : Inv c s -> finished_b c (omask s) (mrem s) = true ->
  forall j k, 0 <= j < nj c -> 0 <= k < no c -> scheduled s j k -> fin s j k <= clock s.
Proof. exact (finished_all_ended c s). Qed.
Theorem C06_JobShop_checker c s : Feasible_b c s = true -> Feasible c s.
Proof. exact (Feasible_b_spec c s). Qed.
Theorem C06_JobShop_checker_complete c s : Complete_b c s = true -> Complete c s.
Proof. exact (Complete_b_spec c s). Qed.
Print Assumptions C06_JobShop_play_feasible.
Definition toy_s0 := fst (init toy_cfg toy_mach toy_dur).
Definition toy_acts : list (list Z) := [[3;4;0;1];[5;5;5;5];[5;5;1;0];[5;2;5;5];[4;5;5;3];[3;0;5;2];[1;4;0;5];[3;5;5;5]].
Definition respects_b (c : cfg) :=
  fix go (s : state) (acts : list (list Z)) : bool :=
    match acts with [] => true | a :: r => negb (invalid_b c s a) && go (fst (step c s a)) r end.
Example C06_JobShop_nonvacuous :
  let sf := play toy_cfg toy_s0 toy_acts in
  respects_b toy_cfg toy_s0 toy_acts = true /\ Feasible_b toy_cfg sf = true /\ Complete_b toy_cfg sf = true
  /\ finished_b toy_cfg (omask sf) (mrem sf) = true /\ inst_wf_b toy_cfg toy_s0 = true
  /\ sched sf = [[0;2;5;6];[0;2;6;-1];[3;5;-1;-1];[0;4;5;7];[0;4;6;-1]].
Proof. vm_compute. repeat split; reflexivity. Qed.
