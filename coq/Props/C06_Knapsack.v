(* C06 Knapsack: packed weight + remaining budget = total budget and remaining budget >= 0 - hence the packed weight never
   exceeds the budget - on the reset state and after EVERY in-spec action (legal or not), along whole episodes;
   when a legal item ends the episode nothing more fits (maximal packing).
   Arithmetic: exact (the model over dyadic integers; float32 is exact on dyadic grids, see C06_Knapsack_float32_exact_on_grid).
   For float32 in general only "remaining budget >= 0" survives rounding (C06_Knapsack_budget_nonneg_float32); the identity
   can be off by half an ulp per packed item (Proofs/Knapsack.v float32_overpack, reported as a note). *)
Require Import JV.Base.Prelude JV.Base.JaxIndex JV.Base.Codec JV.Base.TimeStep JV.Model.Knapsack JV.Proofs.Knapsack.
Theorem C06_Knapsack_init n total w v : 0 <= total -> Feasible total (fst (init n total w v)).
Proof. exact (C06_init_Feasible n total w v). Qed.
Theorem C06_Knapsack_step n total sparse s a :
  shape n s -> 0 <= a < n -> Feasible total s -> Feasible total (fst (step sparse s a)).
Proof. exact (C06_step_preserves_Feasible n total sparse s a). Qed.
Theorem C06_Knapsack_within_budget total s : Feasible total s -> packed_weight s <= total.
Proof. exact (Feasible_within_budget total s). Qed.
Theorem C06_Knapsack_episode n total sparse acts s :
  shape n s -> Feasible total s -> Forall (fun a => 0 <= a < n) acts ->
  Forall (fun p => Feasible total (fst p) /\ packed_weight (fst p) <= total) (run rid sparse s acts).
Proof. exact (C06_run_Feasible n total sparse acts s). Qed.
Print Assumptions C06_Knapsack_episode.
Theorem C06_Knapsack_completion_maximal n rnd sparse s a :
  shape n s -> valid s a = true -> st (snd (step_r rnd sparse s a)) = LAST ->
  forall i, 0 <= i < n -> ~ legal (fst (step_r rnd sparse s a)) i.
Proof. exact (C06_completion_maximal n rnd sparse s a). Qed.
Print Assumptions C06_Knapsack_completion_maximal.
Theorem C06_Knapsack_budget_nonneg_float32 sparse s a : 0 <= budget s -> 0 <= budget (fst (step_r rne24 sparse s a)).
Proof. exact (C06_budget_nonneg_float32 sparse s a). Qed.
Theorem C06_Knapsack_float32_exact_on_grid sparse s a :
  0 <= budget s < 16777216 -> Forall (fun w => 0 <= w) (weights s) -> step_r rne24 sparse s a = step sparse s a.
Proof. exact (float_step_exact sparse s a). Qed.
Print Assumptions C06_Knapsack_float32_exact_on_grid.
Theorem C06_Knapsack_checker total s : Feasible_b total s = true <-> Feasible total s.
Proof. exact (Feasible_b_spec total s). Qed.
Example C06_Knapsack_nonvacuous :
  let s0 := fst (init 3 1024 [512; 512; 700] [100; 200; 300]) in
  let s2 := fst (step false (fst (step false s0 1)) 0) in
  shape 3 s0 /\ Feasible 1024 s0 /\ Feasible 1024 s2 /\ packed_weight s2 = 1024 /\ budget s2 = 0
  /\ st (snd (step false (fst (step false s0 1)) 0)) = LAST /\ maximal_b 3 s2 = true.
Proof. vm_compute. repeat split; try reflexivity; intuition (try discriminate; try lia). Qed.
