(* C06 Knapsack over the SOURCE-TRANSLATED step (Gen/KnapsackSrc.v): every in-spec action keeps the packing feasible (packed weight +
   remaining budget = total, never over budget) in exact arithmetic; under IEEE binary32 rounding the remaining budget never goes negative. *)
Require Import JV.Base.Prelude JV.Base.JaxIndex JV.Base.Codec JV.Base.TimeStep JV.Gen.TimeStepSrc JV.Gen.KnapsackSrc JV.Proofs.Knapsack JV.Proofs.Knapsack_Src.
Require JV.Model.Knapsack.
Theorem C06_Knapsack_Source_step_feasible n total sparse s a :
  JV.Model.Knapsack.shape n (conv s) -> 0 <= a < n -> JV.Model.Knapsack.Feasible total (conv s) ->
  JV.Model.Knapsack.Feasible total (conv (fst (step (fun x => x) (reward_src sparse) s a))).
Proof. exact (src_step_feasible n total sparse s a). Qed.
Print Assumptions C06_Knapsack_Source_step_feasible.
Theorem C06_Knapsack_Source_budget_nonneg_float32 sparse s a : 0 <= s_remaining_budget s ->
  0 <= s_remaining_budget (fst (step JV.Model.Knapsack.rne24 (reward_src sparse) s a)).
Proof. exact (src_float32_budget_nonneg sparse s a). Qed.
Print Assumptions C06_Knapsack_Source_budget_nonneg_float32.
