(* C06 MMST: under ANY actions (illegal moves are ignored) and any tie-break draws,
   - a utility node is never in the routes of two agents ([Excl]),
   - every node an agent has connected is reachable from its start node through connected nodes along base-graph edges,
   - every entry of the route array is a connected node, the position is connected,
   - when an agent is finished all its required nodes are connected (complete feasible solution for that agent). *)
Require Import JV.Base.Prelude JV.Base.JaxIndex JV.Base.Codec JV.Base.TimeStep JV.Model.Mmst JV.Proofs.Mmst_lib JV.Proofs.Mmst JV.Proofs.Mmst_Episode JV.Proofs.Mmst_Obs JV.Proofs.Mmst_Gen JV.Proofs.Mmst_Examples.
Theorem C06_Mmst_utility_exclusive c start s acts perm : Inv c start s -> Excl (cA c) (cN c) (fst (step c s acts perm)).
Proof. intro H. exact (inv_X c start _ (step_Inv c start s acts perm H)). Qed.
Print Assumptions C06_Mmst_utility_exclusive.
Theorem C06_Mmst_route_connected c start s acts perm a j :
  Inv c start s -> 0 <= a < cA c -> 0 <= j < cN c -> visited (fst (step c s acts perm)) a j = true ->
  conn_from (base_adj (fst (step c s acts perm))) (visited (fst (step c s acts perm)) a) (start a) j.
Proof. intro H. exact (inv_C c start _ (step_Inv c start s acts perm H) a j). Qed.
Theorem C06_Mmst_episode c start s l : Inv c start s -> Inv c start (run c s l).
Proof. exact (run_Inv c start s l). Qed.
Theorem C06_Mmst_completion c start s a :
  Inv c start s -> 0 <= a < cA c -> zlen (znth [] (ntc s) a) = cK c ->
  (forall k, In k (znth [] (ntc s) a) -> k <> -1) ->
  finished_agent (cK c) (znth [] (ntc s) a) (znth [] (conn s) a) = true ->
  forall k, In k (znth [] (ntc s) a) ->
    visited s a k = true /\ conn_from (base_adj s) (visited s a) (start a) k.
Proof. exact (finished_connected c start s a). Qed.
Print Assumptions C06_Mmst_completion.
Theorem C06_Mmst_tie_break A nodes acts perm k l :
  zlen nodes = A -> (forall i, 0 <= i < A -> -1 <= znth (-1) nodes i) ->
  0 <= A -> 0 <= k < A -> 0 <= l < A -> k <> l ->
  won (snd (tie_break A nodes acts perm)) k -> won (snd (tie_break A nodes acts perm)) l ->
  znth (-1) nodes k <> znth (-1) nodes l.
Proof. intros H1 H2. exact (winners_distinct A nodes acts H1 H2 perm k l). Qed.
Example C06_Mmst_nonvacuous :
  pos ex_s1 = [1; 4] /\ fin ex_s1 = [true; false] /\ reward (snd (step ex_cfg ex_s0 [1; 4] [0; 1])) = [10 + -1]
  /\ st (snd (step ex_cfg ex_s0 [1; 4] [0; 1])) = MID
  /\ obs_types ex_cfg ex_s1 = [0; 0; -1; 3; 2; 2]
  /\ edges_ok_b 2 6 ex_s1 = true /\ excl_b 2 6 ex_s1 = true /\ route_connected_b 2 6 ex_s1 = true.
Proof. exact ex_step1. Qed.
