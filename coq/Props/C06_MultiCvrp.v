(* C06 MultiCVRP.  Inv n V mc d0 s H (d0 = the generated demands, H = the joint moves made so far) holds on the reset state and
   is preserved by EVERY joint action whose node indices lie in [0, n] - masked-in or not: a masked-out choice is replaced by the
   depot, and of several vehicles choosing the same customer only the first serves it (the others go to the depot).  It says:
   each vehicle's load (original demands collected since its last depot visit) = max_capacity - capacity <= max_capacity;
   no customer occurs twice in the joint history of ALL vehicles; a demand is zero iff it was zero from the start or the customer
   has been served.  When the episode ends by completion every customer that had demand has been served and every vehicle is
   at the depot.  [0, n] is exactly the action spec (C01_MultiCvrp.v); the out-of-spec index n+1 is not covered (and false). *)
Require Import JV.Base.Prelude JV.Base.JaxIndex JV.Base.Codec JV.Base.TimeStep JV.Model.MultiCvrp JV.Proofs.MultiCvrp JV.Proofs.MultiCvrp_Episode.
Theorem C06_MultiCvrp_init rnd n V mc maxd wl r ws ce cl : 0 <= V -> 0 <= mc -> 0 <= maxd -> zlen r = n + 1 -> 0 <= n ->
  Forall (fun d => 0 <= d) r ->
  let s0 := fst (init_r rnd n V mc maxd wl r ws ce cl) in
  Inv n V mc (demands s0) s0 [] /\ (forall i, 0 <= znth 0 (demands s0) i <= maxd) /\ obj s0 = 0 /\ scount s0 = 1.
Proof. exact (C10_init_Inv rnd n V mc maxd wl r ws ce cl). Qed.
Theorem C06_MultiCvrp_step rnd n V mc dist d0 s H acts : n < 32768 -> 0 <= mc -> Inv n V mc d0 s H ->
  zlen acts = V -> Forall (fun a => 0 <= a <= n) acts ->
  Inv n V mc d0 (update rnd mc dist s acts) (next_nodes s acts :: H).
Proof. exact (step_Inv rnd n V mc dist d0 s H acts). Qed.
Print Assumptions C06_MultiCvrp_step.
Theorem C06_MultiCvrp_episode rnd sp n V mc dist d0 al s H : n < 32768 -> 0 <= mc -> Inv n V mc d0 s H ->
  Forall (fun acts => zlen acts = V /\ Forall (fun a => 0 <= a <= n) acts) al ->
  Forall (fun p => exists H', Inv n V mc d0 (fst p) H') (run rnd sp n mc dist s al).
Proof. exact (C06_run_Inv rnd sp n V mc dist d0 al s H). Qed.
Theorem C06_MultiCvrp_load_within_capacity n V mc d0 s H v : Inv n V mc d0 s H -> 0 <= v < V ->
  load d0 (route H v) = mc - znth 0 (cap s) v /\ load d0 (route H v) <= mc /\ 0 <= znth 0 (cap s) v.
Proof. exact (C06_load_within_capacity n V mc d0 s H v). Qed.
Theorem C06_MultiCvrp_no_customer_twice n V mc d0 s H : Inv n V mc d0 s H ->
  NoDup (customers (concat H))
  /\ (forall i, 1 <= i <= n -> 0 < znth 0 d0 i -> (In i (concat H) <-> znth 0 (demands s) i = 0)).
Proof. exact (C06_no_customer_twice n V mc d0 s H). Qed.
(* two vehicles choosing the same customer in one step: the joint move has no repeated customer, and the first vehicle for
   which the customer is legal is the one that serves it *)
Theorem C06_MultiCvrp_contest_resolved s acts : NoDup (customers (next_nodes s acts)).
Proof. exact (nn_nodup s acts). Qed.
Theorem C06_MultiCvrp_first_wins n V s acts v : n < 32768 -> zlen (demands s) = n + 1 -> zlen (cap s) = V -> zlen acts = V ->
  Forall (fun a => 0 <= a <= n) acts -> 0 <= v < V -> znth 0 acts v <> 0 -> legal n s v (znth 0 acts v) ->
  (forall u, 0 <= u < v -> znth 0 acts u <> znth 0 acts v \/ ~ legal n s u (znth 0 acts u)) ->
  znth 0 (next_nodes s acts) v = znth 0 acts v.
Proof. exact (fun a b c d e => nn_first_wins n V s acts a b c d e v). Qed.
Theorem C06_MultiCvrp_completion n V mc d0 s H : Inv n V mc d0 s H -> complete s = true ->
  (forall i, 1 <= i <= n -> 0 < znth 0 d0 i -> In i (concat H)) /\ (forall v, 0 <= v < V -> znth 0 (pos s) v = 0).
Proof. exact (C06_completion n V mc d0 s H). Qed.
Print Assumptions C06_MultiCvrp_completion.
(* the boolean checker the harness runs on IMPLEMENTATION states (history read back from order/positions) is sound *)
Theorem C06_MultiCvrp_checker_sound n V mc d0 s : Feasible_b n V mc d0 s = true -> Inv n V mc d0 s (hist_of s).
Proof. exact (Feasible_b_sound n V mc d0 s). Qed.
Print Assumptions C06_MultiCvrp_checker_sound.
(* 3 customers (demands 2,3,2), 2 vehicles of capacity 4: both ask for customer 2 (only vehicle 0 gets it), then 1 and 3,
   then home: complete, loads within capacity; a state whose load exceeds the capacity is rejected by the checker *)
Example C06_MultiCvrp_nonvacuous :
  let s0 := st0 [0; 2; 3; 2] 2 4 3 in
  let tr := run rid false 3 4 dlin s0 [[2; 2]; [0; 1]; [3; 0]; [0; 0]] in
  Feasible_b 3 2 4 [0; 2; 3; 2] s0 = true /\ forallb (fun p => Feasible_b 3 2 4 [0; 2; 3; 2] (fst p)) tr = true
  /\ map (fun p => pos (fst p)) tr = [[2; 0]; [0; 1]; [3; 0]; [0; 0]]
  /\ map (fun p => cap (fst p)) tr = [[1; 4]; [4; 2]; [2; 4]; [4; 4]]
  /\ map (fun p => st (snd p)) tr = [MID; MID; MID; LAST] /\ complete (final s0 tr) = true
  /\ Inv_b 3 2 4 [0; 2; 3; 2] (fst (nth 0 tr dflt)) [[2; 2]] = false.
Proof. vm_compute. repeat split; reflexivity. Qed.
