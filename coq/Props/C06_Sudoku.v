(* C06 Sudoku: under mask-respecting play no digit ever repeats in a row, a column or a box (Inv6 = Inv + conflict_free, true at
   reset of every well-formed puzzle, preserved by every masked-in action); the reward is 1 exactly when the grid is complete and
   conflict-free, and a mask-respecting episode whose grid becomes complete ends there with reward 1 (completion => solved).    *)
Require Import JV.Base.Prelude JV.Base.JaxIndex JV.Base.Codec JV.Base.TimeStep JV.Model.Sudoku JV.Proofs.Sudoku.
Theorem C06_Sudoku_init p : puzzle_ok_b p = true -> Inv6 (fst (init p)).
Proof. exact (init_Inv6 p). Qed.
Theorem C06_Sudoku_step s r c d :
  Inv6 s -> in_spec r c d -> mask_at (amask s) r c d = true -> Inv6 (fst (step s r c d)).
Proof. exact (step_Inv6 s r c d). Qed.
Print Assumptions C06_Sudoku_step.
Theorem C06_Sudoku_conflict_free s : Inv6 s -> conflict_free (board s).
Proof. exact (fun H => proj2 H). Qed.
Theorem C06_Sudoku_completion s r c d :
  Inv6 s -> in_spec r c d -> mask_at (amask s) r c d = true -> full (board (fst (step s r c d))) ->
  snd (step s r c d) = termination 1 [1].
Proof. exact (completion_solved s r c d). Qed.
Theorem C06_Sudoku_reward_one_iff_full_valid s r c d : Inv s -> in_spec r c d ->
  (reward (snd (step s r c d)) = [1] <-> full (board (fst (step s r c d))) /\ conflict_free (board (fst (step s r c d)))).
Proof. exact (reward_one_iff s r c d). Qed.
Print Assumptions C06_Sudoku_reward_one_iff_full_valid.
Theorem C06_Sudoku_checker b : conflict_free_b b = true <-> conflict_free b.
Proof. exact (conflict_free_b_spec b). Qed.
Example C06_Sudoku_nonvacuous :
  let s1 := fst (init one_hole) in
  puzzle_ok_b one_hole = true /\ mask_at (amask s1) 4 7 2 = true /\ full_b (board (fst (step s1 4 7 2))) = true
  /\ snd (step s1 4 7 2) = termination 1 [1] /\ conflict_free_b (board (fst (step s1 4 7 3))) = false.
Proof. vm_compute. repeat split. Qed.
