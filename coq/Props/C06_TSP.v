(* C06 TSP: the reset state encodes the empty tour, and after EVERY in-spec action (legal or not: an illegal one changes
   nothing) the state still encodes a partial tour (Inv), which means: no city appears twice on the trajectory, the
   visited mask is exactly the set of the trajectory, unfilled slots are -1, position is the last city, the counter is the
   tour length (<= num_cities).  A legal step is LAST exactly when the tour becomes complete, and then the trajectory is a
   permutation of ALL the cities (a complete feasible solution).  Inv_b / perm_b are the boolean checkers run on
   implementation states. *)
Require Import JV.Base.Prelude JV.Base.JaxIndex JV.Base.Codec JV.Base.TimeStep JV.Model.TSP JV.Proofs.TSP_lists JV.Proofs.TSP.
From Coq Require Import Permutation.
Theorem C06_TSP_init n c : Inv n (fst (init n c)).
Proof. exact (init_Inv n (fun _ _ => 0) c). Qed.
Theorem C06_TSP_step n pen dist rnd sparse s a : 0 <= n -> Inv n s -> 0 <= a < n -> Inv n (fst (step_r rnd sparse n pen dist s a)).
Proof. intro Hn. exact (step_Inv n pen dist Hn rnd sparse s a). Qed.
Theorem C06_TSP_episode n pen dist rnd sparse acts s : 0 <= n ->
  Inv n s -> Forall (fun a => 0 <= a < n) acts -> Forall (fun p => Inv n (fst p)) (run n pen dist rnd sparse s acts).
Proof. intro Hn. exact (C06_run_Inv n pen dist Hn rnd sparse acts s). Qed.
Print Assumptions C06_TSP_episode.
Theorem C06_TSP_meaning n s : 0 <= n -> Inv n s ->
  let tour := tour_of s in
  NoDup tour /\ Forall (fun c => 0 <= c < n) tour /\ nvis s = zlen tour /\ 0 <= nvis s <= n
  /\ zlen (visited s) = n /\ zlen (traj s) = n
  /\ (forall i, 0 <= i < n -> (znth false (visited s) i = true <-> In i tour))
  /\ traj s = tour ++ repeat (-1) (Z.to_nat (n - nvis s))
  /\ position s = last tour (-1).
Proof. intro Hn. exact (Inv_meaning n (fun _ _ => 0) Hn s). Qed.
Theorem C06_TSP_complete_is_permutation n s : 0 <= n -> Inv n s -> nvis s = n ->
  Permutation (traj s) (zrange n) /\ all_true (visited s) = true.
Proof. intro Hn. exact (C06_complete_is_permutation n 0 (fun _ _ => 0) Hn s). Qed.
Theorem C06_TSP_last_iff_complete n pen dist rnd sparse s a : 0 <= n -> Inv n s -> 0 <= a < n -> legal s a ->
  (st (snd (step_r rnd sparse n pen dist s a)) = LAST <-> nvis (fst (step_r rnd sparse n pen dist s a)) = n).
Proof. intro Hn. exact (C06_last_iff_complete n pen dist Hn rnd sparse s a). Qed.
Theorem C06_TSP_checker n s : Inv_b n s = true <-> Inv n s.
Proof. exact (Inv_b_spec n 0 (fun _ _ => 0) s). Qed.
Theorem C06_TSP_perm_checker n l : 0 <= n -> perm_b n l = true -> Permutation l (zrange n).
Proof. intro Hn. exact (perm_b_spec n Hn l). Qed.
Print Assumptions C06_TSP_complete_is_permutation.
Print Assumptions C06_TSP_last_iff_complete.
Example C06_TSP_nonvacuous :
  let s0 := fst (init 4 [0; 0; 3; 0; 7; 0; 12; 0]) in
  let sf := final (run 4 99 ex_dist rid false s0 [2; 0; 3; 1]) s0 in
  Inv_b 4 s0 = true /\ Inv_b 4 sf = true /\ nvis sf = 4 /\ traj sf = [2; 0; 3; 1] /\ perm_b 4 (traj sf) = true
  /\ Inv_b 4 (mkS [] 1 [false; true; false; false] [1; 1; -1; -1] 2) = false
  /\ Inv_b 4 (mkS [] 1 [true; true; false; false] [1; -1; -1; -1] 1) = false.
Proof. vm_compute. repeat split; reflexivity. Qed.
