(* C06 TSP over the SOURCE-TRANSLATED step (Gen/TspSrc.v; see C09_TSP_Source.v) *)
Require Import JV.Base.Prelude JV.Base.JaxIndex JV.Base.Codec JV.Base.TimeStep JV.Gen.TimeStepSrc JV.Gen.TspSrc.
Require Import JV.Proofs.TSP_lists JV.Proofs.TSP JV.Proofs.Tsp_Src.
Require JV.Model.TSP.
(* C06: every in-spec action of the translated step keeps the tour invariant (trajectory prefix duplicate-free and equal to the mask) *)
Theorem C06_TSP_Source_step_keeps_tour_invariant n pen dist rnd sparse s a : 0 <= n -> JV.Model.TSP.Inv n (conv s) -> 0 <= a < n ->
  JV.Model.TSP.Inv n (conv (fst (step n (reward_model rnd sparse n pen dist) s a))).
Proof. exact (src_step_inv n pen dist rnd sparse s a). Qed.
Print Assumptions C06_TSP_Source_step_keeps_tour_invariant.
