(* C07 Cleaner: Inv (grid is rows x cols over {DIRTY, CLEAN, WALL}; there are num_agents agents, each inside the
   grid on a CLEAN cell, hence never on a wall; the stored mask is the mask of the stored grid; step_count >= 0)
   is preserved by EVERY joint action vector of the right length (any integers, legal or not), and cells only ever
   go DIRTY -> CLEAN: walls are conserved.  Inv holds at reset for every maze (C10_Cleaner). *)
Require Import JV.Base.Prelude JV.Base.JaxIndex JV.Base.Codec JV.Base.TimeStep JV.Model.Cleaner JV.Proofs.Cleaner.
Theorem C07_Cleaner_step_preserves_Inv c s acts : Inv c s -> zlen acts = nag c -> Inv c (fst (step c s acts)).
Proof. exact (step_preserves_Inv c s acts). Qed.
Print Assumptions C07_Cleaner_step_preserves_Inv.
Theorem C07_Cleaner_cells_monotone c s acts r k :
  Inv c s -> 0 <= r < rows c -> 0 <= k < cols c ->
  cell_step (gat 0 (grid s) r k) (gat 0 (grid (fst (step c s acts))) r k).
Proof. exact (step_cells c s acts r k). Qed.
Theorem C07_Cleaner_walls_conserved c s acts r k :
  Inv c s -> 0 <= r < rows c -> 0 <= k < cols c ->
  (gat 0 (grid (fst (step c s acts))) r k = WALL <-> gat 0 (grid s) r k = WALL).
Proof. exact (step_walls c s acts r k). Qed.
Print Assumptions C07_Cleaner_walls_conserved.
(* closure: every state reachable from the reset of ANY maze by ANY joint actions is physically consistent *)
Theorem C07_Cleaner_reachable_Inv c s : 0 < rows c -> 0 < cols c -> 0 <= nag c -> reachable c s -> Inv c s.
Proof. exact (reachable_Inv c s). Qed.
Print Assumptions C07_Cleaner_reachable_Inv.
(* the boolean twins run on implementation states decide the same predicates *)
Theorem C07_Cleaner_checker_Physical c s : Physical_b c s = true <-> Physical c s.
Proof. exact (Physical_b_spec c s). Qed.
Theorem C07_Cleaner_checker_Inv c s : Inv_b c s = true <-> Inv c s.
Proof. exact (Inv_b_spec c s). Qed.
Theorem C07_Cleaner_checker_monotone g g' : grid_step_b g g' = true <-> grid_step g g'.
Proof. exact (grid_step_b_spec g g'). Qed.
Example C07_Cleaner_nonvacuous :
  Inv_b ex_cfg ex_s0 = true /\ Inv_b ex_cfg (fst (step ex_cfg ex_s0 [1; 2])) = true
  /\ grid_step_b (grid ex_s0) (grid (fst (step ex_cfg ex_s0 [1; 2]))) = true
  /\ grid (fst (step ex_cfg ex_s0 [1; 2])) <> grid ex_s0.
Proof. vm_compute. repeat split; try reflexivity. discriminate. Qed.
