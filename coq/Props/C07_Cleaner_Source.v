(* C07 Cleaner over the SOURCE-TRANSLATED step (Gen/CleanerSrc.v; see C09_Cleaner_Source.v): ANY joint action of the right length keeps
   the invariant (agents on the grid and not on walls, their tiles clean, walls fixed, mask exact, clock in range). *)
Require Import JV.Base.Prelude JV.Base.JaxIndex JV.Base.Codec JV.Base.TimeStep JV.Gen.TimeStepSrc JV.Gen.CleanerSrc JV.Proofs.Cleaner JV.Proofs.Cleaner_Src.
Require JV.Model.Cleaner.
Theorem C07_Cleaner_Source_step_preserves_Inv R C N T pen s acts :
  JV.Model.Cleaner.Inv (JV.Model.Cleaner.mkC R C N T pen) (conv s) -> zlen acts = N ->
  JV.Model.Cleaner.Inv (JV.Model.Cleaner.mkC R C N T pen) (conv (fst (step R C T pen s acts))).
Proof. exact (src_step_inv R C N T pen s acts). Qed.
Print Assumptions C07_Cleaner_Source_step_preserves_Inv.
