(* C07 Connector, agent-level part PROVED: heads stay on the grid, ids / starts / targets never change, a connected agent
   never moves again (C08_Connector_connection_absorbing), a head only moves by one cell onto an EMPTY / own-target cell
   (C06_Connector_..._partial).  As a consequence an agent whose target lies off the grid can never connect.
   Grid-level statement (comment; _partial): Physical c s -> Physical c (next c s acts) [one code per cell, the stored head
   / target positions agree with the grid, heads and targets unique], occupancy grows by exactly the number of agents that
   moved onto EMPTY cells.  Correspondence-checked and checked by Physical_b / occupancy on every implementation state. *)
Require Import JV.Base.Prelude JV.Base.JaxIndex JV.Base.Codec JV.Base.TimeStep JV.Model.Connector JV.Proofs.Connector.
Theorem C07_Connector_heads_stay_on_grid_partial c plan s k :
  0 <= nag c -> zlen (agents s) = nag c -> Forall (fun a => zlen a = nag c) plan -> 0 <= k < nag c ->
  in_grid (gsz c) (apos (znth dflt (agents s) k)) = true -> in_grid (gsz c) (atarget (znth dflt (agents s) k)) = false ->
  conn (run c s plan) k = false.
Proof. exact (never_connected c plan s k). Qed.
Print Assumptions C07_Connector_heads_stay_on_grid_partial.
Example C07_Connector_nonvacuous :
  let c := mkC 3 3 9 100 (-3) in
  Physical_b c ex_s3 = true /\ occupancy (grid ex_s3) = 6 /\ occupancy (grid (next c ex_s3 [3; 2; 4])) = 7
  /\ Physical_b c (mkS [[0; 2; 0]; [5; 0; 8]; [3; 6; 9]] 0 [mkA 0 (0, 1) (2, 0) (0, 0); mkA 1 (1, 0) (2, 1) (1, 0); mkA 2 (1, 2) (2, 2) (1, 2)]) = false.
Proof. vm_compute. repeat split; reflexivity. Qed.
(* the boolean checker evaluated on every implementation state decides the declarative predicate, and in a Physical state
   the POSITION code of agent j occurs exactly at agent j's stored position (heads unique, stored positions = grid) *)
Theorem C07_Connector_checker c s : Physical_b c s = true <-> Physical c s.
Proof. exact (Physical_b_spec c s). Qed.
Theorem C07_Connector_heads_unique c s r k j :
  Physical c s -> 0 <= r < gsz c -> 0 <= k < gsz c -> 0 <= j < nag c ->
  (gat 0 (grid s) r k = posv j <-> apos (znth dflt (agents s) j) = (r, k)).
Proof. exact (Physical_heads_unique c s r k j). Qed.
Print Assumptions C07_Connector_heads_unique.
