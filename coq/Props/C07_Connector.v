(* C07 Connector, PROVED for all sizes, states and ANY in-spec joint actions (legal or not, any number of agents
   contending for a cell): grid-level physical consistency is an invariant.  Physical c s = the grid is G x G, there are
   num_agents agents, agent k has id k with head and target on the grid, the grid shows POSITION k at its stored head and
   (until connected) TARGET k at its stored target, and every cell is EMPTY or carries the code of exactly one agent with
   POSITION / TARGET codes only at the stored head / target (so heads and targets are unique: one entity per cell).
   It is preserved by every step and along every episode (from the max-join theorem, Proofs/Connector_Join.v).
   Also: heads stay on the grid, ids / starts / targets never change, a connected agent never moves again
   (C08_Connector_connection_absorbing); an agent whose target lies off the grid can never connect.
   Conserved quantity: the number of occupied cells grows by exactly the number of agents whose head moved onto an EMPTY
   cell (a move onto the own TARGET and the POSITION -> PATH rewrite leave it unchanged).
   Every state reachable from a UniformRandomGenerator instance (any valid draw) by in-spec joint actions is Physical. *)
Require Import JV.Base.Prelude JV.Base.JaxIndex JV.Base.Codec JV.Base.TimeStep JV.Model.Connector JV.Proofs.Connector
  JV.Proofs.Connector_Step JV.Proofs.Connector_Uniform.
Theorem C07_Connector_physical_preserved c s acts :
  Physical c s -> wf c s acts -> in_spec acts -> Physical c (next c s acts).
Proof. exact (Physical_next c s acts). Qed.
Theorem C07_Connector_physical_along_episode c plan s :
  Physical c s -> Forall (fun a => zlen a = nag c /\ in_spec a) plan -> Physical c (run c s plan).
Proof. exact (Physical_run c plan s). Qed.
Theorem C07_Connector_reachable_from_uniform_instance c starts targets plan :
  0 < gsz c -> uniform_draw_ok (gsz c) (nag c) starts targets = true ->
  Forall (fun a => zlen a = nag c /\ in_spec a) plan ->
  Physical c (run c (gen_uniform (gsz c) (nag c) starts targets) plan).
Proof. exact (uniform_reachable_Physical c starts targets plan). Qed.
Theorem C07_Connector_occupancy c s acts :
  Physical c s -> wf c s acts -> in_spec acts ->
  occupancy (grid (next c s acts)) = occupancy (grid s) + zsum (map (entered_empty c s acts) (zrange (nag c))).
Proof. exact (occupancy_next c s acts). Qed.
Theorem C07_Connector_heads_stay_on_grid c plan s k :
  0 <= nag c -> zlen (agents s) = nag c -> Forall (fun a => zlen a = nag c) plan -> 0 <= k < nag c ->
  in_grid (gsz c) (apos (znth dflt (agents s) k)) = true -> in_grid (gsz c) (atarget (znth dflt (agents s) k)) = false ->
  conn (run c s plan) k = false.
Proof. exact (never_connected c plan s k). Qed.
Print Assumptions C07_Connector_physical_preserved.
Print Assumptions C07_Connector_physical_along_episode.
Print Assumptions C07_Connector_reachable_from_uniform_instance.
Print Assumptions C07_Connector_occupancy.
Print Assumptions C07_Connector_heads_stay_on_grid.
Example C07_Connector_nonvacuous :
  let c := mkC 3 3 9 100 (-3) in
  (Physical c ex_s3 /\ wf c ex_s3 [3; 2; 4] /\ in_spec [3; 2; 4])
  /\ Physical_b c ex_s3 = true /\ occupancy (grid ex_s3) = 6 /\ occupancy (grid (next c ex_s3 [3; 2; 4])) = 7
  /\ map (entered_empty c ex_s3 [3; 2; 4]) (zrange 3) = [0; 0; 1]
  /\ Physical_b c (mkS [[0; 2; 0]; [5; 0; 8]; [3; 6; 9]] 0 [mkA 0 (0, 1) (2, 0) (0, 0); mkA 1 (1, 0) (2, 1) (1, 0); mkA 2 (1, 2) (2, 2) (1, 2)]) = false.
Proof.
  cbv zeta. split; [|vm_compute; repeat split; reflexivity].
  split; [apply Physical_b_spec; vm_compute; reflexivity|]. split; [vm_compute; repeat split; discriminate|repeat constructor; lia].
Qed.
(* the boolean checker evaluated on every implementation state decides the declarative predicate, and in a Physical state
   the POSITION code of agent j occurs exactly at agent j's stored position (heads unique, stored positions = grid) *)
Theorem C07_Connector_checker c s : Physical_b c s = true <-> Physical c s.
Proof. exact (Physical_b_spec c s). Qed.
Theorem C07_Connector_heads_unique c s r k j :
  Physical c s -> 0 <= r < gsz c -> 0 <= k < gsz c -> 0 <= j < nag c ->
  (gat 0 (grid s) r k = posv j <-> apos (znth dflt (agents s) j) = (r, k)).
Proof. exact (Physical_heads_unique c s r k j). Qed.
Print Assumptions C07_Connector_heads_unique.
