(* C07 Game2048: under ANY in-spec action (legal or not) from any state satisfying Inv, with the draw an empty cell of the
   moved board whenever a tile is spawned:  the state stays an n x n board of non-negative exponents with a consistent mask;
   the move itself conserves the sum of tile values (sum of 2^e over non-empty cells); exactly one tile of value 2 or 4 is
   added, on a cell that was empty, iff the move was legal (tile sum + 2^v, tile count + 1, every other cell untouched);
   an illegal move leaves the board as it is. *)
Require Import JV.Base.Prelude JV.Base.JaxIndex JV.Base.Codec JV.Base.TimeStep JV.Model.Game2048
  JV.Proofs.Game2048_Row JV.Proofs.Game2048_Board JV.Proofs.Game2048.
Theorem C07_Game2048_step_physical n s a idx v s' t :
  0 < n -> Inv n s -> 0 <= a < 4 ->
  (jget false (amask s) a = true -> valid_draw n (spec_move n (board s) a) idx v = true) ->
  step n s a idx v = Some (s', t) ->
  let lg := jget false (amask s) a in
  Inv n s'
  /\ total (spec_move n (board s) a) = total (board s)
  /\ total (board s') = total (board s) + (if lg then 2 ^ v else 0)
  /\ count_tiles (board s') = count_tiles (spec_move n (board s) a) + (if lg then 1 else 0)
  /\ (lg = true -> (v = 1 \/ v = 2) /\ board s' = add_cell n (spec_move n (board s) a) idx v
                  /\ gat 0 (spec_move n (board s) a) (idx / n) (idx mod n) = 0)
  /\ (lg = false -> board s' = board s)
  /\ exists r, reward t = [r] /\ 0 <= r /\ r = (if lg then spec_reward n (board s) a else 0)
               /\ score s' = score s + r
               /\ phi_total (board s') = phi_total (board s) + r + (if lg then phi v else 0).
Proof. exact (step_physical n s a idx v s' t). Qed.
Print Assumptions C07_Game2048_step_physical.
(* the spawned tile is the only cell that differs from the moved board *)
Theorem C07_Game2048_one_cell n b idx v i j : 0 < n -> wf n b -> 0 <= idx < n * n -> 0 <= i < n -> 0 <= j < n ->
  gat 0 (add_cell n b idx v) i j = if (i =? idx / n) && (j =? idx mod n) then v else gat 0 b i j.
Proof. exact (gat_add_cell n b idx v i j). Qed.
Print Assumptions C07_Game2048_one_cell.
Theorem C07_Game2048_move_conserves_tile_sum n b a : wf n b -> nonneg b -> total (spec_move n b a) = total b.
Proof. exact (total_spec_move n b a). Qed.
Print Assumptions C07_Game2048_move_conserves_tile_sum.
(* row level, every row length *)
Theorem C07_Game2048_row_tile_sum r : Forall (fun e => 0 <= e) r -> tile_sum (slide r) = tile_sum r.
Proof. exact (slide_tile_sum r). Qed.
Print Assumptions C07_Game2048_row_tile_sum.
(* the hypothesis on the draw is always satisfiable: a legal move leaves an empty cell, so _add_random_cell is never asked
   to choose from an all-zero probability vector *)
Theorem C07_Game2048_legal_move_leaves_empty_cell n b a : 0 < n -> wf n b -> nonneg b -> legal_b n b a = true ->
  exists idx, valid_draw n (spec_move n b a) idx 1 = true.
Proof. exact (legal_move_leaves_empty_cell n b a). Qed.
Print Assumptions C07_Game2048_legal_move_leaves_empty_cell.
(* the boolean transition checker evaluated on implementation transitions means what it says *)
Theorem C07_Game2048_checker n b a b' : trans_ok_b n b a b' = true ->
  if legal_b n b a
  then wf n b' /\ exists i y, diffs 0 (concat (spec_move n b a)) (concat b') = [(i, 0, y)]
                              /\ (y = 1 \/ y = 2) /\ total b' = total b + 2 ^ y
  else b' = b.
Proof. exact (trans_ok_b_sound n b a b'). Qed.
Print Assumptions C07_Game2048_checker.
Theorem C07_Game2048_inv_reset n idx v s t : 0 <= v -> init n idx v = Some (s, t) -> Inv n s.
Proof. exact (init_Inv n idx v s t). Qed.
Example C07_Game2048_nonvacuous :
  Inv 4 ex_state /\ valid_draw 4 (spec_move 4 ex_board 3) 15 2 = true
  /\ total ex_board = 24 /\ total (spec_move 4 ex_board 3) = 24
  /\ total [[2;3;0;0];[2;0;0;0];[3;0;0;0];[0;0;0;2]] = 24 + 2 ^ 2.
Proof. split; [exact ex_Inv|]. vm_compute. repeat split; reflexivity. Qed.
