(* C07 Game2048 over the SOURCE-TRANSLATED step (Gen/Game2048Src.v; see C09_Game2048_Source.v): the new tile is added exactly when the STORED mask
   allows the action -- then the tile sum grows by 2^v and the tile count of the moved board by one; otherwise the board is untouched -- and
   the invariant (well-formed non-negative board, mask = legal moves) is preserved. *)
Require Import JV.Base.Prelude JV.Base.JaxIndex JV.Base.Codec JV.Base.TimeStep JV.Gen.TimeStepSrc JV.Gen.Game2048Src JV.Proofs.Game2048_Row JV.Proofs.Game2048_Board JV.Proofs.Game2048 JV.Proofs.Game2048_Src.
Require JV.Model.Game2048.
Theorem C07_Game2048_Source_step_physical n di dv s a : 0 < n -> Inv n (conv s) -> 0 <= a < 4 ->
  (jget false (s_action_mask s) a = true -> JV.Model.Game2048.valid_draw n (JV.Model.Game2048.spec_move n (s_board s) a) (idx_of n di s a) dv = true) ->
  let s' := conv (fst (step n (mv_model n) (cm_model n) di dv s a)) in
  let lg := jget false (s_action_mask s) a in
  Inv n s'
  /\ JV.Model.Game2048.total (JV.Model.Game2048.board s') = JV.Model.Game2048.total (s_board s) + (if lg then 2 ^ dv else 0)
  /\ JV.Model.Game2048.count_tiles (JV.Model.Game2048.board s')
     = JV.Model.Game2048.count_tiles (JV.Model.Game2048.spec_move n (s_board s) a) + (if lg then 1 else 0)
  /\ (lg = false -> JV.Model.Game2048.board s' = s_board s).
Proof. exact (src_step_physical n di dv s a). Qed.
Print Assumptions C07_Game2048_Source_step_physical.
