(* C07 LevelBasedForaging: Inv (num_agents agents with ids 0..n-1 on pairwise distinct cells inside the grid, never on an
   uneaten food; num_food foods on pairwise distinct cells inside the grid; levels in range) is preserved by EVERY joint
   action vector of the right length (any integers, legal or not, colliding or not), hence holds in every state reachable
   from a generated one (C10_Lbf: generated states satisfy Inv).  Food never moves or changes level and eaten food
   stays eaten; agents keep id and level. *)
From Coq Require Import QArith.
Require Import JV.Base.Prelude JV.Base.JaxIndex JV.Base.Codec JV.Base.TimeStep JV.Model.Lbf JV.Proofs.Lbf.
Open Scope Z_scope.
Theorem C07_Lbf_step_preserves_Inv c s acts : Inv c s -> zlen acts = nag c -> Inv c (fst (step c s acts)).
Proof. exact (step_preserves_Inv c s acts). Qed.
Theorem C07_Lbf_reachable_Inv c s0 s : Inv c s0 -> reachable c s0 s -> Inv c s.
Proof. exact (reachable_Inv c s0 s). Qed.
Theorem C07_Lbf_food_monotone c s acts f :
  In f (foods s) -> let f' := eat (step_agents c s acts) f in
  In f' (foods (fst (step c s acts))) /\ fid f' = fid f /\ fpos f' = fpos f /\ flvl f' = flvl f /\ (featen f = true -> featen f' = true).
Proof. exact (food_monotone c s acts f). Qed.
(* the boolean twin run on implementation states decides Inv *)
Theorem C07_Lbf_checker c s : Inv_b c s = true <-> Inv c s.
Proof. exact (Inv_b_spec c s). Qed.
Print Assumptions C07_Lbf_step_preserves_Inv.
Print Assumptions C07_Lbf_reachable_Inv.
Example C07_Lbf_nonvacuous :
  Inv_b ex_cfg ex_s0 = true
  (* both agents try to enter (1,2)... agent 0 is blocked by food, so here: agents 0 and 1 both head for (2,0)/(2,1): a real collision *)
  /\ (let s := mkS [mkA 0 1 2 1 false; mkA 1 3 2 2 false] (foods ex_s0) 0 in
      Inv_b ex_cfg s = true /\ map apos (agents (fst (step ex_cfg s [2; 1]))) = [(1, 2); (3, 2)]
      /\ Inv_b ex_cfg (fst (step ex_cfg s [2; 1])) = true)
  /\ Inv_b ex_cfg (mkS [mkA 0 1 1 1 false; mkA 1 2 2 2 false] (foods ex_s0) 0) = false.
Proof. vm_compute. repeat split; reflexivity. Qed.
