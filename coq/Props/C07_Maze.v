(* C07 Maze: [Physical] (walls is a rows x cols array, agent and target inside the grid and not on a wall, the stored
   mask agrees with position + walls, counter >= 0) holds at reset and is preserved by EVERY in-spec action, legal or
   not, terminal or not; hence along every run. *)
Require Import JV.Base.Prelude JV.Base.JaxIndex JV.Base.Codec JV.Base.TimeStep JV.Model.MazeGen JV.Model.Maze JV.Proofs.MazeGen JV.Proofs.Maze.
Theorem C07_Maze_init rows cols w r c r2 c2 :
  wf_walls rows cols w -> free rows cols w r c -> free rows cols w r2 c2 ->
  Physical rows cols (fst (init rows cols w r c r2 c2)).
Proof. exact (init_Physical rows cols w r c r2 c2). Qed.
Theorem C07_Maze_step rows cols T s a :
  Physical rows cols s -> 0 <= a < 4 -> Physical rows cols (fst (step rows cols T s a)).
Proof. exact (step_Physical rows cols T s a). Qed.
Print Assumptions C07_Maze_step.
Theorem C07_Maze_run rows cols T acts s :
  Physical rows cols s -> Forall (fun a => 0 <= a < 4) acts -> Physical rows cols (run rows cols T s acts).
Proof. exact (run_Physical rows cols T acts s). Qed.
Print Assumptions C07_Maze_run.
(* the boolean checker evaluated on implementation states decides Physical *)
Theorem C07_Maze_checker rows cols s : Physical_b rows cols s = true <-> Physical rows cols s.
Proof. exact (Physical_b_spec rows cols s). Qed.
Example C07_Maze_nonvacuous :
  Physical_b 5 5 (fst toy_init) = true /\
  Physical_b 5 5 (run 5 5 25 (fst toy_init) [1;3;0;2;2;1;1;1;0;3;3]) = true /\
  Physical_b 5 5 (mkS 0 1 0 4 toy_walls [false;false;false;false] 0) = false.
Proof. vm_compute. repeat split; reflexivity. Qed.
