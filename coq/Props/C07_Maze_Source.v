(* C07 Maze over the SOURCE-TRANSLATED step (Gen/MazeSrc.v; see C09_Maze_Source.v): physical consistency (agent and target on free cells
   inside the grid, walls of the declared shape, stored mask = legal moves) holds along ANY in-spec action sequence played through the
   translated step, legal or not, also past LAST. *)
Require Import JV.Base.Prelude JV.Base.JaxIndex JV.Base.Codec JV.Base.TimeStep JV.Gen.TimeStepSrc JV.Gen.MazeSrc JV.Proofs.Maze_Src.
Require JV.Model.Maze.
Theorem C07_Maze_Source_run rows cols T acts s :
  JV.Model.Maze.Physical rows cols (conv s) -> Forall (fun a => 0 <= a < 4) acts -> JV.Model.Maze.Physical rows cols (conv (run_src rows cols T s acts)).
Proof. exact (src_run_Physical rows cols T acts s). Qed.
Print Assumptions C07_Maze_Source_run.
