(* C07 Minesweeper: physical consistency (Phys: board shape, the mine list is num_mines DISTINCT locations inside the
   board, every revealed square shows the true number of mined neighbours) holds at reset and is preserved by EVERY in-spec
   action, legal or not, terminal or not; the mine list never changes (conservation) and mines exactly num_mines squares;
   while the episode continues no mine is shown, step_count counts the revealed squares and the board is not solved (Live). *)
Require Import JV.Base.Prelude JV.Base.JaxIndex JV.Base.Codec JV.Base.TimeStep JV.Model.Minesweeper.
Require Import JV.Proofs.Minesweeper_lists JV.Proofs.Minesweeper_count JV.Proofs.Minesweeper.
Theorem C07_Minesweeper_reset_consistent rows cols nm locs :
  0 <= rows -> 0 <= cols -> valid_draw rows cols nm locs = true -> Phys rows cols nm (fst (init rows cols locs)).
Proof. exact (init_Phys rows cols nm locs). Qed.
Theorem C07_Minesweeper_step_consistent rc rows cols nm s r c :
  Phys rows cols nm s -> 0 <= r < rows -> 0 <= c < cols -> Phys rows cols nm (fst (step rc rows cols s r c)).
Proof. exact (step_Phys rc rows cols nm s r c). Qed.
Print Assumptions C07_Minesweeper_step_consistent.
Theorem C07_Minesweeper_any_actions rc rows cols nm acts s :
  Phys rows cols nm s -> Forall (in_spec_p rows cols) acts -> Phys rows cols nm (play rc rows cols s acts).
Proof. exact (play_Phys rc rows cols nm acts s). Qed.
Print Assumptions C07_Minesweeper_any_actions.
Theorem C07_Minesweeper_mines_conserved rc rows cols s r c : mines (fst (step rc rows cols s r c)) = mines s.
Proof. exact (step_mines rc rows cols s r c). Qed.
Theorem C07_Minesweeper_mine_count rows cols nm s : 0 < cols -> Phys rows cols nm s -> mined_squares rows cols (mines s) = nm.
Proof. exact (Phys_mined_squares rows cols nm s). Qed.
Print Assumptions C07_Minesweeper_mine_count.
Theorem C07_Minesweeper_reset_live rows cols nm locs :
  valid_draw rows cols nm locs = true -> nm < rows * cols -> Live rows cols (fst (init rows cols locs)).
Proof. exact (init_Live rows cols nm locs). Qed.
Theorem C07_Minesweeper_nonterminal_live rc rows cols nm s r c :
  Phys rows cols nm s -> Live rows cols s -> 0 <= r < rows -> 0 <= c < cols ->
  st (snd (step rc rows cols s r c)) = MID ->
  Live rows cols (fst (step rc rows cols s r c)) /\ legal_b (board s) r c = true /\ is_mine rows cols (mines s) r c = false
  /\ revealed rows cols (board (fst (step rc rows cols s r c))) = revealed rows cols (board s) + 1.
Proof. exact (step_Live rc rows cols nm s r c). Qed.
Print Assumptions C07_Minesweeper_nonterminal_live.
(* whole episodes: every state is physically consistent; every state from which the episode continues is Live *)
Theorem C07_Minesweeper_episode_states rc rows cols nm acts s :
  Phys rows cols nm s -> Live rows cols s -> Forall (in_spec_p rows cols) acts ->
  Forall (fun p => Phys rows cols nm (fst p) /\ (st (snd p) = MID -> Live rows cols (fst p))) (run rc rows cols s acts).
Proof. exact (run_states rc rows cols nm acts s). Qed.
Print Assumptions C07_Minesweeper_episode_states.
(* the boolean checkers evaluated on implementation states decide the same predicates *)
Theorem C07_Minesweeper_checker_Phys rows cols nm s : Phys_b rows cols nm s = true <-> Phys rows cols nm s.
Proof. exact (Phys_b_spec rows cols nm s). Qed.
Theorem C07_Minesweeper_checker_Live rows cols s : Safe_b rows cols s = true <-> Live rows cols s.
Proof. exact (Safe_b_spec rows cols s). Qed.
Example C07_Minesweeper_nonvacuous :
  let s2 := final ex_s0 (run default_rcfg 2 3 ex_s0 [(0, 0); (1, 1)]) in
  Phys_b 2 3 2 s2 = true /\ Safe_b 2 3 s2 = true /\ board s2 = [[1; -1; -1]; [-1; 2; -1]] /\ mines s2 = [1; 5]
  /\ Phys_b 2 3 2 (mkS [[1; -1; -1]; [-1; 1; -1]] 2 [1; 5]) = false /\ Phys_b 2 3 2 (mkS (board s2) 2 [1; 1]) = false.
Proof. vm_compute. repeat split; reflexivity. Qed.
