(* C07 Minesweeper over the SOURCE-TRANSLATED step (Gen/MinesweeperSrc.v; see C09_Minesweeper_Source.v): physical consistency (shape, the
   mine list a valid draw, every revealed square showing the true neighbour count) is preserved by every in-spec action. *)
Require Import JV.Base.Prelude JV.Base.JaxIndex JV.Base.Codec JV.Base.TimeStep JV.Gen.TimeStepSrc JV.Gen.MinesweeperSrc JV.Proofs.Minesweeper_lists JV.Proofs.Minesweeper_count JV.Proofs.Minesweeper JV.Proofs.Minesweeper_Src.
Require JV.Model.Minesweeper.
Theorem C07_Minesweeper_Source_step_consistent rows cols nm re rm ri s a :
  Phys rows cols nm (conv s) -> 0 <= fst a < rows -> 0 <= snd a < cols ->
  Phys rows cols nm (conv (fst (step nm (DefaultRewardFn_call re rm ri) DefaultDoneFn_call s a))).
Proof. exact (src_step_consistent rows cols nm re rm ri s a). Qed.
Print Assumptions C07_Minesweeper_Source_step_consistent.
