(* C07 Minesweeper over the SOURCE-TRANSLATED step (Gen/MinesweeperSrc.v; see C09_Minesweeper_Source.v): physical consistency (shape, the
   mine list a valid draw, every revealed square showing the true neighbour count) is preserved by every in-spec action. *)
Require Import JV.Base.Prelude JV.Base.JaxIndex JV.Base.Codec JV.Base.TimeStep JV.Gen.TimeStepSrc JV.Gen.MinesweeperSrc JV.Proofs.Minesweeper_lists JV.Proofs.Minesweeper_count JV.Proofs.Minesweeper JV.Proofs.Minesweeper_Src.
Require JV.Model.Minesweeper.
Theorem C07_Minesweeper_Source_step_consistent rows cols nm re rm ri s a :
  Phys rows cols nm (conv s) -> 0 <= fst a < rows -> 0 <= snd a < cols ->
  Phys rows cols nm (conv (fst (step nm (DefaultRewardFn_call re rm ri) DefaultDoneFn_call s a))).
Proof. exact (src_step_consistent rows cols nm re rm ri s a). Qed.
Print Assumptions C07_Minesweeper_Source_step_consistent.
(* every state reached by the translated step under ANY in-spec action sequence (legal or not, also past LAST) is physically consistent *)
Theorem C07_Minesweeper_Source_any_actions rows cols nm re rm ri s acts : 0 < rows ->
  Phys rows cols nm (conv s) -> Forall (in_spec_p rows cols) acts -> Phys rows cols nm (conv (play_src nm re rm ri s acts)).
Proof. exact (fun H => src_any_actions rows cols nm re rm ri H s acts). Qed.
Print Assumptions C07_Minesweeper_Source_any_actions.
