(* C07 PacMan: the physical invariant Inv (maze passes maze_ok_b; the player is inside the grid on a free cell; there
   are 4 ghosts, each inside the grid on a free cell and, when it stands in a straight corridor, about to repeat an
   action that leads to a free cell; the spawn cells are free) holds at reset of the default maze and is preserved by
   EVERY action (any integer, legal or not) and every ghost draw the code permits (valid_draw: waiting ghosts do not
   move, corridor ghosts repeat their action, the others pick a non-backtracking neighbour seen free -- a superset of
   the distance-argmin set jax.random.choice samples from; the harness checks valid_draw on every implementation step).
   The maze-specific obligation "every permitted ghost draw leads to a free cell" is the decidable maze_ok_b, evaluated
   on the constant 31x28 maze by vm_compute (default_maze_ok); the theorems hold for ANY maze passing it.
   Under the EXACT ghost behaviour (Model/PacManGhost.v: exact_draw = the set ghost_move can really return -- waiting: 4,
   corridor: previous action, otherwise the distance-argmin among the non-backtracking free neighbours; checked against
   the implementation in both directions by the harness) the same holds, because the exact set is contained in the
   permitted one: C07_PacMan_exact_draw_is_permitted, C07_PacMan_step_preserves_exact, C07_PacMan_ghosts_on_free_cells
   (every ghost stays inside the grid on a free cell along every run), and the exact set is never empty
   (C07_PacMan_exact_draw_exists: the statement is not vacuous at any state).
   Conserved quantities: the pellet counter always equals the number of pellets left on the map (pellets_ok_b: counter =
   number of live entries, live entries pairwise distinct), and  score + 10 * pellets + 50 * power-ups left + 200 * ghosts
   still edible  is constant along every run -- for EVERY action and EVERY ghost draw (permitted or not):
   C07_PacMan_counters_preserved / C07_PacMan_counters_run (invariant Book; proofs in Proofs/PacMan_Book.v). *)
Require Import JV.Base.Prelude JV.Base.JaxIndex JV.Base.Codec JV.Base.TimeStep JV.Gen.PacManConsts JV.Model.PacMan JV.Proofs.PacMan JV.Model.PacManGhost JV.Proofs.PacMan_Inv JV.Proofs.PacMan_Rules JV.Proofs.PacMan_Book JV.Proofs.PacMan_Ghost.
Theorem C07_PacMan_step_preserves xs ys T s a d :
  Inv xs ys s -> valid_draw s d = true -> Inv xs ys (fst (step xs ys T s a d)).
Proof. exact (step_Inv xs ys T s a d). Qed.
Print Assumptions C07_PacMan_step_preserves.
Theorem C07_PacMan_reset : Inv X_SIZE Y_SIZE (gen_state DEFAULT_MAZE_ASCII).
Proof. exact default_reset_Inv. Qed.
Theorem C07_PacMan_run xs ys T acts s :
  Inv xs ys s -> draws_valid xs ys T s acts -> Inv xs ys (run xs ys T s acts).
Proof. exact (run_Inv xs ys T acts s). Qed.
Print Assumptions C07_PacMan_run.
Theorem C07_PacMan_physical xs ys s :
  Inv xs ys s ->
  free xs ys (grid s) (px s) (py s)
  /\ (forall i, 0 <= i < 4 -> free xs ys (grid s) (snd (gpos (ghosts s) i)) (fst (gpos (ghosts s) i)))
  /\ length (ghosts s) = 4%nat.
Proof. exact (Inv_physical xs ys s). Qed.
Theorem C07_PacMan_default_maze_ok : maze_ok_b X_SIZE Y_SIZE MAZE = true.
Proof. exact default_maze_ok. Qed.
Theorem C07_PacMan_counters_preserved xs ys T s a d :
  Book xs ys s ->
  let s' := fst (step xs ys T s a d) in
  Book xs ys s' /\ pellets_ok_b s' = true /\ pellets s' = zlen (live (pellet_locs s')) /\ potential s' = potential s.
Proof. exact (step_counters xs ys T s a d). Qed.
Print Assumptions C07_PacMan_counters_preserved.
Theorem C07_PacMan_counters_run xs ys T acts s :
  Book xs ys s -> Book xs ys (run xs ys T s acts) /\ potential (run xs ys T s acts) = potential s.
Proof. exact (run_Book xs ys T acts s). Qed.
Theorem C07_PacMan_counters_at_reset : Book X_SIZE Y_SIZE (gen_state DEFAULT_MAZE_ASCII).
Proof. exact default_reset_Book. Qed.
Theorem C07_PacMan_Inv_gives_Book xs ys s :
  Inv xs ys s -> pellets_ok_b s = true -> nodup_b (live (pu_locs s)) = true -> Book xs ys s.
Proof. exact (Inv_Book xs ys s). Qed.
Theorem C07_PacMan_exact_draw_is_permitted xs ys s a d : exact_draw xs ys s a d = true -> valid_draw s d = true.
Proof. exact (exact_draw_valid xs ys s a d). Qed.
Print Assumptions C07_PacMan_exact_draw_is_permitted.
Theorem C07_PacMan_step_preserves_exact xs ys T s a d :
  Inv xs ys s -> exact_draw xs ys s a d = true -> Inv xs ys (fst (step xs ys T s a d)).
Proof. exact (step_Inv_exact xs ys T s a d). Qed.
Theorem C07_PacMan_ghosts_on_free_cells xs ys T acts s :
  Inv xs ys s -> draws_exact_run xs ys T s acts ->
  let f := run xs ys T s acts in
  Inv xs ys f /\
  forall i, 0 <= i < 4 ->
    0 <= snd (gpos (ghosts f) i) < xs /\ 0 <= fst (gpos (ghosts f) i) < ys
    /\ gat 0 (grid f) (snd (gpos (ghosts f) i)) (fst (gpos (ghosts f) i)) = 1.
Proof. exact (ghosts_on_free_cells xs ys T acts s). Qed.
Print Assumptions C07_PacMan_ghosts_on_free_cells.
Theorem C07_PacMan_exact_draw_exists xs ys s a : exists d, exact_draw xs ys s a d = true.
Proof. exact (exact_draw_exists xs ys s a). Qed.
Print Assumptions C07_PacMan_exact_draw_exists.
(* non-vacuity: a reachable state with moving ghosts (three steps, ghost 0 released and walking) satisfies Inv and the draws were permitted *)
Example C07_PacMan_nonvacuous :
  let s0 := gen_state DEFAULT_MAZE_ASCII in
  let s1 := fst (step 31 28 9 s0 1 [4; 4; 4; 4]) in
  let s2 := fst (step 31 28 9 s1 1 [4; 4; 4; 4]) in
  valid_draw s0 [4; 4; 4; 4] = true /\ valid_draw s1 [4; 4; 4; 4] = true /\ valid_draw s2 [0; 4; 4; 4] = true
  /\ exact_draw 31 28 s2 1 [0; 4; 4; 4] = true /\ exact_draw 31 28 s2 1 [2; 4; 4; 4] = false /\ valid_draw s2 [2; 4; 4; 4] = true
  /\ Inv_b 31 28 (fst (step 31 28 9 s2 1 [0; 4; 4; 4])) = true
  /\ gpos (ghosts (fst (step 31 28 9 s2 1 [0; 4; 4; 4]))) 0 = (12, 13).
Proof. vm_compute. repeat split; reflexivity. Qed.
