(* C07 PacMan: the physical invariant Inv (maze passes maze_ok_b; the player is inside the grid on a free cell; there
   are 4 ghosts, each inside the grid on a free cell and, when it stands in a straight corridor, about to repeat an
   action that leads to a free cell; the spawn cells are free) holds at reset of the default maze and is preserved by
   EVERY action (any integer, legal or not) and every ghost draw the code permits (valid_draw: waiting ghosts do not
   move, corridor ghosts repeat their action, the others pick a non-backtracking neighbour seen free -- a superset of
   the distance-argmin set jax.random.choice samples from; the harness checks valid_draw on every implementation step).
   The maze-specific obligation "every permitted ghost draw leads to a free cell" is the decidable maze_ok_b, evaluated
   on the constant 31x28 maze by vm_compute (default_maze_ok); the theorems hold for ANY maze passing it. *)
Require Import JV.Base.Prelude JV.Base.JaxIndex JV.Base.Codec JV.Base.TimeStep JV.Gen.PacManConsts JV.Model.PacMan JV.Proofs.PacMan JV.Proofs.PacMan_Inv JV.Proofs.PacMan_Rules.
Theorem C07_PacMan_step_preserves xs ys T s a d :
  Inv xs ys s -> valid_draw s d = true -> Inv xs ys (fst (step xs ys T s a d)).
Proof. exact (step_Inv xs ys T s a d). Qed.
Print Assumptions C07_PacMan_step_preserves.
Theorem C07_PacMan_reset : Inv X_SIZE Y_SIZE (gen_state DEFAULT_MAZE_ASCII).
Proof. exact default_reset_Inv. Qed.
Theorem C07_PacMan_run xs ys T acts s :
  Inv xs ys s -> draws_valid xs ys T s acts -> Inv xs ys (run xs ys T s acts).
Proof. exact (run_Inv xs ys T acts s). Qed.
Print Assumptions C07_PacMan_run.
Theorem C07_PacMan_physical xs ys s :
  Inv xs ys s ->
  free xs ys (grid s) (px s) (py s)
  /\ (forall i, 0 <= i < 4 -> free xs ys (grid s) (snd (gpos (ghosts s) i)) (fst (gpos (ghosts s) i)))
  /\ length (ghosts s) = 4%nat.
Proof. exact (Inv_physical xs ys s). Qed.
Theorem C07_PacMan_default_maze_ok : maze_ok_b X_SIZE Y_SIZE MAZE = true.
Proof. exact default_maze_ok. Qed.
(* non-vacuity: a reachable state with moving ghosts (three steps, ghost 0 released and walking) satisfies Inv and the draws were permitted *)
Example C07_PacMan_nonvacuous :
  let s0 := gen_state DEFAULT_MAZE_ASCII in
  let s1 := fst (step 31 28 9 s0 1 [4; 4; 4; 4]) in
  let s2 := fst (step 31 28 9 s1 1 [4; 4; 4; 4]) in
  valid_draw s0 [4; 4; 4; 4] = true /\ valid_draw s1 [4; 4; 4; 4] = true /\ valid_draw s2 [0; 4; 4; 4] = true
  /\ Inv_b 31 28 (fst (step 31 28 9 s2 1 [0; 4; 4; 4])) = true
  /\ gpos (ghosts (fst (step 31 28 9 s2 1 [0; 4; 4; 4]))) 0 = (12, 13).
Proof. vm_compute. repeat split; reflexivity. Qed.
