(* C07 RobotWarehouse: for EVERY joint action (any integers, masked or not), if the step does not end in an agent collision
   (the only way a non-terminal successor arises, besides which the time limit may end the episode) the successor state is
   physically consistent (WInv): both layers have the grid's dimensions; grid[_AGENTS] and grid[_SHELVES] agree with the
   agent and shelf tables as bijections (cell of row i holds i+1; every non-zero cell is the cell of the row it names), hence
   one agent per cell and one shelf per cell; every agent and shelf is inside the grid; a carried shelf is under its agent;
   the number of shelves is conserved; the stored mask is the mask of the successor.  The proof follows the sequential scan
   with the alternative "consistent so far" / "doomed" and shows a doomed final world is exactly what is_collision detects.
   The request-queue part of Inv (queue of distinct valid shelf ids of the configured length, requested flags = queue
   membership) is preserved too: the agents' scan never touches a request flag, and the goal scan replaces a delivered id by
   the re-request draw and flips exactly the two flags, for every draw that is valid (draws_ok: a shelf id not currently in
   the queue, as jax.random.choice over setdiff1d(shelf_ids, request_queue) returns).  Hence the FULL invariant Inv is
   preserved by every collision-free step, and along every run of such steps. *)
Require Import JV.Base.Prelude JV.Base.JaxIndex JV.Base.Codec JV.Base.TimeStep JV.Model.RobotWarehouse JV.Proofs.RobotWarehouse_lib JV.Proofs.RobotWarehouse JV.Proofs.RobotWarehouse_Step JV.Proofs.RobotWarehouse_Check JV.Proofs.RobotWarehouse_Queue.
Theorem C07_RobotWarehouse_step_consistent c s acts draws :
  Inv c s -> zlen acts = nag c -> collided c s acts = false ->
  let s' := fst (step c s acts draws) in
  WInv c (nag c) (zlen (shelves s)) (world_of s') /\ zlen (shelves s') = zlen (shelves s)
  /\ amask s' = compute_mask (gh c) (gw c) (gsh s') (agents s').
Proof. exact (step_consistent c s acts draws). Qed.
Theorem C07_RobotWarehouse_one_agent_per_cell c n m w i j :
  WInv c n m w -> 0 <= i < n -> 0 <= j < n -> apos (w_ag w) i = apos (w_ag w) j -> i = j.
Proof. exact (WInv_agents_distinct c n m w i j). Qed.
Theorem C07_RobotWarehouse_one_shelf_per_cell c n m w i j :
  WInv c n m w -> 0 <= i < m -> 0 <= j < m -> spos (w_sh w) i = spos (w_sh w) j -> i = j.
Proof. exact (WInv_shelves_distinct c n m w i j). Qed.
(* the request queue through the goal scan alone *)
Theorem C07_RobotWarehouse_goal_scan_queue m gs gl st draws :
  zlen (snd (fst st)) = m -> queue_ok m (snd (fst st)) (fst (fst st)) ->
  draws_ok m gs st gl draws = true ->
  let st' := goals_scan gs st gl draws in
  queue_ok m (snd (fst st')) (fst (fst st')) /\ zlen (fst (fst st')) = zlen (fst (fst st)) /\ zlen (snd (fst st')) = m.
Proof. exact (goals_scan_queue_ok m gs gl st draws). Qed.
(* the agents' scan never changes a request flag (any actions, collision or not) *)
Theorem C07_RobotWarehouse_moves_keep_requests c s acts : map sreq (w_sh (moved c s acts)) = map sreq (shelves s).
Proof. exact (moved_sreq c s acts). Qed.
(* the full invariant, one step and along runs *)
Theorem C07_RobotWarehouse_step_preserves_Inv c s acts draws :
  Inv c s -> zlen acts = nag c -> collided c s acts = false ->
  draws_ok (zlen (shelves s)) (w_gs (moved c s acts)) (queue s, w_sh (moved c s acts), 0) (goals c) draws = true ->
  Inv c (fst (step c s acts draws)).
Proof. exact (step_preserves_Inv c s acts draws). Qed.
Theorem C07_RobotWarehouse_run_preserves_Inv c tr s : Inv c s -> run_ok c s tr -> Inv c (run c s tr).
Proof. exact (run_preserves_Inv c tr s). Qed.
(* the boolean twin run on implementation states is sound *)
Theorem C07_RobotWarehouse_checker_sound c s : Inv_b c s = true -> Inv c s.
Proof. exact (Inv_b_sound c s). Qed.
Print Assumptions C07_RobotWarehouse_step_consistent.
Print Assumptions C07_RobotWarehouse_checker_sound.
Print Assumptions C07_RobotWarehouse_goal_scan_queue.
Print Assumptions C07_RobotWarehouse_step_preserves_Inv.
Print Assumptions C07_RobotWarehouse_run_preserves_Inv.
Example C07_RobotWarehouse_nonvacuous :
  Inv_b ex_c ex_s0 = true /\ Inv_b ex_c ex_s1 = true
  (* agent 0 turns, agent 1 turns away and walks: consistent; carrier moves its shelf along the aisle-free row: consistent *)
  /\ Inv_b ex_c (fst (step ex_c ex_s1 [LEFT; RIGHT] [0; 0])) = true
  /\ collided ex_c ex_s1 [LEFT; RIGHT] = false
  /\ count_cells (gsh (fst (step ex_c ex_s1 [LEFT; RIGHT] [0; 0]))) = 2
  (* agent 1 walks into agent 0: the collision test fires, and the agents layer of that (terminal) state has lost agent 0's mark *)
  /\ collided ex_c ex_s1 [NOOP; FORWARD] = true
  /\ Inv_b ex_c (fst (step ex_c ex_s1 [NOOP; FORWARD] [0; 0])) = false
  (* a delivery: agent 0 carries the requested shelf (id 0) onto the goal (5,1); re-request draw 1 is valid, draw 0 (still in the
     queue) is not; the queue becomes [1], the flags flip, reward 1, and the successor satisfies the full invariant *)
  /\ Inv_b ex_c ex_sd = true /\ collided ex_c ex_sd [FORWARD; NOOP] = false
  /\ draws_ok 2 (w_gs (moved ex_c ex_sd [FORWARD; NOOP])) (queue ex_sd, w_sh (moved ex_c ex_sd [FORWARD; NOOP]), 0) (goals ex_c) [1; 0] = true
  /\ draws_ok 2 (w_gs (moved ex_c ex_sd [FORWARD; NOOP])) (queue ex_sd, w_sh (moved ex_c ex_sd [FORWARD; NOOP]), 0) (goals ex_c) [0; 0] = false
  /\ queue (fst (step ex_c ex_sd [FORWARD; NOOP] [1; 0])) = [1]
  /\ shelves (fst (step ex_c ex_sd [FORWARD; NOOP] [1; 0])) = [mkSh 5 1 false; mkSh 1 2 true]
  /\ reward (snd (step ex_c ex_sd [FORWARD; NOOP] [1; 0])) = [1]
  /\ Inv_b ex_c (fst (step ex_c ex_sd [FORWARD; NOOP] [1; 0])) = true.
Proof. vm_compute. repeat split; reflexivity. Qed.
