(* C07 RobotWarehouse: for EVERY joint action (any integers, masked or not), if the step does not end in an agent collision
   (the only way a non-terminal successor arises, besides which the time limit may end the episode) the successor state is
   physically consistent (WInv): both layers have the grid's dimensions; grid[_AGENTS] and grid[_SHELVES] agree with the
   agent and shelf tables as bijections (cell of row i holds i+1; every non-zero cell is the cell of the row it names), hence
   one agent per cell and one shelf per cell; every agent and shelf is inside the grid; a carried shelf is under its agent;
   the number of shelves is conserved; the stored mask is the mask of the successor.  The proof follows the sequential scan
   with the alternative "consistent so far" / "doomed" and shows a doomed final world is exactly what is_collision detects.
   NOT proved here (checked by the verified checker Inv_b on every visited non-terminal state): the request-queue part of Inv
   (distinct ids, requested flags = queue membership) is preserved by the goal scan under valid draws. *)
Require Import JV.Base.Prelude JV.Base.JaxIndex JV.Base.Codec JV.Base.TimeStep JV.Model.RobotWarehouse JV.Proofs.RobotWarehouse_lib JV.Proofs.RobotWarehouse JV.Proofs.RobotWarehouse_Step JV.Proofs.RobotWarehouse_Check.
Theorem C07_RobotWarehouse_step_consistent c s acts draws :
  Inv c s -> zlen acts = nag c -> collided c s acts = false ->
  let s' := fst (step c s acts draws) in
  WInv c (nag c) (zlen (shelves s)) (world_of s') /\ zlen (shelves s') = zlen (shelves s)
  /\ amask s' = compute_mask (gh c) (gw c) (gsh s') (agents s').
Proof. exact (step_consistent c s acts draws). Qed.
Theorem C07_RobotWarehouse_one_agent_per_cell c n m w i j :
  WInv c n m w -> 0 <= i < n -> 0 <= j < n -> apos (w_ag w) i = apos (w_ag w) j -> i = j.
Proof. exact (WInv_agents_distinct c n m w i j). Qed.
Theorem C07_RobotWarehouse_one_shelf_per_cell c n m w i j :
  WInv c n m w -> 0 <= i < m -> 0 <= j < m -> spos (w_sh w) i = spos (w_sh w) j -> i = j.
Proof. exact (WInv_shelves_distinct c n m w i j). Qed.
(* the boolean twin run on implementation states is sound *)
Theorem C07_RobotWarehouse_checker_sound c s : Inv_b c s = true -> Inv c s.
Proof. exact (Inv_b_sound c s). Qed.
Print Assumptions C07_RobotWarehouse_step_consistent.
Print Assumptions C07_RobotWarehouse_checker_sound.
Example C07_RobotWarehouse_nonvacuous :
  Inv_b ex_c ex_s0 = true /\ Inv_b ex_c ex_s1 = true
  (* agent 0 turns, agent 1 turns away and walks: consistent; carrier moves its shelf along the aisle-free row: consistent *)
  /\ Inv_b ex_c (fst (step ex_c ex_s1 [LEFT; RIGHT] [0; 0])) = true
  /\ collided ex_c ex_s1 [LEFT; RIGHT] = false
  /\ count_cells (gsh (fst (step ex_c ex_s1 [LEFT; RIGHT] [0; 0]))) = 2
  (* agent 1 walks into agent 0: the collision test fires, and the agents layer of that (terminal) state has lost agent 0's mark *)
  /\ collided ex_c ex_s1 [NOOP; FORWARD] = true
  /\ Inv_b ex_c (fst (step ex_c ex_s1 [NOOP; FORWARD] [0; 0])) = false.
Proof. vm_compute. repeat split; reflexivity. Qed.
