(* C07 Snake: every non-terminal state is a physically possible snake, whatever in-spec actions are played:
   Phys = body_state is an R x C grid with values in 0..length, every value 1..length occurs in exactly one cell,
   cells carrying consecutive values are 4-adjacent, the head cell carries the value length, the fruit is on an
   in-grid cell off the body, and the body / tail arrays agree with body_state.  The re-drawn fruit is an oracle
   constrained by valid_draw (draw_ok).  Phys is equivalently: the body is a chain listed by IsChain (C09 file). *)
Require Import JV.Base.Prelude JV.Base.JaxIndex JV.Base.Codec JV.Base.TimeStep JV.Model.Snake JV.Proofs.Snake JV.Proofs.Snake_rules JV.Proofs.Snake_examples.
Theorem C07_Snake_reset R C hd fr :
  in_grid R C hd -> valid_draw R C (body (fst (init R C hd fr))) fr = true -> Phys R C (fst (init R C hd fr)).
Proof. exact (init_Phys R C hd fr). Qed.
Theorem C07_Snake_legal_step R C T s a d :
  Phys R C s -> legal R C s a -> draw_ok R C T s a d -> Phys R C (fst (step R C T s a d)).
Proof. exact (step_preserves_Phys R C T s a d). Qed.
Print Assumptions C07_Snake_legal_step.
(* ANY action: if the episode continues (MID), the successor is consistent *)
Theorem C07_Snake_any_action R C T s a d :
  Inv R C T s -> 0 <= a < 4 -> draw_ok R C T s a d ->
  st (snd (step R C T s a d)) = MID -> Inv R C T (fst (step R C T s a d)).
Proof. exact (step_preserves_Inv R C T s a d). Qed.
Print Assumptions C07_Snake_any_action.
Theorem C07_Snake_chain R C s : Phys R C s -> exists ch, IsChain R C s ch.
Proof. exact (chain_exists R C s). Qed.
Theorem C07_Snake_chain_adjacent R C s ch i :
  Phys R C s -> IsChain R C s ch -> (S i < length ch)%nat -> adjacent (nth i ch (0, 0)) (nth (S i) ch (0, 0)).
Proof. exact (chain_consecutive_adjacent R C s ch i). Qed.
Theorem C07_Snake_chain_covers R C s ch p :
  Phys R C s -> IsChain R C s ch -> in_grid R C p -> (0 < bs_at s p <-> In p ch).
Proof. exact (chain_covers R C s ch p). Qed.
(* the checker run on implementation states decides Phys *)
Theorem C07_Snake_checker_sound R C s : Phys_b R C s = true -> Phys R C s.
Proof. exact (Phys_b_sound R C s). Qed.
Theorem C07_Snake_checker_complete R C s : Phys R C s -> Phys_b R C s = true.
Proof. exact (Phys_b_complete R C s). Qed.
Print Assumptions C07_Snake_checker_sound.
Example C07_Snake_nonvacuous :
  Inv 3 3 9 e0 /\ Inv 3 3 9 e1 /\ Inv 3 3 9 e2 /\ Inv 3 3 9 e3 /\ Inv 3 3 3 e2.
Proof. exact ex_inv. Qed.
