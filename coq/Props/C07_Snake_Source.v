(* C07 Snake over the SOURCE-TRANSLATED step (Gen/SnakeSrc.v; see C09_Snake_Source.v): under ANY in-spec action, if the episode
   continues the successor is a physically consistent snake (a chain numbered tail..head, fruit off the body, planes agree). *)
Require Import JV.Base.Prelude JV.Base.JaxIndex JV.Base.Codec JV.Base.TimeStep JV.Gen.TimeStepSrc JV.Gen.SnakeSrc.
Require Import JV.Proofs.Snake JV.Proofs.Snake_Src.
Require JV.Model.Snake.
Theorem C07_Snake_Source_any_action R C T s a (draw : list (list bool) -> Z * Z) :
  Inv R C T (conv s) -> 0 <= a < 4 -> draw_ok R C T (conv s) a (draw (new_body R C T s a)) -> st (snd (step R C T draw s a)) = MID ->
  JV.Model.Snake.Phys R C (conv (fst (step R C T draw s a))).
Proof. intros I Ha D Hm. exact (inv_phys R C T _ (src_inv_step R C T s a draw I Ha D Hm)). Qed.
Print Assumptions C07_Snake_Source_any_action.
