(* C07 Sokoban: [Physical] (both grids G x G; fixed cells EMPTY/WALL/TARGET, variable cells EMPTY/AGENT/BOX; the
   AGENT-coded cells are exactly {agent_location}, which lies inside the grid; no agent or box on a wall) is preserved
   by EVERY in-spec action, legal or not, terminal or not, hence along every run; there is exactly one agent; the
   number of boxes is conserved; inside a walled region (every shipped level) agent and boxes never reach the border. *)
Require Import JV.Base.Prelude JV.Base.JaxIndex JV.Base.Codec JV.Base.TimeStep JV.Model.Sokoban JV.Proofs.Sokoban_Grid JV.Proofs.Sokoban JV.Proofs.Sokoban_Levels.
Theorem C07_Sokoban_step G T dense s a : Physical G s -> 0 <= a < 4 -> Physical G (fst (step G T dense s a)).
Proof. exact (step_Physical G T dense s a). Qed.
Print Assumptions C07_Sokoban_step.
Theorem C07_Sokoban_run G T dense acts s :
  Physical G s -> Forall (fun a => 0 <= a < 4) acts -> Physical G (run G T dense s acts).
Proof. exact (run_Physical G T dense acts s). Qed.
Print Assumptions C07_Sokoban_run.
Theorem C07_Sokoban_one_agent G s : Physical G s -> gcount G (var s) AGENT = 1 /\ gat 0 (var s) (ar s) (ac s) = AGENT.
Proof. exact (Physical_one_agent G s). Qed.
Theorem C07_Sokoban_boxes_conserved G T dense s a : Physical G s -> 0 <= a < 4 ->
  gcount G (var (fst (step G T dense s a))) BOX = gcount G (var s) BOX.
Proof. exact (step_boxes G T dense s a). Qed.
Print Assumptions C07_Sokoban_boxes_conserved.
Theorem C07_Sokoban_boxes_conserved_run G T dense acts s :
  Physical G s -> Forall (fun a => 0 <= a < 4) acts -> gcount G (var (run G T dense s acts)) BOX = gcount G (var s) BOX.
Proof. exact (run_boxes G T dense acts s). Qed.
Theorem C07_Sokoban_walls_fixed G T dense s a : fixed (fst (step G T dense s a)) = fixed s.
Proof. exact (step_fixed G T dense s a). Qed.
Theorem C07_Sokoban_enclosed G T dense s a R :
  Physical G s -> 0 <= a < 4 -> Enclosed_b G s R = true -> Enclosed_b G (fst (step G T dense s a)) R = true.
Proof. exact (Enclosed_step G T dense s a R). Qed.
Print Assumptions C07_Sokoban_enclosed.
Theorem C07_Sokoban_agent_off_border G s R : Physical G s -> Enclosed_b G s R = true ->
  0 < ar s < G - 1 /\ 0 < ac s < G - 1.
Proof. exact (Enclosed_agent_interior G s R). Qed.
(* the boolean checker evaluated on implementation states decides Physical *)
Theorem C07_Sokoban_checker G s : Physical_b G s = true <-> Physical G s.
Proof. exact (Physical_b_spec G s). Qed.
Example C07_Sokoban_nonvacuous :
  let s0 := fst (gen_toy 0) in
  Physical_b 10 s0 = true /\ gcount 10 (var s0) BOX = 4
  /\ Physical_b 10 (run 10 120 true s0 [2;2;2;1;2;2;1;1;0;0;0;1;3;3;0]) = true
  /\ Physical_b 10 (mkS (fixed s0) (var s0) 1 3 0) = false        (* stale agent_location *)
  /\ Physical_b 10 (mkS (fixed s0) (gput (var s0) 0 0 BOX) 1 2 0) = false.   (* a box inside a wall *)
Proof. vm_compute. repeat split; reflexivity. Qed.
