(* C07 / C05 Sokoban over the SOURCE-TRANSLATED step (Gen/SokobanSrc.v; see C09_Sokoban_Source.v): under ANY in-spec action the state
   stays physically consistent and the number of boxes is conserved; an illegal move changes nothing but the step counter. *)
Require Import JV.Base.Prelude JV.Base.JaxIndex JV.Base.Codec JV.Base.TimeStep JV.Gen.TimeStepSrc JV.Gen.SokobanSrc.
Require Import JV.Proofs.Sokoban_Grid JV.Proofs.Sokoban JV.Proofs.Sokoban_Src.
Require JV.Model.Sokoban.
Theorem C07_Sokoban_Source_step_physical T dense s a : JV.Model.Sokoban.Physical GRID_SIZE (conv s) -> 0 <= a < 4 ->
  JV.Model.Sokoban.Physical GRID_SIZE (conv (fst (step T (reward_src dense) s a))).
Proof. exact (src_step_physical T dense s a). Qed.
Print Assumptions C07_Sokoban_Source_step_physical.
Theorem C07_Sokoban_Source_boxes_conserved T dense s a : JV.Model.Sokoban.Physical GRID_SIZE (conv s) -> 0 <= a < 4 ->
  JV.Model.Sokoban.gcount GRID_SIZE (s_variable_grid (fst (step T (reward_src dense) s a))) JV.Model.Sokoban.BOX
  = JV.Model.Sokoban.gcount GRID_SIZE (s_variable_grid s) JV.Model.Sokoban.BOX.
Proof. exact (src_boxes_conserved T dense s a). Qed.
Print Assumptions C07_Sokoban_Source_boxes_conserved.
Theorem C05_Sokoban_Source_illegal_ignored T dense s a :
  JV.Model.Sokoban.Physical GRID_SIZE (conv s) -> 0 <= a < 4 -> JV.Model.Sokoban.legal_b GRID_SIZE (conv s) a = false ->
  let s' := fst (step T (reward_src dense) s a) in
  s_fixed_grid s' = s_fixed_grid s /\ s_variable_grid s' = s_variable_grid s /\ s_agent_location s' = s_agent_location s
  /\ s_step_count s' = s_step_count s + 1.
Proof. exact (src_illegal_ignored T dense s a). Qed.
Print Assumptions C05_Sokoban_Source_illegal_ignored.
