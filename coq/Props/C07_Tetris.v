(* C07 Tetris: physical consistency.  Physical := grid (num_rows+3)x(num_cols+3), no negative cell, the padding rows and
   columns empty (no cell outside num_rows x num_cols), no full row left, piece index in range, mask up to date.
   (a) reset is physical with 0 cells; (b) a mask-true in-spec action keeps Physical and
       cells' = cells + 4 - num_cols * (number of cleared lines); (c) ANY in-spec action: the step is LAST or the successor
       is physical; (d) cleared lines: the rows above shift down in order = C09_Tetris_clean_lines. *)
Require Import JV.Base.Prelude JV.Base.JaxIndex JV.Base.Codec JV.Base.TimeStep JV.Gen.TetrisConsts JV.Model.Tetris.
Require Import JV.Proofs.Tetris JV.Proofs.Tetris_place JV.Proofs.Tetris_clear JV.Proofs.Tetris_phys JV.Proofs.Tetris_step.
Theorem C07_Tetris_reset_physical nr nc d :
  4 <= nr -> 4 <= nc -> valid_draw d = true ->
  let '(s0, ts, o) := init nr nc d in
  Physical nr nc s0 /\ cells (grid s0) = 0 /\ ts = restart 1 /\ o = view nr nc s0
  /\ gget false (amask s0) 0 0 = true /\ step_count s0 = 0 /\ score s0 = 0.
Proof. exact (init_physical nr nc d). Qed.
Print Assumptions C07_Tetris_reset_physical.
Theorem C07_Tetris_legal_step_physical nr nc tl s rot x d :
  Physical nr nc s -> 4 <= nr -> 4 <= nc -> 0 <= rot < 4 -> 0 <= x < nc -> valid_draw d = true ->
  gget false (amask s) rot x = true ->
  let s' := fst (fst (step nr nc tl s rot x d)) in
  Physical nr nc s' /\ cells (grid s') = cells (grid s) + 4 - nc * lines nr nc s rot x.
Proof. exact (step_legal_physical nr nc tl s rot x d). Qed.
Print Assumptions C07_Tetris_legal_step_physical.
Theorem C07_Tetris_any_action nr nc tl s rot x d :
  Physical nr nc s -> 4 <= nr -> 4 <= nc -> 0 <= rot < 4 -> 0 <= x < nc -> valid_draw d = true ->
  let '(s', ts, _) := step nr nc tl s rot x d in st ts = LAST \/ Physical nr nc s'.
Proof. exact (step_any_physical nr nc tl s rot x d). Qed.
Print Assumptions C07_Tetris_any_action.
Theorem C07_Tetris_Physical_b_reflects nr nc s : Physical_b nr nc s = true <-> Physical nr nc s.
Proof. exact (Physical_b_spec nr nc s). Qed.
Print Assumptions C07_Tetris_Physical_b_reflects.
(* a line is cleared: 0 + 4 - 4*1 = 0 cells; then a piece lands: 4 cells *)
Example C07_Tetris_nonvacuous :
  Physical_b 4 4 ex_s0 = true /\ gget false (amask ex_s0) 1 0 = true /\ lines 4 4 ex_s0 1 0 = 1 /\ cells (grid ex_s1) = 0
  /\ Physical_b 4 4 ex_s1 = true /\ cells (grid (fst (fst (step 4 4 9 ex_s1 0 0 0)))) = 4.
Proof. vm_compute. repeat split; reflexivity. Qed.
