(* C08 BinPack.  Rewards are numerators over the (constant) container volume.  Dense: every step adds exactly its reward to the
   placed volume, so the return of any in-spec action sequence is (volume placed at the end - volume placed at the start).  Sparse:
   0 on MID steps and the placed volume of the final state on the LAST step.  Both reward functions drive the same states, and on
   a finished episode that started empty both returns equal the placed volume of the final state = utilisation * container volume
   (legal or not: an invalid last action pays 0 dense / the current utilisation sparse).
   Arithmetic: exact integers (the float32 roundings of the code are compared by the harness: bit-exact for dense). *)
Require Import JV.Base.Prelude JV.Base.JaxIndex JV.Base.Codec JV.Base.TimeStep JV.Model.BinPack JV.Proofs.BinPack_lib JV.Proofs.BinPack JV.Proofs.BinPack_obs.
(* a concrete instance: container 4x2x2, two items 2x2x2 and one 3x2x2, buffer of 4 EMSs, 2 observed *)
Definition ex_c := make_container 4 2 2.
Definition ex_items := [mkIt 2 2 2; mkIt 2 2 2; mkIt 3 2 2].
Definition ex_s0 := fst (init 2 ex_c 4 ex_items [true; true; true]).
Definition ex_s1 := fst (step 2 false ex_s0 0 0).
Definition ex_s2 := fst (step 2 false ex_s1 0 1).
Theorem C08_BinPack_dense_return n m obs : obs <= m -> forall acts s,
  shape n m s -> consistent obs s -> Forall (fun a => inspec obs n (fst a) (snd a)) acts ->
  let '(sf, R, _) := episode obs false s acts in R = pvol sf - pvol s.
Proof. exact (dense_return n m obs). Qed.
Theorem C08_BinPack_sparse_return obs acts s :
  let '(sf, R, e) := episode obs true s acts in R = if e then pvol sf else 0.
Proof. exact (sparse_return obs acts s). Qed.
Theorem C08_BinPack_dense_sparse_agree n m obs acts s :
  obs <= m -> shape n m s -> consistent obs s -> Forall (fun a => inspec obs n (fst a) (snd a)) acts -> pvol s = 0 ->
  snd (episode obs false s acts) = true ->
  snd (fst (episode obs true s acts)) = snd (fst (episode obs false s acts)) /\
  snd (fst (episode obs false s acts)) = pvol (fst (fst (episode obs false s acts))).
Proof. exact (dense_sparse_agree n m obs acts s). Qed.
Theorem C08_BinPack_same_states obs acts s :
  fst (fst (episode obs true s acts)) = fst (fst (episode obs false s acts)) /\
  snd (episode obs true s acts) = snd (episode obs false s acts).
Proof. exact (episodes_same_states obs acts s). Qed.
Print Assumptions C08_BinPack_dense_sparse_agree.
Example C08_BinPack_nonvacuous :
  episode 2 false ex_s0 [(0, 0); (0, 1); (0, 2)] = (ex_s2, 16, true) /\ episode 2 true ex_s0 [(0, 0); (0, 1); (0, 2)] = (ex_s2, 16, true)
  /\ pvol ex_s2 = 16 /\ svol ex_c = 16 /\ pvol ex_s0 = 0
  /\ snd (fst (episode 2 false ex_s0 [(0, 2); (0, 2)])) = 12 /\ snd (fst (episode 2 true ex_s0 [(0, 2); (0, 2)])) = 12.
Proof. vm_compute. repeat split; reflexivity. Qed.
