(* C08 CVRP, for an ABSTRACT distance oracle (only d(depot,depot) = 0 is assumed): on every mask-respecting play from a reset
   state that completes the tour, the dense return and the sparse return both equal minus the documented objective: the total
   length of the route driven, depot -> visits -> depot.  The sparse reward is the code's tour_length of the 2n-slot trajectory
   array, which is proved equal to the route length even when the (2n+1)-th visit did not fit the array.  Dense rewards
   telescope along any (also incomplete) mask-respecting play. *)
Require Import JV.Base.Prelude JV.Base.JaxIndex JV.Base.Codec JV.Base.TimeStep JV.Model.CVRP JV.Proofs.CVRP.
Theorem C08_CVRP_returns dist (dist00 : dist 0 0 = 0) n mc pen draw acts :
  1 <= n -> 0 <= mc -> zlen draw = n + 1 ->
  let s0 := fst (init n mc draw) in
  complete_run n mc s0 acts ->
  ret (run dist false mc pen s0 acts) = - route_len dist (rev acts)
  /\ ret (run dist true mc pen s0 acts) = - route_len dist (rev acts)
  /\ ended (run dist false mc pen s0 acts) /\ ended (run dist true mc pen s0 acts).
Proof.
  intros Hn Hmc L s0 CR.
  destruct (C08_complete dist dist00 n mc pen acts s0 [] Hn Hmc (init_Inv n mc draw Hn Hmc L) CR) as (D & S & E1 & E2 & _).
  rewrite app_nil_r in *. cbn [rlen] in D. repeat split; try assumption; lia.
Qed.
Print Assumptions C08_CVRP_returns.
(* the objective read forwards: the legs of  depot :: acts, plus the way back from the last node *)
Theorem C08_CVRP_route_len_forward dist acts :
  route_len dist (rev acts) = path_len dist (0 :: acts) + dist (hd 0 (rev acts)) 0.
Proof. unfold route_len. rewrite (rlen_path dist), rev_involutive. reflexivity. Qed.
Theorem C08_CVRP_dense_telescopes dist (dist00 : dist 0 0 = 0) n mc pen acts s h :
  1 <= n -> 0 <= mc -> Inv n mc s h -> legal_run n mc s acts ->
  ret (run dist false mc pen s acts) = rlen dist h - rlen dist (rev acts ++ h).
Proof. exact (C08_dense_partial dist dist00 n mc pen acts s h). Qed.
Theorem C08_CVRP_tour_length_is_route_length dist (dist00 : dist 0 0 = 0) L h t :
  traj_ok L h t -> tour_length dist t = route_len dist h.
Proof. exact (tour_length_route dist dist00 L h t). Qed.
Print Assumptions C08_CVRP_tour_length_is_route_length.
Example C08_CVRP_nonvacuous :
  let d := fun i j => 10 * Z.abs (i - j) in
  let s0 := fst (init 2 3 [1; 2; 2]) in
  complete_run 2 3 s0 [1; 0; 2; 0]
  /\ map (fun p => reward (snd p)) (run d false 3 99 s0 [1; 0; 2; 0]) = [[-10]; [-10]; [-20]; [-20]]
  /\ map (fun p => reward (snd p)) (run d true 3 99 s0 [1; 0; 2; 0]) = [[0]; [0]; [0]; [-60]]
  /\ route_len d (rev [1; 0; 2; 0]) = 60
  /\ traj (final (run d true 3 99 s0 [1; 0; 2; 0])) = [0; 1; 0; 2].    (* the final depot visit did not fit *)
Proof.
  cbv zeta. split.
  - cbn [complete_run]. rewrite <- !legal_b_spec. vm_compute. repeat split; try reflexivity; try (intro X; discriminate X).
    all: first [ left; split; [reflexivity | intro X; discriminate X]
               | right; repeat split; try reflexivity; intro X; discriminate X ].
  - vm_compute. repeat split; reflexivity.
Qed.
