(* C08 Cleaner: for every sequence of joint actions (legal or not) the sum of the rewards (code = 4 x reward) equals
   4 x (tiles cleaned, recomputed as dirty tiles at the start minus dirty tiles in the final grid) minus
   (number of steps) x (4 x penalty_per_timestep).  Every episode is such a sequence (cut at its first LAST). *)
Require Import JV.Base.Prelude JV.Base.JaxIndex JV.Base.Codec JV.Base.TimeStep JV.Model.Cleaner JV.Proofs.Cleaner.
Theorem C08_Cleaner_return c al s :
  Inv c s -> Forall (fun a => zlen a = nag c) al ->
  Inv c (snd (run c s al)) /\
  ret (fst (run c s al)) = 4 * (count_dirty (grid s) - count_dirty (grid (snd (run c s al)))) - zlen al * pen c.
Proof. exact (C08_return c al s). Qed.
Print Assumptions C08_Cleaner_return.
Theorem C08_Cleaner_step_reward c s acts :
  Inv c s ->
  reward (snd (step c s acts)) = [4 * (count_dirty (grid s) - count_dirty (grid (fst (step c s acts)))) - pen c].
Proof. exact (step_reward c s acts). Qed.
Example C08_Cleaner_nonvacuous :
  ret (fst (run ex_cfg ex_s0 [[1; 1]; [1; 3]; [2; 1]])) = 4 * 3 - 3 * 2
  /\ count_dirty (grid ex_s0) = 3 /\ count_dirty (grid (snd (run ex_cfg ex_s0 [[1; 1]; [1; 3]; [2; 1]]))) = 0.
Proof. vm_compute. repeat split; reflexivity. Qed.
