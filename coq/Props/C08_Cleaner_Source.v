(* C08 Cleaner over the SOURCE-TRANSLATED step and reward (Gen/CleanerSrc.v; see C09_Cleaner_Source.v): the reward of a step, in quarters, is 4
   per tile the step cleaned minus the configured per-step penalty -- so returns telescope into tiles cleaned minus steps x penalty. *)
Require Import JV.Base.Prelude JV.Base.JaxIndex JV.Base.Codec JV.Base.TimeStep JV.Gen.TimeStepSrc JV.Gen.CleanerSrc JV.Proofs.Cleaner JV.Proofs.Cleaner_Src.
Require JV.Model.Cleaner.
Theorem C08_Cleaner_Source_step_reward (R C N T pen : Z) s acts : JV.Model.Cleaner.Inv (JV.Model.Cleaner.mkC R C N T pen) (conv s) ->
  reward (snd (step R C T pen s acts))
  = [4 * (JV.Model.Cleaner.count_dirty (s_grid s) - JV.Model.Cleaner.count_dirty (s_grid (fst (step R C T pen s acts)))) - pen].
Proof. exact (src_step_reward R C N T pen s acts). Qed.
Print Assumptions C08_Cleaner_Source_step_reward.
