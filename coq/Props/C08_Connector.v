(* C08 Connector (documented dense reward; one reward function is shipped): per agent, the step reward is
   connected_reward in the step in which it connects plus timestep_reward when it was unconnected before the step; the
   return over ANY sequence of joint actions is connected_reward * [connected at the end and not at the start] +
   timestep_reward * (number of steps started unconnected), recomputed from the first and the last state (connection is
   absorbing: a connected agent never moves).  Codes are 100 x the float values (crew = 100, trew = -3 by default). *)
Require Import JV.Base.Prelude JV.Base.JaxIndex JV.Base.Codec JV.Base.TimeStep JV.Model.Connector JV.Proofs.Connector.
Theorem C08_Connector_reward_formula c s acts k :
  wf c s acts -> 0 <= k < nag c ->
  znth 0 (reward (tsof c s acts)) k =
  crew c * (b2z (conn (next c s acts) k) - b2z (conn s k)) + trew c * (1 - b2z (conn s k)).
Proof. exact (C08_reward_formula c s acts k). Qed.
Theorem C08_Connector_connection_absorbing c s acts k :
  wf c s acts -> 0 <= k < nag c -> conn s k = true -> conn (next c s acts) k = true.
Proof. exact (conn_monotone c s acts k). Qed.
Theorem C08_Connector_return c plan s k :
  0 <= nag c -> zlen (agents s) = nag c -> Forall (fun a => zlen a = nag c) plan -> 0 <= k < nag c ->
  ret c s plan k = crew c * (b2z (conn (run c s plan) k) - b2z (conn s k)) + trew c * unconnected_steps c s plan k.
Proof. exact (C08_return c plan s k). Qed.
Print Assumptions C08_Connector_return.
Example C08_Connector_nonvacuous :
  ret ex_cfg ex_s0 [[2; 3]; [2; 2]; [0; 0]] 0 = 100 - 6 /\ ret ex_cfg ex_s0 [[2; 3]; [2; 2]; [0; 0]] 1 = 100 - 6
  /\ conn (run ex_cfg ex_s0 [[2; 3]; [2; 2]; [0; 0]]) 0 = true /\ unconnected_steps ex_cfg ex_s0 [[2; 3]; [2; 2]; [0; 0]] 0 = 2.
Proof. vm_compute. repeat split; reflexivity. Qed.
