(* C08 FlatPack: for ANY in-spec action sequence from reset the sum of the reward numerators equals the objective
   recomputed from the final state: CellDenseReward (numerator / (rows*cols)) -> number of covered cells, i.e. return =
   covered fraction of the grid; BlockDenseReward (numerator / num_blocks) -> number of placed blocks.  Per step the reward
   is the increase of that objective.  (float32 rounding of the division is outside the model; the harness compares
   each float reward with numerator/denominator within 1e-6 and the return within 1e-5.) *)
Require Import JV.Base.Prelude JV.Base.JaxIndex JV.Base.Codec JV.Base.TimeStep JV.Model.FlatPack JV.Proofs.FlatPack JV.Proofs.FlatPack_Pack.
Theorem C08_FlatPack_return_is_objective cf bl acts s' ts :
  3 <= cR cf -> 3 <= cC cf -> 0 <= cN cf -> blocks_ok (cN cf) bl ->
  Forall (in_space cf) acts -> run cf (fst (init cf bl)) acts = (s', ts) ->
  zsum (concat (map reward ts)) = objective cf s'.
Proof. exact (return_is_objective cf bl acts s' ts). Qed.
Theorem C08_FlatPack_step_telescopes cf s b k r c :
  StateOK cf s -> in_space cf (b, k, r, c) ->
  reward (snd (step cf s b k r c)) = [objective cf (fst (step cf s b k r c)) - objective cf s].
Proof. exact (step_reward_telescopes cf s b k r c). Qed.
Print Assumptions C08_FlatPack_return_is_objective.
Example C08_FlatPack_nonvacuous :
  let cf := mkC 5 5 4 0 in
  let '(s, ts) := run cf (fst (init cf toy_blocks_rot)) [(0, 2, 0, 0); (1, 0, 0, 0); (1, 2, 0, 2); (3, 0, 2, 2)] in
  map reward ts = [[6]; [0]; [6]; [7]] /\ objective cf s = 19.
Proof. vm_compute. split; reflexivity. Qed.
