(* C08 Game2048: the return of an episode (any in-spec actions, legal or not; any valid draws) equals the final score, and
   equals the documented objective "sum of merged tiles" recomputed from the FINAL board alone:
       return = sum over tiles of (e-1)*2^e  -  sum over spawned tiles of (v-1)*2^v
   (a tile of exponent e embodies exactly (e-1)*2^e of merge rewards when built from 2s; a spawned 4 was never paid for,
   phi 1 = 0, phi 2 = 4).  Each step's reward is the sum of the tiles created by merging (spec_reward). *)
Require Import JV.Base.Prelude JV.Base.JaxIndex JV.Base.Codec JV.Base.TimeStep JV.Model.Game2048
  JV.Proofs.Game2048_Row JV.Proofs.Game2048_Board JV.Proofs.Game2048.
Theorem C08_Game2048_episode_return n idx0 v0 tr s0 t0 sf ret sp : 0 < n ->
  valid_draw n (zeros_board n) idx0 v0 = true -> init n idx0 v0 = Some (s0, t0) -> valid_trace n s0 tr ->
  run n s0 tr = Some (sf, ret, sp) ->
  ret = score sf /\ ret = phi_total (board sf) - phi v0 - sp /\ step_count sf = zlen tr.
Proof. exact (episode_return n idx0 v0 tr s0 t0 sf ret sp). Qed.
Print Assumptions C08_Game2048_episode_return.
Theorem C08_Game2048_run_telescopes n : 0 < n -> forall tr s sf ret sp, Inv n s -> valid_trace n s tr ->
  run n s tr = Some (sf, ret, sp) ->
  Inv n sf /\ score sf = score s + ret /\ phi_total (board sf) = phi_total (board s) + ret + sp
  /\ step_count sf = step_count s + zlen tr /\ 0 <= ret.
Proof. exact (run_telescopes n). Qed.
Print Assumptions C08_Game2048_run_telescopes.
(* one move: the potential grows by exactly the reward; row level for every row length *)
Theorem C08_Game2048_move_potential n b a : wf n b -> nonneg b ->
  phi_total (spec_move n b a) = phi_total b + spec_reward n b a.
Proof. exact (phi_spec_move n b a). Qed.
Theorem C08_Game2048_row_potential r : Forall (fun e => 0 <= e) r -> phi_sum (slide r) = phi_sum r + row_reward r.
Proof. exact (slide_phi_sum r). Qed.
Print Assumptions C08_Game2048_move_potential.
Example C08_Game2048_nonvacuous :
  let s0 := mkS [[0;1];[0;0]] (rules_mask 2 [[0;1];[0;0]]) 0 0 in
  let tr := [(3, 1, 1); (3, 3, 2); (0, 2, 1)] in
  valid_draw 2 (spec_move 2 [[0;1];[0;0]] 3) 1 1 = true
  /\ run 2 s0 tr = Some (mkS [[2;2];[1;0]] [false; true; true; true] 4 3, 4, 4)
  /\ phi_total [[2;2];[1;0]] = phi_total [[0;1];[0;0]] + 4 + 4.
Proof. exact ex_episode. Qed.
