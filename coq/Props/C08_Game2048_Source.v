(* C08 Game2048 over the SOURCE-TRANSLATED step (Gen/Game2048Src.v; see C09_Game2048_Source.v): the score kept in the state is the running sum of
   the rewards handed out -- each step adds exactly its reward (the value the slide merged, C08_Game2048_move_potential). *)
Require Import JV.Base.Prelude JV.Base.JaxIndex JV.Base.Codec JV.Base.TimeStep JV.Gen.TimeStepSrc JV.Gen.Game2048Src JV.Proofs.Game2048_Row JV.Proofs.Game2048_Board JV.Proofs.Game2048 JV.Proofs.Game2048_Src.
Require JV.Model.Game2048.
Theorem C08_Game2048_Source_score_is_reward_sum n di dv s a :
  exists r, reward (snd (step n (mv_model n) (cm_model n) di dv s a)) = [r]
            /\ s_score (fst (step n (mv_model n) (cm_model n) di dv s a)) = s_score s + r.
Proof. exact (src_score_is_reward_sum n di dv s a). Qed.
Print Assumptions C08_Game2048_Source_score_is_reward_sum.
