(* C08 GraphColoring: for every graph (0 < n, symmetric, loop-free, n x n) and every mask-respecting in-spec episode from
   reset that ends, the return equals minus the number of colours in use in the final state (the number of c in 0..n-1 that
   some node has - stated without the code's unique/count_nonzero), the final colouring is complete (every node has a colour
   in [0,n-1]) and proper, between 1 and n colours are used, and the episode has exactly n steps.  (Single reward function:
   sparse, 0 before the end.)  The older general form (any start state, the colours given as a duplicate-free list) is kept. *)
Require Import JV.Base.Prelude JV.Base.JaxIndex JV.Base.Codec JV.Base.TimeStep JV.Model.GraphColoring JV.Proofs.GraphColoring
  JV.Proofs.GraphColoring_rules JV.Proofs.GraphColoring_episode JV.Proofs.GraphColoring_gen.
Theorem C08_GraphColoring_return_from_reset n adj0 acts :
  0 < n -> graph_wf n adj0 ->
  let s0 := fst (init n adj0) in
  inspec n acts -> legal_run n s0 acts -> ended n s0 acts ->
  let sf := final n s0 acts in
  ret (run n s0 acts) = - colours_used n (colors sf)
  /\ adj sf = adj0
  /\ (forall j, 0 <= j < n -> 0 <= color_of (colors sf) j < n)
  /\ proper n adj0 (colors sf)
  /\ 1 <= colours_used n (colors sf) <= n
  /\ zlen (run n s0 acts) = n.
Proof. exact (C08_return_from_reset n adj0 acts). Qed.
Print Assumptions C08_GraphColoring_return_from_reset.
Theorem C08_GraphColoring_return n acts s :
  legal_run n s acts -> forall sf tf, last (run n s acts) (s, mkTS MID [] []) = (sf, tf) -> st tf = LAST ->
  exists ds, NoDup ds /\ (forall x, In x ds <-> In x (colors sf) /\ 0 <= x)
             /\ ret (run n s acts) = - Z.of_nat (length ds).
Proof. exact (C08_return n acts s). Qed.
Print Assumptions C08_GraphColoring_return.
Example C08_GraphColoring_nonvacuous :
  let adj0 := gen_adj 4 [[false;false;false;false];[true;false;false;false];[false;true;false;false];[true;false;true;false]] in
  let s0 := fst (init 4 adj0) in
  legal_run 4 s0 [0; 1; 0; 1] /\ ended 4 s0 [0; 1; 0; 1] /\ colors (final 4 s0 [0; 1; 0; 1]) = [0; 1; 0; 1]
  /\ map (fun p => reward (snd p)) (run 4 s0 [0; 1; 0; 1]) = [[0]; [0]; [0]; [-2]]
  /\ ret (run 4 s0 [0; 1; 0; 1]) = -2 /\ colours_used 4 [0; 1; 0; 1] = 2
  /\ ret (run 4 s0 [3; 1; 2; 0]) = -4 /\ colours_used 4 (colors (final 4 s0 [3; 1; 2; 0])) = 4.
Proof. vm_compute. repeat split; try reflexivity; intuition (try discriminate; try lia). Qed.
