(* C08 GraphColoring: the return of a legal episode that ends equals minus the number of distinct colours in the final state *)
Require Import JV.Base.Prelude JV.Base.JaxIndex JV.Base.Codec JV.Base.TimeStep JV.Model.GraphColoring JV.Proofs.GraphColoring.
Theorem C08_GraphColoring_return n acts s :
  legal_run n s acts -> forall sf tf, last (run n s acts) (s, mkTS MID [] []) = (sf, tf) -> st tf = LAST ->
  exists ds, NoDup ds /\ (forall x, In x ds <-> In x (colors sf) /\ 0 <= x)
             /\ ret (run n s acts) = - Z.of_nat (length ds).
Proof. exact (C08_return n acts s). Qed.
Print Assumptions C08_GraphColoring_return.
