(* C08 JobShop (return = - makespan): every episode that ends because the schedule is finished - its LAST step pays -1, the
   penalty being a different number - has, under the in-spec actions that produced it,
       return = - (number of steps) = - makespan,
   where makespan is RECOMPUTED from the final state as the latest end (scheduled_time + duration) of a scheduled operation;
   the final schedule is complete and feasible.  The step that finishes the schedule is the first moment at which the clock
   equals the makespan (C08_JobShop_finish_makespan).  Episodes ended by the penalty (invalid action / all machines idle)
   return -(steps-1) - J*O*D by C05/C09. *)
Require Import JV.Base.Prelude JV.Base.JaxIndex JV.Base.Codec JV.Base.TimeStep JV.Proofs.TimeStep_laws.
Require Import JV.Model.JobShop JV.Proofs.JobShop_lib JV.Proofs.JobShop_step JV.Proofs.JobShop_sched JV.Proofs.JobShop_episode JV.Proofs.JobShop_gen.
Theorem C08_JobShop_return_is_minus_makespan c acts : penalty c <> -1 -> forall s sf tf,
  Inv c s -> Forall (in_spec c) acts -> lastp (run c s acts) = Some (sf, tf) -> tf = termination 1 [-1] ->
  makespan c sf = clock sf /\ Complete c sf /\ Feasible c sf /\ ret (run c s acts) = - (clock sf - clock s)
  /\ clock sf - clock s = Z.of_nat (length (run c s acts)).
Proof. exact (return_is_minus_makespan c acts). Qed.
Theorem C08_JobShop_episode_return c om od acts sf : 0 <= nj c -> 0 <= nm c -> 0 < no c -> rows_ok od (nj c) (no c) ->
  inst_wf c (fst (init c om od)) -> penalty c <> -1 -> Forall (in_spec c) acts ->
  lastp (run c (fst (init c om od)) acts) = Some (sf, termination 1 [-1]) ->
  ret (run c (fst (init c om od)) acts) = - makespan c sf.
Proof.
  intros HJ HM HO Hd W Pn Sp L.
  destruct (return_is_minus_makespan c acts Pn _ sf _ (init_Inv c om od HJ HM HO Hd W) Sp L eq_refl) as (A & _ & _ & B & _).
  rewrite B, A. cbn [init fst clock]. lia.
Qed.
Theorem C08_JobShop_finish_makespan c s act : Inv c s -> in_spec c act -> valid_action c s act ->
  let s' := fst (step c s act) in
  finished_b c (omask s') (mrem s') = true -> all_idle_b c (mjob s') (mrem s') = false ->
  makespan c s' = clock s' /\ Complete c s'.
Proof. exact (finish_makespan c s act). Qed.
(* the idle penalty is never forced: an unfinished state reached by mask-respecting play always offers a mask-respecting action
   that keeps some machine non-idle ("all machines idle and nothing schedulable" cannot occur), so every instance can be
   played to a finished schedule, whose return is then minus its makespan *)
Theorem C08_JobShop_penalty_never_forced c s : Inv c s -> finished_b c (omask s) (mrem s) = false ->
  exists act, in_spec c act /\ valid_action c s act /\
    all_idle_b c (mjob (fst (step c s act))) (mrem (fst (step c s act))) = false.
Proof. exact (can_progress c s). Qed.
Print Assumptions C08_JobShop_episode_return.
Definition toy_s0 := fst (init toy_cfg toy_mach toy_dur).
Definition toy_acts : list (list Z) := [[3;4;0;1];[5;5;5;5];[5;5;1;0];[5;2;5;5];[4;5;5;3];[3;0;5;2];[1;4;0;5];[3;5;5;5]].
(* the toy instance, played to its documented optimal makespan 8 *)
Example C08_JobShop_nonvacuous :
  let tr := run toy_cfg toy_s0 toy_acts in
  map (fun p => st (snd p)) tr = [MID;MID;MID;MID;MID;MID;MID;LAST] /\ ret tr = -8
  /\ (match lastp tr with Some (sf, tf) => tf = termination 1 [-1] /\ makespan toy_cfg sf = 8 /\ clock sf = 8 | None => False end)
  /\ penalty toy_cfg = -80.
Proof. vm_compute. repeat split; reflexivity. Qed.
