(* C08 Knapsack: on every mask-respecting trajectory run to termination from a reset state, the sparse return and the dense
   return both equal the packed value (sum of the values of the packed items) of the final state; the dense rewards
   telescope to the packed value for ANY in-spec action sequence (an illegal last item pays 0 and changes nothing). *)
Require Import JV.Base.Prelude JV.Base.JaxIndex JV.Base.Codec JV.Base.TimeStep JV.Model.Knapsack JV.Proofs.Knapsack.
Theorem C08_Knapsack_return_is_packed_value n total w v acts :
  0 <= n -> zlen w = n -> zlen v = n ->
  let s0 := fst (init n total w v) in
  legal_run n true s0 acts -> ended (run rid true s0 acts) ->
  ret (run rid true s0 acts) = packed_value (final (run rid true s0 acts) s0)
  /\ ret (run rid false s0 acts) = packed_value (final (run rid true s0 acts) s0).
Proof. exact (C08_return_is_packed_value n total w v acts). Qed.
Print Assumptions C08_Knapsack_return_is_packed_value.
Theorem C08_Knapsack_dense_return n acts s :
  shape n s -> Forall (fun a => 0 <= a < n) acts ->
  ret (run rid false s acts) = packed_value (final (run rid false s acts) s) - packed_value s.
Proof. exact (C08_dense_return n acts s). Qed.
Theorem C08_Knapsack_sparse_return n acts s :
  shape n s -> legal_run n true s acts -> ended (run rid true s acts) ->
  ret (run rid true s acts) = packed_value (final (run rid true s acts) s).
Proof. exact (C08_sparse_return n acts s). Qed.
Print Assumptions C08_Knapsack_sparse_return.
Example C08_Knapsack_nonvacuous :
  let s0 := fst (init 3 1024 [512; 512; 700] [100; 200; 300]) in
  legal_run 3 true s0 [1; 0] /\ ended (run rid true s0 [1; 0])
  /\ map (fun p => reward (snd p)) (run rid true s0 [1; 0]) = [[0]; [300]]
  /\ map (fun p => reward (snd p)) (run rid false s0 [1; 0]) = [[200]; [100]]
  /\ packed_value (final (run rid true s0 [1; 0]) s0) = 300.
Proof. vm_compute. repeat split; try reflexivity; intuition (try discriminate; try lia). Qed.
