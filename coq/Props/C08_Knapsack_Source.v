(* C08 Knapsack over the SOURCE-TRANSLATED step and reward functions (Gen/KnapsackSrc.v; see C09_Knapsack_Source.v): with exact arithmetic the
   dense return of an episode of the translated step is the value it packed (final packed value minus initial packed value). *)
Require Import JV.Base.Prelude JV.Base.JaxIndex JV.Base.Codec JV.Base.TimeStep JV.Gen.TimeStepSrc JV.Gen.KnapsackSrc JV.Proofs.Knapsack_Src.
Require JV.Model.Knapsack.
Require JV.Proofs.Knapsack.
Theorem C08_Knapsack_Source_dense_return n acts s : JV.Model.Knapsack.shape n (conv s) -> Forall (fun a => 0 <= a < n) acts ->
  let tr := map cp (run_src JV.Model.Knapsack.rid false s acts) in
  JV.Proofs.Knapsack.ret tr = JV.Model.Knapsack.packed_value (JV.Proofs.Knapsack.final tr (conv s)) - JV.Model.Knapsack.packed_value (conv s).
Proof. exact (src_dense_return n acts s). Qed.
Print Assumptions C08_Knapsack_Source_dense_return.
