(* C08 LevelBasedForaging: exact rational rewards.  With normalize_reward and no penalty, the rewards of one step sum (over
   the agents) to (level of the food eaten in this step) / (total food level); the return of ANY action sequence telescopes
   to (eaten level gained) / total, so an episode that goes from a fresh instance (nothing eaten) to "all food collected"
   returns exactly 1, whatever the agents did and however the loading was shared.
   Penalty handling: an attempted but insufficient load (0 < sum of loaders' levels < food level) charges EVERY agent the
   penalty (divided by loaders' levels * total level when normalising); no loader => no reward and no penalty. *)
From Coq Require Import QArith.
Require Import JV.Base.Prelude JV.Base.JaxIndex JV.Base.Codec JV.Base.TimeStep JV.Model.Lbf JV.Proofs.Lbf JV.Proofs.Lbf_Reward.
Open Scope Z_scope.
Theorem C08_Lbf_step_sum c s acts :
  norm c = true -> (pen c == 0)%Q -> Forall (fun f => 1 <= flvl f) (foods s) ->
  (qsum (step_rewards c s acts)
   == zq (eaten_mass (foods (fst (step c s acts))) - eaten_mass (foods s)) / zq (total_level (foods s)))%Q.
Proof. exact (reward_sum_step c s acts). Qed.
Theorem C08_Lbf_return_telescopes c al s :
  norm c = true -> (pen c == 0)%Q -> Forall (fun f => 1 <= flvl f) (foods s) ->
  (total_return c s al == zq (eaten_mass (foods (final c s al)) - eaten_mass (foods s)) / zq (total_level (foods s)))%Q.
Proof. exact (return_telescopes c al s). Qed.
Theorem C08_Lbf_return_is_one c s al :
  norm c = true -> (pen c == 0)%Q -> Forall (fun f => 1 <= flvl f) (foods s) -> foods s <> [] ->
  forallb (fun f => negb (featen f)) (foods s) = true -> all_eaten (final c s al) = true ->
  (total_return c s al == 1)%Q.
Proof. exact (return_is_one c s al). Qed.
Theorem C08_Lbf_penalty_rule c lt ags f :
  zsum (adj_levels ags f) <> 0 -> zsum (adj_levels ags f) < flvl f ->
  food_reward c lt ags f
  = map (fun l => let r := (zq (l * 0 * flvl f) - pen c)%Q in if norm c then (r / zq (zsum (adj_levels ags f) * lt))%Q else r) (adj_levels ags f).
Proof. exact (penalty_rule c lt ags f). Qed.
Theorem C08_Lbf_no_load_no_reward c lt ags f :
  Forall (fun l => l = 0) (adj_levels ags f) -> Forall (fun r => (r == 0)%Q) (food_reward c lt ags f).
Proof. exact (no_load_no_reward c lt ags f). Qed.
(* the reward code carried by the timestep is the numerator of the rational reward *)
Theorem C08_Lbf_timestep_reward c s acts : reward (snd (step c s acts)) = map Qnum (step_rewards c s acts).
Proof. exact (timestep_reward c s acts). Qed.
Print Assumptions C08_Lbf_return_is_one.
Print Assumptions C08_Lbf_penalty_rule.
Example C08_Lbf_nonvacuous :
  (* two agents (levels 1, 2) eat food 0 (level 2) then food 1 (level 2): shares 1/6 + 2/6, then 1/6 + 2/6: return 1 *)
  let al := [[5; 5]; [2; 2]; [2; 0]; [4; 4]; [4; 0]; [5; 5]] in
  let s := mkS [mkA 0 1 0 1 false; mkA 1 1 2 2 false] (foods ex_s0) 0 in
  let c := mkC 5 2 2 1 50 true 0%Q false 2 in
  map Qred (step_rewards c s [5; 5]) = [(1 # 6)%Q; (1 # 3)%Q]
  /\ all_eaten (final c s al) = true /\ Qred (total_return c s al) = 1%Q
  (* penalty 1/2, unnormalised: agent 0 alone (level 1 < 2) loads food 0: both agents are charged *)
  /\ map Qred (step_rewards (mkC 5 2 2 1 50 false (1 # 2)%Q false 2) s [5; 0]) = [(-1 # 2)%Q; (-1 # 2)%Q].
Proof. vm_compute. repeat split; reflexivity. Qed.
