(* C08 Minesweeper: every reward is the configured price of what the step revealed, so the return of an episode telescopes:
   return = r_empty * (safe squares revealed) + r_mine * (mines revealed) + r_invalid * (explored squares selected), for every
   start state, every in-spec action sequence and whatever ends the episode; with the documented default constants (1, 0, 0)
   the return of any episode from reset IS the number of safe squares revealed in its final state.  (One reward function is
   shipped, so there is no dense/sparse pair to compare.) *)
Require Import JV.Base.Prelude JV.Base.JaxIndex JV.Base.Codec JV.Base.TimeStep JV.Model.Minesweeper.
Require Import JV.Proofs.Minesweeper_lists JV.Proofs.Minesweeper_count JV.Proofs.Minesweeper.
Theorem C08_Minesweeper_return_is_safe_revealed rows cols nm locs acts :
  0 <= rows -> 0 <= cols -> valid_draw rows cols nm locs = true -> Forall (in_spec_p rows cols) acts ->
  let s0 := fst (init rows cols locs) in
  ret (run default_rcfg rows cols s0 acts) = safe_revealed rows cols (final s0 (run default_rcfg rows cols s0 acts)).
Proof. exact (return_is_safe_revealed rows cols nm locs acts). Qed.
Print Assumptions C08_Minesweeper_return_is_safe_revealed.
Theorem C08_Minesweeper_return_decomposition rc rows cols nm acts s :
  Phys rows cols nm s -> Forall (in_spec_p rows cols) acts ->
  ret (run rc rows cols s acts) =
    r_empty rc * (safe_revealed rows cols (final s (run rc rows cols s acts)) - safe_revealed rows cols s)
  + r_mine rc * (mine_revealed rows cols (final s (run rc rows cols s acts)) - mine_revealed rows cols s)
  + r_invalid rc * n_invalid rc rows cols s acts.
Proof. exact (return_decomposition rc rows cols nm acts s). Qed.
Print Assumptions C08_Minesweeper_return_decomposition.
Theorem C08_Minesweeper_step_reward rc rows cols nm s r c :
  Phys rows cols nm s -> 0 <= r < rows -> 0 <= c < cols ->
  reward (snd (step rc rows cols s r c)) =
  [ r_empty rc * (safe_revealed rows cols (fst (step rc rows cols s r c)) - safe_revealed rows cols s)
    + r_mine rc * (mine_revealed rows cols (fst (step rc rows cols s r c)) - mine_revealed rows cols s)
    + r_invalid rc * b2z (negb (legal_b (board s) r c)) ].
Proof. exact (step_reward rc rows cols nm s r c). Qed.
Theorem C08_Minesweeper_at_most_one_invalid rc rows cols nm acts s :
  Phys rows cols nm s -> Forall (in_spec_p rows cols) acts -> 0 <= n_invalid rc rows cols s acts <= 1.
Proof. exact (n_invalid_range rc rows cols nm acts s). Qed.
Example C08_Minesweeper_nonvacuous :
  valid_draw 2 3 2 ex_locs = true /\ forallb (in_spec 2 3) ex_acts = true
  /\ ret (run default_rcfg 2 3 ex_s0 ex_acts) = 4 /\ safe_revealed 2 3 (final ex_s0 (run default_rcfg 2 3 ex_s0 ex_acts)) = 4
  /\ ret (run default_rcfg 2 3 ex_s0 [(0, 0); (1, 2); (1, 1)]) = 1
  /\ ret (run (mkR 6 (-2) (-9)) 2 3 ex_s0 [(0, 0); (1, 0); (0, 0)]) = 3.
Proof. vm_compute. repeat split; reflexivity. Qed.
