(* C08 Minesweeper over the SOURCE-TRANSLATED step and reward function (Gen/MinesweeperSrc.v; see C09_Minesweeper_Source.v): the return of
   an episode of the translated step (run_src: the steps up to and including the first LAST) telescopes into the documented objective --
   empty-square constant x safe squares revealed + mine constant x mines revealed + invalid constant x explored squares selected -- for
   every physically consistent start state, every in-spec action sequence and any three reward constants. *)
Require Import JV.Base.Prelude JV.Base.JaxIndex JV.Base.Codec JV.Base.TimeStep JV.Gen.TimeStepSrc JV.Gen.MinesweeperSrc JV.Proofs.Minesweeper_lists JV.Proofs.Minesweeper_count JV.Proofs.Minesweeper JV.Proofs.Minesweeper_Src.
Require JV.Model.Minesweeper.
Theorem C08_Minesweeper_Source_return_decomposition rows cols nm re rm ri s acts : 0 < rows ->
  Phys rows cols nm (conv s) -> Forall (in_spec_p rows cols) acts ->
  let tr := map cp (run_src nm re rm ri s acts) in
  JV.Model.Minesweeper.ret tr
  = re * (JV.Model.Minesweeper.safe_revealed rows cols (JV.Model.Minesweeper.final (conv s) tr) - JV.Model.Minesweeper.safe_revealed rows cols (conv s))
  + rm * (JV.Model.Minesweeper.mine_revealed rows cols (JV.Model.Minesweeper.final (conv s) tr) - JV.Model.Minesweeper.mine_revealed rows cols (conv s))
  + ri * n_invalid (JV.Model.Minesweeper.mkR re rm ri) rows cols (conv s) acts.
Proof. exact (fun H => src_return_decomposition rows cols nm re rm ri H s acts). Qed.
Print Assumptions C08_Minesweeper_Source_return_decomposition.
Example C08_Minesweeper_Source_nonvacuous :
  let s := mkState [[-1; -1; -1]; [-1; -1; -1]] 0 [1; 5] in
  let tr := map cp (run_src 2 4 0 0 s [(0, 0); (1, 1); (1, 0); (0, 2)]) in
  JV.Model.Minesweeper.ret tr = 16 /\ length tr = 4%nat /\ JV.Model.Minesweeper.safe_revealed 2 3 (JV.Model.Minesweeper.final (conv s) tr) = 4.
Proof. vm_compute. repeat split; reflexivity. Qed.
