(* C08 MMST.  docs/environments/mmst.md: "an agent receives a reward of 10.0 if it gets a valid connection, a reward of -1.0
   if it does not connect and an extra penalty of -1.0 if it chooses an invalid action.  The total step reward is the sum of
   rewards per agent."  (single reward function: DenseRewardFn with values (connected, time step, noop) = (rc, rt, rn)).
   Proved for every state satisfying the invariant, every joint action and every tie-break draw:
   - the step reward is the sum over agents of [rew_term] (C08_Mmst_step_reward_sum);
   - each term has the documented closed form, in terms of the agent's RESOLVED action code fa and its new position p
     (C08_Mmst_agent_terms): finished agent 0; loser of a tie-break (fa = -2) 0; invalid choice (fa = -1) rt + rn;
     valid move (fa >= 0) onto one of its own required nodes rc; otherwise (move elsewhere, or already-traversed
     node fa = -3) rt;
   - the return of an episode is the double sum of the terms (C08_Mmst_return_formula).
   The docs give no objective recomputable from the final state alone (the return depends on the history of invalid and
   losing choices), so there is no "return = objective(final state)" statement for this environment. *)
Require Import JV.Base.Prelude JV.Base.JaxIndex JV.Base.Codec JV.Base.TimeStep JV.Model.Mmst JV.Proofs.Mmst_lib JV.Proofs.Mmst JV.Proofs.Mmst_Episode JV.Proofs.Mmst_Examples JV.Proofs.Mmst_Return.
Theorem C08_Mmst_step_reward_sum c start s acts perm : Inv c start s ->
  reward (snd (step c s acts perm)) = [zsum (tab (cA c) (rew_term c s acts perm))].
Proof. exact (reward_sum c start s acts perm). Qed.
Print Assumptions C08_Mmst_step_reward_sum.
Theorem C08_Mmst_agent_terms c nt fa p f :
  agent_reward c nt fa p f =
    if f then 0
    else if fa =? INVALID_TIE_BREAK then 0
    else if fa =? INVALID_CHOICE then rt c + rn c
    else if (0 <=? fa) && existsb (Z.eqb p) nt then rc c
    else rt c.
Proof. exact (agent_reward_cases c nt fa p f). Qed.
Theorem C08_Mmst_return_formula c start l s : Inv c start s -> ret c s l = ret_terms c s l.
Proof. exact (return_formula c start l s). Qed.
Print Assumptions C08_Mmst_return_formula.
(* path example: step 1 = one connection (+10) and one plain move (-1); step 2 = finished agent (0) and an invalid choice (-2) *)
Example C08_Mmst_nonvacuous :
  ret ex_cfg ex_s0 [([1; 4], [0; 1]); ([0; 0], [0; 1])] = (10 + -1) + (0 + (-1 + -1)).
Proof. vm_compute. reflexivity. Qed.
