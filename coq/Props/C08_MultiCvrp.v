(* C08 MultiCVRP (exact arithmetic, rnd = rid; objective obj s = total distance driven + total time penalties, read from the
   state's accumulators).
   proved (partial = restricted to episodes that do not run into the step limit):
     dense: the rewards of any run that stays below the limit telescope to obj(start) - obj(final);
     sparse: zero until the end, then -obj(final);
     on an episode ending by completion before the limit both returns are -obj(final state) (obj(reset) = 0).
   REFUTED at the step limit (new step_count > 2n): both reward functions pay utils.worst_case_remaining_reward(new state)
   INSTEAD of the ordinary reward.  A tour completed exactly on step 2n (or all customers served by then) has nothing
   remaining: the limit reward is 0, so the sparse return is 0 - the best possible return - whatever was driven, the dense
   return lacks the last leg, and dense <> sparse on the same legal trajectory.
   full statement not provable: for every legal trajectory run to termination, ret dense = ret sparse = -obj(final). *)
Require Import JV.Base.Prelude JV.Base.JaxIndex JV.Base.Codec JV.Base.TimeStep JV.Model.MultiCvrp JV.Proofs.MultiCvrp JV.Proofs.MultiCvrp_Episode JV.Proofs.MultiCvrp_Dist.
Theorem C08_MultiCvrp_dense_return_partial n mc dist al s :
  Forall (fun p => at_limit n (fst p) = false) (run rid false n mc dist s al) ->
  ret (run rid false n mc dist s al) = obj s - obj (final s (run rid false n mc dist s al)).
Proof. exact (C08_dense_return n mc dist al s). Qed.
Theorem C08_MultiCvrp_dense_equals_sparse_partial n mc dist al s : al <> [] -> obj s = 0 ->
  Forall (fun p => at_limit n (fst p) = false) (run rid false n mc dist s al) ->
  Forall (fun p => is_done n (fst p) = false) (removelast (run rid false n mc dist s al)) ->
  is_done n (final s (run rid false n mc dist s al)) = true ->
  ret (run rid false n mc dist s al) = - obj (final s (run rid false n mc dist s al))
  /\ ret (run rid true n mc dist s al) = ret (run rid false n mc dist s al).
Proof. exact (C08_dense_equals_sparse n mc dist al s). Qed.
Print Assumptions C08_MultiCvrp_dense_equals_sparse_partial.
(* the distance part of the objective IS the distance travelled: each vehicle's accumulator equals the length of the route
   it drove (oracle distances along its column of the joint history, from the depot), at reset and after every step *)
Theorem C08_MultiCvrp_distance_is_route_length V mc dist s H acts : DistInv V dist s H -> zlen (next_nodes s acts) = V ->
  DistInv V dist (update rid mc dist s acts) (next_nodes s acts :: H).
Proof. exact (step_DistInv V mc dist s H acts). Qed.
Theorem C08_MultiCvrp_distance_reset V dist dem I c od k m : 0 <= V ->
  DistInv V dist (mkS dem I (repeat 0 (Z.to_nat V)) c (repeat 0 (Z.to_nat V)) (repeat 0 (Z.to_nat V)) (repeat 0 (Z.to_nat V)) od k m) [].
Proof. exact (init_DistInv V dist dem I c od k m). Qed.
Print Assumptions C08_MultiCvrp_distance_is_route_length.
Theorem C08_MultiCvrp_limit_reward_refuted :
  let s0 := st0 [0; 1] 1 1 1 in
  let al := [[1]; [0]] in
  let d := run rid false 1 1 dlin s0 al in let sp := run rid true 1 1 dlin s0 al in
  Inv 1 1 1 [0; 1] s0 [] /\ all_legal_b 1 s0 [1] = true /\ all_legal_b 1 (fst (nth 0 d dflt)) [0] = true
  /\ map (fun p => st (snd p)) d = [MID; LAST] /\ complete (final s0 d) = true
  /\ obj (final s0 d) = 20 * cs /\ ret sp = 0 /\ ret d = - (10 * cs).
Proof. exact limit_reward_refuted. Qed.
Print Assumptions C08_MultiCvrp_limit_reward_refuted.
(* 3 customers, 2 vehicles: complete after 4 < 6 steps: dense = sparse = -(distance driven) = -(20+20+10+30+10+30) *)
Example C08_MultiCvrp_nonvacuous :
  let s0 := st0 [0; 2; 3; 2] 2 4 3 in
  let al := [[2; 2]; [0; 1]; [3; 0]; [0; 0]] in
  let d := run rid false 3 4 dlin s0 al in
  forallb (fun p => negb (at_limit 3 (fst p))) d = true /\ is_done 3 (final s0 d) = true
  /\ ret d = - (120 * cs) /\ ret (run rid true 3 4 dlin s0 al) = - (120 * cs) /\ obj (final s0 d) = 120 * cs.
Proof. vm_compute. repeat split; reflexivity. Qed.
