(* C08 PacMan: the return of an episode equals the documented objective recomputed from the final state.
   The reward function is dense only (no sparse variant is shipped).  Documented objective (docs/environments/pac_man.md,
   with the amounts the code pays): 10 per pellet collected, 50 per power-up collected (docs: 20; a power-up lies on a
   pellet, so collecting it pays 60), 200 per UNIQUE ghost eaten while frightened (ghost_eaten[i] is consumed: a ghost
   pays once per episode).
   For every run -- any actions, in spec or not, and ANY ghost draws, permitted or not, of any length (in particular up
   to and including the LAST step) -- from a state satisfying the bookkeeping invariant Book (maze passes maze_ok_b,
   player on a free cell, pellet counter = number of live pellet entries, live pellets / power-ups pairwise distinct,
   4 ghost_eaten flags; true at reset, preserved by every step: C08_PacMan_book_preserved):
     return = sum of the emitted rewards
            = 10 * (pellets gone) + 50 * (power-ups gone) + 200 * (ghost_eaten flags consumed)       (final vs initial state)
            = score(final) - score(initial),
   where the pellet counter of the final state is the number of pellets left on the map.  From the reset of the default
   maze: return = score = 10 * (318 - pellets left) + 50 * (4 - power-ups left) + 200 * (4 - ghosts still edible).
   And the pellets left are exactly those of the free cells the player has not been on since the reset.
   The same for EVERY ASCII maze passing the decidable maze conditions (C08_PacMan_reset_return,
   C08_PacMan_pellets_are_unvisited_cells): the generator lists every cell once, so Book holds at every reset. *)
Require Import JV.Base.Prelude JV.Base.JaxIndex JV.Base.Codec JV.Base.TimeStep JV.Gen.PacManConsts JV.Model.PacMan JV.Proofs.PacMan JV.Proofs.PacMan_Inv JV.Proofs.PacMan_Rules JV.Proofs.PacMan_Book JV.Proofs.PacMan_Reset.
Theorem C08_PacMan_return_is_objective xs ys T acts s :
  Book xs ys s ->
  let f := run xs ys T s acts in
  ret xs ys T s acts
  = 10 * (pellets s - pellets f) + 50 * (zlen (live (pu_locs s)) - zlen (live (pu_locs f)))
    + 200 * (cnt (g_eaten s) - cnt (g_eaten f))
  /\ pellets f = zlen (live (pellet_locs f)) /\ pellets s = zlen (live (pellet_locs s)).
Proof. exact (return_is_objective xs ys T acts s). Qed.
Print Assumptions C08_PacMan_return_is_objective.
Theorem C08_PacMan_return_is_score xs ys T acts s : ret xs ys T s acts = score (run xs ys T s acts) - score s.
Proof. exact (ret_score xs ys T acts s). Qed.
Print Assumptions C08_PacMan_return_is_score.
Theorem C08_PacMan_default_return xs ys T acts :
  xs = X_SIZE -> ys = Y_SIZE ->
  let f := run xs ys T (gen_state DEFAULT_MAZE_ASCII) acts in
  ret xs ys T (gen_state DEFAULT_MAZE_ASCII) acts
  = 10 * (318 - zlen (live (pellet_locs f))) + 50 * (4 - zlen (live (pu_locs f))) + 200 * (4 - cnt (g_eaten f))
  /\ score f = ret xs ys T (gen_state DEFAULT_MAZE_ASCII) acts.
Proof. exact (default_return xs ys T acts). Qed.
Print Assumptions C08_PacMan_default_return.
(* the invariant behind it: every action, every ghost draw; the potential is conserved *)
Theorem C08_PacMan_book_preserved xs ys T s a d :
  Book xs ys s ->
  Book xs ys (fst (step xs ys T s a d)) /\ potential (fst (step xs ys T s a d)) = potential s.
Proof. exact (step_Book xs ys T s a d). Qed.
Print Assumptions C08_PacMan_book_preserved.
Theorem C08_PacMan_book_at_reset : Book X_SIZE Y_SIZE (gen_state DEFAULT_MAZE_ASCII).
Proof. exact default_reset_Book. Qed.
(* which pellets are gone: those under the cells the player has been on (trail); the trail runs over free cells *)
Theorem C08_PacMan_pellets_left xs ys T acts s :
  Book xs ys s ->
  live (pellet_locs (run xs ys T s acts))
  = filter (fun p => negb (visited (trail xs ys T s acts) p)) (live (pellet_locs s))
  /\ live (pu_locs (run xs ys T s acts))
  = filter (fun p => negb (visited (trail xs ys T s acts) p)) (live (pu_locs s))
  /\ Forall (fun v => free xs ys (grid s) (fst v) (snd v)) (trail xs ys T s acts).
Proof. exact (run_pellets xs ys T acts s). Qed.
Print Assumptions C08_PacMan_pellets_left.
Theorem C08_PacMan_default_pellets_are_unvisited_cells T acts r c :
  let s0 := gen_state DEFAULT_MAZE_ASCII in
  In (c, r) (live (pellet_locs (run X_SIZE Y_SIZE T s0 acts)))
  <-> free X_SIZE Y_SIZE MAZE r c /\ visited (trail X_SIZE Y_SIZE T s0 acts) (c, r) = false.
Proof. exact (default_pellets_are_unvisited_cells T acts r c). Qed.
Print Assumptions C08_PacMan_default_pellets_are_unvisited_cells.
Theorem C08_PacMan_reset_return xs ys T maze acts :
  let s0 := gen_state maze in
  let f := run xs ys T s0 acts in
  maze_ok_b xs ys (numpy_maze maze) = true -> free xs ys (numpy_maze maze) (px s0) (py s0) ->
  ret xs ys T s0 acts
  = 10 * (zlen (pellet_locs s0) - zlen (live (pellet_locs f))) + 50 * (zlen (live (pu_locs s0)) - zlen (live (pu_locs f)))
    + 200 * (4 - cnt (g_eaten f))
  /\ score f = ret xs ys T s0 acts.
Proof. exact (reset_return xs ys T maze acts). Qed.
Print Assumptions C08_PacMan_reset_return.
Theorem C08_PacMan_pellets_are_unvisited_cells xs ys T maze acts r c :
  let s0 := gen_state maze in
  maze_ok_b xs ys (numpy_maze maze) = true -> free xs ys (numpy_maze maze) (px s0) (py s0) ->
  In (c, r) (live (pellet_locs (run xs ys T s0 acts)))
  <-> free xs ys (numpy_maze maze) r c /\ visited (trail xs ys T s0 acts) (c, r) = false.
Proof. exact (pellets_are_unvisited_cells xs ys T maze acts r c). Qed.
Print Assumptions C08_PacMan_pellets_are_unvisited_cells.
Theorem C08_PacMan_book_at_every_reset xs ys maze :
  maze_ok_b xs ys (numpy_maze maze) = true ->
  free xs ys (numpy_maze maze) (px (gen_state maze)) (py (gen_state maze)) ->
  Book xs ys (gen_state maze).
Proof. exact (reset_Book xs ys maze). Qed.
(* the board-cleared end of an episode on the default maze: all power-ups are gone too; return in [3380, 4180] *)
Theorem C08_PacMan_default_cleared_return T acts :
  let s0 := gen_state DEFAULT_MAZE_ASCII in
  let f := run X_SIZE Y_SIZE T s0 acts in
  live (pellet_locs f) = [] ->
  live (pu_locs f) = []
  /\ ret X_SIZE Y_SIZE T s0 acts = 3380 + 200 * (4 - cnt (g_eaten f))
  /\ 3380 <= ret X_SIZE Y_SIZE T s0 acts <= 4180.
Proof. exact (default_cleared_return T acts). Qed.
Print Assumptions C08_PacMan_default_cleared_return.
(* non-vacuity: two pellets from reset (20); and a frightened ghost standing on the cell the player moves to:
   10 (pellet) + 200 (ghost 0, edible) = 210 = 10 * (318 - 317) + 200 * (4 - 3), the ghost is sent home *)
Example C08_PacMan_nonvacuous :
  let s0 := gen_state DEFAULT_MAZE_ASCII in
  let w := (1, [4; 4; 4; 4]) in
  ret 31 28 9 s0 [w; w] = 20 /\ pellets (run 31 28 9 s0 [w; w]) = 316
  /\ let s := mkS (grid s0) (pellets s0) 5 (pellet_locs s0) (pu_locs s0) 23 13 [(12, 23); (11, 14); (13, 15); (16, 14)] (init_ghosts s0)
                  (init_targets s0) [(12, 23); (11, 14); (13, 15); (16, 14)] (g_init_steps s0) (g_actions s0) 0 false (g_starts s0)
                  (scatter s0) 0 (g_eaten s0) 0 in
     ret 31 28 9 s [w] = 210 /\ cnt (g_eaten (run 31 28 9 s [w])) = 3 /\ pellets (run 31 28 9 s [w]) = 317
     /\ gpos (ghosts (run 31 28 9 s [w])) 0 = gpos (init_ghosts s0) 0 /\ dead (run 31 28 9 s [w]) = false.
Proof. vm_compute. repeat split; reflexivity. Qed.
