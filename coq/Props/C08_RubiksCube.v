(* C08/C09 RubiksCube: the reward of a step is 1 exactly when the cube has just become solved (every face uniform)
   and 0 otherwise; the return of an episode (run to its first LAST) is 1 if the final cube is solved, else 0. *)
Require Import JV.Base.Prelude JV.Base.JaxIndex JV.Base.Codec JV.Base.TimeStep JV.Gen.RubikTables JV.Model.RubiksCube.
Require Import JV.Proofs.RubiksCube_Lists JV.Proofs.RubiksCube_Cube JV.Proofs.RubiksCube_Action JV.Proofs.RubiksCube_Group JV.Proofs.RubiksCube_Env.
From Coq Require Import Permutation.
Theorem C08_RubiksCube_reward n T s a :
  (Solved (next_cube n s a) -> reward (snd (step n T s a)) = [1]) /\
  (~ Solved (next_cube n s a) -> reward (snd (step n T s a)) = [0]).
Proof. exact (step_reward n T s a). Qed.
Theorem C08_RubiksCube_return n T acts s : acts <> [] ->
  ret (fst (run n T s acts)) = b2z (is_solved (cube_of (snd (run n T s acts)))).
Proof. exact (run_return n T acts s). Qed.
Print Assumptions C08_RubiksCube_reward.
Print Assumptions C08_RubiksCube_return.
Example C08_RubiksCube_nonvacuous :
  let s := fst (init 3 [3; 7]) in
  map reward (fst (run 3 10 s [(0, 0, 0); (2, 0, 0); (1, 0, 1)])) = [[0]; [0]; [0]] /\
  map reward (fst (run 3 10 s [(2, 0, 0); (1, 0, 1); (0, 0, 0)])) = [[0]; [1]].
Proof. vm_compute. auto. Qed.
