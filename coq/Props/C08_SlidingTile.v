(* C08 SlidingTile.  Documented objective: "change in correctly placed tiles".
   Dense: for EVERY in-spec action sequence (legal or not, any length, also beyond a LAST) the sum of rewards telescopes to
   correct(final board) - correct(initial board), where correct counts the cells that agree with the goal.
   Sparse: the return of an episode (cut at its first LAST) is 1 exactly when the final board is the goal, else 0.
   Dense vs sparse on the same action sequence: same trajectory of states and step types; sparse return = 1 <=> the dense
   return is the maximum n^2 - correct(initial) <=> the final board is the goal.  The two returns are NOT numerically equal
   (Example below: 4 vs 1); the documentation defines them as different quantities, so the second sentence of C08 is read as
   "both reward functions score the same final state consistently". *)
Require Import JV.Base.Prelude JV.Base.JaxIndex JV.Base.Codec JV.Base.TimeStep JV.Model.SlidingTile JV.Proofs.SlidingTile JV.Proofs.SlidingTile_Episode.
From Coq Require Import Permutation.
Theorem C08_SlidingTile_dense_telescopes n T acts s : inspec acts -> Inv n (bd s) ->
  ret (run n T 0 s acts) = correct n (puz (final s (run n T 0 s acts))) - correct n (puz s).
Proof. exact (fun Ha => dense_telescopes_run n T acts Ha s). Qed.
Theorem C08_SlidingTile_dense_telescopes_episode n T acts s : inspec acts -> Inv n (bd s) ->
  ret (ep n T 0 s acts) = correct n (puz (final s (ep n T 0 s acts))) - correct n (puz s).
Proof. exact (fun Ha => dense_telescopes_ep n T acts Ha s). Qed.
Theorem C08_SlidingTile_sparse_return n T acts s : acts <> [] ->
  ret (ep n T 1 s acts) = b2z (solved n (final s (ep n T 1 s acts))).
Proof. exact (fun NE => sparse_return_ep n T acts NE s). Qed.
Theorem C08_SlidingTile_same_trajectory n T rw rw' acts s : trace (ep n T rw s acts) = trace (ep n T rw' s acts).
Proof. exact (ep_same_trace n T rw rw' acts s). Qed.
Theorem C08_SlidingTile_dense_sparse_agree n T acts s : 0 < n -> inspec acts -> acts <> [] -> Inv n (bd s) ->
  let sf := final s (ep n T 0 s acts) in
  final s (ep n T 1 s acts) = sf
  /\ ret (ep n T 0 s acts) = correct n (puz sf) - correct n (puz s)
  /\ ret (ep n T 1 s acts) = b2z (solved n sf)
  /\ (ret (ep n T 1 s acts) = 1 <-> ret (ep n T 0 s acts) = n * n - correct n (puz s)).
Proof. exact (dense_sparse_agree n T acts s). Qed.
Theorem C08_SlidingTile_all_correct_iff_goal n g : 0 < n -> wf n g -> (correct n g = n * n <-> g = goal n).
Proof. exact (correct_max_iff n g). Qed.
Print Assumptions C08_SlidingTile_dense_telescopes.
Print Assumptions C08_SlidingTile_dense_sparse_agree.
Example C08_SlidingTile_nonvacuous :
  let s0 := gen_state 3 [0; 3; 0] [7; 9] in
  inv_b 3 (puz s0) (blank s0) = true /\ correct 3 (puz s0) = 5
  /\ map rew (ep 3 9 0 s0 [2; 1; 2; 0; 0]) = [1; 1; 2] /\ map rew (ep 3 9 1 s0 [2; 1; 2; 0; 0]) = [0; 0; 1]
  /\ puz (final s0 (ep 3 9 0 s0 [2; 1; 2; 0; 0])) = goal 3
  /\ map rew (run 3 9 0 s0 [0; 0; 1; 3; 2]) = [0; 0; -1; 1; 1].
Proof. vm_compute. repeat split; reflexivity. Qed.
