(* C08 Snake: the return of an episode (any actions, any draws, run to its first LAST or cut anywhere) equals the
   growth of the snake = fruits eaten; from reset (length 1) it is the final length - 1.  Rewards are 0/1.
   In a consistent state the length IS the number of body cells counted on the raw body_state grid (count_pos), so
   the return equals body cells - 1 recomputed from the final state (the harness also evaluates count_pos on every
   non-terminal implementation state). *)
Require Import JV.Base.Prelude JV.Base.JaxIndex JV.Base.Codec JV.Base.TimeStep JV.Model.Snake JV.Proofs.Snake JV.Proofs.Snake_rules JV.Proofs.Snake_examples JV.Proofs.Snake_count.
Theorem C08_Snake_return_is_growth R C T acts s : ret R C T s acts = len (final R C T s acts) - len s.
Proof. exact (return_is_growth R C T acts s). Qed.
Theorem C08_Snake_return_from_reset R C T hd fr acts :
  ret R C T (fst (init R C hd fr)) acts = len (final R C T (fst (init R C hd fr)) acts) - 1.
Proof. exact (return_from_reset R C T hd fr acts). Qed.
Print Assumptions C08_Snake_return_from_reset.
Theorem C08_Snake_length_is_body_cells R C s : Phys R C s -> count_pos (bstate s) = len s.
Proof. exact (count_pos_is_len R C s). Qed.
Theorem C08_Snake_return_is_body_cells R C T hd fr acts :
  Phys R C (final R C T (fst (init R C hd fr)) acts) ->
  ret R C T (fst (init R C hd fr)) acts = count_pos (bstate (final R C T (fst (init R C hd fr)) acts)) - 1.
Proof. exact (return_is_body_cells R C T hd fr acts). Qed.
Print Assumptions C08_Snake_return_is_body_cells.
Example C08_Snake_nonvacuous :
  ret 3 3 9 e0 ex_acts = 2 /\ len (final 3 3 9 e0 ex_acts) = 3 /\ nsteps 3 3 9 e0 ex_acts = 4.
Proof. exact (conj (proj1 ex_episode) (conj (proj1 (proj2 ex_episode)) (proj1 (proj2 (proj2 ex_episode))))). Qed.
