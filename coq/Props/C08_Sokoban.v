(* C08 Sokoban (rewards in tenths: -0.1 -> -1, +1 -> 10, +10 -> 100).  For ALL states and action sequences:
   dense return = sparse return + 10 * (boxes on targets at the end - at the start) - number of steps; for an episode
   (steps that all returned MID, then one more step) the sparse return is 100 * [solved] and the dense return is
   10 * (on-target difference) - steps + 100 * [solved]: the documented objective recomputed from the first and final
   states.  The per-step on-target change is +1 exactly when a box is pushed onto a target, -1 when pushed off.  The
   code's elementwise count equals the declarative count on well-shaped grids. *)
Require Import JV.Base.Prelude JV.Base.JaxIndex JV.Base.Codec JV.Base.TimeStep JV.Model.Sokoban JV.Proofs.Sokoban_Grid JV.Proofs.Sokoban JV.Proofs.Sokoban_Levels.
Theorem C08_Sokoban_dense_vs_sparse G T acts s :
  zsum (rewards G T true s acts)
  = zsum (rewards G T false s acts) + 10 * (cnt_of (run G T true s acts) - cnt_of s) - zlen acts.
Proof. exact (dense_sparse_return G T acts s). Qed.
Print Assumptions C08_Sokoban_dense_vs_sparse.
Theorem C08_Sokoban_episode_return G T s0 acts a :
  Forall (fun ty => ty = MID) (types G T false s0 acts) ->
  let sF := run G T false s0 (acts ++ [a]) in
  let solved := b2z (cnt_of sF =? N_BOXES) in
  zsum (rewards G T false s0 (acts ++ [a])) = 100 * solved
  /\ zsum (rewards G T true s0 (acts ++ [a])) = 10 * (cnt_of sF - cnt_of s0) - (zlen acts + 1) + 100 * solved.
Proof. exact (episode_return G T s0 acts a). Qed.
Print Assumptions C08_Sokoban_episode_return.
Theorem C08_Sokoban_same_trajectory G T acts s : run G T true s acts = run G T false s acts.
Proof. exact (run_dense G T acts s). Qed.
Theorem C08_Sokoban_on_target_change G T dense s a : Physical G s -> 0 <= a < 4 ->
  let s' := fst (step G T dense s a) in
  let r1 := ar s + dr a in let c1 := ac s + dc a in
  on_target G (var s') (fixed s') = on_target G (var s) (fixed s)
    + (if legal_b G s a && (gat 0 (var s) r1 c1 =? BOX)
       then b2z (gat 0 (fixed s) (r1 + dr a) (c1 + dc a) =? TARGET) - b2z (gat 0 (fixed s) r1 c1 =? TARGET) else 0).
Proof. exact (step_on_target G T dense s a). Qed.
Print Assumptions C08_Sokoban_on_target_change.
Theorem C08_Sokoban_count_is_declarative G vr fx : wf_grid G vr -> wf_grid G fx -> count_targets vr fx = on_target G vr fx.
Proof. exact (count_targets_on_target G vr fx). Qed.
Example C08_Sokoban_nonvacuous :
  cnt_of (run 10 120 true (fst gen_simple) solve_simple) = N_BOXES
  /\ types 10 120 true (fst gen_simple) solve_simple = repeat MID 9 ++ [LAST]
  /\ zsum (rewards 10 120 true (fst gen_simple) solve_simple) = 130
  /\ zsum (rewards 10 120 false (fst gen_simple) solve_simple) = 100.
Proof. exact simple_solvable. Qed.
