(* C08 Sokoban over the SOURCE-TRANSLATED step (Gen/SokobanSrc.v; see C09_Sokoban_Source.v, whose C08 theorem ties both translated reward
   functions to the model's): the dense and the sparse reward function drive the same trajectory of the translated step, for every action
   sequence -- the reward function never influences the dynamics. *)
Require Import JV.Base.Prelude JV.Base.JaxIndex JV.Base.Codec JV.Base.TimeStep JV.Gen.TimeStepSrc JV.Gen.SokobanSrc JV.Proofs.Sokoban_Src.
Require JV.Model.Sokoban.
Theorem C08_Sokoban_Source_same_trajectory T acts s : conv (run_src T true s acts) = conv (run_src T false s acts).
Proof. exact (src_same_trajectory T acts s). Qed.
Print Assumptions C08_Sokoban_Source_same_trajectory.
