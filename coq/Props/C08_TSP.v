(* C08 TSP: for EVERY distance function dist : Z -> Z -> Z (no metric property is used) and every number of cities: from the
   reset state, every mask-respecting episode run to termination visits a permutation T of all the cities in exactly
   num_cities steps, its final trajectory is T, and the return under BOTH reward functions is minus the closed tour length
   of T, closing edge last -> first included (closed_len = sum of consecutive distances + dist (last T) (first T));
   hence dense and sparse agree.  The dense rewards telescope from ANY consistent state.  The code's rolled sum
   compute_tour_length is closed_len.  Arithmetic: exact (rid); in float32 the dense closing reward is one rounded addition
   and the sparse reward a rounded n-term sum - the harness compares those within 1 resp. n ulps, and exactly on instances
   where float32 arithmetic is exact. *)
Require Import JV.Base.Prelude JV.Base.JaxIndex JV.Base.Codec JV.Base.TimeStep JV.Model.TSP JV.Proofs.TSP_lists JV.Proofs.TSP.
From Coq Require Import Permutation.
Theorem C08_TSP_return n pen dist c acts : 0 <= n ->
  let s0 := fst (init n c) in
  legal_run n pen dist rid true s0 acts -> ended (run n pen dist rid true s0 acts) ->
  exists T, Permutation T (zrange n) /\ NoDup T
    /\ final (run n pen dist rid true s0 acts) s0 = view n c T /\ final (run n pen dist rid false s0 acts) s0 = view n c T
    /\ traj (view n c T) = T
    /\ length (run n pen dist rid true s0 acts) = Z.to_nat n
    /\ ret (run n pen dist rid true s0 acts) = - closed_len dist T
    /\ ret (run n pen dist rid false s0 acts) = - closed_len dist T.
Proof. intro Hn. exact (C08_return n pen dist Hn c acts). Qed.
Print Assumptions C08_TSP_return.
Theorem C08_TSP_dense_telescope n pen dist s acts : 0 <= n -> Inv n s ->
  legal_run n pen dist rid false s acts -> ended (run n pen dist rid false s acts) ->
  exists T, good n T /\ zlen T = n /\ final (run n pen dist rid false s acts) s = view n (coords s) T
    /\ ret (run n pen dist rid false s acts) = - (closed_len dist T - path_len dist (tour_of s)).
Proof. intro Hn. exact (C08_dense_telescope n pen dist Hn s acts). Qed.
Theorem C08_TSP_code_tour_length dist n l : Forall (fun c => 0 <= c < n) l -> tour_length n dist l = closed_len dist l.
Proof. exact (tour_length_closed dist n l). Qed.
Print Assumptions C08_TSP_dense_telescope.
(* float32: with the binary32 rounding of the closing sum the model IS the exact model when all codes are below 2^22 *)
Theorem C08_TSP_float32_exact_on_small_codes sparse n pen dist s a :
  (forall i j, 0 <= dist i j < 4194304) -> 0 <= pen < 4194304 -> step_r rne24 sparse n pen dist s a = step sparse n pen dist s a.
Proof. exact (float_step_exact sparse n pen dist s a). Qed.
Print Assumptions C08_TSP_float32_exact_on_small_codes.
Example C08_TSP_nonvacuous :
  let s0 := fst (init 4 [0; 0; 3; 0; 7; 0; 12; 0]) in
  legal_run 4 99 ex_dist rid true s0 [2; 0; 3; 1] /\ ended (run 4 99 ex_dist rid true s0 [2; 0; 3; 1])
  /\ map (fun p => reward (snd p)) (run 4 99 ex_dist rid false s0 [2; 0; 3; 1]) = [[0]; [-7]; [-12]; [-13]]
  /\ map (fun p => reward (snd p)) (run 4 99 ex_dist rid true s0 [2; 0; 3; 1]) = [[0]; [0]; [0]; [-32]]
  /\ ret (run 4 99 ex_dist rid false s0 [2; 0; 3; 1]) = -32 /\ closed_len ex_dist [2; 0; 3; 1] = 32.
Proof. vm_compute. repeat split; try reflexivity; try discriminate; intuition (try discriminate; try lia). Qed.
