(* C08 Tetris: the return is the score kept in the state: over ANY run, score' = score + sum of the emitted rewards; each
   reward is REWARD_LIST[number of cleared lines] for a mask-true action and 0 otherwise (C03_Tetris_protocol, last clause). *)
Require Import JV.Base.Prelude JV.Base.JaxIndex JV.Base.Codec JV.Base.TimeStep JV.Gen.TetrisConsts JV.Model.Tetris.
Require Import JV.Proofs.Tetris JV.Proofs.Tetris_place JV.Proofs.Tetris_clear JV.Proofs.Tetris_phys JV.Proofs.Tetris_step.
Theorem C08_Tetris_return_is_score nr nc tl l s :
  Shape nr nc (grid s) -> 1 <= nr -> 1 <= nc ->
  let '(s', ts) := run nr nc tl s l in
  step_count s' = step_count s + zlen l /\ zlen ts = zlen l
  /\ score s' = score s + zsum (map (fun t => zsum (reward t)) ts)
  /\ (all_mid ts -> step_count s' < tl \/ l = [])
  /\ (forall k, 0 <= k < zlen l -> tl <= step_count s + k + 1 -> st (znth (restart 1) ts k) = LAST).
Proof. exact (run_counter nr nc tl l s). Qed.
Print Assumptions C08_Tetris_return_is_score.
Theorem C08_Tetris_reward_table nr nc tl s rot x d :
  Shape nr nc (grid s) -> 1 <= nr -> 1 <= nc ->
  let '(s', ts, _) := step nr nc tl s rot x d in
  reward ts = [rew s'] /\ score s' = score s + rew s'
  /\ rew s' = jget 0 REWARD_LIST (lines nr nc s rot x) * b2z (gget false (amask s) rot x).
Proof.
  intros HS Hnr Hnc. pose proof (step_type_cases nr nc tl s rot x d HS Hnr Hnc) as H.
  destruct (step nr nc tl s rot x d) as [[s' ts] o]. exact (proj2 (proj2 (proj2 (proj2 H)))).
Qed.
Print Assumptions C08_Tetris_reward_table.
(* at most four lines are cleared by one piece, so the REWARD_LIST lookup never relies on gather clamping *)
Theorem C08_Tetris_lines_le_4 nr nc s rot x :
  Physical nr nc s -> 4 <= nr -> 4 <= nc -> 0 <= x < nc -> 0 <= lines nr nc s rot x <= 4.
Proof. exact (lines_le_4 nr nc s rot x 0). Qed.
Print Assumptions C08_Tetris_lines_le_4.
Example C08_Tetris_nonvacuous :
  let '(s', ts) := run 4 4 9 ex_s0 [(1, 0, 3); (0, 0, 0)] in score s' = 40 /\ map reward ts = [[40]; [0]] /\ REWARD_LIST = [0; 40; 100; 300; 1200].
Proof. vm_compute. repeat split; reflexivity. Qed.
