(* C09 BinPack.  The published rules of BinPack ARE the EMS procedure; as agreed for this environment the property is carried by
   the correspondence of the full step (incl. _update_ems) between the code and the executable model [step] (harness: every
   rollout transition, every action of small action spaces, both reward functions, bit-exact), together with the declarative
   consequences proved about that model: C04 (mask = legality), C05 (invalid pairs), C06 (what _update_ems guarantees), C08, C11.
   Here: the structural facts of a legal step, and one documented-behaviour deviation witnessed on the model (and met by the
   harness on the real code): the docstring of Generator.max_num_ems says "Any created ems that do not fit in the buffer will be
   ignored", but jnp.argmin(ems_mask) is 0 when every slot is taken, so a new EMS OVERWRITES slot 0 instead of being dropped
   (harmless for the constraints: C06 holds for it). *)
Require Import JV.Base.Prelude JV.Base.JaxIndex JV.Base.Codec JV.Base.TimeStep JV.Model.BinPack JV.Proofs.BinPack_lib JV.Proofs.BinPack JV.Proofs.BinPack_obs JV.Proofs.BinPack_ems.
(* a concrete instance: container 4x2x2, two items 2x2x2 and one 3x2x2, buffer of 4 EMSs, 2 observed *)
Definition ex_c := make_container 4 2 2.
Definition ex_items := [mkIt 2 2 2; mkIt 2 2 2; mkIt 3 2 2].
Definition ex_s0 := fst (init 2 ex_c 4 ex_items [true; true; true]).
Definition ex_s1 := fst (step 2 false ex_s0 0 0).
Definition ex_s2 := fst (step 2 false ex_s1 0 1).
Theorem C09_BinPack_legal_step_fields n m s k a :
  shape n m s -> 0 <= a < n -> 0 <= k < m ->
  let s' := pack_item s k a in
  container s' = container s /\ items s' = items s /\ items_mask s' = items_mask s /\
  items_placed s' = jset (items_placed s) a true /\
  items_loc s' = jset (items_loc s) a (corner (ems_at s k)) /\
  ems s' = fst (update_ems (ems s) (ems_mask s) (new_item_space s k a)) /\
  ems_mask s' = snd (update_ems (ems s) (ems_mask s) (new_item_space s k a)).
Proof. exact (pack_item_fields n m s k a). Qed.
(* after a legal step every ACTIVE EMS of the new state is an old active EMS untouched by the new item, or a non-empty half-space
   cut (hyper d item e) of an old active EMS e that the new item intersects; see C06_BinPack_update_ems_origin for what a cut is *)
Theorem C09_BinPack_new_ems_origin n m s k a j :
  shape n m s -> 0 <= a < n -> 0 <= k < m ->
  emask_at (pack_item s k a) j = true ->
  let isp := new_item_space s k a in let e' := ems_at (pack_item s k a) j in
  (exists i, nth i (ems_mask s) false = true /\ e' = nth i (ems s) sp0 /\ sp_intersect isp e' = false) \/
  (exists i d, nth i (ems_mask s) false = true /\ sp_intersect isp (nth i (ems s) sp0) = true /\
               e' = hyper d isp (nth i (ems s) sp0) /\ sp_empty e' = false).
Proof. exact (pack_item_ems_origin n m s k a j). Qed.
Print Assumptions C09_BinPack_legal_step_fields.
Print Assumptions C09_BinPack_new_ems_origin.
(* buffer of ONE slot, container 2x2x2, item 1x1x1: the three new EMSs (x >= 1, y >= 1, z >= 1) are written one over the other
   into slot 0; the first two are lost although the docstring says the ones that do not fit are ignored *)
Example C09_BinPack_full_buffer_overwrites_slot0 :
  let s0 := fst (init 1 (make_container 2 2 2) 1 [mkIt 1 1 1] [true]) in
  let s1 := fst (step 1 false s0 0 0) in
  ems s0 = [mkSp 0 2 0 2 0 2] /\ ems s1 = [mkSp 0 2 0 2 1 2] /\ ems_mask s1 = [true] /\ Packing_b s1 = true.
Proof. vm_compute. repeat split; reflexivity. Qed.
(* the only EMS after the first step of the example is the x >= 2 cut of the container (the y / z cuts are empty) *)
Example C09_BinPack_origin_nonvacuous :
  shape_b 3 4 ex_s0 = true /\ emask_at (pack_item ex_s0 0 0) 0 = true /\ new_item_space ex_s0 0 0 = mkSp 0 2 0 2 0 2
  /\ ems_at (pack_item ex_s0 0 0) 0 = hyper XU (new_item_space ex_s0 0 0) (nth 0 (ems ex_s0) sp0)
  /\ ems_at (pack_item ex_s0 0 0) 0 = mkSp 2 4 0 2 0 2 /\ sp_empty (hyper YU (new_item_space ex_s0 0 0) ex_c) = true.
Proof. vm_compute. repeat split; reflexivity. Qed.
Example C09_BinPack_nonvacuous :
  ems ex_s1 = [mkSp 2 4 0 2 0 2; sp0; sp0; sp0] /\ ems_mask ex_s1 = [true; false; false; false]
  /\ items_loc ex_s1 = [loc0; loc0; loc0] /\ items_placed ex_s1 = [true; false; false].
Proof. vm_compute. repeat split; reflexivity. Qed.
