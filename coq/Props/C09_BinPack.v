(* C09 BinPack.  The published rules of BinPack ARE the EMS procedure; as agreed for this environment the property is carried by
   the correspondence of the full step (incl. _update_ems) between the code and the executable model [step] (harness: every
   rollout transition, every action of small action spaces, both reward functions, bit-exact), together with the declarative
   consequences proved about that model: C04 (mask = legality), C05 (invalid pairs), C06 (what _update_ems guarantees), C08, C11.
   Here: the structural facts of a legal step, and one documented-behaviour deviation witnessed on the model (and met by the
   harness on the real code): the docstring of Generator.max_num_ems says "Any created ems that do not fit in the buffer will be
   ignored", but jnp.argmin(ems_mask) is 0 when every slot is taken, so a new EMS OVERWRITES slot 0 instead of being dropped
   (harmless for the constraints: C06 holds for it). *)
Require Import JV.Base.Prelude JV.Base.JaxIndex JV.Base.Codec JV.Base.TimeStep JV.Model.BinPack JV.Proofs.BinPack_lib JV.Proofs.BinPack JV.Proofs.BinPack_obs.
(* a concrete instance: container 4x2x2, two items 2x2x2 and one 3x2x2, buffer of 4 EMSs, 2 observed *)
Definition ex_c := make_container 4 2 2.
Definition ex_items := [mkIt 2 2 2; mkIt 2 2 2; mkIt 3 2 2].
Definition ex_s0 := fst (init 2 ex_c 4 ex_items [true; true; true]).
Definition ex_s1 := fst (step 2 false ex_s0 0 0).
Definition ex_s2 := fst (step 2 false ex_s1 0 1).
Theorem C09_BinPack_legal_step_fields n m s k a :
  shape n m s -> 0 <= a < n -> 0 <= k < m ->
  let s' := pack_item s k a in
  container s' = container s /\ items s' = items s /\ items_mask s' = items_mask s /\
  items_placed s' = jset (items_placed s) a true /\
  items_loc s' = jset (items_loc s) a (corner (ems_at s k)) /\
  ems s' = fst (update_ems (ems s) (ems_mask s) (new_item_space s k a)) /\
  ems_mask s' = snd (update_ems (ems s) (ems_mask s) (new_item_space s k a)).
Proof. exact (pack_item_fields n m s k a). Qed.
Print Assumptions C09_BinPack_legal_step_fields.
(* buffer of ONE slot, container 2x2x2, item 1x1x1: the three new EMSs (x >= 1, y >= 1, z >= 1) are written one over the other
   into slot 0; the first two are lost although the docstring says the ones that do not fit are ignored *)
Example C09_BinPack_full_buffer_overwrites_slot0 :
  let s0 := fst (init 1 (make_container 2 2 2) 1 [mkIt 1 1 1] [true]) in
  let s1 := fst (step 1 false s0 0 0) in
  ems s0 = [mkSp 0 2 0 2 0 2] /\ ems s1 = [mkSp 0 2 0 2 1 2] /\ ems_mask s1 = [true] /\ Packing_b s1 = true.
Proof. vm_compute. repeat split; reflexivity. Qed.
Example C09_BinPack_nonvacuous :
  ems ex_s1 = [mkSp 2 4 0 2 0 2; sp0; sp0; sp0] /\ ems_mask ex_s1 = [true; false; false; false]
  /\ items_loc ex_s1 = [loc0; loc0; loc0] /\ items_placed ex_s1 = [true; false; false].
Proof. vm_compute. repeat split; reflexivity. Qed.
