(* C09 CVRP: on every state satisfying the invariant (all reachable states, C06) and every in-spec node, the model of the code
   (clamping gathers, dropping scatters, lax.cond/select, both reward functions) computes exactly the published rules
   [step_rules]: a legal node is visited - the depot refills the vehicle, a customer's demand leaves the capacity, the visit is
   recorded while the 2n-slot trajectory array has a free slot - the episode ends when every customer is served and the vehicle
   is back at the depot; an illegal node ends the episode with the penalty and changes nothing.  The only write that can fall
   outside the trajectory array is the (2n+1)-th visit, which is always the final return to the depot. *)
Require Import JV.Base.Prelude JV.Base.JaxIndex JV.Base.Codec JV.Base.TimeStep JV.Model.CVRP JV.Proofs.CVRP.
Theorem C09_CVRP_step_is_rules dist (dist00 : dist 0 0 = 0) n mc s h sp pen a :
  1 <= n -> 0 <= mc -> Inv n mc s h -> 0 <= a <= n -> step sp mc pen dist s a = step_rules sp n mc pen dist s a.
Proof. exact (C09_step_is_rules dist dist00 n mc s h sp pen a). Qed.
Print Assumptions C09_CVRP_step_is_rules.
Theorem C09_CVRP_trajectory_records_route n mc s h a : 1 <= n -> 0 <= mc -> Inv n mc s h -> 0 <= a <= n -> valid s a = true ->
  traj_ok (2 * n) (a :: h) (traj (update mc s a)).
Proof. intros Hn Hmc I Ha V. apply (step_valid_Inv n mc s h a Hn Hmc I Ha V). Qed.
Theorem C09_CVRP_dropped_write_is_depot L h t : traj_ok L h t -> zlen h = L -> hd 1 h = 0.
Proof. intros [[H1 _]|[_ [H2 _]]] E; [lia|exact H2]. Qed.
Example C09_CVRP_nonvacuous :
  let d := fun i j => 10 * Z.abs (i - j) in
  let s := mkS [0; 2; 2] 2 1 [false; true; true] [0; 1; 0; 2] 4 in
  step_rules false 2 3 99 d s 0 = (mkS [0; 2; 2] 0 3 [true; true; true] [0; 1; 0; 2] 5, termination 1 [-20])
  /\ step_rules true 2 3 99 d s 0 = (mkS [0; 2; 2] 0 3 [true; true; true] [0; 1; 0; 2] 5, termination 1 [-60])
  /\ step_rules false 2 3 99 d s 1 = (s, termination 1 [-99]).
Proof. vm_compute. repeat split; reflexivity. Qed.
