(* C09 CVRP over the environment AS TRANSLATED FROM /repo's CURRENT SOURCE on every run (Gen/CvrpSrc.v, from the `ast` of cvrp/env.py, types.py,
   constants.py: the STATE part of `step`, `_update_state` -- refill at the depot, subtract the demand elsewhere, un-visit the depot, mark
   the node, the trajectory scatter --, the whole `_state_to_observation`).  The reward function is a parameter (float distances) and is
   instantiated with the model's reward.  Equality with the hand model for every state, action, rounding and distance oracle. *)
Require Import JV.Base.Prelude JV.Base.JaxIndex JV.Base.Codec JV.Base.TimeStep JV.Gen.TimeStepSrc JV.Gen.CvrpSrc JV.Proofs.CVRP JV.Proofs.Cvrp_Src.
Require JV.Model.CVRP.
Theorem C09_CVRP_Source_step_is_model rnd sparse mc pen dist s a :
  let r := step mc (reward_model rnd sparse pen dist) s a in
  conv (fst r) = fst (JV.Model.CVRP.step_r rnd sparse mc pen dist (conv s) a) /\ snd r = snd (JV.Model.CVRP.step_r rnd sparse mc pen dist (conv s) a).
Proof. exact (step_src rnd sparse mc pen dist s a). Qed.
Print Assumptions C09_CVRP_Source_step_is_model.
Example C09_CVRP_Source_nonvacuous :
  let s := mkState [0; 0; 1; 1; 2; 2] [0; 2; 2] 0 3 [true; false; false] [0; 0; 0; 0] 1 in
  let rf := fun (_ : State) (_ : Z) (_ : State) (v : bool) => if v then 5 else -9 in
  s_capacity (fst (step 3 rf s 1)) = 1 /\ o_action_mask (state_to_observation 3 (fst (step 3 rf s 1))) = [true; false; false]
  /\ s_capacity (fst (step 3 rf (fst (step 3 rf s 1)) 0)) = 3 /\ st (snd (step 3 rf s 0)) = LAST.
Proof. vm_compute. repeat split; reflexivity. Qed.
