(* C09 Cleaner: on every state satisfying the invariant and every in-spec joint action, the Impl model of env.step
   (stored mask, clamping gathers, dropping scatters) computes exactly the Rules reference step: every agent whose
   action is legal moves one cell up/right/down/left, the others stay; every cell holding an agent becomes CLEAN; reward =
   tiles cleaned - penalty; LAST iff some action is illegal, nothing is dirty, or step_count reaches the limit; the new
   mask is the table of legal moves.  (Impl = implementation is checked by the harness on every transition.) *)
Require Import JV.Base.Prelude JV.Base.JaxIndex JV.Base.Codec JV.Base.TimeStep JV.Model.Cleaner JV.Proofs.Cleaner.
Theorem C09_Cleaner_step_eq_ref c s acts :
  Inv c s -> zlen acts = nag c -> in_spec acts -> step c s acts = ref_step c s acts.
Proof. exact (C09_step_eq_ref c s acts). Qed.
Print Assumptions C09_Cleaner_step_eq_ref.
Example C09_Cleaner_nonvacuous :
  Inv_b ex_cfg ex_s0 = true /\ step ex_cfg ex_s0 [1; 2] = ref_step ex_cfg ex_s0 [1; 2]
  /\ locs (fst (ref_step ex_cfg ex_s0 [1; 2])) = [(0, 1); (0, 0)] /\ st (snd (ref_step ex_cfg ex_s0 [1; 1])) = MID.
Proof. vm_compute. repeat split; reflexivity. Qed.
