(* C09 Cleaner over the environment AS TRANSLATED FROM /repo's CURRENT SOURCE on every run (Gen/CleanerSrc.v, from the `ast` of cleaner/env.py,
   types.py, constants.py: the whole multi-agent `step` -- `mask[arange(n), action]`, `where(valid[:, None], MOVES[action], 0)`, the
   index-array scatter that cleans the agents' tiles, the doubly vmapped mask, reward (in quarters), termination test -- and `reset`
   after the generator call).  The translated step equals the hand model for every grid, agent list, joint action and configuration. *)
Require Import JV.Base.Prelude JV.Base.JaxIndex JV.Base.Codec JV.Base.TimeStep JV.Gen.TimeStepSrc JV.Gen.CleanerSrc JV.Proofs.Cleaner JV.Proofs.Cleaner_Src.
Require JV.Model.Cleaner.
Theorem C09_Cleaner_Source_step_is_model R C N T pen s acts :
  let r := step R C T pen s acts in
  conv (fst r) = fst (JV.Model.Cleaner.step (JV.Model.Cleaner.mkC R C N T pen) (conv s) acts)
  /\ snd r = snd (JV.Model.Cleaner.step (JV.Model.Cleaner.mkC R C N T pen) (conv s) acts).
Proof. exact (step_src R C N T pen s acts). Qed.
Print Assumptions C09_Cleaner_Source_step_is_model.
Theorem C09_Cleaner_Source_reset_is_model R C N T pen s : s_step_count s = 0 ->
  conv (fst (reset_from R C s)) = fst (JV.Model.Cleaner.reset_of (JV.Model.Cleaner.mkC R C N T pen) (s_grid s) (s_agents_locations s))
  /\ snd (reset_from R C s) = snd (JV.Model.Cleaner.reset_of (JV.Model.Cleaner.mkC R C N T pen) (s_grid s) (s_agents_locations s)).
Proof. exact (reset_src R C N T pen s). Qed.
(* the translated step follows the published rules: every agent with a legal action moves, the others stay, tiles under agents become
   clean, reward = tiles cleaned - penalty, the episode ends on an illegal action / nothing dirty / the limit *)
Theorem C09_Cleaner_Source_step_follows_rules R C N T pen s acts :
  JV.Model.Cleaner.Inv (JV.Model.Cleaner.mkC R C N T pen) (conv s) -> zlen acts = N -> in_spec acts ->
  let r := step R C T pen s acts in
  (conv (fst r), snd r) = JV.Model.Cleaner.ref_step (JV.Model.Cleaner.mkC R C N T pen) (conv s) acts.
Proof. exact (src_step_follows_rules R C N T pen s acts). Qed.
Print Assumptions C09_Cleaner_Source_step_follows_rules.
Example C09_Cleaner_Source_nonvacuous :
  let g := [[1; 0; 0]; [2; 2; 0]] in
  let s0 := fst (reset_from 2 3 (mkState g [(0, 0); (0, 0)] [] 0)) in
  s_action_mask s0 = [[false; true; false; false]; [false; true; false; false]]
  /\ s_grid (fst (step 2 3 9 2 s0 [1; 1])) = [[1; 1; 0]; [2; 2; 0]] /\ reward (snd (step 2 3 9 2 s0 [1; 1])) = [2]
  /\ st (snd (step 2 3 9 2 s0 [1; 0])) = LAST.
Proof. vm_compute. repeat split; reflexivity. Qed.
