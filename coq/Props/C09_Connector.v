(* C09 Connector, PROVED for all sizes, every Physical state and every in-spec joint action:
     step c s acts = ref_step c s acts            (the max-join collision theorem)
   where step is the code's algorithm (all agents step on the OLD grid, per-agent grids filtered by agent index and
   joined by max, an agent whose POSITION value vanished from the join is reverted and its old cell bumped by
   POSITION - PATH) and ref_step the published rule stated sequentially: agents are processed from the HIGHEST id down,
   every agent is judged on the current grid, a legal move is carried out, anything else leaves agent and grid alone
   ("higher id wins, loser stays"); +connected reward on connection, timestep reward per unconnected agent, per-agent
   discount 0 for connected or blocked agents, LAST when all agents are done or at the limit, mask = table of legal
   moves.  The equality covers the successor state, the timestep and the masks, for ANY number of agents contending
   for one cell (proof: both sides equal a closed description -- agent k wins iff its move is legal on the old grid and
   no higher id proposes the same cell; Proofs/Connector_Join.v, Proofs/Connector_Step.v).
   Both step and ref_step are additionally compared with the real environment on every transition of the harness. *)
Require Import JV.Base.Prelude JV.Base.JaxIndex JV.Base.Codec JV.Base.TimeStep JV.Model.Connector JV.Proofs.Connector
  JV.Proofs.Connector_Step.
Theorem C09_Connector_step_is_reference_step c s acts :
  Physical c s -> wf c s acts -> in_spec acts -> step c s acts = ref_step c s acts.
Proof. exact (step_eq_ref_step c s acts). Qed.
Theorem C09_Connector_simultaneous_is_sequential c s acts :
  Physical c s -> wf c s acts -> in_spec acts ->
  step_agents (gsz c) (nag c) (grid s) (agents s) acts = seq_agents (gsz c) (grid s) (agents s) acts.
Proof. exact (step_agents_is_seq c s acts). Qed.
Theorem C09_Connector_step_type c s acts :
  st (tsof c s acts) = if fin c s acts then LAST else MID.
Proof. exact (step_type c s acts). Qed.
Theorem C09_Connector_agents c s acts k :
  wf c s acts -> 0 <= k < nag c -> dims (gsz c) (grid s) -> 0 <= znth 0 acts k <= 4 ->
  let o := znth dflt (agents s) k in let n := znth dflt (agents (next c s acts)) k in
  n = o \/ (aid n = aid o /\ astart n = astart o /\ atarget n = atarget o /\ 1 <= znth 0 acts k
            /\ apos n = padd (apos o) (dir (znth 0 acts k)) /\ in_grid (gsz c) (apos n) = true
            /\ (cell (grid s) (apos n) = EMPTY \/ cell (grid s) (apos n) = tgtv (aid o)) /\ connected o = false).
Proof. exact (agent_step_cases c s acts k). Qed.
Print Assumptions C09_Connector_step_is_reference_step.
Print Assumptions C09_Connector_simultaneous_is_sequential.
Print Assumptions C09_Connector_agents.
Example C09_Connector_nonvacuous :
  let c := mkC 3 3 9 100 (-3) in
  (Physical c ex_s3 /\ wf c ex_s3 [3; 2; 4] /\ in_spec [3; 2; 4])
  /\ step c ex_s3 [3; 2; 4] = ref_step c ex_s3 [3; 2; 4]
  /\ grid (fst (fst (step c ex_s3 [3; 2; 4]))) = [[0; 2; 0]; [5; 8; 7]; [3; 6; 9]]
  /\ map apos (agents (fst (fst (step c ex_s3 [3; 2; 4])))) = [(0, 1); (1, 0); (1, 1)]
  /\ Physical_b c ex_s3 = true /\ Physical_b c (fst (fst (step c ex_s3 [3; 2; 4]))) = true.
Proof.
  cbv zeta. split; [|exact ex_contest].
  split; [apply Physical_b_spec; vm_compute; reflexivity|]. split; [vm_compute; repeat split; discriminate|repeat constructor; lia].
Qed.
