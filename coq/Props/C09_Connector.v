(* C09 Connector.  PROVED for all sizes: step type / termination causes (C11), rewards (C08), discounts (C03), masks (C04),
   illegal = no-op (C05), per-agent movement rule (C06).
   Full statement (comment; _partial): Physical c s -> wf c s acts -> Forall (0 <= a <= 4) acts ->
     step c s acts = ref_step c s acts
   where step is the code's algorithm (all agents step on the OLD grid, per-agent grids filtered and max-joined, an agent
   whose POSITION value vanished from the join is reverted and its old cell bumped by POSITION - PATH) and ref_step the
   sequential rule "highest id first, every agent judged on the current grid, loser stays".  The equality is checked by
   evaluation on examples below (a 3-way contest) and by correspondence: both step and ref_step are compared with the
   real environment on every transition of the harness, with 2-, 3- and 4-way contests constructed directly. *)
Require Import JV.Base.Prelude JV.Base.JaxIndex JV.Base.Codec JV.Base.TimeStep JV.Model.Connector JV.Proofs.Connector.
Theorem C09_Connector_step_type_partial c s acts :
  st (tsof c s acts) = if fin c s acts then LAST else MID.
Proof. exact (step_type c s acts). Qed.
Theorem C09_Connector_agents_partial c s acts k :
  wf c s acts -> 0 <= k < nag c -> dims (gsz c) (grid s) -> 0 <= znth 0 acts k <= 4 ->
  let o := znth dflt (agents s) k in let n := znth dflt (agents (next c s acts)) k in
  n = o \/ (aid n = aid o /\ astart n = astart o /\ atarget n = atarget o /\ 1 <= znth 0 acts k
            /\ apos n = padd (apos o) (dir (znth 0 acts k)) /\ in_grid (gsz c) (apos n) = true
            /\ (cell (grid s) (apos n) = EMPTY \/ cell (grid s) (apos n) = tgtv (aid o)) /\ connected o = false).
Proof. exact (agent_step_cases c s acts k). Qed.
Print Assumptions C09_Connector_agents_partial.
Example C09_Connector_nonvacuous :
  let c := mkC 3 3 9 100 (-3) in
  step c ex_s3 [3; 2; 4] = ref_step c ex_s3 [3; 2; 4]
  /\ grid (fst (fst (step c ex_s3 [3; 2; 4]))) = [[0; 2; 0]; [5; 8; 7]; [3; 6; 9]]
  /\ map apos (agents (fst (fst (step c ex_s3 [3; 2; 4])))) = [(0, 1); (1, 0); (1, 1)]
  /\ Physical_b c ex_s3 = true /\ Physical_b c (fst (fst (step c ex_s3 [3; 2; 4]))) = true.
Proof. exact ex_contest. Qed.
