(* C09 FlatPack: the transition follows the published rules.  rotate_block(b, k) = k clockwise quarter turns (index
   clamped like lax.switch); the expanded block is the block copied at the start index normalised and clamped by
   dynamic_update_slice; the code's whole-grid overlap test equals the 3x3-window test of the model; for an in-spec
   action the step is: legal -> every cell gets the block's footprint added and exactly that block becomes placed,
   not legal -> grid and placed blocks unchanged. *)
Require Import JV.Base.Prelude JV.Base.JaxIndex JV.Base.Codec JV.Base.TimeStep JV.Model.FlatPack JV.Proofs.FlatPack JV.Proofs.FlatPack_Pack.
Theorem C09_FlatPack_rotate_is_quarter_turns b k : is3x3 b = true -> 0 <= k < 4 -> rotate b k = qturns (Z.to_nat k) b.
Proof. exact (rotate_qturns b k). Qed.
Theorem C09_FlatPack_quarter_turn_cells b i j : 0 <= i < 3 -> 0 <= j < 3 -> cell (qturn b) i j = cell b (2 - j) i.
Proof. exact (cell_qturn b i j). Qed.
Theorem C09_FlatPack_four_turns_identity b : is3x3 b = true -> qturns 4 b = b.
Proof. exact (four_quarter_turns b). Qed.
Theorem C09_FlatPack_rotate_clamps b k : rotate b k = rotate b (Z.max 0 (Z.min 3 k)).
Proof. exact (rotate_clamps b k). Qed.
Theorem C09_FlatPack_expand_cells R C blk r c i j : 0 <= i < R -> 0 <= j < C ->
  cell (expand R C blk r c) i j =
  if in_win (dyn_start R 3 r) (dyn_start C 3 c) i j then cell blk (i - dyn_start R 3 r) (j - dyn_start C 3 c) else 0.
Proof. exact (cell_expand R C blk r c i j). Qed.
Theorem C09_FlatPack_overlap_test_whole_grid R C g blk r c : 3 <= R -> 3 <= C ->
  overlap_free_full R C g (expand R C blk r c) = overlap_free g blk (dyn_start R 3 r) (dyn_start C 3 c).
Proof. exact (overlap_free_full_eq R C g blk r c). Qed.
Theorem C09_FlatPack_step_rule cf s b k r c i j :
  StateOK cf s -> in_space cf (b, k, r, c) -> 0 <= i < cR cf -> 0 <= j < cC cf ->
  let s' := fst (step cf s b k r c) in
  (legal cf (grid s) (blocks s) (placed s) (b, k, r, c) ->
     cell (grid s') i j = cell (grid s) i j + pcell (blocks s) (b, k, r, c) i j /\
     (forall b', 0 <= b' < cN cf -> znth false (placed s') b' = if b' =? b then true else znth false (placed s) b')) /\
  (~ legal cf (grid s) (blocks s) (placed s) (b, k, r, c) -> grid s' = grid s /\ placed s' = placed s).
Proof. exact (step_rule cf s b k r c i j). Qed.
Print Assumptions C09_FlatPack_step_rule.
Print Assumptions C09_FlatPack_overlap_test_whole_grid.
Example C09_FlatPack_nonvacuous :
  rotate [[1;2;3];[4;5;6];[7;8;9]] 1 = [[7;4;1];[8;5;2];[9;6;3]] /\
  expand 4 5 [[1;2;3];[4;5;6];[7;8;9]] (-1) 9 = [[0;0;0;0;0];[0;0;1;2;3];[0;0;4;5;6];[0;0;7;8;9]].
Proof. vm_compute. split; reflexivity. Qed.
