(* C09 Game2048: transitions follow the published rules.
   (1) row loop, for EVERY row length and every tile value: the two-index while_loop of move_left_row terminates within its
       fuel and equals "compress, merge equal neighbours left to right once, pad", its reward is the sum of the merged tiles;
       can_move_left_row (non-negative exponents) answers "does sliding change this row";
   (2) board: move = slide every line of the direction (transform_board is an involution on n x n boards);
   (3) whole step: Impl.step = Rules.step on every state satisfying Inv, for every action, legal or not, and reset likewise. *)
Require Import JV.Base.Prelude JV.Base.JaxIndex JV.Base.Codec JV.Base.TimeStep JV.Model.Game2048
  JV.Proofs.Game2048_Row JV.Proofs.Game2048_Board JV.Proofs.Game2048.
Theorem C09_Game2048_row_loop r : move_left_row r = Some (slide r, row_reward r).
Proof. exact (move_left_row_spec r). Qed.
Print Assumptions C09_Game2048_row_loop.
Theorem C09_Game2048_row_can_move r : Forall (fun e => 0 <= e) r ->
  can_move_left_row r = Some (negb (row_eqb (slide r) r)).
Proof. exact (can_move_left_row_spec r). Qed.
Print Assumptions C09_Game2048_row_can_move.
Theorem C09_Game2048_move n b a : move n b a = Some (spec_move n b a, spec_reward n b a).
Proof. exact (move_spec n b a). Qed.
Print Assumptions C09_Game2048_move.
Theorem C09_Game2048_transform_involution n b a : wf n b -> transform n (transform n b a) a = b.
Proof. exact (transform_invol n b a). Qed.
Print Assumptions C09_Game2048_transform_involution.
Theorem C09_Game2048_step n s a idx v : Inv n s -> 0 <= a < 4 -> (legal_b n (board s) a = true -> 0 <= v) ->
  step n s a idx v = Some (rules_step n s a idx v).
Proof. exact (step_rules n s a idx v). Qed.
Print Assumptions C09_Game2048_step.
Theorem C09_Game2048_reset n idx v : 0 <= v -> init n idx v = Some (rules_init n idx v).
Proof. exact (init_rules n idx v). Qed.
Print Assumptions C09_Game2048_reset.
(* termination flag: the step is LAST exactly when the new board has no legal direction *)
Theorem C09_Game2048_done n s a idx v s' t : Inv n s -> 0 <= a < 4 -> (legal_b n (board s) a = true -> 0 <= v) ->
  step n s a idx v = Some (s', t) -> (st t = LAST <-> forall a', 0 <= a' < 4 -> ~ legal n (board s') a').
Proof. exact (last_iff_stuck n s a idx v s' t). Qed.
Print Assumptions C09_Game2048_done.
(* Inv holds after reset and after every step *)
Theorem C09_Game2048_inv_reset n idx v s t : 0 <= v -> init n idx v = Some (s, t) -> Inv n s.
Proof. exact (init_Inv n idx v s t). Qed.
Theorem C09_Game2048_inv_step n s a idx v s' t : Inv n s -> 0 <= a < 4 -> (legal_b n (board s) a = true -> 0 <= v) ->
  step n s a idx v = Some (s', t) -> Inv n s'.
Proof. exact (step_Inv n s a idx v s' t). Qed.
Print Assumptions C09_Game2048_inv_step.
Example C09_Game2048_nonvacuous :
  amask ex_state = [true; true; true; true]
  /\ spec_move 4 ex_board 3 = [[2;3;0;0];[2;0;0;0];[3;0;0;0];[0;0;0;0]]
  /\ spec_reward 4 ex_board 3 = 16
  /\ valid_draw 4 (spec_move 4 ex_board 3) 15 2 = true
  /\ (exists s' t, step 4 ex_state 3 15 2 = Some (s', t) /\ st t = MID /\ reward t = [16]
                   /\ board s' = [[2;3;0;0];[2;0;0;0];[3;0;0;0];[0;0;0;2]] /\ score s' = 16).
Proof. exact ex_facts. Qed.
Example C09_Game2048_nonvacuous_inv : Inv 4 ex_state.
Proof. exact ex_Inv. Qed.
