(* C09 Game2048 over the SOURCE-TRANSLATED environment glue (Gen/Game2048Src.v, regenerated from /repo on every run: step, reset, _generate_board,
   _add_random_cell, _get_action_mask; utils.move / utils.can_move are parameters, hand-modelled): (1) for ANY move / can_move functions that
   agree with the model's fuelled loops on the boards that occur, and any PRNG oracles, the translated step IS the hand model's step on the
   draw the position oracle returns for the plane the code hands it; (2) instantiated with the model's functions (move = the specified slide,
   proved equal to the loop on every board; can_move = the loop, proved total) it is the step prescribed by the rules, and LAST exactly when
   no move is legal on the new board. *)
Require Import JV.Base.Prelude JV.Base.JaxIndex JV.Base.Codec JV.Base.TimeStep JV.Gen.TimeStepSrc JV.Gen.Game2048Src JV.Proofs.Game2048_Row JV.Proofs.Game2048_Board JV.Proofs.Game2048 JV.Proofs.Game2048_Src.
Require JV.Model.Game2048.
Theorem C09_Game2048_Source_step_is_model n (mv : list (list Z) -> Z -> list (list Z) * Z) cm di dv s a :
  JV.Model.Game2048.move n (s_board s) a = Some (mv (s_board s) a) ->
  let mb := fst (mv (s_board s) a) in
  let idx := di (empties mb) in
  let b' := if jget false (s_action_mask s) a then JV.Model.Game2048.add_cell n mb idx dv else mb in
  (forall k, In k [0; 1; 2; 3] -> JV.Model.Game2048.can_move n b' k = Some (cm b' k)) ->
  let r := step n mv cm di dv s a in
  JV.Model.Game2048.step n (conv s) a idx dv = Some (conv (fst r), snd r).
Proof. exact (step_src n mv cm di dv s a). Qed.
Print Assumptions C09_Game2048_Source_step_is_model.
Theorem C09_Game2048_Source_reset_is_model n (mv : list (list Z) -> Z -> list (list Z) * Z) cm di dv :
  let b0 := JV.Model.Game2048.zeros_board n in
  let idx := di (empties b0) in
  (forall k, In k [0; 1; 2; 3] -> JV.Model.Game2048.can_move n (JV.Model.Game2048.add_cell n b0 idx dv) k
                                  = Some (cm (JV.Model.Game2048.add_cell n b0 idx dv) k)) ->
  let r := reset n cm di dv tt in
  JV.Model.Game2048.init n idx dv = Some (conv (fst r), snd r).
Proof. exact (reset_src n mv cm di dv). Qed.
Theorem C09_Game2048_Source_step_follows_rules n di dv s a :
  Inv n (conv s) -> 0 <= a < 4 -> (JV.Model.Game2048.legal_b n (s_board s) a = true -> 0 <= dv) ->
  (conv (fst (step n (mv_model n) (cm_model n) di dv s a)), snd (step n (mv_model n) (cm_model n) di dv s a))
  = JV.Model.Game2048.rules_step n (conv s) a (idx_of n di s a) dv.
Proof. exact (src_step_rules n di dv s a). Qed.
Print Assumptions C09_Game2048_Source_step_follows_rules.
Theorem C09_Game2048_Source_last_iff_stuck n di dv s a :
  Inv n (conv s) -> 0 <= a < 4 -> (JV.Model.Game2048.legal_b n (s_board s) a = true -> 0 <= dv) ->
  (st (snd (step n (mv_model n) (cm_model n) di dv s a)) = LAST
   <-> forall a', 0 <= a' < 4 -> ~ JV.Model.Game2048.legal n (s_board (fst (step n (mv_model n) (cm_model n) di dv s a))) a').
Proof. exact (src_last_iff_stuck n di dv s a). Qed.
Example C09_Game2048_Source_nonvacuous :
  let s := mkState [[1; 1]; [0; 2]] 3 [true; true; true; true] 4 in
  let r := step 2 (mv_model 2) (cm_model 2) (fun _ => 1) 1 s 3 in       (* move left: [[2;0];[2;0]] then a new 1 at flat index 1 *)
  s_board (fst r) = [[2; 1]; [2; 0]] /\ reward (snd r) = [4] /\ s_score (fst r) = 8 /\ st (snd r) = MID
  /\ s_action_mask (fst r) = [true; true; true; false].
Proof. vm_compute. repeat split; reflexivity. Qed.
