(* C09 GraphColoring: the model of the code (clamping gather on the mask, scatter of the colour, the (n+1)-slot scatter trick
   of _get_valid_actions with its -1 index, unique/count_nonzero, (cur+1) % n, lax.cond) computes, for every state of the
   weak invariant Inv0 (well-shaped symmetric loop-free graph, colours in [-1,n-1], node index in range, mask = the code's
   mask function of the state; true at reset, closed under EVERY in-spec action, legal or not, also after LAST) and every
   in-spec colour, exactly the published rules [rules_step], which mention no array indexing:
   colour the current node; go to the next node (node 0 after the last); show the colours no neighbour of that node has;
   a colour some neighbour already has ends the episode with reward -num_nodes; otherwise the episode ends when every node
   is coloured, with reward -(number of colours in use); otherwise it continues with reward 0. *)
Require Import JV.Base.Prelude JV.Base.JaxIndex JV.Base.Codec JV.Base.TimeStep JV.Model.GraphColoring JV.Proofs.GraphColoring
  JV.Proofs.GraphColoring_rules JV.Proofs.GraphColoring_episode JV.Proofs.GraphColoring_gen.
Theorem C09_GraphColoring_step_is_rules n s a :
  0 < n -> Inv0 n s -> 0 <= a < n -> step n s a = rules_step n s a.
Proof. exact (C09_step_is_rules n s a). Qed.
Print Assumptions C09_GraphColoring_step_is_rules.
Theorem C09_GraphColoring_inv0_init n adj0 : 0 < n -> graph_wf n adj0 -> Inv0 n (fst (init n adj0)).
Proof. exact (init_Inv0 n adj0). Qed.
Theorem C09_GraphColoring_inv0_step n s a : 0 < n -> Inv0 n s -> 0 <= a < n -> Inv0 n (fst (step n s a)).
Proof. exact (step_preserves_Inv0 n s a). Qed.
Print Assumptions C09_GraphColoring_inv0_step.
(* the code's unique(..., fill_value=-1) / count_nonzero(>= 0) is the number of colours of 0..n-1 that some node has *)
Theorem C09_GraphColoring_colour_count n colors :
  colors_wf n colors -> distinct_nonneg [] colors = colours_used n colors.
Proof. exact (distinct_is_colours_used n colors). Qed.
Example C09_GraphColoring_nonvacuous :
  let adj0 := gen_adj 4 [[false;false;false;false];[true;false;false;false];[false;true;false;false];[true;false;true;false]] in
  let s2 := fst (step 4 (fst (step 4 (fst (init 4 adj0)) 0)) 1) in
  edge adj0 0 1 = true /\ edge adj0 1 2 = true /\ edge adj0 0 3 = true /\ edge adj0 2 3 = true /\ edge adj0 0 2 = false
  /\ rules_step 4 s2 0 = (mkS adj0 [0; 1; 0; -1] 3 [false; true; true; true], transition 1 [0])
  /\ rules_step 4 s2 1 = (mkS adj0 [0; 1; 1; -1] 3 [false; false; true; true], termination 1 [-4])
  /\ rules_step 4 (fst (rules_step 4 s2 0)) 1 = (mkS adj0 [0; 1; 0; 1] 0 [true; false; true; true], termination 1 [-2])
  /\ step 4 s2 0 = rules_step 4 s2 0 /\ step 4 s2 1 = rules_step 4 s2 1.
Proof. vm_compute. repeat split; reflexivity. Qed.
