(* C09 GraphColoring over the environment AS TRANSLATED FROM /repo's CURRENT SOURCE on every run (Gen/GraphColoringSrc.v, from the `ast`
   of graph_coloring/env.py and types.py: the whole `step` incl. the `jnp.unique` colour count and both reward `where`s,
   `_get_valid_actions` incl. the index-array scatter into n+1 slots and the final `[:-1]`, `reset` with the generator as an oracle).
   The translated step equals the hand model whenever the colour vector has num_nodes entries (then `jnp.unique(size=num_nodes)` never
   truncates), so every GraphColoring theorem holds of the code as written. *)
Require Import JV.Base.Prelude JV.Base.JaxIndex JV.Base.Codec JV.Base.TimeStep JV.Gen.TimeStepSrc JV.Gen.GraphColoringSrc JV.Proofs.GraphColoring_Src.
Require JV.Model.GraphColoring.
Theorem C09_GraphColoring_Source_step_is_model n s a : zlen (s_colors s) = n ->
  let r := step n s a in
  conv (fst r) = fst (JV.Model.GraphColoring.step n (conv s) a) /\ snd r = snd (JV.Model.GraphColoring.step n (conv s) a).
Proof. exact (step_src n s a). Qed.
Print Assumptions C09_GraphColoring_Source_step_is_model.
Theorem C09_GraphColoring_Source_reset_is_model n adj0 :
  conv (fst (reset n adj0)) = fst (JV.Model.GraphColoring.init n adj0) /\ snd (reset n adj0) = snd (JV.Model.GraphColoring.init n adj0).
Proof. exact (reset_src n adj0). Qed.
(* the meaning given to jnp.unique + count_nonzero is the number of distinct colours used *)
Theorem C09_GraphColoring_Source_unique_count colors n : zlen colors = n ->
  zsum (map b2z (map (fun x_ : Z => x_ >=? 0) (jnp_unique colors n (-1)))) = JV.Model.GraphColoring.distinct_nonneg [] colors.
Proof. exact (unique_src colors n). Qed.
Print Assumptions C09_GraphColoring_Source_unique_count.
Example C09_GraphColoring_Source_nonvacuous :
  let adj0 := [[false; true; false]; [true; false; true]; [false; true; false]] in
  let s0 := fst (reset 3 adj0) in let s1 := fst (step 3 s0 0) in let s2 := fst (step 3 s1 1) in
  s_action_mask s1 = [false; true; true] /\ reward (snd (step 3 s2 0)) = [-2] /\ st (snd (step 3 s2 0)) = LAST
  /\ reward (snd (step 3 s1 0)) = [-3] /\ st (snd (step 3 s1 0)) = LAST /\ jnp_unique [1; 0; 1] 3 (-1) = [0; 1; -1].
Proof. vm_compute. repeat split; reflexivity. Qed.
