(* C09 JobShop (the clock): a mask-respecting joint action advances step_count by one and leaves the instance untouched;
   a machine given the no-op counts its remaining time down (never below 0) and, once free, forgets its job (job id := J);
   a machine given job j starts j's next operation k = first pending operation: it must be the operation's machine and idle,
   scheduled_times[j][k] := the current time, ops_mask[j][k] := False, remaining := duration-1 (the current step counts);
   every other entry of scheduled_times / ops_mask is unchanged.  The timestep: penalty + LAST iff all machines end up idle,
   else -1, LAST iff nothing is pending and every machine is free.  The clock invariant relating remaining times to
   scheduled_times (an operation running at time t is held by its machine for exactly end - t more steps) is C06's [Inv]. *)
Require Import JV.Base.Prelude JV.Base.JaxIndex JV.Base.Codec JV.Base.TimeStep JV.Proofs.TimeStep_laws.
Require Import JV.Model.JobShop JV.Proofs.JobShop_lib JV.Proofs.JobShop_step JV.Proofs.JobShop_sched JV.Proofs.JobShop_episode JV.Proofs.JobShop_gen.
Theorem C09_JobShop_step_rules c s act : shape c s -> in_spec c act -> valid_action c s act ->
  let s' := fst (step c s act) in
  clock s' = clock s + 1 /\ omach s' = omach s /\ odur s' = odur s /\
  (forall m, 0 <= m < nm c ->
     (act_at act m = nj c -> rem s' m = Z.max (rem s m - 1) 0 /\ job s' m = (if rem s m =? 0 then nj c else job s m)) /\
     (act_at act m <> nj c -> let j := act_at act m in let k := opid s j in
        is_next c s j k /\ mach s j k = m /\ rem s m = 0 /\
        rem s' m = Z.max (dur s j k - 1) 0 /\ job s' m = j /\ sch s' j k = clock s /\ pend s' j k = false)) /\
  (forall j k, 0 <= j < nj c -> 0 <= k < no c -> ~ ((exists m, 0 <= m < nm c /\ act_at act m = j) /\ k = opid s j) ->
     sch s' j k = sch s j k /\ pend s' j k = pend s j k).
Proof. exact (step_rules c s act). Qed.
Theorem C09_JobShop_timestep c s act : shape c s -> mask_fresh c s -> in_spec c act -> valid_action c s act ->
  let s' := fst (step c s act) in
  snd (step c s act) =
    if all_idle_b c (mjob s') (mrem s') then termination 1 [penalty c]
    else if finished_b c (omask s') (mrem s') then termination 1 [-1] else transition 1 [-1].
Proof. exact (valid_step_ts c s act). Qed.
Theorem C09_JobShop_clock_invariant c s m : Inv c s -> 0 <= m < nm c ->
  0 <= rem s m /\ (0 < rem s m -> exists j k, 0 <= j < nj c /\ 0 <= k < no c /\ scheduled s j k /\ mach s j k = m
                                          /\ fin s j k = clock s + rem s m).
Proof. intros HI Hm. split; [exact (I_R3 c s HI m Hm)|exact (I_R4 c s HI m Hm)]. Qed.
Print Assumptions C09_JobShop_step_rules.
Definition toy_s0 := fst (init toy_cfg toy_mach toy_dur).
Definition toy_acts : list (list Z) := [[3;4;0;1];[5;5;5;5];[5;5;1;0];[5;2;5;5];[4;5;5;3];[3;0;5;2];[1;4;0;5];[3;5;5;5]].
Example C09_JobShop_nonvacuous :
  let s1 := fst (step toy_cfg toy_s0 [3;4;0;1]) in let s2 := fst (step toy_cfg s1 [5;5;5;5]) in
  mrem s1 = [3;2;1;1] /\ mjob s1 = [3;4;0;1] /\ clock s1 = 1 /\ mrem s2 = [2;1;0;0] /\ mjob s2 = [3;4;0;1]
  /\ sched s1 = [[0;-1;-1;-1];[0;-1;-1;-1];[-1;-1;-1;-1];[0;-1;-1;-1];[0;-1;-1;-1]]
  /\ valid_action toy_cfg toy_s0 [3;4;0;1].
Proof.
  cbv zeta. repeat (split; [vm_compute; reflexivity|]).
  intros m Hm. change (nm toy_cfg) with 4 in Hm.
  assert (m = 0 \/ m = 1 \/ m = 2 \/ m = 3) as [->|[->|[->| ->]]] by lia; right;
    (split; [vm_compute; split; [intro; discriminate|reflexivity]|apply legal_b_spec; vm_compute; reflexivity]).
Qed.
