(* C09 Knapsack: the model of the code (clamping gathers, dropping scatter, lax.cond, both reward functions) computes, for
   every well-shaped state and every in-spec action, exactly the published rules [step_rules]: a legal item is packed and
   its weight leaves the budget, the episode ends when nothing more fits (dense: item value; sparse: packed value at the
   end, 0 before); an illegal item ends the episode with reward 0 and changes nothing. *)
Require Import JV.Base.Prelude JV.Base.JaxIndex JV.Base.Codec JV.Base.TimeStep JV.Model.Knapsack JV.Proofs.Knapsack.
Theorem C09_Knapsack_step_is_rules n sparse s a :
  shape n s -> 0 <= a < n -> step sparse s a = step_rules n sparse s a.
Proof. exact (C09_step_is_rules n sparse s a). Qed.
Print Assumptions C09_Knapsack_step_is_rules.
Example C09_Knapsack_nonvacuous :
  let s := mkS [512; 513; 100] [1; 2; 3] [false; false; true] 512 in
  shape 3 s /\ step_rules 3 true s 0 = (mkS [512; 513; 100] [1; 2; 3] [true; false; true] 0, termination 1 [4])
  /\ step_rules 3 false s 1 = (s, termination 1 [0]).
Proof. vm_compute. repeat split; reflexivity. Qed.
