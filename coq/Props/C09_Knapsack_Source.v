(* C09 Knapsack over the environment AS TRANSLATED FROM /repo's CURRENT SOURCE on every run (Gen/KnapsackSrc.v, from the `ast` of
   knapsack/env.py, reward.py, types.py: the whole `step`, `_update_state`, `_state_to_observation`, both reward functions).  Floats are
   exact dyadic integers; the one inexact operation (budget - weight) goes through a rounding parameter.  The translated step equals
   the hand model for every state, action, reward function and EVERY rounding function (identity = exact, rne24 = IEEE binary32). *)
Require Import JV.Base.Prelude JV.Base.JaxIndex JV.Base.Codec JV.Base.TimeStep JV.Gen.TimeStepSrc JV.Gen.KnapsackSrc JV.Proofs.Knapsack_Src.
Require JV.Model.Knapsack.
Theorem C09_Knapsack_Source_step_is_model rnd sparse s a :
  let r := step rnd (reward_src sparse) s a in
  conv (fst r) = fst (JV.Model.Knapsack.step_r rnd sparse (conv s) a) /\ snd r = snd (JV.Model.Knapsack.step_r rnd sparse (conv s) a).
Proof. exact (step_src rnd sparse s a). Qed.
Print Assumptions C09_Knapsack_Source_step_is_model.
Theorem C08_Knapsack_Source_rewards_are_model sparse s a s' v d :
  reward_src sparse s a s' v d = JV.Model.Knapsack.reward_of sparse (conv s) a (conv s') v d.
Proof. exact (reward_fn_src sparse s a s' v d). Qed.
Example C09_Knapsack_Source_nonvacuous :
  let s := mkState [512; 513; 100] [1; 2; 3] [false; false; true] 512 in
  o_action_mask (state_to_observation s) = [true; false; false]
  /\ s_remaining_budget (fst (step (fun x => x) DenseReward s 0)) = 0 /\ st (snd (step (fun x => x) DenseReward s 0)) = LAST
  /\ reward (snd (step (fun x => x) DenseReward s 0)) = [1] /\ reward (snd (step (fun x => x) SparseReward s 0)) = [4]
  /\ st (snd (step (fun x => x) DenseReward s 1)) = LAST /\ reward (snd (step (fun x => x) DenseReward s 1)) = [0].
Proof. vm_compute. repeat split; reflexivity. Qed.
