(* C09 LevelBasedForaging: the Impl step (the code's algorithm: simulate every move against the OLD positions, flag duplicate
   target rows, send flagged agents back, then eat) follows the published rules, stated independently in [ref_step]:
   - movement with collision fixing: an agent gets the cell it legally moves to unless another agent legally moves to the same
     cell; agents moving to the same cell ALL stay; everybody else stays;
   - loading: an uneaten food is eaten iff the sum of the levels of the 4-adjacent agents playing LOAD reaches its level;
   - successor state, step type and discount of step and ref_step coincide on every physically consistent state and every
     in-spec joint action;
   - reward: every per-food, per-agent entry: the food's level split proportionally to the loaders' levels (normalised by the
     total food level), the penalty for an insufficient load, nothing otherwise.
   The equality of the reward VECTORS of step and ref_step is correspondence-checked by the harness (not proved). *)
From Coq Require Import QArith.
Require Import JV.Base.Prelude JV.Base.JaxIndex JV.Base.Codec JV.Base.TimeStep JV.Model.Lbf JV.Proofs.Lbf JV.Proofs.Lbf_Reward JV.Proofs.Lbf_Rules.
Open Scope Z_scope.
Theorem C09_Lbf_ref_step_state_agrees_partial c s acts :
  Inv c s -> zlen acts = nag c -> Forall (fun k => 0 <= k <= 5) acts ->
  let '(s', t, _) := ref_step c s acts in
  s' = fst (step c s acts) /\ st t = st (snd (step c s acts)) /\ discount t = discount (snd (step c s acts)).
Proof. exact (ref_step_state_agrees c s acts). Qed.
Theorem C09_Lbf_movement_rule c s acts :
  Inv c s -> zlen acts = nag c -> Forall (fun k => 0 <= k <= 5) acts -> ref_agents (gsz c) s acts = step_agents c s acts.
Proof. exact (ref_agents_agree c s acts). Qed.
Theorem C09_Lbf_collision_all_stay g ags fs acts x y :
  let aa := combine ags acts in let moved := map (sim_move g ags fs) aa in
  In x aa -> In y aa -> x <> y -> sim_move g ags fs x = sim_move g ags fs y ->
  final_pos moved g ags fs x = apos (fst x) /\ final_pos moved g ags fs y = apos (fst y).
Proof. exact (collision_all_stay g ags fs acts x y). Qed.
Theorem C09_Lbf_load_rule ags f : featen (eat ags f) = featen f || (flvl f <=? zsum (map alvl (loaders ags f))).
Proof. exact (load_rule ags f). Qed.
Theorem C09_Lbf_share_rule c lt ags f :
  eaten_now ags f = true ->
  food_reward c lt ags f
  = map (fun l => let r := (zq (l * 1 * flvl f) - 0)%Q in if norm c then (r / zq (zsum (adj_levels ags f) * lt))%Q else r) (adj_levels ags f).
Proof. exact (share_rule c lt ags f). Qed.
Print Assumptions C09_Lbf_ref_step_state_agrees_partial.
Print Assumptions C09_Lbf_share_rule.
Example C09_Lbf_nonvacuous :
  (* three agents: 0 and 1 both move to (2,1) and stay; 2 moves freely; then 0 (level 1) and 1 (level 2) load food (1,1) level 3 *)
  let c := mkC 5 3 1 1 9 true 0%Q false 2 in
  let s := mkS [mkA 0 2 0 1 false; mkA 1 2 2 2 false; mkA 2 4 4 1 false] [mkF 0 1 1 3 false] 0 in
  Inv_b c s = true
  /\ map apos (agents (fst (step c s [4; 3; 1]))) = [(2, 0); (2, 2); (3, 4)]
  /\ fst (fst (ref_step c s [4; 3; 1])) = fst (step c s [4; 3; 1])
  /\ (let s1 := mkS [mkA 0 1 0 1 false; mkA 1 1 2 2 false; mkA 2 4 4 1 false] [mkF 0 1 1 3 false] 0 in
      map featen (foods (fst (step c s1 [5; 5; 0]))) = [true]
      /\ map Qred (step_rewards c s1 [5; 5; 0]) = [(1 # 3)%Q; (2 # 3)%Q; 0%Q]
      /\ map Qred (snd (ref_step c s1 [5; 5; 0])) = [(1 # 3)%Q; (2 # 3)%Q; 0%Q]
      /\ map featen (foods (fst (step c s1 [5; 0; 0]))) = [false]).
Proof. vm_compute. repeat split; reflexivity. Qed.
