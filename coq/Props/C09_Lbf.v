(* C09 LevelBasedForaging: the Impl step (the code's algorithm: simulate every move against the OLD positions, flag duplicate
   target rows, send flagged agents back, then eat) follows the published rules, stated independently in [ref_step]:
   - movement with collision fixing: an agent gets the cell it legally moves to unless another agent legally moves to the same
     cell; agents moving to the same cell ALL stay; everybody else stays;
   - loading: an uneaten food is eaten iff the sum of the levels of the 4-adjacent agents playing LOAD reaches its level;
   - reward: for every agent the sum over the foods of: level_a * food_level for the adjacent loaders of a food eaten in this
     step (divided by sum of the loaders' levels * total food level when normalising: a split proportional to level), minus
     the penalty (divided by the same normaliser) charged to EVERY agent for a food loaded by an insufficient positive level,
     nothing for a food already eaten or loaded by nobody;
   - successor state, step type, discount AND the reward vector of step and ref_step coincide on every physically consistent
     state and every in-spec joint action.  Rewards are exact rationals: equality is Qeq entry by entry, hence Leibniz
     equality of the reduced fractions (the wire format of lbf_step_io / lbf_ref_io); the integer reward code carried by the
     shared timestep record (the numerator) is zero in the same entries. *)
From Coq Require Import QArith.
Require Import JV.Base.Prelude JV.Base.JaxIndex JV.Base.Codec JV.Base.TimeStep JV.Model.Lbf JV.Proofs.Lbf JV.Proofs.Lbf_Reward JV.Proofs.Lbf_Rules JV.Proofs.Lbf_RefReward.
Open Scope Z_scope.
Theorem C09_Lbf_ref_step_agrees c s acts :
  Inv c s -> zlen acts = nag c -> Forall (fun k => 0 <= k <= 5) acts ->
  let '(s', t, rw) := ref_step c s acts in
  s' = fst (step c s acts) /\ st t = st (snd (step c s acts)) /\ discount t = discount (snd (step c s acts))
  /\ Forall2 Qeq rw (step_rewards c s acts)
  /\ map Qred rw = map Qred (step_rewards c s acts).
Proof. exact (ref_step_agrees c s acts). Qed.
Theorem C09_Lbf_reward_code_zero_iff c s acts :
  Inv c s -> zlen acts = nag c -> Forall (fun k => 0 <= k <= 5) acts ->
  Forall2 (fun x y => x = 0 <-> y = 0) (reward (snd (fst (ref_step c s acts)))) (reward (snd (step c s acts))).
Proof. exact (reward_code_zero_iff c s acts). Qed.
(* the reward vector alone, for ANY agent list (no invariant needed) and foods of positive level *)
Theorem C09_Lbf_rewards_ref c ags fs :
  Forall (fun f => 1 <= flvl f) fs ->
  Forall2 Qeq (rewards c ags fs)
              (map (fun a => qsum (map (fun f => ref_reward_food c (zsum (map flvl fs)) ags f a) fs)) ags).
Proof. exact (rewards_ref c ags fs). Qed.
Theorem C09_Lbf_movement_rule c s acts :
  Inv c s -> zlen acts = nag c -> Forall (fun k => 0 <= k <= 5) acts -> ref_agents (gsz c) s acts = step_agents c s acts.
Proof. exact (ref_agents_agree c s acts). Qed.
Theorem C09_Lbf_collision_all_stay g ags fs acts x y :
  let aa := combine ags acts in let moved := map (sim_move g ags fs) aa in
  In x aa -> In y aa -> x <> y -> sim_move g ags fs x = sim_move g ags fs y ->
  final_pos moved g ags fs x = apos (fst x) /\ final_pos moved g ags fs y = apos (fst y).
Proof. exact (collision_all_stay g ags fs acts x y). Qed.
Theorem C09_Lbf_load_rule ags f : featen (eat ags f) = featen f || (flvl f <=? zsum (map alvl (loaders ags f))).
Proof. exact (load_rule ags f). Qed.
Theorem C09_Lbf_share_rule c lt ags f :
  eaten_now ags f = true ->
  food_reward c lt ags f
  = map (fun l => let r := (zq (l * 1 * flvl f) - 0)%Q in if norm c then (r / zq (zsum (adj_levels ags f) * lt))%Q else r) (adj_levels ags f).
Proof. exact (share_rule c lt ags f). Qed.
Print Assumptions C09_Lbf_ref_step_agrees.
Print Assumptions C09_Lbf_reward_code_zero_iff.
Print Assumptions C09_Lbf_rewards_ref.
Print Assumptions C09_Lbf_share_rule.
Example C09_Lbf_nonvacuous :
  (* three agents: 0 and 1 both move to (2,1) and stay; 2 moves freely; then 0 (level 1) and 1 (level 2) load food (1,1) level 3 *)
  let c := mkC 5 3 1 1 9 true 0%Q false 2 in
  let s := mkS [mkA 0 2 0 1 false; mkA 1 2 2 2 false; mkA 2 4 4 1 false] [mkF 0 1 1 3 false] 0 in
  Inv_b c s = true
  /\ map apos (agents (fst (step c s [4; 3; 1]))) = [(2, 0); (2, 2); (3, 4)]
  /\ fst (fst (ref_step c s [4; 3; 1])) = fst (step c s [4; 3; 1])
  /\ (let s1 := mkS [mkA 0 1 0 1 false; mkA 1 1 2 2 false; mkA 2 4 4 1 false] [mkF 0 1 1 3 false] 0 in
      map featen (foods (fst (step c s1 [5; 5; 0]))) = [true]
      /\ map Qred (step_rewards c s1 [5; 5; 0]) = [(1 # 3)%Q; (2 # 3)%Q; 0%Q]
      /\ map Qred (snd (ref_step c s1 [5; 5; 0])) = [(1 # 3)%Q; (2 # 3)%Q; 0%Q]
      /\ map featen (foods (fst (step c s1 [5; 0; 0]))) = [false]
      (* insufficient load with penalty 1/2: every agent pays, raw and normalised (by loaders' level 1 * total level 3) *)
      /\ (let cp := mkC 5 3 1 1 9 false (1 # 2)%Q false 2 in
          map Qred (step_rewards cp s1 [5; 0; 0]) = [(- 1 # 2)%Q; (- 1 # 2)%Q; (- 1 # 2)%Q]
          /\ map Qred (snd (ref_step cp s1 [5; 0; 0])) = [(- 1 # 2)%Q; (- 1 # 2)%Q; (- 1 # 2)%Q])
      /\ (let cn := mkC 5 3 1 1 9 true (1 # 2)%Q false 2 in
          map Qred (step_rewards cn s1 [5; 0; 0]) = [(- 1 # 6)%Q; (- 1 # 6)%Q; (- 1 # 6)%Q]
          /\ map Qred (snd (ref_step cn s1 [5; 0; 0])) = [(- 1 # 6)%Q; (- 1 # 6)%Q; (- 1 # 6)%Q])).
Proof. vm_compute. repeat split; reflexivity. Qed.
