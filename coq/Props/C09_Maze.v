(* C09 Maze: on every physically consistent state and every in-spec action the implementation's algorithm (select on
   the stored mask, lax.switch, recomputed mask, done/reward) equals the declarative rules [rule_step]: a legal move
   is taken, an illegal one is ignored; reward 1 exactly on the target; LAST exactly when the target is reached, the
   limit is reached or the agent is walled in. *)
Require Import JV.Base.Prelude JV.Base.JaxIndex JV.Base.Codec JV.Base.TimeStep JV.Model.MazeGen JV.Model.Maze JV.Proofs.MazeGen JV.Proofs.Maze.
Theorem C09_Maze_step_eq_rules rows cols T s a :
  Physical rows cols s -> 0 <= a < 4 -> step rows cols T s a = rule_step rows cols T s a.
Proof. exact (step_eq_rule rows cols T s a). Qed.
Print Assumptions C09_Maze_step_eq_rules.
Theorem C09_Maze_reward_termination rows cols T s a :
  Physical rows cols s -> 0 <= a < 4 ->
  let s' := fst (step rows cols T s a) in
  let t := snd (step rows cols T s a) in
  (reward t = [1] <-> at_target s') /\ (reward t = [0] <-> ~ at_target s')
  /\ (st t = LAST <-> (at_target s' \/ T <= sc s + 1 \/ stuck rows cols s'))
  /\ (st t = MID \/ st t = LAST) /\ sc s' = sc s + 1
  /\ discount t = (if st t =? LAST then [0] else [1]).
Proof. exact (step_reward_last rows cols T s a). Qed.
Print Assumptions C09_Maze_reward_termination.
Example C09_Maze_nonvacuous :
  let s := run 5 5 25 (fst toy_init) [2;2;2;1;1;0;0;0;1] in
  Physical_b 5 5 s = true /\ (ar s, ac s) = (0, 3) /\ reward (snd (step 5 5 25 s 1)) = [1]
  /\ st (snd (step 5 5 25 s 1)) = LAST /\ reward (snd (step 5 5 25 s 3)) = [0] /\ st (snd (step 5 5 25 s 3)) = MID.
Proof. vm_compute. repeat split; reflexivity. Qed.
