(* C09 / C04 / C07 / C12 Maze over the environment AS TRANSLATED FROM /repo's CURRENT SOURCE on every run (Gen/MazeSrc.v, produced from
   the `ast` of maze/env.py, types.py, constants.py by harness/translators/maze_src.py: the whole `step`, `_compute_action_mask`,
   `_observation_from_state`, `reset` after the generator call, `Position.__eq__`, `MOVES`; the timestep constructors are the
   source-translated ones of jumanji/types.py).  The translated step equals the hand model on EVERY maze, state and action, so every
   Maze theorem holds of the code as written; the central ones are restated on the translated functions directly. *)
Require Import JV.Base.Prelude JV.Base.JaxIndex JV.Base.Codec JV.Base.TimeStep JV.Gen.TimeStepSrc JV.Gen.MazeSrc JV.Proofs.Maze_Src.
Require JV.Model.Maze.

Theorem C09_Maze_Source_step_is_model rows cols T s a :
  let r := step rows cols T s a in
  conv (fst r) = fst (JV.Model.Maze.step rows cols T (conv s) a) /\ snd r = snd (JV.Model.Maze.step rows cols T (conv s) a).
Proof. exact (step_src rows cols T s a). Qed.
Print Assumptions C09_Maze_Source_step_is_model.
Theorem C09_Maze_Source_reset_is_model rows cols s :
  let r := reset_from rows cols s in
  s_step_count s = 0 ->
  conv (fst r) = fst (JV.Model.Maze.init rows cols (s_walls s) (fst (s_agent_position s)) (snd (s_agent_position s))
                             (fst (s_target_position s)) (snd (s_target_position s)))
  /\ snd r = snd (JV.Model.Maze.init rows cols (s_walls s) (fst (s_agent_position s)) (snd (s_agent_position s))
                         (fst (s_target_position s)) (snd (s_target_position s))).
Proof. exact (reset_src rows cols s). Qed.
(* C12: the translated observation is the model's view (plain copies of the state's fields) *)
Theorem C12_Maze_Source_observation_is_view s : obs_flat (observation_from_state s) = JV.Model.Maze.observe (conv s).
Proof. exact (observe_src s). Qed.
Theorem C04_Maze_Source_mask_is_model rows cols w p :
  compute_action_mask rows cols w p = JV.Model.Maze.compute_mask rows cols w (fst p) (snd p).
Proof. exact (mask_src rows cols w p). Qed.
Print Assumptions C04_Maze_Source_mask_is_model.
(* C09: the translated step follows the published rules (a legal move is taken, an illegal one ignored, reward 1 on the target,
   LAST exactly on the target / at the limit / walled in) on every physically consistent state and in-spec action *)
Theorem C09_Maze_Source_step_follows_rules rows cols T s a :
  JV.Model.Maze.Physical rows cols (conv s) -> 0 <= a < 4 ->
  let r := step rows cols T s a in
  (conv (fst r), snd r) = JV.Model.Maze.rule_step rows cols T (conv s) a.
Proof. exact (src_step_follows_rules rows cols T s a). Qed.
Print Assumptions C09_Maze_Source_step_follows_rules.
(* C04: after any in-spec step of the translated code the stored mask is exactly the set of legal moves *)
Theorem C04_Maze_Source_mask_iff_legal rows cols T s a b :
  JV.Model.Maze.Physical rows cols (conv s) -> 0 <= a < 4 -> 0 <= b < 4 ->
  let s' := fst (step rows cols T s a) in
  (jget false (s_action_mask s') b = true
   <-> JV.Model.Maze.legal rows cols (s_walls s') (fst (s_agent_position s')) (snd (s_agent_position s')) b).
Proof. exact (src_mask_iff_legal rows cols T s a b). Qed.
Print Assumptions C04_Maze_Source_mask_iff_legal.
Example C09_Maze_Source_nonvacuous :
  let w := JV.Model.Maze.toy_walls in
  let s0 := fst (reset_from 5 5 (mkState (0, 0) (0, 4) w [] 0)) in
  s_action_mask s0 = [false; false; true; false]
  /\ s_agent_position (fst (step 5 5 25 s0 2)) = (1, 0) /\ st (snd (step 5 5 25 s0 2)) = MID
  /\ s_agent_position (fst (step 5 5 25 s0 1)) = (0, 0) /\ st (snd (step 5 5 1 s0 1)) = LAST.
Proof. vm_compute. repeat split; reflexivity. Qed.
