(* C09 Minesweeper: (1) the number the code reveals -- scatter of the flat mine locations into zeros, reshape, jnp.pad by 2,
   two dynamic_slice_in_dim of size 3 at (row+1, col+1), sum, minus the centre, with JAX's index semantics -- equals the
   number of mined squares among the (at most) 8 neighbours, for every board size, every mine list inside the board and
   every square (corners and edges included); (2) the mine test on the flat board is the mine predicate; (3) on every
   physically consistent state and every in-spec action the code's step (successor state, reward, termination) is the step
   prescribed by the published rules. *)
Require Import JV.Base.Prelude JV.Base.JaxIndex JV.Base.Codec JV.Base.TimeStep JV.Model.Minesweeper.
Require Import JV.Proofs.Minesweeper_lists JV.Proofs.Minesweeper_count JV.Proofs.Minesweeper.
Theorem C09_Minesweeper_neighbour_count rows cols ms r c :
  in_board rows cols ms -> 0 <= r < rows -> 0 <= c < cols -> count_adjacent rows cols ms r c = adj_count rows cols ms r c.
Proof. exact (count_adjacent_eq rows cols ms r c). Qed.
Print Assumptions C09_Minesweeper_neighbour_count.
Theorem C09_Minesweeper_mine_test rows cols ms r c :
  in_board rows cols ms -> 0 <= r < rows -> 0 <= c < cols -> explored_mine rows cols ms r c = is_mine rows cols ms r c.
Proof. exact (explored_mine_eq rows cols ms r c). Qed.
Theorem C09_Minesweeper_step_follows_rules rc rows cols nm s r c :
  Phys rows cols nm s -> 0 <= r < rows -> 0 <= c < cols -> step rc rows cols s r c = rules_step rc rows cols s r c.
Proof. exact (step_eq_rules rc rows cols nm s r c). Qed.
Print Assumptions C09_Minesweeper_step_follows_rules.
Theorem C09_Minesweeper_step_type rc rows cols nm s r c :
  Phys rows cols nm s -> 0 <= r < rows -> 0 <= c < cols ->
  st (snd (step rc rows cols s r c)) =
  if negb (legal_b (board s) r c) || is_mine rows cols (mines s) r c
     || (revealed rows cols (board s) + b2z (legal_b (board s) r c) =? rows * cols - zlen (mines s)) then LAST else MID.
Proof. exact (step_type_spec rc rows cols nm s r c). Qed.
Example C09_Minesweeper_nonvacuous :
  let ms := [0; 1; 2; 4; 6; 8; 9; 10] in   (* 3 x 4 board, the centre square (1,1) has 8 mined neighbours *)
  forallb (inb (3 * 4)) ms = true /\ count_adjacent 3 4 ms 1 1 = 8 /\ adj_count 3 4 ms 1 1 = 8
  /\ count_adjacent 3 4 ms 0 3 = 2 /\ count_adjacent 3 4 ms 2 3 = 2 /\ count_adjacent 3 4 ms 1 3 = 3
  /\ count_adjacent 3 4 ms 2 0 = 2 /\ count_adjacent 3 4 ms 0 0 = 2.
Proof. vm_compute. repeat split; reflexivity. Qed.
