(* C09 Minesweeper over the SOURCE-TRANSLATED step (Gen/MinesweeperSrc.v, regenerated from /repo on every run: env.step, utils.py, the
   shipped done and reward functions): (1) the translated step IS the hand model's step on every board of the declared shape, every
   mine list, every action (in range or not) and every three reward constants; (2) hence on every physically consistent state and
   in-spec action it is the step prescribed by the published rules. *)
Require Import JV.Base.Prelude JV.Base.JaxIndex JV.Base.Codec JV.Base.TimeStep JV.Gen.TimeStepSrc JV.Gen.MinesweeperSrc JV.Proofs.Minesweeper_lists JV.Proofs.Minesweeper_count JV.Proofs.Minesweeper JV.Proofs.Minesweeper_Src.
Require JV.Model.Minesweeper.
Theorem C09_Minesweeper_Source_step_is_model rows cols s nm re rm ri a : shaped rows cols (s_board s) -> 0 < rows ->
  let r := step nm (DefaultRewardFn_call re rm ri) DefaultDoneFn_call s a in
  let m := JV.Model.Minesweeper.step (JV.Model.Minesweeper.mkR re rm ri) rows cols (conv s) (fst a) (snd a) in
  conv (fst r) = fst m /\ snd r = snd m.
Proof. exact (fun Sh Hr => step_src rows cols s Sh Hr nm re rm ri a). Qed.
Print Assumptions C09_Minesweeper_Source_step_is_model.
Theorem C09_Minesweeper_Source_step_follows_rules rows cols nm re rm ri s a :
  Phys rows cols nm (conv s) -> 0 <= fst a < rows -> 0 <= snd a < cols ->
  (conv (fst (step nm (DefaultRewardFn_call re rm ri) DefaultDoneFn_call s a)), snd (step nm (DefaultRewardFn_call re rm ri) DefaultDoneFn_call s a))
  = JV.Model.Minesweeper.rules_step (JV.Model.Minesweeper.mkR re rm ri) rows cols (conv s) (fst a) (snd a).
Proof. exact (src_step_follows_rules rows cols nm re rm ri s a). Qed.
Print Assumptions C09_Minesweeper_Source_step_follows_rules.
Theorem C09_Minesweeper_Source_default_constants :
  default_reward_quarters = (4 * JV.Model.Minesweeper.r_empty JV.Model.Minesweeper.default_rcfg, 4 * JV.Model.Minesweeper.r_mine JV.Model.Minesweeper.default_rcfg,
                             4 * JV.Model.Minesweeper.r_invalid JV.Model.Minesweeper.default_rcfg).
Proof. exact default_constants_src. Qed.
Theorem C09_Minesweeper_Source_reset rows cols nm locs :
  let s0 := mkState (repeat (repeat (-1) (Z.to_nat cols)) (Z.to_nat rows)) 0 locs in
  conv (fst (reset_from nm s0)) = fst (JV.Model.Minesweeper.init rows cols locs) /\ snd (reset_from nm s0) = snd (JV.Model.Minesweeper.init rows cols locs).
Proof. exact (reset_src rows cols nm locs). Qed.
Example C09_Minesweeper_Source_nonvacuous :
  let s := mkState [[-1; -1; -1]; [-1; -1; -1]] 0 [1; 5] in
  let r := step 2 (DefaultRewardFn_call 4 0 0) DefaultDoneFn_call s (1, 1) in
  s_board (fst r) = [[-1; -1; -1]; [-1; 2; -1]] /\ reward (snd r) = [4] /\ st (snd r) = MID
  /\ st (snd (step 2 (DefaultRewardFn_call 4 0 0) DefaultDoneFn_call s (0, 1))) = LAST.
Proof. vm_compute. repeat split; reflexivity. Qed.
