(* C09 MultiCVRP: the joint move computed by the code (int16 cast, multiply-by-condition, jnp.unique + scatter) is the published
   rule: every vehicle whose choice is not legal for it goes to the depot; of several vehicles choosing the same customer
   the first one serves it and the others go to the depot. *)
Require Import JV.Base.Prelude JV.Base.JaxIndex JV.Base.Codec JV.Base.TimeStep JV.Model.MultiCvrp JV.Proofs.MultiCvrp JV.Proofs.MultiCvrp_Episode.
Theorem C09_MultiCvrp_next_is_rules n V s acts : n < 32768 -> zlen (demands s) = n + 1 -> zlen (cap s) = V -> zlen acts = V ->
  Forall (fun a => 0 <= a <= n) acts -> next_nodes s acts = rules_next n s acts.
Proof. exact (C09_next_is_rules n V s acts). Qed.
Print Assumptions C09_MultiCvrp_next_is_rules.
Example C09_MultiCvrp_nonvacuous :
  let s1 := fst (step false 3 4 dlin (st0 [0; 2; 3; 2] 3 4 3) [2; 0; 0]) in
  next_nodes s1 [3; 3; 3] = [0; 3; 0] /\ rules_next 3 s1 [3; 3; 3] = [0; 3; 0] /\ next_nodes s1 [1; 1; 2] = [0; 1; 0].
Proof. vm_compute. repeat split; reflexivity. Qed.
