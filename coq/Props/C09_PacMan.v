(* C09 PacMan (player dynamics, pellets, power-ups, score): for every state whose player stands on a free cell of a
   well-formed grid and every in-spec action, the implementation's step (Impl layer, tied to the code by the
   correspondence harness) produces exactly what the declarative rules prescribe (rule_step): the player takes a legal
   move -- wrapping around the grid at the tunnel -- and stays put otherwise; the pellet / power-up on the cell it now
   occupies is collected (10 / 50 points; 30 frightened steps) and wiped from the map, the pellet counter drops by one
   per pellet, the score accumulates the reward (pellet + power-up + 200 per edible ghost caught), and the step is LAST
   exactly when the clock reaches the limit, the player was caught, or no pellet is left.
   The ghosts: their four actions are explicit draws; Model/PacManGhost.v models the set ghost_move can return EXACTLY
   (ghost_exact; the harness checks on every implementation transition that the actions taken lie in it, and in constructed
   situations, re-running the step under sampled keys, that every action in it is produced).  C09_PacMan_ghost_rule reads the
   set declaratively: a waiting ghost (ghost_start >= 0) does not move (4); a ghost in a straight corridor repeats its
   action; otherwise it takes a neighbour (0 left, 1 up, 2 right, 3 down) that is seen free and is not the cell recorded
   in old_ghost_locations and whose distance to the ghost's target (ghost_dist: init target / scatter target when
   frightened / per-ghost chase target) is minimal among those -- any of the four when there is none.  The only
   randomness is the choice among ties.
   Documentation mismatches observed (code modelled as is): a power pellet pays 50 (+10 for the pellet under it), the
   docs say 20; the map has 318 pellets, the docs say 316; the no-op does not "repeat the last action", it stays. *)
Require Import JV.Base.Prelude JV.Base.JaxIndex JV.Base.Codec JV.Base.TimeStep JV.Gen.PacManConsts JV.Model.PacMan JV.Proofs.PacMan JV.Model.PacManGhost JV.Proofs.PacMan_Inv JV.Proofs.PacMan_Rules JV.Proofs.PacMan_Ghost.
Theorem C09_PacMan_step_follows_rules xs ys T s a d :
  wf_grid xs ys (grid s) -> free xs ys (grid s) (px s) (py s) -> 0 <= a <= 4 ->
  let s' := fst (step xs ys T s a d) in
  rule_step xs ys T s a (ghost_rew xs ys s a d) (died xs ys s a d) =
  ((px s', py s'), pellet_locs s', pu_locs s', pellets s', fright s', rew xs ys s a d, score s',
   match st (snd (step xs ys T s a d)) with 2 => true | _ => false end)
  /\ reward (snd (step xs ys T s a d)) = [rew xs ys s a d].
Proof. exact (step_follows_rules xs ys T s a d). Qed.
Print Assumptions C09_PacMan_step_follows_rules.
Theorem C09_PacMan_player_rule xs ys s a :
  wf_grid xs ys (grid s) -> free xs ys (grid s) (px s) (py s) -> 0 <= a <= 4 ->
  nxy xs ys s a = rule_player xs ys (grid s) (px s) (py s) a.
Proof. exact (nxy_rule xs ys s a). Qed.
Theorem C09_PacMan_ghost_rule xs ys s a i d :
  let c := fst (gpos (ghosts s) i) in let r := snd (gpos (ghosts s) i) in
  let valid := nb_valid (grid s) (fst (gpos (old_ghosts s) i)) (snd (gpos (old_ghosts s) i)) in
  let dist := ghost_dist xs ys s a i c r in
  ghost_exact xs ys s a i d = true <->
  (0 <= znth 0 (g_starts s) i /\ d = 4) \/
  (znth 0 (g_starts s) i < 0 /\ in_tunnel (ghost_valids (grid s) c r) = true /\ d = znth 0 (g_actions s) i) \/
  (znth 0 (g_starts s) i < 0 /\ in_tunnel (ghost_valids (grid s) c r) = false /\ 0 <= d < 4 /\
   ((forall k, 0 <= k < 4 -> valid (nbr c r k) = false) \/
    (valid (nbr c r d) = true /\ forall k, 0 <= k < 4 -> valid (nbr c r k) = true -> dist (nbr c r d) <= dist (nbr c r k)))).
Proof. exact (ghost_exact_spec xs ys s a i d). Qed.
Print Assumptions C09_PacMan_ghost_rule.
Theorem C09_PacMan_ghost_rule_total xs ys s a : exists d, exact_draw xs ys s a d = true.
Proof. exact (exact_draw_exists xs ys s a). Qed.
(* non-vacuity of the ghost rule: four ghosts on the crossing (row 5, column 6), arrived from above (row 4), the player on
   the same cell and not moving: for ghost 0 the three remaining neighbours tie (distance 1), "up" is backtracking;
   ghost 1 aims four cells ahead of the player (with the code's row/column mix-up) and has two tied choices; with the
   player's action 0 instead its target moves and only "left" remains; ghost 3 is still waiting (ghost_start 3): no move *)
Example C09_PacMan_ghost_nonvacuous :
  let s0 := gen_state DEFAULT_MAZE_ASCII in
  let s := mkS (grid s0) (pellets s0) 0 (pellet_locs s0) (pu_locs s0) 5 6 [(6, 5); (6, 5); (6, 5); (6, 5)] (init_ghosts s0) (init_targets s0)
               [(6, 4); (6, 4); (6, 4); (6, 4)] (g_init_steps s0) [3; 3; 3; 3] 0 false [-1; -1; -1; 3] (scatter s0) 7 (g_eaten s0) 0 in
  ghost_set 31 28 s 4 0 = [true; false; true; true; false]
  /\ ghost_set 31 28 s 4 1 = [true; false; false; true; false]
  /\ ghost_set 31 28 s 0 1 = [true; false; false; false; false]
  /\ ghost_set 31 28 s 4 3 = [false; false; false; false; true]
  /\ exact_draw 31 28 s 4 [2; 3; 0; 4] = true /\ exact_draw 31 28 s 4 [1; 3; 0; 4] = false /\ exact_draw 31 28 s 0 [2; 3; 0; 4] = false.
Proof. vm_compute. repeat split; reflexivity. Qed.
(* non-vacuity: eating the power-up at (row 3, column 6) from (3, 7): 60 points, 30 frightened steps, 317 pellets left *)
Example C09_PacMan_nonvacuous :
  let s0 := gen_state DEFAULT_MAZE_ASCII in
  let s := mkS (grid s0) (pellets s0) 0 (pellet_locs s0) (pu_locs s0) 4 6 (ghosts s0) (init_ghosts s0) (init_targets s0) (old_ghosts s0)
               (g_init_steps s0) (g_actions s0) 0 false (g_starts s0) (scatter s0) 0 (g_eaten s0) 0 in
  let r := step 31 28 1000 s 0 [4; 4; 4; 4] in
  (px (fst r), py (fst r), fright (fst r), pellets (fst r), score (fst r), snd r) = (3, 6, 30, 317, 60, transition 1 [60]).
Proof. vm_compute. reflexivity. Qed.
