(* C09 PacMan (player dynamics, pellets, power-ups, score): for every state whose player stands on a free cell of a
   well-formed grid and every in-spec action, the implementation's step (Impl layer, tied to the code by the
   correspondence harness) produces exactly what the declarative rules prescribe (rule_step): the player takes a legal
   move -- wrapping around the grid at the tunnel -- and stays put otherwise; the pellet / power-up on the cell it now
   occupies is collected (10 / 50 points; 30 frightened steps) and wiped from the map, the pellet counter drops by one
   per pellet, the score accumulates the reward (pellet + power-up + 200 per edible ghost caught), and the step is LAST
   exactly when the clock reaches the limit, the player was caught, or no pellet is left.
   The ghosts' own movement is NOT specified declaratively: it is an explicit draw constrained by valid_draw (C07).
   Documentation mismatches observed (code modelled as is): a power pellet pays 50 (+10 for the pellet under it), the
   docs say 20; the map has 318 pellets, the docs say 316; the no-op does not "repeat the last action", it stays. *)
Require Import JV.Base.Prelude JV.Base.JaxIndex JV.Base.Codec JV.Base.TimeStep JV.Gen.PacManConsts JV.Model.PacMan JV.Proofs.PacMan JV.Proofs.PacMan_Inv JV.Proofs.PacMan_Rules.
Theorem C09_PacMan_step_follows_rules xs ys T s a d :
  wf_grid xs ys (grid s) -> free xs ys (grid s) (px s) (py s) -> 0 <= a <= 4 ->
  let s' := fst (step xs ys T s a d) in
  rule_step xs ys T s a (ghost_rew xs ys s a d) (died xs ys s a d) =
  ((px s', py s'), pellet_locs s', pu_locs s', pellets s', fright s', rew xs ys s a d, score s',
   match st (snd (step xs ys T s a d)) with 2 => true | _ => false end)
  /\ reward (snd (step xs ys T s a d)) = [rew xs ys s a d].
Proof. exact (step_follows_rules xs ys T s a d). Qed.
Print Assumptions C09_PacMan_step_follows_rules.
Theorem C09_PacMan_player_rule xs ys s a :
  wf_grid xs ys (grid s) -> free xs ys (grid s) (px s) (py s) -> 0 <= a <= 4 ->
  nxy xs ys s a = rule_player xs ys (grid s) (px s) (py s) a.
Proof. exact (nxy_rule xs ys s a). Qed.
(* non-vacuity: eating the power-up at (row 3, column 6) from (3, 7): 60 points, 30 frightened steps, 317 pellets left *)
Example C09_PacMan_nonvacuous :
  let s0 := gen_state DEFAULT_MAZE_ASCII in
  let s := mkS (grid s0) (pellets s0) 0 (pellet_locs s0) (pu_locs s0) 4 6 (ghosts s0) (init_ghosts s0) (init_targets s0) (old_ghosts s0)
               (g_init_steps s0) (g_actions s0) 0 false (g_starts s0) (scatter s0) 0 (g_eaten s0) 0 in
  let r := step 31 28 1000 s 0 [4; 4; 4; 4] in
  (px (fst r), py (fst r), fright (fst r), pellets (fst r), score (fst r), snd r) = (3, 6, 30, 317, 60, transition 1 [60]).
Proof. vm_compute. reflexivity. Qed.
