(* C09 RubiksCube: a step applies the move selected by (face, depth, amount) to the cube, adds one to the counter,
   and is LAST exactly when the new cube is solved or the counter reaches time_limit (discount 0), MID otherwise. *)
Require Import JV.Base.Prelude JV.Base.JaxIndex JV.Base.Codec JV.Base.TimeStep JV.Gen.RubikTables JV.Model.RubiksCube.
Require Import JV.Proofs.RubiksCube_Lists JV.Proofs.RubiksCube_Cube JV.Proofs.RubiksCube_Action JV.Proofs.RubiksCube_Group JV.Proofs.RubiksCube_Env.
From Coq Require Import Permutation.
Theorem C09_RubiksCube_transition n T s a :
  fst (step n T s a) = mkS (rotate_cube n (cube_of s) (flatten_action n a)) (count s + 1).
Proof. exact (step_state n T s a). Qed.
Theorem C09_RubiksCube_termination n T s a :
  st (snd (step n T s a)) = LAST <-> (T <= count s + 1 \/ Solved (next_cube n s a)).
Proof. exact (step_last_iff n T s a). Qed.
Theorem C09_RubiksCube_mid_or_last n T s a :
  (st (snd (step n T s a)) = MID /\ discount (snd (step n T s a)) = [1]) \/
  (st (snd (step n T s a)) = LAST /\ discount (snd (step n T s a)) = [0]).
Proof. exact (step_mid_or_last n T s a). Qed.
Print Assumptions C09_RubiksCube_termination.
Example C09_RubiksCube_nonvacuous :
  let s := mkS (rotate_cube 2 (solved_cube 2) 0) 0 in
  st (snd (step 2 5 s (0, 0, 1))) = LAST /\ reward (snd (step 2 5 s (0, 0, 1))) = [1] /\
  st (snd (step 2 5 s (0, 0, 0))) = MID /\ st (snd (step 2 1 s (0, 0, 0))) = LAST.
Proof. vm_compute. auto. Qed.
