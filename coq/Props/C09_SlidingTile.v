(* C09 SlidingTile: env.step (the JAX algorithm: gather with clamping, two scatters, lax.cond) is the published rule.
   rule_move: if the blank's neighbour in direction a is on the board, the new board is the old one with the contents of the two
   cells exchanged (cell g' q = cell g (transposition q)) and the blank is at the neighbour; otherwise nothing changes.
   The rule determines the successor uniquely, the counter advances by one, the key is kept, LAST <=> board = goal or
   counter >= time_limit, reward = change in correct cells (dense) / solved flag (sparse), observation = view of the successor. *)
Require Import JV.Base.Prelude JV.Base.JaxIndex JV.Base.Codec JV.Base.TimeStep JV.Model.SlidingTile JV.Proofs.SlidingTile JV.Proofs.SlidingTile_Episode.
From Coq Require Import Permutation.
Theorem C09_SlidingTile_step_follows_rules n T rw s a : Inv n (bd s) -> 0 <= a < 4 ->
  let s' := nxt n T rw s a in let t := ts_of n T rw s a in
  rule_move n (bd s) (bd s') a /\ steps s' = steps s + 1 /\ skey s' = skey s
  /\ (st t = LAST <-> puz s' = goal n \/ T <= steps s') /\ (st t = LAST \/ st t = MID)
  /\ reward t = [if rw =? 0 then correct n (puz s') - correct n (puz s) else b2z (solved n s')]
  /\ ob_of n T rw s a = observe n s'.
Proof. exact (step_follows_rules n T rw s a). Qed.
Theorem C09_SlidingTile_rule_deterministic n b b1 b2 a : rule_move n b b1 a -> rule_move n b b2 a -> b1 = b2.
Proof. exact (rule_move_deterministic n b b1 b2 a). Qed.
Theorem C09_SlidingTile_inv_reset n draws key : 0 < n -> valid_draws n (gen_start n) draws = true -> Inv n (bd (gen_state n draws key)).
Proof. exact (fun H V => proj1 (gen_state_Good n draws key H V)). Qed.
Theorem C09_SlidingTile_inv_step n T rw s a : Inv n (bd s) -> 0 <= a < 4 -> Inv n (bd (nxt n T rw s a)).
Proof. exact (step_Inv n T rw s a). Qed.
Print Assumptions C09_SlidingTile_step_follows_rules.
Example C09_SlidingTile_nonvacuous :
  let s0 := gen_state 3 [0; 3; 0] [7; 9] in
  inv_b 3 (puz s0) (blank s0) = true /\ puz s0 = [[1; 0; 3]; [4; 2; 5]; [7; 8; 6]]
  /\ puz (nxt 3 5 0 s0 2) = [[1; 2; 3]; [4; 0; 5]; [7; 8; 6]] /\ blank (nxt 3 5 0 s0 2) = (1, 1) /\ nxt 3 5 0 s0 0 = mkS (puz s0) (0, 1) 1 [7; 9].
Proof. vm_compute. repeat split; reflexivity. Qed.
