(* C09 SlidingTilePuzzle over the environment AS TRANSLATED FROM /repo's CURRENT SOURCE on every run (Gen/SlidingTileSrc.v, from the `ast`
   of sliding_tile_puzzle/env.py, reward.py, types.py, constants.py: the whole `step`, `_move_empty_tile`, `_get_valid_actions`, both
   reward functions, `reset` after the generator call; timestep constructors = the source-translated ones of jumanji/types.py).
   The translated step equals the hand model for every n x n board, blank position, action, time limit and reward function; the
   move and mask functions for EVERY board (no shape hypothesis), so every SlidingTile theorem holds of the code as written. *)
Require Import JV.Base.Prelude JV.Base.JaxIndex JV.Base.Codec JV.Base.TimeStep JV.Gen.TimeStepSrc JV.Gen.SlidingTileSrc.
Require Import JV.Proofs.SlidingTile JV.Proofs.SlidingTile_Src.
Require JV.Model.SlidingTile.

Theorem C09_SlidingTile_Source_step_is_model n T rw key s a :
  0 < n -> wf n (s_puzzle s) -> JV.Model.SlidingTile.in_grid n (s_empty_tile_position s) = true ->
  let r := step n T (JV.Model.SlidingTile.goal n) (reward_src rw) s a in
  (conv key (fst r), snd r, conv_obs (step_obs n (JV.Model.SlidingTile.goal n) s a)) = JV.Model.SlidingTile.step n T rw (conv key s) a.
Proof. intros Hn W He. exact (step_src n T rw key s a W He (goal_wf n Hn)). Qed.
Print Assumptions C09_SlidingTile_Source_step_is_model.
Theorem C09_SlidingTile_Source_reset_is_model n key s :
  (conv key (fst (reset_from n s)), snd (reset_from n s), conv_obs (reset_obs n s)) = JV.Model.SlidingTile.reset n (conv key s).
Proof. exact (reset_src n key s). Qed.
Theorem C09_SlidingTile_Source_move_is_model n g e a :
  move_empty_tile n g e a = JV.Model.SlidingTile.move_empty n g e a.
Proof. exact (move_src n g e a). Qed.
Print Assumptions C09_SlidingTile_Source_move_is_model.
Theorem C09_SlidingTile_Source_rewards_are_model n gl s s' a :
  wf n (s_puzzle s) -> wf n (s_puzzle s') -> wf n gl ->
  DenseRewardFn s a s' gl = JV.Model.SlidingTile.dense_reward (s_puzzle s) (s_puzzle s') gl
  /\ SparseRewardFn s a s' gl = JV.Model.SlidingTile.sparse_reward (s_puzzle s') gl.
Proof. intros W1 W2 W3. exact (conj (dense_src n gl s s' a W1 W2 W3) (sparse_src s a s' gl)). Qed.
Print Assumptions C09_SlidingTile_Source_rewards_are_model.
Example C09_SlidingTile_Source_nonvacuous :
  let g := JV.Model.SlidingTile.goal 3 in
  let s := mkState [[1; 2; 3]; [4; 5; 0]; [7; 8; 6]] (1, 2) 0 in
  s_puzzle (fst (step 3 9 g DenseRewardFn s 2)) = g /\ st (snd (step 3 9 g DenseRewardFn s 2)) = LAST
  /\ reward (snd (step 3 9 g DenseRewardFn s 2)) = [2] /\ reward (snd (step 3 9 g SparseRewardFn s 2)) = [1]
  /\ fst (step 3 9 g DenseRewardFn s 1) = mkState (s_puzzle s) (1, 2) 1 /\ get_valid_actions 3 (1, 2) = [true; false; true; true].
Proof. vm_compute. repeat split; reflexivity. Qed.
