(* C09 Snake, growth rule: the model of the code (scatter / clip arithmetic on body_state) agrees with the rule of the
   game stated on the chain of body cells (tail first): a legal move pushes the target cell at the head end; the
   tail cell is dropped unless the target is the fruit; reward 1 and a re-drawn fruit exactly when the fruit is
   eaten, else reward 0 and the fruit stays.  Termination flag: LAST iff illegal move, full board or time limit. *)
Require Import JV.Base.Prelude JV.Base.JaxIndex JV.Base.Codec JV.Base.TimeStep JV.Model.Snake JV.Proofs.Snake JV.Proofs.Snake_rules JV.Proofs.Snake_examples.
Theorem C09_Snake_growth_rule R C T s a d ch :
  Phys R C s -> legal R C s a -> IsChain R C s ch ->
  let s' := fst (step R C T s a d) in
  head s' = target s a /\
  (if eaten s a
   then IsChain R C s' (ch ++ [target s a]) /\ len s' = len s + 1 /\ fruit s' = d /\ reward (snd (step R C T s a d)) = [1]
   else IsChain R C s' (tl ch ++ [target s a]) /\ len s' = len s /\ fruit s' = fruit s
        /\ reward (snd (step R C T s a d)) = [0]).
Proof. exact (growth_rule R C T s a d ch). Qed.
Print Assumptions C09_Snake_growth_rule.
Theorem C09_Snake_termination_rule R C T s a d :
  st (snd (step R C T s a d)) = LAST <->
  (jget false (amask s) a = false \/ all_true (body (fst (step R C T s a d))) = true \/ T <= steps s + 1).
Proof. exact (step_type_spec R C T s a d). Qed.
Theorem C09_Snake_chain_head R C s ch : Phys R C s -> IsChain R C s ch -> last ch (0, 0) = head s.
Proof. exact (chain_head_last R C s ch). Qed.
Example C09_Snake_nonvacuous :
  IsChain 3 3 e1 [(1, 0); (1, 1)] /\ IsChain 3 3 e2 [(1, 0); (1, 1); (1, 2)] /\ IsChain 3 3 e3 [(1, 1); (1, 2); (0, 2)].
Proof. exact ex_chain. Qed.
