(* C09 Snake over the environment AS TRANSLATED FROM /repo's CURRENT SOURCE on every run (Gen/SnakeSrc.v, from the `ast` of snake/env.py
   and types.py: the whole `step`, `_get_action_mask`, `_update_head_position`, `Position.__eq__/__add__`, `MOVES`; the fruit sampler is
   the oracle `draw`; timestep constructors = the source-translated ones of jumanji/types.py).  The translated step equals the hand
   model for EVERY board, state, action and draw, so every Snake theorem holds of the code as written. *)
Require Import JV.Base.Prelude JV.Base.JaxIndex JV.Base.Codec JV.Base.TimeStep JV.Gen.TimeStepSrc JV.Gen.SnakeSrc JV.Proofs.Snake_Src.
Require JV.Model.Snake.
(* the fruit sampler is an oracle OF THE BODY PLANE IT IS GIVEN: the translated step hands it the body after the move (new_body) *)
Theorem C09_Snake_Source_step_is_model R C T (draw : list (list bool) -> Z * Z) s a :
  let d := draw (new_body R C T s a) in
  let r := step R C T draw s a in
  conv (fst r) = fst (JV.Model.Snake.step R C T (conv s) a d) /\ snd r = snd (JV.Model.Snake.step R C T (conv s) a d).
Proof. exact (step_src R C T draw s a). Qed.
Print Assumptions C09_Snake_Source_step_is_model.
Theorem C09_Snake_Source_head_is_model hd a :
  update_head_position hd a = JV.Model.Snake.padd hd (JV.Model.Snake.move_of a).
Proof. exact (head_src hd a). Qed.
Example C09_Snake_Source_nonvacuous :
  let bs := [[0; 0; 0]; [1; 2; 0]; [0; 0; 0]] in
  let s := mkState (m_map (fun x => x >? 0) bs) bs (1, 1) (m_map (fun x => x =? 1) bs) (1, 2) 2 5 (get_action_mask 3 3 (1, 1) bs) in
  s_action_mask s = [true; true; true; true]
  /\ s_length (fst (step 3 3 99 (fun _ => (0, 0)) s 1)) = 3 /\ s_fruit_position (fst (step 3 3 99 (fun _ => (0, 0)) s 1)) = (0, 0)
  /\ reward (snd (step 3 3 99 (fun _ => (0, 0)) s 1)) = [1] /\ s_body_state (fst (step 3 3 99 (fun _ => (0, 0)) s 0)) = [[0; 2; 0]; [0; 1; 0]; [0; 0; 0]].
Proof. vm_compute. repeat split; reflexivity. Qed.
