(* C09 Sokoban: on every Physical state and every in-spec action the implementation's step (noop detection with JAX
   gathers, scatters, border tests) equals the declarative push rules [rule_step]: a legal move makes the agent walk,
   pushing at most one box one cell; an illegal one is ignored; reward and termination as documented.  Cell-by-cell
   description of a legal move.  Documentation mismatch on the action order (see the last theorem). *)
Require Import JV.Base.Prelude JV.Base.JaxIndex JV.Base.Codec JV.Base.TimeStep JV.Model.Sokoban JV.Proofs.Sokoban_Grid JV.Proofs.Sokoban JV.Proofs.Sokoban_Levels.
Theorem C09_Sokoban_step_eq_rules G T dense s a :
  Physical G s -> 0 <= a < 4 -> step G T dense s a = rule_step G T dense s a.
Proof. exact (step_eq_rule G T dense s a). Qed.
Print Assumptions C09_Sokoban_step_eq_rules.
Theorem C09_Sokoban_legal_move G T dense s a :
  Physical G s -> 0 <= a < 4 -> legal_b G s a = true ->
  let s' := fst (step G T dense s a) in
  let r1 := ar s + dr a in let c1 := ac s + dc a in
  fixed s' = fixed s /\ ar s' = r1 /\ ac s' = c1 /\ sc s' = sc s + 1
  /\ forall r c, 0 <= r < G -> 0 <= c < G ->
       gat 0 (var s') r c =
       if (gat 0 (var s) r1 c1 =? BOX) && ((r =? r1 + dr a) && (c =? c1 + dc a)) then BOX
       else if (r =? r1) && (c =? c1) then AGENT
       else if (r =? ar s) && (c =? ac s) then EMPTY
       else gat 0 (var s) r c.
Proof. exact (legal_move G T dense s a). Qed.
Print Assumptions C09_Sokoban_legal_move.
Theorem C09_Sokoban_noop_detection_is_legality G s a : Physical G s -> 0 <= a < 4 ->
  detect_noop G (var s) (fixed s) a (ar s) (ac s) = if legal_b G s a then a else NOOP.
Proof. exact (detect_noop_spec G s a). Qed.
(* docs/environments/sokoban.md and the docstring of Sokoban.step say [0,1,2,3] = [Up, Down, Left, Right]; the code
   (constants.MOVES, class docstring, action_spec docstring) implements [Up, Right, Down, Left]: *)
Theorem C09_Sokoban_md_action_order_refuted :
  exists s, Physical 10 s /\ floor 10 (fixed s) (ar s + 1) (ac s) /\ gat 0 (var s) (ar s + 1) (ac s) = EMPTY
            /\ ar (fst (step 10 120 true s 1)) <> ar s + 1
            /\ ar (fst (step 10 120 true s 1)) = ar s /\ ac (fst (step 10 120 true s 1)) = ac s + 1.
Proof. exact md_action_order_refuted. Qed.
Print Assumptions C09_Sokoban_md_action_order_refuted.
(* a push onto a target: reward +1 - 0.1 = 9 tenths *)
Example C09_Sokoban_nonvacuous :
  let s0 := fst gen_simple in
  Physical_b 10 s0 = true /\ legal_b 10 s0 0 = true /\ gat 0 (var s0) 3 2 = BOX
  /\ gat 0 (var (fst (step 10 120 true s0 0))) 2 2 = BOX /\ gat 0 (var (fst (step 10 120 true s0 0))) 3 2 = AGENT
  /\ gat 0 (var (fst (step 10 120 true s0 0))) 4 2 = EMPTY /\ reward (snd (step 10 120 true s0 0)) = [9].
Proof. vm_compute. repeat split; reflexivity. Qed.
