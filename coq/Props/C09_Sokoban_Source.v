(* C09 Sokoban over the environment AS TRANSLATED FROM /repo's CURRENT SOURCE on every run (Gen/SokobanSrc.v, from the `ast` of
   sokoban/env.py, reward.py, types.py, constants.py: the whole `step`, detect_noop_action, update_box_push_action, move_agent with its
   scatters, check_space, in_grid, level_complete, count_targets, both reward functions (in tenths), the constants).  The translated
   step equals the hand model for EVERY pair of grids, agent location, action, time limit and reward function. *)
Require Import JV.Base.Prelude JV.Base.JaxIndex JV.Base.Codec JV.Base.TimeStep JV.Gen.TimeStepSrc JV.Gen.SokobanSrc JV.Proofs.Sokoban_Src.
Require JV.Model.Sokoban.
Theorem C09_Sokoban_Source_step_is_model T dense s a :
  let r := step T (reward_src dense) s a in
  conv (fst r) = fst (JV.Model.Sokoban.step GRID_SIZE T dense (conv s) a) /\ snd r = snd (JV.Model.Sokoban.step GRID_SIZE T dense (conv s) a).
Proof. exact (step_src T dense s a). Qed.
Print Assumptions C09_Sokoban_Source_step_is_model.
Theorem C09_Sokoban_Source_push_rule_is_model vr fx a p :
  detect_noop_action vr fx a p = JV.Model.Sokoban.detect_noop GRID_SIZE vr fx a (fst p) (snd p)
  /\ move_agent vr a p = JV.Model.Sokoban.move_agent vr a (fst p) (snd p).
Proof. exact (conj (noop_src vr fx a p) (move_src vr a p)). Qed.
Theorem C08_Sokoban_Source_rewards_are_model dense s a s' :
  reward_src dense s a s' = JV.Model.Sokoban.reward10 dense (JV.Model.Sokoban.count_targets (s_variable_grid s) (s_fixed_grid s))
                                                        (JV.Model.Sokoban.count_targets (s_variable_grid s') (s_fixed_grid s')).
Proof. exact (reward_fn_src dense s a s'). Qed.
Print Assumptions C08_Sokoban_Source_rewards_are_model.
Example C09_Sokoban_Source_nonvacuous :
  let fx := [[1;1;1;1;1]; [1;0;0;2;1]; [1;1;1;1;1]] in
  let s := mkState fx [[0;0;0;0;0]; [0;3;4;0;0]; [0;0;0;0;0]] (1, 1) 0 in
  s_variable_grid (fst (step 9 DenseReward s 1)) = [[0;0;0;0;0]; [0;0;3;4;0]; [0;0;0;0;0]]
  /\ reward (snd (step 9 DenseReward s 1)) = [9] /\ s_agent_location (fst (step 9 DenseReward s 0)) = (1, 1)
  /\ reward (snd (step 9 DenseReward s 0)) = [-1] /\ reward (snd (step 9 SparseReward s 1)) = [0].
Proof. vm_compute. repeat split; reflexivity. Qed.
