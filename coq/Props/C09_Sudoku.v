(* C09 Sudoku: on every Inv state and for every in-spec action the code's step (mask by one-hot/gather/scatter, solved test by
   sorting rows, columns and BOX_IDX boxes) IS the published rule [rules_step]: write the digit; illegal placement => LAST;
   no legal placement left => LAST; otherwise MID with reward 0; terminal reward 1 iff the grid is complete and conflict-free;
   the new mask is the table of legal placements of the new board.                                                          *)
Require Import JV.Base.Prelude JV.Base.JaxIndex JV.Base.Codec JV.Base.TimeStep JV.Model.Sudoku JV.Proofs.Sudoku.
Theorem C09_Sudoku_step_is_rules s r c d : Inv s -> in_spec r c d -> step s r c d = rules_step s r c d.
Proof. exact (step_is_rules s r c d). Qed.
Print Assumptions C09_Sudoku_step_is_rules.
Theorem C09_Sudoku_solved_is_full_and_valid b :
  shape_b b = true -> is_puzzle_solved b = full_b b && conflict_free_b b.
Proof. exact (solved_spec b). Qed.
Print Assumptions C09_Sudoku_solved_is_full_and_valid.
Example C09_Sudoku_nonvacuous :
  let s0 := fst (init sample_puzzle) in
  st (snd (step s0 0 0 1)) = MID /\ reward (snd (rules_step s0 0 0 1)) = [0]
  /\ cell (board (fst (step s0 0 0 1))) 0 0 = 1 /\ snd (rules_step (fst (init one_hole)) 4 7 2) = termination 1 [1].
Proof. vm_compute. repeat split. Qed.
