(* C09 TSP: the model of the code (clamping gathers, dropping scatters, lax.cond, lax.select chains of both reward functions,
   the OLD trajectory[0] read on the closing step) computes, for every non-terminal state that encodes a partial tour and
   every in-spec action, exactly the published rules [step_rules]: an unvisited city is appended (position, mask,
   trajectory slot, counter), the reward is minus the travelled edge (0 for the first city) plus minus the closing edge on
   the last step (dense) or minus the closed tour length at the end and 0 before (sparse); the episode ends when all cities
   are visited; a visited city ends it with the penalty and changes nothing.  For every distance oracle. *)
Require Import JV.Base.Prelude JV.Base.JaxIndex JV.Base.Codec JV.Base.TimeStep JV.Model.TSP JV.Proofs.TSP_lists JV.Proofs.TSP.
Theorem C09_TSP_step_is_rules n pen dist sparse s a : 0 <= n ->
  Inv n s -> nvis s < n -> 0 <= a < n -> step sparse n pen dist s a = step_rules sparse n pen dist s a.
Proof. intro Hn. exact (C09_step_is_rules n pen dist Hn sparse s a). Qed.
Print Assumptions C09_TSP_step_is_rules.
Example C09_TSP_nonvacuous :
  let s2 := fst (step false 4 99 ex_dist (fst (step false 4 99 ex_dist (fst (init 4 [0; 0; 3; 0; 7; 0; 12; 0])) 2)) 0) in
  Inv_b 4 s2 = true /\ nvis s2 = 2
  /\ step_rules false 4 99 ex_dist s2 3 = (mkS [0; 0; 3; 0; 7; 0; 12; 0] 3 [true; false; true; true] [2; 0; 3; -1] 3, transition 1 [-12])
  /\ step_rules true 4 99 ex_dist s2 3 = (mkS [0; 0; 3; 0; 7; 0; 12; 0] 3 [true; false; true; true] [2; 0; 3; -1] 3, transition 1 [0])
  /\ step_rules false 4 99 ex_dist s2 0 = (s2, termination 1 [-99])
  /\ snd (step_rules false 4 99 ex_dist (fst (step_rules false 4 99 ex_dist s2 3)) 1) = termination 1 [-13]
  /\ snd (step_rules true 4 99 ex_dist (fst (step_rules true 4 99 ex_dist s2 3)) 1) = termination 1 [-32].
Proof. vm_compute. repeat split; reflexivity. Qed.
