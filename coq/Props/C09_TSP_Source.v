(* C09 / C04 / C06 TSP over the environment AS TRANSLATED FROM /repo's CURRENT SOURCE on every run (Gen/TspSrc.v, from the `ast` of tsp/env.py
   and types.py: the STATE part of `step` -- validity from the visited mask, lax.cond into `_update_state` with its two scatters, the
   termination test, the timestep --, `_update_state`, `_state_to_observation`).  The reward function is a parameter (float distances;
   hand-modelled, tied by the correspondence) and is instantiated with the model's reward.  Equality with the hand model for every state,
   action, rounding and distance oracle. *)
Require Import JV.Base.Prelude JV.Base.JaxIndex JV.Base.Codec JV.Base.TimeStep JV.Gen.TimeStepSrc JV.Gen.TspSrc.
Require Import JV.Proofs.TSP_lists JV.Proofs.TSP JV.Proofs.Tsp_Src.
Require JV.Model.TSP.
Theorem C09_TSP_Source_step_is_model rnd sparse n pen dist s a :
  let r := step n (reward_model rnd sparse n pen dist) s a in
  conv (fst r) = fst (JV.Model.TSP.step_r rnd sparse n pen dist (conv s) a) /\ snd r = snd (JV.Model.TSP.step_r rnd sparse n pen dist (conv s) a).
Proof. exact (step_src rnd sparse n pen dist s a). Qed.
Print Assumptions C09_TSP_Source_step_is_model.
Example C09_TSP_Source_nonvacuous :
  let s := mkState [0; 0; 3; 4; 6; 8] 1 [false; true; false] [1; -1; -1] 1 in
  let rf := fun (_ : State) (_ : Z) (_ : State) (v : bool) => if v then 5 else -9 in
  s_trajectory (fst (step 3 rf s 2)) = [1; 2; -1] /\ st (snd (step 3 rf s 2)) = MID /\ st (snd (step 3 rf s 1)) = LAST
  /\ reward (snd (step 3 rf s 1)) = [-9] /\ o_action_mask (state_to_observation s) = [true; false; true].
Proof. vm_compute. repeat split; reflexivity. Qed.
