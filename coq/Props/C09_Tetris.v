(* C09 Tetris: the transition follows the published rules.  For a mask-true in-spec action in a physical state:
   the piece drops to its RESTING ROW y (it can be placed at every row 0..y and not at y+1; the code's
   argmin(possible_positions)-1, with JAX's normalise-and-clamp of -1 when every row is possible, is that row),
   is stamped there, the full rows are deleted and the rows above shift down in order (clear), the reward is
   REWARD_LIST[lines].  place_tetromino = stamp and clean_lines (stable argsort + take_along_axis + zeroing loop) = clear
   hold for EVERY grid / action. *)
Require Import JV.Base.Prelude JV.Base.JaxIndex JV.Base.Codec JV.Base.TimeStep JV.Gen.TetrisConsts JV.Model.Tetris.
Require Import JV.Proofs.Tetris JV.Proofs.Tetris_place JV.Proofs.Tetris_clear JV.Proofs.Tetris_phys JV.Proofs.Tetris_step.
Theorem C09_Tetris_rules nr nc tl s rot x d :
  Physical nr nc s -> 4 <= nr -> 4 <= nc -> 0 <= rot < 4 -> 0 <= x < nc ->
  gget false (amask s) rot x = true ->
  let g := grid s in let t := piece (tidx s) rot in let y := drop_row nr g t x in
  let '(s', ts, _) := step nr nc tl s rot x d in
  rest_row nr g t x y /\ grid s' = clear nc (stamp g t y x (gmax g + 1))
  /\ flines s' = full_lines (stamp g t y x (gmax g + 1)) nc
  /\ reward ts = [jget 0 REWARD_LIST (lines nr nc s rot x)] /\ tidx s' = d /\ new_tet s' = piece d 0
  /\ grid_old s' = g /\ xpos s' = x /\ dyn_start (nr + 3) 4 (ypos s') = y.
Proof. exact (step_legal_rules nr nc tl s rot x d). Qed.
Print Assumptions C09_Tetris_rules.
Theorem C09_Tetris_drop_is_rest_row nr nc g t x :
  Shape nr nc g -> 4 <= nr -> 4 <= nc -> In t all_pieces -> 0 <= x < nc -> can_place nr g t 0 x ->
  rest_row nr g t x (drop_row nr g t x).
Proof. exact (drop_is_rest_row nr nc g t x). Qed.
Print Assumptions C09_Tetris_drop_is_rest_row.
Theorem C09_Tetris_clean_lines nc g : clean_lines g (full_lines g nc) = clear nc g.
Proof. exact (clean_lines_is_clear nc g). Qed.
Print Assumptions C09_Tetris_clean_lines.
Theorem C09_Tetris_place_is_stamp nr nc g t x :
  Shape nr nc g -> 1 <= nr -> 1 <= nc -> In t all_pieces ->
  place_tetromino g t x = (stamp g t (drop_row nr g t x) (dyn_start (nc + 3) 4 x) (gmax g + 1), drop_y g t x).
Proof. exact (place_is_stamp nr nc g t x). Qed.
Print Assumptions C09_Tetris_place_is_stamp.
Theorem C09_Tetris_tables_checked : forallb piece_ok_b all_pieces = true.
Proof. exact pieces_ok. Qed.
Print Assumptions C09_Tetris_tables_checked.
(* the flat I piece: every row is possible, argmin = 0, y_position = -1, clamped to the floor row 3; one line cleared *)
Example C09_Tetris_nonvacuous :
  Physical_b 4 4 ex_s0 = true /\ gget false (amask ex_s0) 1 0 = true /\ ypos ex_s1 = -1 /\ drop_row 4 (grid ex_s0) (piece 0 1) 0 = 3
  /\ rest_row_b 4 (grid ex_s0) (piece 0 1) 0 3 = true /\ flines ex_s1 = [false; false; false; true; false; false; false]
  /\ ypos (fst (fst (step 4 4 9 ex_s1 0 0 0))) = 2.
Proof. vm_compute. repeat split; reflexivity. Qed.
