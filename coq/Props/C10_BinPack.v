(* C10 BinPack (partial).
   Proved: the reset state built from ANY instance is a feasible empty packing (C06_BinPack_init) with FIRST timestep; the verified
   checker Packing_b (sound: C06_BinPack_checker) applied to the solution state of an instance says that all items lie in the
   container and are pairwise disjoint; together with the decidable volume equation this is the exact tiling.  The ToyGenerator
   literal instance is an exact tiling (vm_compute; the harness checks that the literal equals the real generator's data).
   NOT proved in Coq: that the splitting procedure of RandomGenerator (modelled as [gen_spaces] over explicit draws and tied to
   the code by correspondence) yields a tiling for ALL valid draws; the harness evaluates the verified checkers on every
   generated instance instead (all keys sampled). *)
Require Import JV.Base.Prelude JV.Base.JaxIndex JV.Base.Codec JV.Base.TimeStep JV.Model.BinPack JV.Proofs.BinPack_lib JV.Proofs.BinPack JV.Proofs.BinPack_obs.
Theorem C10_BinPack_solution_feasible_partial c sps ms :
  Packing_b (solution_state c sps ms) = true -> Packing (solution_state c sps ms).
Proof. exact (Packing_b_sound (solution_state c sps ms)). Qed.
Theorem C10_BinPack_solution_spaces c sps ms i :
  0 <= i < zlen sps -> ispace (solution_state c sps ms) i = znth sp0 sps i.
Proof. exact (solution_spaces c sps ms i). Qed.
Print Assumptions C10_BinPack_solution_feasible_partial.
Example C10_BinPack_toy_exact_tiling :
  tiling_b toy_container toy_spaces toy_mask = true /\ Packing_b (solution_state toy_container toy_spaces toy_mask) = true
  /\ masked_vol toy_spaces toy_mask = svol toy_container.
Proof. vm_compute. repeat split; reflexivity. Qed.
(* the splitting procedure on explicit draws: split the 8x4x2 container once along x at 5, then the first piece in 2 equal parts
   along y: three items, an exact tiling *)
Example C10_BinPack_nonvacuous :
  let c := make_container 8 4 2 in
  let ds := [mkD AX 0 true 5; mkD AY 0 false 2] in
  gen_spaces 4 2 c ds = ([mkSp 0 5 0 2 0 2; mkSp 5 8 0 4 0 2; mkSp 0 5 2 4 0 2; mkSp 0 8 0 4 0 2], [true; true; true; false])
  /\ draws_valid 4 2 ds (repeat c 4, [true; false; false; false]) = (true, 2)
  /\ tiling_b c (fst (gen_spaces 4 2 c ds)) (snd (gen_spaces 4 2 c ds)) = true
  /\ tiling_b c [mkSp 0 5 0 2 0 2; mkSp 4 8 0 4 0 2] [true; true] = false.
Proof. vm_compute. repeat split; reflexivity. Qed.
