(* C10 BinPack.  Generated instances are solvable as advertised.
   RandomGenerator (generator.py: _split_container_into_items_spaces, _split_item_once, _split_item_multiple_times, modelled over
   explicit draws as [gen_spaces]; the correspondence with the code is checked by the harness on every sampled key, the draws
   being recovered from the implementation).  For EVERY container with non-zero volume, every max_num_items >= 1,
   split_num_same_items >= 1, ANY number of loop iterations and ALL draws the code can make ([valid_draw]: a masked item with
   positive length on the drawn axis, a split coordinate inside the item / a number of equal parts in [1, split_num_same_items]):
     - the masked item spaces are an EXACT TILING of the container: each lies inside the container and is non-empty, any two are
       disjoint, and their volumes add up to the container volume (C10_BinPack_random_generator_tiling); in particular the free
       slot chosen by jnp.argmin(items_mask) is always a genuinely free one (slot 0 is never overwritten);
     - generate_solution (every item placed at its generated position) satisfies the C06 Packing invariant, places every item
       of the instance and has utilisation 1 (C10_BinPack_solution_feasible);
     - the boolean checker tiling_b evaluated by the harness on each generated instance decides exactly this predicate
       (C10_BinPack_tiling_checker) and is true on all valid draws (C10_BinPack_random_generator_checker).
   ToyGenerator: the literal instance (the harness checks that the literal equals the real generator's data) is an exact tiling,
   its solution is feasible and complete.  CSVGenerator has no shipped data file: it resets to the parsed user instance; the
   flattening of the rows (quantity copies of each item, in file order: [csv_items], compared with the real parser by the harness)
   has sum-of-quantities items, each one from a row (C10_BinPack_csv_items_count / _from_rows), and the reset state is a feasible
   empty packing (C10_BinPack_csv_reset); the example instance of the class docstring is evaluated literally
   (C10_BinPack_csv_docstring_instance; the harness checks that the literal is the docstring's and round-trips a generated instance).
   The reset state built from ANY instance is a feasible empty packing with a FIRST timestep (C06_BinPack_init, C03).
   Model limits (see Model/BinPack.v): coordinates below 2^24 (int32 / float32 round trips of the code are the identity there). *)
Require Import JV.Base.Prelude JV.Base.JaxIndex JV.Base.Codec JV.Base.TimeStep JV.Model.BinPack JV.Proofs.BinPack_lib JV.Proofs.BinPack JV.Proofs.BinPack_obs JV.Proofs.BinPack_gen.

Theorem C10_BinPack_random_generator_tiling n same c ds :
  1 <= n -> 1 <= same -> sp_empty c = false ->
  fst (draws_valid n same ds (repeat c (Z.to_nat n), true :: repeat false (Z.to_nat n - 1))) = true ->
  let sps := fst (gen_spaces n same c ds) in let ms := snd (gen_spaces n same c ds) in
  zlen sps = n /\ zlen sps = zlen ms /\
  (forall i, znth false ms i = true -> sp_incl (znth sp0 sps i) c = true /\ sp_empty (znth sp0 sps i) = false) /\
  (forall i j, i <> j -> znth false ms i = true -> znth false ms j = true ->
               sp_intersect (znth sp0 sps i) (znth sp0 sps j) = false) /\
  masked_vol sps ms = svol c.
Proof. exact (random_generator_exact_tiling n same c ds). Qed.

Theorem C10_BinPack_solution_feasible n same c ds :
  1 <= n -> 1 <= same -> sp_empty c = false ->
  fst (draws_valid n same ds (repeat c (Z.to_nat n), true :: repeat false (Z.to_nat n - 1))) = true ->
  let s := solution_state c (fst (gen_spaces n same c ds)) (snd (gen_spaces n same c ds)) in
  Packing s /\ items_placed s = items_mask s /\ pvol s = svol (container s).
Proof. exact (random_generator_solution n same c ds). Qed.

(* any instance whose item spaces tile the container (whatever produced it) has a feasible complete solution *)
Theorem C10_BinPack_tiling_solution c sps ms :
  exact_tiling c sps ms ->
  Packing (solution_state c sps ms) /\
  items_placed (solution_state c sps ms) = items_mask (solution_state c sps ms) /\
  pvol (solution_state c sps ms) = svol (container (solution_state c sps ms)).
Proof. exact (exact_tiling_solution c sps ms). Qed.

Theorem C10_BinPack_tiling_checker c sps ms :
  zlen sps = zlen ms -> (tiling_b c sps ms = true <-> exact_tiling c sps ms).
Proof. exact (tiling_b_iff c sps ms). Qed.

Theorem C10_BinPack_random_generator_checker n same c ds :
  1 <= n -> 1 <= same -> sp_empty c = false ->
  fst (draws_valid n same ds (repeat c (Z.to_nat n), true :: repeat false (Z.to_nat n - 1))) = true ->
  tiling_b c (fst (gen_spaces n same c ds)) (snd (gen_spaces n same c ds)) = true.
Proof. exact (random_generator_tiling_b n same c ds). Qed.

Theorem C10_BinPack_solution_spaces c sps ms i :
  0 <= i < zlen sps -> ispace (solution_state c sps ms) i = znth sp0 sps i.
Proof. exact (solution_spaces c sps ms i). Qed.

(* ToyGenerator *)
Theorem C10_BinPack_toy_tiling : exact_tiling toy_container toy_spaces toy_mask.
Proof. exact toy_exact_tiling. Qed.
Theorem C10_BinPack_toy_solution :
  Packing (solution_state toy_container toy_spaces toy_mask) /\
  items_placed (solution_state toy_container toy_spaces toy_mask) = items_mask (solution_state toy_container toy_spaces toy_mask) /\
  pvol (solution_state toy_container toy_spaces toy_mask) = svol toy_container.
Proof. exact (exact_tiling_solution toy_container toy_spaces toy_mask toy_exact_tiling). Qed.

(* CSVGenerator *)
Theorem C10_BinPack_csv_items_count rows :
  zlen (csv_items rows) = zsum (map (fun r : item * Z => Z.max 0 (snd r)) rows).
Proof. exact (csv_items_length rows). Qed.
Theorem C10_BinPack_csv_items_from_rows i rows : In i (csv_items rows) <-> exists q, In (i, q) rows /\ 0 < q.
Proof. exact (csv_items_In i rows). Qed.
Theorem C10_BinPack_csv_reset obs c max_ems rows : 0 < max_ems ->
  Packing (fst (init obs c max_ems (csv_items rows) (repeat true (length (csv_items rows))))).
Proof. exact (csv_reset_Packing obs c max_ems rows). Qed.

Print Assumptions C10_BinPack_random_generator_tiling.
Print Assumptions C10_BinPack_csv_reset.
Print Assumptions C10_BinPack_solution_feasible.
Print Assumptions C10_BinPack_tiling_checker.
Print Assumptions C10_BinPack_random_generator_checker.
Print Assumptions C10_BinPack_toy_solution.

Example C10_BinPack_toy_exact_tiling :
  tiling_b toy_container toy_spaces toy_mask = true /\ Packing_b (solution_state toy_container toy_spaces toy_mask) = true
  /\ masked_vol toy_spaces toy_mask = svol toy_container /\ svol toy_container = 30089620000 /\ count_true toy_mask = 20.
Proof. vm_compute. repeat split; reflexivity. Qed.
(* the splitting procedure on explicit draws: split the 8x4x2 container once along x at 5, then the first piece in 2 equal parts
   along y: three items, an exact tiling; the hypotheses of the theorems are met (all draws valid) and the checker is not
   trivially true (two overlapping boxes are rejected) *)
Example C10_BinPack_nonvacuous :
  let c := make_container 8 4 2 in
  let ds := [mkD AX 0 true 5; mkD AY 0 false 2] in
  gen_spaces 4 2 c ds = ([mkSp 0 5 0 2 0 2; mkSp 5 8 0 4 0 2; mkSp 0 5 2 4 0 2; mkSp 0 8 0 4 0 2], [true; true; true; false])
  /\ sp_empty c = false
  /\ draws_valid 4 2 ds (repeat c 4, [true; false; false; false]) = (true, 2)
  /\ tiling_b c (fst (gen_spaces 4 2 c ds)) (snd (gen_spaces 4 2 c ds)) = true
  /\ tiling_b c [mkSp 0 5 0 2 0 2; mkSp 4 8 0 4 0 2] [true; true] = false.
Proof. vm_compute. repeat split; reflexivity. Qed.
(* an equal split with more parts than millimetres (length 2 in 5 parts) creates empty pieces: they are masked out again and the
   remaining items still tile the container; an invalid draw (split coordinate outside the item) is rejected by valid_draw and
   would break the tiling *)
Example C10_BinPack_nonvacuous_empty_pieces :
  let c := make_container 2 1 1 in
  gen_spaces 8 5 c [mkD AX 0 false 5] =
    ([mkSp 0 0 0 1 0 1; mkSp 0 0 0 1 0 1; mkSp 0 1 0 1 0 1; mkSp 1 1 0 1 0 1; mkSp 1 2 0 1 0 1; c; c; c],
     [false; false; true; false; true; false; false; false])
  /\ draws_valid 8 5 [mkD AX 0 false 5] (repeat c 8, true :: repeat false 7) = (true, 1)
  /\ tiling_b c (fst (gen_spaces 8 5 c [mkD AX 0 false 5])) (snd (gen_spaces 8 5 c [mkD AX 0 false 5])) = true
  /\ draws_valid 8 5 [mkD AX 0 true 3] (repeat c 8, true :: repeat false 7) = (false, 1)
  /\ tiling_b c (fst (gen_spaces 8 5 c [mkD AX 0 true 3])) (snd (gen_spaces 8 5 c [mkD AX 0 true 3])) = false.
Proof. vm_compute. repeat split; reflexivity. Qed.
(* the instance of CSVGenerator's docstring in the default 20-ft container: 8 items, each fits the container on its own, total
   volume 1585950000 <= container volume, every item is offered at reset (the whole first mask row is true) *)
Example C10_BinPack_csv_docstring_instance :
  let its := csv_items csv_doc_rows in
  its = repeat (mkIt 1080 760 300) 5 ++ repeat (mkIt 1100 430 250) 3
  /\ forallb (fun i => fits i (item_of toy_container)) its = true
  /\ zsum (map ivol its) = 1585950000 /\ (zsum (map ivol its) <=? svol toy_container) = true
  /\ action_mask (fst (init 1 toy_container 10 its (repeat true 8))) = [repeat true 8]
  /\ Packing_b (fst (init 1 toy_container 10 its (repeat true 8))) = true.
Proof. vm_compute. repeat split; reflexivity. Qed.
