(* C10 CVRP: for EVERY draw of the generator (n+1 demands in [1,max_demand], 2(n+1) coordinates in [0,1) on the grid of scale
   sc) with max_demand <= max_capacity, the reset state is well-formed: depot demand 0, customers' demands in [1,max_demand] and
   never above the capacity, vehicle full and at the depot, empty route, DEPOT-filled trajectory of 2n slots, FIRST timestep,
   and it satisfies the invariant of C06.  (That real draws are in range and depend on the key is checked by the harness.) *)
Require Import JV.Base.Prelude JV.Base.JaxIndex JV.Base.Codec JV.Base.TimeStep JV.Model.CVRP JV.Proofs.CVRP.
Theorem C10_CVRP_init_wf n mc maxd sc draw coords : 1 <= n -> 0 <= mc -> maxd <= mc ->
  valid_draw n maxd sc draw coords = true ->
  let s0 := fst (init n mc draw) in
  Inv n mc s0 [] /\ znth 0 (demands s0) 0 = 0
  /\ (forall i, 1 <= i <= n -> 1 <= znth 0 (demands s0) i <= maxd /\ znth 0 (demands s0) i <= mc)
  /\ cap s0 = mc /\ pos s0 = 0 /\ nvis s0 = 1 /\ traj s0 = repeat 0 (Z.to_nat (2 * n))
  /\ (forall x, In x coords -> 0 <= x < sc) /\ zlen coords = 2 * (n + 1)
  /\ snd (init n mc draw) = restart 1.
Proof. exact (C10_init_wf n mc maxd sc draw coords). Qed.
Print Assumptions C10_CVRP_init_wf.
Example C10_CVRP_nonvacuous :
  valid_draw 2 2 1024 [1; 2; 2] [0; 1023; 5; 6; 7; 8] = true /\ valid_draw 2 2 1024 [1; 3; 2] [0; 1023; 5; 6; 7; 8] = false
  /\ valid_draw 2 2 1024 [1; 2; 2] [0; 1024; 5; 6; 7; 8] = false /\ instance_b 2 3 2 (fst (init 2 3 [1; 2; 2])) = true.
Proof. vm_compute. repeat split; reflexivity. Qed.
