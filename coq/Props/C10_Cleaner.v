(* C10 Cleaner: for EVERY rows x cols maze over {EMPTY, WALL} handed over by the shared maze generator (modelled in
   Model/MazeGen.v, not here) the reset state satisfies the invariant: upper-left cell CLEAN (free), all agents on it,
   step_count 0, maze walls become WALL and every other cell is DIRTY.  The flood-fill checker run on every generated
   grid is sound: if it answers true, every non-wall cell is reachable from (0,0) by a sequence of legal moves.
   The `_partial` theorem below is only the checker's soundness; that the generator's mazes ARE connected, for all sizes and
   all valid draws, is proved in Proofs/Maze_GenTotal.v and transferred to Cleaner's reset grid by
   Props/C10_Cleaner_Generated.v (C10_Cleaner_generated_all_reachable), which closes the gap.  Name kept for stability. *)
Require Import JV.Base.Prelude JV.Base.JaxIndex JV.Base.Codec JV.Base.TimeStep JV.Model.Cleaner JV.Proofs.Cleaner.
Theorem C10_Cleaner_init_Inv c maze :
  0 < rows c -> 0 < cols c -> 0 <= nag c ->
  dims maze (rows c) (cols c) -> Forall (Forall maze_ok) maze ->
  Inv c (fst (init c maze)) /\ locs (fst (init c maze)) = repeat (0, 0) (Z.to_nat (nag c))
  /\ cnt (fst (init c maze)) = 0 /\ gat 0 (grid (fst (init c maze))) 0 0 = CLEAN.
Proof. exact (C10_init_Inv c maze). Qed.
Print Assumptions C10_Cleaner_init_Inv.
Theorem C10_Cleaner_init_cells c maze r k :
  dims maze (rows c) (cols c) -> Forall (Forall maze_ok) maze -> 0 <= r < rows c -> 0 <= k < cols c ->
  gat 0 (grid (fst (init c maze))) r k
  = if (r =? 0) && (k =? 0) then CLEAN else if gat 0 maze r k =? 1 then WALL else DIRTY.
Proof. exact (C10_init_cells c maze r k). Qed.
Theorem C10_Cleaner_connected_checker_sound_partial R C g :
  connected_b R C g = true ->
  forall r k, 0 <= r < R -> 0 <= k < C -> gat 0 g r k <> WALL -> reach R C g (r, k).
Proof. exact (C10_connected_b_sound R C g). Qed.
Print Assumptions C10_Cleaner_connected_checker_sound_partial.
Example C10_Cleaner_nonvacuous :
  grid ex_s0 = [[1; 0; 0]; [2; 2; 0]] /\ locs ex_s0 = [(0, 0); (0, 0)] /\ Inv_b ex_cfg ex_s0 = true
  /\ fresh_b ex_cfg ex_s0 = true /\ connected_b 2 3 (grid ex_s0) = true
  /\ connected_b 2 3 [[1; 2; 0]; [2; 2; 0]] = false.
Proof. vm_compute. repeat split; reflexivity. Qed.
