(* C10 Cleaner on the shared recursive-division generator (generator.py: maze = generate_maze(num_cols, num_rows, key);
   grid = _adapt_values(maze); grid[0, 0] = CLEAN; agents at (0,0)), UNCONDITIONAL: for all sizes >= 1x1 and all valid
   generator draw sequences (at least gen_fuel cols rows = max 1 ((cols/2)*(rows/2)) draws, the loop's proven fuel bound) the maze handed to the Cleaner
   generator is a well-shaped {0,1} array (so C10_Cleaner_init_Inv applies) and EVERY non-wall tile of the reset grid is
   reachable from the agents' start (0,0) by a sequence of legal moves: the instance can be cleaned entirely.
   [C10_Cleaner_connected_maze_all_reachable] is the bridge for any Connected boolean maze.
   Proofs: Proofs/Maze_GenTotal.v (stack capacity, termination, connectivity), Proofs/Maze_GenCleaner.v (bridge). *)
Require Import JV.Base.Prelude JV.Base.JaxIndex JV.Base.Codec JV.Base.TimeStep JV.Model.MazeGen JV.Proofs.MazeGen JV.Proofs.Maze_GenTotal JV.Proofs.Maze_GenCleaner.
Require JV.Model.Cleaner JV.Proofs.Cleaner.
Theorem C10_Cleaner_generated_all_reachable c draws :
  1 <= Model.Cleaner.rows c -> 1 <= Model.Cleaner.cols c ->
  draws_valid (gen_start (Model.Cleaner.cols c) (Model.Cleaner.rows c)) draws = true ->
  gen_fuel (Model.Cleaner.cols c) (Model.Cleaner.rows c) <= zlen draws ->
  let mz := zmaze (maze (fst (generate_maze (Model.Cleaner.cols c) (Model.Cleaner.rows c) draws))) in
  let s := fst (Model.Cleaner.init c mz) in
  Model.Cleaner.dims mz (Model.Cleaner.rows c) (Model.Cleaner.cols c) /\ Forall (Forall Proofs.Cleaner.maze_ok) mz
  /\ forall r k, 0 <= r < Model.Cleaner.rows c -> 0 <= k < Model.Cleaner.cols c ->
                 gat 0 (Model.Cleaner.grid s) r k <> Model.Cleaner.WALL ->
                 Proofs.Cleaner.reach (Model.Cleaner.rows c) (Model.Cleaner.cols c) (Model.Cleaner.grid s) (r, k).
Proof. exact (cleaner_generated_all_reachable c draws). Qed.
Print Assumptions C10_Cleaner_generated_all_reachable.
Theorem C10_Cleaner_connected_maze_all_reachable c w :
  wf_walls (Model.Cleaner.rows c) (Model.Cleaner.cols c) w -> free (Model.Cleaner.rows c) (Model.Cleaner.cols c) w 0 0 ->
  Connected (Model.Cleaner.rows c) (Model.Cleaner.cols c) w ->
  forall r k, 0 <= r < Model.Cleaner.rows c -> 0 <= k < Model.Cleaner.cols c ->
    gat 0 (Model.Cleaner.grid (fst (Model.Cleaner.init c (zmaze w)))) r k <> Model.Cleaner.WALL ->
    Proofs.Cleaner.reach (Model.Cleaner.rows c) (Model.Cleaner.cols c) (Model.Cleaner.grid (fst (Model.Cleaner.init c (zmaze w)))) (r, k).
Proof. exact (connected_all_reachable c w). Qed.
Example C10_Cleaner_Generated_nonvacuous :
  let c := Model.Cleaner.mkC 4 4 2 16 2 in
  let draws := [(1, 0); (3, 0); (1, 0)] ++ repeat (0, 0) 13 in
  draws_valid (gen_start 4 4) draws = true /\ gen_fuel 4 4 <= zlen draws
  /\ Model.Cleaner.grid (fst (Model.Cleaner.init c (zmaze (maze (fst (generate_maze 4 4 draws))))))
     = [[1; 0; 0; 0]; [0; 2; 0; 2]; [0; 2; 0; 0]; [0; 2; 0; 2]]
  /\ Model.Cleaner.connected_b 4 4 [[1; 0; 0; 0]; [0; 2; 0; 2]; [0; 2; 0; 0]; [0; 2; 0; 2]] = true.
Proof. vm_compute. repeat split; try reflexivity; discriminate. Qed.
