(* C10 Connector.
   RandomWalkGenerator ("guaranteed to be solvable") is REFUTED on the faithful model: valid draws can pick, for a later
   agent, an EMPTY start cell whose neighbours are all taken; no first move is available, jax.random.choice with an
   all-zero p returns the padded -1, which is (a) written with .at[-1] to the LAST cell of the flat grid and (b) stored
   as position (-1, G-1).  In the witness the walk ends with that agent's target OFF the grid, so NO sequence of joint
   actions ever connects it (for every time limit).  The harness finds the same on the real generator (default
   10 x 10 / 10 agents included) and also boards whose target is on the grid but walled in.
   Positive part: the solvability certificate is sound by construction (the plan read off the generator's own solved
   board is played in the model and all agents must be connected at the end); it is run on every generated board.
   UniformRandomGenerator is PROVED well-formed for ALL valid draws and all sizes: whenever the draw is 2N distinct flat
   cells of the G x G board (what choice(G*G, (2, N), replace=False) returns), the generated state is Physical (one
   entity per cell, POSITION k at agent k's stored head, TARGET k at its stored target, everything else EMPTY) and fresh
   (step 0, every agent at its start, no PATH cell, heads and targets on 2N distinct cells, exactly 2N occupied cells).
   The model over recovered draws is also compared with the implementation on every generated state. *)
Require Import JV.Base.Prelude JV.Base.JaxIndex JV.Base.Codec JV.Base.TimeStep JV.Model.Connector JV.Proofs.Connector
  JV.Proofs.Connector_Uniform.
Theorem C10_Connector_uniform_wellformed c starts targets :
  0 < gsz c -> uniform_draw_ok (gsz c) (nag c) starts targets = true ->
  Physical c (gen_uniform (gsz c) (nag c) starts targets) /\ fresh_b c (gen_uniform (gsz c) (nag c) starts targets) = true.
Proof. exact (gen_uniform_wellformed c starts targets). Qed.
Print Assumptions C10_Connector_uniform_wellformed.
Theorem C10_Connector_randomwalk_refuted :
  snd wit_init = true
  /\ forallb (fun x => x) (map2 (rw_choice_ok 3 (fst (fst wit_init))) (snd (fst wit_init)) [5; 7; -1]) = true
  /\ rw_continue 3 (snd wit_walk) (fst wit_walk) = false
  /\ forall T plan, Forall (fun a => zlen a = 3) plan -> all_connected (run (mkC 3 3 T 100 (-3)) wit_state plan) = false.
Proof. exact C10_randomwalk_refuted. Qed.
Theorem C10_Connector_certificate_sound c s sg :
  solves c s (plan_of (gsz c) sg (agents s)) = true -> exists plan, all_connected (run c s plan) = true.
Proof. exact (solve_sound c s sg). Qed.
Print Assumptions C10_Connector_randomwalk_refuted.
Print Assumptions C10_Connector_certificate_sound.
Example C10_Connector_nonvacuous :
  wit_init = ([[9; 3; 2]; [6; 0; 0]; [5; 0; 8]],
              [mkA 0 (0, 1) (-1, -1) (0, 2); mkA 1 (1, 0) (-1, -1) (2, 0); mkA 2 (0, 0) (-1, -1) (-1, 2)], true)
  /\ atarget (znth dflt (agents wit_state) 2) = (-1, 2)
  /\ (let s := gen_uniform 3 2 [0; 4] [2; 8] in
      uniform_draw_ok 3 2 [0; 4] [2; 8] = true /\ s = ex_s0 /\ Physical_b ex_cfg s = true /\ fresh_b ex_cfg s = true)
  /\ uniform_draw_ok 3 2 [0; 4] [4; 8] = false
  /\ (let sg := [[2; 1; 3]; [0; 5; 4]; [0; 0; 6]] in
      plan_of 3 sg (agents ex_s0) = [[2; 2]; [2; 3]] /\ solves ex_cfg ex_s0 (plan_of 3 sg (agents ex_s0)) = true).
Proof. vm_compute. repeat split; reflexivity. Qed.
