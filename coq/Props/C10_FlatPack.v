(* C10 FlatPack.
   Full statement (properties.jsonl): every generated block set admits a complete solution -- the blocks exactly tile
   the grid.
   Toy generators: the literal instances of generator.py are well-formed, tile their solved grid, and playing the
   tiling through the model's step (every action accepted by the mask) ends on exactly the generator's solved grid.
   RandomFlatPackGenerator, tiling part (PROVED for every size and every valid draw): the solved grid written by the two
   fill scans and the column / row interlock scans is an exact tiling -- every cell carries one block id in
   1..num_blocks, every block is non-empty, lies in a 3x3 box inside the grid and is 4-connected ([ExactTiling]); the
   verified checker [tiling_ok_b] accepts it, and [tiling_ok_b] is sound for [ExactTiling] on ANY grid (so the harness
   check on the implementation's solved grid means the same thing).
   RandomFlatPackGenerator, solvability part: the full statement is REFUTED (kept below).  For the draws recovered from
   RandomFlatPackGenerator(2,2)(PRNGKey(6)) the block set the generator emits (each block cropped to the top-left of
   its bounding box by _crop_nonzero, rotated, shuffled) has NO exact tiling inside the action space (rows 0..R-3,
   cols 0..C-3, the only starts dynamic_update_slice does not clamp): [solvable_b = false] by vm_compute, and
   [solvable_b_complete] proves the search complete for ALL sizes.
   WHEN it is solvable (PROVED for every size and every valid draw): the generator's own solution (block k back at the
   corner (first_row k, first_col k) of its bounding box, rotation undone) is an exact tiling inside the action space
   <-> it is playable through step (every action accepted by the mask, final grid full) <-> [own_ok_b]: every block's
   bounding-box corner has row <= R-3 and col <= C-3.  [own_ok_b] is therefore a sufficient condition for solvability
   that the harness evaluates on every generated instance; it is not necessary ([own_ok_not_necessary]: a symmetric
   block can be turned by 180 degrees instead).  [own_ok_b] read on the grid: every block of the last block row owns a
   cell of row R-3 and every block of the last block column owns a cell of column C-3 (cropped height / width 3);
   read on the draws ([keeps_top], [keeps_left]): the exact set of interlock draws for which it holds.  In general every [tiles_b]-accepted candidate is a real tiling
   ([tiles_b] sound and complete) and every tiling is playable ([tiles_plays]).                                   *)
Require Import JV.Base.Prelude JV.Base.JaxIndex JV.Base.Codec JV.Base.TimeStep JV.Model.FlatPack JV.Proofs.FlatPack JV.Proofs.FlatPack_Pack JV.Proofs.FlatPack_Solve JV.Proofs.FlatPack_Gen
  JV.Proofs.FlatPack_Tiling JV.Proofs.FlatPack_Plays JV.Proofs.FlatPack_OwnSol JV.Proofs.FlatPack_OwnGrid.
Theorem C10_FlatPack_toy_with_rotation :
  tiling_ok_b 2 2 toy_solved = true /\ inst_wf_b 4 toy_blocks_rot = true /\
  tiles_b toy_cf toy_blocks_rot toy_sol_rot = true /\ plays_b toy_cf toy_blocks_rot (sol_actions toy_sol_rot) = true /\
  grid (fst (run toy_cf (fst (init toy_cf toy_blocks_rot)) (sol_actions toy_sol_rot))) = toy_solved.
Proof. exact toy_rot_ok. Qed.
Theorem C10_FlatPack_toy_no_rotation :
  inst_wf_b 4 toy_blocks_norot = true /\
  tiles_b toy_cf toy_blocks_norot toy_sol_norot = true /\ plays_b toy_cf toy_blocks_norot (sol_actions toy_sol_norot) = true /\
  grid (fst (run toy_cf (fst (init toy_cf toy_blocks_norot)) (sol_actions toy_sol_norot))) = toy_solved.
Proof. exact toy_norot_ok. Qed.
Theorem C10_FlatPack_search_complete cf bl sol :
  3 <= cR cf -> 3 <= cC cf -> 0 <= cN cf -> blocks_ok (cN cf) bl -> tiles cf bl sol -> solvable_b cf bl = true.
Proof. exact (solvable_b_complete cf bl sol). Qed.
Theorem C10_FlatPack_random_generator_exact_tiling nrb ncb cd rd rots perm :
  1 <= nrb -> 1 <= ncb -> valid_draw nrb ncb cd rd rots perm = true ->
  tiling_ok_b nrb ncb (solved_grid nrb ncb cd rd) = true /\ ExactTiling nrb ncb (solved_grid nrb ncb cd rd).
Proof. exact (random_generator_exact_tiling nrb ncb cd rd rots perm). Qed.
Theorem C10_FlatPack_tiling_checker_sound nrb ncb g :
  1 <= nrb -> 1 <= ncb -> tiling_ok_b nrb ncb g = true -> ExactTiling nrb ncb g.
Proof. exact (tiling_ok_b_sound nrb ncb g). Qed.
Theorem C10_FlatPack_tiles_b_sound cf bl sol : tiles_b cf bl sol = true -> tiles cf bl sol.
Proof. exact (tiles_b_sound cf bl sol). Qed.
Theorem C10_FlatPack_tiles_b_complete cf bl sol : tiles cf bl sol -> tiles_b cf bl sol = true.
Proof. exact (tiles_b_complete cf bl sol). Qed.
Theorem C10_FlatPack_tiling_playable cf bl sol :
  3 <= cR cf -> 3 <= cC cf -> 0 <= cN cf -> blocks_ok (cN cf) bl -> tiles cf bl sol ->
  plays_b cf bl (sol_actions sol) = true.
Proof. exact (tiles_plays cf bl sol). Qed.
Theorem C10_FlatPack_random_generator_own_solution nrb ncb K cd rd rots perm :
  1 <= nrb -> 1 <= ncb -> valid_draw nrb ncb cd rd rots perm = true ->
  let sg := solved_grid nrb ncb cd rd in
  let cf := mkC (2 * nrb + 1) (2 * ncb + 1) (nrb * ncb) K in
  let bl := gen_blocks nrb ncb sg rots perm in
  let sol := own_solution nrb ncb sg rots perm in
  (tiles cf bl sol <-> own_ok_b nrb ncb sg = true) /\
  (plays_b cf bl (sol_actions sol) = true <-> own_ok_b nrb ncb sg = true) /\
  (own_ok_b nrb ncb sg = true -> solvable_b cf bl = true).
Proof. exact (random_generator_own_solution nrb ncb K cd rd rots perm). Qed.
Theorem C10_FlatPack_own_ok_grid_iff nrb ncb g : 1 <= nrb -> 1 <= ncb -> tiling_ok_b nrb ncb g = true ->
  (own_ok_b nrb ncb g = true <->
   (forall b, 0 <= b < ncb -> exists j, 0 <= j < 2 * ncb + 1 /\ cell g (2 * nrb + 1 - 3) j = (nrb - 1) * ncb + b + 1) /\
   (forall a, 0 <= a < nrb -> exists i, 0 <= i < 2 * nrb + 1 /\ cell g i (2 * ncb + 1 - 3) = a * ncb + (ncb - 1) + 1)).
Proof. exact (own_ok_grid_iff nrb ncb g). Qed.
Theorem C10_FlatPack_own_ok_draws_iff nrb ncb cd rd rots perm :
  1 <= nrb -> 1 <= ncb -> valid_draw nrb ncb cd rd rots perm = true ->
  (own_ok_b nrb ncb (solved_grid nrb ncb cd rd) = true <->
   forallb (keeps_top nrb ncb cd rd) (zrange ncb) && forallb (keeps_left nrb ncb cd) (zrange nrb) = true).
Proof. exact (own_ok_draws_iff nrb ncb cd rd rots perm). Qed.
Theorem C10_FlatPack_own_ok_not_necessary :
  valid_draw 2 2 nn_cd nn_rd nn_rots nn_perm = true /\
  own_ok_b 2 2 (solved_grid 2 2 nn_cd nn_rd) = false /\
  solvable_b (mkC 5 5 4 0) (gen_blocks 2 2 (solved_grid 2 2 nn_cd nn_rd) nn_rots nn_perm) = true.
Proof. exact own_ok_not_necessary. Qed.
Theorem C10_FlatPack_random_generator_refuted :
  exists cd rd rots perm,
    valid_draw 2 2 cd rd rots perm = true /\
    tiling_ok_b 2 2 (solved_grid 2 2 cd rd) = true /\
    forall sol, ~ tiles toy_cf (gen_blocks 2 2 (solved_grid 2 2 cd rd) rots perm) sol.
Proof. exact random_generator_unsolvable_instance. Qed.
Print Assumptions C10_FlatPack_random_generator_refuted.
Print Assumptions C10_FlatPack_search_complete.
Print Assumptions C10_FlatPack_random_generator_exact_tiling.
Print Assumptions C10_FlatPack_tiling_checker_sound.
Print Assumptions C10_FlatPack_tiles_b_sound.
Print Assumptions C10_FlatPack_tiles_b_complete.
Print Assumptions C10_FlatPack_tiling_playable.
Print Assumptions C10_FlatPack_random_generator_own_solution.
Print Assumptions C10_FlatPack_own_ok_grid_iff.
Print Assumptions C10_FlatPack_own_ok_draws_iff.
Example C10_FlatPack_nonvacuous :
  gen_blocks 2 2 (solved_grid 2 2 w_cd w_rd) w_rots w_perm = w_blocks /\ solvable_b toy_cf toy_blocks_rot = true /\ solvable_b toy_cf w_blocks = false.
Proof. vm_compute. repeat split; reflexivity. Qed.
(* the all-draws theorems are not vacuous: a valid 3 x 2 draw whose own solution IS playable, and the refuted 2 x 2
   draw whose own solution is not *)
Example C10_FlatPack_own_solution_nonvacuous :
  let cd := [[true; false; true; false; false; true; false]] in
  let rd := [[false; false; true; false; false]; [false; true; false; true; false]] in
  let rots := [1; 0; 3; 2; 0; 1] in let perm := [4; 2; 0; 5; 1; 3] in
  let sg := solved_grid 3 2 cd rd in
  valid_draw 3 2 cd rd rots perm = true /\ own_ok_b 3 2 sg = true /\
  tiles_b (mkC 7 5 6 0) (gen_blocks 3 2 sg rots perm) (own_solution 3 2 sg rots perm) = true /\
  own_ok_b 2 2 (solved_grid 2 2 w_cd w_rd) = false /\
  forallb (keeps_top 3 2 cd rd) (zrange 2) && forallb (keeps_left 3 2 cd) (zrange 3) = true /\
  forallb (keeps_top 2 2 w_cd w_rd) (zrange 2) = false.
Proof. vm_compute. repeat split; reflexivity. Qed.
