(* C10 FlatPack.
   Full statement (properties.jsonl): every generated block set admits a complete solution -- the blocks exactly tile
   the grid.
   Toy generators: the literal instances of generator.py are well-formed, tile their solved grid, and playing the
   tiling through the model's step (every action accepted by the mask) ends on exactly the generator's solved grid.
   RandomFlatPackGenerator: REFUTED.  For the draws recovered from RandomFlatPackGenerator(2,2)(PRNGKey(6)) the solved
   grid is a perfect tiling by connected blocks inside their 3x3 windows (tiling_ok_b), but the block set the generator
   emits (each block cropped to the top-left of its 3x3 box by _crop_nonzero, rotated, shuffled) has NO exact tiling
   inside the action space (rows 0..R-3, cols 0..C-3, the only starts dynamic_update_slice does not clamp):
   [solvable_b = false] by vm_compute, and [solvable_b_complete] proves the search complete for ALL sizes.
   Not proved (only checked by the verified boolean [tiling_ok_b] on every generated instance, model and implementation):
   that [solved_grid] is such a tiling for every size and every draw.                                          *)
Require Import JV.Base.Prelude JV.Base.JaxIndex JV.Base.Codec JV.Base.TimeStep JV.Model.FlatPack JV.Proofs.FlatPack JV.Proofs.FlatPack_Pack JV.Proofs.FlatPack_Solve JV.Proofs.FlatPack_Gen.
Theorem C10_FlatPack_toy_with_rotation :
  tiling_ok_b 2 2 toy_solved = true /\ inst_wf_b 4 toy_blocks_rot = true /\
  tiles_b toy_cf toy_blocks_rot toy_sol_rot = true /\ plays_b toy_cf toy_blocks_rot (sol_actions toy_sol_rot) = true /\
  grid (fst (run toy_cf (fst (init toy_cf toy_blocks_rot)) (sol_actions toy_sol_rot))) = toy_solved.
Proof. exact toy_rot_ok. Qed.
Theorem C10_FlatPack_toy_no_rotation :
  inst_wf_b 4 toy_blocks_norot = true /\
  tiles_b toy_cf toy_blocks_norot toy_sol_norot = true /\ plays_b toy_cf toy_blocks_norot (sol_actions toy_sol_norot) = true /\
  grid (fst (run toy_cf (fst (init toy_cf toy_blocks_norot)) (sol_actions toy_sol_norot))) = toy_solved.
Proof. exact toy_norot_ok. Qed.
Theorem C10_FlatPack_search_complete cf bl sol :
  3 <= cR cf -> 3 <= cC cf -> 0 <= cN cf -> blocks_ok (cN cf) bl -> tiles cf bl sol -> solvable_b cf bl = true.
Proof. exact (solvable_b_complete cf bl sol). Qed.
Theorem C10_FlatPack_random_generator_refuted :
  exists cd rd rots perm,
    valid_draw 2 2 cd rd rots perm = true /\
    tiling_ok_b 2 2 (solved_grid 2 2 cd rd) = true /\
    forall sol, ~ tiles toy_cf (gen_blocks 2 2 (solved_grid 2 2 cd rd) rots perm) sol.
Proof. exact random_generator_unsolvable_instance. Qed.
Print Assumptions C10_FlatPack_random_generator_refuted.
Print Assumptions C10_FlatPack_search_complete.
Example C10_FlatPack_nonvacuous :
  gen_blocks 2 2 (solved_grid 2 2 w_cd w_rd) w_rots w_perm = w_blocks /\ solvable_b toy_cf toy_blocks_rot = true /\ solvable_b toy_cf w_blocks = false.
Proof. vm_compute. repeat split; reflexivity. Qed.
