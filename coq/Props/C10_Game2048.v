(* C10 Game2048: for every board size n > 0 and every valid draw (a cell of the empty board, exponent 1 or 2) the reset
   state holds exactly one tile, of value 2 or 4, on the drawn cell, every other cell empty; score 0, step_count 0, the mask
   is the legal set (Inv), the timestep is FIRST.  A valid draw exists for every n > 0. *)
Require Import JV.Base.Prelude JV.Base.JaxIndex JV.Base.Codec JV.Base.TimeStep JV.Model.Game2048
  JV.Proofs.Game2048_Row JV.Proofs.Game2048_Board JV.Proofs.Game2048.
Theorem C10_Game2048_one_tile n idx v : 0 < n -> valid_draw n (zeros_board n) idx v = true ->
  exists s t, init n idx v = Some (s, t) /\ Inv n s /\ first_ok 1 t = true
    /\ board s = add_cell n (zeros_board n) idx v
    /\ count_tiles (board s) = 1 /\ (v = 1 \/ v = 2) /\ total (board s) = 2 ^ v /\ phi_total (board s) = phi v
    /\ score s = 0 /\ step_count s = 0
    /\ (forall i j, 0 <= i < n -> 0 <= j < n ->
          gat 0 (board s) i j = if (i =? idx / n) && (j =? idx mod n) then v else 0).
Proof. exact (init_one_tile n idx v). Qed.
Print Assumptions C10_Game2048_one_tile.
Theorem C10_Game2048_draw_exists n : 0 < n -> valid_draw n (zeros_board n) 0 1 = true.
Proof. exact (valid_draw_exists n). Qed.
Example C10_Game2048_nonvacuous :
  valid_draw 4 (zeros_board 4) 6 2 = true
  /\ init 4 6 2 = Some (mkS [[0;0;0;0];[0;0;2;0];[0;0;0;0];[0;0;0;0]] [true;true;true;true] 0 0, restart 1).
Proof. vm_compute. split; reflexivity. Qed.
