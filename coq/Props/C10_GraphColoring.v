(* C10 GraphColoring: for EVERY draw matrix the generated adjacency is n x n, symmetric and loop-free *)
Require Import JV.Base.Prelude JV.Base.JaxIndex JV.Base.Codec JV.Base.TimeStep JV.Model.GraphColoring JV.Proofs.GraphColoring.
Theorem C10_GraphColoring_generator n draw : 0 <= n -> graph_wf n (gen_adj n draw).
Proof. exact (gen_graph_wf n draw). Qed.
Print Assumptions C10_GraphColoring_generator.
