(* C10 JobShop generators.  RandomGenerator, as a function of its draws (machine ids in [0,M), durations in [1,D], number of
   operations per job in [1,O]): the instance is well-formed - every job has a non-empty PREFIX of real operations whose
   machine ids lie in [0,M) and durations in [1,D]; ops_mask at reset is exactly k < num_ops(j) (prefix-closed); padding is -1 in
   both arrays - and reset on it establishes the clock invariant.  ToyGenerator: the literal 5x4 instance is well-formed for
   the sizes it declares.  (That the implementation's draws are in range is checked on the recovered draws: valid_draw_b.) *)
Require Import JV.Base.Prelude JV.Base.JaxIndex JV.Base.Codec JV.Base.TimeStep JV.Proofs.TimeStep_laws.
Require Import JV.Model.JobShop JV.Proofs.JobShop_lib JV.Proofs.JobShop_step JV.Proofs.JobShop_sched JV.Proofs.JobShop_episode JV.Proofs.JobShop_gen.
Theorem C10_JobShop_random_wf c dm dd nops : 0 <= nj c -> 0 < no c -> valid_draw_b c dm dd nops = true ->
  inst_wf c (fst (init c (fst (gen c dm dd nops)) (snd (gen c dm dd nops)))).
Proof. intros; apply gen_inst_wf; auto. Qed.
Theorem C10_JobShop_random_ops_mask_prefix c dm dd nops j k : 0 <= nj c -> 0 < no c -> valid_draw_b c dm dd nops = true ->
  0 <= j < nj c -> 0 <= k < no c ->
  pend (fst (init c (fst (gen c dm dd nops)) (snd (gen c dm dd nops)))) j k = (k <? znth 0 nops j).
Proof. intros; apply gen_ops_mask; auto. Qed.
Theorem C10_JobShop_random_padding c dm dd nops j k : 0 <= nj c -> 0 < no c ->
  0 <= j < nj c -> 0 <= k < no c -> znth 0 nops j <= k ->
  let s0 := fst (init c (fst (gen c dm dd nops)) (snd (gen c dm dd nops))) in mach s0 j k = -1 /\ dur s0 j k = -1.
Proof. intros; apply gen_padding; auto. Qed.
Theorem C10_JobShop_random_reset_Inv c dm dd nops : 0 <= nj c -> 0 <= nm c -> 0 < no c -> valid_draw_b c dm dd nops = true ->
  Inv c (fst (init c (fst (gen c dm dd nops)) (snd (gen c dm dd nops)))).
Proof. intros; apply gen_init_Inv; auto. Qed.
Theorem C10_JobShop_toy_wf : inst_wf toy_cfg (fst (init toy_cfg toy_mach toy_dur)).
Proof. exact toy_inst_wf. Qed.
Theorem C10_JobShop_toy_reset_Inv : Inv toy_cfg (fst (init toy_cfg toy_mach toy_dur)).
Proof. exact toy_init_Inv. Qed.
Theorem C10_JobShop_checker c s : inst_wf_b c s = true -> inst_wf c s.
Proof. exact (inst_wf_b_spec c s). Qed.
Print Assumptions C10_JobShop_random_reset_Inv.
Example C10_JobShop_nonvacuous :
  let c := mkC 2 2 3 2 in let dm := [[1;0;1];[0;0;1]] in let dd := [[2;1;1];[1;2;2]] in
  valid_draw_b c dm dd [2;3] = true /\ gen c dm dd [2;3] = ([[1;0;-1];[0;0;1]], [[2;1;-1];[1;2;2]])
  /\ valid_draw_b c dm dd [0;3] = false /\ valid_draw_b c [[2;0;1];[0;0;1]] dd [2;3] = false.
Proof. vm_compute. repeat split; reflexivity. Qed.
