(* C10 Knapsack: for EVERY draw of the generator (num_items weights and values in [0,1) on the grid of scale sc) the reset
   state has the declared shapes, weights/values inside the declared [0,1] range, nothing packed, the full budget,
   and the FIRST timestep.  (That the real uniform draws are in [0,1) and depend on the key is checked by the harness.) *)
Require Import JV.Base.Prelude JV.Base.JaxIndex JV.Base.Codec JV.Base.TimeStep JV.Model.Knapsack JV.Proofs.Knapsack.
Theorem C10_Knapsack_init_wf n total sc w v :
  0 <= n -> valid_draw n sc w v = true ->
  let s0 := fst (init n total w v) in
  shape n s0 /\ ranges_b sc s0 = true /\ packed s0 = repeat false (Z.to_nat n) /\ budget s0 = total
  /\ unpacked s0 = n /\ packed_weight s0 = 0 /\ packed_value s0 = 0 /\ snd (init n total w v) = restart 1
  /\ (forall i, 0 <= i < n -> 0 <= znth 0 w i < sc /\ 0 <= znth 0 v i < sc).
Proof. exact (C10_init_wf n total sc w v). Qed.
Print Assumptions C10_Knapsack_init_wf.
Example C10_Knapsack_nonvacuous :
  valid_draw 3 1024 [512; 0; 1023] [100; 200; 300] = true /\ valid_draw 3 1024 [512; 0; 1024] [100; 200; 300] = false.
Proof. vm_compute. split; reflexivity. Qed.
