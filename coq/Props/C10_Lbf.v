(* C10 LevelBasedForaging RandomGenerator (the repaired cell mask), over explicit draws: for EVERY grid size, agent and food
   count and EVERY draw vector of non-zero probability ([valid_draws]: each food index is True in the running mask, the
   agent indices are distinct and True in the food-cell mask, levels in the sampled ranges) the generated state
   satisfies Inv (agents and food on pairwise distinct cells inside the grid, ids 0..n-1, levels in range), step 0, nobody
   loading, nothing eaten, food strictly inside the grid (not on the border), no two foods on the same or on 4-adjacent
   cells, food levels between 1 and the sum of the three lowest agent levels (exactly that sum with force_coop).
   The harness recovers the draws from the implementation's reset state and checks valid_draws + equality.
   NON-VACUITY FOR EVERY ADMITTED CONFIGURATION: under the constructor's own assertions ([constructible]: grid_size >= 5, agents,
   food >= 1, max_agent_level >= 2, (grid_size-2)^2 - num_agents > 5 * num_food) no sampling step ever has an empty support:
   whatever food cells were drawn so far, the running mask keeps a True cell for the next food (each draw clears at most 5 of
   the (grid_size-2)^2 interior cells); whatever the food cells, at least num_agents cells stay True for the
   without-replacement agent draw; hence a valid draw vector exists, every valid partial food sampling extends to one, and
   the well-formedness theorem is never vacuous.  The assertion is what makes this true: on a 5x5 grid (not admitted with 6
   foods) the support is empty after 5 draws (Example C10_Lbf_support_runs_out_unadmitted).
   CHECKER: gen_ok_b (run by the harness on the implementation's reset states) is equivalent to the Prop gen_props on states
   with pairwise distinct food ids; complete unconditionally; NOT sound without distinct ids (refutation witness). *)
From Coq Require Import QArith.
Require Import JV.Base.Prelude JV.Base.JaxIndex JV.Base.Codec JV.Base.TimeStep JV.Model.Lbf JV.Proofs.Lbf JV.Proofs.Lbf_Gen JV.Proofs.Lbf_GenExists JV.Proofs.Lbf_GenSpec.
Open Scope Z_scope.
Theorem C10_Lbf_generated_wellformed c coop d :
  0 < gsz c -> 1 <= nag c -> 0 <= nfood c -> valid_draws c coop d = true -> gen_props c coop (gen c coop d).
Proof. exact (gen_wellformed c coop d). Qed.
Print Assumptions C10_Lbf_generated_wellformed.
Theorem C10_Lbf_food_support_nonempty c ps :
  constructible c -> zlen ps < nfood c -> exists p, pickable (mask_after (gsz c) (food_mask0 (gsz c)) ps) p = true.
Proof. exact (food_support_nonempty c ps). Qed.
Theorem C10_Lbf_agent_support_enough c fps :
  constructible c -> zlen fps = nfood c ->
  exists L, zlen L = nag c /\ nodup_z L = true /\ forallb (pickable (agent_mask (gsz c) fps)) L = true.
Proof. exact (agent_support_enough c fps). Qed.
Theorem C10_Lbf_valid_draws_extend c coop ps :
  constructible c -> food_draws_ok (gsz c) (food_mask0 (gsz c)) ps = true -> zlen ps <= nfood c ->
  exists d, valid_draws c coop d = true /\ firstn (length ps) (d_food d) = ps.
Proof. exact (valid_draws_extend c coop ps). Qed.
Theorem C10_Lbf_valid_draws_exist c coop : constructible c -> exists d, valid_draws c coop d = true.
Proof. exact (valid_draws_exist c coop). Qed.
Theorem C10_Lbf_generated_wellformed_nonvacuous c coop :
  constructible c -> exists d, valid_draws c coop d = true /\ gen_props c coop (gen c coop d).
Proof. exact (gen_nonvacuous c coop). Qed.
Print Assumptions C10_Lbf_food_support_nonempty.
Print Assumptions C10_Lbf_agent_support_enough.
Print Assumptions C10_Lbf_valid_draws_extend.
Print Assumptions C10_Lbf_generated_wellformed_nonvacuous.
(* the boolean checker run on implementation states decides gen_props *)
Theorem C10_Lbf_gen_ok_b_spec c coop s : NoDup (map fid (foods s)) -> (gen_ok_b c coop s = true <-> gen_props c coop s).
Proof. exact (gen_ok_b_spec c coop s). Qed.
Theorem C10_Lbf_gen_ok_b_complete c coop s : gen_props c coop s -> gen_ok_b c coop s = true.
Proof. exact (gen_ok_b_complete c coop s). Qed.
Theorem C10_Lbf_gen_ok_b_without_ids_refuted : exists c coop s, gen_ok_b c coop s = true /\ ~ gen_props c coop s.
Proof. exact gen_ok_b_needs_ids. Qed.
Theorem C10_Lbf_gen_ok_ids_b_spec c coop s :
  gen_ok_ids_b c coop s = true <-> gen_props c coop s /\ NoDup (map fid (foods s)).
Proof. exact (gen_ok_ids_b_spec c coop s). Qed.
Theorem C10_Lbf_gen_ids_distinct c coop d : valid_draws c coop d = true -> NoDup (map fid (foods (gen c coop d))).
Proof. exact (gen_ids_distinct c coop d). Qed.
Theorem C10_Lbf_gen_passes_checker c coop d :
  0 < gsz c -> 1 <= nag c -> 0 <= nfood c -> valid_draws c coop d = true -> gen_ok_b c coop (gen c coop d) = true.
Proof. exact (gen_passes_checker c coop d). Qed.
Print Assumptions C10_Lbf_gen_ok_b_spec.
Print Assumptions C10_Lbf_gen_ok_b_without_ids_refuted.
Print Assumptions C10_Lbf_gen_ok_ids_b_spec.
(* the tightest admitted configurations of the shipped sizes, and an unadmitted one where the support does run out *)
Example C10_Lbf_admitted_nonvacuous :
  constructible (mkC 5 3 1 1 3 true 0%Q false 2) /\ constructible (mkC 6 5 2 1 3 true 0%Q false 2) /\ constructible (mkC 10 33 6 2 5 true 0%Q false 2).
Proof. unfold constructible. cbn [gsz nag nfood maxlvl]. lia. Qed.
Example C10_Lbf_support_runs_out_unadmitted :
  let g := 5 in let ps := [12; 6; 8; 16; 18] in
  food_draws_ok g (food_mask0 g) ps = true
  /\ existsb (pickable (mask_after g (food_mask0 g) ps)) (zrange (g * g)) = false
  /\ ~ constructible (mkC 5 1 6 1 3 true 0%Q false 2).
Proof. split; [vm_compute; reflexivity|]. split; [vm_compute; reflexivity|]. unfold constructible. cbn [gsz nag nfood maxlvl]. lia. Qed.
(* force_coop with two or three agents: every agent is needed (no agent reaches the food level alone) *)
Theorem C10_Lbf_coop_needs_everybody alv x :
  (2 <= length alv <= 3)%nat -> Forall (fun l => 1 <= l) alv -> In x alv -> x < max_food_level alv.
Proof. exact (coop_needs_everybody alv x). Qed.
Print Assumptions C10_Lbf_coop_needs_everybody.
(* observation (not a violation of the documented behaviour "in the worst case 3 agents are needed"): with >= 4 agents
   force_coop does not force cooperation, a level-5 agent eats a food of level 1+1+1 alone *)
Example C10_Lbf_coop_four_agents : max_food_level [1; 5; 1; 1] = 3 /\ 3 <= 5.
Proof. vm_compute. split; [reflexivity|discriminate]. Qed.
Example C10_Lbf_nonvacuous :
  let c := mkC 5 2 2 1 3 true 0%Q false 2 in
  let d := mkD [6; 18] [5; 12] [1; 2] [3; 1] in
  valid_draws c false d = true /\ gen_ok_b c false (gen c false d) = true
  /\ gen c false d = mkS [mkA 0 1 0 1 false; mkA 1 2 2 2 false] [mkF 0 1 1 3 false; mkF 1 3 3 1 false] 0
  (* rejected draws: second food adjacent to the first / on the border, an agent on a food cell, two agents on one cell *)
  /\ valid_draws c false (mkD [6; 7] [5; 12] [1; 2] [3; 1]) = false
  /\ valid_draws c false (mkD [6; 19] [5; 12] [1; 2] [3; 1]) = false
  /\ valid_draws c false (mkD [6; 18] [6; 12] [1; 2] [3; 1]) = false
  /\ valid_draws c false (mkD [6; 18] [5; 5] [1; 2] [3; 1]) = false.
Proof. vm_compute. repeat split; reflexivity. Qed.
