(* C10 LevelBasedForaging RandomGenerator (the repaired cell mask), over explicit draws: for EVERY grid size, agent and food
   count and EVERY draw vector of non-zero probability ([valid_draws]: each food index is True in the running mask, the
   agent indices are distinct and True in the food-cell mask, levels in the sampled ranges) the generated state
   satisfies Inv (agents and food on pairwise distinct cells inside the grid, ids 0..n-1, levels in range), step 0, nobody
   loading, nothing eaten, food strictly inside the grid (not on the border), no two foods on the same or on 4-adjacent
   cells, food levels between 1 and the sum of the three lowest agent levels (exactly that sum with force_coop).
   The harness recovers the draws from the implementation's reset state and checks valid_draws + equality. *)
From Coq Require Import QArith.
Require Import JV.Base.Prelude JV.Base.JaxIndex JV.Base.Codec JV.Base.TimeStep JV.Model.Lbf JV.Proofs.Lbf JV.Proofs.Lbf_Gen.
Open Scope Z_scope.
Theorem C10_Lbf_generated_wellformed c coop d :
  0 < gsz c -> 1 <= nag c -> 0 <= nfood c -> valid_draws c coop d = true -> gen_props c coop (gen c coop d).
Proof. exact (gen_wellformed c coop d). Qed.
Print Assumptions C10_Lbf_generated_wellformed.
(* force_coop with two or three agents: every agent is needed (no agent reaches the food level alone) *)
Theorem C10_Lbf_coop_needs_everybody alv x :
  (2 <= length alv <= 3)%nat -> Forall (fun l => 1 <= l) alv -> In x alv -> x < max_food_level alv.
Proof. exact (coop_needs_everybody alv x). Qed.
Print Assumptions C10_Lbf_coop_needs_everybody.
(* observation (not a violation of the documented behaviour "in the worst case 3 agents are needed"): with >= 4 agents
   force_coop does not force cooperation, a level-5 agent eats a food of level 1+1+1 alone *)
Example C10_Lbf_coop_four_agents : max_food_level [1; 5; 1; 1] = 3 /\ 3 <= 5.
Proof. vm_compute. split; [reflexivity|discriminate]. Qed.
Example C10_Lbf_nonvacuous :
  let c := mkC 5 2 2 1 3 true 0%Q false 2 in
  let d := mkD [6; 18] [5; 12] [1; 2] [3; 1] in
  valid_draws c false d = true /\ gen_ok_b c false (gen c false d) = true
  /\ gen c false d = mkS [mkA 0 1 0 1 false; mkA 1 2 2 2 false] [mkF 0 1 1 3 false; mkF 1 3 3 1 false] 0
  (* rejected draws: second food adjacent to the first / on the border, an agent on a food cell, two agents on one cell *)
  /\ valid_draws c false (mkD [6; 7] [5; 12] [1; 2] [3; 1]) = false
  /\ valid_draws c false (mkD [6; 19] [5; 12] [1; 2] [3; 1]) = false
  /\ valid_draws c false (mkD [6; 18] [6; 12] [1; 2] [3; 1]) = false
  /\ valid_draws c false (mkD [6; 18] [5; 5] [1; 2] [3; 1]) = false.
Proof. vm_compute. repeat split; reflexivity. Qed.
