(* C10 Maze / recursive-division generator.
   (a) reset from valid draws (two distinct flat indices of free cells, as returned by choice(replace=False, p=~walls)):
       the state is Physical, agent <> target, counter 0; if the walls are Connected the agent is linked to the target
       and the origin is free.
   (b) the BFS checker run on every generated maze is sound: connected_b = true => origin free and EVERY free cell
       reachable from (0,0) (hence all free cells mutually reachable).
   (c) generator model over explicit draws, ALL sizes, ALL valid draw sequences of any length: the grid keeps its shape
       and every (even, even) cell -- in particular the origin -- is free (walls only on odd lines).
   (d) generator model, ALL sizes (except 1x1), ALL valid draw sequences: when the loop has emptied the chamber stack the
       maze is Connected (origin free, every free cell reachable from (0,0)).  Named _partial because two facts are
       hypotheses checked on every recorded run by the harness instead of being proved: the loop terminates (stack empty
       after the recorded draws) and the fixed-capacity stack array never overflows ([cap_ok]). *)
Require Import JV.Base.Prelude JV.Base.JaxIndex JV.Base.Codec JV.Base.TimeStep JV.Model.MazeGen JV.Model.Maze JV.Proofs.MazeGen JV.Proofs.MazeGenConn JV.Proofs.Maze.
Theorem C10_Maze_reset_wellformed rows cols w i1 i2 :
  0 < cols -> wf_walls rows cols w -> valid_draw rows cols w i1 i2 = true ->
  let s := fst (gen_init rows cols w i1 i2) in
  Physical rows cols s /\ ~ at_target s /\ sc s = 0
  /\ (Connected rows cols w -> linked rows cols s /\ free rows cols w 0 0).
Proof. exact (gen_init_wf rows cols w i1 i2). Qed.
Print Assumptions C10_Maze_reset_wellformed.
Theorem C10_MazeGen_checker_sound_connected_partial rows cols w :
  connected_b rows cols w = true -> Connected rows cols w.
Proof. exact (connected_b_sound rows cols w). Qed.
Print Assumptions C10_MazeGen_checker_sound_connected_partial.
Theorem C10_MazeGen_all_pairs rows cols w p q :
  Connected rows cols w -> free rows cols w (fst p) (snd p) -> free rows cols w (fst q) (snd q) -> reach rows cols w p q.
Proof. exact (connected_all rows cols w p q). Qed.
Theorem C10_MazeGen_even_cells_free width height draws :
  0 <= width -> 0 <= height -> draws_valid (gen_start width height) draws = true ->
  let m := maze (fst (generate_maze width height draws)) in
  wf_walls height width m /\
  forall r c, 0 <= r < height -> 0 <= c < width -> Z.even r = true -> Z.even c = true -> free height width m r c.
Proof. exact (generate_maze_even_free width height draws). Qed.
Print Assumptions C10_MazeGen_even_cells_free.
Theorem C10_MazeGen_origin_free width height draws :
  0 < width -> 0 < height -> draws_valid (gen_start width height) draws = true ->
  free height width (maze (fst (generate_maze width height draws))) 0 0.
Proof. exact (generate_maze_origin_free width height draws). Qed.
Theorem C10_MazeGen_connected_partial width height draws :
  1 <= width -> 1 <= height -> (2 <= width \/ 2 <= height) ->
  draws_valid (gen_start width height) draws = true ->
  cap_ok (gen_start width height) draws = true ->
  sidx (fst (generate_maze width height draws)) = 0 ->
  Connected height width (maze (fst (generate_maze width height draws))).
Proof. exact (generate_maze_connected width height draws). Qed.
Print Assumptions C10_MazeGen_connected_partial.
Example C10_Maze_nonvacuous :
  let g := generate_maze 4 4 [(1, 0); (3, 0); (1, 0)] in
  draws_valid (gen_start 4 4) [(1, 0); (3, 0); (1, 0)] = true /\ cap_ok (gen_start 4 4) [(1, 0); (3, 0); (1, 0)] = true /\ sidx (fst g) = 0 /\ snd g = []
  /\ maze (fst g) = [[false;false;false;false];[false;true;false;true];[false;true;false;false];[false;true;false;true]]
  /\ connected_b 4 4 (maze (fst g)) = true /\ valid_draw 4 4 (maze (fst g)) 3 12 = true
  /\ valid_draw 4 4 (maze (fst g)) 3 3 = false /\ valid_draw 4 4 (maze (fst g)) 5 3 = false
  /\ connected_b 2 2 [[false;true];[true;false]] = false.
Proof. vm_compute. repeat split; reflexivity. Qed.
